import RaftProps.C09b
import RaftProps.C04b
import RaftProps.C14b
import RaftProofs.RaftNodePD
import RaftModel.RawNode

/-!
# PDGuards — the guards of the discipline layer PD, on the executable node model

`RaftModel/ProtoDisc.lean` (layer **PD** over the abstract protocol) has guards that say what *single
library calls* of raft-rs enforce.  This file proves each of them on the executable node model
(`RaftModel/Raft*.lean`, a line-by-line model of `raft.rs` / `raft_log.rs`, tied to the code by the
differential check), for **every** node state unless a hypothesis is named.  The only state
hypotheses used are
* `RaftLogInv r.raftLog` (the representation invariant of C14) wherever a statement talks about the
  *logical log* `raftLog.abs` (the existing theorems `C14_slice_spec`, `appendEntry_cases`,
  `step_log` need it), and
* `r.raftLog.applied ≤ r.raftLog.lastIndex` in `PD_leaderAppend_proposal` (needed by
  `C09_proposal_filter_shape`: an accepted membership entry must block the rest of its batch).

## guard ↦ theorem(s)

| PD guard (`applyEventD`) | raft-rs call | theorem(s) |
|---|---|---|
| `campaign i`: no membership-change entry in `(applied, committed]` | `Raft::hup`, `has_unapplied_conf_changes` | `PD_campaign` (= `C09_no_campaign_with_unapplied_change` + scan), `PD_campaign_only_when_applied`, `PD_campaign_scan`, `PD_hasUnappliedConfChanges_spec`, `PD_hupScanLow`, `PD_snapshot_covers` |
| `leaderAppend i e`, `isConf e`: `pconf ≤ applied`, then `pconf := index of e` — proposals | `step_leader` proposal filter | `PD_leaderAppend_filter_entry`, `PD_leaderAppend_filter_blocked` (from `C09_proposal_filter_entry`, `Refused`), `PD_leaderAppend_proposal` |
| … — auto-leave | `commit_apply_internal` | `PD_leaderAppend_autoLeave` |
| `win`: `pconf := log.length` | `become_leader` | `PD_win_pendingConfIndex` (= `C09_become_leader_blocks_changes` + `becomeLeader_won`) |
| … — no other writer of a leader's log | `append_entry` has three callers | `PD_leaderLog_step`, `PD_leaderLog_tick`, `PD_leaderLog_onPersistEntries`, `PD_leaderLog_onPersistSnap`, `PD_leaderLog_applyConfChange`, `PD_leaderLog_ping` |
| `sendApp i m`: `m.commit = commit` | `prepare_send_entries`, `try_batching`, `maybe_send_append`, `send_append`, `bcast_append` | `PD_sendApp_prepareSendEntries`, `PD_sendApp_send`, `PD_sendApp_tryBatching`, `PD_sendApp_maybeSendAppend`, `PD_sendApp_sendAppend`, `PD_sendApp_sendAppendAggressively`, `PD_sendApp_bcastAppend` |
| `recvAppC i m`: append and commit to `min(m.commit, last new)` in one call | `handle_append_entries` | `PD_recvAppC` |
| `apply i k`: `applied ≤ k ≤ commit` | `RaftLog::applied_to`, `commit_apply` | `PD_apply_appliedTo`, `PD_apply_appliedTo_ok`, `PD_apply_commitApply`, `PD_apply_advanceApplyTo` (+ `C14_appliedTo_spec`) |
| `restart i a`: `a ≤ dcommit` | `Raft::new`, `RawNode::new` | `PD_restart_new` — **NOT enforced**: `decide`-checked `PD_restart_gap`, `PD_restart_gap_inside_log`, `PD_restart_gap_rawnode` |
| `win i cfg …`: `cfg` is the tracker's configuration | `poll`, `tally_votes` | `PD_own_config`, `PD_win_tally_own_config`, `PD_win_iff_tally` |
| `commitLeader i c cfg …`: likewise | `maybe_commit`, `maximal_committed_index` | `PD_commitLeader_own_config` (= `C04_leader_commit_rule`), `PD_commitLeader_no_commit` |

## not enforced by the model (real gaps, see the examples at the end)

1. **restart**: `Raft::new` applies `Config.applied` through `commit_apply_internal(applied, true)`
   = `applied_to_unchecked`: there is **no** check `applied ≤ committed` (only `applied > 0`).  A node
   can be constructed with `applied` beyond the restored commit index, even beyond its log
   (`PD_restart_gap`).  PD's `restart` guard is a contract on the application, not something the
   library call enforces.
2. **apply**: `applied_to` checks `applied ≤ idx ≤ committed` only; the hand-out bound
   `min(committed, persisted + max_apply_unpersisted_log_limit)` is *not* checked there (the model of
   raft_log.rs:322 has no such test) — harmless for PD, whose guard is `k ≤ commit`
   (`PD_apply_not_bounded_by_persisted`).  `applied_to(0)` is a no-op, not a panic, whatever `applied`
   (`PD_apply_zero_is_noop`).

Non-vacuity of the campaign guard on a concrete node: `PD_campaign_example`.
-/
namespace RaftProps.PDGuards
open RaftModel RaftModel.Raft RaftProps.C09 RaftProps.C14

/-! ## 1. campaign (`Raft::hup`) -/

theorem isConfEntry_iff (e : Entry) : isConfEntry e = true ↔ isConf e := by
  unfold isConfEntry isConf; simp

/-- PD `campaign` / `hup`: where the scan starts — behind the applied index and behind a snapshot
(`max(applied + 1, first_index)`) -/
theorem PD_hupScanLow (r : Raft) :
    r.hupScanLow = max (r.raftLog.applied + 1) r.raftLog.firstIndex := rfl

/-- PD `campaign` / `hup`: below `first_index` the logical log holds no entry — those indexes are
covered by a snapshot, whose configuration is already in force, so they need no scan -/
theorem PD_snapshot_covers (l : RaftLog) (hinv : RaftLogInv l) (i : Nat) (h : i < l.firstIndex) :
    l.abs.entryAt i = none := by
  rw [hinv.firstIndex_abs] at h
  simp only [LLog.firstIndex] at h
  unfold LLog.entryAt
  rw [if_pos (by omega)]

/-- PD `campaign` / `has_unapplied_conf_changes(lo, hi)` (raft.rs:1610): for a log satisfying the
representation invariant and a range inside the log it never fails, and it answers `true` exactly when
`applied < committed` and some entry with index in `[lo, hi)` is a membership-change entry -/
theorem PD_hasUnappliedConfChanges_spec (r : Raft) (hinv : RaftLogInv r.raftLog) (lo hi : Nat)
    (hlo : r.raftLog.firstIndex ≤ lo) (hhi : hi ≤ r.raftLog.lastIndex + 1) :
    ∃ b, r.hasUnappliedConfChanges lo hi = .ok b ∧
      (b = true ↔ r.raftLog.applied < r.raftLog.committed ∧
        ∃ i e, lo ≤ i ∧ i < hi ∧ r.raftLog.abs.entryAt i = some e ∧ isConf e) := by
  unfold Raft.hasUnappliedConfChanges
  by_cases hc : r.raftLog.committed ≤ r.raftLog.applied
  · rw [if_pos hc]
    refine ⟨false, rfl, ?_⟩
    simp only [Bool.false_eq_true, false_iff]
    rintro ⟨h, _⟩
    omega
  · rw [if_neg hc]
    obtain ⟨b, hb, hiff⟩ := scanConf_spec r.raftLog hinv hi r.maxCommittedSizePerReady hhi
      (hi - lo + 1) lo hlo (by omega)
    refine ⟨b, hb, hiff.trans ⟨?_, ?_⟩⟩
    · rintro ⟨i, e, h1, h2, h3, h4⟩
      exact ⟨by omega, i, e, h1, h2, h3, (isConfEntry_iff e).1 h4⟩
    · rintro ⟨_, i, e, h1, h2, h3, h4⟩
      exact ⟨i, e, h1, h2, h3, (isConfEntry_iff e).2 h4⟩

/-- PD `campaign` / the scan of `hup` (raft.rs:1543): it answers `true` exactly when a
membership-change entry lies in `(applied, committed]` -/
theorem PD_campaign_scan (r : Raft) (hinv : RaftLogInv r.raftLog) :
    ∃ b, r.hasUnappliedConfChanges r.hupScanLow (r.raftLog.committed + 1) = .ok b ∧
      (b = true ↔ ∃ i e, r.raftLog.applied < i ∧ i ≤ r.raftLog.committed ∧
        r.raftLog.abs.entryAt i = some e ∧ isConf e) := by
  have hlo : r.raftLog.firstIndex ≤ r.hupScanLow := Nat.le_max_right _ _
  have hlo2 : r.raftLog.applied + 1 ≤ r.hupScanLow := Nat.le_max_left _ _
  obtain ⟨b, hb, hiff⟩ := PD_hasUnappliedConfChanges_spec r hinv r.hupScanLow
    (r.raftLog.committed + 1) hlo (by have := hinv.committed_le_last; omega)
  refine ⟨b, hb, hiff.trans ⟨?_, ?_⟩⟩
  · rintro ⟨_, i, e, h1, h2, h3, h4⟩
    exact ⟨i, e, by omega, by omega, h3, h4⟩
  · rintro ⟨i, e, h1, h2, h3, h4⟩
    refine ⟨by omega, i, e, ?_, by omega, h3, h4⟩
    have hfi : r.raftLog.firstIndex ≤ i := by
      apply Classical.byContradiction
      intro hn
      rw [PD_snapshot_covers r.raftLog hinv i (by omega)] at h3
      cases h3
    exact Nat.max_le.2 ⟨by omega, hfi⟩

/-- **PD guard `campaign`** (`Raft::hup`, raft.rs:1543; timeout, explicit campaign and transfer
alike): while a membership-change entry lies in `(applied, committed]`, `hup` returns the node
unchanged — it does not become (pre-)candidate.  (`C09_no_campaign_with_unapplied_change` + the scan.) -/
theorem PD_campaign (r : Raft) (transfer : Bool) (hinv : RaftLogInv r.raftLog)
    (h : ∃ i e, r.raftLog.applied < i ∧ i ≤ r.raftLog.committed ∧
      r.raftLog.abs.entryAt i = some e ∧ isConf e) :
    r.hup transfer = .ok r := by
  obtain ⟨b, hb, hiff⟩ := PD_campaign_scan r hinv
  have : b = true := hiff.2 h
  subst this
  exact C09_no_campaign_with_unapplied_change r transfer hb

/-- **PD guard `campaign`**, contrapositive: whenever `hup` changes the node at all (in particular
whenever it becomes pre-candidate, candidate or leader), no membership-change entry lies in
`(applied, committed]` -/
theorem PD_campaign_only_when_applied (r r' : Raft) (transfer : Bool) (hinv : RaftLogInv r.raftLog)
    (h : r.hup transfer = .ok r') (hne : r' ≠ r) :
    ∀ i e, r.raftLog.applied < i → i ≤ r.raftLog.committed →
      r.raftLog.abs.entryAt i = some e → ¬ isConf e := by
  intro i e h1 h2 h3 h4
  rw [PD_campaign r transfer hinv ⟨i, e, h1, h2, h3, h4⟩] at h
  cases h
  exact hne rfl

/-! ## 2. leaderAppend of a membership change -/

/-- **PD guard `leaderAppend` (proposals, per entry)** — the proposal filter of `step_leader`
(raft.rs:2111-2159): a membership-change entry that *survives* the filter was seen with
`¬ (applied < pending_conf_index)`, is the proposed entry itself, and the filter sets
`pending_conf_index` to its future index `last_index + i + 1` (nothing else is written).
From `C09_proposal_filter_entry` / `Refused`. -/
theorem PD_leaderAppend_filter_entry (r r1 : Raft) (i : Nat) (e e' : Entry)
    (h : r.filterProposalEntry i e = some (r1, e')) (hc : isConf e') :
    ¬ r.raftLog.applied < r.pendingConfIndex ∧ e' = e ∧
      r1 = { r with pendingConfIndex := r.raftLog.lastIndex + i + 1 } := by
  rw [C09_proposal_filter_entry] at h
  cases hp : payload e with
  | normal =>
    rw [hp] at h
    simp only [Option.some.injEq, Prod.mk.injEq] at h
    rw [← h.2] at hc
    exact absurd hc ((c09_payload_normal_iff e).1 hp)
  | malformed => rw [hp] at h; cases h
  | change cc =>
    rw [hp] at h
    simp only at h
    by_cases hr : Refused r cc
    · rw [if_pos hr] at h
      simp only [Option.some.injEq, Prod.mk.injEq] at h
      rw [← h.2] at hc
      exact absurd hc c09_emptyNormal_not_conf
    · rw [if_neg hr] at h
      simp only [Option.some.injEq, Prod.mk.injEq] at h
      exact ⟨fun hlt => hr (Or.inl hlt), h.2.symm, h.1.symm⟩

/-- **PD guard `leaderAppend` (proposals), the blocking direction**: while
`applied < pending_conf_index`, no membership-change entry survives the filter -/
theorem PD_leaderAppend_filter_blocked (r r1 : Raft) (i : Nat) (e e' : Entry)
    (hp : r.raftLog.applied < r.pendingConfIndex)
    (h : r.filterProposalEntry i e = some (r1, e')) : ¬ isConf e' ∧ r1 = r := by
  refine ⟨fun hc => (PD_leaderAppend_filter_entry r r1 i e e' h hc).1 hp, ?_⟩
  rw [C09_proposal_filter_entry] at h
  cases hpe : payload e with
  | normal => rw [hpe] at h; simp only [Option.some.injEq, Prod.mk.injEq] at h; exact h.1.symm
  | malformed => rw [hpe] at h; cases h
  | change cc =>
    rw [hpe] at h
    simp only at h
    have hr : Refused r cc := Or.inl hp
    rw [if_pos hr] at h
    simp only [Option.some.injEq, Prod.mk.injEq] at h
    exact h.1.symm

/-- beyond its last index the logical log holds nothing -/
theorem entryAt_beyond_last (l : RaftLog) (hinv : RaftLogInv l) (i : Nat) (h : l.lastIndex < i) :
    l.abs.entryAt i = none := by
  rw [hinv.lastIndex_abs] at h
  simp only [LLog.lastIndex] at h
  unfold LLog.entryAt
  rw [if_neg (by omega), List.getElem?_eq_none_iff]
  omega

/-- **PD guard `leaderAppend` (proposals, the whole call)** — `step_leader` on `MsgPropose`
(raft.rs:2097-2170), for a leader whose log satisfies `RaftLogInv` and whose apply cursor is within
its log: the apply cursor is not moved, and **every membership-change entry the call appends**
(index beyond the old last index) was appended with `pending_conf_index ≤ applied` in the state the
call started in, and `pending_conf_index` is that entry's index afterwards — hence at most one per
call.  (`c09_stepLeader_propose`, `c09_filterOut` = `C09_proposal_filter_shape`.) -/
theorem PD_leaderAppend_proposal (r r' : Raft) (m : Message) (e : Option RaftError)
    (hinv : RaftLogInv r.raftLog) (hap : r.raftLog.applied ≤ r.raftLog.lastIndex)
    (hs : r.state = .leader) (hm : m.msgType = .msgPropose) (h : r.stepLeader m = .ok (r', e)) :
    r'.raftLog.applied = r.raftLog.applied ∧
    ∀ i en, r.raftLog.lastIndex < i → r'.raftLog.abs.entryAt i = some en → isConf en →
      ¬ r.raftLog.applied < r.pendingConfIndex ∧ r'.pendingConfIndex = i := by
  have none_new : ∀ (x : Raft), x.raftLog.abs = r.raftLog.abs →
      ∀ i en, r.raftLog.lastIndex < i → x.raftLog.abs.entryAt i = some en → False := by
    intro x hx i en hi hen
    rw [hx, entryAt_beyond_last r.raftLog hinv i hi] at hen
    cases hen
  rcases c09_stepLeader_propose hinv hs hm h with ⟨h1, _⟩ | ⟨r1, oes, hf, hc⟩
  · subst h1
    exact ⟨rfl, fun i en hi hen _ => (none_new r' rfl i en hi hen).elim⟩
  · obtain ⟨hF, hlog⟩ := c09_filterOut hap hf
    rcases hc with ⟨h1, _⟩ | ⟨es, ho, _, hcf, hl | hA⟩
    · subst h1
      exact ⟨by rw [hlog], fun i en hi hen _ => (none_new r' (by rw [hlog]) i en hi hen).elim⟩
    · exact ⟨by rw [hcf.2, hlog],
        fun i en hi hen _ => (none_new r' (by rw [hl.abs, hlog]) i en hi hen).elim⟩
    · subst ho
      refine ⟨by rw [hcf.2, hlog], ?_⟩
      intro i en hi hen hcen
      have hinv1 : r1.raftLog.Inv := by rw [hlog]; exact hinv
      rcases c09_appended_entryAt hinv1 hA i en hen with ⟨hle, _⟩ | ⟨_, h2⟩
      · rw [hlog] at hle; omega
      · rw [hlog] at h2
        obtain ⟨e0, he0, hc0⟩ := c09_stamp_conf h2 hcen
        rcases hF with ⟨_, hno⟩ | ⟨h0, k, hk1, hk2⟩
        · exact absurd hc0 (hno es rfl e0 (List.mem_of_getElem? he0))
        · have hk := hk2 es rfl _ e0 he0 hc0
          refine ⟨h0, ?_⟩
          rw [hcf.1, hk1]
          omega

/-- where the apply cursor is after the first half of `commit_apply_internal` -/
theorem applyCursor_cases (l l' : RaftLog) (applied : Nat) (skip : Bool)
    (h : (if (!skip) = true then l.appliedTo applied
          else if applied = 0 then Res.panic "raft.commit_apply_internal.assert"
          else Res.ok { l with applied := applied }) = .ok l') :
    ∃ a', l' = { l with applied := a' } ∧ (applied ≠ 0 → a' = applied) ∧
      (applied = 0 → a' = l.applied) := by
  cases skip with
  | false =>
    simp only [Bool.not_false, if_true] at h
    unfold RaftLog.appliedTo at h
    split at h
    · rename_i h0
      cases h
      exact ⟨l.applied, rfl, fun hne => absurd h0 hne, fun _ => rfl⟩
    · rename_i h0
      split at h
      · cases h
      · cases h
        exact ⟨applied, rfl, fun _ => rfl, fun hz => absurd hz h0⟩
  | true =>
    simp only [Bool.not_true, Bool.false_eq_true, if_false] at h
    split at h
    · cases h
    · rename_i h0
      cases h
      exact ⟨applied, rfl, fun _ => rfl, fun hz => absurd hz h0⟩

/-- the auto-leave entry `commit_apply_internal` appends: an empty `ConfChangeV2` (`etype = 2`) -/
def autoLeaveEntry (t i : Nat) : Entry := { etype := 2, term := t, index := i }

theorem autoLeaveEntry_isConf (t i : Nat) : isConf (autoLeaveEntry t i) := Or.inr rfl

/-- **PD guard `leaderAppend` (auto-leave)** — `commit_apply_internal` (raft.rs:973; `commit_apply`
and the `skip_check` call of `Raft::new` alike), for a log satisfying `RaftLogInv`: either the
logical log and `pending_conf_index` are unchanged, or the node is leader, its configuration is an
auto-leave joint one, `pending_conf_index ≤ applied` **for the new apply cursor**, exactly the
auto-leave entry is appended at `last_index + 1`, and `pending_conf_index` becomes that index. -/
theorem PD_leaderAppend_autoLeave (r r' : Raft) (applied : Nat) (skip : Bool)
    (hinv : RaftLogInv r.raftLog) (h : r.commitApplyInternal applied skip = .ok r') :
    (r'.raftLog.abs = r.raftLog.abs ∧ r'.pendingConfIndex = r.pendingConfIndex) ∨
    (r.state = .leader ∧ r.prs.conf.autoLeave = true ∧
      r.pendingConfIndex ≤ r'.raftLog.applied ∧
      r'.raftLog.abs = { r.raftLog.abs with ents := r.raftLog.abs.ents ++
        [autoLeaveEntry r.term (r.raftLog.lastIndex + 1)] } ∧
      r'.pendingConfIndex = r.raftLog.lastIndex + 1) := by
  unfold Raft.commitApplyInternal at h
  simp only [] at h
  split at h
  · cases h
  · cases h
  · rename_i log hlog
    obtain ⟨a', hl, ha1, ha0⟩ := applyCursor_cases _ _ _ _ hlog
    have habs : log.abs = r.raftLog.abs := by rw [hl]; rfl
    have hinv1 : log.Inv := by
      rw [hl]
      exact hinv.set_cursors r.raftLog.committed r.raftLog.persisted a' hinv.dummy_le_committed
        hinv.committed_le_last hinv.persisted_lt_off hinv.persisted_le_store
    have hli : log.lastIndex = r.raftLog.lastIndex := by rw [hl]; rfl
    have happ : log.applied = a' := by rw [hl]
    split at h
    · rename_i hcond
      obtain ⟨hal, hc1, hc2, hc3⟩ := hcond
      have hpa : r.pendingConfIndex ≤ a' := by
        by_cases h0 : applied = 0
        · have : r.pendingConfIndex ≤ applied := hc2
          omega
        · rw [ha1 h0]; exact hc2
      split at h
      · rename_i r2 happe
        cases h
        have hcf : CF _ r2 := appendEntry_cf happe CF.rfl
        rcases appendEntry_cases (r := { r with raftLog := log }) hinv1 hc3 happe with
          ⟨hb, _⟩ | ⟨_, he, _⟩ | ⟨_, hA, _⟩
        · cases hb
        · cases he
        · right
          have hlast : r2.raftLog.lastIndex = r.raftLog.lastIndex + 1 := by
            rw [hA.last]; simp only [stampFrom, List.length_cons, List.length_nil]
            show log.lastIndex + _ = _
            rw [hli]
          refine ⟨hc3, by simpa using hal, ?_, ?_, hlast⟩
          · show r.pendingConfIndex ≤ r2.raftLog.applied
            rw [hcf.2]
            show r.pendingConfIndex ≤ log.applied
            rw [happ]; exact hpa
          · show r2.raftLog.abs = _
            rw [hA.abs]
            show ({ log.abs with ents := log.abs.ents ++ stampFrom r.term (log.lastIndex + 1) [{ etype := 2 }] } : LLog) = _
            rw [habs, hli]
            rfl
      · cases h
      · cases h
      · cases h
    · cases h
      exact .inl ⟨habs, rfl⟩

/-- **PD `win`: `pending_conf_index := last index`** — `become_leader` (raft.rs:1230), every state:
`pending_conf_index` is the last index of the log the node was elected with, the apply cursor is not
moved, the node is leader (`C09_become_leader_blocks_changes`); and for a log satisfying `RaftLogInv`
the only entry it appends is the empty entry of the new term, which is not a membership change
(`becomeLeader_won`). -/
theorem PD_win_pendingConfIndex (r r' : Raft) (h : r.becomeLeader = .ok r') :
    r'.pendingConfIndex = r.raftLog.lastIndex ∧ r'.raftLog.applied = r.raftLog.applied ∧
    r'.state = .leader ∧
    (RaftLogInv r.raftLog →
      r'.raftLog.abs = { r.raftLog.abs with ents := r.raftLog.abs.ents ++
        [leaderNoop r'.term (r.raftLog.lastIndex + 1)] } ∧
      ¬ isConf (leaderNoop r'.term (r.raftLog.lastIndex + 1))) := by
  obtain ⟨h1, h2, h3, _⟩ := C09_become_leader_blocks_changes r r' h
  refine ⟨h1, h2, h3, fun hinv => ⟨?_, by unfold isConf leaderNoop; simp⟩⟩
  exact (becomeLeader_won hinv LS.rfl h).abs

/-! ### (d) nobody else writes a leader's log

`RaftLog::append` is reached from `Raft::append_entry` and from `RaftLog::maybe_append`
(`handle_append_entries`, follower side only: `step_follower`, and `step_candidate` after
`become_follower`).  `append_entry` has exactly three callers in the model (`grep appendEntry
RaftModel/`): `stepLeader` (`MsgPropose`, after the filter — `PD_leaderAppend_proposal`),
`commitApplyInternal` (auto-leave — `PD_leaderAppend_autoLeave`) and `becomeLeader` (the empty
entry — `PD_win_pendingConfIndex`).  The theorems below say so entry point by entry point. -/

/-- `Raft::step` at a leader (message term not above the leader's: a higher term deposes it first):
only `MsgPropose` changes the logical log (`C05_leader_log_changes_only_by_propose`) -/
theorem PD_leaderLog_step (r r' : Raft) (m : Message) (res : Option RaftError)
    (hinv : RaftLogInv r.raftLog) (hs : r.state = .leader) (ht : m.term ≤ r.term)
    (hm : m.msgType ≠ .msgPropose) (h : r.step m = .ok (r', res)) :
    r'.raftLog.abs = r.raftLog.abs :=
  RaftProps.C05.C05_leader_log_changes_only_by_propose r r' m res hinv hs ht hm h

/-- `Raft::tick` at a leader (`tick_heartbeat`: `MsgCheckQuorum`, `MsgBeat`) keeps the logical log -/
theorem PD_leaderLog_tick (r r' : Raft) (b : Bool) (hinv : RaftLogInv r.raftLog)
    (hs : r.state = .leader) (h : r.tick = .ok (r', b)) : r'.raftLog.abs = r.raftLog.abs :=
  (tick_leader_ls hinv hs h).abs

/-- `Raft::on_persist_entries` (may commit and broadcast) keeps the logical log,
`pending_conf_index` and the apply cursor -/
theorem PD_leaderLog_onPersistEntries (r r' : Raft) (index term : Nat)
    (h : r.onPersistEntries index term = .ok r') :
    r'.raftLog.abs = r.raftLog.abs ∧ r'.pendingConfIndex = r.pendingConfIndex ∧
    r'.raftLog.applied = r.raftLog.applied :=
  ⟨(onPersistEntries_abs h).1, (onPersistEntries_abs h).2.2.1, (onPersistEntries_abs h).2.2.2⟩

/-- `Raft::on_persist_snap` keeps the logical log, `pending_conf_index` and the apply cursor -/
theorem PD_leaderLog_onPersistSnap (r r' : Raft) (index : Nat) (h : r.onPersistSnap index = .ok r') :
    r'.raftLog.abs = r.raftLog.abs ∧ r'.pendingConfIndex = r.pendingConfIndex ∧
    r'.raftLog.applied = r.raftLog.applied :=
  ⟨(onPersistSnap_abs h).1, (onPersistSnap_abs h).2.2.1, (onPersistSnap_abs h).2.2.2⟩

/-- `Raft::apply_conf_change` (→ `post_conf_change`: may commit, broadcast, step down) keeps the
logical log -/
theorem PD_leaderLog_applyConfChange (r r' : Raft) (cc : ConfChangeV2)
    (res : Except ErrKind ConfState) (h : r.applyConfChange cc = .ok (r', res)) :
    r'.raftLog.abs = r.raftLog.abs :=
  (applyConfChange_ls h LS.rfl).abs

/-- `Raft::ping` keeps the logical log -/
theorem PD_leaderLog_ping (r r' : Raft) (h : r.ping = .ok r') : r'.raftLog.abs = r.raftLog.abs :=
  (ping_ls h LS.rfl).abs


/-! ## 3. sendApp: a `MsgAppend` carries the leader's commit index -/

/-- **PD guard `sendApp`** — `prepare_send_entries` (raft.rs:729), with or without entries: the
message it builds is a `MsgAppend` with `commit = raft_log.committed` -/
theorem PD_sendApp_prepareSendEntries (r : Raft) (m m' : Message) (pr pr' : Progress) (term : Nat)
    (ents : List Entry) (h : r.prepareSendEntries m pr term ents = .ok (m', pr')) :
    m'.msgType = .msgAppend ∧ m'.commit = r.raftLog.committed := by
  obtain ⟨_, hm⟩ := RaftProps.C05.c05_prepareSendEntries_msg h
  rw [hm]; exact ⟨rfl, rfl⟩

/-- **PD guard `sendApp`** — `send` (raft.rs:614) queues the message with its commit index, type and
receiver untouched, and does not touch the log -/
theorem PD_sendApp_send (r r' : Raft) (m : Message) (h : r.send m = .ok r') :
    r'.raftLog = r.raftLog ∧ ∃ m', r'.msgs = r.msgs ++ [m'] ∧ m'.commit = m.commit ∧
      m'.msgType = m.msgType ∧ m'.to = m.to := by
  rw [send_eq r r' m h]
  exact ⟨rfl, _, rfl, sendFill_commit r m, (RaftProps.C05.c05_sendFill_to_type r m).2,
    (RaftProps.C05.c05_sendFill_to_type r m).1⟩

/-- **PD guard `sendApp`** — `try_batching` (raft.rs:747) when it extends a queued message: exactly
one queued `MsgAppend` is rewritten, and it gets `commit = raft_log.committed` (`C13_batching`) -/
theorem PD_sendApp_tryBatching (r r' : Raft) (to : Nat) (pr pr' : Progress) (ents : List Entry)
    (h : r.tryBatching to pr ents = .ok (r', pr', true)) :
    r'.raftLog = r.raftLog ∧ ∃ pre msg post, r.msgs = pre ++ msg :: post ∧
      r'.msgs = pre ++ { msg with entries := msg.entries ++ ents, commit := r.raftLog.committed } :: post := by
  obtain ⟨h1, h2, _⟩ := RaftProps.C13.C13_batching r r' to pr pr' ents true h
  obtain ⟨pre, msg, post, h3, _, _, _, h4, _⟩ := h2 rfl
  refine ⟨by rw [h1], pre, msg, post, h3, h4⟩

/-- **PD guard `sendApp`** — `maybe_send_append` (raft.rs:794; every path: entries, the empty append
of `send_append`, batching on or off, snapshot fallback): the commit index is not moved, and every
`MsgAppend` in the queue afterwards either was queued before the call or carries
`commit = raft_log.committed` — the commit index **at that moment** -/
theorem PD_sendApp_maybeSendAppend (r r' : Raft) (to : Nat) (pr pr' : Progress) (ae sent : Bool)
    (h : r.maybeSendAppend to pr ae = .ok (r', pr', sent)) :
    r'.raftLog.committed = r.raftLog.committed ∧
    ∀ m ∈ r'.msgs, m.msgType = .msgAppend → m ∈ r.msgs ∨ m.commit = r.raftLog.committed :=
  maybeSendAppend_aq h AQ.rfl

/-- **PD guard `sendApp`** — `Raft::send_append` (raft.rs:892) -/
theorem PD_sendApp_sendAppend (r r' : Raft) (to : Nat) (h : r.sendAppend to = .ok r') :
    r'.raftLog.committed = r.raftLog.committed ∧
    ∀ m ∈ r'.msgs, m.msgType = .msgAppend → m ∈ r.msgs ∨ m.commit = r.raftLog.committed :=
  sendAppend_aq h AQ.rfl

/-- **PD guard `sendApp`** — `Raft::send_append_aggressively` (raft.rs:897) -/
theorem PD_sendApp_sendAppendAggressively (r r' : Raft) (to : Nat)
    (h : r.sendAppendAggressively to = .ok r') :
    r'.raftLog.committed = r.raftLog.committed ∧
    ∀ m ∈ r'.msgs, m.msgType = .msgAppend → m ∈ r.msgs ∨ m.commit = r.raftLog.committed :=
  sendAppendAggressively_aq h AQ.rfl

/-- **PD guard `sendApp`** — `Raft::bcast_append` (raft.rs:904): every `MsgAppend` the broadcast
queues or extends carries the commit index the leader has during the broadcast -/
theorem PD_sendApp_bcastAppend (r r' : Raft) (h : r.bcastAppend = .ok r') :
    r'.raftLog.committed = r.raftLog.committed ∧
    ∀ m ∈ r'.msgs, m.msgType = .msgAppend → m ∈ r.msgs ∨ m.commit = r.raftLog.committed :=
  bcastAppend_aq h AQ.rfl

/-! ## 4. recvAppC: append and commit in one call -/

/-- **PD guard `recvAppC`** — `handle_append_entries` (raft.rs:2528), every state and message.
Either the append is **accepted** (no snapshot request pending, `m.index` not below the commit
index, `maybe_append` succeeds, i.e. the local entry at `m.index` has term `m.log_term`): then the
new log is the one `maybe_append` returned **and in the same call** the commit index becomes
`max committed (min m.commit (m.index + |m.entries|))`; or it is **not accepted** (snapshot request
pending, `m.index` below the commit index, or the anchor does not match) and the whole `RaftLog` —
entries and commit index — is left alone. -/
theorem PD_recvAppC (r r' : Raft) (m : Message) (h : r.handleAppendEntries m = .ok r') :
    (r.pendingRequestSnapshot = 0 ∧ r.raftLog.committed ≤ m.index ∧
      r.raftLog.matchTerm m.index m.logTerm = .ok true ∧
      (∃ ci, r.raftLog.maybeAppend m.index m.logTerm m.commit m.entries =
        .ok (r'.raftLog, some (ci, m.index + m.entries.length))) ∧
      r'.raftLog.committed =
        max r.raftLog.committed (min m.commit (m.index + m.entries.length))) ∨
    ((r.pendingRequestSnapshot ≠ 0 ∨ m.index < r.raftLog.committed ∨
        r.raftLog.matchTerm m.index m.logTerm = .ok false) ∧ r'.raftLog = r.raftLog) := by
  unfold Raft.handleAppendEntries at h
  split at h
  · rename_i hp
    right
    refine ⟨.inl hp, ?_⟩
    unfold Raft.sendRequestSnapshot at h
    simp only at h
    split at h
    · rw [send_eq _ _ _ h]
    · cases h
    · cases h
  · rename_i hp
    have hp0 : r.pendingRequestSnapshot = 0 := Classical.byContradiction (fun hc => hp hc)
    split at h
    · rename_i hlt
      right
      refine ⟨.inr (.inl hlt), ?_⟩
      rw [send_eq _ _ _ h]
    · rename_i hge
      split at h
      · cases h
      · cases h
      · rename_i log ci last hm
        left
        have hlog : r'.raftLog = log := by rw [send_eq _ _ _ h]
        rcases RaftLog.c04_maybeAppend_spec hm with ⟨hn, _⟩ | ⟨ci', hres, hmt, hc⟩
        · cases hn
        · simp only [Option.some.injEq, Prod.mk.injEq] at hres
          refine ⟨hp0, by omega, hmt, ⟨ci, ?_⟩, by rw [hlog]; exact hc⟩
          rw [hlog, hm, hres.2]
      · rename_i log hm
        right
        rcases RaftLog.c04_maybeAppend_spec hm with ⟨_, hl, hmt⟩ | ⟨ci', hn, _⟩
        · subst hl
          refine ⟨.inr (.inr hmt), ?_⟩
          simp only at h
          split at h
          · cases h
          · cases h
          · cases h
          · rw [send_eq _ _ _ h]
        · cases hn

/-! ## 5. apply: `applied ≤ idx ≤ committed` -/

/-- **PD guard `apply`** — `RaftLog::applied_to(idx)` (raft_log.rs:322; what `commit_apply` /
`advance_apply_to` call), `idx ≠ 0`: it moves the apply cursor to `idx` iff
`applied ≤ idx ≤ committed`, and panics otherwise -/
theorem PD_apply_appliedTo (l : RaftLog) (idx : Nat) (h0 : idx ≠ 0) :
    (l.applied ≤ idx ∧ idx ≤ l.committed → l.appliedTo idx = .ok { l with applied := idx }) ∧
    (¬ (l.applied ≤ idx ∧ idx ≤ l.committed) →
      l.appliedTo idx = .panic "raft_log.applied_to.out_of_range") := by
  unfold RaftLog.appliedTo
  rw [if_neg h0]
  constructor
  · intro h; rw [if_neg (by omega)]
  · intro h; rw [if_pos (by omega)]

/-- **PD guard `apply`** — every successful `applied_to(idx)`: `idx = 0` is a no-op, otherwise
`applied ≤ idx ≤ committed` held and only the apply cursor changed.  (With the representation
invariant: `C14_appliedTo_spec`.) -/
theorem PD_apply_appliedTo_ok (l l' : RaftLog) (idx : Nat) (h : l.appliedTo idx = .ok l') :
    (idx = 0 ∧ l' = l) ∨
    (l.applied ≤ idx ∧ idx ≤ l.committed ∧ l' = { l with applied := idx }) := by
  unfold RaftLog.appliedTo at h
  split at h
  · rename_i h0; cases h; exact .inl ⟨h0, rfl⟩
  · split at h
    · cases h
    · cases h; exact .inr ⟨by omega, by omega, rfl⟩

/-- **PD guard `apply`** — `Raft::commit_apply(idx)` (raft.rs:960, called by
`RawNode::advance_apply_to` / `advance_apply`): when it returns, `idx = 0` (nothing moved) or
`applied ≤ idx ≤ committed`, the apply cursor is `idx`, and the commit index is unchanged — so
`applied ≤ committed` afterwards -/
theorem PD_apply_commitApply (r r' : Raft) (idx : Nat) (h : r.commitApply idx = .ok r') :
    r'.raftLog.committed = r.raftLog.committed ∧
    ((idx = 0 ∧ r'.raftLog.applied = r.raftLog.applied) ∨
     (r.raftLog.applied ≤ idx ∧ idx ≤ r.raftLog.committed ∧ r'.raftLog.applied = idx)) := by
  refine ⟨RaftProps.C04.C04_commitApply_keeps_commit r r' idx h, ?_⟩
  unfold Raft.commitApply Raft.commitApplyInternal at h
  simp only [Bool.not_false, if_true] at h
  split at h
  · cases h
  · cases h
  · rename_i log hl
    have happ : r'.raftLog.applied = log.applied := by
      split at h
      · split at h
        · rename_i r2 happe
          cases h
          exact (appendEntry_cf happe CF.rfl).2
        · cases h
        · cases h
        · cases h
      · cases h; rfl
    rcases PD_apply_appliedTo_ok _ _ _ hl with ⟨h0, hl'⟩ | ⟨h1, h2, hl'⟩
    · exact .inl ⟨h0, by rw [happ, hl']⟩
    · exact .inr ⟨h1, h2, by rw [happ, hl']⟩

/-- **PD guard `apply`** — the Ready layer: `RawNode::advance_apply_to(idx)` (raw_node.rs:728) goes
through the same `applied_to` -/
theorem PD_apply_advanceApplyTo (n n' : RawNodeM) (idx : Nat) (eff : Effect)
    (h : n.advanceApplyTo idx eff = .ok n') :
    idx = 0 ∨ (n.log.applied ≤ idx ∧ idx ≤ n.log.committed) := by
  unfold RawNodeM.advanceApplyTo RawNodeM.commitApply at h
  split at h
  · rename_i l hl
    rcases PD_apply_appliedTo_ok _ _ _ hl with ⟨h0, _⟩ | ⟨h1, h2, _⟩
    · exact .inl h0
    · exact .inr ⟨h1, h2⟩
  · cases h
  · cases h

/-! ## 6. restart: what `Raft::new` does with `Config.applied` -/

/-- **PD `restart`** — `Raft::new` (raft.rs:322), exactly what the model does with the apply cursor
and the commit index: `committed` is the commit index of the stored hard state (or `first_index - 1`
when the hard state is the default one; `load_state` panics unless it lies in
`[first_index - 1, last_index]`), and `applied` is `Config.applied` when that is positive
(`commit_apply_internal(applied, true)` = `applied_to_unchecked`), else `first_index - 1`.
**No comparison between the two is made**: see `PD_restart_gap`. -/
theorem PD_restart_new (c : Config) (store : MemStorage) (rnd : Option Nat) (r : Raft)
    (h : Raft.new c store rnd = .ok (.ok r)) :
    r.raftLog.applied = (if c.applied > 0 then c.applied else store.firstIndex - 1) ∧
    r.raftLog.committed =
      (if store.hardState ≠ {} then store.hardState.commit else store.firstIndex - 1) ∧
    (store.hardState ≠ {} → store.firstIndex - 1 ≤ store.hardState.commit ∧
      store.hardState.commit ≤ store.lastIndex) := by
  unfold Raft.new at h
  split at h
  · cases h
  · dsimp only at h
    split at h
    · cases h
    · cases h
    · rename_i log hnew
      have hlog : log.applied = store.firstIndex - 1 ∧ log.committed = store.firstIndex - 1 ∧
          log.lastIndex = store.lastIndex := by
        unfold RaftLog.new at hnew
        split at hnew
        · cases hnew
        · cases hnew
          refine ⟨rfl, rfl, ?_⟩
          simp [RaftLog.lastIndex, Unstable.new, Unstable.maybeLastIndex]
      split at h
      · cases h
      · rename_i prs _
        rw [RaftProps.C20.postConfChange_nonleader _ (by simp)] at h
        simp only [Res.bind] at h
        split at h
        · cases h
        · generalize hr1 : (if store.initialState.1 ≠ {} then
            Raft.loadState _ store.initialState.1 else Res.ok _) = r1 at h
          cases r1 with
          | ok b =>
            dsimp only [Res.bind] at h
            generalize hr2 : (if c.applied > 0 then b.commitApplyInternal c.applied true
              else Res.ok b) = r2 at h
            cases r2 with
            | ok d =>
              dsimp only [Res.bind] at h
              cases h
              rw [becomeFollower_raftLog]
              show d.raftLog.applied = _ ∧ d.raftLog.committed = _ ∧ _
              -- the state after `load_state`
              have hb : b.raftLog.applied = store.firstIndex - 1 ∧ b.state = .follower ∧
                  b.raftLog.committed =
                    (if store.hardState ≠ {} then store.hardState.commit else store.firstIndex - 1) ∧
                  (store.hardState ≠ {} → store.firstIndex - 1 ≤ store.hardState.commit ∧
                    store.hardState.commit ≤ store.lastIndex) := by
                by_cases hhs : store.hardState ≠ {}
                · have hhs' : store.initialState.1 ≠ {} := hhs
                  rw [if_pos hhs'] at hr1
                  change Raft.loadState _ store.hardState = _ at hr1
                  unfold Raft.loadState at hr1
                  split at hr1
                  · cases hr1
                  · rename_i hrange
                    cases hr1
                    refine ⟨hlog.1, rfl, by rw [if_pos hhs], fun _ => ?_⟩
                    have h1 : ¬ store.hardState.commit < log.committed := fun hx => hrange (.inl hx)
                    have h2 : ¬ log.lastIndex < store.hardState.commit := fun hx => hrange (.inr hx)
                    rw [hlog.2.1] at h1
                    rw [hlog.2.2] at h2
                    omega
                · have hhs' : ¬ store.initialState.1 ≠ {} := hhs
                  rw [if_neg hhs'] at hr1
                  cases hr1
                  exact ⟨hlog.1, rfl, by rw [if_neg hhs]; exact hlog.2.1, fun hx => absurd hx hhs⟩
              -- the state after `commit_apply_internal(applied, true)`
              by_cases hca : c.applied > 0
              · rw [if_pos hca] at hr2 ⊢
                unfold Raft.commitApplyInternal at hr2
                simp only [Bool.not_true, Bool.false_eq_true, if_false] at hr2
                rw [if_neg (by omega)] at hr2
                simp only at hr2
                rw [if_neg (by rw [hb.2.1]; simp)] at hr2
                cases hr2
                exact ⟨rfl, hb.2.2.1, hb.2.2.2⟩
              · rw [if_neg hca] at hr2 ⊢
                cases hr2
                exact ⟨hb.1, hb.2.2.1, hb.2.2.2⟩
            | err e => cases h
            | panic s => cases h
          | err e => cases h
          | panic s => cases h


/-! ## 7. win / commitLeader: the configuration is the node's own tracker configuration -/

/-- recording a vote does not touch the configuration -/
theorem recordVote_voters (t : ProgressTracker) (id : Nat) (v : Bool) :
    (t.recordVote id v).voters = t.voters ∧ (t.recordVote id v).conf = t.conf := by
  unfold ProgressTracker.recordVote
  split <;> exact ⟨rfl, rfl⟩

/-- the tracker's voter configuration is the two halves of `prs.conf` -/
theorem PD_own_config (r : Raft) :
    r.prs.voters = { incoming := r.prs.conf.incoming, outgoing := r.prs.conf.outgoing } := rfl

/-- **PD `win`: the `cfg` parameter** — `Raft::poll` (raft.rs:2281) decides with `tally_votes`
(tracker.rs:303) over the node's **own tracker configuration at that moment** (`r.prs.voters`, which
recording the vote does not change) and the votes recorded so far: the result it returns is that
tally -/
theorem PD_win_tally_own_config (r r' : Raft) (frm : Nat) (t : MsgType) (vote : Bool)
    (res : VoteResult) (h : r.poll frm t vote = .ok (r', res)) :
    res = (RaftModel.Tracker.tallyVotes r.prs.voters (r.prs.recordVote frm vote).votes).2.2 := by
  have hv : (RaftModel.Tracker.tallyVotes r.prs.voters (r.prs.recordVote frm vote).votes) =
      (r.prs.recordVote frm vote).tallyVotes := by
    unfold ProgressTracker.tallyVotes
    rw [(recordVote_voters r.prs frm vote).1]
  rw [hv]
  unfold Raft.poll Raft.pollWith at h
  simp only at h
  generalize hres : (r.prs.recordVote frm vote).tallyVotes.2.2 = res0 at h
  cases res0 with
  | won =>
    simp only at h
    split at h
    · obtain ⟨r2, _, h2⟩ := Res.bind_eq_ok h
      cases h2; rfl
    · obtain ⟨r2, _, h2⟩ := Res.bind_eq_ok h
      cases h2; rfl
  | lost => simp only at h; cases h; rfl
  | pending => simp only at h; cases h; rfl

/-- **PD `win`: a candidate becomes leader exactly when its own configuration says so** — for a
node in state `Candidate`, `poll` ends in state `Leader` iff the tally over its own tracker
configuration is `Won` (then `become_leader` runs: `PD_win_pendingConfIndex`) -/
theorem PD_win_iff_tally (r r' : Raft) (frm : Nat) (t : MsgType) (vote : Bool) (res : VoteResult)
    (hs : r.state = .candidate) (h : r.poll frm t vote = .ok (r', res)) :
    r'.state = .leader ↔
      (RaftModel.Tracker.tallyVotes r.prs.voters (r.prs.recordVote frm vote).votes).2.2 = .won := by
  rw [← PD_win_tally_own_config r r' frm t vote res h]
  unfold Raft.poll Raft.pollWith at h
  simp only at h
  generalize hres : (r.prs.recordVote frm vote).tallyVotes.2.2 = res0 at h
  cases res0 with
  | won =>
    simp only at h
    rw [if_neg (by rw [hs]; decide)] at h
    obtain ⟨r2, h1, h2⟩ := Res.bind_eq_ok h
    cases h2
    obtain ⟨r3, h3, h4⟩ := Res.bind_eq_ok h1
    have hl : r3.state = .leader := (C09_become_leader_blocks_changes _ _ h3).2.2.1
    have hf := bcastAppend_frame h4 Frame.rfl
    exact ⟨fun _ => rfl, fun _ => hf.state.trans hl⟩
  | lost =>
    simp only at h
    cases h
    constructor
    · intro hx
      rw [RaftProps.C20.becomeFollower_state] at hx
      cases hx
    · intro hx; cases hx
  | pending =>
    simp only at h
    cases h
    constructor
    · intro hx
      change r.state = .leader at hx
      rw [hs] at hx; cases hx
    · intro hx; cases hx

/-- **PD `commitLeader`: the `cfg` parameter** — `Raft::maybe_commit` (raft.rs:939) computes the
index with `maximal_committed_index` (tracker.rs:284) = the joint committed index over the node's
**own tracker configuration** `r.prs.voters` and its own progress map; when it commits, the new
commit index is that index, it is acknowledged by a majority of each non-empty half of that
configuration, and the entry there carries the current term (`C04_leader_commit_rule`) -/
theorem PD_commitLeader_own_config (r r' : Raft) (h : r.maybeCommit = .ok (r', true)) :
    (∃ gc, Joint.committedIndexR r.prs.voters r.prs.acked r.prs.groupCommit =
      .ok (r'.raftLog.committed, gc)) ∧
    RaftModel.JointQuorumAcked r.prs.voters r.prs.acked r'.raftLog.committed ∧
    r.raftLog.term r'.raftLog.committed = .ok r.term ∧
    r.raftLog.committed < r'.raftLog.committed := by
  obtain ⟨mci, gc, hm, hc, hlt, _, hterm, hq, _⟩ := RaftProps.C04.C04_leader_commit_rule r r' h
  rw [hc]
  exact ⟨⟨gc, hm⟩, hq, hterm, hlt⟩

/-- … and when it does not commit it still has only consulted that configuration: the node is
unchanged -/
theorem PD_commitLeader_no_commit (r r' : Raft) (h : r.maybeCommit = .ok (r', false)) : r' = r := by
  obtain ⟨_, _, _, hh | hh⟩ := maybeCommit_spec h
  · cases hh.1
  · exact hh.2

/-! ## what the model does NOT enforce: concrete witnesses -/

/-- a durable state: snapshot point (2, 1), entries 3 and 4 of term 1, hard state `commit = 2`,
single voter 1 -/
def gapStore : MemStorage :=
  { hardState := { term := 1, commit := 2 }, confState := { voters := [1] },
    snapshotMetadata := { index := 2, term := 1, confState := { voters := [1] } },
    entries := [{ term := 1, index := 3 }, { term := 1, index := 4 }] }

/-- **GAP (PD `restart`)**: `Raft::new` with `Config.applied = 100` over a storage whose commit index
is 2 and whose last index is 4 **succeeds**, and the node starts with `applied = 100 > committed = 2`
(`commit_apply_internal(applied, skip_check = true)` = `applied_to_unchecked`).  The guard
`a ≤ dcommit` of PD's `restart` is therefore a contract on the application (restart with an applied
index that was reported by `advance_apply_to` earlier, hence `≤` the durable commit index only if
the hard state was persisted before applying), not something the constructor enforces. -/
theorem PD_restart_gap :
    (match Raft.new { id := 1, applied := 100 } gapStore none with
      | .ok (.ok r) => some (r.raftLog.applied, r.raftLog.committed, r.raftLog.lastIndex)
      | _ => none) = some (100, 2, 4) := by decide

/-- … `applied = 3`, inside the log but beyond the commit index, likewise -/
theorem PD_restart_gap_inside_log :
    (match Raft.new { id := 1, applied := 3 } gapStore none with
      | .ok (.ok r) => some (r.raftLog.applied, r.raftLog.committed)
      | _ => none) = some (3, 2) := by decide

/-- **GAP (PD `restart`)**, the Ready layer: `RawNode::new` likewise -/
theorem PD_restart_gap_rawnode :
    (match RawNodeM.new gapStore 0 100 NO_LIMIT with
      | .ok n => some (n.log.applied, n.log.committed)
      | _ => none) = some (100, 2) := by decide

/-- **not enforced (harmless for PD)**: `applied_to` is bounded by `committed` only, not by
`persisted + max_apply_unpersisted_log_limit` — here `persisted = 2`, limit 0, `committed = 4`, and
`applied_to(4)` succeeds -/
theorem PD_apply_not_bounded_by_persisted :
    (match ({ store := gapStore, unstable := Unstable.new 5, committed := 4, persisted := 2,
              applied := 2, maxApplyUnpersistedLogLimit := 0 } : RaftLog).appliedTo 4 with
      | .ok l => some l.applied
      | _ => none) = some 4 := by decide

/-- `applied_to(0)` is a no-op (not a panic) even when the apply cursor is positive -/
theorem PD_apply_zero_is_noop (l : RaftLog) : l.appliedTo 0 = .ok l := by
  unfold RaftLog.appliedTo; rfl

/-- non-vacuity of `PD_campaign`: a promotable follower with the membership-change entry 3 committed
but not applied does not campaign -/
theorem PD_campaign_example :
    let st : MemStorage :=
      { hardState := { term := 1, commit := 3 }, confState := { voters := [1] },
        snapshotMetadata := { index := 2, term := 1, confState := { voters := [1] } },
        entries := [{ etype := 2, term := 1, index := 3 }, { term := 1, index := 4 }] }
    let r : Raft :=
      { raftLog := { store := st, unstable := Unstable.new 5, committed := 3, persisted := 4,
                     applied := 2, maxApplyUnpersistedLogLimit := 0 },
        id := 1, term := 1, promotable := true, maxCommittedSizePerReady := NO_LIMIT,
        prs := { conf := { incoming := [1] }, progress := [(1, Progress.new 5 8)] } }
    r.hasUnappliedConfChanges r.hupScanLow (r.raftLog.committed + 1) = .ok true ∧
    r.hup false = .ok r ∧
    (({ r with raftLog := { r.raftLog with applied := 3 } } : Raft).hup false ≠
      .ok { r with raftLog := { r.raftLog with applied := 3 } }) := by decide

end RaftProps.PDGuards
