import RaftProofs.ProtoLStep

/-!
# C05 — log matching; leaders append-only; committed prefix immutable

Theorems about the abstract protocol P, for every reachable state of every history (the voter
configuration may change along it): any number of nodes, any schedule, message
loss / duplication / reordering (monotone released-message sets), crash at any point and restart from
the durable image — including a leader that crashes after sending entries it had not persisted, and
stale appends from successive leaders (any released append of any term may be delivered at any
later time to a node whose term equals the append's).

Logs are the *logical* logs (from index 1); compaction does not exist in P and the comparison with
the implementation is on the retained suffix.  The tie to the code: every `append` /
`maybe_append` / snapshot install of a real node must be justified to P as `leaderAppend` /
`recvApp` (whose result `mergeAt` is `maybe_append`'s truncate-at-first-conflict rule) /
`installSnap`, and the node's log is compared with P's after every call.
-/
namespace RaftProps.C05
open RaftModel.P

/-- **Log Matching** (volatile logs, i.e. including entries not yet persisted): if the logs of two
nodes hold an entry with the same index and term, the logs are identical up to that index. -/
theorem C05_logMatching (s : PSys)
    (hr : Reach s) (a b k : Nat) (x y : LEntry)
    (hx : (s.nodes a).log[k]? = some x) (hy : (s.nodes b).log[k]? = some y) (ht : x.term = y.term) :
    (s.nodes a).log.take (k + 1) = (s.nodes b).log.take (k + 1) :=
  logMatching_of_invL (invL_reachR s hr) _ _ (listsOf_log s a) (listsOf_log s b) k x y hx hy ht

/-- the same between any two lists of entries that exist anywhere: volatile logs, durable logs,
pending images, acknowledged prefixes, snapshots, ghost leader logs -/
theorem C05_logMatching_all (s : PSys)
    (hr : Reach s) (l1 l2 : List LEntry) (h1 : listsOf s l1) (h2 : listsOf s l2) (k : Nat)
    (x y : LEntry) (hx : l1[k]? = some x) (hy : l2[k]? = some y) (ht : x.term = y.term) :
    l1.take (k + 1) = l2.take (k + 1) :=
  logMatching_of_invL (invL_reachR s hr) l1 l2 h1 h2 k x y hx hy ht

/-- in particular an entry is determined by its index and term -/
theorem C05_entry_determined (s : PSys)
    (hr : Reach s) (a b k : Nat) (x y : LEntry)
    (hx : (s.nodes a).log[k]? = some x) (hy : (s.nodes b).log[k]? = some y) (ht : x.term = y.term) :
    x = y := by
  have h := C05_logMatching s hr a b k x y hx hy ht
  have h1 : ((s.nodes a).log.take (k + 1))[k]? = some x := by rw [List.getElem?_take]; simp [hx]
  have h2 : ((s.nodes b).log.take (k + 1))[k]? = some y := by rw [List.getElem?_take]; simp [hy]
  rw [h] at h1
  rw [h1] at h2
  exact Option.some.inj h2

/-- every released append is a slice of the log of the leader of its term, anchored in it -/
theorem C05_append_is_leader_slice (s : PSys)
    (hr : Reach s) (m : App) (hm : m ∈ s.apps) :
    m.prev + m.es.length ≤ (s.llog m.term).length ∧
    m.es = ((s.llog m.term).drop m.prev).take m.es.length ∧
    m.prevTerm = termAt (s.llog m.term) m.prev := by
  have := (invL_reachR s hr).msg m hm
  exact ⟨this.len, this.slice, this.anchor⟩

/-- a leader's log is the ghost log of its term, and entries carry positive terms not above the
term of the log that holds them -/
theorem C05_leader_log (s : PSys)
    (hr : Reach s) (i : Nat) :
    ((s.nodes i).role = 2 → (s.nodes i).log = s.llog (s.nodes i).term) ∧
    (∀ e ∈ (s.nodes i).log, 1 ≤ e.term ∧ e.term ≤ (s.nodes i).term) := by
  have I := invL_reachR s hr
  refine ⟨I.ll i, fun e he => ⟨pfl_term_pos I (keep_log s I i) he, (I.tle i).1 e he⟩⟩

/-- **Leaders are append-only**: whatever happens, as long as a node is in the leader role before
and after a step, its log after the step extends its log before the step. -/
theorem C05_leader_append_only (s s' : PSys) (e : Event) (h : applyEvent s e = .ok s') (j : Nat)
    (h1 : (s.nodes j).role = 2) (h2 : (s'.nodes j).role = 2) :
    ∃ r, (s'.nodes j).log = (s.nodes j).log ++ r := by
  cases e with
  | read r => obtain ⟨rd, hs⟩ := read_frame h; subst hs; exact ⟨[], by simp⟩
  | release i key =>
    simp only [applyEvent, ok] at h
    split at h
    · split at h
      · split at h
        · rename_i m _ _
          cases m <;> simp only [addReleased] at h <;> cases h <;> (exact ⟨[], by simp⟩)
        · cases h
      · cases h
    · split at h
      · split at h
        · split at h
          · rename_i m _ _
            cases m <;> simp only [addReleased] at h <;> cases h <;>
              (by_cases hj : j = i <;> simp [upd, hj])
          · cases h
        · cases h
      · cases h
  | persist i k =>
    simp only [applyEvent, ok] at h
    split at h
    · split at h
      · cases h; by_cases hj : j = i <;> simp [upd, hj]
      · cases h
    · cases h
  | installSnap i t idx sterm =>
    simp only [applyEvent, ok] at h
    split at h
    · split at h
      · cases h
        by_cases hj : j = i
        · subst hj; simp [upd] at h2
        · simp [upd, hj]
      · cases h
    · cases h
  | commitSnap i t idx sterm =>
    simp only [applyEvent, ok] at h
    split at h
    · split at h
      · cases h; by_cases hj : j = i <;> simp [upd, hj]
      · cases h
    · cases h
  | leaderAppend i e =>
    simp only [applyEvent, ok] at h
    split at h
    · cases h
      by_cases hj : j = i
      · subst hj; exact ⟨[e], by simp [upd]⟩
      · simp [upd, hj]
    · cases h
  | recvApp i m =>
    simp only [applyEvent, ok] at h
    split at h
    · cases h
      by_cases hj : j = i
      · subst hj; simp [upd] at h2
      · simp [upd, hj]
    · cases h
  | restart i =>
    simp only [applyEvent, ok] at h
    split at h
    · cases h
      by_cases hj : j = i
      · subst hj; simp [upd] at h2
      · simp [upd, hj]
    · cases h
  | bootstrap i donor idx =>
    simp only [applyEvent, ok] at h
    split at h
    · rename_i hg; cases h
      by_cases hj : j = i
      · subst hj; rw [hg.2.2.2.2.2.2.2.2.2.2.1] at h1; cases h1
      · simp [upd, hj]
    · cases h
  | grant i c =>
    simp only [applyEvent, ok] at h
    split at h
    · split at h
      · cases h; by_cases hj : j = i <;> simp [upd, hj]
      · cases h
    · cases h
  | bump i t | campaign i | rdy i | crash i | win i cfg q | stepDown i | ackCommitted i | ackSelf i idx
  | commitLeader i c cfg q | commitApp i c m | commitHB i c m | commitClaim i m =>
    simp only [applyEvent, ok] at h
    split at h
    · cases h; by_cases hj : j = i <;> simp [upd, hj]
    · cases h
  | sendApp i m | sendHB i to c | claim i idx | sendSnap i idx =>
    simp only [applyEvent, ok] at h
    split at h
    · cases h; exact ⟨[], by simp⟩
    · cases h

/-- **The committed prefix is immutable** under every step that is not a restart, a snapshot
install or a bootstrap: no entry at or below the commit index is replaced.  (A restart resumes from
the durable image, a snapshot install replaces the log by the snapshot's prefix; that these agree
with the committed prefix is the commit layer's state-machine safety, C01.)  `hcl`: the commit index
is inside the log, which every commit event of P checks. -/
theorem C05_commit_prefix_immutable (s s' : PSys) (e : Event) (h : applyEvent s e = .ok s')
    (hne : (∀ i, e ≠ .restart i) ∧ (∀ i t idx st, e ≠ .installSnap i t idx st) ∧
           (∀ i d idx, e ≠ .bootstrap i d idx)) (j : Nat)
    (hcl : (s.nodes j).commit ≤ (s.nodes j).log.length) :
    (s'.nodes j).log.take (s.nodes j).commit = (s.nodes j).log.take (s.nodes j).commit := by
  cases e with
  | read r => obtain ⟨rd, hs⟩ := read_frame h; subst hs; rfl
  | restart i => exact absurd rfl (hne.1 i)
  | installSnap i t idx st => exact absurd rfl (hne.2.1 i t idx st)
  | bootstrap i d idx => exact absurd rfl (hne.2.2 i d idx)
  | release i key =>
    simp only [applyEvent, ok] at h
    split at h
    · split at h
      · split at h
        · rename_i m _ _
          cases m <;> simp only [addReleased] at h <;> cases h <;> (rfl)
        · cases h
      · cases h
    · split at h
      · split at h
        · split at h
          · rename_i m _ _
            cases m <;> simp only [addReleased] at h <;> cases h <;>
              (by_cases hj : j = i <;> simp [upd, hj])
          · cases h
        · cases h
      · cases h
  | persist i k =>
    simp only [applyEvent, ok] at h
    split at h
    · split at h
      · cases h; by_cases hj : j = i <;> simp [upd, hj]
      · cases h
    · cases h
  | commitSnap i t idx sterm =>
    simp only [applyEvent, ok] at h
    split at h
    · split at h
      · cases h; by_cases hj : j = i <;> simp [upd, hj]
      · cases h
    · cases h
  | leaderAppend i e =>
    simp only [applyEvent, ok] at h
    split at h
    · rename_i hg; cases h
      by_cases hj : j = i
      · subst hj
        simp only [upd, if_true]
        rw [List.take_append_of_le_length hcl]
      · simp [upd, hj]
    · cases h
  | recvApp i m =>
    simp only [applyEvent, ok] at h
    split at h
    · rename_i hg; cases h
      by_cases hj : j = i
      · subst hj
        simp only [upd, if_true]
        have hp := mergeAt_prefix m.es (s.nodes j).log m.prev hg.2.2.2.2.1
        rcases hg.2.2.2.2.2.2 with h0 | hgt
        · rw [hp.1 h0]
        · have := (hp.2 (by omega)).2
          have hle : (s.nodes j).commit ≤ conflictAt (s.nodes j).log m.prev m.es - 1 := by omega
          have e1 := congrArg (List.take (s.nodes j).commit) this
          rw [List.take_take, List.take_take, Nat.min_eq_left hle] at e1
          exact e1
      · simp [upd, hj]
    · cases h
  | grant i c =>
    simp only [applyEvent, ok] at h
    split at h
    · split at h
      · cases h; by_cases hj : j = i <;> simp [upd, hj]
      · cases h
    · cases h
  | bump i t | campaign i | rdy i | crash i | win i cfg q | stepDown i | ackCommitted i | ackSelf i idx
  | commitLeader i c cfg q | commitApp i c m | commitHB i c m | commitClaim i m =>
    simp only [applyEvent, ok] at h
    split at h
    · cases h; by_cases hj : j = i <;> simp [upd, hj]
    · cases h
  | sendApp i m | sendHB i to c | claim i idx | sendSnap i idx =>
    simp only [applyEvent, ok] at h
    split at h
    · cases h; rfl
    · cases h

/-! ### non-vacuity: two followers with diverging unpersisted tails are repaired by a new leader -/

def c3 : Cfg := ⟨[1, 2, 3], []⟩
def e (t d : Nat) : LEntry := ⟨t, 0, d⟩

/-- node 1 leads term 1 and replicates entry a to node 2 only; node 3 then wins term 2 with the
votes of 3 and ... (it needs node 2, whose log is longer: refused) -/
def hist : List Event :=
  [.bump 1 1, .campaign 1, .rdy 1, .persist 1 1, .release 1 (.grant 1 1 1 {}), .release 1 (.voteReq 1 1 0 0),
   .bump 2 1, .grant 2 1, .rdy 2, .persist 2 1, .release 2 (.grant 1 2 1 {}), .win 1 c3 [1, 2],
   .leaderAppend 1 (e 1 7), .sendApp 1 ⟨1, 1, 0, 0, [e 1 7], 0⟩, .recvApp 2 ⟨1, 1, 0, 0, [e 1 7], 0⟩,
   .leaderAppend 1 (e 1 8)]

example : (match run init hist with
    | .ok s => ((s.nodes 1).log, (s.nodes 2).log, (s.nodes 3).log) | .error _ => ([], [], [])) =
    ([e 1 7, e 1 8], [e 1 7], []) := by decide

/-- node 3 (empty log) cannot get node 2's vote in term 2: its log is not up to date -/
example : (match run init (hist ++ [.bump 3 2, .campaign 3, .rdy 3, .persist 3 1,
      .release 3 (.voteReq 2 3 0 0), .bump 2 2, .grant 2 3]) with
    | .ok _ => "granted" | .error _ => "refused") = "refused" := by decide

end RaftProps.C05
