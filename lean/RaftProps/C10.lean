import RaftProofs.RaftNode
import RaftProofs.RaftNodeC10

/-!
# C10 — Progress after stabilisation: the "no permanent stall" lemmas

Property C10: *from any state reachable under faults, once faults stop — crashed nodes restarted,
messages delivered, every node ticked regularly, a majority of each voter set running — then within
a bounded number of election timeouts exactly one leader exists, every running member's log and
commit index reach the leader's, and a newly proposed entry is committed and handed to the
application on every running member.  Replication to a lagging, probing, snapshot-receiving or
flow-controlled follower never stalls permanently.*

The cluster-level liveness statement is `C10_full_statement` at the end of this file and is **not
proved**.  What is proved here, on the executable node model (`RaftModel.Raft*`, tied line by line
to `src/raft.rs`, `src/tracker/progress.rs`, `src/tracker/inflights.rs` by differential testing),
is the last sentence, per follower: for every way a follower's `Progress` can look stuck, the event
that a fair fault-free suffix delivers (a heartbeat response, an append response, a rejection, a
snapshot status report, an election tick) un-sticks it, and well-founded measures bound the repair.
Every theorem holds for ALL node states and messages unless a hypothesis is named.

Three places where the text of the property had to be sharpened are marked **Restated**.
Two behaviours of the real code that a liveness argument must treat as assumptions are marked
**Assumption**.
-/
namespace RaftProps.C10
open RaftModel RaftModel.Raft

/-! ## 1. `Progress` level (`src/tracker/progress.rs`) -/

/-- the replication invariant of one follower's `Progress`: `next_idx > matched` -/
def WF (p : Progress) : Prop := p.matched + 1 ≤ p.nextIdx

/-- the probing measure: how far `next_idx` is above its floor `matched + 1` -/
def probeGap (p : Progress) : Nat := p.nextIdx - (p.matched + 1)

/-- **1a `is_paused` (progress.rs:203), Probe.**  A probing follower is held back exactly by the
`paused` flag. -/
theorem isPaused_probe (p : Progress) (h : p.state = .probe) : p.isPaused = p.paused := by
  simp [Progress.isPaused, h]

/-- **1a, Replicate.**  A replicating follower is held back exactly by a full in-flight window. -/
theorem isPaused_replicate (p : Progress) (h : p.state = .replicate) : p.isPaused = p.ins.full := by
  simp [Progress.isPaused, h]

/-- **1a, Snapshot.**  A follower receiving a snapshot is always held back. -/
theorem isPaused_snapshot (p : Progress) (h : p.state = .snapshot) : p.isPaused = true := by
  simp [Progress.isPaused, h]

/-- **1a.**  The complete list of the ways `maybe_send_append` gets past its `is_paused` gate. -/
theorem isPaused_false_iff (p : Progress) :
    p.isPaused = false ↔
      (p.state = .probe ∧ p.paused = false) ∨ (p.state = .replicate ∧ p.ins.full = false) := by
  unfold Progress.isPaused
  cases h : p.state <;> simp

theorem ite_max (a b : Nat) : (if a < b then b else a) = max a b := by
  split <;> omega

/-- **1c `maybe_decr_to` (progress.rs:166), Probe/Snapshot, genuine rejection.**  A rejection of the
probe that is in flight (`rejected = next_idx - 1`) sets
`next_idx := max(min(rejected, match_hint + 1), matched + 1)` and un-pauses.

**Restated:** the floor is `matched + 1`, not `1` as in the task text (and in etcd): progress.rs:195
reads `if self.next_idx < self.matched + 1 { self.next_idx = self.matched + 1 }`. -/
theorem maybeDecrTo_probe_genuine (p : Progress) (rejected matchHint : Nat)
    (hs : p.state ≠ .replicate) (hn : p.nextIdx ≠ 0) (hr : p.nextIdx - 1 = rejected)
    (hh : matchHint < U64_MAX) :
    p.maybeDecrTo rejected matchHint 0 =
      .ok ({ p with nextIdx := max (min rejected (matchHint + 1)) (p.matched + 1), paused := false },
           true) := by
  unfold Progress.maybeDecrTo
  have h1 : ¬ (U64_MAX ≤ matchHint) := by omega
  simp only [hs, if_false, hn, hr, false_or, ne_eq, not_true_eq_false, false_and, h1]
  simp only [if_true, ite_max]

/-- **1c, Probe/Snapshot, stale rejection** (`rejected ≠ next_idx - 1`, no snapshot request):
nothing changes. -/
theorem maybeDecrTo_probe_stale (p : Progress) (rejected matchHint : Nat)
    (hs : p.state ≠ .replicate) (hr : p.nextIdx = 0 ∨ p.nextIdx - 1 ≠ rejected) :
    p.maybeDecrTo rejected matchHint 0 = .ok (p, false) := by
  unfold Progress.maybeDecrTo
  simp [hs, hr]

/-- **1c, Replicate, genuine rejection** (`rejected > matched`): `next_idx := matched + 1`. -/
theorem maybeDecrTo_replicate_genuine (p : Progress) (rejected matchHint : Nat)
    (hs : p.state = .replicate) (hr : p.matched < rejected) :
    p.maybeDecrTo rejected matchHint 0 = .ok ({ p with nextIdx := p.matched + 1 }, true) := by
  unfold Progress.maybeDecrTo
  have h1 : ¬ rejected < p.matched := by omega
  have h2 : ¬ rejected = p.matched := by omega
  simp [hs, h1, h2]

/-- **1c, Replicate, stale rejection** (`rejected ≤ matched`): nothing changes. -/
theorem maybeDecrTo_replicate_stale (p : Progress) (rejected matchHint : Nat)
    (hs : p.state = .replicate) (hr : rejected ≤ p.matched) :
    p.maybeDecrTo rejected matchHint 0 = .ok (p, false) := by
  unfold Progress.maybeDecrTo
  have h1 : rejected < p.matched ∨ rejected = p.matched := by omega
  simp [hs, h1]

/-- **1c.**  Whenever `maybe_decr_to` answers `false` the progress is untouched (any arguments,
including snapshot requests). -/
theorem maybeDecrTo_false_unchanged (p p' : Progress) (rejected matchHint rs : Nat)
    (h : p.maybeDecrTo rejected matchHint rs = .ok (p', false)) : p' = p := by
  unfold Progress.maybeDecrTo at h
  repeat' split at h
  all_goals first | (cases h; rfl) | cases h

/-- **1c.**  What every outcome of `maybe_decr_to` keeps: `matched`, the state, the window, the
pending snapshot, `recent_active`. -/
theorem maybeDecrTo_frame (p p' : Progress) (rejected matchHint rs : Nat) (b : Bool)
    (h : p.maybeDecrTo rejected matchHint rs = .ok (p', b)) :
    p'.matched = p.matched ∧ p'.state = p.state ∧ p'.ins = p.ins ∧
    p'.pendingSnapshot = p.pendingSnapshot ∧ p'.recentActive = p.recentActive := by
  unfold Progress.maybeDecrTo at h
  repeat' split at h
  all_goals first | (cases h; simp) | cases h

/-- **1c.**  Outside `Replicate`, a rejection that is accepted (`true`) always un-pauses. -/
theorem maybeDecrTo_true_unpauses (p p' : Progress) (rejected matchHint rs : Nat)
    (hs : p.state ≠ .replicate)
    (h : p.maybeDecrTo rejected matchHint rs = .ok (p', true)) : p'.paused = false := by
  unfold Progress.maybeDecrTo at h
  simp only [hs, if_false] at h
  repeat' split at h
  all_goals first | (cases h; rfl) | cases h

/-- **1c, measure.**  `next_idx ≥ matched + 1` is preserved by every rejection, `next_idx` never
grows, `matched` is untouched. -/
theorem maybeDecrTo_measure (p p' : Progress) (rejected matchHint rs : Nat) (b : Bool)
    (hwf : WF p) (h : p.maybeDecrTo rejected matchHint rs = .ok (p', b)) :
    WF p' ∧ p'.nextIdx ≤ p.nextIdx ∧ p'.matched = p.matched := by
  unfold WF at *
  unfold Progress.maybeDecrTo at h
  repeat' split at h
  all_goals first | (cases h; refine ⟨?_, ?_, rfl⟩ <;> (try simp only [ite_max]) <;> omega) | cases h

/-- **1c, strict decrease.**  While `next_idx` is above the floor `matched + 1`, a genuine rejection
in `Probe` (or `Snapshot`) state is accepted, strictly decreases `next_idx`, keeps it `≥ matched + 1`
and un-pauses: the measure `probeGap` strictly decreases. -/
theorem maybeDecrTo_probe_strict (p p' : Progress) (rejected matchHint : Nat) (b : Bool)
    (hs : p.state ≠ .replicate) (hr : p.nextIdx - 1 = rejected) (hgap : p.matched + 1 < p.nextIdx)
    (h : p.maybeDecrTo rejected matchHint 0 = .ok (p', b)) :
    b = true ∧ p'.nextIdx < p.nextIdx ∧ p.matched + 1 ≤ p'.nextIdx ∧ p'.paused = false := by
  by_cases hh : matchHint < U64_MAX
  · rw [maybeDecrTo_probe_genuine p rejected matchHint hs (by omega) hr hh] at h
    cases h
    refine ⟨rfl, ?_, ?_, rfl⟩ <;> simp only <;> omega
  · unfold Progress.maybeDecrTo at h
    have h1 : U64_MAX ≤ matchHint := by omega
    have h2 : p.nextIdx ≠ 0 := by omega
    simp [hs, hr, h1, h2] at h

/-- **1c, the floor (Restated / Assumption).**  At the floor (`next_idx = matched + 1`) a rejection
of index `matched` itself is *accepted* (`true`: the leader sends the same probe again) but cannot
move `next_idx`.  Under the protocol invariants this rejection never arrives (`matched` was
acknowledged by this follower in this leader's term, and `reset` zeroes `matched` at every
election); for a follower that lost acknowledged entries it is an endless probe/reject exchange —
the etcd floor `1` would let probing continue below `matched`. -/
theorem maybeDecrTo_probe_floor (p : Progress) (matchHint : Nat)
    (hs : p.state ≠ .replicate) (hfl : p.nextIdx = p.matched + 1) (hh : matchHint < U64_MAX) :
    p.maybeDecrTo p.matched matchHint 0 = .ok ({ p with paused := false }, true) := by
  rw [maybeDecrTo_probe_genuine p p.matched matchHint hs (by omega) (by omega) hh]
  have : max (min p.matched (matchHint + 1)) (p.matched + 1) = p.nextIdx := by omega
  rw [this]

/-- a run of rejections (`(rejected, match_hint)` pairs, no snapshot request) handled one after the
other; the count is the number of those that moved `next_idx` -/
def applyRejections : Progress → List (Nat × Nat) → Res (Progress × Nat)
  | p, [] => .ok (p, 0)
  | p, (rej, hint) :: rest =>
    match p.maybeDecrTo rej hint 0 with
    | .ok (p', _) =>
      (match applyRejections p' rest with
        | .ok (q, k) => .ok (q, if p'.nextIdx < p.nextIdx then k + 1 else k)
        | .err e => .err e
        | .panic s => .panic s)
    | .err e => .err e
    | .panic s => .panic s

/-- **1c, probing terminates.**  Along any run of rejections the number that moved `next_idx` plus
the final gap is at most the initial gap `next_idx - (matched + 1)`: after at most `probeGap p`
effective rejections the follower is probed at `matched + 1`. -/
theorem probing_terminates (p q : Progress) (rs : List (Nat × Nat)) (k : Nat) (hwf : WF p)
    (h : applyRejections p rs = .ok (q, k)) :
    WF q ∧ q.matched = p.matched ∧ k + probeGap q ≤ probeGap p := by
  induction rs generalizing p q k with
  | nil => simp [applyRejections] at h; obtain ⟨rfl, rfl⟩ := h; exact ⟨hwf, rfl, by omega⟩
  | cons a rest ih =>
    obtain ⟨rej, hint⟩ := a
    simp only [applyRejections] at h
    split at h
    · rename_i p' b hd
      obtain ⟨hwf', hle, hm⟩ := maybeDecrTo_measure p p' rej hint 0 b hwf hd
      split at h
      · rename_i q' k' hrec
        obtain ⟨hq, hqm, hk⟩ := ih p' q' k' hwf' hrec
        cases h
        refine ⟨hq, hqm.trans hm, ?_⟩
        unfold probeGap WF at *
        split <;> omega
      · cases h
      · cases h
    · cases h
    · cases h

/-- **1d `maybe_update` (progress.rs:136).**  For `n < u64::MAX` (the only case that does not
overflow): the answer is `matched < n`; `matched := max(matched, n)`; `next_idx := max(next_idx, n+1)`;
an advancing acknowledgement un-pauses; everything else is kept. -/
theorem maybeUpdate_spec (p : Progress) (n : Nat) (hn : n < U64_MAX) :
    ∃ p', p.maybeUpdate n = .ok (p', decide (p.matched < n)) ∧
      p'.matched = max p.matched n ∧ p'.nextIdx = max p.nextIdx (n + 1) ∧
      (p.matched < n → p'.paused = false) ∧ (¬ p.matched < n → p'.paused = p.paused) ∧
      p'.state = p.state ∧ p'.ins = p.ins ∧ p'.pendingSnapshot = p.pendingSnapshot ∧
      p'.pendingRequestSnapshot = p.pendingRequestSnapshot ∧ p'.recentActive = p.recentActive := by
  unfold Progress.maybeUpdate
  have h1 : ¬ U64_MAX ≤ n := by omega
  simp only [h1, if_false]
  refine ⟨_, rfl, ?_⟩
  by_cases hm : p.matched < n <;> by_cases hx : p.nextIdx < n + 1 <;>
    simp [hm, hx] <;> omega

/-- **1d, corollaries.**  `matched` never decreases, `next_idx ≥ n + 1` afterwards, the invariant
`next_idx > matched` is preserved, the answer is `true` exactly when `matched` strictly increases,
and then `matched = n` and the progress is un-paused (`resume`). -/
theorem maybeUpdate_mono (p p' : Progress) (n : Nat) (b : Bool)
    (h : p.maybeUpdate n = .ok (p', b)) :
    p.matched ≤ p'.matched ∧ n + 1 ≤ p'.nextIdx ∧ n ≤ p'.matched ∧ (WF p → WF p') ∧
    (b = true ↔ p.matched < n) ∧ (b = true → p'.matched = n ∧ p'.paused = false) := by
  by_cases hn : n < U64_MAX
  · obtain ⟨q, hq, h1, h2, h3, _⟩ := maybeUpdate_spec p n hn
    rw [hq] at h; cases h
    unfold WF
    refine ⟨by omega, by omega, by omega, by omega, by simp, ?_⟩
    intro hb
    have : p.matched < n := by simpa using hb
    exact ⟨by omega, h3 this⟩
  · unfold Progress.maybeUpdate at h
    have : U64_MAX ≤ n := by omega
    simp [this] at h

theorem maybeUpdate_ok_lt (p p' : Progress) (n : Nat) (b : Bool)
    (h : p.maybeUpdate n = .ok (p', b)) : n < U64_MAX := by
  unfold Progress.maybeUpdate at h
  by_cases hn : U64_MAX ≤ n
  · simp [hn] at h
  · omega

/-- **1e `become_probe` (progress.rs:94) from `Snapshot`:** `next_idx = max(matched+1,
pending_snapshot+1)`, un-paused, window and pending snapshot cleared. -/
theorem becomeProbe_from_snapshot (p : Progress) (h : p.state = .snapshot) :
    p.becomeProbe = { p with state := .probe, paused := false, pendingSnapshot := 0,
                             ins := p.ins.reset,
                             nextIdx := max (p.matched + 1) (p.pendingSnapshot + 1) } := by
  simp [Progress.becomeProbe, h, Progress.resetState]

/-- **1e `become_probe` from `Probe`/`Replicate`:** `next_idx = matched + 1`. -/
theorem becomeProbe_not_snapshot (p : Progress) (h : p.state ≠ .snapshot) :
    p.becomeProbe = { p with state := .probe, paused := false, pendingSnapshot := 0,
                             ins := p.ins.reset, nextIdx := p.matched + 1 } := by
  simp [Progress.becomeProbe, h, Progress.resetState]

/-- **1e.**  After `become_probe`, whatever the state before: `Probe`, not paused, invariant holds. -/
theorem becomeProbe_props (p : Progress) :
    p.becomeProbe.state = .probe ∧ p.becomeProbe.paused = false ∧ p.becomeProbe.isPaused = false ∧
    p.becomeProbe.matched = p.matched ∧ p.becomeProbe.pendingSnapshot = 0 ∧ WF p.becomeProbe := by
  unfold WF Progress.becomeProbe Progress.isPaused
  split <;> simp [Progress.resetState] <;> omega

/-- **1e `become_replicate` (progress.rs:110).** -/
theorem becomeReplicate_props (p : Progress) :
    p.becomeReplicate.state = .replicate ∧ p.becomeReplicate.nextIdx = p.matched + 1 ∧
    p.becomeReplicate.matched = p.matched ∧ p.becomeReplicate.ins = p.ins.reset ∧
    p.becomeReplicate.pendingSnapshot = 0 ∧ WF p.becomeReplicate := by
  simp [WF, Progress.becomeReplicate, Progress.resetState]

/-- **1e `become_snapshot` (progress.rs:117):** held back until the snapshot is reported or
acknowledged. -/
theorem becomeSnapshot_props (p : Progress) (i : Nat) :
    (p.becomeSnapshot i).state = .snapshot ∧ (p.becomeSnapshot i).pendingSnapshot = i ∧
    (p.becomeSnapshot i).matched = p.matched ∧ (p.becomeSnapshot i).nextIdx = p.nextIdx ∧
    (p.becomeSnapshot i).isPaused = true := by
  simp [Progress.becomeSnapshot, Progress.resetState, Progress.isPaused]

/-- the window after `reset` is empty, hence not full unless the (pending) capacity is 0 -/
theorem reset_not_full (s : Inflights) (h : 0 < s.incomingCap.getD s.cap) : s.reset.full = false := by
  simp [Inflights.reset, Inflights.full]; omega

/-- **1e / 4.**  A follower that has just entered `Replicate` is not flow-controlled, provided its
window capacity is not 0 (see `zero_capacity_stalls`). -/
theorem becomeReplicate_not_paused (p : Progress) (h : 0 < p.ins.incomingCap.getD p.ins.cap) :
    p.becomeReplicate.isPaused = false := by
  simp only [Progress.isPaused, Progress.becomeReplicate, Progress.resetState]
  exact reset_not_full p.ins h

theorem updateCommitted_frame (p : Progress) (ci : Nat) :
    (p.updateCommitted ci).state = p.state ∧ (p.updateCommitted ci).matched = p.matched ∧
    (p.updateCommitted ci).nextIdx = p.nextIdx ∧ (p.updateCommitted ci).ins = p.ins ∧
    (p.updateCommitted ci).pendingSnapshot = p.pendingSnapshot ∧
    (p.updateCommitted ci).pendingRequestSnapshot = p.pendingRequestSnapshot ∧
    (p.updateCommitted ci).recentActive = p.recentActive ∧
    (p.updateCommitted ci).paused = p.paused := by
  unfold Progress.updateCommitted; split <;> simp


/-! ## 2. Leader level (`src/raft.rs`) -/

/-- the only reasons an un-paused, recently active follower is not sent anything by
`maybe_send_append(.., allow_empty = true)`: the storage answers `LogTemporarilyUnavailable`
(asynchronous entry fetch) or `SnapshotTemporarilyUnavailable` (snapshot still being generated).
**Assumption:** both are storage conditions that a fair suffix must eventually lift. -/
theorem sendBlocked_unpaused (r : Raft) (pr : Progress) (hp : pr.isPaused = false)
    (ha : pr.recentActive = true) (h : SendBlocked r pr true) :
    r.raftLog.entries pr.nextIdx (some r.maxMsgSize) true = .err .logTemporarilyUnavailable ∨
    (r.raftLog.snapshot pr.pendingRequestSnapshot).2 = .err .snapshotTemporarilyUnavailable := by
  rcases h with h | h | h | h | h
  · rw [hp] at h; cases h
  · cases h
  · exact Or.inl h
  · rw [ha] at h; cases h
  · exact Or.inr h

/-- **1b / 4 heartbeat response (raft.rs `handle_heartbeat_response`).**  When the leader handles a
`MsgHeartbeatResponse` from `x = m.from`, the progress `prH` it works with is `x`'s progress
*resumed* (`paused = false`, `recent_active = true`), with one call of `free_first_one` if it was
`Replicate` with a full window; and if `matched < last_index` or a snapshot request is pending,
exactly one `maybe_send_append(x, prH, allow_empty = true)` is made and its result is what is stored
for `x`; otherwise `prH` is stored.

**Restated:** "afterwards `paused = false`" holds for `prH`, the progress handed to `send_append`,
not for the stored progress: a probe that is sent pauses the progress again (`update_state`), which
is the one-probe-per-heartbeat throttle, not a stall. -/
theorem handleHeartbeatResponse_spec (r r' : Raft) (m : Message) (pr0 : Progress)
    (hg : r.prs.get m.frm = some pr0) (h : r.handleHeartbeatResponse m = .ok r') :
    ∃ prH : Progress,
      prH.paused = false ∧ prH.recentActive = true ∧ prH.state = pr0.state ∧
      prH.matched = pr0.matched ∧ prH.nextIdx = pr0.nextIdx ∧
      prH.pendingRequestSnapshot = pr0.pendingRequestSnapshot ∧
      prH.pendingSnapshot = pr0.pendingSnapshot ∧
      (if pr0.state = .replicate ∧ pr0.ins.full = true then pr0.ins.freeFirstOne = .ok prH.ins
       else prH.ins = pr0.ins) ∧
      (if prH.matched < r.raftLog.lastIndex ∨ prH.pendingRequestSnapshot ≠ 0 then
         ∃ r1 pr1 sent, r.maybeSendAppend m.frm prH true = .ok (r1, pr1, sent) ∧
           r'.prs.get m.frm = some pr1
       else r'.prs.get m.frm = some prH) := by
  unfold Raft.handleHeartbeatResponse at h
  rw [hg] at h
  dsimp only at h
  obtain ⟨prH, hprH, h⟩ := Res.bind_eq_ok h
  obtain ⟨r1, hr1, h⟩ := Res.bind_eq_ok h
  have hprs : r'.prs = r1.prs := by
    split at h
    · cases h; rfl
    · split at h
      · cases h; rfl
      · split at h
        · obtain ⟨x, hx, h⟩ := Res.bind_eq_ok h
          have := respondReadStates_prs _ _ _ h
          exact this
        · cases h; rfl
  have hU : ∀ ci, (pr0.updateCommitted ci).state = pr0.state ∧
      (pr0.updateCommitted ci).matched = pr0.matched ∧ (pr0.updateCommitted ci).nextIdx = pr0.nextIdx ∧
      (pr0.updateCommitted ci).pendingRequestSnapshot = pr0.pendingRequestSnapshot ∧
      (pr0.updateCommitted ci).pendingSnapshot = pr0.pendingSnapshot ∧
      (pr0.updateCommitted ci).ins = pr0.ins := by
    intro ci; unfold Progress.updateCommitted; split <;> simp
  obtain ⟨u1, u2, u3, u4, u5, u6⟩ := hU m.commit
  refine ⟨prH, ?_⟩
  simp only [Progress.resume, u1, u6] at hprH
  have key : prH.paused = false ∧ prH.recentActive = true ∧ prH.state = pr0.state ∧
      prH.matched = pr0.matched ∧ prH.nextIdx = pr0.nextIdx ∧
      prH.pendingRequestSnapshot = pr0.pendingRequestSnapshot ∧
      prH.pendingSnapshot = pr0.pendingSnapshot ∧
      (if pr0.state = .replicate ∧ pr0.ins.full = true then pr0.ins.freeFirstOne = .ok prH.ins
       else prH.ins = pr0.ins) := by
    split at hprH
    · rename_i hc
      split at hprH
      · rename_i ins hi
        cases hprH
        refine ⟨rfl, rfl, rfl, u2, u3, u4, u5, ?_⟩
        rw [if_pos hc]; exact hi
      · cases hprH
    · rename_i hc
      cases hprH
      refine ⟨rfl, rfl, rfl, u2, u3, u4, u5, ?_⟩
      rw [if_neg hc]
  obtain ⟨k1, k2, k3, k4, k5, k6, k7, k8⟩ := key
  refine ⟨k1, k2, k3, k4, k5, k6, k7, k8, ?_⟩
  split at hr1
  · rename_i hc
    rw [if_pos hc]
    obtain ⟨x, hx, hr1⟩ := Res.bind_eq_ok hr1
    obtain ⟨r2, pr2⟩ := x
    simp only at hr1
    cases hr1
    unfold Raft.sendAppendPr at hx
    obtain ⟨y, hy, hx⟩ := Res.bind_eq_ok hx
    obtain ⟨r3, pr3, sent⟩ := y
    simp only at hx
    cases hx
    refine ⟨r2, pr2, sent, hy, ?_⟩
    rw [hprs]
    have := (maybeSendAppend_rel _ _ _ _ _ _ _ hy).1
    simp only
    rw [this]
    exact ProgressTracker.get_set_self _ _ _ _ hg
  · rename_i hc
    rw [if_neg hc]
    cases hr1
    rw [hprs]
    exact ProgressTracker.get_set_self _ _ _ _ hg

/-- **1b / 4 flow control: no "window full forever while acks were lost".**  A `Replicate`
follower whose window is full (ring invariant `Inv`, capacity ≥ 1, no capacity reduction pending)
and that lags behind the leader's log: the heartbeat response frees at least one slot
(`free_first_one`), the progress handed to `send_append` is therefore *not* paused, exactly one
`maybe_send_append` is made, and it either queues a message for the follower or is held back by the
storage (`…TemporarilyUnavailable`).  So every answered heartbeat yields one more append. -/
theorem full_window_heartbeat_sends (r r' : Raft) (m : Message) (pr0 : Progress)
    (hg : r.prs.get m.frm = some pr0) (hs : pr0.state = .replicate) (hf : pr0.ins.full = true)
    (hinv : pr0.ins.Inv) (hcap : 0 < pr0.ins.cap) (hpend : pr0.ins.incomingCap = none)
    (hlag : pr0.matched < r.raftLog.lastIndex)
    (h : r.handleHeartbeatResponse m = .ok r') :
    ∃ (prH : Progress) (r1 : Raft) (pr1 : Progress) (sent : Bool),
      pr0.ins.freeFirstOne = .ok prH.ins ∧ prH.ins.Inv ∧ prH.ins.count < pr0.ins.count ∧
      prH.state = .replicate ∧ prH.isPaused = false ∧
      r.maybeSendAppend m.frm prH true = .ok (r1, pr1, sent) ∧ r'.prs.get m.frm = some pr1 ∧
      (sent = true → ∃ msg ∈ r1.msgs, msg.to = m.frm ∧
        (msg.msgType = .msgAppend ∨ msg.msgType = .msgSnapshot)) ∧
      (sent = false → pr1 = prH ∧
        (r.raftLog.entries prH.nextIdx (some r.maxMsgSize) true = .err .logTemporarilyUnavailable ∨
         (r.raftLog.snapshot prH.pendingRequestSnapshot).2 =
           .err .snapshotTemporarilyUnavailable)) := by
  obtain ⟨prH, k1, k2, k3, k4, k5, k6, k7, k8, k9⟩ := handleHeartbeatResponse_spec r r' m pr0 hg h
  rw [if_pos ⟨hs, hf⟩] at k8
  have hc := Inflights.full_count_pos _ hinv hf hcap
  obtain ⟨s', e, i, hlt, hnf⟩ := Inflights.freeFirstOne_not_full _ hinv hc hpend
  rw [k8] at e; cases e
  have hst : prH.state = .replicate := by rw [k3, hs]
  have hnp : prH.isPaused = false := by rw [isPaused_replicate _ hst]; exact hnf
  rw [if_pos (Or.inl (by rw [k4]; exact hlag))] at k9
  obtain ⟨r1, pr1, sent, hy, hg'⟩ := k9
  obtain ⟨_, _, e3, e4⟩ := maybeSendAppend_rel _ _ _ _ _ _ _ hy
  refine ⟨prH, r1, pr1, sent, k8, i, hlt, hst, hnp, hy, hg', fun hs' => (e4 hs').2, ?_⟩
  intro hs'
  exact ⟨(e3 hs').1, sendBlocked_unpaused _ _ hnp k2 (e3 hs').2⟩

/-- **1b, exactly one slot.**  For the strictly increasing windows the leader builds (each
`MsgAppend` records the index of its last entry), `free_first_one` frees exactly one slot: the
oldest in-flight message.

**Restated:** without the monotonicity hypothesis `free_first_one` (= `free_to(first)`) frees *at
least* one slot (`Inflights.freeFirstOne_count_lt`), not exactly one. -/
theorem freeFirstOne_frees_exactly_one (s : Inflights) (h : s.Inv) (hc : 0 < s.count)
    (hinc : s.contents.Pairwise (· < ·)) :
    ∃ s', s.freeFirstOne = .ok s' ∧ s'.Inv ∧ s'.count + 1 = s.count ∧
      s'.contents = s.contents.tail :=
  Inflights.freeFirstOne_count_exact s h hc hinc

/-- **4, with a capacity reduction pending.**  While `adjust_max_inflight_msgs` has a smaller
capacity pending the window may stay "full" after one slot is freed, but every heartbeat response
on a full, non-empty window strictly decreases the number in flight, so the measure `ins.count`
bounds the number of heartbeat rounds without an append. -/
theorem full_window_heartbeat_drains (r r' : Raft) (m : Message) (pr0 : Progress)
    (hg : r.prs.get m.frm = some pr0) (hs : pr0.state = .replicate) (hf : pr0.ins.full = true)
    (hinv : pr0.ins.Inv) (hc : 0 < pr0.ins.count)
    (h : r.handleHeartbeatResponse m = .ok r') :
    ∃ prH : Progress,
      pr0.ins.freeFirstOne = .ok prH.ins ∧ prH.ins.Inv ∧ prH.ins.count < pr0.ins.count := by
  obtain ⟨prH, k1, k2, k3, k4, k5, k6, k7, k8, k9⟩ := handleHeartbeatResponse_spec r r' m pr0 hg h
  rw [if_pos ⟨hs, hf⟩] at k8
  obtain ⟨s', e, i, hlt⟩ := Inflights.freeFirstOne_count_lt _ hinv hc
  rw [k8] at e; cases e
  exact ⟨prH, k8, i, hlt⟩

/-- **4, Assumption (`max_inflight_msgs ≥ 1`).**  A window of capacity 0 is full while empty, and
`free_first_one` has nothing to free: such a `Replicate` follower is paused for ever.
`Config::validate` rejects `max_inflight_msgs = 0`, but `adjust_max_inflight_msgs(target, 0)`
(raft.rs:3007) is not guarded and installs capacity 0 as soon as the window drains. -/
theorem zero_capacity_stalls :
    (Inflights.new 0).full = true ∧ (Inflights.new 0).freeFirstOne = .ok (Inflights.new 0) ∧
    (Inflights.new 0).Inv ∧
    (∃ s, (Inflights.new 3).setCap 0 = .ok s ∧ s.full = true ∧ s.count = 0) := by
  refine ⟨by decide, rfl, Inflights.inv_new 0, _, rfl, by decide, by decide⟩

/-- **Probe, paused.**  A heartbeat response lets a paused probing follower through the
`is_paused` gate: the progress handed to `send_append` is not paused, and if the follower lags,
exactly one `maybe_send_append` is made, which queues a message or is held back by the storage. -/
theorem paused_probe_heartbeat_sends (r r' : Raft) (m : Message) (pr0 : Progress)
    (hg : r.prs.get m.frm = some pr0) (hs : pr0.state = .probe)
    (hlag : pr0.matched < r.raftLog.lastIndex)
    (h : r.handleHeartbeatResponse m = .ok r') :
    ∃ prH r1 pr1 sent, prH.state = .probe ∧ prH.isPaused = false ∧ prH.nextIdx = pr0.nextIdx ∧
      r.maybeSendAppend m.frm prH true = .ok (r1, pr1, sent) ∧ r'.prs.get m.frm = some pr1 ∧
      (sent = true → ∃ msg ∈ r1.msgs, msg.to = m.frm ∧
        (msg.msgType = .msgAppend ∨ msg.msgType = .msgSnapshot)) ∧
      (sent = false → pr1 = prH ∧
        (r.raftLog.entries prH.nextIdx (some r.maxMsgSize) true = .err .logTemporarilyUnavailable ∨
         (r.raftLog.snapshot prH.pendingRequestSnapshot).2 =
           .err .snapshotTemporarilyUnavailable)) := by
  obtain ⟨prH, k1, k2, k3, k4, k5, k6, k7, k8, k9⟩ := handleHeartbeatResponse_spec r r' m pr0 hg h
  have hst : prH.state = .probe := by rw [k3, hs]
  have hnp : prH.isPaused = false := by rw [isPaused_probe _ hst]; exact k1
  rw [if_pos (Or.inl (by rw [k4]; exact hlag))] at k9
  obtain ⟨r1, pr1, sent, hy, hg'⟩ := k9
  obtain ⟨_, _, e3, e4⟩ := maybeSendAppend_rel _ _ _ _ _ _ _ hy
  refine ⟨prH, r1, pr1, sent, hst, hnp, k5, hy, hg', fun hs' => (e4 hs').2, ?_⟩
  intro hs'
  exact ⟨(e3 hs').1, sendBlocked_unpaused _ _ hnp k2 (e3 hs').2⟩

/-- **Snapshot state, Assumption (`report_snapshot`).**  A heartbeat response does *not* move a
follower out of `Snapshot`: the state, the pending snapshot index and `matched` are unchanged and
nothing is sent.  The only exits are a snapshot status report (`handleSnapshotStatus_spec`), an
append response that reaches the pending snapshot index (`handleAppendResponse_accept`), or a
leader change.  If the `MsgSnapshot` was lost while faults were active, the follower never sends
that append response, so liveness rests on the application calling `report_snapshot` for every
snapshot it was asked to send. -/
theorem heartbeat_does_not_leave_snapshot (r r' : Raft) (m : Message) (pr0 : Progress)
    (hg : r.prs.get m.frm = some pr0) (hs : pr0.state = .snapshot)
    (h : r.handleHeartbeatResponse m = .ok r') :
    ∃ pr', r'.prs.get m.frm = some pr' ∧ pr'.state = .snapshot ∧
      pr'.pendingSnapshot = pr0.pendingSnapshot ∧ pr'.matched = pr0.matched ∧
      pr'.nextIdx = pr0.nextIdx := by
  obtain ⟨prH, k1, k2, k3, k4, k5, k6, k7, k8, k9⟩ := handleHeartbeatResponse_spec r r' m pr0 hg h
  have hst : prH.state = .snapshot := by rw [k3, hs]
  split at k9
  · obtain ⟨r1, pr1, sent, hy, hg'⟩ := k9
    obtain ⟨_, _, e3, e4⟩ := maybeSendAppend_rel _ _ _ _ _ _ _ hy
    cases sent with
    | true =>
      have := (e4 rfl).1
      rw [isPaused_snapshot _ hst] at this; cases this
    | false =>
      have := (e3 rfl).1
      subst this
      exact ⟨pr1, hg', hst, k7, k4, k5⟩
  · exact ⟨prH, k9, hst, k7, k4, k5⟩

/-- **2a successful append response (raft.rs `handle_append_response`, accept path).**  When the
leader handles a non-reject `MsgAppendResponse` from `x` whose index advances `matched`, the
progress `pr1` written back before anything is sent has `matched = index` and
* `Probe` ⇒ `Replicate` with `next_idx = index + 1`;
* `Snapshot`, caught up (`pending_snapshot ≤ index`) ⇒ `Probe`, un-paused, `next_idx = index + 1`,
  pending snapshot cleared;
* `Snapshot`, not caught up ⇒ stays `Snapshot` with the same pending snapshot;
* `Replicate` ⇒ the window is `free_to(index)`.
The rest of the handler (commit, broadcast / resend, `send_append_aggressively`, transfer) only
sends, so the stored progress `pr'` is related to `pr1` by `SendRel`: same `matched`, same state or
`Snapshot` (when the entries to send are compacted), and a `Snapshot` progress keeps its pending
index.

**Restated:** "Snapshot caught up ⇒ Probe then Replicate as the code does": in this code base the
caught-up follower becomes `Probe` and is sent a probe at once (`old_paused` is true); it becomes
`Replicate` on the *next* append response (first bullet), not in the same handler. -/
theorem handleAppendResponse_accept (r r' : Raft) (m : Message) (pr0 : Progress)
    (hg : r.prs.get m.frm = some pr0) (hrej : m.reject = false) (hadv : pr0.matched < m.index)
    (h : r.handleAppendResponse m = .ok r') :
    ∃ pr1 pr', r'.prs.get m.frm = some pr' ∧ SendRel pr1 pr' ∧ pr1.matched = m.index ∧
      pr1.recentActive = true ∧
      (pr0.state = .probe → pr1.state = .replicate ∧ pr1.nextIdx = m.index + 1) ∧
      (pr0.state = .snapshot → pr0.pendingSnapshot ≤ m.index →
        pr1.state = .probe ∧ pr1.paused = false ∧ pr1.nextIdx = m.index + 1 ∧
        pr1.pendingSnapshot = 0) ∧
      (pr0.state = .snapshot → m.index < pr0.pendingSnapshot →
        pr1.state = .snapshot ∧ pr1.pendingSnapshot = pr0.pendingSnapshot) ∧
      (pr0.state = .replicate → pr1.state = .replicate ∧ pr0.ins.freeTo m.index = .ok pr1.ins) := by
  unfold Raft.handleAppendResponse at h
  simp only [hrej, Bool.false_eq_true, false_and, if_false] at h
  obtain ⟨hint, hhint, h⟩ := Res.bind_eq_ok h
  rw [hg] at h
  dsimp only at h
  obtain ⟨f1, f2, f3, f4, f5, f6, f7, f8⟩ :=
    updateCommitted_frame { pr0 with recentActive := true } m.commit
  generalize hA : ({ pr0 with recentActive := true } : Progress).updateCommitted m.commit = prA at *
  dsimp only at f1 f2 f3 f4 f5 f6 f7 f8
  have hd : decide (prA.matched < m.index) = true := by rw [f2]; simpa using hadv
  split at h
  · cases h
  · cases h
  · rename_i prU hu
    -- `maybe_update` answering `false` contradicts `matched < index`
    have hlt := maybeUpdate_ok_lt _ _ _ _ hu
    obtain ⟨q, hq, _⟩ := maybeUpdate_spec prA m.index hlt
    rw [hq, hd] at hu; cases hu
  · rename_i prU hu
    have hlt := maybeUpdate_ok_lt _ _ _ _ hu
    obtain ⟨q, hq, g1, g2, g3, g4, g5, g6, g7, g8, g9⟩ := maybeUpdate_spec prA m.index hlt
    rw [hq, hd] at hu
    cases hu
    obtain ⟨pr1, hpr1, ht⟩ := handleAppendResponseAccepted_trel _ _ _ _ _ h
    obtain ⟨pr', hg', hrel⟩ := ht m.frm pr1 (ProgressTracker.get_set_self _ _ _ _ hg)
    have hm : prU.matched = m.index := by rw [g1, f2]; omega
    refine ⟨pr1, pr', hg', hrel, ?_⟩
    cases hst : pr0.state
    · -- probe
      rw [g5, f1, hst] at hpr1
      dsimp only at hpr1
      subst hpr1
      refine ⟨?_, ?_, ?_, ?_, ?_, ?_⟩
      · simp [Progress.becomeReplicate, Progress.resetState, hm]
      · simp [Progress.becomeReplicate, Progress.resetState, g9, f7]
      · intro _; simp [Progress.becomeReplicate, Progress.resetState, hm]
      · intro hh; cases hh
      · intro hh; cases hh
      · intro hh; cases hh
    · -- replicate
      rw [g5, f1, hst] at hpr1
      dsimp only at hpr1
      obtain ⟨ins, hi, rfl⟩ := hpr1
      refine ⟨hm, by simp [g9, f7], ?_, ?_, ?_, ?_⟩
      · intro hh; cases hh
      · intro hh; cases hh
      · intro hh; cases hh
      · intro _
        refine ⟨?_, ?_⟩
        · rfl
        · rw [g6, f4] at hi; exact hi
    · -- snapshot
      rw [g5, f1, hst] at hpr1
      dsimp only at hpr1
      subst hpr1
      have hcu : prU.isSnapshotCaughtUp = decide (pr0.pendingSnapshot ≤ m.index) := by
        simp [Progress.isSnapshotCaughtUp, g5, f1, hst, g7, f5, hm]
      have hsn : prU.state = .snapshot := by rw [g5, f1, hst]
      refine ⟨?_, ?_, ?_, ?_, ?_, ?_⟩
      · split <;> simp [Progress.becomeProbe, Progress.resetState, hsn, hm]
      · split <;> simp [Progress.becomeProbe, Progress.resetState, hsn, g9, f7]
      · intro hh; cases hh
      · intro _ hle
        have : prU.isSnapshotCaughtUp = true := by rw [hcu]; simpa using hle
        rw [if_pos this]
        simp [Progress.becomeProbe, Progress.resetState, hsn, hm, g7, f5]
        omega
      · intro _ hlt'
        have : ¬ prU.isSnapshotCaughtUp = true := by rw [hcu]; simp; omega
        rw [if_neg this]
        exact ⟨hsn, by rw [g7, f5]⟩
      · intro hh; cases hh

/-- **2a, corollary.**  After an advancing acknowledgement from a probing follower the stored
progress is never `Probe` again: it replicates (or, if the log it needs was compacted, is sent a
snapshot), with `matched` equal to the acknowledged index. -/
theorem probe_ack_leaves_probe (r r' : Raft) (m : Message) (pr0 : Progress)
    (hg : r.prs.get m.frm = some pr0) (hrej : m.reject = false) (hadv : pr0.matched < m.index)
    (hs : pr0.state = .probe) (h : r.handleAppendResponse m = .ok r') :
    ∃ pr', r'.prs.get m.frm = some pr' ∧ pr'.matched = m.index ∧
      (pr'.state = .replicate ∨ pr'.state = .snapshot) := by
  obtain ⟨pr1, pr', hg', hrel, hm, _, hp, _⟩ := handleAppendResponse_accept r r' m pr0 hg hrej hadv h
  refine ⟨pr', hg', hrel.1.trans hm, ?_⟩
  rcases hrel.2.1 with e | e
  · left; rw [e]; exact (hp hs).1
  · right; exact e

/-- **2a, corollary (the stall the snapshot report removes).**  An acknowledgement below the pending
snapshot index leaves the follower in `Snapshot` with the same pending index. -/
theorem snapshot_ack_below_pending_stays (r r' : Raft) (m : Message) (pr0 : Progress)
    (hg : r.prs.get m.frm = some pr0) (hrej : m.reject = false) (hadv : pr0.matched < m.index)
    (hs : pr0.state = .snapshot) (hlt : m.index < pr0.pendingSnapshot)
    (h : r.handleAppendResponse m = .ok r') :
    ∃ pr', r'.prs.get m.frm = some pr' ∧ pr'.state = .snapshot ∧
      pr'.pendingSnapshot = pr0.pendingSnapshot := by
  obtain ⟨pr1, pr', hg', hrel, _, _, _, _, hsn, _⟩ :=
    handleAppendResponse_accept r r' m pr0 hg hrej hadv h
  obtain ⟨s1, s2⟩ := hsn hs hlt
  refine ⟨pr', hg', ?_, ?_⟩
  · rcases hrel.2.1 with e | e
    · rw [e]; exact s1
    · exact e
  · rw [hrel.2.2 s1]; exact s2

/-- **2a, the converse (Assumption `report_snapshot`, and a finding).**  An append response that does
not advance `matched` (`index ≤ matched`) changes nothing but `recent_active` / `committed_index`
and sends nothing — `handle_append_response` returns right after `maybe_update` answers `false`,
*before* the caught-up test.  So a follower in `Snapshot` with `pending_snapshot ≤ matched` (caught
up) is **not** released by the follower's acknowledgement of that very snapshot.  This state is
reachable: a fully caught-up follower calls `request_snapshot`; the leader's snapshot gets index
`request_index = matched`; the follower installs it and acknowledges `matched`
(`requested_snapshot_ack_does_not_release` below replays it on the model).  The leader then leaves
`Snapshot` only through `report_snapshot` (or a leader change); until then the follower receives no
entries. -/
theorem ack_not_advancing_changes_nothing (r : Raft) (m : Message) (pr0 : Progress)
    (hg : r.prs.get m.frm = some pr0) (hrej : m.reject = false) (hle : m.index ≤ pr0.matched)
    (hlt : m.index < U64_MAX) :
    ∃ pr', r.handleAppendResponse m = .ok { r with prs := r.prs.set m.frm pr' } ∧
      pr'.state = pr0.state ∧ pr'.pendingSnapshot = pr0.pendingSnapshot ∧
      pr'.matched = pr0.matched ∧ pr'.paused = pr0.paused ∧ pr'.ins = pr0.ins := by
  unfold Raft.handleAppendResponse
  simp only [hrej, Bool.false_eq_true, false_and, if_false]
  simp only [Res.bind]
  rw [hg]
  dsimp only
  obtain ⟨f1, f2, f3, f4, f5, f6, f7, f8⟩ :=
    updateCommitted_frame { pr0 with recentActive := true } m.commit
  generalize hA : ({ pr0 with recentActive := true } : Progress).updateCommitted m.commit = prA at *
  dsimp only at f1 f2 f3 f4 f5 f6 f7 f8
  obtain ⟨q, hq, g1, g2, g3, g4, g5, g6, g7, g8, g9⟩ := maybeUpdate_spec prA m.index hlt
  have hd : decide (prA.matched < m.index) = false := by rw [f2]; simp; omega
  rw [hq, hd]
  refine ⟨q, rfl, by rw [g5, f1], by rw [g7, f5], by rw [g1, f2]; omega, ?_, by rw [g6, f4]⟩
  rw [g4 (by rw [f2]; omega), f8]

/-- **2b rejection (raft.rs `handle_append_response`, reject path)**, for a follower in `Probe` or
`Replicate`.  With `hint` the probe index computed from the rejection (`find_conflict_by_term`) and
`(prD, b)` the outcome of `maybe_decr_to`:
* `b = false` (stale): `prD` (unchanged but for `recent_active` / `committed_index`) is stored and
  nothing is sent;
* `b = true`: the progress `pr2` handed to `send_append` is `Probe` (a `Replicate` follower is moved
  by `become_probe`), **not paused**, and exactly one `maybe_send_append(allow_empty = true)` is
  made, which either queues an `MsgAppend`/`MsgSnapshot` for the follower or is held back by the
  storage (`…TemporarilyUnavailable`).
So a genuine rejection is always answered by a new probe: repair never waits for a heartbeat. -/
theorem handleAppendResponse_reject (r r' : Raft) (m : Message) (pr0 : Progress)
    (hg : r.prs.get m.frm = some pr0) (hrej : m.reject = true) (hs : pr0.state ≠ .snapshot)
    (h : r.handleAppendResponse m = .ok r') :
    ∃ hint prD b,
      (({ pr0 with recentActive := true } : Progress).updateCommitted m.commit).maybeDecrTo
        m.index hint m.requestSnapshot = .ok (prD, b) ∧
      (b = false → r'.prs.get m.frm = some prD ∧ r'.msgs = r.msgs) ∧
      (b = true → ∃ pr2 pr3 sent,
        pr2 = (if prD.state = .replicate then prD.becomeProbe else prD) ∧
        pr2.state = .probe ∧ pr2.isPaused = false ∧ pr2.matched = pr0.matched ∧
        r'.prs.get m.frm = some pr3 ∧ SendRel pr2 pr3 ∧
        (sent = true → ∃ msg ∈ r'.msgs, msg.to = m.frm ∧
          (msg.msgType = .msgAppend ∨ msg.msgType = .msgSnapshot)) ∧
        (sent = false → pr3 = pr2 ∧
          (r.raftLog.entries pr2.nextIdx (some r.maxMsgSize) true = .err .logTemporarilyUnavailable ∨
           (r.raftLog.snapshot pr2.pendingRequestSnapshot).2 =
             .err .snapshotTemporarilyUnavailable))) := by
  unfold Raft.handleAppendResponse at h
  obtain ⟨hint, hhint, h⟩ := Res.bind_eq_ok h
  rw [hg] at h
  dsimp only at h
  simp only [hrej, if_true] at h
  obtain ⟨f1, f2, f3, f4, f5, f6, f7, f8⟩ :=
    updateCommitted_frame { pr0 with recentActive := true } m.commit
  generalize hA : ({ pr0 with recentActive := true } : Progress).updateCommitted m.commit = prA at *
  dsimp only at f1 f2 f3 f4 f5 f6 f7 f8
  split at h
  · cases h
  · cases h
  · rename_i prD hd
    refine ⟨hint, prD, true, hd, by simp, ?_⟩
    intro _
    obtain ⟨d1, d2, d3, d4, d5⟩ := maybeDecrTo_frame _ _ _ _ _ _ hd
    -- the progress handed to `send_append`
    generalize hp2 : (if prD.state = .replicate then prD.becomeProbe else prD) = pr2 at h
    have hp2s : pr2.state = .probe ∧ pr2.isPaused = false ∧ pr2.matched = pr0.matched ∧
        pr2.recentActive = true := by
      rw [← hp2]
      by_cases hrep : prD.state = .replicate
      · rw [if_pos hrep]
        simp [Progress.becomeProbe, Progress.resetState, hrep, Progress.isPaused, d1, f2, d5, f7]
      · rw [if_neg hrep]
        have hpa : prA.state ≠ .replicate := by rw [← d2]; exact hrep
        have hpr : prD.state = .probe := by
          rw [d2, f1] at hrep ⊢
          cases hst : pr0.state <;> simp_all
        refine ⟨hpr, ?_, by rw [d1, f2], by rw [d5, f7]⟩
        simp only [Progress.isPaused, hpr]
        exact maybeDecrTo_true_unpauses _ _ _ _ _ hpa hd
    obtain ⟨s1, s2, s3, s4⟩ := hp2s
    unfold Raft.sendAppend at h
    have hg2 : (r.prs.set m.frm pr2).get m.frm = some pr2 :=
      ProgressTracker.get_set_self _ _ _ _ hg
    dsimp only at h
    rw [hg2] at h
    dsimp only at h
    obtain ⟨x, hx, h⟩ := Res.bind_eq_ok h
    obtain ⟨r1, pr3⟩ := x
    dsimp only at h
    cases h
    unfold Raft.sendAppendPr at hx
    obtain ⟨y, hy, hx⟩ := Res.bind_eq_ok hx
    obtain ⟨r2, pr4, sent⟩ := y
    dsimp only at hx
    cases hx
    obtain ⟨e1, e2, e3, e4⟩ := maybeSendAppend_rel _ _ _ _ _ _ _ hy
    refine ⟨pr2, pr3, sent, rfl, s1, s2, s3, ?_, e2, ?_, ?_⟩
    · dsimp only
      rw [e1]
      exact ProgressTracker.get_set_self _ _ _ _ hg2
    · intro hs'; exact (e4 hs').2
    · intro hs'
      exact ⟨(e3 hs').1, sendBlocked_unpaused _ _ s2 s4 (e3 hs').2⟩
  · rename_i prD hd
    cases h
    exact ⟨hint, prD, false, hd, fun _ => ⟨ProgressTracker.get_set_self _ _ _ _ hg, rfl⟩, by simp⟩

/-- **2c snapshot status report (raft.rs `handle_snapshot_status`).**  For a follower in `Snapshot`:
`Finish` ⇒ `become_probe` (`next_idx = max(matched+1, pending_snapshot+1)`), `Failure` ⇒
`snapshot_failure` then `become_probe` (`next_idx = matched + 1`); in both cases the pending snapshot
and the pending snapshot request are cleared and the progress is `Probe`, *paused* — it waits for
the next heartbeat response (`paused_probe_heartbeat_sends`) or the follower's append response
(`handleAppendResponse_accept`).  A reported snapshot never leaves the follower in `Snapshot`. -/
theorem handleSnapshotStatus_spec (r : Raft) (m : Message) (pr0 : Progress)
    (hg : r.prs.get m.frm = some pr0) (hs : pr0.state = .snapshot) :
    ∃ pr', (r.handleSnapshotStatus m).prs.get m.frm = some pr' ∧
      pr'.state = .probe ∧ pr'.paused = true ∧ pr'.pendingSnapshot = 0 ∧
      pr'.pendingRequestSnapshot = 0 ∧ pr'.matched = pr0.matched ∧
      pr'.nextIdx = (if m.reject then pr0.matched + 1
                     else max (pr0.matched + 1) (pr0.pendingSnapshot + 1)) := by
  unfold Raft.handleSnapshotStatus
  rw [hg]
  simp only [hs, ne_eq, not_true_eq_false, if_false]
  refine ⟨_, ProgressTracker.get_set_self _ _ _ _ hg, ?_⟩
  cases hr : m.reject <;>
    simp [Progress.becomeProbe, Progress.snapshotFailure, Progress.pause, Progress.resetState, hs]

/-- **2c.**  A status report for a follower that is not in `Snapshot` is ignored. -/
theorem handleSnapshotStatus_noop (r : Raft) (m : Message) (pr0 : Progress)
    (hg : r.prs.get m.frm = some pr0) (hs : pr0.state ≠ .snapshot) :
    r.handleSnapshotStatus m = r := by
  unfold Raft.handleSnapshotStatus
  rw [hg]; simp [hs]

/-- **2d `MsgUnreachable` (raft.rs `handle_unreachable`).**  `Replicate` ⇒ `Probe` at
`matched + 1`, un-paused: optimistic sends stop as soon as the transport reports a loss. -/
theorem handleUnreachable_spec (r : Raft) (m : Message) (pr0 : Progress)
    (hg : r.prs.get m.frm = some pr0) (hs : pr0.state = .replicate) :
    ∃ pr', (r.handleUnreachable m).prs.get m.frm = some pr' ∧
      pr'.state = .probe ∧ pr'.paused = false ∧ pr'.nextIdx = pr0.matched + 1 ∧
      pr'.matched = pr0.matched := by
  unfold Raft.handleUnreachable
  rw [hg]
  simp only [hs, if_true]
  refine ⟨_, ProgressTracker.get_set_self _ _ _ _ hg, ?_⟩
  simp [Progress.becomeProbe, Progress.resetState, hs]


/-! ## 3. Election timer (`tick_election`, `hup`) and check-quorum step-down -/

/-- **3, quiet tick.**  Below the randomized timeout a non-leader's tick only counts
(`election_elapsed + 1`): the measure `randomized_election_timeout - election_elapsed` decreases by
one per tick without a message from a leader. -/
theorem tick_quiet (r : Raft) (hs : r.state ≠ .leader)
    (h : r.electionElapsed + 1 < r.randomizedElectionTimeout) :
    r.tick = .ok ({ r with electionElapsed := r.electionElapsed + 1 }, false) := by
  have h1 : r.tickElection = .ok ({ r with electionElapsed := r.electionElapsed + 1 }, false) := by
    unfold Raft.tickElection
    have : ¬ (r.randomizedElectionTimeout ≤ r.electionElapsed + 1) := by omega
    simp [Raft.passElectionTimeout, this]
  unfold Raft.tick
  cases hst : r.state <;> simp_all

/-- `MsgHup` carries term 0: the term preamble of `step` lets it through to `hup(false)` -/
theorem step_hup (r : Raft) (m : Message) (hm : m.msgType = .msgHup) (ht : m.term = 0) :
    r.step m = (r.hup false).bind (fun r => .ok (r, none)) := by
  unfold Raft.step Raft.stepTerm
  simp [ht, hm]

theorem bind_hup_tick (x : Res Raft) :
    ((x.bind (fun r => Res.ok (r, (none : Option RaftError)))).bind
        (fun (y : Raft × Option RaftError) => Res.ok y.1)).bind (fun r => Res.ok (r, true)) =
      x.bind (fun r => Res.ok (r, true)) := by
  cases x <;> rfl

/-- **3, the firing tick.**  A promotable non-leader whose `election_elapsed + 1` reaches the
randomized timeout resets `election_elapsed` to 0 and performs `hup(false)` on that tick. -/
theorem tick_timeout_hups (r : Raft) (hs : r.state ≠ .leader) (hp : r.promotable = true)
    (h : r.randomizedElectionTimeout ≤ r.electionElapsed + 1) :
    r.tick = (({ r with electionElapsed := 0 } : Raft).hup false).bind (fun r => .ok (r, true)) := by
  have h1 : r.tickElection =
      (({ r with electionElapsed := 0 } : Raft).hup false).bind (fun r => .ok (r, true)) := by
    unfold Raft.tickElection
    have hcond : (!({ r with electionElapsed := r.electionElapsed + 1 } : Raft).passElectionTimeout ||
        !({ r with electionElapsed := r.electionElapsed + 1 } : Raft).promotable) = false := by
      simp [Raft.passElectionTimeout, h, hp]
    dsimp only
    rw [hcond]
    simp only [Bool.false_eq_true, if_false]
    unfold Raft.stepIgnore
    rw [step_hup _ _ rfl rfl]
    exact bind_hup_tick _
  unfold Raft.tick
  cases hst : r.state <;> simp_all

/-- **3, exact enabling condition of `hup`.**  On a promotable non-leader `hup(false)` *is* a
campaign (`PreElection` with `pre_vote`, `Election` otherwise) exactly when (i) no configuration
change sits between `applied` and `committed` and (ii) not (unpersisted entries ∧ the node's own
vote is a quorum).  The two blocked cases are `RN.hup_blocked_by_unapplied_conf` and
`hup_blocked_by_unpersisted_singleton`; both are lifted by the application making progress
(applying the committed change, persisting the entries), which a fair suffix provides. -/
theorem hup_enabled (r : Raft) (hs : r.state ≠ .leader) (hp : r.promotable = true)
    (hc : r.hasUnappliedConfChanges r.hupScanLow (r.raftLog.committed + 1) = .ok false)
    (hq : ¬ (r.raftLog.persisted < r.raftLog.lastIndex ∧ r.prs.hasQuorum [r.id] = true)) :
    r.hup false = r.campaign (if r.preVote then .preElection else .election) := by
  unfold Raft.hup
  simp only [hs, if_false, hp, Bool.not_true, Bool.false_eq_true, hc, hq]
  split <;> rfl

/-- **3.**  A node whose own vote is a quorum does not campaign while it has unpersisted entries
(repo commit 667635b; otherwise it would win at once and hit `become_leader`'s `assert persisted`). -/
theorem hup_blocked_by_unpersisted_singleton (r : Raft) (transfer : Bool)
    (hc : r.hasUnappliedConfChanges r.hupScanLow (r.raftLog.committed + 1) = .ok false)
    (hq : r.raftLog.persisted < r.raftLog.lastIndex ∧ r.prs.hasQuorum [r.id] = true) :
    r.hup transfer = .ok r := by
  unfold Raft.hup
  split
  · rfl
  · split
    · rfl
    · rw [hc]

/-- `n` ticks in a row (the "has ready" flag is dropped) -/
def tickN : Nat → Raft → Res Raft
  | 0, r => .ok r
  | n + 1, r => r.tick.bind (fun x => tickN n x.1)

/-- **3.**  `k` quiet ticks only add `k` to `election_elapsed`. -/
theorem quiet_ticks (k : Nat) (r : Raft) (hs : r.state ≠ .leader)
    (h : r.electionElapsed + k < r.randomizedElectionTimeout) :
    tickN k r = .ok { r with electionElapsed := r.electionElapsed + k } := by
  induction k generalizing r with
  | zero => rfl
  | succ n ih =>
    simp only [tickN]
    rw [tick_quiet r hs (by omega)]
    simp only [Res.bind]
    have := ih { r with electionElapsed := r.electionElapsed + 1 } hs (by simp only; omega)
    rw [this]
    simp only [Nat.add_assoc, Nat.add_comm 1 n]

/-- **3, bound.**  A promotable non-leader that hears nothing performs `hup` (with
`election_elapsed` reset) on exactly the `(randomized_election_timeout - election_elapsed)`-th tick:
within one randomized election timeout it campaigns (pre-campaigns with `pre_vote`) unless `hup` is
blocked as described at `hup_enabled`. -/
theorem election_timer_fires (r : Raft) (hs : r.state ≠ .leader) (hp : r.promotable = true)
    (h : r.electionElapsed < r.randomizedElectionTimeout) :
    tickN (r.randomizedElectionTimeout - r.electionElapsed) r =
      ({ r with electionElapsed := 0 } : Raft).hup false := by
  obtain ⟨k, hk⟩ : ∃ k, r.randomizedElectionTimeout - r.electionElapsed = k + 1 :=
    ⟨r.randomizedElectionTimeout - r.electionElapsed - 1, by omega⟩
  rw [hk]
  have hq := quiet_ticks k r hs (by omega)
  have hstep : ∀ (n : Nat) (r0 r1 : Raft), tickN n r0 = .ok r1 →
      tickN (n + 1) r0 = r1.tick.bind (fun x => .ok x.1) := by
    intro n
    induction n with
    | zero =>
      intro r0 r1 h0
      simp only [tickN] at h0 ⊢
      cases h0
      cases r0.tick <;> rfl
    | succ n ih =>
      intro r0 r1 h0
      simp only [tickN] at h0 ⊢
      cases ht : r0.tick with
      | ok x =>
        rw [ht] at h0
        simp only [Res.bind] at h0 ⊢
        have := ih x.1 r1 h0
        simp only [tickN] at this
        exact this
      | err e => rw [ht] at h0; cases h0
      | panic s => rw [ht] at h0; cases h0
  have ht := tick_timeout_hups { r with electionElapsed := r.electionElapsed + k } hs hp
    (by simp only; omega)
  rw [hstep k r _ hq, ht]
  show ((({ r with electionElapsed := 0 } : Raft).hup false).bind (fun r => Res.ok (r, true))).bind
    (fun x => Res.ok x.1) = _
  cases ({ r with electionElapsed := 0 } : Raft).hup false <;> rfl

/-- **check_quorum step-down (raft.rs:2087, `step_leader`, `MsgCheckQuorum`).**  A leader that has not heard from a
quorum during the last election timeout becomes a follower of its own term: a leader cut off during
the fault period does not linger as a second leader. -/
theorem checkQuorum_stepdown (r : Raft) (m : Message) (hm : m.msgType = .msgCheckQuorum)
    (h : r.checkQuorumActive.2 = false) :
    r.stepLeader m = .ok (r.checkQuorumActive.1.becomeFollower r.term 0, none) := by
  unfold Raft.stepLeader
  simp only [hm]
  cases hc : r.checkQuorumActive with
  | mk r1 b =>
    rw [hc] at h
    simp only at h
    subst h
    have : r1.term = r.term := by
      have := congrArg (fun x => x.1.term) hc
      simpa [Raft.checkQuorumActive] using this.symm
    simp [this]

/-! ## 5. Non-vacuity: the hypotheses of the main lemmas are satisfiable, on concrete values -/

/-- a probing follower, paused, probe in flight at index 8 -/
def exProbe : Progress := { matched := 3, nextIdx := 9, state := .probe, paused := true }

example : exProbe.isPaused = true := by decide
example : exProbe.resume.isPaused = false := by decide
example : WF exProbe ∧ probeGap exProbe = 5 := by simp [WF, probeGap, exProbe]
/-- a rejection of the probe at 8 with hint 5: `next_idx` 9 → 6, un-paused -/
example : exProbe.maybeDecrTo 8 5 0 = .ok ({ exProbe with nextIdx := 6, paused := false }, true) := by
  decide
/-- a stale rejection changes nothing -/
example : exProbe.maybeDecrTo 6 5 0 = .ok (exProbe, false) := by decide
/-- the floor is `matched + 1 = 4`, not 1 (hint 0) -/
example : exProbe.maybeDecrTo 8 0 0 = .ok ({ exProbe with nextIdx := 4, paused := false }, true) := by
  decide
/-- at the floor a rejection of `matched` is accepted but moves nothing -/
example : ({ exProbe with nextIdx := 4 } : Progress).maybeDecrTo 3 0 0 =
    .ok ({ exProbe with nextIdx := 4, paused := false }, true) := by decide
/-- three rejections, two effective: 2 + final gap 0 ≤ initial gap 5 -/
example : applyRejections exProbe [(8, 5), (1, 0), (5, 0)] =
    .ok ({ exProbe with nextIdx := 4, paused := false }, 2) := by decide
/-- an acknowledgement of 7 -/
example : exProbe.maybeUpdate 7 = .ok ({ exProbe with matched := 7, paused := false }, true) := by
  decide
/-- a follower receiving the snapshot at index 20 -/
def exSnap : Progress := { matched := 3, nextIdx := 4, state := .snapshot, pendingSnapshot := 20 }
example : exSnap.isPaused = true ∧ exSnap.resume.isPaused = true := by decide
example : exSnap.becomeProbe.nextIdx = 21 ∧ exSnap.snapshotFailure.becomeProbe.nextIdx = 4 := by decide

/-- a full window of capacity 2 holding the appends that ended at 4 and 7 -/
def exWin : Inflights :=
  { start := 0, count := 2, buffer := [4, 7], cap := 2, incomingCap := none, alloc := true }
example : exWin.Inv := by constructor <;> simp [exWin]
example : exWin.full = true ∧ exWin.contents.Pairwise (· < ·) := by decide

/-- a leader (id 1, term 2) with 9 entries and a flow-controlled follower 2 that has matched 3 -/
def exRepl : Progress :=
  { matched := 3, nextIdx := 8, state := .replicate, ins := exWin, recentActive := true }
def exLeader : Raft :=
  { raftLog :=
      { store := {}, unstable := { entries := (List.range 9).map (fun i => { term := 2, index := i + 1 }),
                                   offset := 1 },
        committed := 3, persisted := 0, applied := 0, maxApplyUnpersistedLogLimit := 0 },
    id := 1, term := 2, state := .leader, maxMsgSize := 1000,
    prs := { progress := [(1, { matched := 0, nextIdx := 1, state := .replicate }), (2, exRepl)] } }
def exHbResp : Message := { msgType := .msgHeartbeatResponse, frm := 2, to := 1, term := 2 }

/-- the hypotheses of `full_window_heartbeat_sends` hold and the handler succeeds: one slot is
freed (2 → 1), one `MsgAppend` with entries 8..9 is queued and takes the slot again (1 → 2),
`next_idx` moves from 8 to 10 -/
example : exLeader.prs.get exHbResp.frm = some exRepl ∧ exRepl.state = .replicate ∧
    exRepl.ins.full = true ∧ exRepl.matched < exLeader.raftLog.lastIndex := by decide
example : ∃ r', exLeader.handleHeartbeatResponse exHbResp = .ok r' ∧
    ((r'.prs.get 2).map (fun p => (p.ins.count, p.nextIdx))) = some (2, 10) ∧
    r'.msgs.map (fun m => (m.msgType, m.to, m.index, m.entries.length)) = [(.msgAppend, 2, 7, 2)] := by
  refine ⟨_, rfl, ?_, ?_⟩ <;> decide

/-- a snapshot report for follower 2 in `Snapshot` state -/
def exLeaderSnap : Raft := { exLeader with prs := { progress := [(1, {}), (2, exSnap)] } }
example : (((exLeaderSnap.handleSnapshotStatus { msgType := .msgSnapStatus, frm := 2 }).prs.get 2).map
    (fun p => (p.state, p.paused, p.nextIdx))) = some (.probe, true, 21) := by decide
example : (((exLeaderSnap.handleSnapshotStatus { msgType := .msgSnapStatus, frm := 2, reject := true }).prs.get 2).map
    (fun p => (p.state, p.paused, p.nextIdx))) = some (.probe, true, 4) := by decide

/-- a rejection from follower 2 (probe at 7 rejected, follower's log ends at 5 in term 2) -/
def exLeaderProbe : Raft :=
  { exLeader with prs := { progress := [(1, {}), (2, { exProbe with nextIdx := 8 })] } }
example : ∃ r', exLeaderProbe.handleAppendResponse
      { msgType := .msgAppendResponse, frm := 2, term := 2, index := 7, reject := true,
        rejectHint := 5, logTerm := 2 } = .ok r' ∧
    ((r'.prs.get 2).map (fun p => (p.state, p.paused, p.nextIdx))) = some (.probe, true, 6) ∧
    r'.msgs.map (fun m => (m.msgType, m.to, m.index)) = [(.msgAppend, 2, 5)] := by
  refine ⟨_, rfl, ?_, ?_⟩ <;> decide

/-- an election timeout: a promotable follower (voters 1, 2, 3) at `election_elapsed = 9` of 10
campaigns on the tick -/
example : ∃ r', ({ exLeader with state := .follower, promotable := true, electionElapsed := 9,
                                 randomizedElectionTimeout := 10,
                                 prs := { exLeader.prs with conf := { incoming := [1, 2, 3] } },
                                 raftLog := { exLeader.raftLog with persisted := 9 } } : Raft).tick
      = .ok (r', true) ∧ r'.state = .candidate ∧ r'.term = 3 ∧ r'.electionElapsed = 0 ∧
      r'.msgs.map (fun m => (m.msgType, m.to)) = [(.msgRequestVote, 2), (.msgRequestVote, 3)] := by
  refine ⟨_, rfl, ?_, ?_, ?_, ?_⟩ <;> decide

/-- the scenario of `ack_not_advancing_changes_nothing`: leader and follower 2 both at index 9, all
committed; follower 2 requests a snapshot at 9 -/
def exCaughtUp : Raft :=
  { exLeader with
    raftLog := { exLeader.raftLog with committed := 9, persisted := 9 },
    prs := { progress :=
      [(1, ({ matched := 9, nextIdx := 10, state := .replicate } : Progress)),
       (2, ({ matched := 9, nextIdx := 10, state := .replicate, recentActive := true,
              ins := Inflights.new 2 } : Progress))] } }
def exSnapRequest : Message :=
  { msgType := .msgAppendResponse, frm := 2, term := 2, index := 9, reject := true,
    rejectHint := 9, logTerm := 2, requestSnapshot := 9 }

/-- the leader answers the request with a snapshot at index 9 = `matched` and enters `Snapshot`;
the follower's acknowledgement of index 9 leaves it there although it is caught up -/
theorem requested_snapshot_ack_does_not_release :
    ∃ r1 r2, exCaughtUp.handleAppendResponse exSnapRequest = .ok r1 ∧
      r1.msgs.map (fun m => (m.msgType, m.to, m.snapshot.metadata.index)) = [(.msgSnapshot, 2, 9)] ∧
      r1.handleAppendResponse { msgType := .msgAppendResponse, frm := 2, term := 2, index := 9 }
        = .ok r2 ∧
      (r2.prs.get 2).map (fun p => (p.state, p.matched, p.pendingSnapshot, p.isSnapshotCaughtUp))
        = some (.snapshot, 9, 9, true) ∧ r2.msgs = r1.msgs := by
  refine ⟨_, _, rfl, ?_, rfl, ?_, ?_⟩ <;> decide

/-! ## 6. The cluster-level statement — NOT PROVED -/

/-- what a cluster-level model has to provide for the statement of C10 (the protocol model `P` of
`RaftProofs/Proto*.lean` extended with ticks, restarts and a delivery schedule would be one) -/
structure ClusterModel where
  State : Type
  /-- reachable from an initial state under crashes, message loss / duplication / reordering,
  partitions and arbitrary tick schedules -/
  reachableUnderFaults : State → Prop
  /-- `fairRun s n s'`: from `s` the cluster runs without faults for `n` election timeouts — every
  crashed node restarted, every message delivered, every node ticked regularly, every storage
  request (`…TemporarilyUnavailable`) eventually served, every snapshot sent reported
  (`report_snapshot`), every `Ready` processed — ending in `s'` -/
  fairRun : State → Nat → State → Prop
  members : State → List Nat
  running : State → Nat → Bool
  /-- a majority of each voter set (both halves of a joint configuration) is running -/
  quorumRunning : State → Prop
  node : State → Nat → Option Raft
  /-- index up to which node `i` has handed committed entries to its application -/
  appliedTo : State → Nat → Nat
  /-- `s'` is `s` after a client proposes one new entry at the leader -/
  propose : State → State → Prop

/-- **UNPROVED — the cluster-level liveness statement of C10.**  For some bound `B` (a number of
election timeouts depending only on the configuration): from any state reachable under faults in
which a quorum is running, after `B` fault-free fair election timeouts exactly one running member
is leader, every running member's log end and commit index equal the leader's, and an entry
proposed then is, `B` timeouts later, committed and applied on every running member.  The lemmas of
this file are the per-follower ingredients ("replication never stalls permanently"); the election
part additionally needs randomized-timeout symmetry breaking, which no lemma here provides. -/
def C10_full_statement (M : ClusterModel) : Prop :=
  ∃ B : Nat, ∀ s, M.reachableUnderFaults s → M.quorumRunning s → ∀ s1, M.fairRun s B s1 →
    (∃ l ld, l ∈ M.members s1 ∧ M.running s1 l = true ∧ M.node s1 l = some ld ∧
      ld.state = .leader ∧
      (∀ l', l' ∈ M.members s1 → M.running s1 l' = true →
        (∀ n', M.node s1 l' = some n' → n'.state = .leader → l' = l)) ∧
      (∀ i ni, i ∈ M.members s1 → M.running s1 i = true → M.node s1 i = some ni →
        ni.raftLog.lastIndex = ld.raftLog.lastIndex ∧
        ni.raftLog.committed = ld.raftLog.committed) ∧
      (∀ s2 s3, M.propose s1 s2 → M.fairRun s2 B s3 →
        ∀ i ni, i ∈ M.members s3 → M.running s3 i = true → M.node s3 i = some ni →
          ld.raftLog.lastIndex + 1 ≤ ni.raftLog.committed ∧
          ld.raftLog.lastIndex + 1 ≤ M.appliedTo s3 i))

end RaftProps.C10
