import RaftProofs.ClusterCommit3H
import RaftProps.C01d

/-!
# C01 / C03 / C04, cluster level — the commit rule, Leader Completeness and State-Machine Safety for
`ClusterSem`

`ClusterSem` (`RaftModel/Cluster.lean`) is the cluster built from the executable node model.
`RaftProps/C02c.lean` proves Election Safety for it, `RaftProps/C05c.lean` Log Matching; this file
proves the commit layer on top of both: the leader's commit rule with durable acknowledgements,
Leader Completeness, State-Machine Safety and the soundness of every commit index.

## Hypotheses (`Hyp3 cfg c0 h`, all explicit)

`Hyp` (`RaftProofs/ClusterCommitS.lean`):
* those of C02c / C05c: `History h`, fixed voter configuration `cfg` (non-empty, duplicate-free),
  `InitOk` start, no batching;
* `KStep` between consecutive states (`RaftProofs/ClusterCommitQ.lean`): the four rules of
  `Cluster.Step` with the storage / Ready contract —
  a node that is not the leader hands its queue to the transport only when it has no unstable entries
  and no unstable snapshot (*persist before send*), every `send` has term and vote persisted,
  `commit_apply k` only for `k ≤ persisted` and with term and vote persisted (the `HardState` is written
  as a whole), and no log compaction (**gap**);
* no `MsgSnapshot` in the transport (**gap**).

`Hyp2` (`RaftProofs/ClusterCommitT.lean`):
* `nolone`: no joint quorum of `cfg` fits into a single node;
* `shape` (**gap**): no pending snapshot, every storage keeps the first index `c0 + 1`;
* `initc`: every initial commit index is `c0`;
* `norir` (**gap**): no `MsgReadIndexResp` in the transport.

`Hyp3` (`RaftProofs/ClusterCommit2P.lean`), one more **gap** — a fact that holds in the model but is
not derived here: `anch` (a `MsgAppend` is anchored inside its sender's log); and one more hypothesis
on the initial state,
`snapt0` (the term an initial storage records for the common snapshot point is not above the initial
term of any node).

The main induction is `RaftModel.Cluster.sm_all` (`RaftProofs/ClusterCommit3G.lean`).

**Update**: the gaps `anch` and `norir` are discharged in `RaftProps/C01d.lean` (bundle `Hyp3w`); the
theorems of this file are now corollaries of the ones there (`Hyp3.toHyp3w`).
-/
namespace RaftProps.C01
open RaftModel RaftModel.Cluster RaftModel.Node RaftModel.Raft RaftModel.Raft.CC

/-- an accepting `MsgAppendResponse` of node `j` for term `t` with index at least `c` is in `net` -/
def AckInNet (net : List Message) (j t c : Nat) : Prop :=
  ∃ a ∈ net, a.msgType = .msgAppendResponse ∧ a.reject = false ∧ a.frm = j ∧
    (a.term = t ∨ a.term = 0) ∧ c ≤ a.index

/-- **C04 `cluster_leader_commit_rule`** (quorum part, under `Hyp` alone) — whenever a step of a history
takes the commit index of a node `l` that is leader of term `t` after the step from `c` to `c' > c`,
the entry at `c'` in its log carries term `t`, and there is a joint quorum `Q` of `cfg` such that every
`j ∈ Q` is `l` itself with `persisted ≥ c'`, or has an accepting `MsgAppendResponse` for term `t` with
`index ≥ c'` in the transport (already before the step). -/
theorem C04_cluster_leader_commit_rule_quorum (cfg : JointConfig) (h : List Sys) (H : Hyp cfg h)
    (n : Nat) (a b : Sys) (ha : h[n]? = some a) (hb : h[n + 1]? = some b)
    (l : Nat) (sta stb : NState) (hla : a.node l = some sta) (hlb : b.node l = some stb)
    (t : Nat) (hs : stb.raft.state = .leader) (ht : stb.raft.term = t)
    (hc : sta.raft.raftLog.committed < stb.raft.raftLog.committed) :
    stb.raft.raftLog.term stb.raft.raftLog.committed = .ok t ∧
    ∃ Q, IsJointQuorum cfg Q ∧ ∀ j ∈ Q,
      (j = l ∧ stb.raft.raftLog.committed ≤ stb.raft.raftLog.persisted) ∨
      AckInNet a.net j t stb.raft.raftLog.committed := by
  obtain ⟨h1, Q, hQ, hq⟩ := H.commit_step n a b ha hb l sta stb hla hlb hs hc
  subst ht
  refine ⟨h1, Q, hQ, fun j hj => (hq j hj).imp (fun g => g) (fun g => ?_)⟩
  obtain ⟨x, hx, hack, h2, h3, h4⟩ := g
  exact ⟨x, hx, hack.1, hack.2, h2, h3, h4⟩

/-- the commit event of a step that moves the commit index of a node that is leader afterwards -/
theorem ev_of_step {h : List Sys} {n : Nat} {a b : Sys} (ha : h[n]? = some a)
    (hb : h[n + 1]? = some b) {l : Nat} {sta stb : NState} (hla : a.node l = some sta)
    (hlb : b.node l = some stb) (hs : stb.raft.state = .leader)
    (hc : sta.raft.raftLog.committed < stb.raft.raftLog.committed) :
    Ev.ok h ⟨n, l, stb.raft.term, stb.raft.raftLog.committed, stb.raft.raftLog.abs,
      stb.raft.raftLog.persisted⟩ :=
  ⟨a, b, sta, stb, ha, hb, hla, hlb, hs, rfl, hc, rfl, rfl, rfl⟩

/-- **C04 `cluster_leader_commit_rule`** — the commit rule with **durable acknowledgements**: whenever
a step `h[n] → h[n+1]` takes the commit index of a node `l` that is leader of term `t` after the step
from `c` to `c' > c`, the entry at `c'` in its log carries term `t`, and there is a joint quorum `Q` of
`cfg` such that every `j ∈ Q` is

* `l` itself, with `persisted ≥ c'` — and its storage holds its log up to `c'`; or
* the sender of an accepting `MsgAppendResponse` `x` for term `t` with `index ≥ c'` that is in the
  transport before the step, **and in every state of the history whose transport holds `x` — from the
  moment `x` entered the transport on — the storage of `j` holds `l`'s log up to `c'`**. -/
theorem C04_cluster_leader_commit_rule (cfg : JointConfig) (c0 : Nat) (h : List Sys)
    (H : Hyp3 cfg c0 h)
    (n : Nat) (a b : Sys) (ha : h[n]? = some a) (hb : h[n + 1]? = some b)
    (l : Nat) (sta stb : NState) (hla : a.node l = some sta) (hlb : b.node l = some stb)
    (t : Nat) (hs : stb.raft.state = .leader) (ht : stb.raft.term = t)
    (hc : sta.raft.raftLog.committed < stb.raft.raftLog.committed) :
    stb.raft.raftLog.term stb.raft.raftLog.committed = .ok t ∧
    ∃ Q, IsJointQuorum cfg Q ∧ ∀ j ∈ Q,
      (j = l ∧ stb.raft.raftLog.committed ≤ stb.raft.raftLog.persisted ∧
        ∀ k, k ≤ stb.raft.raftLog.committed →
          (storeLog stb.raft.raftLog.store).entryAt k = stb.raft.raftLog.abs.entryAt k) ∨
      ∃ x ∈ a.net, x.msgType = .msgAppendResponse ∧ x.reject = false ∧ x.frm = j ∧ x.term = t ∧
        stb.raft.raftLog.committed ≤ x.index ∧
        ∀ (m : Nat) (s : Sys) (stj : NState), h[m]? = some s → x ∈ s.net → s.node j = some stj →
          ∀ k, k ≤ stb.raft.raftLog.committed →
            (storeLog stj.raft.raftLog.store).entryAt k = stb.raft.raftLog.abs.entryAt k :=
  RaftProps.C01d.C04_cluster_leader_commit_rule cfg c0 h H.toHyp3w n a b ha hb l sta stb hla hlb t
    hs ht hc

/-- **C03 `cluster_leader_completeness`** — every entry a leader has committed is in the log of every
leader of a later term: if a step `h[n] → h[n+1]` takes the commit index of `l`, leader of term `t`
after the step, to `c'`, then any node that leads a term `t' > t` in any state `h[m]` of the history
holds, at every index up to `c'`, the entry `l` held there. -/
theorem C03_cluster_leader_completeness (cfg : JointConfig) (c0 : Nat) (h : List Sys)
    (H : Hyp3 cfg c0 h)
    (n : Nat) (a b : Sys) (ha : h[n]? = some a) (hb : h[n + 1]? = some b)
    (l : Nat) (sta stb : NState) (hla : a.node l = some sta) (hlb : b.node l = some stb)
    (hs : stb.raft.state = .leader)
    (hc : sta.raft.raftLog.committed < stb.raft.raftLog.committed)
    (m : Nat) (s : Sys) (hm : h[m]? = some s) (l' : Nat) (st' : NState)
    (hl' : s.node l' = some st') (hs' : st'.raft.state = .leader)
    (ht : stb.raft.term < st'.raft.term) :
    ∀ k, k ≤ stb.raft.raftLog.committed →
      st'.raft.raftLog.abs.entryAt k = stb.raft.raftLog.abs.entryAt k :=
  RaftProps.C01d.C03_cluster_leader_completeness cfg c0 h H.toHyp3w n a b ha hb l sta stb hla hlb
    hs hc m s hm l' st' hl' hs' ht

/-- the logs of two commit events agree up to the smaller commit index -/
theorem ev_logs_agree {cfg : JointConfig} {c0 : Nat} {h : List Sys} (H : Hyp3 cfg c0 h)
    {E1 E2 : Ev} (h1 : E1.ok h) (h2 : E2.ok h) (hle : E1.c ≤ E2.c) : EqUpTo E1.gE E2.gE E1.c :=
  RaftProps.C01d.ev_logs_agree H.toHyp3w h1 h2 hle

/-- **C04 `cluster_follower_commit_sound`** — *every* commit index is sound: in every state `h[m]`,
what a node `v` has marked committed is at most the common snapshot point `c0`, or it was committed by
a leader: there is an earlier step `h[n] → h[n+1]` (`n < m`) that took the commit index of a node `l`,
leader of a term `t ≤ term(v)` after the step, to some `c' ≥ committed(v)`, and the log of `v` equals
the log `l` had then up to `committed(v)`. -/
theorem C04_cluster_follower_commit_sound (cfg : JointConfig) (c0 : Nat) (h : List Sys)
    (H : Hyp3 cfg c0 h) (m : Nat) (s : Sys) (hm : h[m]? = some s) (v : Nat) (st : NState)
    (hv : s.node v = some st) :
    st.raft.raftLog.committed ≤ c0 ∨
    ∃ (n : Nat) (a b : Sys) (l : Nat) (sta stb : NState), n < m ∧ h[n]? = some a ∧
      h[n + 1]? = some b ∧ a.node l = some sta ∧ b.node l = some stb ∧
      stb.raft.state = .leader ∧ sta.raft.raftLog.committed < stb.raft.raftLog.committed ∧
      st.raft.raftLog.committed ≤ stb.raft.raftLog.committed ∧ stb.raft.term ≤ st.raft.term ∧
      ∀ k, k ≤ st.raft.raftLog.committed →
        st.raft.raftLog.abs.entryAt k = stb.raft.raftLog.abs.entryAt k :=
  RaftProps.C01d.C04_cluster_follower_commit_sound cfg c0 h H.toHyp3w m s hm v st hv

/-- … and so is every **stored** commit index (what a restarted node starts from): it is not ahead of
the commit index, and it is covered by a leader's commit of a term not above the stored term, with the
stored entries. -/
theorem C04_cluster_stored_commit_sound (cfg : JointConfig) (c0 : Nat) (h : List Sys)
    (H : Hyp3 cfg c0 h) (m : Nat) (s : Sys) (hm : h[m]? = some s) (v : Nat) (st : NState)
    (hv : s.node v = some st) :
    st.raft.raftLog.store.hardState.commit ≤ st.raft.raftLog.committed ∧
    (st.raft.raftLog.store.hardState.commit ≤ c0 ∨
     ∃ (n : Nat) (a b : Sys) (l : Nat) (sta stb : NState), n < m ∧ h[n]? = some a ∧
      h[n + 1]? = some b ∧ a.node l = some sta ∧ b.node l = some stb ∧
      stb.raft.state = .leader ∧ sta.raft.raftLog.committed < stb.raft.raftLog.committed ∧
      st.raft.raftLog.store.hardState.commit ≤ stb.raft.raftLog.committed ∧
      stb.raft.term ≤ st.raft.raftLog.store.hardState.term ∧
      ∀ k, k ≤ st.raft.raftLog.store.hardState.commit →
        (storeLog st.raft.raftLog.store).entryAt k = stb.raft.raftLog.abs.entryAt k) :=
  RaftProps.C01d.C04_cluster_stored_commit_sound cfg c0 h H.toHyp3w m s hm v st hv

/-- **C01 `cluster_state_machine_safety`** — any two nodes, in any two states of the history (the same
node before and after a restart included), hold the same entry at every index both have marked
committed. -/
theorem C01_cluster_state_machine_safety (cfg : JointConfig) (c0 : Nat) (h : List Sys)
    (H : Hyp3 cfg c0 h)
    (m1 : Nat) (s1 : Sys) (hm1 : h[m1]? = some s1) (v1 : Nat) (st1 : NState)
    (hv1 : s1.node v1 = some st1)
    (m2 : Nat) (s2 : Sys) (hm2 : h[m2]? = some s2) (v2 : Nat) (st2 : NState)
    (hv2 : s2.node v2 = some st2)
    (k : Nat) (hk1 : k ≤ st1.raft.raftLog.committed) (hk2 : k ≤ st2.raft.raftLog.committed) :
    st1.raft.raftLog.abs.entryAt k = st2.raft.raftLog.abs.entryAt k :=
  RaftProps.C01d.C01_cluster_state_machine_safety cfg c0 h H.toHyp3w m1 s1 hm1 v1 st1 hv1 m2 s2 hm2
    v2 st2 hv2 k hk1 hk2

/-- … in particular for the **applied** entries of two nodes whose applied index is within their
commit index (`AppliedOk`, which holds outside the restart window — `raft_log.rs:44-46`). -/
theorem C01_cluster_state_machine_safety_applied (cfg : JointConfig) (c0 : Nat) (h : List Sys)
    (H : Hyp3 cfg c0 h)
    (m1 : Nat) (s1 : Sys) (hm1 : h[m1]? = some s1) (v1 : Nat) (st1 : NState)
    (hv1 : s1.node v1 = some st1) (ha1 : st1.raft.raftLog.AppliedOk)
    (m2 : Nat) (s2 : Sys) (hm2 : h[m2]? = some s2) (v2 : Nat) (st2 : NState)
    (hv2 : s2.node v2 = some st2) (ha2 : st2.raft.raftLog.AppliedOk)
    (k : Nat) (hk1 : k ≤ st1.raft.raftLog.applied) (hk2 : k ≤ st2.raft.raftLog.applied) :
    st1.raft.raftLog.abs.entryAt k = st2.raft.raftLog.abs.entryAt k :=
  C01_cluster_state_machine_safety cfg c0 h H m1 s1 hm1 v1 st1 hv1 m2 s2 hm2 v2 st2 hv2 k
    (Nat.le_trans hk1 ha1) (Nat.le_trans hk2 ha2)

/-! ## Non-vacuity: a leader commits an entry using a follower's acknowledgement (kernel-evaluated)

`RaftProofs/ClusterCommit3H.lean`: the history of `C05_cluster_nonvacuous` continued by
`on_persist_entries(1, 1)` at node 1, `stabilize` and `send` at node 2, and the delivery of node 2's
accepting `MsgAppendResponse` to node 1, which moves node 1's commit index from 0 to 1. -/

section Examples
open RaftProps.C02 RaftProps.C05

set_option maxRecDepth 100000 in
/-- **non-vacuity of the commit layer**: there is a history of `ClusterSem` that satisfies every
hypothesis of the theorems above (`Hyp3`, voters `{1, 2, 3}`, `c0 = 0`) and in which a step takes the
commit index of node 1, leader of term 1, from 0 to 1, the entry at index 1 carrying term 1; the
transport holds the accepting `MsgAppendResponse` of node 2 for term 1 and index 1 before that step, and
the storage of node 2 holds that entry. -/
theorem C01_cluster_nonvacuous :
    ∃ h : List Sys, Hyp3 c02x_cfg 0 h ∧
      ∃ (n : Nat) (a b : Sys) (sta stb stj : NState) (x : Message) (e : Entry),
        h[n]? = some a ∧ h[n + 1]? = some b ∧ a.node 1 = some sta ∧ b.node 1 = some stb ∧
        stb.raft.state = .leader ∧ stb.raft.term = 1 ∧ sta.raft.raftLog.committed = 0 ∧
        stb.raft.raftLog.committed = 1 ∧ stb.raft.raftLog.abs.entryAt 1 = some e ∧ e.term = 1 ∧
        x ∈ a.net ∧ x.msgType = .msgAppendResponse ∧ x.reject = false ∧ x.frm = 2 ∧ x.term = 1 ∧
        x.index = 1 ∧ a.node 2 = some stj ∧
        (storeLog stj.raft.raftLog.store).entryAt 1 = some e :=
  ⟨c01x_hist, c01x_hyp3, 13, c01x_s13, c01x_s14, c01x_a7, c01x_a8, c01x_b6, c01x_ack,
    c05x_app.entries.head!, rfl, rfl, rfl, rfl, by decide, by decide, by decide, by decide,
    by decide, by decide, List.mem_append_right _ (c02x_head_mem _ (by decide)), by decide,
    by decide, by decide, by decide, by decide, rfl, by decide⟩

/-- … and the theorems apply to it: State-Machine Safety between the last two states -/
example (v1 v2 : Nat) (st1 st2 : NState) (h1 : c01x_s13.node v1 = some st1)
    (h2 : c01x_s14.node v2 = some st2) (k : Nat) (hk1 : k ≤ st1.raft.raftLog.committed)
    (hk2 : k ≤ st2.raft.raftLog.committed) :
    st1.raft.raftLog.abs.entryAt k = st2.raft.raftLog.abs.entryAt k :=
  C01_cluster_state_machine_safety c02x_cfg 0 c01x_hist c01x_hyp3 13 c01x_s13 rfl v1 st1 h1
    14 c01x_s14 rfl v2 st2 h2 k hk1 hk2

end Examples

end RaftProps.C01
