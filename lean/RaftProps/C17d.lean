import RaftProofs.ClusterXfer2A
import RaftProofs.ClusterXfer2B
import RaftProofs.ClusterFlow2X
import RaftProps.C17c
import RaftProps.C01j

/-!
# C17d — leadership transfer on ClusterSem, **with log compaction, snapshots between nodes and `request_snapshot`**

`RaftProps/C17c.lean` proves the cluster-level statements of C17 under `Cluster.Hyp` / `Cluster.Hyp3w`
— histories **without** compaction and **without** `MsgSnapshot`s.  This file proves them for the
histories of the snapshot layer (`RaftProps/C01j.lean`; step contract `Snap5.KStep`: compaction under
the storage contract, snapshots between nodes, free use of `request_snapshot`), under
**`Snap5.Hyp3r`**, the bundle of C01j:

* `C17_cluster_timeout_now_target_caught_up_partial` (the `matched = last_index` half) and
  `C17_cluster_one_leader_per_term` — conclusions word for word those of C17c; also under the weaker
  `Snap5.Flow2.HypR` (`…_of_hypR`: `Snap5.Hyp` without `reqok`);
* `C17_cluster_transfer_winner_holds_committed` — from `C03_cluster_leader_completeness` of C01j; the
  equality of the winner's log and the committing leader's log is stated for the ghost (uncompacted)
  logs `Snap.FL` and for the logical logs at every index both retain;
* `C17_cluster_timeout_now_target_caught_up` and `C17_cluster_timeout_now_target_storage` — the
  acknowledgement that backs `matched = last_index`, with the agreement of the target's log / storage
  and the leader's log stated for the ghost logs `Snap.FL` / `Snap.FS` and for the real logs above both
  snapshot points;
* non-vacuity: in the 46-state history `Snap5.Flow2.fx_hist` (compaction, two snapshots,
  `request_snapshot`, then `ping`, `send`, `transfer_leader(2)`, `send`) the transport of the last
  state holds a `MsgTimeoutNow` of the leader 1 — whose log is compacted — for node 2, which restored
  a snapshot earlier in the history.
-/
namespace RaftProps.C17d
open RaftModel RaftModel.Cluster RaftModel.Node RaftModel.Raft RaftModel.Raft.CC

/-! ## the `Hyp` halves -/

/-- `C17_cluster_timeout_now_target_caught_up_partial` under the weakest bundle (`Snap5.Hyp` without
`reqok`) -/
theorem C17_cluster_timeout_now_target_caught_up_partial_of_hypR (cfg : JointConfig)
    (h : List Sys) (H : Snap5.Flow2.HypR cfg h) (n : Nat) (s : Sys) (hn : h[n]? = some s)
    (x : Message) (hx : x ∈ s.net ∨ ∃ i st, s.node i = some st ∧ x ∈ st.raft.msgs)
    (hty : x.msgType = .msgTimeoutNow) :
    ∃ (n0 : Nat) (s0 : Sys) (stL : NState) (pr : Progress), n0 ≤ n ∧ h[n0]? = some s0 ∧
      s0.node x.frm = some stL ∧ stL.raft.state = .leader ∧ stL.raft.term = x.term ∧
      stL.raft.prs.get x.to = some pr ∧ pr.matched = stL.raft.raftLog.lastIndex :=
  Snap5.Xfer2.tn_source H.toHyp hn hx hty

/-- **C17 `cluster_timeout_now_target_caught_up`, the `matched = last_index` half, with compaction,
snapshots and `request_snapshot`** (under `Snap5.Hyp3r`, the bundle of `RaftProps/C01j.lean`).  In
every state `h[n]`, every `MsgTimeoutNow` `x` in the transport or in some node's queue was queued by
its sender `x.from` at an earlier-or-equal point `h[n0]` at which that node was leader of term `x.term`
and its progress for `x.to` had `matched = last_index` of its log. -/
theorem C17_cluster_timeout_now_target_caught_up_partial (cfg : JointConfig) (c0 : Nat)
    (h : List Sys) (H : Snap5.Hyp3r cfg c0 h) (n : Nat) (s : Sys) (hn : h[n]? = some s)
    (x : Message) (hx : x ∈ s.net ∨ ∃ i st, s.node i = some st ∧ x ∈ st.raft.msgs)
    (hty : x.msgType = .msgTimeoutNow) :
    ∃ (n0 : Nat) (s0 : Sys) (stL : NState) (pr : Progress), n0 ≤ n ∧ h[n0]? = some s0 ∧
      s0.node x.frm = some stL ∧ stL.raft.state = .leader ∧ stL.raft.term = x.term ∧
      stL.raft.prs.get x.to = some pr ∧ pr.matched = stL.raft.raftLog.lastIndex :=
  C17_cluster_timeout_now_target_caught_up_partial_of_hypR cfg h H.toHypR n s hn x hx hty

/-- `C17_cluster_one_leader_per_term` under the weakest bundle (`Snap5.Hyp` without `reqok`) -/
theorem C17_cluster_one_leader_per_term_of_hypR (cfg : JointConfig) (h : List Sys)
    (H : Snap5.Flow2.HypR cfg h)
    (n : Nat) (s : Sys) (hn : h[n]? = some s) (x : Message)
    (hx : x ∈ s.net ∨ ∃ i st, s.node i = some st ∧ x ∈ st.raft.msgs)
    (hty : x.msgType = .msgTimeoutNow) (hne : x.to ≠ x.frm) :
    (∀ s1 ∈ h, ∀ s2 ∈ h, ∀ T, leads s1 x.frm T → ¬ leads s2 x.to T) ∧
    (∀ s2 ∈ h, ¬ leads s2 x.to x.term) := by
  have es := RaftProps.C02.C02_cluster_election_safety cfg H.ne H.nd1 H.nd2 h H.hist H.fix
  refine ⟨fun s1 h1 s2 h2 T hl1 hl2 => hne (es s1 s2 h1 h2 x.frm x.to T hl1 hl2).symm, ?_⟩
  intro s2 h2 hl2
  obtain ⟨n0, s0, stL, _, _, hn0, hL, hs, ht, _, _⟩ := Snap5.Xfer2.tn_source H.toHyp hn hx hty
  exact hne (es s0 s2 (mem_of_get hn0) h2 x.frm x.to x.term ⟨stL, hL, hs, ht⟩ hl2).symm

/-- **C17 `cluster_one_leader_per_term`** (Election Safety for the transfer) **with compaction,
snapshots and `request_snapshot`**: for a `MsgTimeoutNow` `x` found anywhere in the history with
`x.to ≠ x.from`, the old leader `x.from` and the transferee `x.to` are never both leader of the same
term (in any two states of the history), and the transferee never leads the term `x.term` of the
message — that term was led by `x.from`. -/
theorem C17_cluster_one_leader_per_term (cfg : JointConfig) (c0 : Nat) (h : List Sys)
    (H : Snap5.Hyp3r cfg c0 h)
    (n : Nat) (s : Sys) (hn : h[n]? = some s) (x : Message)
    (hx : x ∈ s.net ∨ ∃ i st, s.node i = some st ∧ x ∈ st.raft.msgs)
    (hty : x.msgType = .msgTimeoutNow) (hne : x.to ≠ x.frm) :
    (∀ s1 ∈ h, ∀ s2 ∈ h, ∀ T, leads s1 x.frm T → ¬ leads s2 x.to T) ∧
    (∀ s2 ∈ h, ¬ leads s2 x.to x.term) :=
  C17_cluster_one_leader_per_term_of_hypR cfg h H.toHypR n s hn x hx hty hne

/-! ## the `Hyp3w` halves -/

/-- **C17 `cluster_timeout_now_target_caught_up`** (*"A leader tells a transfer target to campaign
immediately only once the target has acknowledged the leader's entire log"*) **with compaction,
snapshots and `request_snapshot`**, under `Snap5.Hyp3r`.  For every `MsgTimeoutNow` `x` in the
transport or in a queue of `h[n]` there is a point `n0 ≤ n` at which `L = x.from` was leader of term
`t = x.term` with `matched = last_index` for `j = x.to`, and — unless the leader's log ends at or below
the common initial snapshot point `c0`, or `j = L` (then `last_index ≤ persisted`) — an accepting
`MsgAppendResponse` `a` of `j` for term `t` with `index ≥ last_index` (the answer to a `MsgAppend` or to
a `MsgSnapshot`) is in the transport at `h[n0]` such that

* `j` queued `a` at some `h[n1]`, `n1 ≤ n0`, being in term `t`, **with a log that held the whole of `L`'s
  log (of `h[n0]`)**: the ghost (uncompacted) logs `Snap.FL` agree at every index up to `L`'s last
  index, hence the logical logs agree at every such index above both snapshot points;
* in every state of the history whose transport holds `a` and in which the **stored** term of `j` is
  `t`, the **storage** of `j` holds the whole of `L`'s log: the ghost stored log `Snap.FS` of `j` agrees
  with `Snap.FL` of `L` up to `L`'s last index, hence the stored log agrees with `L`'s logical log at
  every such index above both snapshot points. -/
theorem C17_cluster_timeout_now_target_caught_up (cfg : JointConfig) (c0 : Nat) (h : List Sys)
    (H : Snap5.Hyp3r cfg c0 h) (n : Nat) (s : Sys) (hn : h[n]? = some s) (x : Message)
    (hx : x ∈ s.net ∨ ∃ i st, s.node i = some st ∧ x ∈ st.raft.msgs)
    (hty : x.msgType = .msgTimeoutNow) :
    ∃ (n0 : Nat) (s0 : Sys) (stL : NState) (pr : Progress), n0 ≤ n ∧ h[n0]? = some s0 ∧
      s0.node x.frm = some stL ∧ stL.raft.state = .leader ∧ stL.raft.term = x.term ∧
      stL.raft.prs.get x.to = some pr ∧ pr.matched = stL.raft.raftLog.lastIndex ∧
      (stL.raft.raftLog.lastIndex ≤ c0 ∨
       (x.to = x.frm ∧ stL.raft.raftLog.lastIndex ≤ stL.raft.raftLog.persisted) ∨
       ∃ a ∈ s0.net, a.msgType = .msgAppendResponse ∧ a.reject = false ∧ a.frm = x.to ∧
        a.term = x.term ∧ stL.raft.raftLog.lastIndex ≤ a.index ∧
        (∃ (n1 : Nat) (s1 : Sys) (stj : NState), n1 ≤ n0 ∧ h[n1]? = some s1 ∧
          s1.node x.to = some stj ∧ a ∈ stj.raft.msgs ∧ stj.raft.term = x.term ∧
          (∀ k, k ≤ stL.raft.raftLog.lastIndex →
            (Snap.FL h c0 stj).entryAt k = (Snap.FL h c0 stL).entryAt k) ∧
          (∀ k, k ≤ stL.raft.raftLog.lastIndex → stj.raft.raftLog.abs.snapIdx < k →
            stL.raft.raftLog.abs.snapIdx < k →
            stj.raft.raftLog.abs.entryAt k = stL.raft.raftLog.abs.entryAt k)) ∧
        (∀ (m : Nat) (s' : Sys) (stj : NState), h[m]? = some s' → a ∈ s'.net →
          s'.node x.to = some stj → stj.raft.raftLog.store.hardState.term = x.term →
          (∀ k, k ≤ stL.raft.raftLog.lastIndex →
            (Snap.FS h c0 stj).entryAt k = (Snap.FL h c0 stL).entryAt k) ∧
          (∀ k, k ≤ stL.raft.raftLog.lastIndex →
            (storeLog stj.raft.raftLog.store).snapIdx < k → stL.raft.raftLog.abs.snapIdx < k →
            (storeLog stj.raft.raftLog.store).entryAt k = stL.raft.raftLog.abs.entryAt k))) := by
  obtain ⟨n0, s0, stL, pr, hle, hn0, hL, hs, ht, hg, hm⟩ :=
    Snap5.Xfer2.tn_source H.toHypR.toHyp hn hx hty
  refine ⟨n0, s0, stL, pr, hle, hn0, hL, hs, ht, hg, hm, ?_⟩
  rcases Snap5.Xfer2.matched_backed H hn0 hL hs hg hm with c | c | ⟨a, a1, a2, a3, a4, a5, a6, a7, a8⟩
  · exact .inl c
  · exact .inr (.inl c)
  · rw [ht] at a5 a7 a8
    exact .inr (.inr ⟨a, a1, a2, a3, a4, a5, a6, a7, a8⟩)

/-- … in particular **when the `MsgTimeoutNow` is delivered**: in the state `h[n]` whose transport (or
a queue) holds the `MsgTimeoutNow` `x` (of leader `L ≠ j`, term `t`), if the stored term of the addressee
`j` is still `t`, then the **storage** of `j` holds the whole log that `L` had when it queued `x` (ghost
logs; real logs above both snapshot points). -/
theorem C17_cluster_timeout_now_target_storage (cfg : JointConfig) (c0 : Nat) (h : List Sys)
    (H : Snap5.Hyp3r cfg c0 h) (n : Nat) (s : Sys) (hn : h[n]? = some s) (x : Message)
    (hx : x ∈ s.net ∨ ∃ i st, s.node i = some st ∧ x ∈ st.raft.msgs)
    (hty : x.msgType = .msgTimeoutNow) (hne : x.to ≠ x.frm) :
    ∃ (n0 : Nat) (s0 : Sys) (stL : NState), n0 ≤ n ∧ h[n0]? = some s0 ∧
      s0.node x.frm = some stL ∧ stL.raft.state = .leader ∧ stL.raft.term = x.term ∧
      ∀ stj, s.node x.to = some stj → stj.raft.raftLog.store.hardState.term = x.term →
        (∀ k, k ≤ stL.raft.raftLog.lastIndex →
          (Snap.FS h c0 stj).entryAt k = (Snap.FL h c0 stL).entryAt k) ∧
        (∀ k, k ≤ stL.raft.raftLog.lastIndex →
          (storeLog stj.raft.raftLog.store).snapIdx < k → stL.raft.raftLog.abs.snapIdx < k →
          (storeLog stj.raft.raftLog.store).entryAt k = stL.raft.raftLog.abs.entryAt k) := by
  obtain ⟨n0, s0, stL, pr, hle, hn0, hL, hs, ht, _, _, hb⟩ :=
    C17_cluster_timeout_now_target_caught_up cfg c0 h H n s hn x hx hty
  refine ⟨n0, s0, stL, hle, hn0, hL, hs, ht, fun stj hj hst => ?_⟩
  have H2 := H.toHyp3w.toHyp2w
  rcases hb with c | ⟨c, _⟩ | ⟨a, ha, _, _, _, _, _, _, hdur⟩
  · have I := (Snap5.ghost_inv H2 n s hn).node x.to stj hj
    have I' := (Snap5.ghost_inv H2 n0 s0 hn0).node x.frm stL hL
    have key : ∀ k, k ≤ stL.raft.raftLog.lastIndex →
        (Snap.FS h c0 stj).entryAt k = (Snap.FL h c0 stL).entryAt k := by
      intro k hk
      unfold LLog.entryAt
      rw [if_pos (by rw [I.sto.snap]; omega), if_pos (by rw [I'.log.snap]; omega)]
    exact ⟨key, Snap5.Flow2.real_of_ghost_store H2 hn hn0 hj hL key⟩
  · exact absurd c hne
  · exact hdur n s stj hn (hist_net_mono H2.hist hn0 hn hle a ha) hj hst

/-- **C17 `cluster_transfer_winner_holds_committed`** (Leader Completeness for the transfer) **with
compaction, snapshots and `request_snapshot`**.  Let `x` be a `MsgTimeoutNow` of term `t` found anywhere
in the history.  If its addressee `j = x.to` is leader of a term `t' > t` in any state `h[m]`, then for
every commit step `h[nc] → h[nc+1]` of a leader of a term `≤ t` — in particular everything the old
leader `x.from` (which did lead `t`, first conjunct) ever committed — the log of `j` reaches the
committed index and holds the committed entries: the ghost (uncompacted) logs `Snap.FL` are equal up to
the committed index, hence so are the logical logs at every index both still retain.  An application of
`C03_cluster_leader_completeness` of `RaftProps/C01j.lean`. -/
theorem C17_cluster_transfer_winner_holds_committed (cfg : JointConfig) (c0 : Nat) (h : List Sys)
    (H : Snap5.Hyp3r cfg c0 h) (n : Nat) (s : Sys) (hn : h[n]? = some s) (x : Message)
    (hx : x ∈ s.net ∨ ∃ i st, s.node i = some st ∧ x ∈ st.raft.msgs)
    (hty : x.msgType = .msgTimeoutNow)
    (m : Nat) (sm : Sys) (hm : h[m]? = some sm) (stj : NState) (hj : sm.node x.to = some stj)
    (hsj : stj.raft.state = .leader) (htj : x.term < stj.raft.term) :
    (∃ n0 s0, n0 ≤ n ∧ h[n0]? = some s0 ∧ leads s0 x.frm x.term) ∧
    ∀ (nc : Nat) (a b : Sys) (l : Nat) (sta stb : NState), h[nc]? = some a →
      h[nc + 1]? = some b → a.node l = some sta → b.node l = some stb →
      stb.raft.state = .leader → stb.raft.term ≤ x.term →
      sta.raft.raftLog.committed < stb.raft.raftLog.committed →
      stb.raft.raftLog.committed ≤ stj.raft.raftLog.abs.lastIndex ∧
      (∀ k, k ≤ stb.raft.raftLog.committed →
        (Snap.FL h c0 stj).entryAt k = (Snap.FL h c0 stb).entryAt k) ∧
      ∀ k, k ≤ stb.raft.raftLog.committed →
        stj.raft.raftLog.abs.snapIdx < k → stb.raft.raftLog.abs.snapIdx < k →
        stj.raft.raftLog.abs.entryAt k = stb.raft.raftLog.abs.entryAt k := by
  obtain ⟨n0, s0, stL, _, hle, hn0, hL, hs, ht, _, _⟩ :=
    Snap5.Xfer2.tn_source H.toHypR.toHyp hn hx hty
  refine ⟨⟨n0, s0, hle, hn0, stL, hL, hs, ht⟩, ?_⟩
  intro nc a b l sta stb ha hb hla hlb hsl htl hc
  exact RaftProps.C01j.C03_cluster_leader_completeness cfg c0 h H nc a b ha hb l sta stb hla hlb hsl
    hc m sm hm x.to stj hj hsj (Nat.lt_of_le_of_lt htl htj)

/-! ## Non-vacuity (kernel-evaluated, `RaftProofs/ClusterFlow2X.lean`) -/

section Examples
open RaftProps.C02 RaftProps.C05 RaftModel.Cluster.Snap5 RaftModel.Cluster.Snap5.Flow2

/-- **non-vacuity**: the 46-state history `fx_hist` (compaction at node 1, a `MsgSnapshot` for node 3,
`request_snapshot` at node 2 served by a second `MsgSnapshot`, then `ping`, `send`,
`transfer_leader(2)`, `send` at the leader) satisfies `Snap5.Hyp3r` (voters `{1, 2, 3}`, `c0 = 0`); the
call `transfer_leader(2)` at leader 1 (term 1, log compacted to index 1, last index 2, `matched = 2`
for node 2) queues a `MsgTimeoutNow` for node 2, and the message is in the transport of `h[45]`. -/
theorem C17_cluster_transfer_snapshot_nonvacuous :
    ∃ h : List Sys, Snap5.Hyp3r c02x_cfg 0 h ∧
      ∃ (s : Sys) (x : Message) (stL : NState), h[45]? = some s ∧ x ∈ s.net ∧
        x.msgType = .msgTimeoutNow ∧ x.frm = 1 ∧ x.to = 2 ∧ x.term = 1 ∧
        (∃ res, Node.call fx_a22 none (.transferLeader 2) = .ok (res, stL)) ∧
        x ∈ stL.raft.msgs ∧ stL.raft.state = .leader ∧ stL.raft.term = 1 ∧
        stL.raft.raftLog.lastIndex = 2 ∧ stL.raft.raftLog.abs.snapIdx = 1 ∧
        (stL.raft.prs.get 2).map (·.matched) = some 2 := by
  obtain ⟨t1, t2, t3, t4⟩ := fx_tn_facts
  obtain ⟨a1, a2, a3, a4, a5⟩ := fx_a23_facts
  exact ⟨fx_hist, fx_hyp3r, fx_t4, fx_tn, fx_a23, fx_s45, fx_tn_mem, t1, t2, t3, t4,
    ⟨_, c02x_out _ (by decide)⟩, c02x_head_mem _ (by decide), a1, a2, a3, a4, a5⟩

/-- … and the theorems apply to it: the `MsgTimeoutNow` in the transport of `h[45]` has a source -/
example : ∃ (n0 : Nat) (s0 : Sys) (stL : NState) (pr : Progress), n0 ≤ 45 ∧
    fx_hist[n0]? = some s0 ∧ s0.node fx_tn.frm = some stL ∧ stL.raft.state = .leader ∧
    stL.raft.term = fx_tn.term ∧ stL.raft.prs.get fx_tn.to = some pr ∧
    pr.matched = stL.raft.raftLog.lastIndex :=
  C17_cluster_timeout_now_target_caught_up_partial c02x_cfg 0 fx_hist fx_hyp3r 45 fx_t4 fx_s45
    fx_tn (.inl fx_tn_mem) fx_tn_facts.1

/-- … and node 2 never leads term 1 in it -/
example : ∀ s2 ∈ fx_hist, ¬ leads s2 fx_tn.to fx_tn.term :=
  (C17_cluster_one_leader_per_term c02x_cfg 0 fx_hist fx_hyp3r 45 fx_t4 fx_s45 fx_tn
    (.inl fx_tn_mem) fx_tn_facts.1 (by decide)).2

/-- … and behind `matched = last_index = 2 > c0` stands an acknowledgement of node 2 (here: its answer
to the `MsgSnapshot` it asked for, or to an earlier `MsgAppend`) that covers the leader's log -/
example : ∃ (n0 : Nat) (s0 : Sys) (stL : NState), n0 ≤ 45 ∧ fx_hist[n0]? = some s0 ∧
    s0.node fx_tn.frm = some stL ∧ stL.raft.state = .leader ∧ stL.raft.term = fx_tn.term ∧
    ∀ stj, fx_t4.node fx_tn.to = some stj → stj.raft.raftLog.store.hardState.term = fx_tn.term →
      (∀ k, k ≤ stL.raft.raftLog.lastIndex →
        (Snap.FS fx_hist 0 stj).entryAt k = (Snap.FL fx_hist 0 stL).entryAt k) ∧
      (∀ k, k ≤ stL.raft.raftLog.lastIndex →
        (storeLog stj.raft.raftLog.store).snapIdx < k → stL.raft.raftLog.abs.snapIdx < k →
        (storeLog stj.raft.raftLog.store).entryAt k = stL.raft.raftLog.abs.entryAt k) :=
  C17_cluster_timeout_now_target_storage c02x_cfg 0 fx_hist fx_hyp3r 45 fx_t4 fx_s45 fx_tn
    (.inl fx_tn_mem) fx_tn_facts.1 (by decide)

end Examples

end RaftProps.C17d
