import RaftProofs.ClusterSnapV
import RaftProofs.ClusterSnap2V

/-!
# C01 / C03 / C04, cluster level, **with log compaction** — the commit rule, Leader Completeness and
State-Machine Safety for `ClusterSem` histories in which the applications compact their logs

`RaftProps/C01c.lean` proves the commit layer of `ClusterSem` for histories without compaction and
without snapshots.  This file re-proves its statements for histories **with compaction**
(`NodeOp.compact`), under the storage contract of the Log Matching layer (`CompactOk`: `compact k` only
with `k ≤ committed` and `k ≤ persisted`; the documented application contract — compact only what is
applied, `applied ≤ committed`, and what is persisted — implies it).

**Part 1** (namespace `RaftProps.C01e`) covers compaction alone: snapshots *between nodes* are excluded
(`nosnap`, `nopend`): a leader that has compacted away what a follower needs queues a `MsgSnapshot`, and
the histories covered are those in which no such message reaches the transport.  **Part 2** (namespace
`RaftProps.C01e.Snapshots`, at the end of the file) admits them: leaders send the snapshot of their
storage, followers restore and install it.

## Hypotheses of part 1 (`Snap.Hyp3 cfg c0 h`, all explicit; `RaftProofs/ClusterSnapA/B/K.lean`)

As `Hyp3` of C01c, with these differences:
* `Snap.KStep.call` **allows `compact k`** under `CompactOk` (C01c: no compaction);
* `shape` is gone.  Instead: `first0` — in the *initial* state every storage has first index `c0 + 1` —
  and `nopend` (**gap**, goes with `nosnap`) — no node ever has a pending snapshot.
Everything else (`History`, fixed voters, `InitOk`, `NoBatch`, persist-before-send, `commit_apply`
contract, `nolone`, `initc`, `norir` (**gap**), `anch` (**gap**), `snapt0`, `nosnap` (**gap**)) is
unchanged.  `Snap.Hyp3.of_old`: the hypotheses of C01c imply these.

Relation to C01d: for the layer *without* compaction the two gaps `norir` and `anch` have since been
discharged (`Cluster.Hyp3w.toHyp3a`, `RaftProofs/ClusterCommit4L.lean`; statements in
`RaftProps/C01d.lean`).  The bundles of this file (`Snap.Hyp2/3`, `Snap2.Hyp2/3`) are modelled on the
original `Cluster.Hyp2/3` of C01c and still carry both as fields.  **For part 1 both are discharged in
`RaftProps/C01g.lean`** (the statements of part 1 under `Snap.Hyp3w` = `Snap.Hyp3` without `anch` and
`norir`; `Snap.Hyp3w.toHyp3a`, `RaftProofs/ClusterSnap3A–3C.lean`; the lemmas of `ClusterSnapB … S` take
the weaker bundles `Snap.Hyp2w` / `Snap.Hyp3a`, and the theorems below reach them through
`Snap.Hyp3.toHyp2w` / `Snap.Hyp3.toHyp3a`).  For part 2 the per-call relation of `ClusterCommit4A–4I`
(`call_pr`) still excludes pending snapshots and delivered `MsgSnapshot`s, so the derivation does not
carry over as it stands.

## Statements

Entries are compared **where both logs retain the index** (`snapIdx < k`): a compacted log answers
`none` below its snapshot point.  Behind the statements is a stronger one about *ghost logs*: every
logical log `g` and every stored log of every node, in every state, has an **uncompacted version**
(`Snap.Full`: starts at `c0`, gap-free, holds `g`'s entries above `g`'s snapshot point, every link is a
link of a chain that sits somewhere in some state of the history); it is unique entry by entry, is not
changed by a compaction, and all statements of C01c hold verbatim for the uncompacted versions
(`C01e_ghost_log`, `C01e_state_machine_safety_ghost`): *what a node has compacted away is the committed
prefix every other node holds or has compacted away*.

The main induction is `RaftModel.Cluster.Snap.sm_all` (`RaftProofs/ClusterSnapS.lean`).
-/
namespace RaftProps.C01e
open RaftModel RaftModel.Cluster RaftModel.Node RaftModel.Raft RaftModel.Raft.CC

/-- an accepting `MsgAppendResponse` of node `j` for term `t` with index at least `c` is in `net` -/
def AckInNet (net : List Message) (j t c : Nat) : Prop :=
  ∃ a ∈ net, a.msgType = .msgAppendResponse ∧ a.reject = false ∧ a.frm = j ∧
    (a.term = t ∨ a.term = 0) ∧ c ≤ a.index

/-- **C04 `cluster_leader_commit_rule`** (quorum part, under `Snap.Hyp` alone), with compaction —
whenever a step of a history takes the commit index of a node `l` that is leader of term `t` after the
step from `c` to `c' > c`, the entry at `c'` in its log carries term `t`, and there is a joint quorum
`Q` of `cfg` such that every `j ∈ Q` is `l` itself with `persisted ≥ c'`, or has an accepting
`MsgAppendResponse` for term `t` with `index ≥ c'` in the transport (already before the step). -/
theorem C04_cluster_leader_commit_rule_quorum (cfg : JointConfig) (h : List Sys) (H : Snap.Hyp cfg h)
    (n : Nat) (a b : Sys) (ha : h[n]? = some a) (hb : h[n + 1]? = some b)
    (l : Nat) (sta stb : NState) (hla : a.node l = some sta) (hlb : b.node l = some stb)
    (t : Nat) (hs : stb.raft.state = .leader) (ht : stb.raft.term = t)
    (hc : sta.raft.raftLog.committed < stb.raft.raftLog.committed) :
    stb.raft.raftLog.term stb.raft.raftLog.committed = .ok t ∧
    ∃ Q, IsJointQuorum cfg Q ∧ ∀ j ∈ Q,
      (j = l ∧ stb.raft.raftLog.committed ≤ stb.raft.raftLog.persisted) ∨
      AckInNet a.net j t stb.raft.raftLog.committed := by
  obtain ⟨h1, Q, hQ, hq⟩ := H.commit_step n a b ha hb l sta stb hla hlb hs hc
  subst ht
  refine ⟨h1, Q, hQ, fun j hj => (hq j hj).imp (fun g => g) (fun g => ?_)⟩
  obtain ⟨x, hx, hack, h2, h3, h4⟩ := g
  exact ⟨x, hx, hack.1, hack.2, h2, h3, h4⟩

/-- the commit event of a step that moves the commit index of a node that is leader afterwards -/
theorem ev_of_step {h : List Sys} {n : Nat} {a b : Sys} (ha : h[n]? = some a)
    (hb : h[n + 1]? = some b) {l : Nat} {sta stb : NState} (hla : a.node l = some sta)
    (hlb : b.node l = some stb) (hs : stb.raft.state = .leader)
    (hc : sta.raft.raftLog.committed < stb.raft.raftLog.committed) :
    Ev.ok h ⟨n, l, stb.raft.term, stb.raft.raftLog.committed, stb.raft.raftLog.abs,
      stb.raft.raftLog.persisted⟩ :=
  ⟨a, b, sta, stb, ha, hb, hla, hlb, hs, rfl, hc, rfl, rfl, rfl⟩

/-- the ghost log of the commit event of a step is the ghost log of the leader after the step -/
theorem evF_of_step {h : List Sys} {c0 n l : Nat} {stb : NState} :
    Snap.EvF h c0 ⟨n, l, stb.raft.term, stb.raft.raftLog.committed, stb.raft.raftLog.abs,
      stb.raft.raftLog.persisted⟩ = Snap.FL h c0 stb := rfl

/-- **the ghost logs**: in every state of a history, the logical log and the stored log of every node
have uncompacted versions `FL` / `FS` (`Snap.Full`), which hold the same entries up to the node's
snapshot point; any two uncompacted versions of one log hold the same entries. -/
theorem C01e_ghost_log (cfg : JointConfig) (c0 : Nat) (h : List Sys) (H : Snap.Hyp3 cfg c0 h)
    (m : Nat) (s : Sys) (hm : h[m]? = some s) (v : Nat) (st : NState) (hv : s.node v = some st) :
    Snap.Full (Snap.HistChain h) c0 st.raft.raftLog.abs (Snap.FL h c0 st) ∧
    Snap.Full (Snap.HistChain h) c0 (storeLog st.raft.raftLog.store) (Snap.FS h c0 st) ∧
    (∀ k, k ≤ st.raft.raftLog.abs.snapIdx →
      (Snap.FL h c0 st).entryAt k = (Snap.FS h c0 st).entryAt k) ∧
    (∀ g F F', Snap.Full (Snap.HistChain h) c0 g F → Snap.Full (Snap.HistChain h) c0 g F' →
      ∀ k, F.entryAt k = F'.entryAt k) := by
  have I := Snap.node_full H.toHyp2w m s hm v st hv
  exact ⟨I.log, I.sto, I.pre, fun g F F' h1 h2 => h1.uniq (Snap.hist_agree H.toHyp2w) h2⟩

/-- **C04 `cluster_leader_commit_rule`** with compaction — the commit rule with **durable
acknowledgements**: whenever a step `h[n] → h[n+1]` takes the commit index of a node `l` that is leader
of term `t` after the step from `c` to `c' > c`, the entry at `c'` in its log carries term `t`, and
there is a joint quorum `Q` of `cfg` such that every `j ∈ Q` is

* `l` itself, with `persisted ≥ c'` — and its storage holds its log up to `c'`; or
* the sender of an accepting `MsgAppendResponse` `x` for term `t` with `index ≥ c'` that is in the
  transport before the step, **and in every state of the history whose transport holds `x` the
  storage of `j` reaches `c'` and holds `l`'s log up to `c'`** — the uncompacted versions are equal up
  to `c'`, hence so are the logs at every index both still retain. -/
theorem C04_cluster_leader_commit_rule (cfg : JointConfig) (c0 : Nat) (h : List Sys)
    (H : Snap.Hyp3 cfg c0 h)
    (n : Nat) (a b : Sys) (ha : h[n]? = some a) (hb : h[n + 1]? = some b)
    (l : Nat) (sta stb : NState) (hla : a.node l = some sta) (hlb : b.node l = some stb)
    (t : Nat) (hs : stb.raft.state = .leader) (ht : stb.raft.term = t)
    (hc : sta.raft.raftLog.committed < stb.raft.raftLog.committed) :
    stb.raft.raftLog.term stb.raft.raftLog.committed = .ok t ∧
    ∃ Q, IsJointQuorum cfg Q ∧ ∀ j ∈ Q,
      (j = l ∧ stb.raft.raftLog.committed ≤ stb.raft.raftLog.persisted ∧
        ∀ k, k ≤ stb.raft.raftLog.committed →
          (storeLog stb.raft.raftLog.store).entryAt k = stb.raft.raftLog.abs.entryAt k) ∨
      ∃ x ∈ a.net, x.msgType = .msgAppendResponse ∧ x.reject = false ∧ x.frm = j ∧ x.term = t ∧
        stb.raft.raftLog.committed ≤ x.index ∧
        ∀ (m : Nat) (s : Sys) (stj : NState), h[m]? = some s → x ∈ s.net → s.node j = some stj →
          stb.raft.raftLog.committed ≤ (storeLog stj.raft.raftLog.store).lastIndex ∧
          (∀ k, k ≤ stb.raft.raftLog.committed →
            (Snap.FS h c0 stj).entryAt k = (Snap.FL h c0 stb).entryAt k) ∧
          ∀ k, k ≤ stb.raft.raftLog.committed →
            (storeLog stj.raft.raftLog.store).snapIdx < k → stb.raft.raftLog.abs.snapIdx < k →
            (storeLog stj.raft.raftLog.store).entryAt k = stb.raft.raftLog.abs.entryAt k := by
  have H2 := H.toHyp2w
  obtain ⟨h1, Q, hQ, hq⟩ := H2.toHyp.commit_step n a b ha hb l sta stb hla hlb hs hc
  subst ht
  have hE := ev_of_step ha hb hla hlb hs hc
  obtain ⟨_, hEh, hc0⟩ := Snap.Ev.leaderLog H2 hE
  have ob := Snap.node_ok H2 hb hlb
  have Ib := Snap.node_full H2 (n + 1) b hb l stb hlb
  refine ⟨h1, Q, hQ, fun j hj => ?_⟩
  rcases hq j hj with ⟨g1, g2⟩ | ⟨x, hx, hack, hfrm, hterm, hidx⟩
  · exact .inl ⟨g1, g2, fun k hk => (ob.inv.abs_store_persisted ob.snap (by omega)).symm⟩
  · right
    have hx0 : x.index ≠ 0 := by
      have : c0 < stb.raft.raftLog.committed := hc0
      omega
    have hterm' : x.term = stb.raft.term := by
      rcases hterm with d | d
      · exact d
      · exact absurd d ((Snap.ack_inv H2 n a ha).2 x hx hack hx0).2
    refine ⟨x, hx, hack.1, hack.2, hfrm, hterm', hidx, fun m s stj hm hxs hj => ?_⟩
    have hh := (Snap.sm_all H.toHyp3a hm).rets _ hE j stj hj (.inl ⟨x, hxs, hack, hfrm, hterm', hidx⟩)
    have Ij := Snap.node_full H2 m s hm j stj hj
    obtain ⟨e1, he1, ht1⟩ := hh
    obtain ⟨e2, he2, ht2⟩ := hEh
    have heq := Snap.full_eq_below H2 Ij.sto Ib.log he1 he2 (ht1.trans ht2.symm)
    refine ⟨?_, heq, fun k hk hk1 hk2 => ?_⟩
    · rw [← Ij.sto.last]; exact ((Snap.FS h c0 stj).entryAt_lt he1).2
    · rw [← Ij.sto.ents k hk1, ← Ib.log.ents k hk2]; exact heq k hk

/-- **C03 `cluster_leader_completeness`** with compaction — every entry a leader has committed is in
the log of every leader of a later term: if a step `h[n] → h[n+1]` takes the commit index of `l`, leader
of term `t` after the step, to `c'`, then the log of any node that leads a term `t' > t` in any state
`h[m]` of the history reaches `c'` and holds, at every index up to `c'`, the entry `l` held there — in
the uncompacted versions, hence wherever both logs retain the index. -/
theorem C03_cluster_leader_completeness (cfg : JointConfig) (c0 : Nat) (h : List Sys)
    (H : Snap.Hyp3 cfg c0 h)
    (n : Nat) (a b : Sys) (ha : h[n]? = some a) (hb : h[n + 1]? = some b)
    (l : Nat) (sta stb : NState) (hla : a.node l = some sta) (hlb : b.node l = some stb)
    (hs : stb.raft.state = .leader)
    (hc : sta.raft.raftLog.committed < stb.raft.raftLog.committed)
    (m : Nat) (s : Sys) (hm : h[m]? = some s) (l' : Nat) (st' : NState)
    (hl' : s.node l' = some st') (hs' : st'.raft.state = .leader)
    (ht : stb.raft.term < st'.raft.term) :
    stb.raft.raftLog.committed ≤ st'.raft.raftLog.abs.lastIndex ∧
    (∀ k, k ≤ stb.raft.raftLog.committed →
      (Snap.FL h c0 st').entryAt k = (Snap.FL h c0 stb).entryAt k) ∧
    ∀ k, k ≤ stb.raft.raftLog.committed →
      st'.raft.raftLog.abs.snapIdx < k → stb.raft.raftLog.abs.snapIdx < k →
      st'.raft.raftLog.abs.entryAt k = stb.raft.raftLog.abs.entryAt k := by
  have H2 := H.toHyp2w
  have hE := ev_of_step ha hb hla hlb hs hc
  obtain ⟨_, hEh, _⟩ := Snap.Ev.leaderLog H2 hE
  have hh := (Snap.sm_all H.toHyp3a hm).lc _ hE l' st' hl' hs' ht
  have I' := Snap.node_full H2 m s hm l' st' hl'
  have Ib := Snap.node_full H2 (n + 1) b hb l stb hlb
  obtain ⟨e1, he1, ht1⟩ := hh
  obtain ⟨e2, he2, ht2⟩ := hEh
  have heq := Snap.full_eq_below H2 I'.log Ib.log he1 he2 (ht1.trans ht2.symm)
  refine ⟨?_, heq, fun k hk hk1 hk2 => ?_⟩
  · rw [← I'.log.last]; exact ((Snap.FL h c0 st').entryAt_lt he1).2
  · rw [← I'.log.ents k hk1, ← Ib.log.ents k hk2]; exact heq k hk

/-- **C04 `cluster_follower_commit_sound`** with compaction — *every* commit index is sound: in every
state `h[m]`, what a node `v` has marked committed is at most the common initial snapshot point `c0`,
or it was committed by a leader: there is an earlier step `h[n] → h[n+1]` (`n < m`) that took the commit
index of a node `l`, leader of a term `t ≤ term(v)` after the step, to some `c' ≥ committed(v)`, and the
log of `v` equals the log `l` had then up to `committed(v)` — in the uncompacted versions, hence
wherever both retain the index. -/
theorem C04_cluster_follower_commit_sound (cfg : JointConfig) (c0 : Nat) (h : List Sys)
    (H : Snap.Hyp3 cfg c0 h) (m : Nat) (s : Sys) (hm : h[m]? = some s) (v : Nat) (st : NState)
    (hv : s.node v = some st) :
    st.raft.raftLog.committed ≤ c0 ∨
    ∃ (n : Nat) (a b : Sys) (l : Nat) (sta stb : NState), n < m ∧ h[n]? = some a ∧
      h[n + 1]? = some b ∧ a.node l = some sta ∧ b.node l = some stb ∧
      stb.raft.state = .leader ∧ sta.raft.raftLog.committed < stb.raft.raftLog.committed ∧
      st.raft.raftLog.committed ≤ stb.raft.raftLog.committed ∧ stb.raft.term ≤ st.raft.term ∧
      (∀ k, k ≤ st.raft.raftLog.committed →
        (Snap.FL h c0 st).entryAt k = (Snap.FL h c0 stb).entryAt k) ∧
      ∀ k, k ≤ st.raft.raftLog.committed →
        st.raft.raftLog.abs.snapIdx < k → stb.raft.raftLog.abs.snapIdx < k →
        st.raft.raftLog.abs.entryAt k = stb.raft.raftLog.abs.entryAt k := by
  have H2 := H.toHyp2w
  rcases (Snap.sm_all H.toHyp3a hm).nctm v st hv with c | ⟨E, hE, h2, h3, h4, h5⟩
  · exact .inl c
  · right
    obtain ⟨a, b, sta, stb, ha, hb, hla, hlb, hs, ht, e1, e2, hev, _, hc, _⟩ := Snap.Ev.facts H2 hE
    have I := Snap.node_full H2 m s hm v st hv
    have Ib := Snap.node_full H2 (E.nE + 1) b hb E.l stb hlb
    have hg : ∀ k, k ≤ st.raft.raftLog.committed →
        (Snap.FL h c0 st).entryAt k = (Snap.FL h c0 stb).entryAt k := by
      intro k hk; rw [← hev]; exact h5 k hk
    exact ⟨E.nE, a, b, E.l, sta, stb, h2, ha, hb, hla, hlb, hs, by rw [← e1]; exact hc,
      by rw [← e1]; exact h3, by rw [ht]; exact h4, hg,
      fun k hk hk1 hk2 => by rw [← I.log.ents k hk1, ← Ib.log.ents k hk2]; exact hg k hk⟩

/-- … and so is every **stored** commit index (what a restarted node starts from): it is not ahead of
the commit index, and it is covered by a leader's commit of a term not above the stored term, with the
stored entries. -/
theorem C04_cluster_stored_commit_sound (cfg : JointConfig) (c0 : Nat) (h : List Sys)
    (H : Snap.Hyp3 cfg c0 h) (m : Nat) (s : Sys) (hm : h[m]? = some s) (v : Nat) (st : NState)
    (hv : s.node v = some st) :
    st.raft.raftLog.store.hardState.commit ≤ st.raft.raftLog.committed ∧
    (st.raft.raftLog.store.hardState.commit ≤ c0 ∨
     ∃ (n : Nat) (a b : Sys) (l : Nat) (sta stb : NState), n < m ∧ h[n]? = some a ∧
      h[n + 1]? = some b ∧ a.node l = some sta ∧ b.node l = some stb ∧
      stb.raft.state = .leader ∧ sta.raft.raftLog.committed < stb.raft.raftLog.committed ∧
      st.raft.raftLog.store.hardState.commit ≤ stb.raft.raftLog.committed ∧
      stb.raft.term ≤ st.raft.raftLog.store.hardState.term ∧
      (∀ k, k ≤ st.raft.raftLog.store.hardState.commit →
        (Snap.FS h c0 st).entryAt k = (Snap.FL h c0 stb).entryAt k) ∧
      ∀ k, k ≤ st.raft.raftLog.store.hardState.commit →
        (storeLog st.raft.raftLog.store).snapIdx < k → stb.raft.raftLog.abs.snapIdx < k →
        (storeLog st.raft.raftLog.store).entryAt k = stb.raft.raftLog.abs.entryAt k) := by
  have H2 := H.toHyp2w
  refine ⟨(Snap.sm_all H.toHyp3a hm).scm v st hv, ?_⟩
  rcases (Snap.sm_all H.toHyp3a hm).ncts v st hv with c | ⟨E, hE, h2, h3, h4, h5⟩
  · exact .inl c
  · right
    obtain ⟨a, b, sta, stb, ha, hb, hla, hlb, hs, ht, e1, e2, hev, _, hc, _⟩ := Snap.Ev.facts H2 hE
    have I := Snap.node_full H2 m s hm v st hv
    have Ib := Snap.node_full H2 (E.nE + 1) b hb E.l stb hlb
    have hg : ∀ k, k ≤ st.raft.raftLog.store.hardState.commit →
        (Snap.FS h c0 st).entryAt k = (Snap.FL h c0 stb).entryAt k := by
      intro k hk; rw [← hev]; exact h5 k hk
    exact ⟨E.nE, a, b, E.l, sta, stb, h2, ha, hb, hla, hlb, hs, by rw [← e1]; exact hc,
      by rw [← e1]; exact h3, by rw [ht]; exact h4, hg,
      fun k hk hk1 hk2 => by rw [← I.sto.ents k hk1, ← Ib.log.ents k hk2]; exact hg k hk⟩

/-- **C01 `cluster_state_machine_safety`, ghost form** — the uncompacted logs of any two nodes, in any
two states of the history (the same node before and after a restart or a compaction included), hold the
same entry at every index both have marked committed. -/
theorem C01_cluster_state_machine_safety_ghost (cfg : JointConfig) (c0 : Nat) (h : List Sys)
    (H : Snap.Hyp3 cfg c0 h)
    (m1 : Nat) (s1 : Sys) (hm1 : h[m1]? = some s1) (v1 : Nat) (st1 : NState)
    (hv1 : s1.node v1 = some st1)
    (m2 : Nat) (s2 : Sys) (hm2 : h[m2]? = some s2) (v2 : Nat) (st2 : NState)
    (hv2 : s2.node v2 = some st2)
    (k : Nat) (hk1 : k ≤ st1.raft.raftLog.committed) (hk2 : k ≤ st2.raft.raftLog.committed) :
    (Snap.FL h c0 st1).entryAt k = (Snap.FL h c0 st2).entryAt k :=
  Snap.sms_ghost H.toHyp3a hm1 hv1 hm2 hv2 hk1 hk2

/-- **C01 `cluster_state_machine_safety`** with compaction — any two nodes, in any two states of the
history (the same node before and after a restart or a compaction included), hold the same entry at
every index both have marked committed **and both still retain** (`snapIdx < k`; a compacted log
answers `none` below its snapshot point). -/
theorem C01_cluster_state_machine_safety (cfg : JointConfig) (c0 : Nat) (h : List Sys)
    (H : Snap.Hyp3 cfg c0 h)
    (m1 : Nat) (s1 : Sys) (hm1 : h[m1]? = some s1) (v1 : Nat) (st1 : NState)
    (hv1 : s1.node v1 = some st1)
    (m2 : Nat) (s2 : Sys) (hm2 : h[m2]? = some s2) (v2 : Nat) (st2 : NState)
    (hv2 : s2.node v2 = some st2)
    (k : Nat) (hk1 : k ≤ st1.raft.raftLog.committed) (hk2 : k ≤ st2.raft.raftLog.committed)
    (hr1 : st1.raft.raftLog.abs.snapIdx < k) (hr2 : st2.raft.raftLog.abs.snapIdx < k) :
    st1.raft.raftLog.abs.entryAt k = st2.raft.raftLog.abs.entryAt k := by
  have I1 := Snap.node_full H.toHyp2w m1 s1 hm1 v1 st1 hv1
  have I2 := Snap.node_full H.toHyp2w m2 s2 hm2 v2 st2 hv2
  rw [← I1.log.ents k hr1, ← I2.log.ents k hr2]
  exact Snap.sms_ghost H.toHyp3a hm1 hv1 hm2 hv2 hk1 hk2

/-- … in particular for the **applied** entries of two nodes whose applied index is within their
commit index (`AppliedOk`, which holds outside the restart window — `raft_log.rs:44-46`). -/
theorem C01_cluster_state_machine_safety_applied (cfg : JointConfig) (c0 : Nat) (h : List Sys)
    (H : Snap.Hyp3 cfg c0 h)
    (m1 : Nat) (s1 : Sys) (hm1 : h[m1]? = some s1) (v1 : Nat) (st1 : NState)
    (hv1 : s1.node v1 = some st1) (ha1 : st1.raft.raftLog.AppliedOk)
    (m2 : Nat) (s2 : Sys) (hm2 : h[m2]? = some s2) (v2 : Nat) (st2 : NState)
    (hv2 : s2.node v2 = some st2) (ha2 : st2.raft.raftLog.AppliedOk)
    (k : Nat) (hk1 : k ≤ st1.raft.raftLog.applied) (hk2 : k ≤ st2.raft.raftLog.applied)
    (hr1 : st1.raft.raftLog.abs.snapIdx < k) (hr2 : st2.raft.raftLog.abs.snapIdx < k) :
    st1.raft.raftLog.abs.entryAt k = st2.raft.raftLog.abs.entryAt k :=
  C01_cluster_state_machine_safety cfg c0 h H m1 s1 hm1 v1 st1 hv1 m2 s2 hm2 v2 st2 hv2 k
    (Nat.le_trans hk1 ha1) (Nat.le_trans hk2 ha2) hr1 hr2

/-- **a compacted prefix is a committed prefix** (`C15`-style, for compaction points): in every state,
the snapshot point of every node — of its logical log and of its storage, which coincide — is not
below the common initial snapshot point `c0` and not above the node's commit index; and every other
node, in any state, whose commit index reaches an index `k` up to that snapshot point holds, in its
uncompacted log, exactly the entry the compacting node's uncompacted log holds at `k`. -/
theorem C01_cluster_compacted_prefix_committed (cfg : JointConfig) (c0 : Nat) (h : List Sys)
    (H : Snap.Hyp3 cfg c0 h)
    (m1 : Nat) (s1 : Sys) (hm1 : h[m1]? = some s1) (v1 : Nat) (st1 : NState)
    (hv1 : s1.node v1 = some st1) :
    c0 ≤ st1.raft.raftLog.abs.snapIdx ∧
    (storeLog st1.raft.raftLog.store).snapIdx = st1.raft.raftLog.abs.snapIdx ∧
    st1.raft.raftLog.abs.snapIdx ≤ st1.raft.raftLog.committed ∧
    ∀ (m2 : Nat) (s2 : Sys) (v2 : Nat) (st2 : NState), h[m2]? = some s2 → s2.node v2 = some st2 →
      ∀ k, k ≤ st1.raft.raftLog.abs.snapIdx → k ≤ st2.raft.raftLog.committed →
        (Snap.FL h c0 st1).entryAt k = (Snap.FL h c0 st2).entryAt k := by
  have H2 := H.toHyp2w
  have o := Snap.node_ok H2 hm1 hv1
  refine ⟨Snap.c0_le_snap H2 hm1 hv1, o.sidx, o.snap_le, fun m2 s2 v2 st2 hm2 hv2 k hk1 hk2 => ?_⟩
  exact Snap.sms_ghost H.toHyp3a hm1 hv1 hm2 hv2 (Nat.le_trans hk1 o.snap_le) hk2

/-! ## Relation to C01c, and non-vacuity -/

/-- the hypotheses of C01c (no compaction) imply the hypotheses of this file -/
theorem C01e_subsumes_C01c (cfg : JointConfig) (c0 : Nat) (h : List Sys) (H : Cluster.Hyp3 cfg c0 h) :
    Snap.Hyp3 cfg c0 h := Snap.Hyp3.of_old H

section Examples
open RaftProps.C02 RaftProps.C05

set_option maxRecDepth 100000 in
/-- **non-vacuity, with a real compaction** (kernel-evaluated, `RaftProofs/ClusterSnapU.lean`): there
is a history of `ClusterSem` that satisfies every hypothesis of the theorems above (`Snap.Hyp3`, voters
`{1, 2, 3}`, `c0 = 0`) and whose last step is `compact 2` at node 1 — leader of term 1 with commit
index 2 —: the snapshot point of node 1 moves from 0 to 1, its term is forgotten, entry 1 is gone from
the logical log — and still there in the uncompacted version `FL`. -/
theorem C01e_cluster_nonvacuous :
    ∃ h : List Sys, Snap.Hyp3 c02x_cfg 0 h ∧
      ∃ (n : Nat) (a b : Sys) (sta stb : NState) (e : Entry),
        h[n]? = some a ∧ h[n + 1]? = some b ∧ a.node 1 = some sta ∧ b.node 1 = some stb ∧
        Node.call sta none (.compact 2) = .ok (.ok, stb) ∧
        stb.raft.state = .leader ∧ stb.raft.raftLog.committed = 2 ∧
        sta.raft.raftLog.abs.snapIdx = 0 ∧ stb.raft.raftLog.abs.snapIdx = 1 ∧
        stb.raft.raftLog.abs.snapTerm = none ∧
        sta.raft.raftLog.abs.entryAt 1 = some e ∧ stb.raft.raftLog.abs.entryAt 1 = none ∧
        (Snap.FL h 0 stb).entryAt 1 = some e := by
  have H := Snap.cx_hyp3
  have ha : Snap.cx_hist[22]? = some Snap.cx_s22 := rfl
  have hb : Snap.cx_hist[22 + 1]? = some Snap.cx_s23 := rfl
  have hla : Snap.cx_s22.node 1 = some Snap.cx_a13 := rfl
  have hlb : Snap.cx_s23.node 1 = some Snap.cx_a14 := rfl
  have he : Snap.cx_a13.raft.raftLog.abs.entryAt 1 = some c05x_app.entries.head! := by decide
  have I := Snap.node_full H.toHyp2w 22 _ ha 1 _ hla
  have hg : (Snap.FL Snap.cx_hist 0 Snap.cx_a14).entryAt 1 = some c05x_app.entries.head! := by
    rw [Snap.sms_ghost H.toHyp3a hb hlb ha hla (k := 1) (by decide) (by decide), I.log.ents 1 (by decide)]
    exact he
  exact ⟨Snap.cx_hist, H, 22, Snap.cx_s22, Snap.cx_s23, Snap.cx_a13, Snap.cx_a14, _, ha, hb, hla,
    hlb, Snap.c02x_out' _ (by decide), by decide, by decide, by decide, by decide, by decide, he,
    by decide, hg⟩

/-- … and the theorems apply to it: State-Machine Safety between the last two states -/
example (v1 v2 : Nat) (st1 st2 : NState) (h1 : Snap.cx_s22.node v1 = some st1)
    (h2 : Snap.cx_s23.node v2 = some st2) (k : Nat) (hk1 : k ≤ st1.raft.raftLog.committed)
    (hk2 : k ≤ st2.raft.raftLog.committed) (hr1 : st1.raft.raftLog.abs.snapIdx < k)
    (hr2 : st2.raft.raftLog.abs.snapIdx < k) :
    st1.raft.raftLog.abs.entryAt k = st2.raft.raftLog.abs.entryAt k :=
  C01_cluster_state_machine_safety c02x_cfg 0 Snap.cx_hist Snap.cx_hyp3 22 Snap.cx_s22 rfl v1 st1 h1
    23 Snap.cx_s23 rfl v2 st2 h2 k hk1 hk2 hr1 hr2

set_option maxRecDepth 100000 in
/-- **snapshots need one more clause of the storage contract** (kernel-evaluated counterexample,
`RaftProofs/ClusterSnapV.lean`; finding (a) of the C01c report made concrete).  There is a history of
`ClusterSem` whose steps all obey `Snap.KStep` (fixed voters `{1, 2, 3}`, `InitOk` start, no batching)
in which

* the storage of node 1 — leader of term 1, commit index 1, recorded commit index 1 — answers
  `snapshot(request_index = 2)` with a snapshot **relabelled to index 2** (`MemStorage::snapshot` sets
  the metadata index to `request_index` when that exceeds the real one), so a `MsgSnapshot` with
  metadata `(index 2, term 1)` reaches the transport, and
* node 2, which had asked for the snapshot (`request_snapshot`), restores it: **its commit index is
  2, although no leader has a commit index above 1 in any state of the history** — commit-index
  soundness (`C04_cluster_follower_commit_sound`) fails.

The clause that excludes it (documented for `Storage::snapshot`, not enforced by `MemStorage`): *a
storage answers `snapshot(request_index)` only when its snapshot index is at least `request_index`*,
and reports `SnapshotTemporarilyUnavailable` otherwise. -/
theorem C01e_snapshot_request_index_counterexample :
    ∃ h : List Sys, History h ∧
      (∀ (n : Nat) (a b : Sys), h[n]? = some a → h[n + 1]? = some b → Snap.KStep a b) ∧
      (∀ s ∈ h, FixedCfg c02x_cfg s ∧ NoBatch s) ∧ (∀ s, h[0]? = some s → InitOk s) ∧
      -- no leader ever has a commit index above 1
      (∀ s ∈ h, ∀ l st, s.node l = some st → st.raft.state = .leader →
        st.raft.raftLog.committed ≤ 1) ∧
      ∃ (m : Nat) (s : Sys) (st1 st2 : NState) (x : Message), h[m]? = some s ∧
        s.node 1 = some st1 ∧ s.node 2 = some st2 ∧
        -- the relabelled snapshot of node 1, whose storage records commit index 1
        x ∈ s.net ∧ x.msgType = .msgSnapshot ∧ x.frm = 1 ∧ x.snapshot.metadata.index = 2 ∧
        st1.raft.raftLog.store.hardState.commit = 1 ∧ st1.raft.raftLog.committed = 1 ∧
        -- node 2 has restored it
        st2.raft.raftLog.committed = 2 ∧
        st2.raft.raftLog.unstable.snapshot = some x.snapshot := by
  have hall := fun s hs => Snap.dx_chk_ok s (Snap.dx_chk_all s hs)
  refine ⟨Snap.dx_hist, Snap.dx_history, chained_at _ Snap.dx_ksteps,
    fun s hs => ⟨(hall s hs).1, (hall s hs).2.1⟩, ?_, fun s hs => (hall s hs).2.2,
    27, Snap.dx_s27, Snap.dx_a15, Snap.dx_b12, Snap.dx_snap, rfl, rfl, rfl,
    List.mem_append_right _ (c02x_head_mem _ (by decide)), by decide, by decide, by decide, by decide,
    by decide, by decide, by decide⟩
  intro s hs
  have h0 : Snap.dx_hist[0]? = some c02x_s0 := rfl
  rw [h0] at hs; cases hs
  exact c05x_initOk

end Examples

/-! # Part 2: compaction **and snapshots between nodes**

The statements above, re-proved for histories in which leaders send `MsgSnapshot`s and followers restore
and install them (`Snap2.Hyp3`, `RaftProofs/ClusterSnap2A … 2V.lean`; main induction `Snap2.sm_all`), plus
the snapshot-point statements `C01_cluster_snapshot_committed_prefix`,
`C01_cluster_snapshot_point_agreement`, `C01_cluster_pending_snapshot`.

## Hypotheses (`Snap2.Hyp3 cfg c0 h`)

As `Snap.Hyp3`, **without `nosnap` and `nopend`**, and with these contract clauses and gaps:
* `Snap2.KStep` (per step): `CompactOk`, the `commit_apply` contract, persist-before-send as before, and
  - `SnapSend` (**contract**): a `MsgSnapshot` a node queues carries the snapshot its storage holds
    (`snapshotCore`: at the recorded commit index, with the term of that index) — *not relabelled*: the
    storage answers `snapshot(request_index)` only when its snapshot index is `≥ request_index` (see
    `C01e_snapshot_request_index_counterexample`);
  - `compact k` only with `k ≤ hard_state.commit` (**contract**: compact only what has been applied and
    recorded; otherwise a crash leaves a snapshot point *at* the commit index with a forgotten term, and
    a snapshot at that index replaces the log and drops acknowledged entries);
  - `persist_snap` installs a pending snapshot only when term and vote are persisted (**contract**: the
    `HardState` is written as a whole);
  - atomic installation (**simplification**): while a snapshot is pending the only call is
    `persist_snap`, and no message is delivered to the node;
  - no-new-pending premises (**gap**, facts of the model not derived): a call that is not the delivery
    of a `MsgSnapshot`, and a restart, leave no snapshot pending; likewise `pend0` for the initial state;
* `noreq` (**gap**): `request_snapshot` is not used (`pendingRequestSnapshot = 0`);
* `snapidx`: a `MsgSnapshot` of the transport names an index above `c0` (for `c0 = 0` a fact of the
  model);
* unchanged: `History`, fixed voters, `InitOk`, `NoBatch`, `nolone`, `first0`, `initc`, `norir` (**gap**),
  `anch` (**gap**), `snapt0`.
-/
namespace Snapshots

/-- **C04 `cluster_leader_commit_rule`** (quorum part, under `Snap2.Hyp` alone), with compaction and
snapshots — whenever a step of a history takes the commit index of a node `l` that is leader of term `t` after the
step from `c` to `c' > c`, the entry at `c'` in its log carries term `t`, and there is a joint quorum
`Q` of `cfg` such that every `j ∈ Q` is `l` itself with `persisted ≥ c'`, or has an accepting
`MsgAppendResponse` for term `t` with `index ≥ c'` in the transport (already before the step). -/
theorem C04_cluster_leader_commit_rule_quorum (cfg : JointConfig) (h : List Sys) (H : Snap2.Hyp cfg h)
    (n : Nat) (a b : Sys) (ha : h[n]? = some a) (hb : h[n + 1]? = some b)
    (l : Nat) (sta stb : NState) (hla : a.node l = some sta) (hlb : b.node l = some stb)
    (t : Nat) (hs : stb.raft.state = .leader) (ht : stb.raft.term = t)
    (hc : sta.raft.raftLog.committed < stb.raft.raftLog.committed) :
    stb.raft.raftLog.term stb.raft.raftLog.committed = .ok t ∧
    ∃ Q, IsJointQuorum cfg Q ∧ ∀ j ∈ Q,
      (j = l ∧ stb.raft.raftLog.committed ≤ stb.raft.raftLog.persisted) ∨
      AckInNet a.net j t stb.raft.raftLog.committed := by
  obtain ⟨h1, Q, hQ, hq⟩ := H.commit_step n a b ha hb l sta stb hla hlb hs hc
  subst ht
  refine ⟨h1, Q, hQ, fun j hj => (hq j hj).imp (fun g => g) (fun g => ?_)⟩
  obtain ⟨x, hx, hack, h2, h3, h4⟩ := g
  exact ⟨x, hx, hack.1, hack.2, h2, h3, h4⟩

/-- **the ghost logs**: in every state of a history, the logical log and the stored log of every node
have uncompacted versions `FL` / `FS` (`Snap.Full`), which hold the same entries up to the node's
snapshot point unless a snapshot is pending (restored, not yet installed in the storage); any two
uncompacted versions of one log hold the same entries. -/
theorem C01e_ghost_log (cfg : JointConfig) (c0 : Nat) (h : List Sys) (H : Snap2.Hyp3 cfg c0 h)
    (m : Nat) (s : Sys) (hm : h[m]? = some s) (v : Nat) (st : NState) (hv : s.node v = some st) :
    Snap.Full (Snap.HistChain h) c0 st.raft.raftLog.abs (Snap.FL h c0 st) ∧
    Snap.Full (Snap.HistChain h) c0 (storeLog st.raft.raftLog.store) (Snap.FS h c0 st) ∧
    (st.raft.raftLog.unstable.snapshot = none → ∀ k, k ≤ st.raft.raftLog.abs.snapIdx →
      (Snap.FL h c0 st).entryAt k = (Snap.FS h c0 st).entryAt k) ∧
    (∀ g F F', Snap.Full (Snap.HistChain h) c0 g F → Snap.Full (Snap.HistChain h) c0 g F' →
      ∀ k, F.entryAt k = F'.entryAt k) := by
  have I := (Snap2.ghost_inv H.toHyp2w m s hm).node v st hv
  exact ⟨I.log, I.sto, I.pre, fun g F F' h1 h2 => h1.uniq (Snap2.hist_agree H.toHyp2w) h2⟩

/-- **C04 `cluster_leader_commit_rule`** with compaction and snapshots — the commit rule with **durable
acknowledgements**: whenever a step `h[n] → h[n+1]` takes the commit index of a node `l` that is leader
of term `t` after the step from `c` to `c' > c`, the entry at `c'` in its log carries term `t`, and
there is a joint quorum `Q` of `cfg` such that every `j ∈ Q` is

* `l` itself, with `persisted ≥ c'` — and its storage holds its log up to `c'`; or
* the sender of an accepting `MsgAppendResponse` `x` for term `t` with `index ≥ c'` that is in the
  transport before the step, **and in every state of the history whose transport holds `x` the
  storage of `j` reaches `c'` and holds `l`'s log up to `c'`** — the uncompacted versions are equal up
  to `c'`, hence so are the logs at every index both still retain. -/
theorem C04_cluster_leader_commit_rule (cfg : JointConfig) (c0 : Nat) (h : List Sys)
    (H : Snap2.Hyp3 cfg c0 h)
    (n : Nat) (a b : Sys) (ha : h[n]? = some a) (hb : h[n + 1]? = some b)
    (l : Nat) (sta stb : NState) (hla : a.node l = some sta) (hlb : b.node l = some stb)
    (t : Nat) (hs : stb.raft.state = .leader) (ht : stb.raft.term = t)
    (hc : sta.raft.raftLog.committed < stb.raft.raftLog.committed) :
    stb.raft.raftLog.term stb.raft.raftLog.committed = .ok t ∧
    ∃ Q, IsJointQuorum cfg Q ∧ ∀ j ∈ Q,
      (j = l ∧ stb.raft.raftLog.committed ≤ stb.raft.raftLog.persisted ∧
        ∀ k, k ≤ stb.raft.raftLog.committed →
          (storeLog stb.raft.raftLog.store).entryAt k = stb.raft.raftLog.abs.entryAt k) ∨
      ∃ x ∈ a.net, x.msgType = .msgAppendResponse ∧ x.reject = false ∧ x.frm = j ∧ x.term = t ∧
        stb.raft.raftLog.committed ≤ x.index ∧
        ∀ (m : Nat) (s : Sys) (stj : NState), h[m]? = some s → x ∈ s.net → s.node j = some stj →
          stb.raft.raftLog.committed ≤ (storeLog stj.raft.raftLog.store).lastIndex ∧
          (∀ k, k ≤ stb.raft.raftLog.committed →
            (Snap.FS h c0 stj).entryAt k = (Snap.FL h c0 stb).entryAt k) ∧
          ∀ k, k ≤ stb.raft.raftLog.committed →
            (storeLog stj.raft.raftLog.store).snapIdx < k → stb.raft.raftLog.abs.snapIdx < k →
            (storeLog stj.raft.raftLog.store).entryAt k = stb.raft.raftLog.abs.entryAt k := by
  have H2 := H.toHyp2w
  obtain ⟨h1, Q, hQ, hq⟩ := H2.toHyp.commit_step n a b ha hb l sta stb hla hlb hs hc
  subst ht
  have hE := ev_of_step ha hb hla hlb hs hc
  obtain ⟨_, hEh, hc0⟩ := Snap2.Ev.leaderLog H2 hE
  have ob := Snap2.node_ok H2 hb hlb
  have Ib := (Snap2.ghost_inv H2 (n + 1) b hb).node l stb hlb
  refine ⟨h1, Q, hQ, fun j hj => ?_⟩
  rcases hq j hj with ⟨g1, g2⟩ | ⟨x, hx, hack, hfrm, hterm, hidx⟩
  · exact .inl ⟨g1, g2, fun k hk => (ob.inv.abs_store_persisted
      (Snap2.commit_step_pend H2 ha hb hla hlb hs hc) (by omega)).symm⟩
  · right
    have hx0 : x.index ≠ 0 := by
      have : c0 < stb.raft.raftLog.committed := hc0
      omega
    have hterm' : x.term = stb.raft.term := by
      rcases hterm with d | d
      · exact d
      · exact absurd d ((Snap2.ack_inv H2 n a ha).2 x hx hack hx0).2
    refine ⟨x, hx, hack.1, hack.2, hfrm, hterm', hidx, fun m s stj hm hxs hj => ?_⟩
    have hh := (Snap2.sm_all H.toHyp3a hm).rets _ hE j stj hj (.inl ⟨x, hxs, hack, hfrm, hterm', hidx⟩)
    have Ij := (Snap2.ghost_inv H2 m s hm).node j stj hj
    obtain ⟨e1, he1, ht1⟩ := hh
    obtain ⟨e2, he2, ht2⟩ := hEh
    have heq := Snap2.full_eq_below H2 Ij.sto Ib.log he1 he2 (ht1.trans ht2.symm)
    refine ⟨?_, heq, fun k hk hk1 hk2 => ?_⟩
    · rw [← Ij.sto.last]; exact ((Snap.FS h c0 stj).entryAt_lt he1).2
    · rw [← Ij.sto.ents k hk1, ← Ib.log.ents k hk2]; exact heq k hk

/-- **C03 `cluster_leader_completeness`** with compaction and snapshots — every entry a leader has committed is in
the log of every leader of a later term: if a step `h[n] → h[n+1]` takes the commit index of `l`, leader
of term `t` after the step, to `c'`, then the log of any node that leads a term `t' > t` in any state
`h[m]` of the history reaches `c'` and holds, at every index up to `c'`, the entry `l` held there — in
the uncompacted versions, hence wherever both logs retain the index. -/
theorem C03_cluster_leader_completeness (cfg : JointConfig) (c0 : Nat) (h : List Sys)
    (H : Snap2.Hyp3 cfg c0 h)
    (n : Nat) (a b : Sys) (ha : h[n]? = some a) (hb : h[n + 1]? = some b)
    (l : Nat) (sta stb : NState) (hla : a.node l = some sta) (hlb : b.node l = some stb)
    (hs : stb.raft.state = .leader)
    (hc : sta.raft.raftLog.committed < stb.raft.raftLog.committed)
    (m : Nat) (s : Sys) (hm : h[m]? = some s) (l' : Nat) (st' : NState)
    (hl' : s.node l' = some st') (hs' : st'.raft.state = .leader)
    (ht : stb.raft.term < st'.raft.term) :
    stb.raft.raftLog.committed ≤ st'.raft.raftLog.abs.lastIndex ∧
    (∀ k, k ≤ stb.raft.raftLog.committed →
      (Snap.FL h c0 st').entryAt k = (Snap.FL h c0 stb).entryAt k) ∧
    ∀ k, k ≤ stb.raft.raftLog.committed →
      st'.raft.raftLog.abs.snapIdx < k → stb.raft.raftLog.abs.snapIdx < k →
      st'.raft.raftLog.abs.entryAt k = stb.raft.raftLog.abs.entryAt k := by
  have H2 := H.toHyp2w
  have hE := ev_of_step ha hb hla hlb hs hc
  obtain ⟨_, hEh, _⟩ := Snap2.Ev.leaderLog H2 hE
  have hh := (Snap2.sm_all H.toHyp3a hm).lc _ hE l' st' hl' hs' ht
  have I' := (Snap2.ghost_inv H2 m s hm).node l' st' hl'
  have Ib := (Snap2.ghost_inv H2 (n + 1) b hb).node l stb hlb
  obtain ⟨e1, he1, ht1⟩ := hh
  obtain ⟨e2, he2, ht2⟩ := hEh
  have heq := Snap2.full_eq_below H2 I'.log Ib.log he1 he2 (ht1.trans ht2.symm)
  refine ⟨?_, heq, fun k hk hk1 hk2 => ?_⟩
  · rw [← I'.log.last]; exact ((Snap.FL h c0 st').entryAt_lt he1).2
  · rw [← I'.log.ents k hk1, ← Ib.log.ents k hk2]; exact heq k hk

/-- **C04 `cluster_follower_commit_sound`** with compaction and snapshots — *every* commit index is sound: in every
state `h[m]`, what a node `v` has marked committed is at most the common initial snapshot point `c0`,
or it was committed by a leader: there is an earlier step `h[n] → h[n+1]` (`n < m`) that took the commit
index of a node `l`, leader of a term `t ≤ term(v)` after the step, to some `c' ≥ committed(v)`, and the
log of `v` equals the log `l` had then up to `committed(v)` — in the uncompacted versions, hence
wherever both retain the index. -/
theorem C04_cluster_follower_commit_sound (cfg : JointConfig) (c0 : Nat) (h : List Sys)
    (H : Snap2.Hyp3 cfg c0 h) (m : Nat) (s : Sys) (hm : h[m]? = some s) (v : Nat) (st : NState)
    (hv : s.node v = some st) :
    st.raft.raftLog.committed ≤ c0 ∨
    ∃ (n : Nat) (a b : Sys) (l : Nat) (sta stb : NState), n < m ∧ h[n]? = some a ∧
      h[n + 1]? = some b ∧ a.node l = some sta ∧ b.node l = some stb ∧
      stb.raft.state = .leader ∧ sta.raft.raftLog.committed < stb.raft.raftLog.committed ∧
      st.raft.raftLog.committed ≤ stb.raft.raftLog.committed ∧ stb.raft.term ≤ st.raft.term ∧
      (∀ k, k ≤ st.raft.raftLog.committed →
        (Snap.FL h c0 st).entryAt k = (Snap.FL h c0 stb).entryAt k) ∧
      ∀ k, k ≤ st.raft.raftLog.committed →
        st.raft.raftLog.abs.snapIdx < k → stb.raft.raftLog.abs.snapIdx < k →
        st.raft.raftLog.abs.entryAt k = stb.raft.raftLog.abs.entryAt k := by
  have H2 := H.toHyp2w
  rcases (Snap2.sm_all H.toHyp3a hm).nctm v st hv with c | ⟨E, hE, h2, h3, h4, h5⟩
  · exact .inl c
  · right
    obtain ⟨a, b, sta, stb, ha, hb, hla, hlb, hs, ht, e1, e2, hev, _, hc, _⟩ := Snap2.Ev.facts H2 hE
    have I := (Snap2.ghost_inv H2 m s hm).node v st hv
    have Ib := (Snap2.ghost_inv H2 (E.nE + 1) b hb).node E.l stb hlb
    have hg : ∀ k, k ≤ st.raft.raftLog.committed →
        (Snap.FL h c0 st).entryAt k = (Snap.FL h c0 stb).entryAt k := by
      intro k hk; rw [← hev]; exact h5 k hk
    exact ⟨E.nE, a, b, E.l, sta, stb, h2, ha, hb, hla, hlb, hs, by rw [← e1]; exact hc,
      by rw [← e1]; exact h3, by rw [ht]; exact h4, hg,
      fun k hk hk1 hk2 => by rw [← I.log.ents k hk1, ← Ib.log.ents k hk2]; exact hg k hk⟩

/-- … and so is every **stored** commit index (what a restarted node starts from): it is not ahead of
the commit index, and it is covered by a leader's commit of a term not above the stored term, with the
stored entries. -/
theorem C04_cluster_stored_commit_sound (cfg : JointConfig) (c0 : Nat) (h : List Sys)
    (H : Snap2.Hyp3 cfg c0 h) (m : Nat) (s : Sys) (hm : h[m]? = some s) (v : Nat) (st : NState)
    (hv : s.node v = some st) :
    st.raft.raftLog.store.hardState.commit ≤ st.raft.raftLog.committed ∧
    (st.raft.raftLog.store.hardState.commit ≤ c0 ∨
     ∃ (n : Nat) (a b : Sys) (l : Nat) (sta stb : NState), n < m ∧ h[n]? = some a ∧
      h[n + 1]? = some b ∧ a.node l = some sta ∧ b.node l = some stb ∧
      stb.raft.state = .leader ∧ sta.raft.raftLog.committed < stb.raft.raftLog.committed ∧
      st.raft.raftLog.store.hardState.commit ≤ stb.raft.raftLog.committed ∧
      stb.raft.term ≤ st.raft.raftLog.store.hardState.term ∧
      (∀ k, k ≤ st.raft.raftLog.store.hardState.commit →
        (Snap.FS h c0 st).entryAt k = (Snap.FL h c0 stb).entryAt k) ∧
      ∀ k, k ≤ st.raft.raftLog.store.hardState.commit →
        (storeLog st.raft.raftLog.store).snapIdx < k → stb.raft.raftLog.abs.snapIdx < k →
        (storeLog st.raft.raftLog.store).entryAt k = stb.raft.raftLog.abs.entryAt k) := by
  have H2 := H.toHyp2w
  refine ⟨(Snap2.sm_all H.toHyp3a hm).scm v st hv, ?_⟩
  rcases (Snap2.sm_all H.toHyp3a hm).ncts v st hv with c | ⟨E, hE, h2, h3, h4, h5⟩
  · exact .inl c
  · right
    obtain ⟨a, b, sta, stb, ha, hb, hla, hlb, hs, ht, e1, e2, hev, _, hc, _⟩ := Snap2.Ev.facts H2 hE
    have I := (Snap2.ghost_inv H2 m s hm).node v st hv
    have Ib := (Snap2.ghost_inv H2 (E.nE + 1) b hb).node E.l stb hlb
    have hg : ∀ k, k ≤ st.raft.raftLog.store.hardState.commit →
        (Snap.FS h c0 st).entryAt k = (Snap.FL h c0 stb).entryAt k := by
      intro k hk; rw [← hev]; exact h5 k hk
    exact ⟨E.nE, a, b, E.l, sta, stb, h2, ha, hb, hla, hlb, hs, by rw [← e1]; exact hc,
      by rw [← e1]; exact h3, by rw [ht]; exact h4, hg,
      fun k hk hk1 hk2 => by rw [← I.sto.ents k hk1, ← Ib.log.ents k hk2]; exact hg k hk⟩

/-- **C01 `cluster_state_machine_safety`, ghost form** — the uncompacted logs of any two nodes, in any
two states of the history (the same node before and after a restart or a compaction included), hold the
same entry at every index both have marked committed. -/
theorem C01_cluster_state_machine_safety_ghost (cfg : JointConfig) (c0 : Nat) (h : List Sys)
    (H : Snap2.Hyp3 cfg c0 h)
    (m1 : Nat) (s1 : Sys) (hm1 : h[m1]? = some s1) (v1 : Nat) (st1 : NState)
    (hv1 : s1.node v1 = some st1)
    (m2 : Nat) (s2 : Sys) (hm2 : h[m2]? = some s2) (v2 : Nat) (st2 : NState)
    (hv2 : s2.node v2 = some st2)
    (k : Nat) (hk1 : k ≤ st1.raft.raftLog.committed) (hk2 : k ≤ st2.raft.raftLog.committed) :
    (Snap.FL h c0 st1).entryAt k = (Snap.FL h c0 st2).entryAt k :=
  Snap2.sms_ghost H.toHyp3a hm1 hv1 hm2 hv2 hk1 hk2

/-- **C01 `cluster_state_machine_safety`** with compaction and snapshots — any two nodes, in any two
states of the history (the same node before and after a restart or a compaction included), hold the same entry at
every index both have marked committed **and both still retain** (`snapIdx < k`; a compacted log
answers `none` below its snapshot point). -/
theorem C01_cluster_state_machine_safety (cfg : JointConfig) (c0 : Nat) (h : List Sys)
    (H : Snap2.Hyp3 cfg c0 h)
    (m1 : Nat) (s1 : Sys) (hm1 : h[m1]? = some s1) (v1 : Nat) (st1 : NState)
    (hv1 : s1.node v1 = some st1)
    (m2 : Nat) (s2 : Sys) (hm2 : h[m2]? = some s2) (v2 : Nat) (st2 : NState)
    (hv2 : s2.node v2 = some st2)
    (k : Nat) (hk1 : k ≤ st1.raft.raftLog.committed) (hk2 : k ≤ st2.raft.raftLog.committed)
    (hr1 : st1.raft.raftLog.abs.snapIdx < k) (hr2 : st2.raft.raftLog.abs.snapIdx < k) :
    st1.raft.raftLog.abs.entryAt k = st2.raft.raftLog.abs.entryAt k := by
  have I1 := (Snap2.ghost_inv H.toHyp2w m1 s1 hm1).node v1 st1 hv1
  have I2 := (Snap2.ghost_inv H.toHyp2w m2 s2 hm2).node v2 st2 hv2
  rw [← I1.log.ents k hr1, ← I2.log.ents k hr2]
  exact Snap2.sms_ghost H.toHyp3a hm1 hv1 hm2 hv2 hk1 hk2

/-- … in particular for the **applied** entries of two nodes whose applied index is within their
commit index (`AppliedOk`, which holds outside the restart window — `raft_log.rs:44-46`). -/
theorem C01_cluster_state_machine_safety_applied (cfg : JointConfig) (c0 : Nat) (h : List Sys)
    (H : Snap2.Hyp3 cfg c0 h)
    (m1 : Nat) (s1 : Sys) (hm1 : h[m1]? = some s1) (v1 : Nat) (st1 : NState)
    (hv1 : s1.node v1 = some st1) (ha1 : st1.raft.raftLog.AppliedOk)
    (m2 : Nat) (s2 : Sys) (hm2 : h[m2]? = some s2) (v2 : Nat) (st2 : NState)
    (hv2 : s2.node v2 = some st2) (ha2 : st2.raft.raftLog.AppliedOk)
    (k : Nat) (hk1 : k ≤ st1.raft.raftLog.applied) (hk2 : k ≤ st2.raft.raftLog.applied)
    (hr1 : st1.raft.raftLog.abs.snapIdx < k) (hr2 : st2.raft.raftLog.abs.snapIdx < k) :
    st1.raft.raftLog.abs.entryAt k = st2.raft.raftLog.abs.entryAt k :=
  C01_cluster_state_machine_safety cfg c0 h H m1 s1 hm1 v1 st1 hv1 m2 s2 hm2 v2 st2 hv2 k
    (Nat.le_trans hk1 ha1) (Nat.le_trans hk2 ha2) hr1 hr2

/-- **a compacted prefix is a committed prefix** (`C15`-style, for compaction points): in every state,
the snapshot point of every node — of its logical log and of its storage, which coincide unless a
snapshot is pending — is not below the common initial snapshot point `c0` and not above the node's
commit index; and every other
node, in any state, whose commit index reaches an index `k` up to that snapshot point holds, in its
uncompacted log, exactly the entry the compacting node's uncompacted log holds at `k`. -/
theorem C01_cluster_compacted_prefix_committed (cfg : JointConfig) (c0 : Nat) (h : List Sys)
    (H : Snap2.Hyp3 cfg c0 h)
    (m1 : Nat) (s1 : Sys) (hm1 : h[m1]? = some s1) (v1 : Nat) (st1 : NState)
    (hv1 : s1.node v1 = some st1) :
    c0 ≤ st1.raft.raftLog.abs.snapIdx ∧
    (st1.raft.raftLog.unstable.snapshot = none →
      (storeLog st1.raft.raftLog.store).snapIdx = st1.raft.raftLog.abs.snapIdx) ∧
    st1.raft.raftLog.abs.snapIdx ≤ st1.raft.raftLog.committed ∧
    ∀ (m2 : Nat) (s2 : Sys) (v2 : Nat) (st2 : NState), h[m2]? = some s2 → s2.node v2 = some st2 →
      ∀ k, k ≤ st1.raft.raftLog.abs.snapIdx → k ≤ st2.raft.raftLog.committed →
        (Snap.FL h c0 st1).entryAt k = (Snap.FL h c0 st2).entryAt k := by
  have H2 := H.toHyp2w
  have o := Snap2.node_ok H2 hm1 hv1
  refine ⟨Snap2.c0_le_snap H2 hm1 hv1, o.sidx, o.snap_le, fun m2 s2 v2 st2 hm2 hv2 k hk1 hk2 => ?_⟩
  exact Snap2.sms_ghost H.toHyp3a hm1 hv1 hm2 hv2 (Nat.le_trans hk1 o.snap_le) hk2

/-- **a released snapshot is a committed prefix**: every `MsgSnapshot` `x` in the transport of a state
`h[m]` names an index `i > c0` and a term `t` such that there is an earlier step `h[n] → h[n+1]`
(`n < m`) that took the commit index of a node `l`, leader of a term `≤ x.term` after the step, to some
`c' ≥ i`, and the uncompacted log of `l` after that step holds an entry of term `t` at `i` — in its real
log, if that still retains `i`. -/
theorem C01_cluster_snapshot_committed_prefix (cfg : JointConfig) (c0 : Nat) (h : List Sys)
    (H : Snap2.Hyp3 cfg c0 h) (m : Nat) (s : Sys) (hm : h[m]? = some s) (x : Message)
    (hx : x ∈ s.net) (hty : x.msgType = .msgSnapshot) :
    c0 < x.snapshot.metadata.index ∧
    ∃ (n : Nat) (a b : Sys) (l : Nat) (sta stb : NState), n < m ∧ h[n]? = some a ∧
      h[n + 1]? = some b ∧ a.node l = some sta ∧ b.node l = some stb ∧
      stb.raft.state = .leader ∧ sta.raft.raftLog.committed < stb.raft.raftLog.committed ∧
      x.snapshot.metadata.index ≤ stb.raft.raftLog.committed ∧ stb.raft.term ≤ x.term ∧
      Has (Snap.FL h c0 stb) x.snapshot.metadata.index x.snapshot.metadata.term ∧
      (stb.raft.raftLog.abs.snapIdx < x.snapshot.metadata.index →
        Has stb.raft.raftLog.abs x.snapshot.metadata.index x.snapshot.metadata.term) := by
  have H2 := H.toHyp2w
  obtain ⟨hi, E, hE, h2, h3, h4, hh⟩ := Snap2.snap_msg_committed H.toHyp3a hm hx hty
  obtain ⟨a, b, sta, stb, ha, hb, hla, hlb, hs, ht, e1, e2, hev, _, hc, _⟩ := Snap2.Ev.facts H2 hE
  rw [hev] at hh
  exact ⟨hi, E.nE, a, b, E.l, sta, stb, h2, ha, hb, hla, hlb, hs, by rw [← e1]; exact hc,
    by rw [← e1]; exact h3, by rw [ht]; exact h4, hh, (Snap2.has_real H2 hb hlb hh).1⟩

/-- **snapshot-point term agreement**: if the log of a node `v1` (in any state) starts at a snapshot
point `i > c0` whose term `t` it knows — after it restored a snapshot (pending or installed), or after
a restart —, then `i` is within `v1`'s commit index, and every node `v2`, in any state, whose commit
index reaches `i` holds an entry of term `t` at `i` in its uncompacted log: in its real log if that
retains `i`, and as the term of its own snapshot point if that is `i` and it knows the term.  (With
`C01_cluster_state_machine_safety_ghost`: the prefix a snapshot stands for is the committed prefix of
every node.) -/
theorem C01_cluster_snapshot_point_agreement (cfg : JointConfig) (c0 : Nat) (h : List Sys)
    (H : Snap2.Hyp3 cfg c0 h)
    (m1 : Nat) (s1 : Sys) (hm1 : h[m1]? = some s1) (v1 : Nat) (st1 : NState)
    (hv1 : s1.node v1 = some st1) (t : Nat) (ht : st1.raft.raftLog.abs.snapTerm = some t)
    (hi : c0 < st1.raft.raftLog.abs.snapIdx) :
    st1.raft.raftLog.abs.snapIdx ≤ st1.raft.raftLog.committed ∧
    ∀ (m2 : Nat) (s2 : Sys) (v2 : Nat) (st2 : NState), h[m2]? = some s2 → s2.node v2 = some st2 →
      st1.raft.raftLog.abs.snapIdx ≤ st2.raft.raftLog.committed →
      Has (Snap.FL h c0 st2) st1.raft.raftLog.abs.snapIdx t ∧
      (st2.raft.raftLog.abs.snapIdx < st1.raft.raftLog.abs.snapIdx →
        Has st2.raft.raftLog.abs st1.raft.raftLog.abs.snapIdx t) ∧
      (st2.raft.raftLog.abs.snapIdx = st1.raft.raftLog.abs.snapIdx →
        ∀ t', st2.raft.raftLog.abs.snapTerm = some t' → t' = t) := by
  have H2 := H.toHyp2w
  refine ⟨(Snap2.node_ok H2 hm1 hv1).snap_le, fun m2 s2 v2 st2 hm2 hv2 hk => ?_⟩
  have hh := Snap2.snap_point_agree H.toHyp3a hm1 hv1 ht hi hm2 hv2 hk
  obtain ⟨r1, r2⟩ := Snap2.has_real H2 hm2 hv2 hh
  exact ⟨hh, r1, fun heq => r2 heq hi⟩

/-- **a restored snapshot never drops a committed entry, and installs a committed prefix**: in every
state, a node with a pending snapshot `sn` (restored from a `MsgSnapshot`, not yet installed in its
storage) has commit index `sn.index > c0`, an empty unstable log, and nothing persisted beyond
`sn.index`; and its stored commit index never exceeds its commit index. -/
theorem C01_cluster_pending_snapshot (cfg : JointConfig) (c0 : Nat) (h : List Sys)
    (H : Snap2.Hyp3 cfg c0 h) (m : Nat) (s : Sys) (hm : h[m]? = some s) (v : Nat) (st : NState)
    (hv : s.node v = some st) (sn : Snapshot) (hp : st.raft.raftLog.unstable.snapshot = some sn) :
    st.raft.raftLog.unstable.entries = [] ∧ st.raft.raftLog.committed = sn.metadata.index ∧
    c0 < sn.metadata.index ∧ st.raft.raftLog.persisted ≤ sn.metadata.index ∧
    st.raft.raftLog.store.hardState.commit ≤ st.raft.raftLog.committed :=
  have hk := Snap2.pend_ok H.toHyp3a m s hm v st sn hv hp
  ⟨hk.1, hk.2.1, hk.2.2.1, hk.2.2.2, (Snap2.sm_all H.toHyp3a hm).scm v st hv⟩

/-- the hypotheses of C01c (no compaction, no snapshots) imply the hypotheses of this part for the
histories in which no node queues a `MsgSnapshot` and `request_snapshot` is not used.  (The hypotheses
of part 1 do not: part 2 asks `compact k` to stay within the *recorded* commit index.) -/
theorem C01e_snapshots_subsume_C01c (cfg : JointConfig) (c0 : Nat) (h : List Sys)
    (H : Cluster.Hyp3 cfg c0 h)
    (hq : ∀ s ∈ h, ∀ i st, s.node i = some st → ∀ x ∈ st.raft.msgs, x.msgType ≠ .msgSnapshot)
    (hr : ∀ s ∈ h, Snap2.NoReq s) : Snap2.Hyp3 cfg c0 h := Snap2.Hyp3.of_old H hq hr

section Examples
open RaftProps.C02 RaftProps.C05

set_option maxRecDepth 100000 in
/-- **non-vacuity, with a real snapshot** (kernel-evaluated, `RaftProofs/ClusterSnap2V.lean`): there is a
history of `ClusterSem` that satisfies every hypothesis of the theorems of this part (`Snap2.Hyp3`, voters
`{1, 2, 3}`, `c0 = 0`) in which node 1 — leader of term 1, commit index 2, log compacted up to index 2 —
has sent a `MsgSnapshot` (index 2, term 1) to node 3, whose log holds entry 1 only (commit index 0); node 3
is delivered the message and **restores the snapshot** (the snapshot is pending, the commit index is 2,
entry 1 is gone), and then **installs it** in its storage (`persist_snap`: snapshot metadata (2, 1),
recorded commit index 2, nothing pending). -/
theorem C01e_cluster_snapshot_nonvacuous :
    ∃ h : List Sys, Snap2.Hyp3 c02x_cfg 0 h ∧
      ∃ (n : Nat) (a b c : Sys) (x : Message) (sta stb stc : NState) (e : Entry) (r1 r2 : OpRes),
        h[n]? = some a ∧ h[n + 1]? = some b ∧ h[n + 2]? = some c ∧
        x ∈ a.net ∧ x.msgType = .msgSnapshot ∧ x.frm = 1 ∧ x.to = 3 ∧
        x.snapshot.metadata.index = 2 ∧ x.snapshot.metadata.term = 1 ∧
        a.node 3 = some sta ∧ b.node 3 = some stb ∧ c.node 3 = some stc ∧
        Node.call sta none (.step x) = .ok (r1, stb) ∧
        Node.call stb none .persistSnap = .ok (r2, stc) ∧
        sta.raft.raftLog.abs.entryAt 1 = some e ∧ sta.raft.raftLog.committed = 0 ∧
        stb.raft.raftLog.unstable.snapshot = some x.snapshot ∧ stb.raft.raftLog.committed = 2 ∧
        stb.raft.raftLog.abs.entryAt 1 = none ∧
        stc.raft.raftLog.unstable.snapshot = none ∧
        stc.raft.raftLog.store.snapshotMetadata.index = 2 ∧
        stc.raft.raftLog.store.snapshotMetadata.term = 1 ∧
        stc.raft.raftLog.store.hardState.commit = 2 := by
  refine ⟨Snap2.sx_hist, Snap2.sx_hyp3, 30, Snap2.sx_t8, Snap2.sx_t9, Snap2.sx_t10, Snap2.sx_snap,
    Snap2.sx_c3, Snap2.sx_c4, Snap2.sx_c5, c05x_app.entries.head!, _, _, rfl, rfl, rfl,
    List.mem_append_right _ (c02x_head_mem _ (by decide)), by decide, by decide, by decide, by decide,
    by decide, rfl, rfl, rfl, c02x_out _ (by decide), c02x_out _ (by decide), by decide, by decide,
    by decide, by decide, by decide, by decide, by decide, by decide, by decide⟩

/-- … and the theorems apply to it: whoever has marked index 2 committed holds an entry of term 1
there (in its uncompacted log), as the snapshot says -/
example (m2 : Nat) (s2 : Sys) (v2 : Nat) (st2 : NState) (hm2 : Snap2.sx_hist[m2]? = some s2)
    (hv2 : s2.node v2 = some st2) (hk : 2 ≤ st2.raft.raftLog.committed) :
    Has (Snap.FL Snap2.sx_hist 0 st2) 2 1 :=
  ((C01_cluster_snapshot_point_agreement c02x_cfg 0 Snap2.sx_hist Snap2.sx_hyp3 31 Snap2.sx_t9 rfl 3
    Snap2.sx_c4 rfl 1 (by decide) (by decide)).2 m2 s2 v2 st2 hm2 hv2 hk).1

end Examples

end Snapshots

end RaftProps.C01e
