import re
s=open('RaftProofs/ClusterConf2B.lean').read()
body=s[s.index('namespace Ap\n')+len('namespace Ap\n'):s.index('\nend Ap')]
body=re.sub(r'\bAP\b','SC',body)
body=re.sub(r'_ap\b','_sc',body)
body=body.replace("ap_auto","sc_auto").replace("P : Nat → Prop","P : ConfState → Prop")
body=body.replace('_applied','_stcs').replace('.applied','.store.confState')
# base lemmas
body=body.replace('c09_append_stcs ha','congrArg MemStorage.confState (C06.append_store ha)')
body=body.replace('c09_maybeCommit_stcs hm','congrArg MemStorage.confState (CV.maybeCommit_store hm)')
body=body.replace('c09_commitTo_stcs hc','congrArg MemStorage.confState (C06.commitTo_store hc)')
body=body.replace('c09_commitTo_stcs hl2','congrArg MemStorage.confState (C06.commitTo_store hl2)')
blocks=body.split('\n\n')
def name(b):
    m=re.search(r'^theorem (\S+)',b,re.M)
    return m.group(1) if m else None
out=[]
for b in blocks:
    n=name(b)
    if n in ('appendConflict_stcs',): continue
    if n=='maybeAppend_stcs':
        out.append('''theorem maybeAppend_stcs {l l' : RaftLog} {idx term c : Nat} {ents : List Entry}
    {res : Option (Nat × Nat)} (h : l.maybeAppend idx term c ents = .ok (l', res)) :
    l'.store.confState = l.store.confState :=
  congrArg MemStorage.confState (CV.maybeAppend_store h)''')
        continue
    if n=='prepareSendSnapshot_sc':
        b=re.sub(r"have hs : ∀ i, \(r\.raftLog\.snapshot i\)\.1\.store\.confState = r\.raftLog\.store\.confState := by\n(.*?)\n  split at h\n",
          '''have hs : ∀ i, (r.raftLog.snapshot i).1.store.confState = r.raftLog.store.confState := by
    intro i
    have key : ({ r.raftLog with store := (r.raftLog.store.snapshot i).1 } : RaftLog).store.confState =
        r.raftLog.store.confState := by
      rcases (RaftProps.C20.storeSnapshot_spec r.raftLog.store i).1 with h1 | h1
      · show (r.raftLog.store.snapshot i).1.confState = _; rw [h1]
      · show (r.raftLog.store.snapshot i).1.confState = _; rw [h1]
    unfold RaftLog.snapshot
    split
    · split
      · rfl
      · exact key
    · exact key
  split at h
''',b,flags=re.S)
    if n=='restore_stcs':
        b=re.sub(r"have hc1 : log\.store\.confState = r\.raftLog\.store\.confState := by\n.*?· cases hl; rfl\n",
          "have hc1 : log.store.confState = r.raftLog.store.confState :=\n              congrArg MemStorage.confState (C06.restore_store hl)\n",b,flags=re.S)
    out.append(b)
body='\n\n'.join(out)
hdr='''import RaftProofs.ClusterConf2B
import RaftProofs.ClusterVoteA
import RaftProofs.RawNodeC06
import RaftProps.C20b

/-!
C09 at the cluster level, second series, part D: **the stored `ConfState` (`raft_log.store.confState`)
is untouched by every function of `src/raft.rs` that `Raft::step` and `Raft::tick` reach**.  Scripted
copy of `RaftProofs/ClusterConf2B.lean` (itself a copy of the commit-index frame of
`RaftProofs/RaftNodeC04.lean`) with `applied` replaced by `store.confState`: `SC P r` is
`P r.raftLog.store.confState`; the base facts are the `…_store` lemmas of `RawNodeC06` / `ClusterVoteA`
(the `RaftLog` operations never touch the storage) and `C20.storeSnapshot_spec`.
-/
namespace RaftModel
namespace Raft
namespace Sc

'''
open('RaftProofs/ClusterConf2D.lean','w').write(hdr+body+'\n\nend Sc\nend Raft\nend RaftModel\n')
