import re
src=open('RaftProofs/RaftNodeC04.lean').read().split('\n')
body='\n'.join(src[155:950])
body=body.replace('CP (fun x => c ≤ x)','AP P').replace('{c : Nat}','{P : Nat → Prop}')
body=re.sub(r'\bCP\b','AP',body)
body=re.sub(r'_cle\b','_ap',body)
body=re.sub(r'_cp\b','_ap',body)
body=body.replace('c04_auto','ap_auto')
body=body.replace('.committed','.applied').replace('_committed','_applied')
blocks=body.split('\n\n')
def name(b):
    m=re.search(r'^theorem (\S+)',b,re.M)
    return m.group(1) if m else None
repl={}
drop={'AP.mkLog','AP.le_of_le','maybeCommit_spec','appendEntry_spec','maybeCommitByVote_spec','handleAppendEntries_spec','handleHeartbeat_spec','restore_spec'}
repl['maybeCommit_ap']='''theorem maybeCommit_ap {P : Nat → Prop} {r r' : Raft} {b : Bool} (h : r.maybeCommit = .ok (r', b))
    (h0 : AP P r) : AP P r' := by
  obtain ⟨mci, gc, _, h1 | h1⟩ := Raft.maybeCommit_spec h
  · obtain ⟨_, _, _, _, rfl⟩ := h1
    exact ⟨h0.h⟩
  · obtain ⟨_, rfl⟩ := h1; exact h0'''
repl['appendEntry_ap']='''theorem appendEntry_applied {r r' : Raft} {es : List Entry} {b : Bool}
    (h : r.appendEntry es = .ok (r', b)) : r'.raftLog.applied = r.raftLog.applied := by
  unfold Raft.appendEntry at h
  split at h
  · cases h; rfl
  · rename_i r1 hm
    have e1 : r1 = { r with uncommittedState := r1.uncommittedState } := by
      unfold Raft.maybeIncreaseUncommittedSize at hm
      split at hm
      cases hm; rfl
    simp only at h
    split at h
    · rename_i log n ha
      cases h
      have := c09_append_applied ha
      rw [e1] at this ⊢
      exact this
    · cases h
    · cases h

theorem appendEntry_ap {P : Nat → Prop} {r r' : Raft} {es : List Entry} {b : Bool}
    (h : r.appendEntry es = .ok (r', b)) (h0 : AP P r) : AP P r' :=
  AP.of_eq (appendEntry_applied h) h0'''
repl['maybeCommitByVote_ap']='''theorem maybeCommitByVote_applied {r r' : Raft} {m : Message}
    (h : r.maybeCommitByVote m = .ok r') : r'.raftLog.applied = r.raftLog.applied := by
  unfold Raft.maybeCommitByVote at h
  split at h
  · cases h; rfl
  · simp only at h
    split at h
    · cases h; rfl
    · split at h
      · cases h
      · cases h
      · cases h; rfl
      · rename_i log hm
        have ha : log.applied = r.raftLog.applied := c09_maybeCommit_applied hm
        split at h
        · cases h; exact ha
        · split at h
          · cases h
          · cases h
          · cases h
            exact (becomeFollower_applied _ _ _).trans ha
          · cases h; exact ha

theorem maybeCommitByVote_ap {P : Nat → Prop} {r r' : Raft} {m : Message}
    (h : r.maybeCommitByVote m = .ok r') (h0 : AP P r) : AP P r' :=
  AP.of_eq (maybeCommitByVote_applied h) h0'''
repl['handleAppendEntries_ap']='''theorem appendConflict_applied {l l' : RaftLog} {idx ci : Nat} {es : List Entry}
    (h : l.appendConflict idx ci es = .ok l') : l'.applied = l.applied := by
  unfold RaftLog.appendConflict at h
  split at h
  · cases h
  · split at h
    · cases h
    · split at h
      · rename_i l1 n1 ha
        have := c09_append_applied ha
        cases h
        split
        · exact this
        · exact this
      · cases h
      · cases h

theorem maybeAppend_applied {l l' : RaftLog} {idx term c : Nat} {ents : List Entry}
    {res : Option (Nat × Nat)} (h : l.maybeAppend idx term c ents = .ok (l', res)) :
    l'.applied = l.applied := by
  unfold RaftLog.maybeAppend at h
  split at h
  · cases h; rfl
  · split at h
    · rename_i ci hfc
      simp only at h
      generalize hl1 : (if ci = 0 then Res.ok l
        else if ci ≤ l.committed then Res.panic "raft_log.maybe_append.conflict_committed"
        else l.appendConflict idx ci ents) = x1 at h
      cases x1 with
      | err e => cases h
      | panic s => cases h
      | ok l1 =>
        simp only at h
        have hc1 : l1.applied = l.applied := by
          split at hl1
          · cases hl1; rfl
          · split at hl1
            · cases hl1
            · exact appendConflict_applied hl1
        split at h
        · rename_i l2 hl2
          cases h
          rw [c09_commitTo_applied hl2, hc1]
        · cases h
        · cases h
    · cases h
    · cases h
  · cases h
  · cases h

theorem handleAppendEntries_applied {r r' : Raft} {m : Message}
    (h : r.handleAppendEntries m = .ok r') : r'.raftLog.applied = r.raftLog.applied := by
  unfold Raft.handleAppendEntries at h
  split at h
  · exact (sendRequestSnapshot_ap (P := fun x => x = r.raftLog.applied) h ⟨rfl⟩).h
  · split at h
    · exact (send_ap (P := fun x => x = r.raftLog.applied) h ⟨rfl⟩).h
    · split at h
      · cases h
      · cases h
      · rename_i log ci last hm
        exact (send_ap (P := fun x => x = r.raftLog.applied) h ⟨maybeAppend_applied hm⟩).h
      · rename_i log hm
        have e0 : log.applied = r.raftLog.applied := maybeAppend_applied hm
        simp only at h
        split at h
        · cases h
        · cases h
        · cases h
        · first
          | exact (send_ap (P := fun x => x = r.raftLog.applied) h ⟨e0⟩).h
          | exact (send_ap (P := fun x => x = r.raftLog.applied) h ⟨rfl⟩).h

theorem handleAppendEntries_ap {P : Nat → Prop} {r r' : Raft} {m : Message}
    (h : r.handleAppendEntries m = .ok r') (h0 : AP P r) : AP P r' :=
  AP.of_eq (handleAppendEntries_applied h) h0'''
repl['handleHeartbeat_ap']='''theorem handleHeartbeat_applied {r r' : Raft} {m : Message} (h : r.handleHeartbeat m = .ok r') :
    r'.raftLog.applied = r.raftLog.applied := by
  unfold Raft.handleHeartbeat at h
  split at h
  · cases h
  · cases h
  · rename_i log hc
    simp only at h
    have e1 : r'.raftLog.applied = log.applied := by
      split at h
      · exact (sendRequestSnapshot_ap (P := fun x => x = log.applied) h ⟨rfl⟩).h
      · exact (send_ap (P := fun x => x = log.applied) h ⟨rfl⟩).h
    rw [e1]; exact c09_commitTo_applied hc

theorem handleHeartbeat_ap {P : Nat → Prop} {r r' : Raft} {m : Message}
    (h : r.handleHeartbeat m = .ok r') (h0 : AP P r) : AP P r' :=
  AP.of_eq (handleHeartbeat_applied h) h0'''
repl['restore_ap']='''theorem restore_applied {r r' : Raft} {snap : Snapshot} {b : Bool}
    (h : r.restore snap = .ok (r', b)) : r'.raftLog.applied = r.raftLog.applied := by
  unfold Raft.restore at h
  simp only at h
  split at h
  · cases h; rfl
  · split at h
    · split at h
      · cases h
      · cases h; exact becomeFollower_applied _ _ _
    · rename_i hst
      have hf : r.state = .follower := by
        apply Classical.byContradiction; intro hc; exact hst hc
      split at h
      · cases h; rfl
      · split at h
        · cases h
        · cases h
        · split at h
          · rename_i log hc
            cases h
            exact c09_commitTo_applied hc
          · cases h
          · cases h
        · split at h
          · cases h
          · cases h
          · rename_i log hl
            have hc1 : log.applied = r.raftLog.applied := by
              unfold RaftLog.restore at hl
              split at hl
              · cases hl
              · cases hl; rfl
            split at h
            · cases h
            · rename_i prs hprs
              obtain ⟨⟨r1, cs1⟩, hpc, h⟩ := Res.bind_eq_ok h
              have e1 : r1.raftLog.applied = log.applied :=
                (postConfChange_nonleader_ap (P := fun x => x = log.applied)
                  (by show r.state ≠ .leader; rw [hf]; simp) hpc ⟨rfl⟩).h
              simp only at h
              split at h
              · cases h
              · split at h
                · cases h
                · split at h
                  · cases h
                  · obtain ⟨⟨pr1, b1⟩, _, h⟩ := Res.bind_eq_ok h
                    cases h
                    show r1.raftLog.applied = _
                    rw [e1, hc1]

theorem restore_ap {P : Nat → Prop} {r r' : Raft} {snap : Snapshot} {b : Bool}
    (h : r.restore snap = .ok (r', b)) (h0 : AP P r) : AP P r' :=
  AP.of_eq (restore_applied h) h0'''
out=[]
for b in blocks:
    n=name(b)
    if n in drop: continue
    if n in repl: out.append(repl[n]); continue
    if n=='stepFollower_ap':
        b=b.replace("exact ⟨Nat.le_trans h0.h (RaftLog.c04_maybeCommit_le hm)⟩","exact AP.of_eq (r := r) (c09_maybeCommit_applied hm) h0")
    out.append(b)
body='\n\n'.join(out)
hdr='''import RaftProofs.RaftNodeC04
import RaftProofs.RaftNodeC09

/-!
C09 at the cluster level, second series, part B: **the apply cursor `raft_log.applied` is untouched by
every function of `src/raft.rs` that `Raft::step` and `Raft::tick` reach** (its only writers are
`commit_apply` and `Raft::new`).  Scripted copy of the commit-index frame of
`RaftProofs/RaftNodeC04.lean` (`CP P r` = `P r.raftLog.committed`, lines 156–950) with `committed`
replaced by `applied`: `AP P r` is `P r.raftLog.applied`, and EVERY function satisfies the anchored
rule `f r = .ok r' → AP P r → AP P r'` for every `P` (for the commit index only the upward closed `P`
survive the committing functions; the apply cursor is never moved).  The `…_spec` lemmas of the
original (where the commit index goes) become `…_applied` (the cursor stays).
-/
namespace RaftModel
namespace Raft
namespace Ap

'''
open('RaftProofs/ClusterConf2B.lean','w').write(hdr+body+'\n\nend Ap\nend Raft\nend RaftModel\n')
