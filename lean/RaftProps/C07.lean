import RaftProofs.RawNode

/-!
# C07 — Ready contract: exact, ordered, persisted-only hand-off of entries

Property theorems only (helper lemmas: `RaftProofs/RawNode.lean`).  The model
`RaftModel.RawNodeM` mirrors the Ready layer of `src/raw_node.rs` function by function over the
`RaftLog` model of C14; what `Raft` does underneath is an explicit input (`Effect`, `EnvEffect`),
see the header of `RaftModel/RawNode.lean`.

Proved at full strength, for every state / every input: `C07_must_sync_iff`, `C07_hs_latest`,
`C07_hs_once`, `C07_snapshot_ready_no_entries`, `C07_entries_are_unstable_suffix`,
`C07_entries_once` (with: `commit_ready` after `ready` never panics), `C07_has_ready_iff`,
`C07_records_ordered_ready` / `C07_on_persist_ready_pops` (the two calls that change the queue),
`C07_handout_step` / `C07_handout_persisted` (one hand-out: contiguous, numbered from
`commit_since_index+1`, exactly the entries of the logical log, below `committed` and
`persisted + limit`; uses `RaftLog.Inv.slicePrefix`, proved here for C14's open `slice` statement
in the form needed).
Not proved as inductions over `ContractTrace` (kept visible as `…_full_statement`): the
trace-level `handout_exact` with the ghost `handed` list, `records_ordered`, and `no_panic`.
-/
namespace RaftProps.C07
open RaftModel RaftModel.RawNodeM

/-! ### must_sync, hard state -/

/-- **must_sync_iff.**  `must_sync` is set exactly when the Ready carries entries, a snapshot, or a
term / vote change with respect to the last hard state handed out. -/
theorem C07_must_sync_iff (n n' : RawNodeM) (rd : Ready) (h : n.ready = .ok (n', rd)) :
    rd.mustSync = true ↔
      (rd.entries ≠ [] ∨ rd.snapshot.isSome = true ∨ n.term ≠ n.prevHs.term ∨
        n.vote ≠ n.prevHs.vote) := by
  obtain ⟨_, _, _, light, _, _, _, _, hrd⟩ := ready_ok h
  subst hrd
  exact readyRd_mustSync n light

/-- **hs_latest.**  The hard state of a Ready is present exactly when (term, vote, commit) differs
from the last one handed out, and it is the *current* (term, vote, commit). -/
theorem C07_hs_latest (n n' : RawNodeM) (rd : Ready) (h : n.ready = .ok (n', rd)) :
    (n.hardState ≠ n.prevHs → rd.hs = some { term := n.term, vote := n.vote,
                                               commit := n.log.committed }) ∧
    (n.hardState = n.prevHs → rd.hs = none) := by
  obtain ⟨_, _, _, light, _, _, _, _, hrd⟩ := ready_ok h
  subst hrd
  exact ⟨fun hne => readyRd_hs_changed n light hne, fun he => readyRd_hs_same n light he⟩

/-- **hs_once.**  After `ready`, the storage write and `advance_append_async` (= `commit_ready`),
the recorded previous hard / soft state is the current one: the next Ready carries a hard state
only if term, vote or commit changed again.  In particular `commit_ready` does not panic. -/
theorem C07_hs_once (n n1 n2 : RawNodeM) (rd : Ready) (h : n.ready = .ok (n1, rd))
    (hw : n1.storageWrite rd = .ok n2) :
    ∃ n3, n2.advanceAppendAsync rd = .ok n3 ∧ n3.prevHs = n3.hardState ∧
      n3.prevSs = n3.softState ∧ n3.hardState = n.hardState := by
  obtain ⟨hlog, ht, hv, hr, hl, hphs, hpss, _, hnum, hrec, _, _, _⟩ := ready_state h
  obtain ⟨_, _, _, light, _, _, _, _, hrd⟩ := ready_ok h
  obtain ⟨st, hn2⟩ := storageWrite_ok hw
  have hspec := commitReady_spec n2 rd n.readyRecord (by rw [hn2]; exact hrec)
    (by rw [hnum]; rfl) (by rw [hn2]; simp only [readyRecord, hlog])
    (by rw [hn2]; simp only [readyRecord, hlog])
  obtain ⟨l2, hc, _, _, _, hcm, _, _, _, _⟩ := hspec
  refine ⟨_, hc, ?_, ?_, ?_⟩
  · subst hrd hn2
    show (n.readyRd light).hs.getD n1.prevHs = { term := n1.term, vote := n1.vote, commit := l2.committed }
    rw [hphs, readyRd_hs_getD, hcm, ht, hv]
    simp only [hardState, hlog]
  · subst hrd hn2
    show (n.readyRd light).ss.getD n1.prevSs = { leaderId := n1.leaderId, role := n1.role }
    rw [hpss, readyRd_ss_getD, hr, hl]
    rfl
  · subst hn2
    simp only [hardState, hcm, hlog, ht, hv]

/-! ### snapshot Ready, entries -/

/-- **snapshot_ready_no_entries.**  A Ready that carries a snapshot hands out no committed entries,
and the hand-out restarts right after the snapshot index. -/
theorem C07_snapshot_ready_no_entries (n n' : RawNodeM) (rd : Ready) (sn : Snapshot)
    (h : n.ready = .ok (n', rd)) (hs : rd.snapshot = some sn) :
    rd.committedEntries = [] ∧ n'.commitSinceIndex = sn.metadata.index ∧
      n.commitSinceIndex ≤ sn.metadata.index := by
  obtain ⟨recs, csi, n2, light, _, hsnap, hg, hn', hrd⟩ := ready_ok h
  subst hrd
  simp only [readyRd] at hs
  unfold readySnapshot at hsnap
  simp only [hs] at hsnap
  by_cases hlt : sn.metadata.index < n.commitSinceIndex
  · simp only [hlt, if_true] at hsnap; cases hsnap
  · simp only [hlt, if_false] at hsnap
    cases hh : n.log.hasNextEntriesSince sn.metadata.index with
    | ok b =>
      cases b with
      | true => simp only [hh] at hsnap; cases hsnap
      | false =>
        simp only [hh] at hsnap
        injection hsnap with hcsi
        obtain ⟨o, ho, hl, hn2, _⟩ := genLightReady_ok hg
        have hnone := hasNext_false_next_none (some n.maxCommittedSizePerReady) hh
        simp only [readyN1] at ho
        rw [← hcsi, hnone] at ho
        injection ho with ho
        subst ho
        subst hn' hn2 hl
        refine ⟨rfl, ?_, by omega⟩
        simp only [readyN1, csiAfter, Option.getD_none, List.getLast?_nil]
        exact hcsi.symm
    | err e => simp only [hh] at hsnap; cases hsnap
    | panic s => simp only [hh] at hsnap; cases hsnap

/-- **entries_are_unstable_suffix.**  The entries of a Ready are the whole current unstable part:
under the `RaftLog` invariant they are exactly the entries of the logical log from
`unstable.offset` to the last index, consecutively numbered. -/
theorem C07_entries_are_unstable_suffix (n n' : RawNodeM) (rd : Ready)
    (h : n.ready = .ok (n', rd)) :
    rd.entries = n.log.unstable.entries ∧
    (n.log.Inv →
      ContigFrom n.log.unstable.offset rd.entries ∧
      (∀ i, n.log.unstable.offset ≤ i → n.log.abs.entryAt i = rd.entries[i - n.log.unstable.offset]?) ∧
      (rd.entries ≠ [] → n.log.unstable.offset + rd.entries.length = n.log.lastIndex + 1)) := by
  obtain ⟨_, _, _, light, _, _, _, _, hrd⟩ := ready_ok h
  subst hrd
  refine ⟨rfl, fun hinv => ⟨hinv.unstWF.contig, fun i hi => hinv.entryAt_unstable hi, ?_⟩⟩
  intro hne
  simp only [readyRd] at hne ⊢
  unfold RaftLog.lastIndex Unstable.maybeLastIndex
  have : n.log.unstable.entries.length ≠ 0 := by
    intro h0; exact hne (List.eq_nil_of_length_eq_zero h0)
  simp only [this, if_false]
  omega

/-- **entries_once.**  After `ready`, the storage write and `commit_ready` (any of `advance`,
`advance_append`, `advance_append_async` starts with it) the unstable part is empty — entries and
snapshot of that Ready are never handed out again unless `Raft` appends them again — and the
call cannot panic.  The rest of the log (storage, cursors) is untouched by `commit_ready`. -/
theorem C07_entries_once (n n1 n2 : RawNodeM) (rd : Ready) (h : n.ready = .ok (n1, rd))
    (hw : n1.storageWrite rd = .ok n2) :
    ∃ n3, n2.advanceAppendAsync rd = .ok n3 ∧
      n3.log.unstable.entries = [] ∧ n3.log.unstable.snapshot = none ∧
      n3.log.store = n2.log.store ∧ n3.log.committed = n.log.committed ∧
      n3.log.persisted = n.log.persisted ∧ n3.records = n1.records ∧
      ∀ n4 rd', n3.ready = .ok (n4, rd') → rd'.entries = [] ∧ rd'.snapshot = none := by
  obtain ⟨hlog, _, _, _, _, _, _, _, hnum, hrec, _, _, _⟩ := ready_state h
  obtain ⟨st, hn2⟩ := storageWrite_ok hw
  have hspec := commitReady_spec n2 rd n.readyRecord (by rw [hn2]; exact hrec)
    (by rw [hnum]; rfl) (by rw [hn2]; simp only [readyRecord, hlog])
    (by rw [hn2]; simp only [readyRecord, hlog])
  obtain ⟨l2, hc, he, hs, hst, hcm, hp, _, _, _⟩ := hspec
  refine ⟨_, hc, he, hs, hst, ?_, ?_, ?_, ?_⟩
  · rw [hcm, hn2]; simp only [hlog]
  · rw [hp, hn2]; simp only [hlog]
  · rw [hn2]
  · intro n4 rd' h4
    obtain ⟨_, _, _, light, _, _, _, _, hrd'⟩ := ready_ok h4
    subst hrd'
    exact ⟨he, hs⟩

/-! ### has_ready -/

/-- emptiness of a Ready: nothing to persist, apply, send or notice -/
def ReadyEmpty (rd : Ready) : Prop :=
  rd.ss = none ∧ rd.hs = none ∧ rd.readStates = [] ∧ rd.entries = [] ∧ rd.snapshot = none ∧
  rd.committedEntries = [] ∧ rd.light.messages = []

/-- **has_ready_iff.**  Under the `RaftLog` invariant (a pending snapshot never has index 0:
`restore` is only called with an index above the commit index of a log that matched nothing at
that index), `has_ready()` is true exactly when `ready()` returns a non-empty Ready. -/
theorem C07_has_ready_iff (n n' : RawNodeM) (rd : Ready) (hinv : n.log.Inv)
    (hsn : ∀ sn, n.log.unstable.snapshot = some sn → sn.metadata.index ≠ 0)
    (h : n.ready = .ok (n', rd)) :
    ∃ b, n.hasReady = .ok b ∧ (b = true ↔ ¬ ReadyEmpty rd) := by
  obtain ⟨recs, csi, n2, light, _, hsnap, hg, _, hrd⟩ := ready_ok h
  subst hrd
  obtain ⟨o, ho, hl, _, _⟩ := genLightReady_ok hg
  have hmsgs : light.messages = n.msgs := by rw [hl]; rfl
  unfold hasReady
  by_cases h1 : n.msgs ≠ []
  · rw [if_pos h1]
    refine ⟨true, rfl, ?_⟩
    simp only [true_iff]
    intro he; exact h1 (hmsgs ▸ he.2.2.2.2.2.2)
  rw [if_neg h1]
  by_cases h2 : n.softState ≠ n.prevSs
  · rw [if_pos h2]
    refine ⟨true, rfl, ?_⟩
    simp only [true_iff]
    intro he; exact h2 ((readyRd_ss_none_iff n light).1 he.1)
  rw [if_neg h2]
  by_cases h3 : n.hardState ≠ n.prevHs
  · rw [if_pos h3]
    refine ⟨true, rfl, ?_⟩
    simp only [true_iff]
    intro he; exact h3 ((readyRd_hs_none_iff n light).1 he.2.1)
  rw [if_neg h3]
  by_cases h4 : n.readStates ≠ []
  · rw [if_pos h4]
    refine ⟨true, rfl, ?_⟩
    simp only [true_iff]
    intro he; exact h4 he.2.2.1
  rw [if_neg h4]
  by_cases h5 : n.log.unstable.entries ≠ []
  · rw [if_pos h5]
    refine ⟨true, rfl, ?_⟩
    simp only [true_iff]
    intro he; exact h5 he.2.2.2.1
  rw [if_neg h5]
  cases hs : n.log.unstable.snapshot with
  | some sn =>
    have := hsn sn hs
    simp only [this, ne_eq, not_false_eq_true, decide_true, if_true]
    refine ⟨true, rfl, ?_⟩
    simp only [true_iff]
    intro he
    have : n.log.unstable.snapshot = none := he.2.2.2.2.1
    rw [hs] at this; cases this
  | none =>
    simp only [Bool.false_eq_true, if_false]
    -- the hand-out starts from the unchanged `commit_since_index`
    have hcsi : csi = n.commitSinceIndex := by
      unfold readySnapshot at hsnap
      simp only [hs] at hsnap
      injection hsnap with hsnap; exact hsnap.symm
    subst hcsi
    have hiff := genLightReady_nonempty_iff (n := n.readyN1 n.commitSinceIndex) hinv hg
    have hu : n.commitSinceIndex < U64_MAX :=
      genLightReady_csi_lt (n := n.readyN1 n.commitSinceIndex) hg
    rw [hasNext_eq n.log n.commitSinceIndex hu]
    refine ⟨_, rfl, ?_⟩
    have hiff' : light.committedEntries ≠ [] ↔
        n.log.hasNextEntriesSince n.commitSinceIndex = .ok true := hiff
    rw [hasNext_eq n.log n.commitSinceIndex hu] at hiff'
    have h1' : n.msgs = [] := by simpa using h1
    have h2' : n.softState = n.prevSs := by simpa using h2
    have h3' : n.hardState = n.prevHs := by simpa using h3
    have h4' : n.readStates = [] := by simpa using h4
    have h5' : n.log.unstable.entries = [] := by simpa using h5
    constructor
    · intro hb he
      have : light.committedEntries ≠ [] := hiff'.2 (by rw [hb])
      exact this he.2.2.2.2.2.1
    · intro hne
      apply Classical.byContradiction
      intro hb
      apply hne
      refine ⟨(readyRd_ss_none_iff n light).2 h2', (readyRd_hs_none_iff n light).2 h3', h4', h5',
        hs, ?_, hmsgs.trans h1'⟩
      apply Classical.byContradiction
      intro hce
      have := hiff'.1 hce
      injection this with this
      exact hb this

/-! ### one hand-out of committed entries -/

/-- **handout_step** (the inductive step of `handout_exact`) and **handout_persisted**.  Under the
`RaftLog` invariant and `first_index ≤ commit_since_index + 1` (nothing not yet handed out has
been compacted), the committed entries of one `gen_light_ready` (the one inside `ready()` and the
one inside `advance_append`) are consecutively numbered from `commit_since_index + 1`, are exactly
the entries of the logical log at those positions (no gap, duplicate or altered entry),
`commit_since_index` advances by their number, and every entry handed out is at or below the
commit index and at or below `persisted + max_apply_unpersisted_log_limit` at that moment
(for every `max_committed_size_per_ready`; it hands out at least one entry whenever one is due). -/
theorem C07_handout_step (n n' : RawNodeM) (light : LightReady) (hinv : n.log.Inv)
    (hcsi : n.log.firstIndex ≤ n.commitSinceIndex + 1)
    (h : n.genLightReady = .ok (n', light)) :
    ContigFrom (n.commitSinceIndex + 1) light.committedEntries ∧
    (∀ k e, light.committedEntries[k]? = some e →
      n.log.abs.entryAt (n.commitSinceIndex + 1 + k) = some e) ∧
    n'.commitSinceIndex = n.commitSinceIndex + light.committedEntries.length ∧
    (light.committedEntries ≠ [] →
      n'.commitSinceIndex ≤ n.log.committed ∧
      n'.commitSinceIndex ≤ n.log.persisted + n.log.maxApplyUnpersistedLogLimit) ∧
    (light.committedEntries ≠ [] ↔ n.log.hasNextEntriesSince n.commitSinceIndex = .ok true) :=
  genLightReady_handout hinv (slicePrefix_of_inv hinv) hcsi h

/-- **handout_persisted** for a whole `ready()`: every committed entry in the Ready has an index
`≤ committed` and `≤ persisted + limit` of the log at that moment, and they continue the
hand-out without gap from the previous `commit_since_index` (no pending snapshot) -/
theorem C07_handout_persisted (n n' : RawNodeM) (rd : Ready) (hinv : n.log.Inv)
    (hcsi : n.log.firstIndex ≤ n.commitSinceIndex + 1)
    (hs : n.log.unstable.snapshot = none) (h : n.ready = .ok (n', rd)) :
    ContigFrom (n.commitSinceIndex + 1) rd.committedEntries ∧
    n'.commitSinceIndex = n.commitSinceIndex + rd.committedEntries.length ∧
    (∀ e ∈ rd.committedEntries, e.index ≤ n.log.committed ∧
      e.index ≤ n.log.persisted + n.log.maxApplyUnpersistedLogLimit) ∧
    (∀ k e, rd.committedEntries[k]? = some e →
      n.log.abs.entryAt (n.commitSinceIndex + 1 + k) = some e) := by
  obtain ⟨recs, csi, n2, light, _, hsnap, hg, hn', hrd⟩ := ready_ok h
  have hcsi' : csi = n.commitSinceIndex := by
    unfold readySnapshot at hsnap
    simp only [hs] at hsnap
    injection hsnap with hsnap; exact hsnap.symm
  subst hcsi'
  obtain ⟨hc, hm, hlen, hb, _⟩ :=
    genLightReady_handout (n := n.readyN1 n.commitSinceIndex) hinv (slicePrefix_of_inv hinv) hcsi hg
  subst hrd hn'
  refine ⟨hc, hlen, ?_, hm⟩
  intro e he
  obtain ⟨k, hk, hke⟩ := List.getElem_of_mem he
  have hk0 : k < light.committedEntries.length := hk
  have hke' : light.committedEntries[k]? = some e := by
    rw [List.getElem?_eq_some_iff]; exact ⟨hk0, hke⟩
  have hidx := hc k e hke'
  have hne : light.committedEntries ≠ [] := by
    intro hnil; rw [hnil] at hk0; simp at hk0
  have := hb hne
  simp only [readyN1] at this hidx hlen
  have hk' : k < light.committedEntries.length := hk
  omega

/-! ### the record queue -/

/-- **records_ordered** (step `ready`): the queue stays strictly increasing in `number` and
bounded by `max_number`; `ready` appends exactly one record, numbered `max_number + 1`, carrying
the last entry of the Ready's entries and its snapshot -/
theorem C07_records_ordered_ready (n n' : RawNodeM) (rd : Ready) (hok : RecOk n)
    (h : n.ready = .ok (n', rd)) :
    RecOk n' ∧ n'.maxNumber = n.maxNumber + 1 ∧ rd.number = n'.maxNumber ∧
    ∃ recs, n'.records = recs ++ [n.readyRecord] ∧ (recs = n.records ∨ recs = []) := by
  obtain ⟨recs, csi, n2, light, hd, _, hg, hn', hrd⟩ := ready_ok h
  obtain ⟨o, _, _, hn2, _⟩ := genLightReady_ok hg
  have hrecs : recs = n.records ∨ recs = [] := by
    unfold drainRecords at hd
    split at hd
    · split at hd
      · injection hd with hd; exact .inr hd.symm
      · cases hd
    · injection hd with hd; exact .inl hd.symm
  subst hn' hrd hn2
  refine ⟨?_, rfl, rfl, recs, rfl, hrecs⟩
  constructor
  · show ((recs ++ [n.readyRecord]).map (·.number)).Pairwise (· < ·)
    rw [List.map_append, List.pairwise_append]
    refine ⟨?_, by simp, ?_⟩
    · rcases hrecs with hr | hr
      · rw [hr]; exact hok.1
      · rw [hr]; simp
    · intro a ha b hb
      simp only [List.map_cons, List.map_nil, List.mem_singleton] at hb
      subst hb
      obtain ⟨r, hr, hra⟩ := List.mem_map.1 ha
      rcases hrecs with hr' | hr'
      · rw [hr'] at hr
        have := hok.2 r hr
        simp only [readyRecord]; omega
      · rw [hr'] at hr; cases hr
  · intro r hr
    show r.number ≤ n.maxNumber + 1
    rcases List.mem_append.1 hr with hr | hr
    · rcases hrecs with hr' | hr'
      · rw [hr'] at hr; have := hok.2 r hr; omega
      · rw [hr'] at hr; cases hr
    · simp only [List.mem_singleton] at hr
      subst hr; simp [readyRecord]

/-- **records_ordered** (step `on_persist_ready(number)`): it pops exactly the records with
`number' ≤ number` (any batching), keeps the order, and the persistence notice it forwards is the
left fold `persistTarget` of the popped records: the last snapshot record resets the entry target,
the last entry record after it wins (`recStep`) -/
theorem C07_on_persist_ready_pops (n n' : RawNodeM) (number : Nat) (eff : Effect) (hok : RecOk n)
    (h : n.onPersistReady number eff = .ok n') :
    RecOk n' ∧ (∀ r, r ∈ n'.records ↔ r ∈ n.records ∧ number < r.number) ∧
    popRecords number n.records (0, 0, 0) =
      (n'.records, persistTarget (n.records.takeWhile (fun r => decide (r.number ≤ number))) (0, 0, 0)) := by
  obtain ⟨hr, hm, _⟩ := onPersistReady_records h
  refine ⟨⟨?_, ?_⟩, ?_, ?_⟩
  · rw [hr]; exact pairwise_dropWhile _ hok.1
  · intro r hrm
    rw [hr] at hrm
    rw [hm]
    exact hok.2 r ((mem_dropWhile_of_sorted number hok.1 r).1 hrm).1
  · intro r; rw [hr]; exact mem_dropWhile_of_sorted number hok.1 r
  · rw [popRecords_eq, hr]

/-! ### contract traces, and the trace-level statements that remain open -/

/-- a RawNode-layer call or an environment step (what `Raft` / the application do in between) -/
inductive Call where
  | env (e : EnvEffect)
  | ready
  | write
  | advanceAppendAsync
  | advanceAppend (eff : Effect)
  | advance (eff1 eff2 : Effect)
  | onPersistReady (number : Nat) (eff : Effect)
  | advanceApply (eff : Effect)
  | advanceApplyTo (applied : Nat) (eff : Effect)
  | compact (index : Nat)

/-- the node, the Ready the application currently holds, and the ghost hand-out history:
`handed` = concatenation of the `committed_entries` of every Ready / LightReady since the start or
the last snapshot Ready, `start` = `Config.applied` or the index of that snapshot -/
structure Sys where
  n : RawNodeM
  pending : Option Ready := none
  handed : List Entry := []
  start : Nat := 0
  deriving DecidableEq

/-- the system after `ready()` returned `rd`: the ghost history restarts at a snapshot Ready -/
def Sys.afterReady (s : Sys) (n : RawNodeM) (rd : Ready) : Sys :=
  { n := n, pending := some rd,
    handed := (if rd.snapshot.isSome then [] else s.handed) ++ rd.committedEntries,
    start := match rd.snapshot with
      | some sn => sn.metadata.index
      | none => s.start }

/-- one call; `none` when the call is not allowed by the documented contract in this state
(`step` & co. between `ready` and `advance*`, `advance*` without a Ready, a second `ready`,
`on_persist_ready` for a number never issued, `advance_apply_to` beyond the hand-out) -/
def Sys.step (s : Sys) : Call → Option (Res Sys)
  | .env e => match s.pending with
    | none => some (match s.n.env e with
      | .ok n => .ok { s with n := n } | .err e => .err e | .panic p => .panic p)
    | some _ => none
  | .ready => match s.pending with
    | none => some (match s.n.ready with
      | .ok (n, rd) => .ok (s.afterReady n rd)
      | .err e => .err e | .panic p => .panic p)
    | some _ => none
  | .write => match s.pending with
    | some rd => some (match s.n.storageWrite rd with
      | .ok n => .ok { s with n := n } | .err e => .err e | .panic p => .panic p)
    | none => none
  | .advanceAppendAsync => match s.pending with
    | some rd => some (match s.n.advanceAppendAsync rd with
      | .ok n => .ok { s with n := n, pending := none } | .err e => .err e | .panic p => .panic p)
    | none => none
  | .advanceAppend eff => match s.pending with
    | some rd => some (match s.n.advanceAppend rd eff with
      | .ok (n, l) => .ok { s with n := n, pending := none, handed := s.handed ++ l.committedEntries }
      | .err e => .err e | .panic p => .panic p)
    | none => none
  | .advance eff1 eff2 => match s.pending with
    | some rd => some (match s.n.advance rd eff1 eff2 with
      | .ok (n, l) => .ok { s with n := n, pending := none, handed := s.handed ++ l.committedEntries }
      | .err e => .err e | .panic p => .panic p)
    | none => none
  | .onPersistReady number eff =>
    if number ≤ s.n.maxNumber then
      some (match s.n.onPersistReady number eff with
        | .ok n => .ok { s with n := n } | .err e => .err e | .panic p => .panic p)
    else none
  | .advanceApply eff => some (match s.n.advanceApply eff with
      | .ok n => .ok { s with n := n } | .err e => .err e | .panic p => .panic p)
  | .advanceApplyTo k eff =>
    if k ≤ s.n.commitSinceIndex then
      some (match s.n.advanceApplyTo k eff with
        | .ok n => .ok { s with n := n } | .err e => .err e | .panic p => .panic p)
    else none
  | .compact k => some (match s.n.log.compactStore k with
      | .ok l => .ok { s with n := { s.n with log := l } } | .err e => .err e | .panic p => .panic p)

/-- what the environment guarantees (C14 proves it for every contract-abiding sequence of
`RaftLog` operations, `C14_run`): the invariant is kept, the committed prefix is immutable, a
restored snapshot has a non-zero index, apply-before-persist is off on non-leaders, the storage
write has happened before a persistence notice, compaction stays at or below the applied index -/
def EnvOk (s : Sys) : Call → Prop
  | .env e => ∃ l', applyLogOps s.n.log e.ops = .ok l' ∧ l'.Inv ∧ l'.AppliedOk ∧
      s.n.log.committed ≤ l'.committed ∧
      (∀ i, i ≤ s.n.log.committed → l'.abs.entryAt i = s.n.log.abs.entryAt i ∨ i ≤ l'.abs.snapIdx) ∧
      (∀ sn, l'.unstable.snapshot = some sn → sn.metadata.index ≠ 0) ∧
      (e.role ≠ ROLE_LEADER → e.limit = 0)
  | .compact k => k ≤ s.n.log.applied ∧ k ≤ s.n.log.persisted + 1
  | .onPersistReady _ eff => eff.commit ≤ s.n.log.lastIndex
  | .advanceAppend eff => eff.commit ≤ s.n.log.lastIndex
  | .advance eff _ => eff.commit ≤ s.n.log.lastIndex
  | _ => True

/-- `ContractTrace s calls s'`: the call sequence is allowed by the contract from `s` and runs
without panic to `s'` -/
inductive ContractTrace : Sys → List Call → Sys → Prop where
  | nil (s : Sys) : ContractTrace s [] s
  | cons {s s1 s2 : Sys} {c : Call} {cs : List Call} :
      EnvOk s c → s.step c = some (.ok s1) → ContractTrace s1 cs s2 →
      ContractTrace s (c :: cs) s2

/-- a freshly created node over a conforming storage -/
def Init (s : Sys) : Prop :=
  ∃ st limit applied maxc n, st.WF ∧ RawNodeM.new st limit applied maxc = .ok n ∧
    st.firstIndex ≤ applied + 1 ∧ applied ≤ n.log.committed ∧
    s = { n := n, pending := none, handed := [], start := applied }

/-- **handout_exact**, trace level (NOT proved; the inductive step is `C07_handout_step` /
`C07_snapshot_ready_no_entries`, what is missing is carrying the `RaftLog` invariant through the
storage-side steps `write` / `compact` — `C14_storage_steps_full_statement` is open as well —
and through the callbacks; the correspondence check compares `commit_since_index` and every
hand-out with the real code on every line): over a node's lifetime the entries handed out since
the start / last snapshot are exactly the logical log from `start+1` to `commit_since_index`. -/
def C07_handout_exact_full_statement : Prop :=
  ∀ s0 calls s, Init s0 → ContractTrace s0 calls s →
    ContigFrom (s.start + 1) s.handed ∧
    s.n.commitSinceIndex = s.start + s.handed.length ∧
    s.n.commitSinceIndex ≤ s.n.log.committed ∧
    ∀ k e, s.handed[k]? = some e →
      s.n.log.abs.entryAt (s.start + 1 + k) = some e ∨ s.start + 1 + k ≤ s.n.log.abs.snapIdx

/-- **no_panic**, trace level (NOT proved): no RawNode call of a contract trace panics.  Proved
parts: `commit_ready` right after `ready` (`C07_entries_once`, `C07_hs_once`).  Open: the drain
assertion of `ready` (records left when becoming leader carry no entries / snapshot — a protocol
fact about `Raft`, raw_node.rs:504-512), `maybe_persist_snap`'s assertions, `applied_to`. -/
def C07_no_panic_full_statement : Prop :=
  ∀ s0 calls s c, Init s0 → ContractTrace s0 calls s → EnvOk s c →
    ∀ p, s.step c ≠ some (.panic p)

/-- **records_ordered**, trace level (NOT proved as one induction; the two calls that change the
queue are `C07_records_ordered_ready` and `C07_on_persist_ready_pops`, every other call leaves
`records` and `max_number` alone) -/
def C07_records_ordered_full_statement : Prop :=
  ∀ s0 calls s, Init s0 → ContractTrace s0 calls s → RecOk s.n

/-! ### non-vacuity -/

def ent (i t d : Nat) : Entry := { index := i, term := t, data := List.replicate d 0 }

/-- storage: entries 1, 2 of term 1, hard state (term 1, vote 0, commit 1) -/
def st0 : MemStorage :=
  { entries := [ent 1 1 3, ent 2 1 3], hardState := { term := 1, vote := 0, commit := 1 } }

def run : Sys → List Call → Option Sys
  | s, [] => some s
  | s, c :: cs => match s.step c with
    | some (.ok s1) => run s1 cs
    | _ => none

def envE (term commit : Nat) (ents : List Entry) : Call :=
  .env { term := term, vote := 0, role := ROLE_FOLLOWER, leaderId := 2, msgs := [7], readStates := [],
         limit := 0, ops := [.tappend ents, .commitTo commit] }

/-- a concrete async-persistence run with a truncation between two Readies:
Ready 1 carries entries 3,4 (term 1) and hands out 1,2; before it is reported persisted a new
leader overwrites entry 4 (term 2) and appends 5, commit 3; Ready 2 carries 4,5 (term 2) and
hands out nothing (entry 3 is not reported persisted yet: the notice for Ready 1 is stale after
the truncation); after `on_persist_ready(2)` Ready 3 hands out entry 3.  The hand-out is
1,2,3 without gap or duplicate, `commit_since_index = 3`. -/
theorem C07_example_async_truncation :
    (match RawNodeM.new st0 0 0 NO_LIMIT with
     | .ok n =>
       (run { n := n } [envE 1 2 [ent 3 1 1, ent 4 1 1], .ready, .write, .advanceAppendAsync,
          envE 2 3 [ent 4 2 1, ent 5 2 1], .ready, .write, .advanceAppendAsync,
          .onPersistReady 1 {}, .onPersistReady 2 {}, .ready, .write, .advanceAppendAsync]).map
        (fun s => (s.handed.map (fun e => (e.index, e.term)), s.n.commitSinceIndex,
          s.n.log.persisted, s.n.records.length, s.n.maxNumber))
     | _ => none) = some ([(1, 1), (2, 1), (3, 1)], 3, 5, 1, 3) := by decide +kernel

def l0 : RaftLog :=
  { store := st0, unstable := Unstable.new 3, committed := 0, persisted := 2, applied := 0,
    maxApplyUnpersistedLogLimit := 0 }

/-- the hypotheses of the step theorems hold on a concrete non-trivial state (after the first env
step of the run above): the invariant, `first_index ≤ commit_since_index + 1`, an ordered queue -/
example : ∃ n, RawNodeM.new st0 0 0 NO_LIMIT = .ok n ∧ n.log.Inv ∧
    n.log.firstIndex ≤ n.commitSinceIndex + 1 ∧ RecOk n := by
  have hwf : st0.WF := by
    refine ⟨?_, by decide⟩
    intro k e hk
    match k, hk with
    | 0, hk => simp [st0] at hk; subst hk; rfl
    | 1, hk => simp [st0] at hk; subst hk; rfl
    | n + 2, hk => simp [st0] at hk
  obtain ⟨l, hl, hinv, _, _⟩ := RaftLog.Inv.new hwf 0
  have hl' : RaftLog.new st0 0 = .ok l0 := rfl
  rw [hl'] at hl
  injection hl with hl
  subst hl
  refine ⟨_, rfl, ?_, by decide, ⟨by simp [RawNodeM.new, st0], by simp [RawNodeM.new, st0]⟩⟩
  -- `load_state` moved the commit index to 1
  exact { hinv with
    dummy_le_committed := by decide
    committed_le_last := by decide }

/-- **finding (apply-before-persist on a follower).**  `set_max_apply_unpersisted_log_limit` may be
called on a follower; a snapshot followed by committed appends before the next `ready()` then
makes `ready()` panic at raw_node.rs:537 ("has snapshot but also has committed entries").  The
model reproduces it; the no-panic statement therefore assumes `limit = 0` on non-leaders. -/
theorem C07_follower_limit_panics :
    (match RawNodeM.new st0 0 0 NO_LIMIT with
     | .ok n =>
       match n.env { term := 1, vote := 0, role := ROLE_FOLLOWER, leaderId := 2, msgs := [],
                     readStates := [], limit := U64_MAX,
                     ops := [.restore { metadata := { index := 5, term := 1 } },
                             .tappend [ent 6 1 1], .commitTo 6] } with
       | .ok n1 => (match n1.ready with
         | .panic _ => true
         | _ => false)
       | _ => false
     | _ => false) = true := by decide

end RaftProps.C07
