import RaftProofs.RaftNodeC02

/-!
# C03b — the election restriction, on the node model

The cluster-level proof of C03 (`RaftProps/C03.lean`, abstract protocol P) rests on three obligations
of every node: *a vote or pre-vote is granted only to a candidate whose last (term, index) is at least
the voter's own* (P's `grant` needs `upToDate`), *a request advertises the candidate's true log tail*
(P's `campaign`), and *the log of a node does not change while it is a candidate* (so the log a winner
leads with is the log it advertised).  Here they are theorems about the executable model of
`src/raft.rs` (`RaftModel.Raft*`, tied to the code by differential testing), for ALL states and ALL
messages unless a hypothesis is named.
-/
namespace RaftProps.C03
open RaftModel RaftModel.Raft RaftModel.Raft.VoteOb

/-! ### 1. A (pre-)vote is granted only to an up-to-date candidate -/

/-- `RaftLog::is_up_to_date` (raft_log.rs:440) in arithmetic form: the advertised
`(term, last_index)` is lexicographically at least the log's own `(last_term, last_index)` -/
theorem C03_isUpToDate_iff (l : RaftLog) (i t : Nat) :
    l.isUpToDate i t = .ok true ↔
      ∃ lt, l.lastTerm = .ok lt ∧ (lt < t ∨ (lt = t ∧ l.lastIndex ≤ i)) := by
  unfold RaftLog.isUpToDate
  cases hl : l.lastTerm with
  | ok lt =>
    simp only [Res.ok.injEq, Bool.or_eq_true, Bool.and_eq_true, decide_eq_true_eq, beq_iff_eq]
    constructor
    · rintro (h | ⟨h1, h2⟩)
      · exact ⟨lt, rfl, Or.inl h⟩
      · exact ⟨lt, rfl, Or.inr ⟨h1.symm, h2⟩⟩
    · rintro ⟨lt', e, h⟩
      subst e
      rcases h with h | ⟨h1, h2⟩
      · exact Or.inl h
      · exact Or.inr ⟨h1.symm, h2⟩
  | err e => simp
  | panic s => simp

/-- the grant condition of raft.rs:1497-1499, all three parts -/
theorem C03_voteGranted_iff (r : Raft) (m : Message) :
    r.voteGranted m = .ok true ↔
      r.canVote m = true ∧
      (∃ lt, r.raftLog.lastTerm = .ok lt ∧
        (lt < m.logTerm ∨ (lt = m.logTerm ∧ r.raftLog.lastIndex ≤ m.index))) ∧
      (r.raftLog.lastIndex < m.index ∨ r.priority ≤ getPriority m) := by
  rw [c02_voteGranted_iff, C03_isUpToDate_iff]

/-- **C03 (1), the vote arm.**  The `MsgRequestVote | MsgRequestPreVote` arm of `step`
(raft.rs:1489-1533) queues exactly one message, the response to `m.from`.  It carries
`reject = false` **only if** `can_vote` held, the request's `(log_term, index)` is at least the
voter's `(last_term, last_index)` (`is_up_to_date`), and the priority condition
`m.index > last_index ∨ priority ≤ priority(m)` held; the response then carries `m.term`.  Conversely,
whenever that condition is false the response carries `reject = true` (with the voter's term and
commit point). -/
theorem C03_grant_only_if_up_to_date_arm (r r' : Raft) (m : Message) (h : r.stepVote m = .ok r') :
    ∃ x, r'.msgs = r.msgs ++ [x] ∧ x.to = m.frm ∧ some x.msgType = voteRespMsgType m.msgType ∧
      (x.reject = false →
        r.canVote m = true ∧ r.raftLog.isUpToDate m.index m.logTerm = .ok true ∧
        (∃ lt, r.raftLog.lastTerm = .ok lt ∧
          (lt < m.logTerm ∨ (lt = m.logTerm ∧ r.raftLog.lastIndex ≤ m.index))) ∧
        (r.raftLog.lastIndex < m.index ∨ r.priority ≤ getPriority m) ∧ x.term = m.term) ∧
      (x.reject = true →
        r.voteGranted m = .ok false ∧ x.term = r.term ∧
        r.raftLog.commitInfo = .ok (x.commit, x.commitTerm)) ∧
      (r.voteGranted m = .ok false → x.reject = true) := by
  obtain ⟨t, x, h1, h2, h3, h4, h5, h6, h7, h8⟩ := (c02_stepVote_spec h).resp
  refine ⟨x, h2, h4, by rw [h3, h1], fun hr => ?_, fun hr => ?_, fun hf => h6.2 hf⟩
  · have hg := h5.1 hr
    obtain ⟨a, b, c⟩ := (c02_voteGranted_iff r m).1 hg
    exact ⟨a, b, (C03_isUpToDate_iff _ _ _).1 b, c, h7 hr⟩
  · exact ⟨h6.1 hr, h8 hr⟩

/-- **C03 (1) `grant_only_if_up_to_date`.**  For every state and every `MsgRequestVote` /
`MsgRequestPreVote`: `step` queues at most one message, a response to `m.from`; nothing is queued when
the request is ignored (lease, raft.rs:1356-1384; a real vote request of a lower term).  If the
response carries `reject = false`, then the request passed the term preamble (`r1` is the state after
it: `r` itself, or `r.become_follower(m.term, _)` for a higher-term real vote request — same log, same
priority), and

* `can_vote` held in `r1`,
* `r.raftLog.isUpToDate m.index m.logTerm = Ok(true)`, i.e. `(m.logTerm, m.index) ≥ (last_term,
  last_index)` of the voter's log lexicographically,
* `m.index > last_index ∨ r.priority ≤ priority(m)`.

(The rejection a lower-term pre-vote request gets from the preamble, raft.rs:1466-1478, has
`reject = true`.) -/
theorem C03_grant_only_if_up_to_date (r r' : Raft) (m : Message) (res : Option RaftError)
    (hty : m.msgType = .msgRequestVote ∨ m.msgType = .msgRequestPreVote)
    (h : r.step m = .ok (r', res)) :
    r'.msgs = r.msgs ∨
    ∃ x, r'.msgs = r.msgs ++ [x] ∧ x.to = m.frm ∧ some x.msgType = voteRespMsgType m.msgType ∧
      (x.reject = false →
        ∃ r1, r.stepTerm m = .ok (r1, true) ∧ (r1 = r ∨ ∃ l, r1 = r.becomeFollower m.term l) ∧
          r1.canVote m = true ∧ r.raftLog.isUpToDate m.index m.logTerm = .ok true ∧
          (∃ lt, r.raftLog.lastTerm = .ok lt ∧
            (lt < m.logTerm ∨ (lt = m.logTerm ∧ r.raftLog.lastIndex ≤ m.index))) ∧
          (r.raftLog.lastIndex < m.index ∨ r.priority ≤ getPriority m) ∧ x.term = m.term) := by
  obtain ⟨r1, b, ht, hb⟩ := c02_step_cases h
  -- the preamble: queue, log and priority of `r1`
  have hpre : (r1 = r ∨ ∃ l, r1 = r.becomeFollower m.term l) ∨
      (b = false ∧ ∃ x, r1.msgs = r.msgs ++ [x] ∧ x.to = m.frm ∧
        some x.msgType = voteRespMsgType m.msgType ∧ x.reject = true) := by
    rcases c02_stepTerm_cases ht with ⟨e, _⟩ | ⟨hbf, _, _, x, hs, hx⟩ | ⟨_, _, _, _, l, e⟩
    · exact Or.inl (Or.inl e)
    · right
      refine ⟨hbf, ?_⟩
      rcases hx with ⟨hm, hx⟩ | ⟨hm, _⟩
      · subst hx
        rw [send_eq r r1 _ hs]
        refine ⟨_, rfl, ?_, ?_, ?_⟩
        · rw [c02_sendFill_resp _ _ (Or.inr rfl)]; split <;> rfl
        · rw [c02_sendFill_resp _ _ (Or.inr rfl), hm]; split <;> rfl
        · rw [c02_sendFill_resp _ _ (Or.inr rfl)]; split <;> rfl
      · rcases hty with e | e <;> rcases hm with hm | hm <;> rw [e] at hm <;> cases hm
    · exact Or.inl (Or.inr ⟨l, e⟩)
  rcases hb with ⟨hbf, e⟩ | ⟨hbt, hd⟩
  · subst e
    rcases hpre with (e | ⟨l, e⟩) | ⟨_, x, h1, h2, h3, h4⟩
    · subst e; exact Or.inl rfl
    · subst e; exact Or.inl (c02_becomeFollower_keep r m.term l).msgs
    · exact Or.inr ⟨x, h1, h2, h3, fun hr => by rw [h4] at hr; cases hr⟩
  · subst hbt
    have hv : r1.stepVote m = .ok r' := by
      rcases hd with ⟨hm, _⟩ | ⟨_, hv⟩ | ⟨_, h1, h2, _⟩
      · rcases hty with e | e <;> rw [e] at hm <;> cases hm
      · exact hv
      · rcases hty with e | e
        · exact absurd e h1
        · exact absurd e h2
    have hk : Keep r r1 ∧ (r1 = r ∨ ∃ l, r1 = r.becomeFollower m.term l) := by
      rcases hpre with (e | ⟨l, e⟩) | ⟨c, _⟩
      · subst e; exact ⟨Keep.rfl, Or.inl rfl⟩
      · subst e; exact ⟨c02_becomeFollower_keep r m.term l, Or.inr ⟨l, rfl⟩⟩
      · cases c
    obtain ⟨x, h1, h2, h3, h4, _⟩ := C03_grant_only_if_up_to_date_arm r1 r' m hv
    right
    refine ⟨x, by rw [h1, hk.1.msgs], h2, h3, fun hr => ?_⟩
    obtain ⟨a, b, c, d, e⟩ := h4 hr
    rw [hk.1.log.isUpToDate] at b
    rw [hk.1.log.lastTerm, hk.1.log.lastIndex] at c
    rw [hk.1.log.lastIndex, hk.1.priority] at d
    exact ⟨r1, ht, hk.2, a, b, c, d, e⟩

/-! ### 2. Requests carry the candidate's true log tail -/

/-- **C03 (2) `requests_carry_true_tail`.**  `campaign` (raft.rs:1287, all three kinds) either makes
the node leader at once because its own vote is a quorum — then **no** vote request is sent
(`CampaignWon`: the queue is untouched up to `become_leader(); bcast_append()`) — or appends to the
queue exactly one request per other voter of either half, and every one of them carries

* `index = last_index`, `log_term = last_term` of the candidate's log at that moment,
* `(commit, commit_term) = commit_info()` of that log,
* the campaign's term `r.term + 1` (for a pre-vote: the term it *would* campaign at), the sender's id,
  the request type of the campaign, and the node's priority;

and the log is unchanged by the campaign (`LogSame`). -/
theorem C03_requests_carry_true_tail (r r' : Raft) (ct : CampaignType) (h : r.campaign ct = .ok r') :
    CampaignWon r r' ∨
    ∃ lt c cterm new, r.raftLog.lastTerm = .ok lt ∧ r.raftLog.commitInfo = .ok (c, cterm) ∧
      r'.msgs = r.msgs ++ new ∧ LogSame r.raftLog r'.raftLog ∧
      new.map (fun x => x.to) = c02_voteTargets r ∧
      ∀ x ∈ new, x.msgType = campaignMsgType ct ∧ x.index = r.raftLog.lastIndex ∧ x.logTerm = lt ∧
        x.commit = c ∧ x.commitTerm = cterm ∧ x.term = r.term + 1 ∧ x.frm = r.id ∧ x.to ≠ r.id ∧
        x.priority = r.priority ∧ (x.context = campaignTransfer ↔ ct = .transfer) := by
  rcases c02_campaign_cases h with w | w
  · exact Or.inl w
  · right
    obtain ⟨lt, c, cterm, h1, h2, h3⟩ := w.msgs
    refine ⟨lt, c, cterm, _, h1, h2, h3, w.log, ?_, ?_⟩
    · rw [List.map_map]
      have : ((fun x : Message => x.to) ∘ voteReq r (campaignMsgType ct) ct (r.term + 1) c cterm lt) = _root_.id := by
        funext to; rfl
      rw [this, List.map_id]
    · intro x hx
      obtain ⟨to, hto, rfl⟩ := List.mem_map.1 hx
      have hne : to ≠ r.id := by
        have := (List.mem_filter.1 hto).2
        simpa using this
      refine ⟨rfl, rfl, rfl, rfl, rfl, rfl, rfl, hne, rfl, ?_⟩
      show (if ct = .transfer then campaignTransfer else []) = campaignTransfer ↔ ct = .transfer
      by_cases hc : ct = .transfer
      · simp [hc]
      · simp only [hc, if_false, iff_false]
        decide

/-! ### 3. A candidate's log is frozen -/

theorem c03_hup_frozen {r1 r' : Raft} {tr : Bool} (h : r1.hup tr = .ok r')
    (hc : r'.state = .candidate ∨ r'.state = .preCandidate) : LogFrozen r1.raftLog r'.raftLog := by
  rcases c02_hup_cases h with e | ⟨_, _, ct, hcm, _⟩
  · subst e; exact LogFrozen.rfl
  · rcases c02_campaign_cases hcm with w | w
    · obtain ⟨r0, _, _, _, _, _, k6⟩ := w.path
      have := (c02_wonBy_spec k6).1
      rcases hc with hc | hc <;> rw [hc] at this <;> cases this
    · exact w.log.frozen

/-- everything `step` does after the term preamble -/
theorem c03_dispatch_frozen {r1 r' : Raft} {m : Message} {res : Option RaftError}
    (hd : (m.msgType = .msgHup ∧ r1.hup false = .ok r') ∨
      ((m.msgType = .msgRequestVote ∨ m.msgType = .msgRequestPreVote) ∧ r1.stepVote m = .ok r') ∨
      (m.msgType ≠ .msgHup ∧ m.msgType ≠ .msgRequestVote ∧ m.msgType ≠ .msgRequestPreVote ∧
        (((r1.state = .candidate ∨ r1.state = .preCandidate) ∧ r1.stepCandidate m = .ok (r', res)) ∨
         (r1.state = .follower ∧ r1.stepFollower m = .ok (r', res)) ∨
         (r1.state = .leader ∧ r1.stepLeader m = .ok (r', res)))))
    (hc : r'.state = .candidate ∨ r'.state = .preCandidate) : LogFrozen r1.raftLog r'.raftLog := by
  have notF : r'.state ≠ .follower := by rcases hc with hc | hc <;> rw [hc] <;> decide
  have notL : r'.state ≠ .leader := by rcases hc with hc | hc <;> rw [hc] <;> decide
  rcases hd with ⟨_, hh⟩ | ⟨_, hv⟩ | ⟨_, _, _, hr⟩
  · exact c03_hup_frozen hh hc
  · exact (c02_stepVote_spec hv).log
  · rcases hr with ⟨hsc, hcd⟩ | ⟨hsf, hf⟩ | ⟨hsl, hl⟩
    · rcases c02_stepCandidate_cases hsc hcd with e | ⟨_, _, hf⟩ | ⟨_, r2, res2, hp, hmc⟩
      · subst e; exact LogFrozen.rfl
      · exact absurd hf.state notF
      · obtain ⟨_, q2, _, _, _, _, q7⟩ := c02_maybeCommitByVote_spec hmc
        have hq : r'.state = r2.state := by
          rcases q7 with ⟨a, _⟩ | ⟨_, a, _⟩
          · exact a
          · exact absurd a notF
        refine LogFrozen.trans ?_ q2
        unfold Raft.poll at hp
        obtain ⟨_, p2⟩ := c02_pollWith_cases hp
        rcases p2 with ⟨_, _, c⟩ | ⟨_, _, c⟩ | ⟨_, c⟩ | ⟨_, c⟩
        · unfold Raft.campaignAfterPreVote at c
          rcases c02_campaignWith_election (by decide) c with w | w
          · obtain ⟨r0, _, _, _, _, _, k6⟩ := w.path
            exact absurd (hq.trans (c02_wonBy_spec k6).1) notL
          · exact w.log.frozen
        · exact absurd (hq.trans (c02_wonBy_spec c).1) notL
        · subst c; exact (c02_becomeFollower_keep (voted r1 m.frm (!m.reject)) r1.term 0).log.frozen
        · subst c; exact LogFrozen.rfl
    · rcases c02_stepFollower_cases hsf hf with t | ⟨_, _, hh⟩
      · exact absurd (t.state.trans hsf) notF
      · exact c03_hup_frozen hh hc
    · rcases c02_stepLeader_cases hl with t | ⟨t, _⟩
      · exact absurd (t.state.trans hsl) notL
      · exact absurd t notF

/-- **C03 (3) `candidate_log_frozen`** (node-model version; the name `C03_candidate_log_frozen` is
taken by the statement about P in `RaftProps/C03.lean`).  The precise version that is true, and it
needs no hypothesis on the state *before* the step: **whenever `step` leaves the node a candidate or a
pre-candidate, its log entries are the ones it had before the step** — stable storage, unstable
entries and pending snapshot, `persisted` and `applied` are unchanged (hence `last_index`, `last_term`
and every `term(i)`).  Every handler that changes entries (`handle_append_entries`, `handle_snapshot`
→ `restore`, `append_entry` in `become_leader` / `MsgPropose`) runs on a follower or a leader and
leaves it a follower or a leader.  In particular a node that is a (pre-)candidate before and after
`step` keeps its entries.

What is **not** frozen is the commit index: a candidate advances `committed` through
`maybe_commit_by_vote` (the commit point carried by a rejection, raft.rs:2248) — `LogFrozen` says
`committed` can only grow.  (And if that reveals an unapplied configuration change the candidate steps
down.) -/
theorem C03_candidate_log_frozen_node (r r' : Raft) (m : Message) (res : Option RaftError)
    (h : r.step m = .ok (r', res)) (hc : r'.state = .candidate ∨ r'.state = .preCandidate) :
    LogFrozen r.raftLog r'.raftLog := by
  obtain ⟨r1, b, ht, hb⟩ := c02_step_cases h
  have hpre : LogFrozen r.raftLog r1.raftLog := by
    rcases c02_stepTerm_cases ht with ⟨e, _⟩ | ⟨_, _, _, x, hs, _⟩ | ⟨_, _, _, _, l, e⟩
    · subst e; exact LogFrozen.rfl
    · rw [send_eq r r1 _ hs]; exact LogFrozen.rfl
    · subst e; exact (c02_becomeFollower_keep r m.term l).log.frozen
  rcases hb with ⟨_, e⟩ | ⟨_, hd⟩
  · subst e; exact hpre
  · exact hpre.trans (c03_dispatch_frozen hd hc)

/-- the consequences spelled out: same `last_index`, `last_term`, same answer to `is_up_to_date`,
same term at every index -/
theorem C03_candidate_log_frozen_tail (r r' : Raft) (m : Message) (res : Option RaftError)
    (h : r.step m = .ok (r', res)) (hc : r'.state = .candidate ∨ r'.state = .preCandidate) :
    r'.raftLog.lastIndex = r.raftLog.lastIndex ∧ r'.raftLog.lastTerm = r.raftLog.lastTerm ∧
    (∀ i, r'.raftLog.term i = r.raftLog.term i) ∧
    (∀ i t, r'.raftLog.isUpToDate i t = r.raftLog.isUpToDate i t) ∧
    r.raftLog.committed ≤ r'.raftLog.committed := by
  have hf := C03_candidate_log_frozen_node r r' m res h hc
  exact ⟨hf.lastIndex, hf.lastTerm, hf.term, hf.isUpToDate, hf.committed⟩

/-! ### Non-vacuity: concrete states and messages (evaluated by `decide`) -/

section Examples

/-- the voter's log ends at (term 2, index 1), nothing committed -/
example : c02_exFollower.raftLog.lastIndex = 1 ∧ c02_exFollower.raftLog.lastTerm = .ok 2 ∧
    c02_exFollower.raftLog.commitInfo = .ok (0, 0) := by decide

/-- (1) a real vote request of term 3 advertising (term 2, index 1) — exactly the voter's tail — is
granted: one response, `reject = false`, carrying the request's term -/
example : c02_okAnd (c02_exFollower.step
      { msgType := .msgRequestVote, frm := 2, term := 3, logTerm := 2, index := 1 })
    (fun x => x.1.msgs.map (fun q => (q.msgType, q.to, q.term, q.reject)) ==
      [(.msgRequestVoteResponse, 2, 3, false)] && x.1.vote == 2 && x.1.term == 3) = true := by decide

/-- (1) the same request advertising (term 2, index 0) or (term 1, index 5) is refused, with the
voter's commit point -/
example : c02_okAnd (c02_exFollower.step
      { msgType := .msgRequestVote, frm := 2, term := 3, logTerm := 2, index := 0 })
    (fun x => x.1.msgs.map (fun q => (q.msgType, q.to, q.term, q.reject)) ==
      [(.msgRequestVoteResponse, 2, 3, true)] && x.1.vote == 0) = true ∧
    c02_okAnd (c02_exFollower.step
      { msgType := .msgRequestVote, frm := 2, term := 3, logTerm := 1, index := 5 })
    (fun x => x.1.msgs.map (fun q => (q.msgType, q.to, q.term, q.reject)) ==
      [(.msgRequestVoteResponse, 2, 3, true)] && x.1.vote == 0) = true := by decide

/-- (1) a longer log wins whatever the priorities; an equal log is refused by a voter of higher
priority; a pre-vote request (term 3 = future term) of an up-to-date candidate is granted without
touching term or vote -/
example : c02_okAnd (({ c02_exFollower with priority := 5 } : Raft).step
      { msgType := .msgRequestVote, frm := 2, term := 3, logTerm := 2, index := 2 })
    (fun x => x.1.msgs.map (fun q => q.reject) == [false]) = true ∧
    c02_okAnd (({ c02_exFollower with priority := 5 } : Raft).step
      { msgType := .msgRequestVote, frm := 2, term := 3, logTerm := 2, index := 1 })
    (fun x => x.1.msgs.map (fun q => q.reject) == [true]) = true ∧
    c02_okAnd (c02_exFollower.step
      { msgType := .msgRequestPreVote, frm := 2, term := 3, logTerm := 2, index := 1 })
    (fun x => x.1.msgs.map (fun q => (q.msgType, q.reject, q.term)) ==
      [(.msgRequestPreVoteResponse, false, 3)] && x.1.vote == 0 && x.1.term == 2) = true := by decide

/-- (2) an election campaign of node 1: two requests, each with index 1, log term 2, commit (0, 0),
term 3 -/
example : c02_okAnd (c02_exFollower.campaign .election)
    (fun r => r.msgs.map (fun q => (q.msgType, q.to, q.frm, q.term, q.index, q.logTerm, q.commit, q.commitTerm)) ==
      [(.msgRequestVote, 2, 1, 3, 1, 2, 0, 0), (.msgRequestVote, 3, 1, 3, 1, 2, 0, 0)] &&
      r.state == .candidate) = true ∧
    c02_okAnd (c02_exFollower.campaign .preElection)
    (fun r => r.msgs.map (fun q => (q.msgType, q.to, q.term, q.index, q.logTerm)) ==
      [(.msgRequestPreVote, 2, 3, 1, 2), (.msgRequestPreVote, 3, 3, 1, 2)] &&
      r.state == .preCandidate && r.term == 2) = true := by decide

/-- (2) the only voter of its configuration wins at once and sends no request -/
example : selfWins c02_exSingle ∧
    c02_okAnd (c02_exSingle.campaign .election) (fun r => r.state == .leader && r.term == 3 &&
      r.msgs.all (fun q => q.msgType != .msgRequestVote)) = true := by
  constructor
  · unfold selfWins; decide
  · decide

/-- (3) the commit index of a candidate is NOT frozen: a rejection carrying the commit point (1, term 2)
advances `committed` from 0 to 1 while the node stays a candidate with the same entries -/
example : c02_exCandidate.raftLog.committed = 0 ∧
    c02_okAnd (c02_exCandidate.step
      { msgType := .msgRequestVoteResponse, frm := 2, term := 3, reject := true, commit := 1, commitTerm := 2 })
    (fun x => x.1.state == .candidate && x.1.raftLog.committed == 1 &&
      x.1.raftLog.lastIndex == 1 && x.1.raftLog.store == c02_exCandidate.raftLog.store &&
      x.1.raftLog.unstable == c02_exCandidate.raftLog.unstable) = true := by decide

/-- (3) the message of a leader of the candidate's term that appends an entry makes it a follower -/
example : c02_okAnd (c02_exCandidate.step
      { msgType := .msgAppend, frm := 2, term := 3, logTerm := 2, index := 1,
        entries := [{ term := 3, index := 2 }] })
    (fun x => x.1.state == .follower && x.1.raftLog.lastIndex == 2) = true := by decide

end Examples

end RaftProps.C03
