import RaftProofs.RaftNodeC02
import RaftProps.C11

/-!
# C02b — the vote obligations of election safety, on the node model

The cluster-level proof of C02 (`RaftProps/C02.lean`, abstract protocol P) rests on two obligations of
every node: *a node grants at most one vote per term* (P's `grant` needs `vote = none ∨ vote = c`) and
*a candidate becomes leader only with the votes of a majority of every voter set* (P's `win`).  Here
they are theorems about the executable model of `src/raft.rs` (`RaftModel.Raft*`, tied to the code by
differential testing), for ALL states and ALL messages unless a hypothesis is named.

What is NOT here: that the `vote` field survives a restart is a statement about `HardState`
persistence (`RawNode::ready` / `Raft::new` + `load_state`, covered by C13/C20b), not about `step`.
-/
namespace RaftProps.C02
open RaftModel RaftModel.Raft RaftModel.Raft.VoteOb

/-! ### 4. One vote per term -/

/-- `can_vote` for a real vote (raft.rs:1491): the node voted for this candidate already, or has not
voted and knows no leader -/
theorem c02_canVote_real {r : Raft} {m : Message} (hm : m.msgType = .msgRequestVote)
    (h : r.canVote m = true) : r.vote = m.frm ∨ (r.vote = 0 ∧ r.leaderId = 0) := by
  unfold Raft.canVote at h
  simp [hm] at h
  rcases h with h | h
  · exact Or.inl h
  · exact Or.inr h

/-- **C02 (4) `real_vote_recorded_once`.**  The `MsgRequestVote | MsgRequestPreVote` arm of `step`
(raft.rs:1489-1533), for every state and request.  It never changes the term.  If a *real* vote is
granted (`vote_granted`), then beforehand `vote = m.from ∨ (vote = 0 ∧ leader_id = 0)`, and afterwards
`vote = m.from` and `election_elapsed = 0`.  A granted *pre*-vote and every refusal leave `vote`
unchanged.  Hence the arm never replaces a non-zero vote by a different one. -/
theorem C02_real_vote_recorded_once (r r' : Raft) (m : Message) (h : r.stepVote m = .ok r') :
    r'.term = r.term ∧
    (r.voteGranted m = .ok true ∧ m.msgType = .msgRequestVote →
      (r.vote = m.frm ∨ (r.vote = 0 ∧ r.leaderId = 0)) ∧ r'.vote = m.frm ∧ r'.electionElapsed = 0) ∧
    (r.voteGranted m = .ok true ∧ m.msgType ≠ .msgRequestVote →
      r'.vote = r.vote ∧ r'.electionElapsed = r.electionElapsed) ∧
    (r.voteGranted m = .ok false → r'.vote = r.vote) ∧
    (r.vote ≠ 0 → r'.vote = r.vote) := by
  have hv := c02_stepVote_spec h
  have h1 : r.voteGranted m = .ok true ∧ m.msgType = .msgRequestVote →
      (r.vote = m.frm ∨ (r.vote = 0 ∧ r.leaderId = 0)) ∧ r'.vote = m.frm ∧ r'.electionElapsed = 0 := by
    rintro ⟨hg, hm⟩
    have hc := ((c02_voteGranted_iff r m).1 hg).1
    exact ⟨c02_canVote_real hm hc, (hv.granted hg).2.2.2.2.1 hm⟩
  have h2 : r.voteGranted m = .ok true ∧ m.msgType ≠ .msgRequestVote →
      r'.vote = r.vote ∧ r'.electionElapsed = r.electionElapsed :=
    fun ⟨hg, hm⟩ => (hv.granted hg).2.2.2.2.2 hm
  refine ⟨hv.term, h1, h2, fun hf => (hv.refused hf).1, fun hnz => ?_⟩
  rcases hv.decided with hg | hf
  · by_cases hm : m.msgType = .msgRequestVote
    · obtain ⟨a, b, _⟩ := h1 ⟨hg, hm⟩
      rcases a with a | a
      · rw [b, a]
      · exact absurd a.1 hnz
    · exact (h2 ⟨hg, hm⟩).1
  · exact (hv.refused hf).1

/-- what `step` may do to (term, vote): raise the term; or keep both; or, at an unchanged term,
record a granted real vote over "no vote" -/
def VoteDiscipline (r r' : Raft) (m : Message) : Prop :=
  r.term < r'.term ∨
  (r'.term = r.term ∧
    (r'.vote = r.vote ∨
     (m.msgType = .msgRequestVote ∧ r.vote = 0 ∧ r.leaderId = 0 ∧ r'.vote = m.frm ∧
        r'.electionElapsed = 0)))

/-- a (pre-)campaign: the term rises, or term and vote are kept -/
theorem c02_campaign_tv {r r' : Raft} {ct : CampaignType} (h : r.campaign ct = .ok r') :
    r.term < r'.term ∨ (r'.term = r.term ∧ r'.vote = r.vote) := by
  rcases c02_campaign_cases h with w | w
  · obtain ⟨r0, _, k2, _, _, _, k6⟩ := w.path
    have := (c02_wonBy_spec k6).2.1
    left; omega
  · by_cases hct : ct = .preElection
    · right
      have h1 := w.term; have h2 := w.vote
      rw [if_pos hct] at h1 h2
      exact ⟨h1, h2⟩
    · left
      have h1 := w.term
      rw [if_neg hct] at h1
      omega

theorem c02_hup_tv {r r' : Raft} {tr : Bool} (h : r.hup tr = .ok r') :
    r.term < r'.term ∨ (r'.term = r.term ∧ r'.vote = r.vote) := by
  rcases c02_hup_cases h with e | ⟨_, _, ct, hc, _⟩
  · subst e; exact Or.inr ⟨rfl, rfl⟩
  · exact c02_campaign_tv hc

/-- the response arm of `step_candidate`: `poll`, then `maybe_commit_by_vote` -/
theorem c02_poll_tv {r r2 r' : Raft} {m : Message} {frm : Nat} {t : MsgType} {v : Bool}
    {res : VoteResult} (hp : r.poll frm t v = .ok (r2, res)) (hc : r2.maybeCommitByVote m = .ok r') :
    r.term < r'.term ∨ (r'.term = r.term ∧ r'.vote = r.vote) := by
  obtain ⟨_, _, q3, q4, _⟩ := c02_maybeCommitByVote_spec hc
  unfold Raft.poll at hp
  obtain ⟨_, p2⟩ := c02_pollWith_cases hp
  rcases p2 with ⟨_, _, c⟩ | ⟨_, _, c⟩ | ⟨_, c⟩ | ⟨_, c⟩
  · left
    unfold Raft.campaignAfterPreVote at c
    have : (voted r frm v).term + 1 = r2.term := by
      rcases c02_campaignWith_election (by decide) c with w | w
      · obtain ⟨r0, _, k2, _, _, _, k6⟩ := w.path
        rw [(c02_wonBy_spec k6).2.1, k2]
      · have := w.term; rw [if_neg (by decide)] at this; exact this.symm
    have e : (voted r frm v).term = r.term := rfl
    omega
  · right
    obtain ⟨_, b, c', _⟩ := c02_wonBy_spec c
    exact ⟨q3.trans b, q4.trans c'⟩
  · right
    subst c
    obtain ⟨_, _, _, f4, f5⟩ := c02_becomeFollower_fields (voted r frm v) r.term 0
    refine ⟨q3.trans f4, q4.trans ?_⟩
    rw [f5]; show (if r.term ≠ r.term then 0 else r.vote) = r.vote; simp
  · right
    subst c
    exact ⟨q3, q4⟩

/-- everything `step` does after the term preamble -/
theorem c02_dispatch_discipline {r1 r' : Raft} {m : Message} {res : Option RaftError}
    (hd : (m.msgType = .msgHup ∧ r1.hup false = .ok r') ∨
      ((m.msgType = .msgRequestVote ∨ m.msgType = .msgRequestPreVote) ∧ r1.stepVote m = .ok r') ∨
      (m.msgType ≠ .msgHup ∧ m.msgType ≠ .msgRequestVote ∧ m.msgType ≠ .msgRequestPreVote ∧
        (((r1.state = .candidate ∨ r1.state = .preCandidate) ∧ r1.stepCandidate m = .ok (r', res)) ∨
         (r1.state = .follower ∧ r1.stepFollower m = .ok (r', res)) ∨
         (r1.state = .leader ∧ r1.stepLeader m = .ok (r', res))))) :
    VoteDiscipline r1 r' m := by
  have lift : (r1.term < r'.term ∨ (r'.term = r1.term ∧ r'.vote = r1.vote)) → VoteDiscipline r1 r' m :=
    fun h => h.elim Or.inl (fun h => Or.inr ⟨h.1, Or.inl h.2⟩)
  rcases hd with ⟨_, hh⟩ | ⟨_, hv⟩ | ⟨_, _, _, hr⟩
  · exact lift (c02_hup_tv hh)
  · obtain ⟨a, b, c, d, _⟩ := C02_real_vote_recorded_once r1 r' m hv
    have hva := c02_stepVote_spec hv
    right
    refine ⟨a, ?_⟩
    rcases hva.decided with hg | hf
    · by_cases hm : m.msgType = .msgRequestVote
      · obtain ⟨x, y, z⟩ := b ⟨hg, hm⟩
        rcases x with x | x
        · left; rw [y, x]
        · exact Or.inr ⟨hm, x.1, x.2, y, z⟩
      · exact Or.inl (c ⟨hg, hm⟩).1
    · exact Or.inl (d hf)
  · rcases hr with ⟨hs, hc⟩ | ⟨hs, hf⟩ | ⟨hs, hl⟩
    · rcases c02_stepCandidate_cases hs hc with e | ⟨_, ht, hf⟩ | ⟨_, r2, res2, hp, hm⟩
      · subst e; exact lift (Or.inr ⟨rfl, rfl⟩)
      · apply lift; right
        obtain ⟨_, _, _, f4, f5⟩ := c02_becomeFollower_fields r1 m.term m.frm
        refine ⟨hf.term.trans (f4.trans ht.symm), hf.vote.trans ?_⟩
        rw [f5]; simp [ht]
      · exact lift (c02_poll_tv hp hm)
    · rcases c02_stepFollower_cases hs hf with t | ⟨_, _, hh⟩
      · exact lift (Or.inr ⟨t.term, t.vote⟩)
      · exact lift (c02_hup_tv hh)
    · rcases c02_stepLeader_cases hl with t | ⟨_, t1, t2⟩
      · exact lift (Or.inr ⟨t.term, t.vote⟩)
      · exact lift (Or.inr ⟨t1, t2⟩)

/-- **C02 (4) `vote_discipline`** — the complete list of what `Raft::step` can do to `(term, vote)`,
for every state and every message: the term rises; or term and vote are both unchanged; or the term
is unchanged, the message is a real `MsgRequestVote` that is granted, and the vote goes from "none"
(`vote = 0`, and `leader_id = 0`) to `m.from`, resetting the election timer.  (`reset` keeps the vote
when the term is unchanged — `become_leader`, a lost election, a check-quorum step-down —;
`become_candidate` raises the term; `become_follower` in the preamble is only taken for a higher
term.) -/
theorem C02_vote_discipline (r r' : Raft) (m : Message) (res : Option RaftError)
    (h : r.step m = .ok (r', res)) : VoteDiscipline r r' m := by
  obtain ⟨r1, b, ht, hb⟩ := c02_step_cases h
  have hpre : (r1.term = r.term ∧ r1.vote = r.vote ∧ r1.leaderId = r.leaderId) ∨
      (b = true ∧ r.term < r1.term) := by
    rcases c02_stepTerm_cases ht with ⟨e, _⟩ | ⟨_, _, _, x, hs, _⟩ | ⟨hb', hlt, _, _, l, e⟩
    · subst e; exact Or.inl ⟨rfl, rfl, rfl⟩
    · have hf := send_frame hs Frame.rfl
      exact Or.inl ⟨hf.term, hf.vote, hf.leaderId⟩
    · right
      subst e
      exact ⟨hb', by rw [(c02_becomeFollower_fields r m.term l).2.2.2.1]; exact hlt⟩
  rcases hb with ⟨hbf, e⟩ | ⟨_, hd⟩
  · subst e
    rcases hpre with ⟨a, b', _⟩ | ⟨c, _⟩
    · exact Or.inr ⟨a, Or.inl b'⟩
    · rw [hbf] at c; cases c
  · have hdd := c02_dispatch_discipline hd
    rcases hpre with ⟨a, b', c⟩ | ⟨_, c⟩
    · unfold VoteDiscipline at hdd ⊢
      rw [a, b', c] at hdd
      exact hdd
    · left
      rcases hdd with d | ⟨d, _⟩
      · omega
      · omega

/-- the term never decreases in `step` -/
theorem C02_term_monotone (r r' : Raft) (m : Message) (res : Option RaftError)
    (h : r.step m = .ok (r', res)) : r.term ≤ r'.term := by
  rcases C02_vote_discipline r r' m res h with d | ⟨d, _⟩ <;> omega

/-- **C02 (4) `vote_changes_only_from_none`.**  Within one term the `vote` field never changes from a
non-zero value to a different value: if `step` keeps the term and the node had voted, its vote is
unchanged. -/
theorem C02_vote_changes_only_from_none (r r' : Raft) (m : Message) (res : Option RaftError)
    (h : r.step m = .ok (r', res)) (ht : r'.term = r.term) (hv : r.vote ≠ 0) : r'.vote = r.vote := by
  rcases C02_vote_discipline r r' m res h with d | ⟨_, d | d⟩
  · omega
  · exact d
  · exact absurd d.2.1 hv

/-- **C02 (4) `vote_reset_only_with_term_rise`.**  A recorded vote is given up (reset, or replaced)
only together with a strictly higher term. -/
theorem C02_vote_reset_only_with_term_rise (r r' : Raft) (m : Message) (res : Option RaftError)
    (h : r.step m = .ok (r', res)) (hc : r'.vote ≠ r.vote) (hv : r.vote ≠ 0) : r.term < r'.term := by
  rcases C02_vote_discipline r r' m res h with d | ⟨_, d | d⟩
  · exact d
  · exact absurd d hc
  · exact absurd d.2.1 hv

/-! ### 5. A leader is made only by a quorum of recorded grants -/

/-- the tally `poll` acts on: the joint vote result, under the tracker's voter configuration, of the
recorded votes plus this one -/
theorem c02_voted_tally (r : Raft) (frm : Nat) (v : Bool) :
    (voted r frm v).prs.tallyVotes.2.2 =
      Tracker.voteResult r.prs.voters (r.prs.recordVote frm v).votes := by
  show Tracker.voteResult (r.prs.recordVote frm v).voters _ = _
  unfold ProgressTracker.voters
  rw [c02_recordVote_conf]
  rfl

/-- the voters with a recorded grant -/
def granters (votes : List (Nat × Bool)) : List Nat := (votes.filter (fun p => p.2)).map (fun p => p.1)

theorem c02_lookup_mem {α : Type} : ∀ (l : List (Nat × α)) (k : Nat) (v : α),
    l.lookup k = some v → (k, v) ∈ l := by
  intro l
  induction l with
  | nil => intro k v h; simp [List.lookup] at h
  | cons p rest ih =>
    intro k v h
    obtain ⟨k', v'⟩ := p
    unfold List.lookup at h
    by_cases hk : k = k'
    · subst hk
      simp at h
      subst h
      exact List.mem_cons_self
    · have : (k == k') = false := by simpa using hk
      simp only [this] at h
      exact List.mem_cons_of_mem _ (ih k v h)

/-- **`Won` means a majority of each voter set voted yes** (C11 `joint_voteResult_counts`): the tally
of recorded votes is `Won` exactly when, in each non-empty half of the (joint) configuration, at least
`majority` voters have a recorded grant. -/
theorem C02_won_iff_majorities (c : JointConfig) (votes : List (Nat × Bool)) :
    Tracker.voteResult c votes = .won ↔
      (c.incoming = [] ∨ majority c.incoming.length ≤ yesCount c.incoming (fun id => votes.lookup id)) ∧
      (c.outgoing = [] ∨ majority c.outgoing.length ≤ yesCount c.outgoing (fun id => votes.lookup id)) :=
  (RaftProps.C11.joint_voteResult_counts c (fun id => votes.lookup id)).1

/-- … hence the set of voters with a recorded grant is a joint quorum (`IsJointQuorum`, the notion the
C11 quorum-intersection theorems are about) -/
theorem C02_won_gives_joint_quorum (c : JointConfig) (votes : List (Nat × Bool))
    (h : Tracker.voteResult c votes = .won) : IsJointQuorum c (granters votes) := by
  have hle : ∀ vs : List Nat, yesCount vs (fun id => votes.lookup id) ≤
      vs.countP (fun v => decide (v ∈ granters votes)) := by
    intro vs
    apply List.countP_mono_left
    intro v _ hv
    have hv' : votes.lookup v = some true := by simpa using hv
    have hm := c02_lookup_mem votes v true hv'
    have : v ∈ granters votes := by
      simp only [granters, List.mem_map, List.mem_filter]
      exact ⟨(v, true), ⟨hm, rfl⟩, rfl⟩
    simpa using this
  obtain ⟨h1, h2⟩ := (C02_won_iff_majorities c votes).1 h
  refine ⟨fun hn => ?_, fun hn => ?_⟩
  · exact Nat.le_trans (h1.resolve_left hn) (hle _)
  · exact Nat.le_trans (h2.resolve_left hn) (hle _)

/-- the own vote alone is a quorum exactly when the node is a majority of each non-empty half by
itself (a single-voter configuration) -/
theorem C02_selfWins_iff (r : Raft) :
    selfWins r ↔
      (r.prs.conf.incoming = [] ∨
        majority r.prs.conf.incoming.length ≤ r.prs.conf.incoming.countP (fun v => v == r.id)) ∧
      (r.prs.conf.outgoing = [] ∨
        majority r.prs.conf.outgoing.length ≤ r.prs.conf.outgoing.countP (fun v => v == r.id)) := by
  have hy : ∀ vs : List Nat, yesCount vs (fun id => [(r.id, true)].lookup id) =
      vs.countP (fun v => v == r.id) := by
    intro vs
    apply List.countP_congr
    intro v _
    by_cases hv : v = r.id
    · simp [List.lookup, hv]
    · have : (v == r.id) = false := by simpa using hv
      simp [List.lookup, this]
  unfold selfWins
  rw [C02_won_iff_majorities, hy, hy]
  rfl

theorem c02_hup_win {r1 r' : Raft} {tr : Bool} (h : r1.hup tr = .ok r') (hs : r1.state ≠ .leader)
    (hl : r'.state = .leader) : selfWins r1 ∧ r'.term = r1.term + 1 ∧ r'.vote = r1.id := by
  rcases c02_hup_cases h with e | ⟨_, _, ct, hc, _⟩
  · subst e; exact absurd hl hs
  · rcases c02_campaign_cases hc with w | w
    · obtain ⟨r0, _, k2, k3, _, _, k6⟩ := w.path
      obtain ⟨_, b, c, _⟩ := c02_wonBy_spec k6
      exact ⟨w.self, b.trans k2, c.trans k3⟩
    · exfalso
      have a := w.state
      rw [hl] at a; split at a <;> cases a

/-- how the dispatch part of `step` can make a non-leader the leader -/
theorem c02_dispatch_win {r1 r' : Raft} {m : Message} {res : Option RaftError}
    (hd : (m.msgType = .msgHup ∧ r1.hup false = .ok r') ∨
      ((m.msgType = .msgRequestVote ∨ m.msgType = .msgRequestPreVote) ∧ r1.stepVote m = .ok r') ∨
      (m.msgType ≠ .msgHup ∧ m.msgType ≠ .msgRequestVote ∧ m.msgType ≠ .msgRequestPreVote ∧
        (((r1.state = .candidate ∨ r1.state = .preCandidate) ∧ r1.stepCandidate m = .ok (r', res)) ∨
         (r1.state = .follower ∧ r1.stepFollower m = .ok (r', res)) ∨
         (r1.state = .leader ∧ r1.stepLeader m = .ok (r', res)))))
    (hs : r1.state ≠ .leader) (hl : r'.state = .leader) :
    (r1.state = .candidate ∧ m.msgType = .msgRequestVoteResponse ∧
      Tracker.voteResult r1.prs.voters (r1.prs.recordVote m.frm (!m.reject)).votes = .won ∧
      r'.term = r1.term ∧ r'.vote = r1.vote) ∨
    (selfWins r1 ∧ r'.term = r1.term + 1 ∧ r'.vote = r1.id ∧
      (m.msgType = .msgHup ∨ m.msgType = .msgTimeoutNow ∨
       (r1.state = .preCandidate ∧ m.msgType = .msgRequestPreVoteResponse ∧
         Tracker.voteResult r1.prs.voters (r1.prs.recordVote m.frm (!m.reject)).votes = .won ∧
         (m.reject = true ∨ m.term = r1.term + 1)))) := by
  rcases hd with ⟨hm, hh⟩ | ⟨_, hv⟩ | ⟨_, _, _, hr⟩
  · obtain ⟨a, b, c⟩ := c02_hup_win hh hs hl
    exact Or.inr ⟨a, b, c, Or.inl hm⟩
  · exfalso
    have hva := c02_stepVote_spec hv
    rcases hva.decided with hg | hf
    · exact hs ((hva.granted hg).2.1 ▸ hl)
    · rcases (hva.refused hf).2 with ⟨a, _⟩ | ⟨_, a, _⟩
      · exact hs (a ▸ hl)
      · rw [hl] at a; cases a
  · rcases hr with ⟨hsc, hc⟩ | ⟨hsf, hf⟩ | ⟨hsl, _⟩
    · rcases c02_stepCandidate_cases hsc hc with e | ⟨_, _, hf⟩ | ⟨hk, r2, res2, hp, hmc⟩
      · subst e; exact absurd hl hs
      · have := hf.state; rw [hl] at this; cases this
      · obtain ⟨_, _, q3, q4, _, _, q7⟩ := c02_maybeCommitByVote_spec hmc
        have hl2 : r2.state = .leader := by
          rcases q7 with ⟨a, _⟩ | ⟨_, a, _⟩
          · rw [← a]; exact hl
          · rw [hl] at a; cases a
        unfold Raft.poll at hp
        obtain ⟨p1, p2⟩ := c02_pollWith_cases hp
        rw [c02_voted_tally] at p1
        rcases p2 with ⟨a, b, c⟩ | ⟨a, b, c⟩ | ⟨_, c⟩ | ⟨_, c⟩
        · unfold Raft.campaignAfterPreVote at c
          have hty : m.msgType = .msgRequestPreVoteResponse ∧ (m.reject = true ∨ m.term = r1.term + 1) := by
            rcases hk with ⟨k, _⟩ | ⟨_, k⟩
            · rw [b] at k; cases k
            · exact k
          rcases c02_campaignWith_election (by decide) c with w | w
          · obtain ⟨r0, _, k2, k3, _, _, k6⟩ := w.path
            obtain ⟨_, x, y, _⟩ := c02_wonBy_spec k6
            refine Or.inr ⟨(c02_selfWins_keep (c02_voted_keep _ _ _)).1 w.self, ?_, ?_,
              Or.inr (Or.inr ⟨b, hty.1, by rw [← p1]; exact a, hty.2⟩)⟩
            · rw [q3, x, k2]; rfl
            · rw [q4, y, k3]; rfl
          · exfalso
            have x := w.state
            rw [hl2] at x; cases x
        · have hty : r1.state = .candidate ∧ m.msgType = .msgRequestVoteResponse := by
            rcases hk with k | ⟨k, _⟩
            · exact k
            · exact absurd k b
          obtain ⟨_, x, y, _⟩ := c02_wonBy_spec c
          exact Or.inl ⟨hty.1, hty.2, by rw [← p1]; exact a, q3.trans x, q4.trans y⟩
        · subst c; cases hl2
        · subst c; exact absurd hl2 hs
    · rcases c02_stepFollower_cases hsf hf with t | ⟨hm, _, hh⟩
      · exact absurd (t.state ▸ hl) hs
      · obtain ⟨a, b, c⟩ := c02_hup_win hh hs hl
        exact Or.inr ⟨a, b, c, Or.inr (Or.inl hm)⟩
    · exact absurd hsl hs

/-- how `step` can make a non-leader the leader: a candidate counted a vote response that completes a
quorum of recorded grants; or the node's own vote is a quorum of its configuration -/
def WonElection (r r' : Raft) (m : Message) : Prop :=
  (r.state = .candidate ∧ m.msgType = .msgRequestVoteResponse ∧ (m.term = r.term ∨ m.term = 0) ∧
    Tracker.voteResult r.prs.voters (r.prs.recordVote m.frm (!m.reject)).votes = .won ∧
    r'.term = r.term ∧ r'.vote = r.vote) ∨
  (selfWins r ∧ r.term < r'.term ∧ r'.vote = r.id ∧
    (m.msgType = .msgHup ∨ m.msgType = .msgTimeoutNow ∨
     (r.state = .preCandidate ∧ m.msgType = .msgRequestPreVoteResponse ∧
       Tracker.voteResult r.prs.voters (r.prs.recordVote m.frm (!m.reject)).votes = .won ∧
       (m.reject = true ∨ m.term = r.term + 1))))

/-- **C02 (5) `win_needs_quorum`.**  The role `Leader` is entered only through `become_leader`, called
only from `poll` when the tally of the recorded votes is `Won` for the tracker's (joint)
configuration.  For every state and message: if `step` turns a non-leader into a leader, then

* (a) the node was a **candidate**, `m` is a `MsgRequestVoteResponse` of its own term (`m.term =
  r.term`; or the degenerate `m.term = 0`, which the preamble treats as a local message — no peer
  sends a vote response without a term, `send` refuses it), and the recorded votes
  (`r.prs.votes`, first answer of a peer wins) **plus this response** tally to `Won` under the
  tracker's voter configuration — by `C02_won_iff_majorities` a majority of each non-empty half has a
  recorded grant; term and vote are unchanged (the vote of a candidate is its own id); or
* (b) **the node's own vote is a quorum** of its configuration (`selfWins`, a single-voter
  configuration, `C02_selfWins_iff`): the step is a campaign trigger (`MsgHup`, `MsgTimeoutNow`) or the
  pre-vote response that completes a pre-candidate's pre-vote quorum — since fix F16 a *granted*
  pre-vote response is counted only if it carries the term of this pre-campaign, `m.term = r.term + 1`
  (`WonElection` now says so; a grant of any other term is ignored, `C16_stale_prevote_grant_ignored`);
  the node campaigns inside the step (`become_candidate`: term + 1, vote for itself) and wins with its
  own vote.

A pre-vote response is never counted towards leadership: in (b) the real election that follows is won
by the own vote alone. -/
theorem C02_win_needs_quorum (r r' : Raft) (m : Message) (res : Option RaftError)
    (h : r.step m = .ok (r', res)) (hs : r.state ≠ .leader) (hl : r'.state = .leader) :
    WonElection r r' m := by
  obtain ⟨r1, b, ht, hb⟩ := c02_step_cases h
  rcases c02_stepTerm_cases ht with ⟨e, hterm⟩ | ⟨hbf, _, _, x, hsd, _⟩ | ⟨hbt, hlt, _, _, l, e⟩
  · subst e
    rcases hb with ⟨_, e⟩ | ⟨hbt, hd⟩
    · subst e; exact absurd hl hs
    · rcases c02_dispatch_win hd hs hl with ⟨a, b', c, d, e⟩ | ⟨a, b', c, d⟩
      · left
        refine ⟨a, b', ?_, c, d, e⟩
        rcases hterm hbt with t | t | ⟨_, t | t⟩
        · exact Or.inr t
        · exact Or.inl t
        · rw [b'] at t; cases t
        · rw [b'] at t; cases t.1
      · exact Or.inr ⟨a, by omega, c, d⟩
  · rcases hb with ⟨_, e⟩ | ⟨hbt, _⟩
    · subst e
      exact absurd ((send_frame hsd Frame.rfl).state ▸ hl) hs
    · rw [hbf] at hbt; cases hbt
  · subst e
    rcases hb with ⟨hbf, _⟩ | ⟨_, hd⟩
    · rw [hbt] at hbf; cases hbf
    · have hk := c02_becomeFollower_keep r m.term l
      obtain ⟨f1, _, _, f4, _⟩ := c02_becomeFollower_fields r m.term l
      rcases c02_dispatch_win hd (by rw [f1]; decide) hl with ⟨a, _⟩ | ⟨a, b', c, d⟩
      · rw [f1] at a; cases a
      · refine Or.inr ⟨(c02_selfWins_keep hk).1 a, by rw [b', f4]; omega, c.trans hk.id, ?_⟩
        rcases d with d | d | ⟨d, _⟩
        · exact Or.inl d
        · exact Or.inr (Or.inl d)
        · rw [f1] at d; cases d

/-- **C02 (5), kinds are not mixed.**  `step_candidate` checks the response type against the role
(raft.rs:2352-2360): a *candidate* ignores every `MsgRequestPreVoteResponse`, a *pre-candidate*
ignores every `MsgRequestVoteResponse` — the node is left exactly as it was. -/
theorem C02_wrong_kind_response_ignored (r : Raft) (m : Message)
    (h : (r.state = .candidate ∧ m.msgType = .msgRequestPreVoteResponse) ∨
         (r.state = .preCandidate ∧ m.msgType = .msgRequestVoteResponse)) :
    r.stepCandidate m = .ok (r, none) := by
  unfold Raft.stepCandidate
  rcases h with ⟨hs, hm⟩ | ⟨hs, hm⟩ <;> simp [hs, hm]

/-- … at the level of `step`: a pre-vote response that is granted, or not from a higher term, changes
nothing at all in a candidate (a *rejected* one from a higher term makes it a follower of that term,
like any higher-term message) -/
theorem C02_candidate_ignores_prevote_response (r : Raft) (m : Message) (hs : r.state = .candidate)
    (hm : m.msgType = .msgRequestPreVoteResponse) (ht : ¬ r.term < m.term ∨ m.reject = false) :
    r.step m = .ok (r, none) := by
  have hst : (r.stepTerm m = .ok (r, true)) ∨ (r.stepTerm m = .ok (r, false)) := by
    unfold Raft.stepTerm
    by_cases h0 : m.term = 0
    · simp [h0]
    · by_cases hgt : r.term < m.term
      · have hr : m.reject = false := ht.resolve_left (fun h => h hgt)
        simp [h0, hgt, hm, hr]
      · by_cases hlt : m.term < r.term
        · simp [h0, hgt, hlt, hm]
        · simp [h0, hgt, hlt]
  unfold Raft.step
  rcases hst with e | e
  · rw [e]; simp only [hm, hs]
    exact C02_wrong_kind_response_ignored r m (Or.inl ⟨hs, hm⟩)
  · rw [e]

/-- … and a pre-candidate ignores a real-vote response that is not from a higher term -/
theorem C02_precandidate_ignores_vote_response (r : Raft) (m : Message) (hs : r.state = .preCandidate)
    (hm : m.msgType = .msgRequestVoteResponse) (ht : ¬ r.term < m.term) :
    r.step m = .ok (r, none) := by
  have hst : (r.stepTerm m = .ok (r, true)) ∨ (r.stepTerm m = .ok (r, false)) := by
    unfold Raft.stepTerm
    by_cases h0 : m.term = 0
    · simp [h0]
    · by_cases hlt : m.term < r.term
      · simp [h0, ht, hlt, hm]
      · simp [h0, ht, hlt]
  unfold Raft.step
  rcases hst with e | e
  · rw [e]; simp only [hm, hs]
    exact C02_wrong_kind_response_ignored r m (Or.inr ⟨hs, hm⟩)
  · rw [e]

/-- **first answer wins** (`entry(id).or_insert(vote)`, tracker.rs:297): once a peer's vote is
recorded, a second response of that peer — a duplicate, or a contradicting one — changes nothing -/
theorem C02_vote_counted_once (t : ProgressTracker) (id : Nat) (v v' : Bool) :
    (t.recordVote id v).recordVote id v' = t.recordVote id v := by
  have hins : ∀ (l : List (Nat × Bool)), (NatMap.insert id v l).lookup id = some v := by
    intro l
    induction l with
    | nil => simp [NatMap.insert]
    | cons p rest ih =>
      obtain ⟨k, w⟩ := p
      unfold NatMap.insert
      by_cases h1 : id < k
      · simp [h1]
      · by_cases h2 : id = k
        · simp [h2]
        · have : (id == k) = false := by simpa using h2
          simp [h1, h2, List.lookup, this, ih]
  cases hl : t.votes.lookup id with
  | some w =>
    have e : t.recordVote id v = t := by unfold ProgressTracker.recordVote; rw [hl]
    rw [e]; unfold ProgressTracker.recordVote; rw [hl]
  | none =>
    have e : t.recordVote id v = { t with votes := NatMap.insert id v t.votes } := by
      unfold ProgressTracker.recordVote; rw [hl]
    rw [e]
    unfold ProgressTracker.recordVote
    simp only [hins]

/-! ### 6. A campaign starts from an empty vote record -/

/-- **C02 (6) `votes_reset_on_campaign`.**  `become_candidate` and `become_pre_candidate` start from an
empty vote record (`reset` → `prs.reset_votes`, raft.rs:1020 / 1215); `campaign` then registers only
the node's own vote before any response: after `campaign`, either the node is leader already (own vote
is a quorum), or it is a (pre-)candidate and the record is exactly `[(id, true)]`.  (The own vote alone
never *loses* — `c02_self_not_lost` — so the `Lost` arm of `poll` is dead inside `campaign`.) -/
theorem C02_votes_reset_on_campaign :
    (∀ r r' : Raft, r.becomeCandidate = .ok r' →
      r'.prs.votes = [] ∧ r'.term = r.term + 1 ∧ r'.vote = r.id ∧ r'.state = .candidate) ∧
    (∀ r r' : Raft, r.becomePreCandidate = .ok r' →
      r'.prs.votes = [] ∧ r'.term = r.term ∧ r'.vote = r.vote ∧ r'.state = .preCandidate) ∧
    (∀ (r r' : Raft) (ct : CampaignType), r.campaign ct = .ok r' →
      (r'.state = .leader ∧ selfWins r) ∨
      ((r'.state = .candidate ∨ r'.state = .preCandidate) ∧ r'.prs.votes = [(r.id, true)])) := by
  refine ⟨fun r r' h => ?_, fun r r' h => ?_, fun r r' ct h => ?_⟩
  · obtain ⟨_, a, b, c, d, _⟩ := c02_becomeCandidate_spec h
    exact ⟨d, a, b, c⟩
  · obtain ⟨_, a, b, c, d, _⟩ := c02_becomePreCandidate_spec h
    exact ⟨d, a, b, c⟩
  · rcases c02_campaign_cases h with w | w
    · obtain ⟨r0, _, _, _, _, _, k6⟩ := w.path
      exact Or.inl ⟨(c02_wonBy_spec k6).1, w.self⟩
    · have a := w.state
      refine Or.inr ⟨?_, w.votes⟩
      split at a
      · exact Or.inr a
      · exact Or.inl a

theorem c02_hup_newcand {r1 r' : Raft} {tr : Bool} (h : r1.hup tr = .ok r')
    (hc : r'.state = .candidate) (ht : r1.term < r'.term) :
    r'.prs.votes = [(r1.id, true)] ∧ r'.vote = r1.id ∧ r'.term = r1.term + 1 := by
  rcases c02_hup_cases h with e | ⟨_, _, ct, hcm, _⟩
  · subst e; omega
  · rcases c02_campaign_cases hcm with w | w
    · obtain ⟨r0, _, _, _, _, _, k6⟩ := w.path
      have := (c02_wonBy_spec k6).1
      rw [hc] at this; cases this
    · have h1 := w.term; have h2 := w.vote
      by_cases hct : ct = .preElection
      · rw [if_pos hct] at h1; omega
      · rw [if_neg hct] at h1 h2
        exact ⟨w.votes, h2, h1⟩

theorem c02_dispatch_newcand {r1 r' : Raft} {m : Message} {res : Option RaftError}
    (hd : (m.msgType = .msgHup ∧ r1.hup false = .ok r') ∨
      ((m.msgType = .msgRequestVote ∨ m.msgType = .msgRequestPreVote) ∧ r1.stepVote m = .ok r') ∨
      (m.msgType ≠ .msgHup ∧ m.msgType ≠ .msgRequestVote ∧ m.msgType ≠ .msgRequestPreVote ∧
        (((r1.state = .candidate ∨ r1.state = .preCandidate) ∧ r1.stepCandidate m = .ok (r', res)) ∨
         (r1.state = .follower ∧ r1.stepFollower m = .ok (r', res)) ∨
         (r1.state = .leader ∧ r1.stepLeader m = .ok (r', res)))))
    (hc : r'.state = .candidate) (ht : r1.term < r'.term) :
    r'.prs.votes = [(r1.id, true)] ∧ r'.vote = r1.id ∧ r'.term = r1.term + 1 := by
  rcases hd with ⟨_, hh⟩ | ⟨_, hv⟩ | ⟨_, _, _, hr⟩
  · exact c02_hup_newcand hh hc ht
  · have := (c02_stepVote_spec hv).term; omega
  · rcases hr with ⟨hsc, hcd⟩ | ⟨hsf, hf⟩ | ⟨_, hl⟩
    · rcases c02_stepCandidate_cases hsc hcd with e | ⟨_, _, hf⟩ | ⟨_, r2, res2, hp, hmc⟩
      · subst e; omega
      · have := hf.state; rw [hc] at this; cases this
      · obtain ⟨_, _, q3, q4, _, _, q7⟩ := c02_maybeCommitByVote_spec hmc
        have hq : r2.state = .candidate ∧ r'.prs.votes = r2.prs.votes := by
          rcases q7 with ⟨a, b, _⟩ | ⟨_, a, _⟩
          · exact ⟨by rw [← a]; exact hc, b⟩
          · rw [hc] at a; cases a
        unfold Raft.poll at hp
        obtain ⟨_, p2⟩ := c02_pollWith_cases hp
        rcases p2 with ⟨_, _, c⟩ | ⟨_, _, c⟩ | ⟨_, c⟩ | ⟨_, c⟩
        · unfold Raft.campaignAfterPreVote at c
          rcases c02_campaignWith_election (by decide) c with w | w
          · obtain ⟨r0, _, _, _, _, _, k6⟩ := w.path
            have := (c02_wonBy_spec k6).1
            rw [hq.1] at this; cases this
          · have h1 := w.term; have h2 := w.vote
            rw [if_neg (by decide)] at h1 h2
            exact ⟨hq.2.trans w.votes, q4.trans h2, q3.trans h1⟩
        · have := (c02_wonBy_spec c).2.1
          have e : (voted r1 m.frm (!m.reject)).term = r1.term := rfl
          omega
        · subst c
          have := (c02_becomeFollower_fields (voted r1 m.frm (!m.reject)) r1.term 0).2.2.2.1
          omega
        · subst c
          have e : (voted r1 m.frm (!m.reject)).term = r1.term := rfl
          omega
    · rcases c02_stepFollower_cases hsf hf with t | ⟨_, _, hh⟩
      · have := t.term; omega
      · exact c02_hup_newcand hh hc ht
    · rcases c02_stepLeader_cases hl with t | ⟨_, t, _⟩
      · have := t.term; omega
      · omega

/-- **C02 (6), at the level of `step`.**  Whenever a step leaves the node a candidate of a higher term
than before — it started an election in this step: `MsgHup`, `MsgTimeoutNow`, or a won pre-vote —
its vote record is exactly its own grant and its `vote` is its own id: no response of an earlier
campaign (or pre-campaign) is carried over. -/
theorem C02_new_candidate_has_only_own_vote (r r' : Raft) (m : Message) (res : Option RaftError)
    (h : r.step m = .ok (r', res)) (hc : r'.state = .candidate) (ht : r.term < r'.term) :
    r'.prs.votes = [(r.id, true)] ∧ r'.vote = r.id := by
  obtain ⟨r1, b, hst, hb⟩ := c02_step_cases h
  rcases c02_stepTerm_cases hst with ⟨e, _⟩ | ⟨hbf, _, _, x, hsd, _⟩ | ⟨hbt, hlt, _, _, l, e⟩
  · subst e
    rcases hb with ⟨_, e⟩ | ⟨_, hd⟩
    · subst e; omega
    · obtain ⟨a, b', _⟩ := c02_dispatch_newcand hd hc ht
      exact ⟨a, b'⟩
  · rcases hb with ⟨_, e⟩ | ⟨hbt, _⟩
    · subst e
      have := (send_frame hsd Frame.rfl).term; omega
    · rw [hbf] at hbt; cases hbt
  · subst e
    rcases hb with ⟨hbf, _⟩ | ⟨_, hd⟩
    · rw [hbt] at hbf; cases hbf
    · have hk := c02_becomeFollower_keep r m.term l
      obtain ⟨f1, _, _, f4, _⟩ := c02_becomeFollower_fields r m.term l
      by_cases hlt2 : (r.becomeFollower m.term l).term < r'.term
      · obtain ⟨a, b', _⟩ := c02_dispatch_newcand hd hc hlt2
        rw [hk.id] at a b'
        exact ⟨a, b'⟩
      · exfalso
        -- the dispatch kept the term: a follower does not become a candidate without raising it
        rcases c02_dispatch_discipline hd with d | ⟨d, _⟩
        · exact hlt2 d
        · rcases hd with ⟨_, hh⟩ | ⟨_, hv⟩ | ⟨_, _, _, hr⟩
          · rcases c02_hup_cases hh with e | ⟨_, _, ct, hcm, _⟩
            · rw [e, f1] at hc; cases hc
            · rcases c02_campaign_cases hcm with w | w
              · obtain ⟨r0, _, _, _, _, _, k6⟩ := w.path
                have := (c02_wonBy_spec k6).1
                rw [hc] at this; cases this
              · have h1 := w.term
                by_cases hct : ct = .preElection
                · have a := w.state
                  rw [if_pos hct, hc] at a; cases a
                · rw [if_neg hct] at h1; omega
          · have hva := c02_stepVote_spec hv
            rcases hva.decided with hg | hf
            · have := (hva.granted hg).2.1; rw [hc, f1] at this; cases this
            · rcases (hva.refused hf).2 with ⟨a, _⟩ | ⟨_, a, _⟩
              · rw [hc, f1] at a; cases a
              · rw [hc] at a; cases a
          · rcases hr with ⟨hsc, _⟩ | ⟨hsf, hf⟩ | ⟨hsl, _⟩
            · rw [f1] at hsc; rcases hsc with x | x <;> cases x
            · rcases c02_stepFollower_cases hsf hf with t | ⟨_, _, hh⟩
              · have := t.state; rw [hc, f1] at this; cases this
              · rcases c02_hup_cases hh with e | ⟨_, _, ct, hcm, _⟩
                · rw [e, f1] at hc; cases hc
                · rcases c02_campaign_cases hcm with w | w
                  · obtain ⟨r0, _, _, _, _, _, k6⟩ := w.path
                    have := (c02_wonBy_spec k6).1
                    rw [hc] at this; cases this
                  · have h1 := w.term
                    by_cases hct : ct = .preElection
                    · have a := w.state
                      rw [if_pos hct, hc] at a; cases a
                    · rw [if_neg hct] at h1; omega
            · rw [f1] at hsl; cases hsl

/-! ### 7. Non-vacuity: concrete states and messages (evaluated by `decide`) -/

section Examples

/-- (4) follower 1 of {1,2,3} at term 2 has not voted; it grants node 2's request of its own term 2,
records `vote = 2` and resets the election timer … -/
example : c02_exFollower.vote = 0 ∧ c02_exFollower.leaderId = 0 ∧
    c02_okAnd (({ c02_exFollower with electionElapsed := 7 } : Raft).step
      { msgType := .msgRequestVote, frm := 2, term := 2, logTerm := 2, index := 1 })
    (fun x => x.1.vote == 2 && x.1.term == 2 && x.1.electionElapsed == 0 &&
      x.1.msgs.map (fun q => q.reject) == [false]) = true := by decide

/-- … after which node 3's equally good request of the same term is refused and the vote stays 2,
while a repeated request of node 2 is granted again (`vote = m.from`) -/
example : c02_okAnd (({ c02_exFollower with vote := 2 } : Raft).step
      { msgType := .msgRequestVote, frm := 3, term := 2, logTerm := 2, index := 1 })
    (fun x => x.1.vote == 2 && x.1.term == 2 && x.1.msgs.map (fun q => q.reject) == [true]) = true ∧
    c02_okAnd (({ c02_exFollower with vote := 2 } : Raft).step
      { msgType := .msgRequestVote, frm := 2, term := 2, logTerm := 2, index := 1 })
    (fun x => x.1.vote == 2 && x.1.term == 2 && x.1.msgs.map (fun q => q.reject) == [false]) = true := by
  decide

/-- (4) the vote is given up only with a higher term: node 3's request of term 3 resets it (and is
then granted) -/
example : c02_okAnd (({ c02_exFollower with vote := 2 } : Raft).step
      { msgType := .msgRequestVote, frm := 3, term := 3, logTerm := 2, index := 1 })
    (fun x => x.1.vote == 3 && x.1.term == 3) = true := by decide

/-- (5a) candidate 1 of {1,2,3} with its own vote recorded becomes leader on node 2's grant: two
grants of three; a rejection leaves it a candidate -/
example : c02_exCandidate.state ≠ .leader ∧
    Tracker.voteResult c02_exCandidate.prs.voters (c02_exCandidate.prs.recordVote 2 true).votes = .won ∧
    c02_okAnd (c02_exCandidate.step { msgType := .msgRequestVoteResponse, frm := 2, term := 3 })
      (fun x => x.1.state == .leader && x.1.term == 3 && x.1.vote == 1) = true ∧
    c02_okAnd (c02_exCandidate.step { msgType := .msgRequestVoteResponse, frm := 2, term := 3, reject := true })
      (fun x => x.1.state == .candidate && x.1.prs.votes == [(1, true), (2, false)]) = true := by decide

/-- (5a) the joint case: under incoming {1,2,3} / outgoing {1,4,5} the grant of node 2 is not enough
(pending: no majority of the outgoing half), the grants of 2 and 4 are -/
example :
    Tracker.voteResult { incoming := [1, 2, 3], outgoing := [1, 4, 5] } [(1, true), (2, true)] = .pending ∧
    Tracker.voteResult { incoming := [1, 2, 3], outgoing := [1, 4, 5] } [(1, true), (2, true), (4, true)] = .won ∧
    granters [(1, true), (2, true), (3, false), (4, true)] = [1, 2, 4] := by decide

/-- (5) kinds are not mixed: the candidate ignores a granted pre-vote response -/
example : c02_exCandidate.step { msgType := .msgRequestPreVoteResponse, frm := 2, term := 3 }
    = .ok (c02_exCandidate, none) := by decide

/-- (5b) the only voter of {1} becomes leader of term 3 within the `MsgHup` step -/
example : c02_exSingle.state ≠ .leader ∧
    c02_okAnd (c02_exSingle.step { msgType := .msgHup })
      (fun x => x.1.state == .leader && x.1.term == 3 && x.1.vote == 1) = true := by decide

/-- (6) after `MsgHup` node 1 of {1,2,3} is a candidate of term 3 whose record holds its own vote
only — even if a stale record was lying around -/
example : c02_okAnd (({ c02_exFollower with prs := { c02_exFollower.prs with votes := [(2, true), (3, true)] } } : Raft).step
      { msgType := .msgHup })
    (fun x => x.1.state == .candidate && x.1.term == 3 && x.1.vote == 1 &&
      x.1.prs.votes == [(1, true)]) = true := by decide

end Examples

end RaftProps.C02
