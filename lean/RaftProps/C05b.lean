import RaftProps.C14b
import RaftProofs.RaftNode
import RaftProofs.RaftNodeC05

/-!
# C05, node level — the log obligations of the cluster proof, on the model of `src/raft.rs`

C05: "If two logs hold an entry with the same index and term they are identical up to that index;
a leader never deletes or overwrites entries of its own log, only appends; a follower truncates only
from the first conflicting entry on; no entry at or below a node's commit index is ever changed."

`RaftProps/C05.lean` proves this for the abstract protocol P, whose events `leaderAppend`,
`recvApp`, `sendApp`, `installSnap` *assume* that a node's log changes only in certain ways.  This
file proves those assumptions for the executable node model (`RaftModel/Raft*.lean`, tied to the
Rust code by differential testing), through the abstraction `RaftLog.abs` (`RaftProps/C14*.lean`),
for ALL states and messages under the named hypotheses (`RaftLogInv r.raftLog`, and `AppendWF m`
for a `MsgAppend`).  Helper lemmas: `RaftProofs/RaftNodeC05.lean` (`LS` = "same logical log",
`Appended`, `Won`, `Restored`, `step_log`).

| # | theorem | content |
|---|---|---|
| 1 | `C05_log_changes_only_by`, `C05_other_messages_keep_log`, `C05_leader_log_changes_only_by_propose`, `C05_nonleader_log_changes_only_by` | the five ways `step` changes `raftLog.abs`; every other message type keeps it |
| 2 | `C05_leader_append_only_node` | a leader that keeps its term only appends, entries of its own term |
| 3 | `C05_follower_append_rule` (+ `FollowerAppend`, `C05_wellformed_append_conflicts_above_commit`) | `handle_append_entries`: stale / reject with hint / accept = truncate from the first conflict |
| 4 | `C05_append_message_is_log_slice` | the `MsgAppend` of `maybe_send_append` is a slice of the leader's log |
| 5 | `C05_commit_prefix_kept_node` | entries at or below `committed` survive every `step` (or a snapshot covers them) |
| 6 | `example`s | concrete states and messages, by `decide` |

Deviations from the informal statements, all explained at the theorems: (1) besides `MsgPropose`
and the vote response, a *non-leader*'s `MsgHup` / `MsgTimeoutNow` can append `become_leader`'s
empty entry (single-voter configuration wins on the spot), and a leader that receives a
higher-term `MsgAppend` / `MsgSnapshot` / `MsgHup` … is first made a follower by the term preamble
and then behaves as one; (2) needs only `r'.term = r.term`, not `r'.state = leader`;
(3) "matches the message's entries" is by *term* below the first conflict (identity there is Log
Matching, a cluster-level fact) and by identity from the conflict on; a fourth outcome exists
(pending snapshot request: always a rejection); (4) is stated for `batch_append = false` and an
available storage (with batching the entries are merged into an earlier queued `MsgAppend`);
(5) the panic `conflict_committed` turns out to be unreachable for well-formed appends.
-/
namespace RaftProps.C05
open RaftModel RaftModel.Raft
open RaftProps.C14 RaftProps.C20

/-! ## helpers on the sequence model -/

theorem c05_matchTerm_entryAt (g : LLog) (i t : Nat) (hm : g.matchTerm i t = true) (ht : t ≠ 0)
    (hi : g.snapIdx < i) : ∃ e, g.entryAt i = some e ∧ e.term = t := by
  unfold LLog.matchTerm LLog.term at hm
  by_cases hout : i < g.snapIdx ∨ g.lastIndex < i
  · rw [if_pos hout] at hm
    simp only [beq_iff_eq] at hm
    omega
  · rw [if_neg hout, if_neg (by omega)] at hm
    cases he : g.entryAt i with
    | none => rw [he] at hm; simp only [beq_iff_eq] at hm; omega
    | some e =>
      rw [he] at hm
      simp only [beq_iff_eq] at hm
      exact ⟨e, rfl, hm⟩

theorem c05_sendFill_resp (r : Raft) (m : Message) (h : m.msgType = .msgAppendResponse) :
    r.sendFill m = { m with frm := if m.frm = 0 then r.id else m.frm, term := r.term } := by
  unfold Raft.sendFill
  by_cases hf : m.frm = 0 <;> simp [hf, h, isVoteMsg]

/-- the loop of `find_conflict_by_term` answers an index at or below where it starts, with the
term stored there, which is at most the probe term -/
theorem c05_fcbtLoop_le (l : RaftLog) (term : Nat) : ∀ (j i : Nat) (ot : Option Nat),
    l.findConflictByTermLoop term j = .ok (i, ot) →
    i ≤ j ∧ ∀ t, ot = some t → l.term i = .ok t ∧ t ≤ term := by
  intro j
  induction j with
  | zero =>
    intro i ot h
    unfold RaftLog.findConflictByTermLoop at h
    split at h
    · rename_i t ht
      split at h
      · cases h
      · cases h
        exact ⟨Nat.le_refl _, fun t' e => by cases e; exact ⟨ht, by omega⟩⟩
    · cases h; exact ⟨Nat.le_refl _, fun t' e => by cases e⟩
    · cases h
  | succ n ih =>
    intro i ot h
    unfold RaftLog.findConflictByTermLoop at h
    split at h
    · rename_i t ht
      split at h
      · obtain ⟨h1, h2⟩ := ih i ot h
        exact ⟨by omega, h2⟩
      · cases h
        exact ⟨Nat.le_refl _, fun t' e => by cases e; exact ⟨ht, by omega⟩⟩
    · cases h; exact ⟨Nat.le_refl _, fun t' e => by cases e⟩
    · cases h

/-- **the follower rule on the sequence model**: what an accepted `maybe_append` of the batch of
`m` (entries numbered from `m.index + 1`) does to the logical log `g` of a node whose commit index
is `c`, giving `g'`.  `conflict := g.findConflict m.entries` is the index of the first entry of the
batch whose (index, term) is not in `g` (0: none). -/
structure FollowerAppend (g g' : LLog) (c : Nat) (m : Message) : Prop where
  /-- no conflict: the log is unchanged (even if the batch is shorter than the log) -/
  noConflict : g.findConflict m.entries = 0 → g' = g
  /-- a conflict lies above the commit index and inside the batch, and the log is truncated exactly
  there and continued with the rest of the batch -/
  conflict : g.findConflict m.entries ≠ 0 →
    c < g.findConflict m.entries ∧ m.index < g.findConflict m.entries ∧
    g.findConflict m.entries ≤ g.lastIndex + 1 ∧
    g' = g.truncateAppend (g.findConflict m.entries - 1)
      (m.entries.drop (g.findConflict m.entries - (m.index + 1)))
  /-- the new log equals the old one up to the first conflicting index -/
  upToConflict : ∀ i, (g.findConflict m.entries = 0 ∨ i < g.findConflict m.entries) →
    g'.entryAt i = g.entryAt i
  /-- nothing at or below the commit index changed -/
  committed : ∀ i, i ≤ c → g'.entryAt i = g.entryAt i
  /-- afterwards the log holds, at the index of every entry of the batch, an entry of that term -/
  holds : ∀ e ∈ m.entries, ∃ e', g'.entryAt e.index = some e' ∧ e'.term = e.term
  /-- … and from the conflict on, the entries of the batch themselves -/
  fromConflict : ∀ e ∈ m.entries, g.findConflict m.entries ≠ 0 →
    g.findConflict m.entries ≤ e.index → g'.entryAt e.index = some e

theorem c05_followerAppend_same (g : LLog) (c : Nat) (m : Message) (hw : AppendWF m)
    (hsnap : g.snapIdx ≤ m.index) (h0 : g.findConflict m.entries = 0) :
    FollowerAppend g g c m := by
  refine ⟨fun _ => rfl, fun h => absurd h0 h, fun _ _ => rfl, fun _ _ => rfl, ?_,
    fun _ _ h => absurd h0 h⟩
  intro e he
  rcases g.findConflict_char m.entries (m.index + 1) hw.contig with ⟨_, hall⟩ | ⟨k, hk, hf, _⟩
  · obtain ⟨j, hj, rfl⟩ := List.getElem_of_mem he
    have hidx := hw.contig j _ (List.getElem?_eq_some_iff.2 ⟨hj, rfl⟩)
    exact c05_matchTerm_entryAt g _ _ (hall _ he) (hw.terms _ he) (by omega)
  · omega

theorem c05_followerAppend_conflict (g : LLog) (c : Nat) (m : Message) (hw : AppendWF m)
    (hsnap : g.snapIdx ≤ m.index) (hidx : m.index ≤ g.lastIndex)
    (hc : c < g.findConflict m.entries) :
    FollowerAppend g (g.truncateAppend (g.findConflict m.entries - 1)
      (m.entries.drop (g.findConflict m.entries - (m.index + 1)))) c m := by
  rcases g.findConflict_char m.entries (m.index + 1) hw.contig with ⟨h0, _⟩ | ⟨k, hk, hf, hall⟩
  · omega
  · have hle : m.index + 1 + k ≤ g.lastIndex + 1 := by
      rcases Nat.eq_zero_or_pos k with hk0 | hkpos
      · omega
      · have hmem : m.entries[k - 1] ∈ m.entries.take k := by
          rw [List.mem_take_iff_getElem]
          exact ⟨k - 1, by omega, rfl⟩
        have h1 := hall _ hmem
        have h2 := g.matchTerm_le_last _ _ h1 (hw.terms _ (List.getElem_mem _))
        have h3 := hw.contig (k - 1) m.entries[k - 1] (List.getElem?_eq_some_iff.2 ⟨by omega, rfl⟩)
        omega
    have hup : ∀ i, i < g.findConflict m.entries →
        (g.truncateAppend (g.findConflict m.entries - 1)
          (m.entries.drop (g.findConflict m.entries - (m.index + 1)))).entryAt i = g.entryAt i :=
      fun i hi => g.truncateAppend_entryAt _ _ i (by omega) (by omega)
    have hfrom : ∀ j (hj : j < m.entries.length), k ≤ j →
        (g.truncateAppend (g.findConflict m.entries - 1)
          (m.entries.drop (g.findConflict m.entries - (m.index + 1)))).entryAt (m.index + 1 + j) =
          some m.entries[j] := by
      intro j hj hkj
      have hlast : g.lastIndex = g.snapIdx + g.ents.length := rfl
      unfold LLog.truncateAppend LLog.entryAt
      dsimp only
      rw [if_neg (by omega), hf]
      rw [List.getElem?_append_right (by rw [List.length_take]; omega), List.length_take,
        List.getElem?_drop]
      rw [List.getElem?_eq_some_iff]
      refine ⟨by omega, ?_⟩
      congr 1
      omega
    refine ⟨fun h => by omega, fun _ => ⟨hc, by omega, by omega, rfl⟩, ?_, ?_, ?_, ?_⟩
    · intro i hi
      rcases hi with hi | hi
      · omega
      · exact hup i hi
    · intro i hi
      exact hup i (by omega)
    · intro e he
      obtain ⟨j, hj, rfl⟩ := List.getElem_of_mem he
      have hidxj := hw.contig j _ (List.getElem?_eq_some_iff.2 ⟨hj, rfl⟩)
      by_cases hkj : k ≤ j
      · rw [hidxj]
        exact ⟨_, hfrom j hj hkj, rfl⟩
      · have hmem : m.entries[j] ∈ m.entries.take k := by
          rw [List.mem_take_iff_getElem]
          exact ⟨j, by omega, rfl⟩
        rw [hup _ (by omega)]
        exact c05_matchTerm_entryAt g _ _ (hall _ hmem) (hw.terms _ he) (by omega)
    · intro e he _ hge
      obtain ⟨j, hj, rfl⟩ := List.getElem_of_mem he
      have hidxj := hw.contig j _ (List.getElem?_eq_some_iff.2 ⟨hj, rfl⟩)
      rw [hidxj]
      exact hfrom j hj (by omega)

/-! ## 3. the follower's append rule -/

/-- **C05 (3) `follower_append_rule`** — `handle_append_entries` (raft.rs:2528) on a node whose log
satisfies `RaftLogInv`, for a well-formed `MsgAppend` (`AppendWF`: entries numbered from
`m.index + 1`, non-zero terms, `log_term = 0` only with `index = 0`).  Whenever it returns, exactly
one `MsgAppendResponse` to the sender is queued, the invariant is kept, the commit index does not
decrease, and one of four things happened:

* **snapshot request pending**: a rejection carrying the request; the log is untouched;
* **stale** (`m.index < committed`): the answer is "index = committed", not a rejection; the log is
  untouched;
* **rejection** (`(m.index, m.log_term)` is not in the log): the log is untouched and the answer
  carries the hint `(reject_hint, log_term)` of `find_conflict_by_term`:
  `reject_hint ≤ min(m.index, last_index)`, the term stored at `reject_hint` is `log_term`, and
  `log_term ≤ m.log_term`;
* **accepted**: the answer acknowledges `m.index + m.entries.length`; the log follows
  `FollowerAppend` (`maybe_append`'s characterisation `C14_maybeAppend_spec`): unchanged when no
  entry conflicts; otherwise truncated from the first conflicting index on, which lies above the
  commit index, and continued with the rest of the batch; equal to the old log below the conflict;
  entries at or below `committed` unchanged; afterwards every entry of the batch is matched (by
  term, and from the conflict on by identity) at its index; the new commit index is
  `max(committed, min(m.commit, m.index + m.entries.length))`.

(`maybe_append` itself turns a conflict at or below `committed` into the panic
`raft_log.maybe_append.conflict_committed`; from `handle_append_entries` with a well-formed batch
that site is unreachable — the first conflict lies above `m.index ≥ committed`,
`C05_wellformed_append_conflicts_above_commit` — so what protects the committed prefix here is the
`m.index < committed` guard together with Log Matching below `m.index`.) -/
theorem C05_follower_append_rule (r r' : Raft) (m : Message) (hinv : RaftLogInv r.raftLog)
    (hw : AppendWF m) (h : r.handleAppendEntries m = .ok r') :
    ∃ resp, r'.msgs = r.msgs ++ [resp] ∧ resp.msgType = .msgAppendResponse ∧
      RaftLogInv r'.raftLog ∧ r.raftLog.committed ≤ r'.raftLog.committed ∧
      ((r.pendingRequestSnapshot ≠ 0 ∧ r'.raftLog = r.raftLog ∧ resp.reject = true ∧
          resp.requestSnapshot = r.pendingRequestSnapshot ∧ resp.to = r.leaderId) ∨
       (r.pendingRequestSnapshot = 0 ∧ m.index < r.raftLog.committed ∧ r'.raftLog = r.raftLog ∧
          resp.to = m.frm ∧ resp.reject = false ∧ resp.index = r.raftLog.committed) ∨
       (r.pendingRequestSnapshot = 0 ∧ r.raftLog.committed ≤ m.index ∧
          r.raftLog.abs.matchTerm m.index m.logTerm = false ∧ r'.raftLog = r.raftLog ∧
          resp.to = m.frm ∧ resp.reject = true ∧ resp.index = m.index ∧
          resp.rejectHint ≤ min m.index r.raftLog.lastIndex ∧
          r.raftLog.abs.term resp.rejectHint = .ok resp.logTerm ∧ resp.logTerm ≤ m.logTerm) ∨
       (r.pendingRequestSnapshot = 0 ∧ r.raftLog.committed ≤ m.index ∧
          r.raftLog.abs.matchTerm m.index m.logTerm = true ∧
          resp.to = m.frm ∧ resp.reject = false ∧ resp.index = m.index + m.entries.length ∧
          FollowerAppend r.raftLog.abs r'.raftLog.abs r.raftLog.committed m ∧
          r'.raftLog.committed =
            max r.raftLog.committed (min m.commit (m.index + m.entries.length)))) := by
  unfold Raft.handleAppendEntries at h
  split at h
  · rename_i hpend
    unfold Raft.sendRequestSnapshot at h
    simp only [] at h
    split at h
    · have he := send_eq _ _ _ h
      rw [he, c05_sendFill_resp _ _ rfl]
      exact ⟨_, rfl, rfl, hinv, Nat.le_refl _, .inl ⟨hpend, rfl, rfl, rfl, rfl⟩⟩
    · cases h
    · cases h
  · rename_i hpend
    have hp0 : r.pendingRequestSnapshot = 0 := Classical.byContradiction (fun hc => hpend hc)
    split at h
    · rename_i hlt
      have he := send_eq _ _ _ h
      rw [he, c05_sendFill_resp _ _ rfl]
      exact ⟨_, rfl, rfl, hinv, Nat.le_refl _, .inr (.inl ⟨hp0, hlt, rfl, rfl, rfl, rfl⟩)⟩
    · rename_i hge
      have hci : r.raftLog.committed ≤ m.index := by omega
      have hsnap : r.raftLog.abs.snapIdx ≤ m.index := by
        have h1 := hinv.dummy_le_committed
        rw [hinv.firstIndex_abs] at h1
        simp only [LLog.firstIndex] at h1
        omega
      cases hm : r.raftLog.abs.matchTerm m.index m.logTerm with
      | false =>
        rw [hinv.maybeAppend_nomatch m.index m.logTerm m.commit m.entries hm] at h
        simp only [] at h
        split at h
        · cases h
        · cases h
        · cases h
        · rename_i hi ht hf
          have he := send_eq _ _ _ h
          unfold RaftLog.findConflictByTerm at hf
          rw [if_neg (by omega)] at hf
          obtain ⟨hle, hterm⟩ := c05_fcbtLoop_le _ _ _ _ _ hf
          obtain ⟨ht1, ht2⟩ := hterm ht rfl
          rw [hinv.term_abs] at ht1
          rw [he, c05_sendFill_resp _ _ rfl]
          exact ⟨_, rfl, rfl, hinv, Nat.le_refl _,
            .inr (.inr (.inl ⟨hp0, hci, rfl, rfl, rfl, rfl, rfl, hle, ht1, ht2⟩))⟩
      | true =>
        have hidx : m.index ≤ r.raftLog.lastIndex := by
          by_cases ht : m.logTerm = 0
          · rw [hw.anchor ht]; exact Nat.zero_le _
          · rw [hinv.lastIndex_abs]; exact r.raftLog.abs.matchTerm_le_last _ _ hm ht
        obtain ⟨_, hspec⟩ := C14_maybeAppend_spec r.raftLog hinv m.index m.logTerm m.commit
          m.entries hw.contig hidx hw.terms
        obtain ⟨hnc, hpan, hcf⟩ := hspec hm
        rcases Nat.eq_zero_or_pos (r.raftLog.abs.findConflict m.entries) with hz | hpos
        · obtain ⟨hres, hinv'⟩ := hnc hz
          rw [hres] at h
          simp only [] at h
          have he := send_eq _ _ _ h
          rw [he, c05_sendFill_resp _ _ rfl]
          refine ⟨_, rfl, rfl, hinv', Nat.le_max_left _ _,
            .inr (.inr (.inr ⟨hp0, hci, rfl, rfl, rfl, rfl, ?_, rfl⟩))⟩
          exact c05_followerAppend_same _ _ _ hw hsnap hz
        · rcases Nat.lt_or_ge r.raftLog.committed (r.raftLog.abs.findConflict m.entries) with hgt | hle
          · obtain ⟨l', hres, habs, _, hcm, _, _, hinv'⟩ := hcf hgt
            rw [hres] at h
            simp only [] at h
            have he := send_eq _ _ _ h
            rw [he, c05_sendFill_resp _ _ rfl]
            refine ⟨_, rfl, rfl, hinv', by show _ ≤ l'.committed; omega,
              .inr (.inr (.inr ⟨hp0, hci, rfl, rfl, rfl, rfl, ?_, hcm⟩))⟩
            show FollowerAppend _ l'.abs _ _
            rw [habs]
            exact c05_followerAppend_conflict _ _ _ hw hsnap
              (by rw [← hinv.lastIndex_abs]; exact hidx) hgt
          · obtain ⟨s, hp⟩ := hpan hpos hle
            rw [hp] at h
            cases h

/-! ## 1. which messages can change the logical log -/

theorem c05_append_entryAt (g : LLog) (es : List Entry) (i : Nat) (hi : i ≤ g.lastIndex) :
    ({ g with ents := g.ents ++ es } : LLog).entryAt i = g.entryAt i := by
  unfold LLog.entryAt
  simp only [LLog.lastIndex] at hi
  dsimp only
  by_cases h0 : i ≤ g.snapIdx
  · rw [if_pos h0, if_pos h0]
  · rw [if_neg h0, if_neg h0, List.getElem?_append_left (by omega)]

/-- the message types through which `step` can change the logical log -/
def logChanging (t : MsgType) : Bool :=
  match t with
  | .msgPropose | .msgAppend | .msgSnapshot | .msgHup | .msgTimeoutNow
  | .msgRequestVoteResponse | .msgRequestPreVoteResponse => true
  | _ => false

/-- **C05 (1) `log_changes_only_by`** — every way `Raft::step` can change the logical log
`raftLog.abs` (entries + snapshot point), for every state whose log satisfies `RaftLogInv` and
every message.  When `step` returns, one of:

* (a) **unchanged**: same entries, same snapshot point (the commit index may have advanced, the
  invariant is kept);
* (b) **a leader appended a proposal**: `MsgPropose` at a leader that stays leader of the same
  term; the log grew at its end by as many entries as proposed, with `term = r.term` and
  consecutive indexes after `last_index` (`append_entry`);
* (c) **a campaign was won on the spot**: `MsgHup`, `MsgTimeoutNow` or a (pre-)vote response, at a
  non-leader (or at a leader first deposed by the higher term of the message); the node is leader
  afterwards and the log grew by exactly the empty entry of its new term (`become_leader`);
* (d) **`MsgAppend`** at a non-leader (or a leader deposed by the message's higher term): the
  effect of `handle_append_entries` on a follower state with the same logical log
  (`C05_follower_append_rule` describes it);
* (e) **`MsgSnapshot`**, likewise: the log is replaced by the snapshot, whose index is at or above
  the old commit index (`restore`).

Every other message type — `MsgBeat`, `MsgCheckQuorum`, `MsgHeartbeat`, all responses but the
vote responses, `MsgUnreachable`, `MsgSnapStatus`, `MsgTransferLeader`, `MsgReadIndex(Resp)`, the
vote requests — leaves the logical log unchanged in every role (`C05_other_messages_keep_log`). -/
theorem C05_log_changes_only_by (r r' : Raft) (m : Message) (res : Option RaftError)
    (hinv : RaftLogInv r.raftLog) (h : r.step m = .ok (r', res)) :
    (r'.raftLog.abs = r.raftLog.abs ∧ RaftLogInv r'.raftLog ∧
      r.raftLog.committed ≤ r'.raftLog.committed) ∨
    (m.msgType = .msgPropose ∧ r.state = .leader ∧ r'.state = .leader ∧ r'.term = r.term ∧
      ∃ es, es ≠ [] ∧ es.length = m.entries.length ∧
        r'.raftLog.abs = { r.raftLog.abs with ents := r.raftLog.abs.ents ++ es } ∧
        ContigFrom (r.raftLog.lastIndex + 1) es ∧ (∀ e ∈ es, e.term = r.term) ∧
        RaftLogInv r'.raftLog) ∨
    ((m.msgType = .msgHup ∨ m.msgType = .msgTimeoutNow ∨ m.msgType = .msgRequestVoteResponse ∨
        m.msgType = .msgRequestPreVoteResponse) ∧
      (r.state ≠ .leader ∨ (r.term < m.term ∧ m.term ≤ r'.term)) ∧ r'.state = .leader ∧
      r'.raftLog.abs = { r.raftLog.abs with ents := r.raftLog.abs.ents ++
        [leaderNoop r'.term (r.raftLog.lastIndex + 1)] } ∧ RaftLogInv r'.raftLog) ∨
    (m.msgType = .msgAppend ∧ (r.state ≠ .leader ∨ (r.term < m.term ∧ m.term ≤ r'.term)) ∧
      ∃ r0 : Raft, r0.raftLog.abs = r.raftLog.abs ∧ RaftLogInv r0.raftLog ∧
        r.raftLog.committed ≤ r0.raftLog.committed ∧ r0.state = .follower ∧
        r0.handleAppendEntries m = .ok r') ∨
    (m.msgType = .msgSnapshot ∧ (r.state ≠ .leader ∨ (r.term < m.term ∧ m.term ≤ r'.term)) ∧
      r'.raftLog.abs = LLog.ofSnapshot m.snapshot ∧
      r.raftLog.committed ≤ m.snapshot.metadata.index ∧ RaftLogInv r'.raftLog) := by
  rcases step_log hinv h with c | ⟨hm, hs, ht, _, es, hlen, c⟩ | ⟨hm, hr, c⟩ | ⟨hm, hr, r0, c1, c2, c3⟩ |
    ⟨hm, hr, c⟩
  · exact .inl ⟨c.abs, c.inv hinv, c.commit⟩
  · refine .inr (.inl ⟨hm, hs, c.leader, ht, _, c.ne, ?_, c.abs, c.contig, ?_, c.inv⟩)
    · rw [stampFrom_length]; exact hlen
    · intro e he; rw [← ht]; exact c.terms e he
  · exact .inr (.inr (.inl ⟨hm, hr, c.leader, c.abs, c.inv⟩))
  · exact .inr (.inr (.inr (.inl ⟨hm, hr, r0, c1.abs, c1.inv hinv, c1.commit, c2, c3⟩)))
  · exact .inr (.inr (.inr (.inr ⟨hm, hr, c.abs, c.ge, c.inv⟩)))

/-- **C05 (1), the negative half**: a message of any type other than `MsgPropose`, `MsgAppend`,
`MsgSnapshot`, `MsgHup`, `MsgTimeoutNow`, `MsgRequestVoteResponse`, `MsgRequestPreVoteResponse`
leaves the logical log unchanged, whatever the role -/
theorem C05_other_messages_keep_log (r r' : Raft) (m : Message) (res : Option RaftError)
    (hinv : RaftLogInv r.raftLog) (hm : logChanging m.msgType = false)
    (h : r.step m = .ok (r', res)) : r'.raftLog.abs = r.raftLog.abs := by
  rcases C05_log_changes_only_by r r' m res hinv h with c | ⟨c, _⟩ | ⟨c, _⟩ | ⟨c, _⟩ | ⟨c, _⟩
  · exact c.1
  · rw [c] at hm; cases hm
  · rcases c with c | c | c | c <;> rw [c] at hm <;> cases hm
  · rw [c] at hm; cases hm
  · rw [c] at hm; cases hm

/-- **C05 (1), leader**: at a leader, a message whose term is not above the leader's changes the
logical log only if it is a `MsgPropose` -/
theorem C05_leader_log_changes_only_by_propose (r r' : Raft) (m : Message) (res : Option RaftError)
    (hinv : RaftLogInv r.raftLog) (hs : r.state = .leader) (ht : m.term ≤ r.term)
    (hm : m.msgType ≠ .msgPropose) (h : r.step m = .ok (r', res)) :
    r'.raftLog.abs = r.raftLog.abs := by
  rcases C05_log_changes_only_by r r' m res hinv h with c | ⟨c, _⟩ | ⟨_, c, _⟩ | ⟨_, c, _⟩ | ⟨_, c, _⟩
  · exact c.1
  · exact absurd c hm
  all_goals
    rcases c with c | ⟨c, _⟩
    · exact absurd hs c
    · omega

/-- **C05 (1), follower / candidate**: at a non-leader, only `MsgAppend`, `MsgSnapshot` and a won
campaign (`MsgHup`, `MsgTimeoutNow`, a vote response — the node is leader afterwards) change the
logical log; in particular a `MsgPropose` never does -/
theorem C05_nonleader_log_changes_only_by (r r' : Raft) (m : Message) (res : Option RaftError)
    (hinv : RaftLogInv r.raftLog) (hs : r.state ≠ .leader) (h : r.step m = .ok (r', res))
    (hch : r'.raftLog.abs ≠ r.raftLog.abs) :
    m.msgType = .msgAppend ∨ m.msgType = .msgSnapshot ∨
    ((m.msgType = .msgHup ∨ m.msgType = .msgTimeoutNow ∨ m.msgType = .msgRequestVoteResponse ∨
        m.msgType = .msgRequestPreVoteResponse) ∧ r'.state = .leader) := by
  rcases C05_log_changes_only_by r r' m res hinv h with c | ⟨_, c, _⟩ | ⟨c1, _, c2, _⟩ | ⟨c, _⟩ | ⟨c, _⟩
  · exact absurd c.1 hch
  · exact absurd c hs
  · exact .inr (.inr ⟨c1, c2⟩)
  · exact .inl c
  · exact .inr (.inl c)

/-! ## 2. a leader only appends -/

/-- **C05 (2) `leader_append_only_node`** — a leader never deletes or overwrites entries of its own
log.  If `r` is leader, `step` returns and the term is unchanged (the hypothesis `r'.state = leader`
of the informal statement is not needed: a leader stepping down at its own term — check-quorum —
does not touch the log either), then the new logical log is the old one followed by new entries
`es`: same snapshot point, `entryAt` unchanged at every index up to the old `last_index`, and every
new entry carries the leader's term and the consecutive indexes after the old `last_index`. -/
theorem C05_leader_append_only_node (r r' : Raft) (m : Message) (res : Option RaftError)
    (hinv : RaftLogInv r.raftLog) (hs : r.state = .leader) (h : r.step m = .ok (r', res))
    (hterm : r'.term = r.term) :
    ∃ es, r'.raftLog.abs = { r.raftLog.abs with ents := r.raftLog.abs.ents ++ es } ∧
      (∀ i, i ≤ r.raftLog.lastIndex → r'.raftLog.abs.entryAt i = r.raftLog.abs.entryAt i) ∧
      (∀ e ∈ es, e.term = r.term) ∧ ContigFrom (r.raftLog.lastIndex + 1) es ∧
      r'.raftLog.abs.lastIndex = r.raftLog.lastIndex + es.length ∧
      (es ≠ [] → m.msgType = .msgPropose) := by
  have hla := hinv.lastIndex_abs
  have key : ∀ es, r'.raftLog.abs = { r.raftLog.abs with ents := r.raftLog.abs.ents ++ es } →
      (∀ i, i ≤ r.raftLog.lastIndex → r'.raftLog.abs.entryAt i = r.raftLog.abs.entryAt i) ∧
      r'.raftLog.abs.lastIndex = r.raftLog.lastIndex + es.length := by
    intro es he
    rw [he]
    refine ⟨fun i hi => c05_append_entryAt _ _ _ (by omega), ?_⟩
    simp only [LLog.lastIndex, List.length_append] at hla ⊢
    omega
  rcases C05_log_changes_only_by r r' m res hinv h with c | ⟨hm, _, _, _, es, _, _, c1, c2, c3, _⟩ |
    ⟨_, c, _⟩ | ⟨_, c, _⟩ | ⟨_, c, _⟩
  · have he : r'.raftLog.abs = { r.raftLog.abs with ents := r.raftLog.abs.ents ++ [] } := by
      rw [c.1]; simp
    obtain ⟨k1, k2⟩ := key [] he
    exact ⟨[], he, k1, (fun _ hx => by cases hx), (fun k e hk => by rw [List.getElem?_nil] at hk; cases hk), k2,
      (fun hne => absurd rfl hne)⟩
  · obtain ⟨k1, k2⟩ := key es c1
    exact ⟨es, c1, k1, c3, c2, k2, fun _ => hm⟩
  all_goals
    rcases c with c | ⟨c, c'⟩
    · exact absurd hs c
    · omega

/-! ## 5. the committed prefix through `step` -/

/-- **C05 (5) `commit_prefix_kept_node`** — no entry at or below a node's commit index is ever
changed by `Raft::step`.  For a log satisfying `RaftLogInv` and any message (a `MsgAppend`
well-formed, `AppendWF`): if `step` returns, then either every index `i ≤ committed` holds the same
entry as before and the commit index did not decrease, or the step restored a snapshot
(`MsgSnapshot`) whose index is at or above the old commit index — the committed prefix is then
covered by the snapshot point.  If `step` does not return normally it panicked at one of the sites
characterised in `C20_step_panics_only_if`; `raft_log.maybe_append.conflict_committed` ("a conflict
at or below the commit index is a panic, never a truncation") is among them only for malformed
batches (`C05_wellformed_append_conflicts_above_commit`, and the last-but-two example below). -/
theorem C05_commit_prefix_kept_node (r r' : Raft) (m : Message) (res : Option RaftError)
    (hinv : RaftLogInv r.raftLog) (hw : m.msgType = .msgAppend → AppendWF m)
    (h : r.step m = .ok (r', res)) :
    ((∀ i, i ≤ r.raftLog.committed → r'.raftLog.abs.entryAt i = r.raftLog.abs.entryAt i) ∧
      r.raftLog.committed ≤ r'.raftLog.committed ∧ RaftLogInv r'.raftLog) ∨
    (m.msgType = .msgSnapshot ∧ r'.raftLog.abs = LLog.ofSnapshot m.snapshot ∧
      r.raftLog.committed ≤ r'.raftLog.abs.snapIdx ∧ RaftLogInv r'.raftLog) := by
  have hcl := hinv.committed_le_last
  have hla := hinv.lastIndex_abs
  rcases step_log hinv h with c | ⟨_, _, _, _, es, _, c⟩ | ⟨_, _, c⟩ | ⟨hm, _, r0, c1, _, c3⟩ | ⟨hm, _, c⟩
  · exact .inl ⟨fun i _ => by rw [c.abs], c.commit, c.inv hinv⟩
  · refine .inl ⟨fun i hi => ?_, c.commit, c.inv⟩
    rw [c.abs]; exact c05_append_entryAt _ _ _ (by omega)
  · refine .inl ⟨fun i hi => ?_, c.commit, c.inv⟩
    rw [c.abs]; exact c05_append_entryAt _ _ _ (by omega)
  · have hinv0 := c1.inv hinv
    obtain ⟨resp, _, _, hinv', hcm, hcase⟩ := C05_follower_append_rule r0 r' m hinv0 (hw hm) c3
    have hc0 := c1.commit
    refine .inl ⟨fun i hi => ?_, by omega, hinv'⟩
    rcases hcase with ⟨_, c, _⟩ | ⟨_, _, c, _⟩ | ⟨_, _, _, c, _⟩ | ⟨_, _, _, _, _, _, c, _⟩
    · rw [c, c1.abs]
    · rw [c, c1.abs]
    · rw [c, c1.abs]
    · rw [c.committed i (by omega), c1.abs]
  · refine .inr ⟨hm, c.abs, ?_, c.inv⟩
    rw [c.abs]; exact c.ge

/-! ## 4. the `MsgAppend` a leader builds is a slice of its own log -/

theorem c05_sendFill_to_type (r : Raft) (m : Message) :
    (r.sendFill m).to = m.to ∧ (r.sendFill m).msgType = m.msgType := by
  unfold Raft.sendFill
  simp only
  split <;> split <;> split <;> exact ⟨rfl, rfl⟩

theorem c05_prepareSendSnapshot_msg {r r1 : Raft} {m m1 : Message} {pr pr1 : Progress} {to : Nat}
    (h : r.prepareSendSnapshot m pr to = .ok (r1, m1, pr1, true)) :
    r1.msgs = r.msgs ∧ m1.to = m.to ∧ m1.msgType = .msgSnapshot := by
  unfold Raft.prepareSendSnapshot at h
  split at h
  · cases h
  · simp only [] at h
    split at h
    · cases h
    · cases h
    · cases h
    · split at h
      · cases h
      · cases h; exact ⟨rfl, rfl, rfl⟩

/-- the snapshot fallback of `maybe_send_append`: what is queued is a `MsgSnapshot` -/
theorem c05_snapSend (r : Raft) (m : Message) (pr : Progress) (to : Nat) (r' : Raft)
    (pr' : Progress)
    (h : (match r.prepareSendSnapshot m pr to with
        | .ok (r, m, pr, true) => (r.send m).bind (fun r => .ok (r, pr, true))
        | .ok (r, _, pr, false) => .ok (r, pr, false)
        | .err e => .err e
        | .panic s => .panic s : Res (Raft × Progress × Bool)) = .ok (r', pr', true)) :
    ∃ msg, r'.msgs = r.msgs ++ [msg] ∧ msg.to = m.to ∧ msg.msgType = .msgSnapshot := by
  split at h
  · rename_i r1 m1 pr1 heq
    obtain ⟨h1, h2, h3⟩ := c05_prepareSendSnapshot_msg heq
    rw [Res.bind_eq_ok_iff] at h
    obtain ⟨r2, hs, h4⟩ := h
    cases h4
    rw [send_eq _ _ _ hs]
    obtain ⟨h5, h6⟩ := c05_sendFill_to_type r1 m1
    exact ⟨_, by rw [← h1], h5.trans h2, h6.trans h3⟩
  · cases h
  · cases h
  · cases h

theorem c05_prepareSendEntries_msg {r : Raft} {m m' : Message} {pr pr' : Progress} {term : Nat}
    {ents : List Entry} (h : r.prepareSendEntries m pr term ents = .ok (m', pr')) :
    pr.nextIdx ≠ 0 ∧
    m' = { m with msgType := .msgAppend, index := pr.nextIdx - 1, logTerm := term,
                  entries := ents, commit := r.raftLog.committed } := by
  unfold Raft.prepareSendEntries at h
  split at h
  · cases h
  · rename_i hn
    simp only [] at h
    split at h
    · cases h; exact ⟨hn, rfl⟩
    · split at h
      · cases h; exact ⟨hn, rfl⟩
      · cases h
      · cases h

/-- every entry of a gap-free sequence model sits at its own index -/
theorem c05_entryAt_of_mem (g : LLog) (hc : ContigFrom g.firstIndex g.ents) :
    ∀ e ∈ g.ents, g.entryAt e.index = some e := by
  intro e he
  obtain ⟨k, hk, rfl⟩ := List.getElem_of_mem he
  have hidx := hc k _ (List.getElem?_eq_some_iff.2 ⟨hk, rfl⟩)
  simp only [LLog.firstIndex] at hidx
  unfold LLog.entryAt
  rw [if_neg (by omega), List.getElem?_eq_some_iff]
  exact ⟨by omega, by congr 1; omega⟩

/-- **C05 (4) `append_message_is_log_slice`** — the node-level counterpart of the guard of P's
`sendApp`.  When `maybe_send_append(to, pr)` of a leader whose log satisfies `RaftLogInv` sends
something (result flag `true`; batching off so that the message is queued on its own rather than
merged into an earlier `MsgAppend` for the same peer, storage available), the queued message goes
to `to` and is either a `MsgSnapshot` (the entries or the term before `next_idx` are compacted
away, or a snapshot was requested) or a `MsgAppend` with
* `index = next_idx - 1` and `log_term = term(next_idx - 1)` in the leader's own logical log,
* `entries` = the size-limited slice of the leader's logical log from `next_idx` to `last_index`
  (`C14_entries_cases`): numbered consecutively from `next_idx`, and each one is the leader's own
  entry at its index,
* `commit` = the leader's commit index (`send` then stamps `term = r.term`). -/
theorem C05_append_message_is_log_slice (r r' : Raft) (to : Nat) (pr pr' : Progress) (ae : Bool)
    (hinv : RaftLogInv r.raftLog) (hav : r.raftLog.store.triggerLogUnavailable = false)
    (hb : r.batchAppend = false) (h : r.maybeSendAppend to pr ae = .ok (r', pr', true)) :
    ∃ msg, r'.msgs = r.msgs ++ [msg] ∧ msg.to = to ∧
      (msg.msgType = .msgSnapshot ∨
       (msg.msgType = .msgAppend ∧ msg.index + 1 = pr.nextIdx ∧
        r.raftLog.abs.term msg.index = .ok msg.logTerm ∧
        msg.entries = (if r.raftLog.lastIndex < pr.nextIdx then []
          else limitSize (r.raftLog.abs.range pr.nextIdx (r.raftLog.lastIndex + 1))
            (some r.maxMsgSize)) ∧
        ContigFrom pr.nextIdx msg.entries ∧
        (∀ e ∈ msg.entries, r.raftLog.abs.entryAt e.index = some e) ∧
        msg.commit = r.raftLog.committed)) := by
  unfold Raft.maybeSendAppend at h
  split at h
  · cases h
  · simp only [] at h
    split at h
    · obtain ⟨msg, h1, h2, h3⟩ := c05_snapSend _ _ _ _ _ _ h
      exact ⟨msg, h1, h2, .inl h3⟩
    · generalize hE : r.raftLog.entries pr.nextIdx (some r.maxMsgSize) true = E at h
      generalize hT : r.raftLog.term (pr.nextIdx - 1) = T at h
      cases E with
      | panic s => cases h
      | ok ents =>
        simp only [] at h
        split at h
        · cases h
        · split at h
          · cases h
          · rename_i hn
            cases T with
            | panic s => cases h
            | err e =>
              simp only [] at h
              obtain ⟨msg, h1, h2, h3⟩ := c05_snapSend _ _ _ _ _ _ h
              exact ⟨msg, h1, h2, .inl h3⟩
            | ok term =>
              simp only [hb, Bool.false_eq_true, if_false] at h
              split at h
              · rename_i m' pr2 hp
                obtain ⟨_, hm'⟩ := c05_prepareSendEntries_msg hp
                rw [Res.bind_eq_ok_iff] at h
                obtain ⟨r2, hs, h4⟩ := h
                cases h4
                rw [send_eq _ _ _ hs]
                obtain ⟨h5, h6⟩ := c05_sendFill_to_type r m'
                have hfill : ∀ x : Message, x.msgType = .msgAppend →
                    (r.sendFill x).index = x.index ∧ (r.sendFill x).logTerm = x.logTerm ∧
                    (r.sendFill x).entries = x.entries ∧ (r.sendFill x).commit = x.commit := by
                  intro x hx
                  unfold Raft.sendFill
                  by_cases hf : x.frm = 0 <;> simp [hf, hx, isVoteMsg]
                have hty : m'.msgType = .msgAppend := by rw [hm']
                obtain ⟨f1, f2, f3, f4⟩ := hfill m' hty
                have hents := C14_entries_cases r.raftLog hinv pr.nextIdx (some r.maxMsgSize) true
                  (by rw [hav]; rfl)
                rw [hinv.term_abs] at hT
                have hfirst : r.raftLog.firstIndex ≤ pr.nextIdx := by
                  rcases Nat.lt_or_ge pr.nextIdx r.raftLog.firstIndex with hlt | hge
                  · rw [hents.2.1 hlt] at hE; cases hE
                  · exact hge
                have hentsEq : ents = (if r.raftLog.lastIndex < pr.nextIdx then []
                    else limitSize (r.raftLog.abs.range pr.nextIdx (r.raftLog.lastIndex + 1))
                      (some r.maxMsgSize)) := by
                  by_cases hlt : r.raftLog.lastIndex < pr.nextIdx
                  · rw [if_pos hlt]
                    rw [hents.1 hlt] at hE
                    cases hE; rfl
                  · rw [if_neg hlt]
                    rw [hents.2.2 hfirst (by omega)] at hE
                    cases hE; rfl
                have hsub : ∃ k, ents = (r.raftLog.abs.range pr.nextIdx (r.raftLog.lastIndex + 1)).take k := by
                  rw [hentsEq]
                  by_cases hlt : r.raftLog.lastIndex < pr.nextIdx
                  · rw [if_pos hlt]; exact ⟨0, by simp⟩
                  · rw [if_neg hlt]; exact (limitSize_spec _ _).1
                obtain ⟨k, hk⟩ := hsub
                have hfl := first_le_last_succ hinv
                refine ⟨_, rfl, by rw [h5, hm'], .inr ⟨by rw [h6, hty], ?_, ?_, ?_, ?_, ?_, ?_⟩⟩
                · rw [f1, hm']; show pr.nextIdx - 1 + 1 = pr.nextIdx; omega
                · rw [f1, f2, hm']; exact hT
                · rw [f3, hm']; exact hentsEq
                · rw [f3, hm']
                  show ContigFrom pr.nextIdx ents
                  rw [hk]
                  by_cases hlt : r.raftLog.lastIndex < pr.nextIdx
                  · have : r.raftLog.abs.range pr.nextIdx (r.raftLog.lastIndex + 1) = [] := by
                      unfold LLog.range
                      rw [show r.raftLog.lastIndex + 1 - pr.nextIdx = 0 by omega]; rfl
                    rw [this]; intro j e hj; simp at hj
                  · exact (range_contig hinv pr.nextIdx (r.raftLog.lastIndex + 1) hfirst (by omega)
                      (Nat.le_refl _)).1.take k
                · rw [f3, hm']
                  show ∀ e ∈ ents, _
                  intro e he
                  rw [hk] at he
                  have he2 : e ∈ r.raftLog.abs.ents := by
                    unfold LLog.range at he
                    exact List.mem_of_mem_drop (List.mem_of_mem_take (List.mem_of_mem_take he))
                  exact c05_entryAt_of_mem _ (abs_contig hinv) e he2
                · rw [f4, hm']
              · cases h
              · cases h
      | err e =>
        simp only [] at h
        split at h
        · cases h
        · split at h
          · cases h
          · cases T with
            | panic s => cases h
            | err e' =>
              cases e <;> simp only [] at h <;>
                first
                | (cases h; done)
                | (obtain ⟨msg, h1, h2, h3⟩ := c05_snapSend _ _ _ _ _ _ h
                   exact ⟨msg, h1, h2, .inl h3⟩)
            | ok term =>
              cases e <;> simp only [] at h <;>
                first
                | (cases h; done)
                | (obtain ⟨msg, h1, h2, h3⟩ := c05_snapSend _ _ _ _ _ _ h
                   exact ⟨msg, h1, h2, .inl h3⟩)

/-- for a well-formed append the first conflict lies above `m.index`, hence — past the guard
`m.index < committed` of `handle_append_entries` — above the commit index: the panic
`raft_log.maybe_append.conflict_committed` is unreachable from `handle_append_entries` with
well-formed input (it guards `maybe_append` against malformed batches only) -/
theorem C05_wellformed_append_conflicts_above_commit (r : Raft) (m : Message)
    (hinv : RaftLogInv r.raftLog) (hw : AppendWF m) :
    r.handleAppendEntries m ≠ .panic "raft_log.maybe_append.conflict_committed" := by
  intro hp
  rcases handleAppendEntries_panics_only_if r m hinv hw _ hp with ⟨c, _⟩ | ⟨_, c1, _, c2, c3⟩ |
    ⟨c, _⟩ | ⟨c, _⟩
  · exact absurd c (by decide)
  · rcases r.raftLog.abs.findConflict_char m.entries (m.index + 1) hw.contig with ⟨h0, _⟩ | ⟨k, _, hf, _⟩
    · omega
    · omega
  · exact absurd c (by decide)
  · exact absurd c (by decide)

/-! ## 6. non-vacuity: concrete states and messages (evaluated by `decide`)

The log `l0` (`RaftProps/C14b.lean`): snapshot point (2, term 1), entries 3 (term 1) and
4 (term 2), `committed = 2`, `persisted = 4`; it satisfies `RaftLogInv` (`l0_inv`). -/

/-- a single-voter configuration {1} -/
def prs1 : ProgressTracker := { conf := { incoming := [1] }, progress := [(1, Progress.new 5 8)] }

/-- leader of term 2 over `l0` -/
def leaderA : Raft :=
  { raftLog := l0, id := 1, term := 2, state := .leader, leaderId := 1, promotable := true,
    prs := prs1 }

/-- follower of node 2 in term 3 over `l0` -/
def followerA : Raft := { raftLog := l0, id := 1, term := 3, leaderId := 2, prs := prs1 }

def appendA : Message :=
  { msgType := .msgAppend, term := 3, frm := 2, index := 3, logTerm := 1, commit := 4,
    entries := [ent 4 3 1, ent 5 3 1] }

def csA : ConfState := { voters := [1, 2] }
def mdA : SnapshotMetadata := { index := 10, term := 3, confState := csA }
def snapA : Message := { msgType := .msgSnapshot, term := 3, frm := 2, snapshot := { metadata := mdA } }

/-- the hypotheses of the theorems hold of these -/
example : RaftLogInv leaderA.raftLog ∧ RaftLogInv followerA.raftLog ∧ AppendWF appendA :=
  ⟨l0_inv, l0_inv, ⟨contigFrom_getElem? (by decide), by decide, by decide⟩⟩

set_option maxRecDepth 100000 in
/-- (1b)/(2): a proposal at the leader appends one entry with the leader's term at
`last_index + 1`; the node stays leader of term 2 -/
example :
    (match leaderA.step { msgType := .msgPropose, frm := 1, entries := [{ data := [7] }] } with
     | .ok (r', res) => (r'.raftLog.abs.ents.map (fun e => (e.index, e.term, e.data)),
         r'.state, r'.term, res)
     | _ => default) = ([(3, 1, List.replicate 5 0), (4, 2, List.replicate 200 0), (5, 2, [7])],
       .leader, 2, none) := by decide

set_option maxRecDepth 100000 in
/-- (1a): a heartbeat response at the leader, or a heartbeat at the follower (which advances the
commit index to 4), leaves the entries alone -/
example :
    (match leaderA.step { msgType := .msgHeartbeatResponse, term := 2, frm := 1 } with
     | .ok (r', _) => decide (r'.raftLog.abs = leaderA.raftLog.abs)
     | _ => false) = true ∧
    (match followerA.step { msgType := .msgHeartbeat, term := 3, frm := 2, commit := 4 } with
     | .ok (r', _) => (decide (r'.raftLog.abs = followerA.raftLog.abs), r'.raftLog.committed)
     | _ => default) = (true, 4) := by decide

set_option maxRecDepth 100000 in
/-- (1c): `MsgHup` at a promotable single voter: it wins on the spot, is leader of term 4 and its
log grew by the empty entry (5, term 4) -/
example :
    (match ({ followerA with promotable := true } : Raft).step { msgType := .msgHup } with
     | .ok (r', _) => (r'.raftLog.abs.ents.map (fun e => (e.index, e.term, e.data)),
         r'.state, r'.term)
     | _ => default) = ([(3, 1, List.replicate 5 0), (4, 2, List.replicate 200 0), (5, 4, [])],
       .leader, 4) := by decide

set_option maxRecDepth 100000 in
/-- (3) accepted with a conflict: entry 4 (term 2) conflicts with (4, term 3); the log is truncated
from index 4 on and continued with the batch, entry 3 is kept, the answer acknowledges
`3 + 2 = 5`, the commit index becomes `min(4, 5) = 4` -/
example :
    (match followerA.step appendA with
     | .ok (r', _) => (r'.raftLog.abs.ents.map (fun e => (e.index, e.term)),
         r'.raftLog.committed, r'.msgs.map (fun x => (x.msgType, x.to, x.index, x.reject)))
     | _ => default) =
      ([(3, 1), (4, 3), (5, 3)], 4, [(.msgAppendResponse, 2, 5, false)]) := by decide

set_option maxRecDepth 100000 in
/-- (3) rejection: `(4, term 5)` is not in the log; nothing changes and the hint is
`(reject_hint, log_term) = (4, 2)` -/
example :
    (match followerA.step { appendA with index := 4, logTerm := 5, entries := [ent 5 5 1] } with
     | .ok (r', _) => (decide (r'.raftLog = followerA.raftLog),
         r'.msgs.map (fun x => (x.index, x.reject, x.rejectHint, x.logTerm)))
     | _ => default) = (true, [(4, true, 4, 2)]) := by decide

set_option maxRecDepth 100000 in
/-- (3) stale: `m.index = 1 < committed = 2`: the answer is "index = committed" -/
example :
    (match followerA.step { appendA with index := 1, logTerm := 1, entries := [] } with
     | .ok (r', _) => (decide (r'.raftLog = followerA.raftLog),
         r'.msgs.map (fun x => (x.index, x.reject)))
     | _ => default) = (true, [(2, false)]) := by decide

set_option maxRecDepth 100000 in
/-- (5) only a *malformed* append (entry 3 listed after `index = 4`) can conflict at or below the
commit index, and that is a panic, not a truncation; a well-formed one cannot
(`C05_wellformed_append_conflicts_above_commit`) -/
example :
    (match ({ followerA with raftLog := { l0 with committed := 4 } } : Raft).step
        { appendA with index := 4, logTerm := 2, entries := [ent 3 9 1] } with
     | .panic s => s
     | _ => "") = "raft_log.maybe_append.conflict_committed" := by decide

set_option maxRecDepth 100000 in
/-- (1e)/(5): a snapshot at (10, term 3) replaces the log -/
example :
    (match followerA.step snapA with
     | .ok (r', _) => (r'.raftLog.abs.snapIdx, r'.raftLog.abs.snapTerm, r'.raftLog.abs.ents.length,
         r'.raftLog.committed)
     | _ => default) = (10, some 3, 0, 10) := by decide

set_option maxRecDepth 100000 in
/-- (4) the `MsgAppend` for a peer with `next_idx = 4`: `index = 3`, `log_term = 1` (the term of
entry 3), the entries from 4 on, the leader's commit index -/
example :
    (match leaderA.maybeSendAppend 2 (Progress.new 4 8) true with
     | .ok (r', _, b) => (b, r'.msgs.map (fun x => (x.msgType, x.to, x.index, x.logTerm, x.commit)))
     | _ => default) = (true, [(.msgAppend, 2, 3, 1, 2)]) ∧
    (match leaderA.maybeSendAppend 2 (Progress.new 4 8) true with
     | .ok (r', _, _) => r'.msgs.flatMap (fun x => x.entries.map (fun e => (e.index, e.term)))
     | _ => []) = [(4, 2)] := by decide

end RaftProps.C05
