import RaftProps.C18
import RaftProofs.ProtoLStep

/-!
# C13 — replication flow control and well-formed append / heartbeat messages

Proved here:
* the in-flight window the leader keeps per follower is a bounded FIFO (C18): `add` is refused
  exactly when `count = cap` or a pending smaller capacity is reached, so at most
  `max_inflight_msgs` entry-carrying appends are outstanding while replicating
  (`C13_window_bound`); a capacity change never loses or reorders a tracked index;
* on the abstract protocol P, **every released append is a contiguous slice of the leader's own log
  anchored at an (index, term) of that log** (`C13_append_is_slice_obligation` for every state,
  `C13_append_is_leader_slice` for every reachable state: a slice of the ghost log of the sender's
  term), with an advertised commit index not above the leader's; **a heartbeat advertises at most the
  leader's commit index and at most what the addressee acknowledged in this term**
  (`C13_heartbeat_obligation`).  The implementation must justify every MsgAppend / MsgHeartbeat it
  generates to P on every trace (this is how finding F8, `try_batching` gluing non-contiguous
  entries, was found).

Decided on implementation traces by monitors (node-local code of `raft.rs`/`progress.rs` not yet
modelled): contiguity of every released append, size bound (`max_size_per_msg` unless a single
entry, batching off), commit fields, no progress beyond the leader's log, window / probe / snapshot
pause discipline, uncommitted-size accounting.
-/
namespace RaftProps.C13
open RaftModel RaftModel.P

/-- while replicating, the number of outstanding entry-carrying appends never exceeds the window
capacity: `add` succeeds only on a non-full window, and the window never holds more than `cap` -/
theorem C13_window_bound (cap : Nat) (ops : List InfOp) (hl : RaftProps.C18.legal (Fifo.new cap) ops = true) :
    ∃ s', RaftProps.C18.runRing (Inflights.new cap) ops = .ok s' ∧ s'.count ≤ s'.cap ∧
      (s'.full = true → ∀ x, s'.add x = .error "inflights.add.full") := by
  obtain ⟨s', e, i, _⟩ := RaftProps.C18.C18_refines cap ops hl
  exact ⟨s', e, i.count_le, fun hf x => RaftProps.C18.C18_add_on_full_panics s' x hf⟩

/-- every append a node releases is a slice of its own log, anchored at an (index, term) of that
log, with a commit field not above its commit index — and only a leader releases appends -/
theorem C13_append_is_slice_obligation (s s' : PSys) (i : Nat) (m : App)
    (h : applyEvent s (.sendApp i m) = .ok s') :
    (s.nodes i).role = 2 ∧ m.term = (s.nodes i).term ∧ m.prev ≤ (s.nodes i).log.length ∧
    m.prevTerm = termAt (s.nodes i).log m.prev ∧
    m.es = ((s.nodes i).log.drop m.prev).take m.es.length ∧ m.commit ≤ (s.nodes i).commit := by
  simp only [applyEvent, ok] at h
  split at h
  · rename_i hg
    exact ⟨hg.2.1, hg.2.2.1, hg.2.2.2.2.1, hg.2.2.2.2.2.1, hg.2.2.2.2.2.2.1, hg.2.2.2.2.2.2.2⟩
  · cases h

/-- in every reachable state, every released append is a contiguous slice of the log of the leader
of its term -/
theorem C13_append_is_leader_slice (s : PSys)
    (hr : Reach s) (m : App) (hm : m ∈ s.apps) :
    m.prev + m.es.length ≤ (s.llog m.term).length ∧
    m.es = ((s.llog m.term).drop m.prev).take m.es.length ∧
    m.prevTerm = termAt (s.llog m.term) m.prev := by
  have := (invL_reachR s hr).msg m hm
  exact ⟨this.len, this.slice, this.anchor⟩

/-- a heartbeat advertises at most the leader's commit index and at most an index the addressee
acknowledged in this term -/
theorem C13_heartbeat_obligation (s s' : PSys) (i to c : Nat) (h : applyEvent s (.sendHB i to c) = .ok s') :
    (s.nodes i).role = 2 ∧ c ≤ (s.nodes i).commit ∧
    (c = 0 ∨ ∃ a ∈ s.acks, a.term = (s.nodes i).term ∧ a.frm = to ∧ c ≤ a.idx) := by
  simp only [applyEvent, ok] at h
  split at h
  · rename_i hg
    refine ⟨hg.2.1, hg.2.2.1, ?_⟩
    rcases hg.2.2.2 with h0 | h1
    · exact Or.inl h0
    · simp only [List.any_eq_true, Bool.and_eq_true, decide_eq_true_eq] at h1
      obtain ⟨a, ha, h2⟩ := h1
      exact Or.inr ⟨a, ha, h2.1, h2.2.1, h2.2.2⟩
  · cases h

/-- growing, shrinking or releasing the window buffer at run time (`adjust_max_inflight_msgs`)
keeps exactly the tracked indexes in order -/
theorem C13_resize_keeps_window (s : Inflights) (h : s.Inv) (n : Nat) :
    ∃ s', s.setCap n = .ok s' ∧ s'.contents = s.contents :=
  (RaftProps.C18.C18_resize_keeps_contents s h n).1

end RaftProps.C13
