#!/usr/bin/env python3
"""C01n generator: scripted copy of the three declarations of `RaftProofs/ClusterCommit5O.lean`
(C01f: `MOKc_kstepb`, `HypB.mokc`, `HypB.commit_step`) whose proofs never use the premise "the op is not a
compaction" of `Cluster.KStep.call`, over `Snap.KStep` (compaction under `CompactOk`) and the joined bundle
`Snap7.Hyp3wB`.  Output: RaftProofs/ClusterSnap7B.lean.   usage: python3 RaftProps/C01n.gen/copy.py"""
import os, re
ROOT = os.path.dirname(os.path.dirname(os.path.dirname(os.path.abspath(__file__))))
src = open(os.path.join(ROOT, 'RaftProofs/ClusterCommit5O.lean')).read().split('\n')
WANT = ['MOKc_kstepb', 'HypB.mokc', 'HypB.commit_step']
START = re.compile(r'^(/--|theorem|structure|def|variable|end\b|namespace)')
# split into chunks (doc comment + declaration)
chunks = []; cur = []
for l in src:
    if START.match(l) and not (cur and cur[-1].startswith('/--') is False and False):
        if cur and not (len(cur) >= 1 and cur[0].startswith('/--') and not any(x.startswith('theorem') or x.startswith('structure') for x in cur)):
            chunks.append(cur); cur = []
    cur.append(l)
chunks.append(cur)
out = []
for ch in chunks:
    name = None
    for l in ch:
        m = re.match(r'^theorem\s+(\S+)', l)
        if m: name = m.group(1); break
    if name in WANT:
        t = '\n'.join(ch).rstrip() + '\n'
        out.append(t)
body = '\n'.join(out)
# the substitutions (the whole hand diff)
body = body.replace('theorem MOKc_kstepb ', "theorem MOKc_kstepb' ")
body = body.replace('MOKc_kstepb ih', "MOKc_kstepb' ih")
body = body.replace('(hstep : KStep s s\')', "(hstep : Snap.KStep s s')")
body = body.replace('(H : HypB cfg h)', '(H : Hyp3wB cfg c0 h)')
body = body.replace('theorem HypB.', 'theorem Hyp3wB.')
body = body.replace('(mem_of_get ', '(Snap.mem_of_get ')
hdr = '''import RaftProofs.ClusterSnap7A
import RaftProofs.ClusterCommit5O

/-!
Commit safety of `ClusterSem` with log compaction AND `batch_append`, part 7B (C01n): **the leader's
commit step** for the joined bundle `Snap7.Hyp3wB`.

SCRIPTED COPY (`RaftProps/C01n.gen/copy.py`) of `MOKc_kstepb`, `HypB.mokc`, `HypB.commit_step` of
`RaftProofs/ClusterCommit5O.lean` (C01f) over `Snap.KStep` / `Snap7.Hyp3wB`: the per-call relation `Gb`
of the batching layer (`Raft.CB.call_gb`, `ClusterB.kstep_gb`) holds for every `NodeOp`, `compact`
included, so the proofs go through verbatim (the substitutions are listed in `copy.py`).
-/
namespace RaftModel
namespace Cluster
namespace Snap7
open Node Raft Raft.CC Raft.CB Raft.Bt ClusterB RaftProps.C02 RaftProps.C05

variable {cfg : JointConfig} {c0 : Nat} {h : List Sys}

'''
ftr = '''
end Snap7
end Cluster
end RaftModel
'''
open(os.path.join(ROOT, 'RaftProofs/ClusterSnap7B.lean'), 'w').write(hdr + body + ftr)
print('written RaftProofs/ClusterSnap7B.lean')
