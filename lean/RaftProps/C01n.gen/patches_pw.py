# hand-made diffs for copy_pw.py: (source file, old, new, expected number of matches)
PATCHES = []
def P(f, old, new, count=1): PATCHES.append((f, old, new, count))

QFB = '''(∃ y ∈ a.msgs, y.msgType = .msgAppend ∧ y.index = x.index ∧ y.logTerm = x.logTerm) ∨
      QSnap %s ∨ a.raftLog.firstIndex ≤ x.index + 1'''

# ---- 5P: the relation
P('5P', '''  sn : ∀ x ∈ a.msgs, x.msgType = .msgSnapshot → x ∈ ms
''', '''  sn : ∀ x ∈ a.msgs, x.msgType = .msgSnapshot → x ∈ ms
  /-- the first index of the log has not moved down since the start of the call … -/
  fi : a.raftLog.firstIndex ≤ l.firstIndex
  /-- … and every new `MsgAppend` is anchored at or above the snapshot point, or at the anchor of an
  old queued `MsgAppend` (batching) -/
  qf : ∀ x ∈ ms, x.msgType = .msgAppend →
    ''' + (QFB % 'ms') + '\n')
P('5P', '''theorem PWb.sn {a r : Raft} (h : PWb a r) : ∀ x ∈ a.msgs, x.msgType = .msgSnapshot → x ∈ r.msgs :=
  PWPb.sn h
''', '''theorem PWb.sn {a r : Raft} (h : PWb a r) : ∀ x ∈ a.msgs, x.msgType = .msgSnapshot → x ∈ r.msgs :=
  PWPb.sn h

theorem PWb.fi {a r : Raft} (h : PWb a r) : a.raftLog.firstIndex ≤ r.raftLog.firstIndex := PWPb.fi h

theorem PWb.qf {a r : Raft} (h : PWb a r) : ∀ x ∈ r.msgs, x.msgType = .msgAppend →
    ''' + (QFB % 'r.msgs') + ''' := PWPb.qf h
''')
P('5P', '''  ⟨hinv, hpo, hrd, fun x hx hty => .inl ⟨x, hx, hty, rfl, rfl⟩, fun _ hx _ => .inl hx, fun _ hx _ => hx⟩''',
  '''  ⟨hinv, hpo, hrd, fun x hx hty => .inl ⟨x, hx, hty, rfl, rfl⟩, fun _ hx _ => .inl hx, fun _ hx _ => hx,
    Nat.le_refl _, fun x hx hty => .inl ⟨x, hx, hty, rfl, rfl⟩⟩''')
P('5P', '''  refine ⟨hl.inv h0.inv, fun hs => ?_, fun hs p hp => ?_, fun x hx hty => ?_,
    fun x hx hty => ?_, h0.sn⟩''', '''  have hfi : l.firstIndex = r.raftLog.firstIndex := by
    rw [(hl.inv h0.inv).firstIndex_abs, h0.inv.firstIndex_abs, hl.abs]
  refine ⟨hl.inv h0.inv, fun hs => ?_, fun hs p hp => ?_, fun x hx hty => ?_,
    fun x hx hty => ?_, h0.sn, by rw [hfi]; exact h0.fi, h0.qf⟩''')
P('5P', '''  ⟨h0.inv, ht, h0.rd, h0.qa, h0.qr, h0.sn⟩''', '''  ⟨h0.inv, ht, h0.rd, h0.qa, h0.qr, h0.sn, h0.fi, h0.qf⟩''')
P('5P', '''  ⟨h0.inv, fun h => absurd h hst, fun h => absurd h hst, h0.qa, h0.qr, h0.sn⟩''',
  '''  ⟨h0.inv, fun h => absurd h hst, fun h => absurd h hst, h0.qa, h0.qr, h0.sn, h0.fi, h0.qf⟩''')
# send_pw
P('5P', '''  refine ⟨h0.inv, fun hs => ?_, h0.rd, fun x hx hx' => ?_, fun x hx hx' => ?_,
    fun x hx hx' => List.mem_append_left _ (h0.sn x hx hx')⟩''', '''  refine ⟨h0.inv, fun hs => ?_, h0.rd, fun x hx hx' => ?_, fun x hx hx' => ?_,
    fun x hx hx' => List.mem_append_left _ (h0.sn x hx hx'), h0.fi, fun x hx hx' => ?_⟩''')
P('5P', '''  · rcases List.mem_append.1 hx with hx | hx
    · exact h0.qr x hx hx'
    · rw [List.mem_singleton.1 hx] at hx'
      rw [hx'] at hty; cases hty
''', '''  · rcases List.mem_append.1 hx with hx | hx
    · exact h0.qr x hx hx'
    · rw [List.mem_singleton.1 hx] at hx'
      rw [hx'] at hty; cases hty
  · rcases List.mem_append.1 hx with hx | hx
    · rcases h0.qf x hx hx' with c | c | c
      · exact .inl c
      · exact .inr (.inl (c.append_left _))
      · exact .inr (.inr c)
    · rw [List.mem_singleton.1 hx] at hx'
      rw [hx'] at hty; cases hty
''')
# push
P('5P', '''    (hr : x.msgType = .msgReadIndexResp → x.index ≤ r.raftLog.committed) :
    PWb a { r with msgs := r.msgs ++ [x] } := by
  refine ⟨h0.inv, fun hs => ?_, h0.rd, fun y hy hy' => ?_, fun y hy hy' => ?_,
    fun y hy hy' => List.mem_append_left _ (h0.sn y hy hy')⟩''', '''    (hr : x.msgType = .msgReadIndexResp → x.index ≤ r.raftLog.committed)
    (hf : x.msgType = .msgAppend → QSnap r.msgs ∨ r.raftLog.firstIndex ≤ x.index + 1) :
    PWb a { r with msgs := r.msgs ++ [x] } := by
  refine ⟨h0.inv, fun hs => ?_, h0.rd, fun y hy hy' => ?_, fun y hy hy' => ?_,
    fun y hy hy' => List.mem_append_left _ (h0.sn y hy hy'), h0.fi, fun y hy hy' => ?_⟩''')
P('5P', '''  · rcases List.mem_append.1 hy with hy | hy
    · exact h0.qr y hy hy'
    · rw [List.mem_singleton.1 hy] at hy' ⊢
      exact .inr (hr hy')
''', '''  · rcases List.mem_append.1 hy with hy | hy
    · exact h0.qr y hy hy'
    · rw [List.mem_singleton.1 hy] at hy' ⊢
      exact .inr (hr hy')
  · rcases List.mem_append.1 hy with hy | hy
    · rcases h0.qf y hy hy' with c | c | c
      · exact .inl c
      · exact .inr (.inl (c.append_left _))
      · exact .inr (.inr c)
    · rw [List.mem_singleton.1 hy] at hy' ⊢
      rcases hf hy' with c | c
      · exact .inr (.inl (c.append_left _))
      · exact .inr (.inr (Nat.le_trans h0.fi c))
''')
# poison
P('5P', '''  refine ⟨h0.inv, fun _ => .inl hq, h0.rd, fun y _ _ => .inr (.inl hq), fun y hy hy' => ?_,
    fun y hy hy' => List.mem_append_left _ (h0.sn y hy hy')⟩''', '''  refine ⟨h0.inv, fun _ => .inl hq, h0.rd, fun y _ _ => .inr (.inl hq), fun y hy hy' => ?_,
    fun y hy hy' => List.mem_append_left _ (h0.sn y hy hy'), h0.fi, fun y _ _ => .inr (.inl hq)⟩''')
# batch
P('5P', '''    fun x hx hty => ?_, fun x hx hty => hsn x (h0.sn x hx hty) hty⟩''',
  '''    fun x hx hty => ?_, fun x hx hty => hsn x (h0.sn x hx hty) hty, h0.fi, fun x hx hty => ?_⟩''')
P('5P', '''  · rcases hnew x hx with c | ⟨y, _, _, hxt, _, _⟩
    · exact h0.qr x c hty
    · rw [hxt] at hty; cases hty
''', '''  · rcases hnew x hx with c | ⟨y, _, _, hxt, _, _⟩
    · exact h0.qr x c hty
    · rw [hxt] at hty; cases hty
  · rcases hnew x hx with c | ⟨y, hy, hyt, _, hi, ht⟩
    · rcases h0.qf x c hty with d | d | d
      · exact .inl d
      · exact .inr (.inl (hq d))
      · exact .inr (.inr d)
    · rcases h0.qf y hy hyt with ⟨z, hz, hzt, hzi, hzl⟩ | d | d
      · exact .inl ⟨z, hz, hzt, hzi.trans hi.symm, hzl.trans ht.symm⟩
      · exact .inr (.inl (hq d))
      · exact .inr (.inr (by rw [hi]; exact d))
''')
# maybe_send_append
P('5P', '''        refine h0.push _ (fun _ => ?_) (fun hc => by cases hc)
        rcases hp with c | c
        · exact .inl c
        · right
          show pr.nextIdx - 1 ≤ r.raftLog.lastIndex
          have := c.2.1; omega
''', '''        refine h0.push _ (fun _ => ?_) (fun hc => by cases hc) (fun _ => ?_)
        · rcases hp with c | c
          · exact .inl c
          · right
            show pr.nextIdx - 1 ≤ r.raftLog.lastIndex
            have := c.2.1; omega
        · -- the entries were read from the log: `next_idx` is not below the first index
          rcases hp with c | c
          · exact .inl c
          · right
            show r.raftLog.firstIndex ≤ pr.nextIdx - 1 + 1
            have hcl := h0.inv.committed_le_last
            have hd := h0.inv.dummy_le_committed
            by_cases hlt : pr.nextIdx ≤ r.raftLog.lastIndex ∧ pr.nextIdx < r.raftLog.firstIndex
            · rw [entries_compacted _ _ _ _ hlt.1 hlt.2] at hes; cases hes
            · have := c.2.1; omega
''')

# ---- 5Q
P('5Q', '''  refine ⟨hl.inv, fun hs => ?_, fun hs p hp => ?_, fun x hx hty => ?_,
    fun x hx hty => ?_, h0.sn⟩''', '''  refine ⟨hl.inv, fun hs => ?_, fun hs p hp => ?_, fun x hx hty => ?_,
    fun x hx hty => ?_, h0.sn, Nat.le_trans h0.fi hl.first, h0.qf⟩''')
P('5Q', '''  refine h0.1.push _ (fun hc => ?_) (fun _ => ?_)
  · rw [sendFill_msgType, hm] at hc; cases hc
''', '''  refine h0.1.push _ (fun hc => ?_) (fun _ => ?_)
    (fun hc => by rw [sendFill_msgType, hm] at hc; cases hc)
  · rw [sendFill_msgType, hm] at hc; cases hc
''')
# generic: the anonymous constructors that pass the fields on
for f in ['5Q', '5R', '5S']:
    for v in ['h0', 'h1', 'h2', 'h3']:
        P(f, '%s.qr, %s.sn⟩' % (v, v), '%s.qr, %s.sn, %s.fi, %s.qf⟩' % (v, v, v, v), -1)
        P(f, '%s.qr,\n    %s.sn⟩' % (v, v), '%s.qr,\n    %s.sn, %s.fi, %s.qf⟩' % (v, v, v, v), -1)

# ---- 5R
P('5R', '''  sn : ∀ x ∈ a.msgs, x.msgType = .msgSnapshot → x ∈ r.msgs

theorem PWb.pr {a r : Raft} (h : PWb a r) : PRb a r := ⟨h.po, h.rd, h.qa, h.qr, h.sn⟩
''', '''  sn : ∀ x ∈ a.msgs, x.msgType = .msgSnapshot → x ∈ r.msgs
  /-- every new `MsgAppend` is anchored at or above the snapshot point the log had when the call
  started, or at the anchor of an old queued `MsgAppend` (or the queue is poisoned) -/
  qf : ∀ x ∈ r.msgs, x.msgType = .msgAppend →
    ''' + (QFB % 'r.msgs') + '''

theorem PWb.pr {a r : Raft} (h : PWb a r) : PRb a r := ⟨h.po, h.rd, h.qa, h.qr, h.sn, h.qf⟩
''')
P('5R', '''  refine ⟨h.po, h.rd, fun x hx hty => ?_, h.qr, h.sn⟩
  rcases h.qa x hx hty with c | c | c
  · exact .inl ⟨x, c, hty, rfl, rfl⟩
  · exact .inr (.inl c)
  · exact .inr (.inr c)
''', '''  refine ⟨h.po, h.rd, fun x hx hty => ?_, h.qr, h.sn, fun x hx hty => ?_⟩
  · rcases h.qa x hx hty with c | c | c
    · exact .inl ⟨x, c, hty, rfl, rfl⟩
    · exact .inr (.inl c)
    · exact .inr (.inr c)
  · rcases h.qf x hx hty with c | c | c
    · exact .inl ⟨x, c, hty, rfl, rfl⟩
    · exact .inr (.inl c)
    · exact .inr (.inr c)
''')
P('5R', '''  refine ⟨h.inv, h.po, h.rd, fun x hx hty => ?_, h.qr, h.sn⟩
  rcases h.qa x hx hty with c | c | c
  · exact .inl ⟨x, c, hty, rfl, rfl⟩
  · exact .inr (.inl c)
  · exact .inr (.inr c)
''', '''  refine ⟨h.inv, h.po, h.rd, fun x hx hty => ?_, h.qr, h.sn, h.fi, fun x hx hty => ?_⟩
  · rcases h.qa x hx hty with c | c | c
    · exact .inl ⟨x, c, hty, rfl, rfl⟩
    · exact .inr (.inl c)
    · exact .inr (.inr c)
  · rcases h.qf x hx hty with c | c | c
    · exact .inl ⟨x, c, hty, rfl, rfl⟩
    · exact .inr (.inl c)
    · exact .inr (.inr c)
''')
P('5R', '''   fun x hx hty => .inl (h.old x hx (by rw [hty]; rfl)), h.sn⟩''',
  '''   fun x hx hty => .inl (h.old x hx (by rw [hty]; rfl)), h.sn,
   fun x hx hty => .inl ⟨x, h.old x hx (by rw [hty]; rfl), hty, rfl, rfl⟩⟩''')

# ---- 5S
P('5S', '''  refine ⟨fun c => ?_, fun c p hp' => ?_, fun x hx hty => ?_, fun x hx hty => ?_, ?_⟩
  · rw [hs] at c; rw [hm, hp]''', '''  refine ⟨fun c => ?_, fun c p hp' => ?_, fun x hx hty => ?_, fun x hx hty => ?_, ?_,
    by rw [hm]; exact h.qf⟩
  · rw [hs] at c; rw [hm, hp]''')
P('5S', '''theorem PRb.rebase {a a' r : Raft} (h : PRb a r) (hm : a'.msgs = a.msgs) : PRb a' r :=
  ⟨h.po, h.rd, by rw [hm]; exact h.qa, by rw [hm]; exact h.qr, by rw [hm]; exact h.sn⟩''',
  '''theorem PRb.rebase {a a' r : Raft} (h : PRb a r) (hm : a'.msgs = a.msgs)
    (hl : a'.raftLog = a.raftLog) : PRb a' r :=
  ⟨h.po, h.rd, by rw [hm]; exact h.qa, by rw [hm]; exact h.qr, by rw [hm]; exact h.sn,
    by rw [hm, hl]; exact h.qf⟩''')
P('5S', '''  refine PRb.rebase (a := ({ st.raft with nextRand := rnd } : Raft)) (a' := st.raft) ?_ rfl
''', '''  refine PRb.rebase (a := ({ st.raft with nextRand := rnd } : Raft)) (a' := st.raft) ?_ rfl rfl
''')
