#!/usr/bin/env python3
"""C01n generator, part 4 (Level 1, conditional on SaneAnchors): scripted copy of the compaction stack
`RaftProofs/ClusterSnap{A..S,3A,3B,3C}.lean` into the nested namespace `RaftModel.Cluster.Snap.J`, over bundles in which
`nb : NoBatch` is replaced by `mv : MultiVoter cfg` and `sane : SaneAnchors` (the shape of C01f's `HypB`).
Copied: every theorem and the structures `Hyp*`, `NodeOk`; NOT copied (the originals are used): every def / inductive /
other structure.  Hand-made diffs: patches_snap.py.
usage: python3 RaftProps/C01n.gen/copy_snap.py [upto]  -> RaftProofs/ClusterSnap8_<X>.lean"""
import os, re, sys
HERE = os.path.dirname(os.path.abspath(__file__))
ROOT = os.path.dirname(os.path.dirname(HERE))
# the whole stack would be: A B C D E F G H I J K L M N O P Q R S 3A 3B 3C — only A and B are patched so far
# (next: C = `call_facts` / `append_prov`, which needs `ClusterB.leader_queueB` (5Z/5Z1) re-proved over `Snap.KStep`)
FILES = ['A','B']
COPY_STRUCT = {'Hyp','Hyp2w','Hyp2','Hyp3a','Hyp3w','Hyp3','NodeOk'}
exec(open(os.path.join(HERE, 'patches_snap.py')).read())
START = re.compile(r'^(/--|/-!|/-|@\[|theorem|private|protected|noncomputable|def|structure|inductive|instance|abbrev|namespace|end\b|open|section|variable|set_option|attribute|mutual|example|import|universe)')
DECL = re.compile(r'^((private|protected|noncomputable)\s+)*(theorem|def|structure|inductive|abbrev|instance|example)\s+(\S+)')
def chunks_of(text):
    chunks=[]; cur=[]; incom=False; pending=False
    def flush():
        nonlocal cur
        if cur: chunks.append(cur); cur=[]
    for l in text.split('\n'):
        if incom:
            cur.append(l)
            if '-/' in l: incom=False
            continue
        if START.match(l):
            isdoc = l.startswith('/--') or l.startswith('@[') or l.startswith('set_option')
            if pending and DECL.match(l): cur.append(l); pending=False
            elif pending and isdoc: cur.append(l)
            else: flush(); cur.append(l); pending=isdoc
            if l.startswith('/-') and '-/' not in l: incom=True
        else: cur.append(l)
    flush(); return chunks
ok=True
def newname(x): return 'ClusterSnap8_'+x
done=[]
for x in FILES:
    src=open(os.path.join(ROOT,'RaftProofs/ClusterSnap%s.lean'%x)).read()
    out=['import RaftProofs.ClusterSnap%s'%x,'import RaftProofs.ClusterSnap7I']+['import RaftProofs.'+newname(y) for y in done]
    out.append('\n/-! SCRIPTED COPY (C01n, `RaftProps/C01n.gen/copy_snap.py` + `patches_snap.py`) of the theorems of\n`RaftProofs/ClusterSnap%s.lean` into `RaftModel.Cluster.Snap.J`: the compaction stack over bundles with `mv` + `sane`\n(C05d\'s `SaneAnchors`) in place of `nb` (`NoBatch`). -/'%x)
    for ch in chunks_of(src):
        first=ch[0]; text='\n'.join(ch)
        if first.startswith('import') or first.startswith('/-!') or (first.startswith('/-') and not first.startswith('/--')): continue
        if first.startswith('namespace Snap'):
            out.append('namespace Snap\nnamespace J'); continue
        if first.startswith('end Snap'):
            out.append('end J\nend Snap'); continue
        if re.match(r'^(namespace|end\b|open|section|variable|universe)', first): out.append(text); continue
        dl=None
        for l in ch:
            m=DECL.match(l)
            if m: dl=m; break
        if not dl: out.append('-- [dropped chunk] '+first[:50]); continue
        kind=dl.group(3); name=dl.group(4)
        if kind=='theorem' or (kind=='structure' and name in COPY_STRUCT): out.append(text)
    body='\n'.join(out)+'\n'
    for (f, old, new, count) in PATCHES:
        if f!=x: continue
        c=body.count(old)
        if count>=0 and c!=count:
            print('PATCH MISMATCH in %s: expected %d, found %d:\n%s'%(x,count,c,old[:160])); ok=False
        body=body.replace(old,new)
    open(os.path.join(ROOT,'RaftProofs/%s.lean'%newname(x)),'w').write(body)
    done.append(x)
    if x=='A':
        # the gateways of the batching layer over the new `Hyp` (copies of 5N / 5cU / 5cV, `HypB` -> `Hyp`)
        sys.path.insert(0, HERE)
        g={'__file__': os.path.join(HERE,'copy_gw.py')}
        src_gw=open(os.path.join(HERE,'copy_gw.py')).read().split("out = []")[0]
        exec(src_gw, g)
        parts=[g['decl'](fn,nm) for fn,nm in [('ClusterCommit5N.lean','HypB.prov0'),('ClusterCommit5cU.lean','nodeRelB'),('ClusterCommit5cV.lean','trans_of_cstepB')]]
        gb='\n'.join(parts).replace('theorem HypB.prov0 (H : HypB cfg h)','theorem Hyp.prov0 (H : Hyp cfg h)').replace('(H : HypB cfg h)','(H : Hyp cfg h)')
        hdr2='import RaftProofs.ClusterSnap8_A\nimport RaftProofs.ClusterCommit5cV\n\n/-! SCRIPTED COPY (C01n, copy_snap.py) of `HypB.prov0` (5N), `nodeRelB` (5cU), `trans_of_cstepB` (5cV) over `Snap.J.Hyp`. -/\nnamespace RaftModel\nnamespace Cluster\nnamespace Snap\nnamespace J\nopen Node Raft Raft.CC Raft.CB Raft.Bt ClusterB RaftProps.C02 RaftProps.C05\n\nvariable {cfg : JointConfig} {h : List Sys}\n\n'
        open(os.path.join(ROOT,'RaftProofs/ClusterSnap8_A2.lean'),'w').write(hdr2+gb+'\nend J\nend Snap\nend Cluster\nend RaftModel\n')
        done.append('A2')
    if len(sys.argv)>1 and sys.argv[1]==x: break
print('ok' if ok else 'MISMATCHES')
