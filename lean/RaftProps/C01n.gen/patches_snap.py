# hand-made diffs for copy_snap.py: (file, old, new, expected number of matches; -1 = any)
PATCHES = []
def P(f, old, new, count=1): PATCHES.append((f, old, new, count))

# ---- A: the bundle, MOKc, the leader's commit step
P('A', '''theorem MOKc.kstep {s s' : Sys} (hm : MOKc s) (hnb : NoBatch s) (hsn : NoSnapNet s)''',
       '''theorem MOKc.kstep {s s' : Sys} (hm : MOKc s) (hsn : NoSnapNet s)''')
P('A', 'kstep_g hm hnb hsn', 'ClusterB.kstep_gb hm hsn', 4)
P('A', '''  nb : ∀ s ∈ h, NoBatch s
''', '''  mv : MultiVoter cfg
  sane : ∀ s ∈ h, SaneAnchors s
''')
P('A', '''  RaftProps.C05.cluster_inv cfg H.ne H.nd1 H.nd2 h H.hist H.fix H.init H.csteps H.nb
''', '''  RaftProps.C05.cluster_inv_batch cfg H.ne H.nd1 H.nd2 h H.hist H.fix H.init H.csteps
    (.inr ⟨H.mv, H.sane⟩)

/-- the Log Matching invariant and the queue invariants of C05d in every state -/
theorem Hyp.invLB {cfg : JointConfig} {h : List Sys} (H : Hyp cfg h) :
    ∃ s0, h[0]? = some s0 ∧ ∀ s ∈ h, InvL (Owner h) (EntriesOf s0) s ∧ InvB s :=
  RaftProps.C05.cluster_invB_batch cfg H.ne H.nd1 H.nd2 h H.hist H.fix H.init H.csteps H.mv H.sane
''')
P('A', '''  exact MOKc.kstep ih (H.nb a (mem_of_get ha)) (H.nosnap a (mem_of_get ha)) (H.steps n a b ha hb)''',
       '''  exact MOKc.kstep ih (H.nosnap a (mem_of_get ha)) (H.steps n a b ha hb)''')
P('A', '''  have hnb := H.nb a (mem_of_get ha)
''', '')
P('A', '''  have key : (∃ m, G (Anet a.net) sta.raft m stb.raft) ∨''', '''  have key : (∃ m, Raft.CB.Gb (Anet a.net) sta.raft m stb.raft) ∨''')

# ---- B
P('B', '''  rcases cstep_nodeRel (hall a (mem_of_get ha)) (H.nb a (mem_of_get ha)) hstep.cstep l st st' hk hk'
    with c | c''', '''  rcases nodeRelB H.toHyp ha hb l st st' hk hk' with c | c''')
P('B', '''  exact C05_cluster_leader_append_only cfg H.ne H.nd1 H.nd2 h H.hist H.fix H.init H.csteps H.nb l d n''',
       '''  exact C05_cluster_leader_append_only_batch cfg H.ne H.nd1 H.nd2 h H.hist H.fix H.init H.csteps
    (.inr ⟨H.mv, H.sane⟩) l d n''')
P('B', '''trans_of_cstep I (H.nb a (mem_of_get ha)) hstep.cstep''', '''trans_of_cstepB H.toHyp ha hb''')
P('B', '''trans_of_cstep Ia (H.nb a (mem_of_get ha)) hstep.cstep''', '''trans_of_cstepB H.toHyp ha hb''')
