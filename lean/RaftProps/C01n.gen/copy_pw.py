#!/usr/bin/env python3
"""C01n generator, part 2: scripted copy of the per-call relation of the batching layer (`PWb` / `PRb`,
`RaftProofs/ClusterCommit5P–5S.lean`, C01f) into the nested namespace `RaftModel.Raft.PB.F`, with the
relation extended by the two facts C01g added to the non-batching relation (`PW.fi`, `PW.qf`,
`ClusterCommit4A–4I`): the first index does not move down within a call, and every `MsgAppend` queued in a
call is anchored at or above the snapshot point the log had when the call started (or has the anchor of an
old queued `MsgAppend` — the batching alternative —, or the queue is poisoned).
The hand-made diffs are the list PATCHES below (string replacements, each must match exactly `count` times).
usage: python3 RaftProps/C01n.gen/copy_pw.py   -> RaftProofs/ClusterSnap7D.lean … 7G.lean"""
import os, re, sys
ROOT = os.path.dirname(os.path.dirname(os.path.dirname(os.path.abspath(__file__))))
FILES = [('5P', '7D'), ('5Q', '7E'), ('5R', '7F'), ('5S', '7G')]
exec(open(os.path.join(os.path.dirname(os.path.abspath(__file__)), 'patches_pw.py')).read())
ok = True
prev = None
for (src, dst) in FILES:
    t = open(os.path.join(ROOT, 'RaftProofs/ClusterCommit%s.lean' % src)).read()
    # imports
    t = re.sub(r'^import .*\n', '', t, flags=re.M)
    imp = 'import RaftProofs.ClusterCommit%s\nimport RaftProofs.ClusterSnap7A\n' % src
    if prev: imp += 'import RaftProofs.ClusterSnap%s\n' % prev
    # module doc: drop the original, put a header
    t = re.sub(r'\A\s*/-!.*?-/\n', '', t, count=1, flags=re.S)
    hdr = ('\n/-! SCRIPTED COPY (C01n, `RaftProps/C01n.gen/copy_pw.py` + `patches_pw.py`) of `RaftProofs/ClusterCommit%s.lean`\n'
           'into the nested namespace `RaftModel.Raft.PB.F`: the per-call relation of the batching layer with the\n'
           'two extra facts `fi` / `qf` (anchors of new appends are not below the snapshot point). -/\n') % src
    t = t.replace('namespace PB\n', 'namespace PB\nnamespace F\n', 1)
    t = t.replace('end PB\n', 'end F\nend PB\n', 1)
    for m in ['pwb_pre', 'pwb_auto', 'lwb_pre', 'lwb_auto']:
        t = t.replace(m, m.replace('b_', 'f_'))
    t = t.replace('_root_.RaftModel.Raft.CP.PR.prb', '_root_.RaftModel.Raft.CP.PR.prf')
    t = t.replace('_root_.RaftModel.Raft.CP.PW.pwb', '_root_.RaftModel.Raft.CP.PW.pwf')
    t = t.replace('_root_.RaftModel.Raft.CP.NF.prb', '_root_.RaftModel.Raft.CP.NF.prf')
    t = re.sub(r'\.prb\b', '.prf', t)
    t = re.sub(r'\.pwb\b', '.pwf', t)
    for (f, old, new, count) in PATCHES:
        if f != src: continue
        c = t.count(old)
        if count >= 0 and c != count:
            print('PATCH MISMATCH in %s: expected %d, found %d:\n%s' % (src, count, c, old[:200])); ok = False
        t = t.replace(old, new)
    open(os.path.join(ROOT, 'RaftProofs/ClusterSnap%s.lean' % dst), 'w').write(imp + hdr + t)
    prev = dst
print('ok' if ok else 'MISMATCHES')
