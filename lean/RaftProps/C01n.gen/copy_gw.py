#!/usr/bin/env python3
"""C01n generator, part 3: the cluster-level *gateways* of the batching layer (C01f) over the joined bundle.
Scripted copy of `HypB.prov0` (ClusterCommit5N), `nodeRelB` (5cU), `trans_of_cstepB` (5cV) — whose proofs use the
steps of the history only through `CStep` (compaction under `CompactOk` included) — with the bundle `HypB`
replaced by `Snap7.Hyp3wB` + the hypothesis `hsane : ∀ s ∈ h, SaneAnchors s`.
Output: RaftProofs/ClusterSnap7I.lean.   usage: python3 RaftProps/C01n.gen/copy_gw.py"""
import os, re
ROOT = os.path.dirname(os.path.dirname(os.path.dirname(os.path.abspath(__file__))))
def decl(fn, name):
    lines = open(os.path.join(ROOT, 'RaftProofs', fn)).read().split('\n')
    # find 'theorem <name>' line, extend back over the doc comment, forward to the next blank-line + top-level start
    i = next(k for k, l in enumerate(lines) if l.startswith('theorem ' + name + ' '))
    s = i
    while s > 0 and not lines[s - 1].startswith('/--') and lines[s - 1].strip() != '' : s -= 1
    if s > 0 and lines[s - 1].startswith('/--'): s -= 1
    e = i + 1
    while e < len(lines) and not re.match(r'^(theorem|/--|structure|def|end |namespace|variable|inductive)', lines[e]): e += 1
    return '\n'.join(lines[s:e]).rstrip() + '\n'
out = []
for fn, name in [('ClusterCommit5N.lean', 'HypB.prov0'), ('ClusterCommit5cU.lean', 'nodeRelB'),
                 ('ClusterCommit5cV.lean', 'trans_of_cstepB')]:
    out.append(decl(fn, name))
body = '\n'.join(out)
SUBS = [
  ('theorem HypB.prov0 (H : HypB cfg h)', 'theorem prov0S (H : Hyp3wB cfg c0 h) (hSA : ∀ s ∈ h, SaneAnchors s)'),
  ('theorem nodeRelB (H : HypB cfg h)', 'theorem nodeRelS (H : Hyp3wB cfg c0 h) (hSA : ∀ s ∈ h, SaneAnchors s)'),
  ('theorem trans_of_cstepB (H : HypB cfg h)', 'theorem trans_of_cstepS (H : Hyp3wB cfg c0 h) (hSA : ∀ s ∈ h, SaneAnchors s)'),
  ('H.invLB', 'H.invLB_partial hSA'),
  ('obtain ⟨s0, _, hall⟩ := H.invL\n  have I := hall a (mem_of_get ha)',
   'obtain ⟨s0, _, hall⟩ := H.invLB_partial hSA\n  have I := (hall a (Snap.mem_of_get ha)).1'),
  ('H.mv', '(multiVoter_of_nolone H.nolone)'),
  ('H.sane _', 'hSA _'),
  ('H.prov0 ha hb', 'prov0S H hSA ha hb'),
  ('(mem_of_get ', '(Snap.mem_of_get '),
  (':= mem_of_get ', ':= Snap.mem_of_get '),
]
for a, b in SUBS:
    assert a in body, a
    body = body.replace(a, b)
hdr = '''import RaftProofs.ClusterSnap7H
import RaftProofs.ClusterCommit5cV

/-!
Commit safety of `ClusterSem` with log compaction AND `batch_append`, part 7I (C01n): **the cluster-level
gateways of the batching layer over the joined bundle**, conditional on C05d's `SaneAnchors`
(`hsane`).  These are the drop-in replacements for the places where the compaction stack
(`ClusterSnapA–V`, `3A–3C`) uses `nb`:

* `prov0S` (for `HypB.prov0`): the proviso `Prov0` of the batching per-call layer at every step;
* `nodeRelS` (for `cstep_nodeRel … H.nb`, `ClusterSnapB/H/J`): one step, one node;
* `trans_of_cstepS` (for `Snap.trans_of_cstep … H.nb`, `ClusterSnapB/H`): the Log-Matching transition of a
  step, compaction (`CompactOk`) included;
* `call_factsS` (for `Snap.call_facts`, `ClusterSnapC`, hand-written): what the node-level layers say about
  one `call` / `deliver` step — `Gb`, `LStepB`, `LogRel'` (the call may be a compaction).

The first three are a SCRIPTED COPY (`RaftProps/C01n.gen/copy_gw.py`) of `HypB.prov0` (5N), `nodeRelB` (5cU),
`trans_of_cstepB` (5cV): their proofs see the steps of the history only as `CStep`s.
-/
namespace RaftModel
namespace Cluster
namespace Snap7
open Node Raft Raft.CC Raft.CB Raft.Bt ClusterB RaftProps.C02 RaftProps.C05

variable {cfg : JointConfig} {c0 : Nat} {h : List Sys}

'''
hand = '''
/-- **everything the node-level layers say about one `call` / `deliver` step of a history with batching
and compaction** (`Snap.call_facts` / `ClusterB.call_factsB` joined): the relation `Gb` of the commit
layer, the effect `LStepB` of the Log Matching layer with batching, and how the logical log changed —
as without compaction (`LogRel`), or the call is a compaction (`Snap.LogRel'`) -/
theorem call_factsS (H : Hyp3wB cfg c0 h) (hSA : ∀ s ∈ h, SaneAnchors s)
    {n : Nat} {a b : Sys} {i : Nat} {st st' : NState}
    {rnd : Option Nat} {op : NodeOp} {res : OpRes}
    (ha : h[n]? = some a) (hb : h[n + 1]? = some b) (hi : a.node i = some st)
    (hi' : b.node i = some st') (hnet : b.net = a.net)
    (hop : appOp op = true ∨ ∃ m, op = .step m ∧ m ∈ a.net ∧ m.to = i)
    (hc : ∀ j, op = .compact j → CompactOk st.raft.raftLog j)
    (hcall : Node.call st rnd op = .ok (res, st')) :
    Gb (Anet a.net) st.raft (CV.opMsg op) st'.raft ∧ LStepB st.raft st'.raft (CV.opMsg op) ∧
    Snap.LogRel' st st' op ∧ st.raft.id = i := by
  obtain ⟨s0, _, hall⟩ := H.invLB_partial hSA
  have I := (hall a (Snap.mem_of_get ha)).1
  have hsn := H.nosnap a (Snap.mem_of_get ha)
  have hop1 : appOp op = true ∨ ∃ m, op = .step m ∧ m ∈ a.net := by
    rcases hop with g | ⟨m, g1, g2, _⟩
    · exact .inl g
    · exact .inr ⟨m, g1, g2⟩
  have hop' := op_ok hop
  have hms : ∀ m, op = .step m → m.msgType ≠ .msgSnapshot := by
    intro m hm
    rcases hop1 with h1 | ⟨m', h1, h2⟩
    · rw [hm] at h1; cases h1
    · rw [hm] at h1; cases h1; exact hsn m h2
  have g := kstep_gb (H.mokc n a ha) hsn hi hop1 hcall
  have hw : ∀ m, op = .step m → m.msgType = .msgAppend → MsgOk m := by
    intro m hm hty
    rcases hop1 with h1 | ⟨m', h1, h2⟩
    · rw [hm] at h1; cases h1
    · rw [hm] at h1; cases h1
      exact I.msgOk h2 hty
  have hp := (prov0S H hSA ha hb hi hi' hnet hop hcall).2
  have hs1 := H.nopend a (Snap.mem_of_get ha) i st hi
  have hL := call_lstep_b st st' rnd op res (I.inv i st hi) hp hop' hw hc hcall
  have hid := (((hist_all H.hist).1 a (Snap.mem_of_get ha)).ids i st hi).1
  by_cases hco : ∃ j, op = .compact j
  · obtain ⟨j, rfl⟩ := hco
    have hout := Snap.compact_out (I.inv i st hi) hs1 (hc j rfl) hcall
    exact ⟨g, hL, .inr ⟨j, rfl, hout⟩, hid⟩
  · have hnc : ∀ j, op ≠ .compact j := fun j hj => hco ⟨j, hj⟩
    have hq : LogRel st.raft st'.raft (CV.opMsg op) := by
      rcases call_stob st st' rnd op res (I.inv i st hi) hp hop' hw hms hnc hs1 hcall with c | c
      · exact c.l
      · subst c
        exact .inl (stabilize_out (I.inv i st hi) hs1 hcall).2.2.1
    exact ⟨g, hL, .inl hq, hid⟩
'''
ftr = '''
end Snap7
end Cluster
end RaftModel
'''
open(os.path.join(ROOT, 'RaftProofs/ClusterSnap7I.lean'), 'w').write(hdr + body + hand + ftr)
print('written RaftProofs/ClusterSnap7I.lean')
