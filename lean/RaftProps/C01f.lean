import RaftProofs.ClusterCommit5c4M
import RaftProofs.ClusterCommit5Z1

/-!
# C01 / C03 / C04, cluster level, **with `batch_append` allowed** (`NoBatch` removed from C01d)

`RaftProps/C01d.lean` proves the commit layer of `ClusterSem` (the leader's commit rule with durable
acknowledgements, Leader Completeness, State-Machine Safety, soundness of every commit index) under the
bundle `Hyp3w`, which contains `NoBatch` (`batch_append = false` on every node of every state).  This
file states **the same theorems under `Hyp3wB`** (`RaftProofs/ClusterCommit5c2P.lean`), which does not
mention `batch_append` at all: the flag may be on, off, or switched by `set_batch_append` at any time.

`Hyp3wB cfg c0 h` = the fields of `Hyp3w` except `nb`, and instead
* `nosq`: no `MsgSnapshot` is ever *queued* (under `nosnap` — no `MsgSnapshot` in the transport — a node
  that queues one can never `send` again; C01d carried the alternative "a `MsgSnapshot` is queued next to
  it" through its invariants, which C05d's `SaneAnchors` does not have);
* `c0z : c0 = 0`: the nodes start without a snapshot point (C05d's `SaneAnchors` — an anchor with
  `log_term = 0` is at index 0 — coincides with "anchored inside the log" only then);
* `mv : MultiVoter cfg` — redundant: `multiVoter_of_nolone` derives it from `nolone`
  (`Hyp3wB.of_nolone` below builds the bundle without it).

C05d's hypothesis **`SaneAnchors` is not assumed but derived** (`C01f_sane_anchors`), inside the same
induction along the history that discharges `anch` and `rirs` (`ci_all`, `Hyp3wB.toHyp3aB` in
`RaftProofs/ClusterCommit5c4L.lean`): the circularity "`SaneAnchors` needs progress-within-the-log needs
Leader Completeness needs Log Matching with batching needs `SaneAnchors`" is broken by applying the whole
layer to the prefix `h[0..n]` and a per-call argument for the step `n → n+1`.

New ingredients (all in `RaftProofs/ClusterCommit5*.lean`):
* per-call layer without `batchAppend = false`: `CB.call_gb` (`SF`/`G` → `SFb`/`Gb`, third alternative
  "batched onto an old queued append" `BkOK`), `PB.call_prb` (`PW` → `PWb`), `Bt.call_stob` (`call_sto` and
  the log half of `call_q`, on C05d's `N`/`L` relations);
* cluster level: `HypB`/`Hyp2wB`/`Hyp3aB`/`Hyp3wB`, `HypB.invLB` (Log Matching + clean queue of C05d),
  `HypB.prov0`, the gateways `call_factsB`/`call_moreB`, **the clean-queue invariant of the commit layer**
  `leader_queueB` (`C01f_leader_queue_clean` below), and copies of the cluster-level files of C01c/C01d
  over the new bundles (`ClusterCommit5c*.lean`, namespace `RaftModel.ClusterB`).
-/
namespace RaftProps.C01f
open RaftModel RaftModel.Cluster RaftModel.ClusterB RaftModel.Node RaftModel.Raft RaftModel.Raft.CC

/-- the bundle without the redundant field `mv` -/
theorem Hyp3wB.of_nolone {cfg : JointConfig} {h : List Sys} (hist : History h)
    (fix : ∀ s ∈ h, FixedCfg cfg s) (ne : cfg.incoming ≠ []) (nd1 : cfg.incoming.Nodup)
    (nd2 : cfg.outgoing.Nodup) (init : ∀ s : Sys, h[0]? = some s → InitOk s)
    (steps : ∀ (n : Nat) (a b : Sys), h[n]? = some a → h[n + 1]? = some b → KStep a b)
    (nosnap : ∀ s ∈ h, NoSnapNet s)
    (nolone : ∀ i Q, IsJointQuorum cfg Q → ∃ k ∈ Q, k ≠ i)
    (shape : ∀ s ∈ h, ∀ i st, s.node i = some st →
      st.raft.raftLog.unstable.snapshot = none ∧ st.raft.raftLog.store.firstIndex = 0 + 1)
    (initc : ∀ s : Sys, h[0]? = some s → ∀ i st, s.node i = some st → st.raft.raftLog.committed = 0)
    (snapt0 : ∀ s0, h[0]? = some s0 → ∀ i sti, s0.node i = some sti → ∀ t0,
      sti.raft.raftLog.abs.snapTerm = some t0 → ∀ j stj, s0.node j = some stj → t0 ≤ stj.raft.term)
    (nosq : ∀ s ∈ h, ∀ i st, s.node i = some st → ∀ y ∈ st.raft.msgs, y.msgType ≠ .msgSnapshot) :
    Hyp3wB cfg 0 h :=
  { hist := hist, fix := fix, ne := ne, nd1 := nd1, nd2 := nd2, init := init, steps := steps,
    nosnap := nosnap, mv := multiVoter_of_nolone nolone, nolone := nolone, shape := shape,
    initc := initc, c0z := rfl, snapt0 := snapt0, nosq := nosq }

/-- **the old bundle is a special case**: a history under C01d's `Hyp3w` (nobody batches) with `c0 = 0`
in which no `MsgSnapshot` is ever queued satisfies `Hyp3wB` -/
theorem Hyp3w.toHyp3wB {cfg : JointConfig} {h : List Sys} (H : Hyp3w cfg 0 h)
    (nosq : ∀ s ∈ h, ∀ i st, s.node i = some st → ∀ y ∈ st.raft.msgs, y.msgType ≠ .msgSnapshot) :
    Hyp3wB cfg 0 h :=
  Hyp3wB.of_nolone H.hist H.fix H.ne H.nd1 H.nd2 H.init H.steps H.nosnap H.nolone H.shape H.initc
    H.snapt0 nosq

/-- **C05d's hypothesis `SaneAnchors`, derived**: in every state of a history under `Hyp3wB` no queued
`MsgAppend` is anchored in the void — with batching on, this is what the Log Matching layer
(`RaftProps/C05d.lean`, `BatchOk`) takes as a hypothesis. -/
theorem C01f_sane_anchors (cfg : JointConfig) (c0 : Nat) (h : List Sys) (H : Hyp3wB cfg c0 h) :
    MultiVoter cfg ∧ ∀ s ∈ h, SaneAnchors s :=
  ⟨H.mv, H.toHyp3aB.sane⟩

/-- … hence every theorem of `RaftProps/C05d.lean` (Log Matching with batching) applies: `BatchOk`. -/
theorem C01f_batchOk (cfg : JointConfig) (c0 : Nat) (h : List Sys) (H : Hyp3wB cfg c0 h) :
    RaftProps.C05.BatchOk cfg h := H.toHyp3aB.toHypB.batchOk

/-- **the clean-queue invariant of the commit layer**: every `MsgAppend` in the queue of a leader —
queued on its own or glued together by `try_batching` — carries the leader's term and id, is anchored
inside the leader's log, and is a slice of the leader's log. -/
theorem C01f_leader_queue_clean (cfg : JointConfig) (c0 : Nat) (h : List Sys) (H : Hyp3wB cfg c0 h)
    (n : Nat) (s : Sys) (hn : h[n]? = some s) (i : Nat) (st : NState) (hi : s.node i = some st)
    (hl : st.raft.state = .leader) (x : Message) (hx : x ∈ st.raft.msgs)
    (hty : x.msgType = .msgAppend) :
    x.term = st.raft.term ∧ x.frm = i ∧ st.raft.raftLog.term x.index = .ok x.logTerm ∧
    ContigFrom (x.index + 1) x.entries ∧ Sub (msgLog x) st.raft.raftLog.abs :=
  leader_queueB H.toHyp3aB.toHyp2wB hn hi hl hx hty

/-- **the former gap `anch`, with batching**: every `MsgAppend` in the transport or in a queue is
anchored inside its sender's log. -/
theorem C01f_appends_anchored (cfg : JointConfig) (c0 : Nat) (h : List Sys) (H : Hyp3wB cfg c0 h)
    (n : Nat) (s : Sys) (hn : h[n]? = some s) :
    (∀ x ∈ s.net, x.msgType = .msgAppend → x.logTerm ≠ 0 ∨ x.index ≤ c0) ∧
    (∀ i st, s.node i = some st → ∀ x ∈ st.raft.msgs, x.msgType = .msgAppend →
      x.logTerm ≠ 0 ∨ x.index ≤ c0) := by
  refine ⟨(ci_all H n s hn).na, fun i st hi x hx hty => ?_⟩
  rcases (ci_all H n s hn).qa i st hi x hx hty with ⟨y, hy, hys⟩ | c
  · exact absurd hys (H.nosq s (mem_of_get hn) i st hi y hy)
  · exact c

end RaftProps.C01f

namespace RaftModel.ClusterB
open RaftModel RaftModel.Cluster RaftModel.Node RaftModel.Raft RaftModel.Raft.CC RaftProps.C01f

/-- the commit event of a step that moves the commit index of a node that is leader afterwards -/
theorem _root_.RaftProps.C01f.ev_of_step {h : List Sys} {n : Nat} {a b : Sys} (ha : h[n]? = some a)
    (hb : h[n + 1]? = some b) {l : Nat} {sta stb : NState} (hla : a.node l = some sta)
    (hlb : b.node l = some stb) (hs : stb.raft.state = .leader)
    (hc : sta.raft.raftLog.committed < stb.raft.raftLog.committed) :
    Ev.ok h ⟨n, l, stb.raft.term, stb.raft.raftLog.committed, stb.raft.raftLog.abs,
      stb.raft.raftLog.persisted⟩ :=
  ⟨a, b, sta, stb, ha, hb, hla, hlb, hs, rfl, hc, rfl, rfl, rfl⟩

/-- **C04 `cluster_leader_commit_rule`** — the commit rule with **durable acknowledgements**: whenever
a step `h[n] → h[n+1]` takes the commit index of a node `l` that is leader of term `t` after the step
from `c` to `c' > c`, the entry at `c'` in its log carries term `t`, and there is a joint quorum `Q` of
`cfg` such that every `j ∈ Q` is

* `l` itself, with `persisted ≥ c'` — and its storage holds its log up to `c'`; or
* the sender of an accepting `MsgAppendResponse` `x` for term `t` with `index ≥ c'` that is in the
  transport before the step, **and in every state of the history whose transport holds `x` — from the
  moment `x` entered the transport on — the storage of `j` holds `l`'s log up to `c'`**. -/
theorem _root_.RaftProps.C01f.C04_cluster_leader_commit_rule (cfg : JointConfig) (c0 : Nat) (h : List Sys)
    (H : Hyp3wB cfg c0 h)
    (n : Nat) (a b : Sys) (ha : h[n]? = some a) (hb : h[n + 1]? = some b)
    (l : Nat) (sta stb : NState) (hla : a.node l = some sta) (hlb : b.node l = some stb)
    (t : Nat) (hs : stb.raft.state = .leader) (ht : stb.raft.term = t)
    (hc : sta.raft.raftLog.committed < stb.raft.raftLog.committed) :
    stb.raft.raftLog.term stb.raft.raftLog.committed = .ok t ∧
    ∃ Q, IsJointQuorum cfg Q ∧ ∀ j ∈ Q,
      (j = l ∧ stb.raft.raftLog.committed ≤ stb.raft.raftLog.persisted ∧
        ∀ k, k ≤ stb.raft.raftLog.committed →
          (storeLog stb.raft.raftLog.store).entryAt k = stb.raft.raftLog.abs.entryAt k) ∨
      ∃ x ∈ a.net, x.msgType = .msgAppendResponse ∧ x.reject = false ∧ x.frm = j ∧ x.term = t ∧
        stb.raft.raftLog.committed ≤ x.index ∧
        ∀ (m : Nat) (s : Sys) (stj : NState), h[m]? = some s → x ∈ s.net → s.node j = some stj →
          ∀ k, k ≤ stb.raft.raftLog.committed →
            (storeLog stj.raft.raftLog.store).entryAt k = stb.raft.raftLog.abs.entryAt k := by
  have H2 := H.toHyp3aB.toHyp2wB
  have Ha := H.toHyp3aB
  obtain ⟨h1, Q, hQ, hq⟩ := H2.toHypB.commit_step n a b ha hb l sta stb hla hlb hs hc
  subst ht
  have hE := ev_of_step ha hb hla hlb hs hc
  obtain ⟨_, hEh, hc0⟩ := Ev.leaderLog H2 hE
  have ob := node_okB H2 hb hlb
  refine ⟨h1, Q, hQ, fun j hj => ?_⟩
  rcases hq j hj with ⟨g1, g2⟩ | ⟨x, hx, hack, hfrm, hterm, hidx⟩
  · exact .inl ⟨g1, g2, fun k hk => (ob.inv.abs_store_persisted ob.snap (by omega)).symm⟩
  · right
    have hx0 : x.index ≠ 0 := by
      have : c0 < stb.raft.raftLog.committed := hc0
      omega
    have hterm' : x.term = stb.raft.term := by
      rcases hterm with d | d
      · exact d
      · exact absurd d ((ack_inv H2 n a ha).2 x hx hack hx0).2
    refine ⟨x, hx, hack.1, hack.2, hfrm, hterm', hidx, fun m s stj hm hxs hj k hk => ?_⟩
    have hh := (sm_all Ha hm).rets _ hE j stj hj (.inl ⟨x, hxs, hack, hfrm, hterm', hidx⟩)
    obtain ⟨e1, he1, ht1⟩ := hh
    obtain ⟨e2, he2, ht2⟩ := hEh
    have oj := node_okB H2 hm hj
    have hag := agree_all H2 m (n + 1) s b hm hb (.store j) (.log l) _ _ ⟨stj, hj, rfl⟩ (at_log hlb)
    exact eq_below hag (oj.ssnap.trans ob.snapIdx.symm) he1 he2 (ht1.trans ht2.symm) k hk

/-- **C03 `cluster_leader_completeness`** — every entry a leader has committed is in the log of every
leader of a later term: if a step `h[n] → h[n+1]` takes the commit index of `l`, leader of term `t`
after the step, to `c'`, then any node that leads a term `t' > t` in any state `h[m]` of the history
holds, at every index up to `c'`, the entry `l` held there. -/
theorem _root_.RaftProps.C01f.C03_cluster_leader_completeness (cfg : JointConfig) (c0 : Nat) (h : List Sys)
    (H : Hyp3wB cfg c0 h)
    (n : Nat) (a b : Sys) (ha : h[n]? = some a) (hb : h[n + 1]? = some b)
    (l : Nat) (sta stb : NState) (hla : a.node l = some sta) (hlb : b.node l = some stb)
    (hs : stb.raft.state = .leader)
    (hc : sta.raft.raftLog.committed < stb.raft.raftLog.committed)
    (m : Nat) (s : Sys) (hm : h[m]? = some s) (l' : Nat) (st' : NState)
    (hl' : s.node l' = some st') (hs' : st'.raft.state = .leader)
    (ht : stb.raft.term < st'.raft.term) :
    ∀ k, k ≤ stb.raft.raftLog.committed →
      st'.raft.raftLog.abs.entryAt k = stb.raft.raftLog.abs.entryAt k := by
  have H2 := H.toHyp3aB.toHyp2wB
  have Ha := H.toHyp3aB
  have hE := ev_of_step ha hb hla hlb hs hc
  obtain ⟨hEl, hEh, _⟩ := Ev.leaderLog H2 hE
  have hh := (sm_all Ha hm).lc _ hE l' st' hl' hs' ht
  exact eq_ll H2 hm hl' hEl hh hEh

/-- the logs of two commit events agree up to the smaller commit index -/
theorem _root_.RaftProps.C01f.ev_logs_agree {cfg : JointConfig} {c0 : Nat} {h : List Sys} (H : Hyp3wB cfg c0 h)
    {E1 E2 : Ev} (h1 : E1.ok h) (h2 : E2.ok h) (hle : E1.c ≤ E2.c) : EqUpTo E1.gE E2.gE E1.c := by
  have H2 := H.toHyp3aB.toHyp2wB
  have Ha := H.toHyp3aB
  obtain ⟨l1, hh1, _⟩ := Ev.leaderLog H2 h1
  obtain ⟨l2, _, _⟩ := Ev.leaderLog H2 h2
  have S := sall Ha (E1.nE + E2.nE + 2)
  have := ctf H2 S h2 h1 (by omega) hle (fun _ => ⟨E1.gE, l1.mono (by omega)⟩)
  exact ll_eq_below H2 l1 l2 hh1 this

/-- **C04 `cluster_follower_commit_sound`** — *every* commit index is sound: in every state `h[m]`,
what a node `v` has marked committed is at most the common snapshot point `c0`, or it was committed by
a leader: there is an earlier step `h[n] → h[n+1]` (`n < m`) that took the commit index of a node `l`,
leader of a term `t ≤ term(v)` after the step, to some `c' ≥ committed(v)`, and the log of `v` equals
the log `l` had then up to `committed(v)`. -/
theorem _root_.RaftProps.C01f.C04_cluster_follower_commit_sound (cfg : JointConfig) (c0 : Nat) (h : List Sys)
    (H : Hyp3wB cfg c0 h) (m : Nat) (s : Sys) (hm : h[m]? = some s) (v : Nat) (st : NState)
    (hv : s.node v = some st) :
    st.raft.raftLog.committed ≤ c0 ∨
    ∃ (n : Nat) (a b : Sys) (l : Nat) (sta stb : NState), n < m ∧ h[n]? = some a ∧
      h[n + 1]? = some b ∧ a.node l = some sta ∧ b.node l = some stb ∧
      stb.raft.state = .leader ∧ sta.raft.raftLog.committed < stb.raft.raftLog.committed ∧
      st.raft.raftLog.committed ≤ stb.raft.raftLog.committed ∧ stb.raft.term ≤ st.raft.term ∧
      ∀ k, k ≤ st.raft.raftLog.committed →
        st.raft.raftLog.abs.entryAt k = stb.raft.raftLog.abs.entryAt k := by
  have Ha := H.toHyp3aB
  rcases (sm_all Ha hm).nctm v st hv with c | ⟨E, hE, h2, h3, h4, h5⟩
  · exact .inl c
  · right
    obtain ⟨a, b, sta, stb, ha, hb, hla, hlb, hs, ht, hc, e1, e2, _⟩ := hE
    exact ⟨E.nE, a, b, E.l, sta, stb, h2, ha, hb, hla, hlb, hs, hc, by rw [← e1]; exact h3,
      by rw [ht]; exact h4, by rw [← e2]; exact h5⟩

/-- … and so is every **stored** commit index (what a restarted node starts from): it is not ahead of
the commit index, and it is covered by a leader's commit of a term not above the stored term, with the
stored entries. -/
theorem _root_.RaftProps.C01f.C04_cluster_stored_commit_sound (cfg : JointConfig) (c0 : Nat) (h : List Sys)
    (H : Hyp3wB cfg c0 h) (m : Nat) (s : Sys) (hm : h[m]? = some s) (v : Nat) (st : NState)
    (hv : s.node v = some st) :
    st.raft.raftLog.store.hardState.commit ≤ st.raft.raftLog.committed ∧
    (st.raft.raftLog.store.hardState.commit ≤ c0 ∨
     ∃ (n : Nat) (a b : Sys) (l : Nat) (sta stb : NState), n < m ∧ h[n]? = some a ∧
      h[n + 1]? = some b ∧ a.node l = some sta ∧ b.node l = some stb ∧
      stb.raft.state = .leader ∧ sta.raft.raftLog.committed < stb.raft.raftLog.committed ∧
      st.raft.raftLog.store.hardState.commit ≤ stb.raft.raftLog.committed ∧
      stb.raft.term ≤ st.raft.raftLog.store.hardState.term ∧
      ∀ k, k ≤ st.raft.raftLog.store.hardState.commit →
        (storeLog st.raft.raftLog.store).entryAt k = stb.raft.raftLog.abs.entryAt k) := by
  have Ha := H.toHyp3aB
  refine ⟨(sm_all Ha hm).scm v st hv, ?_⟩
  rcases (sm_all Ha hm).ncts v st hv with c | ⟨E, hE, h2, h3, h4, h5⟩
  · exact .inl c
  · right
    obtain ⟨a, b, sta, stb, ha, hb, hla, hlb, hs, ht, hc, e1, e2, _⟩ := hE
    exact ⟨E.nE, a, b, E.l, sta, stb, h2, ha, hb, hla, hlb, hs, hc, by rw [← e1]; exact h3,
      by rw [ht]; exact h4, by rw [← e2]; exact h5⟩

/-- **C01 `cluster_state_machine_safety`** — any two nodes, in any two states of the history (the same
node before and after a restart included), hold the same entry at every index both have marked
committed. -/
theorem _root_.RaftProps.C01f.C01_cluster_state_machine_safety (cfg : JointConfig) (c0 : Nat) (h : List Sys)
    (H : Hyp3wB cfg c0 h)
    (m1 : Nat) (s1 : Sys) (hm1 : h[m1]? = some s1) (v1 : Nat) (st1 : NState)
    (hv1 : s1.node v1 = some st1)
    (m2 : Nat) (s2 : Sys) (hm2 : h[m2]? = some s2) (v2 : Nat) (st2 : NState)
    (hv2 : s2.node v2 = some st2)
    (k : Nat) (hk1 : k ≤ st1.raft.raftLog.committed) (hk2 : k ≤ st2.raft.raftLog.committed) :
    st1.raft.raftLog.abs.entryAt k = st2.raft.raftLog.abs.entryAt k := by
  have H2 := H.toHyp3aB.toHyp2wB
  have Ha := H.toHyp3aB
  have o1 := node_okB H2 hm1 hv1
  have o2 := node_okB H2 hm2 hv2
  by_cases hk0 : k ≤ c0
  · unfold LLog.entryAt
    rw [if_pos (by rw [o1.snapIdx]; exact hk0), if_pos (by rw [o2.snapIdx]; exact hk0)]
  rcases (sm_all Ha hm1).nctm v1 st1 hv1 with c | ⟨E1, hE1, _, a3, _, a5⟩
  · omega
  rcases (sm_all Ha hm2).nctm v2 st2 hv2 with c | ⟨E2, hE2, _, b3, _, b5⟩
  · omega
  rw [a5 k hk1, b5 k hk2]
  rcases Nat.le_total E1.c E2.c with hle | hle
  · exact ev_logs_agree H hE1 hE2 hle k (by omega)
  · exact (ev_logs_agree H hE2 hE1 hle k (by omega)).symm

/-- … in particular for the **applied** entries of two nodes whose applied index is within their
commit index (`AppliedOk`, which holds outside the restart window — `raft_log.rs:44-46`). -/
theorem _root_.RaftProps.C01f.C01_cluster_state_machine_safety_applied (cfg : JointConfig) (c0 : Nat) (h : List Sys)
    (H : Hyp3wB cfg c0 h)
    (m1 : Nat) (s1 : Sys) (hm1 : h[m1]? = some s1) (v1 : Nat) (st1 : NState)
    (hv1 : s1.node v1 = some st1) (ha1 : st1.raft.raftLog.AppliedOk)
    (m2 : Nat) (s2 : Sys) (hm2 : h[m2]? = some s2) (v2 : Nat) (st2 : NState)
    (hv2 : s2.node v2 = some st2) (ha2 : st2.raft.raftLog.AppliedOk)
    (k : Nat) (hk1 : k ≤ st1.raft.raftLog.applied) (hk2 : k ≤ st2.raft.raftLog.applied) :
    st1.raft.raftLog.abs.entryAt k = st2.raft.raftLog.abs.entryAt k :=
  C01_cluster_state_machine_safety cfg c0 h H m1 s1 hm1 v1 st1 hv1 m2 s2 hm2 v2 st2 hv2 k
    (Nat.le_trans hk1 ha1) (Nat.le_trans hk2 ha2)



/-! ## Non-vacuity: a leader commits entries that `try_batching` glued onto a queued append

`RaftProofs/ClusterCommit5c4M.lean` (kernel-evaluated): the history of `C01_cluster_nonvacuous` continued by
`set_batch_append(true)`, two proposals (both glued onto the queued `MsgAppend` for node 2), and the round
trip of the batched message. -/

section Examples
open RaftProps.C02 RaftProps.C05

set_option maxRecDepth 100000 in
/-- **non-vacuity with batching on**: there is a history of `ClusterSem` that satisfies `Hyp3wB` (voters
`{1, 2, 3}`) and not `NoBatch`, in which (1) a step of the leader node 1 replaces the queued `MsgAppend`
`y` by `{ y with entries := y.entries ++ es, commit := c }` with `es ≠ []` (`try_batching`), and (2) a
later step — the delivery of node 2's acknowledgement of the batched message — takes the commit index
of node 1, leader with `batch_append = true`, from 1 to 3. -/
theorem _root_.RaftProps.C01f.C01f_cluster_batch_nonvacuous :
    ∃ h : List Sys, Hyp3wB c02x_cfg 0 h ∧ ¬ (∀ s ∈ h, NoBatch s) ∧
      (∃ (n : Nat) (a b : Sys) (sta stb : NState) (y x : Message) (es : List Entry) (c : Nat),
        h[n]? = some a ∧ h[n + 1]? = some b ∧ a.node 1 = some sta ∧ b.node 1 = some stb ∧
        y ∈ sta.raft.msgs ∧ x ∈ stb.raft.msgs ∧ y.msgType = .msgAppend ∧ es ≠ [] ∧
        x = { y with entries := y.entries ++ es, commit := c }) ∧
      ∃ (n : Nat) (a b : Sys) (sta stb : NState),
        h[n]? = some a ∧ h[n + 1]? = some b ∧ a.node 1 = some sta ∧ b.node 1 = some stb ∧
        stb.raft.state = .leader ∧ stb.raft.batchAppend = true ∧
        sta.raft.raftLog.committed = 1 ∧ stb.raft.raftLog.committed = 3 := by
  refine ⟨c01w_hist, c01w_hyp3wB, ?_, ?_, ?_⟩
  · intro hnb
    have := hnb c01w_s24 (by simp [c01w_hist, c01w_tail]) 1 c01w_a15 rfl
    revert this
    decide
  · exact ⟨15, c01w_s15, c01w_s16, c01w_a9, c01w_a10, c01w_a9.raft.msgs.head!,
      c01w_a10.raft.msgs.head!, c01w_a10.raft.msgs.head!.entries, 1, rfl, rfl, rfl, rfl,
      c02x_head_mem _ (by decide), c02x_head_mem _ (by decide), by decide, by decide, by decide⟩
  · exact ⟨23, c01w_s23, c01w_s24, c01w_a14, c01w_a15, rfl, rfl, rfl, rfl, by decide, by decide,
      by decide, by decide⟩

/-- State-Machine Safety applies to that history -/
example (m1 : Nat) (s1 : Sys) (hm1 : c01w_hist[m1]? = some s1) (v1 : Nat) (st1 : NState)
    (hv1 : s1.node v1 = some st1) (m2 : Nat) (s2 : Sys) (hm2 : c01w_hist[m2]? = some s2) (v2 : Nat)
    (st2 : NState) (hv2 : s2.node v2 = some st2) (k : Nat)
    (hk1 : k ≤ st1.raft.raftLog.committed) (hk2 : k ≤ st2.raft.raftLog.committed) :
    st1.raft.raftLog.abs.entryAt k = st2.raft.raftLog.abs.entryAt k :=
  C01_cluster_state_machine_safety c02x_cfg 0 c01w_hist c01w_hyp3wB m1 s1 hm1 v1 st1 hv1 m2 s2 hm2
    v2 st2 hv2 k hk1 hk2

end Examples

end RaftModel.ClusterB
