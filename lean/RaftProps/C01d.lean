import RaftProofs.ClusterCommit4M

/-!
# C01 / C03 / C04, cluster level, **without the proof gaps `anch` and `norir`**

`RaftProps/C01c.lean` proved the commit layer of `ClusterSem` (the leader's commit rule with durable
acknowledgements, Leader Completeness, State-Machine Safety, soundness of every commit index) under
the bundle `Hyp3`, which contained two *proof gaps* — facts about the transport that should follow
from the other hypotheses:

* `anch`: every `MsgAppend` of the transport is anchored inside its sender's log;
* `norir`: no `MsgReadIndexResp` is ever in the transport.

This file states the same theorems under **`Hyp3w`** = `Hyp3` without `anch` and without `norir`
(`RaftProofs/ClusterCommit2P.lean`: `Hyp` + `nolone` + `shape` + `initc` + `snapt0`), and the two
discharged gaps as theorems of their own:

* `C01d_appends_anchored` — `anch` holds in every state of a history under `Hyp3w`; it follows from the
  cluster invariant "every progress of a leader has `matched ≤ last_index`, `next_idx ≤ last_index + 1`
  and is not in the `Snapshot` state, **or a `MsgSnapshot` sits in the node's queue**" (`CI.node.po`).
  The second alternative is needed: under `nosnap` / `shape` a leader can still *queue* a `MsgSnapshot`
  (after a follower's `request_snapshot`, or after being probed below the snapshot point), which puts
  the progress into the `Snapshot` state (`C01d_snapshot_state_reachable`, kernel-checked); a later
  `report_snapshot` then sets `next_idx = pending_snapshot + 1`, where `pending_snapshot` is an index
  `MemStorage::snapshot` copies from the request — bounding it by `last_index` would need an invariant
  about `request_snapshot` indices, which is not needed: such a node is *mute* — `send` would hand the
  `MsgSnapshot` to the transport, which `nosnap` excludes — so whatever it queues never leaves its queue.
* `C01d_read_index_resp_source` — every `MsgReadIndexResp` of the transport was queued by a node that
  led the message's term with a commit index that covered the message's index (from "every pending
  read index of a leader is at most its commit index"); `MsgReadIndexResp`s **may** be in the transport
  now, and `C04_cluster_follower_commit_sound` covers the commit index a follower takes from one
  (`maybe_commit(m.index, m.term)`).

Proof: node level `RaftProofs/ClusterCommit4A … 4I` (a per-call relation `PW` through every function of
the node model, `call_pr`), cluster level `4J … 4L`: the cluster invariant `CI` is proved by induction
along the history, where the step from `h[n]` uses the *whole* commit layer on the prefix `h[0..n]`
(`Hyp3a` for the prefix follows from `CI` on the prefix) — in particular `Sm.a2m` and the growth of a
leader's log to bound an accepted acknowledgement by the leader's last index (`ack_bound`).
-/
namespace RaftProps.C01d
open RaftModel RaftModel.Cluster RaftModel.Node RaftModel.Raft RaftModel.Raft.CC

/-- **the former gap `anch`, as a theorem**: in every state of a history under `Hyp3w`, every
`MsgAppend` in the transport is anchored inside its sender's log (`log_term ≠ 0`, or the anchor is at
or below the common snapshot point) — and so is every queued one unless a `MsgSnapshot` is queued with
it. -/
theorem C01d_appends_anchored (cfg : JointConfig) (c0 : Nat) (h : List Sys) (H : Hyp3w cfg c0 h)
    (n : Nat) (s : Sys) (hn : h[n]? = some s) :
    (∀ x ∈ s.net, x.msgType = .msgAppend → x.logTerm ≠ 0 ∨ x.index ≤ c0) ∧
    (∀ i st, s.node i = some st → ∀ x ∈ st.raft.msgs, x.msgType = .msgAppend →
      (∃ y ∈ st.raft.msgs, y.msgType = .msgSnapshot) ∨ x.logTerm ≠ 0 ∨ x.index ≤ c0) :=
  ⟨(ci_all H n s hn).na, (ci_all H n s hn).qa⟩

/-- **progress within the log**: every progress of a leader has `matched ≤ last_index`,
`next_idx ≤ last_index + 1` and is not in the `Snapshot` state — unless a `MsgSnapshot` is queued at
that leader (which `nosnap` never lets reach the transport). -/
theorem C01d_progress_within_log (cfg : JointConfig) (c0 : Nat) (h : List Sys) (H : Hyp3w cfg c0 h)
    (n : Nat) (s : Sys) (hn : h[n]? = some s) (i : Nat) (st : NState) (hi : s.node i = some st)
    (hl : st.raft.state = .leader) :
    (∃ y ∈ st.raft.msgs, y.msgType = .msgSnapshot) ∨
    ∀ id pr, st.raft.prs.get id = some pr →
      pr.matched ≤ st.raft.raftLog.lastIndex ∧ pr.nextIdx ≤ st.raft.raftLog.lastIndex + 1 ∧
      pr.state ≠ .snapshot :=
  ((ci_all H n s hn).node i st hi).po hl |>.imp (fun x => x) (fun c _ _ hg => c.get hg)

/-- **the former gap `norir`, lifted**: a `MsgReadIndexResp` in the transport (or in a queue) was queued
by a node that led the message's term, at a moment when its commit index covered the message's index;
and every pending read index of a leader is at most its commit index. -/
theorem C01d_read_index_resp_source (cfg : JointConfig) (c0 : Nat) (h : List Sys)
    (H : Hyp3w cfg c0 h) (n : Nat) (s : Sys) (hn : h[n]? = some s) :
    (∀ x, (x ∈ s.net ∨ ∃ i st, s.node i = some st ∧ x ∈ st.raft.msgs) →
      x.msgType = .msgReadIndexResp →
      ∃ n0 s0 w stw, n0 ≤ n ∧ h[n0]? = some s0 ∧ s0.node w = some stw ∧
        stw.raft.state = .leader ∧ stw.raft.term = x.term ∧
        x.index ≤ stw.raft.raftLog.committed) ∧
    (∀ i st, s.node i = some st → st.raft.state = .leader →
      ∀ p ∈ st.raft.readOnly.pendingReadIndex, p.2.index ≤ st.raft.raftLog.committed) := by
  have c := ci_all H n s hn
  refine ⟨fun x hx hty => ?_, fun i st hi hl => (c.node i st hi).rd hl⟩
  rcases hx with hx | ⟨i, st, hi, hx⟩
  · exact c.nr x hx hty
  · exact c.qr i st hi x hx hty

/-- **`SaneAnchors` of `RaftProps/C05d.lean` is a theorem here** (for `c0 = 0`, i.e. nodes that start
without a snapshot point): no `MsgAppend` in the transport is anchored in the void (`log_term = 0` at an
anchor `≠ 0`), and none queued at a node — unless a `MsgSnapshot` is queued there too.  This is the
state predicate the Log Matching layer with batching (`BatchOk`) takes as a hypothesis; C05d's report
conjectured it follows from Leader Completeness under the acknowledge-after-persist rule. -/
theorem C01d_sane_anchors (cfg : JointConfig) (h : List Sys) (H : Hyp3w cfg 0 h)
    (n : Nat) (s : Sys) (hn : h[n]? = some s) :
    (∀ x ∈ s.net, x.msgType = .msgAppend → x.logTerm = 0 → x.index = 0) ∧
    (∀ i st, s.node i = some st → (∀ y ∈ st.raft.msgs, y.msgType ≠ .msgSnapshot) →
      ∀ x ∈ st.raft.msgs, x.msgType = .msgAppend → x.logTerm = 0 → x.index = 0) := by
  obtain ⟨h1, h2⟩ := C01d_appends_anchored cfg 0 h H n s hn
  refine ⟨fun x hx hty hz => ?_, fun i st hi hns x hx hty hz => ?_⟩
  · rcases h1 x hx hty with c | c
    · exact absurd hz c
    · omega
  · rcases h2 i st hi x hx hty with ⟨y, hy, hys⟩ | c | c
    · exact absurd hys (hns y hy)
    · exact absurd hz c
    · omega

/-- the commit event of a step that moves the commit index of a node that is leader afterwards -/
theorem ev_of_step {h : List Sys} {n : Nat} {a b : Sys} (ha : h[n]? = some a)
    (hb : h[n + 1]? = some b) {l : Nat} {sta stb : NState} (hla : a.node l = some sta)
    (hlb : b.node l = some stb) (hs : stb.raft.state = .leader)
    (hc : sta.raft.raftLog.committed < stb.raft.raftLog.committed) :
    Ev.ok h ⟨n, l, stb.raft.term, stb.raft.raftLog.committed, stb.raft.raftLog.abs,
      stb.raft.raftLog.persisted⟩ :=
  ⟨a, b, sta, stb, ha, hb, hla, hlb, hs, rfl, hc, rfl, rfl, rfl⟩

/-- **C04 `cluster_leader_commit_rule`** — the commit rule with **durable acknowledgements**: whenever
a step `h[n] → h[n+1]` takes the commit index of a node `l` that is leader of term `t` after the step
from `c` to `c' > c`, the entry at `c'` in its log carries term `t`, and there is a joint quorum `Q` of
`cfg` such that every `j ∈ Q` is

* `l` itself, with `persisted ≥ c'` — and its storage holds its log up to `c'`; or
* the sender of an accepting `MsgAppendResponse` `x` for term `t` with `index ≥ c'` that is in the
  transport before the step, **and in every state of the history whose transport holds `x` — from the
  moment `x` entered the transport on — the storage of `j` holds `l`'s log up to `c'`**. -/
theorem C04_cluster_leader_commit_rule (cfg : JointConfig) (c0 : Nat) (h : List Sys)
    (H : Hyp3w cfg c0 h)
    (n : Nat) (a b : Sys) (ha : h[n]? = some a) (hb : h[n + 1]? = some b)
    (l : Nat) (sta stb : NState) (hla : a.node l = some sta) (hlb : b.node l = some stb)
    (t : Nat) (hs : stb.raft.state = .leader) (ht : stb.raft.term = t)
    (hc : sta.raft.raftLog.committed < stb.raft.raftLog.committed) :
    stb.raft.raftLog.term stb.raft.raftLog.committed = .ok t ∧
    ∃ Q, IsJointQuorum cfg Q ∧ ∀ j ∈ Q,
      (j = l ∧ stb.raft.raftLog.committed ≤ stb.raft.raftLog.persisted ∧
        ∀ k, k ≤ stb.raft.raftLog.committed →
          (storeLog stb.raft.raftLog.store).entryAt k = stb.raft.raftLog.abs.entryAt k) ∨
      ∃ x ∈ a.net, x.msgType = .msgAppendResponse ∧ x.reject = false ∧ x.frm = j ∧ x.term = t ∧
        stb.raft.raftLog.committed ≤ x.index ∧
        ∀ (m : Nat) (s : Sys) (stj : NState), h[m]? = some s → x ∈ s.net → s.node j = some stj →
          ∀ k, k ≤ stb.raft.raftLog.committed →
            (storeLog stj.raft.raftLog.store).entryAt k = stb.raft.raftLog.abs.entryAt k := by
  have H2 := H.toHyp2w
  have Ha := H.toHyp3a
  obtain ⟨h1, Q, hQ, hq⟩ := H2.toHyp.commit_step n a b ha hb l sta stb hla hlb hs hc
  subst ht
  have hE := ev_of_step ha hb hla hlb hs hc
  obtain ⟨_, hEh, hc0⟩ := Ev.leaderLog H2 hE
  have ob := node_ok H2 hb hlb
  refine ⟨h1, Q, hQ, fun j hj => ?_⟩
  rcases hq j hj with ⟨g1, g2⟩ | ⟨x, hx, hack, hfrm, hterm, hidx⟩
  · exact .inl ⟨g1, g2, fun k hk => (ob.inv.abs_store_persisted ob.snap (by omega)).symm⟩
  · right
    have hx0 : x.index ≠ 0 := by
      have : c0 < stb.raft.raftLog.committed := hc0
      omega
    have hterm' : x.term = stb.raft.term := by
      rcases hterm with d | d
      · exact d
      · exact absurd d ((ack_inv H2 n a ha).2 x hx hack hx0).2
    refine ⟨x, hx, hack.1, hack.2, hfrm, hterm', hidx, fun m s stj hm hxs hj k hk => ?_⟩
    have hh := (sm_all Ha hm).rets _ hE j stj hj (.inl ⟨x, hxs, hack, hfrm, hterm', hidx⟩)
    obtain ⟨e1, he1, ht1⟩ := hh
    obtain ⟨e2, he2, ht2⟩ := hEh
    have oj := node_ok H2 hm hj
    have hag := agree_all H2 m (n + 1) s b hm hb (.store j) (.log l) _ _ ⟨stj, hj, rfl⟩ (at_log hlb)
    exact eq_below hag (oj.ssnap.trans ob.snapIdx.symm) he1 he2 (ht1.trans ht2.symm) k hk

/-- **C03 `cluster_leader_completeness`** — every entry a leader has committed is in the log of every
leader of a later term: if a step `h[n] → h[n+1]` takes the commit index of `l`, leader of term `t`
after the step, to `c'`, then any node that leads a term `t' > t` in any state `h[m]` of the history
holds, at every index up to `c'`, the entry `l` held there. -/
theorem C03_cluster_leader_completeness (cfg : JointConfig) (c0 : Nat) (h : List Sys)
    (H : Hyp3w cfg c0 h)
    (n : Nat) (a b : Sys) (ha : h[n]? = some a) (hb : h[n + 1]? = some b)
    (l : Nat) (sta stb : NState) (hla : a.node l = some sta) (hlb : b.node l = some stb)
    (hs : stb.raft.state = .leader)
    (hc : sta.raft.raftLog.committed < stb.raft.raftLog.committed)
    (m : Nat) (s : Sys) (hm : h[m]? = some s) (l' : Nat) (st' : NState)
    (hl' : s.node l' = some st') (hs' : st'.raft.state = .leader)
    (ht : stb.raft.term < st'.raft.term) :
    ∀ k, k ≤ stb.raft.raftLog.committed →
      st'.raft.raftLog.abs.entryAt k = stb.raft.raftLog.abs.entryAt k := by
  have H2 := H.toHyp2w
  have Ha := H.toHyp3a
  have hE := ev_of_step ha hb hla hlb hs hc
  obtain ⟨hEl, hEh, _⟩ := Ev.leaderLog H2 hE
  have hh := (sm_all Ha hm).lc _ hE l' st' hl' hs' ht
  exact eq_ll H2 hm hl' hEl hh hEh

/-- the logs of two commit events agree up to the smaller commit index -/
theorem ev_logs_agree {cfg : JointConfig} {c0 : Nat} {h : List Sys} (H : Hyp3w cfg c0 h)
    {E1 E2 : Ev} (h1 : E1.ok h) (h2 : E2.ok h) (hle : E1.c ≤ E2.c) : EqUpTo E1.gE E2.gE E1.c := by
  have H2 := H.toHyp2w
  have Ha := H.toHyp3a
  obtain ⟨l1, hh1, _⟩ := Ev.leaderLog H2 h1
  obtain ⟨l2, _, _⟩ := Ev.leaderLog H2 h2
  have S := sall Ha (E1.nE + E2.nE + 2)
  have := ctf H2 S h2 h1 (by omega) hle (fun _ => ⟨E1.gE, l1.mono (by omega)⟩)
  exact ll_eq_below H2 l1 l2 hh1 this

/-- **C04 `cluster_follower_commit_sound`** — *every* commit index is sound: in every state `h[m]`,
what a node `v` has marked committed is at most the common snapshot point `c0`, or it was committed by
a leader: there is an earlier step `h[n] → h[n+1]` (`n < m`) that took the commit index of a node `l`,
leader of a term `t ≤ term(v)` after the step, to some `c' ≥ committed(v)`, and the log of `v` equals
the log `l` had then up to `committed(v)`. -/
theorem C04_cluster_follower_commit_sound (cfg : JointConfig) (c0 : Nat) (h : List Sys)
    (H : Hyp3w cfg c0 h) (m : Nat) (s : Sys) (hm : h[m]? = some s) (v : Nat) (st : NState)
    (hv : s.node v = some st) :
    st.raft.raftLog.committed ≤ c0 ∨
    ∃ (n : Nat) (a b : Sys) (l : Nat) (sta stb : NState), n < m ∧ h[n]? = some a ∧
      h[n + 1]? = some b ∧ a.node l = some sta ∧ b.node l = some stb ∧
      stb.raft.state = .leader ∧ sta.raft.raftLog.committed < stb.raft.raftLog.committed ∧
      st.raft.raftLog.committed ≤ stb.raft.raftLog.committed ∧ stb.raft.term ≤ st.raft.term ∧
      ∀ k, k ≤ st.raft.raftLog.committed →
        st.raft.raftLog.abs.entryAt k = stb.raft.raftLog.abs.entryAt k := by
  have Ha := H.toHyp3a
  rcases (sm_all Ha hm).nctm v st hv with c | ⟨E, hE, h2, h3, h4, h5⟩
  · exact .inl c
  · right
    obtain ⟨a, b, sta, stb, ha, hb, hla, hlb, hs, ht, hc, e1, e2, _⟩ := hE
    exact ⟨E.nE, a, b, E.l, sta, stb, h2, ha, hb, hla, hlb, hs, hc, by rw [← e1]; exact h3,
      by rw [ht]; exact h4, by rw [← e2]; exact h5⟩

/-- … and so is every **stored** commit index (what a restarted node starts from): it is not ahead of
the commit index, and it is covered by a leader's commit of a term not above the stored term, with the
stored entries. -/
theorem C04_cluster_stored_commit_sound (cfg : JointConfig) (c0 : Nat) (h : List Sys)
    (H : Hyp3w cfg c0 h) (m : Nat) (s : Sys) (hm : h[m]? = some s) (v : Nat) (st : NState)
    (hv : s.node v = some st) :
    st.raft.raftLog.store.hardState.commit ≤ st.raft.raftLog.committed ∧
    (st.raft.raftLog.store.hardState.commit ≤ c0 ∨
     ∃ (n : Nat) (a b : Sys) (l : Nat) (sta stb : NState), n < m ∧ h[n]? = some a ∧
      h[n + 1]? = some b ∧ a.node l = some sta ∧ b.node l = some stb ∧
      stb.raft.state = .leader ∧ sta.raft.raftLog.committed < stb.raft.raftLog.committed ∧
      st.raft.raftLog.store.hardState.commit ≤ stb.raft.raftLog.committed ∧
      stb.raft.term ≤ st.raft.raftLog.store.hardState.term ∧
      ∀ k, k ≤ st.raft.raftLog.store.hardState.commit →
        (storeLog st.raft.raftLog.store).entryAt k = stb.raft.raftLog.abs.entryAt k) := by
  have Ha := H.toHyp3a
  refine ⟨(sm_all Ha hm).scm v st hv, ?_⟩
  rcases (sm_all Ha hm).ncts v st hv with c | ⟨E, hE, h2, h3, h4, h5⟩
  · exact .inl c
  · right
    obtain ⟨a, b, sta, stb, ha, hb, hla, hlb, hs, ht, hc, e1, e2, _⟩ := hE
    exact ⟨E.nE, a, b, E.l, sta, stb, h2, ha, hb, hla, hlb, hs, hc, by rw [← e1]; exact h3,
      by rw [ht]; exact h4, by rw [← e2]; exact h5⟩

/-- **C01 `cluster_state_machine_safety`** — any two nodes, in any two states of the history (the same
node before and after a restart included), hold the same entry at every index both have marked
committed. -/
theorem C01_cluster_state_machine_safety (cfg : JointConfig) (c0 : Nat) (h : List Sys)
    (H : Hyp3w cfg c0 h)
    (m1 : Nat) (s1 : Sys) (hm1 : h[m1]? = some s1) (v1 : Nat) (st1 : NState)
    (hv1 : s1.node v1 = some st1)
    (m2 : Nat) (s2 : Sys) (hm2 : h[m2]? = some s2) (v2 : Nat) (st2 : NState)
    (hv2 : s2.node v2 = some st2)
    (k : Nat) (hk1 : k ≤ st1.raft.raftLog.committed) (hk2 : k ≤ st2.raft.raftLog.committed) :
    st1.raft.raftLog.abs.entryAt k = st2.raft.raftLog.abs.entryAt k := by
  have H2 := H.toHyp2w
  have Ha := H.toHyp3a
  have o1 := node_ok H2 hm1 hv1
  have o2 := node_ok H2 hm2 hv2
  by_cases hk0 : k ≤ c0
  · unfold LLog.entryAt
    rw [if_pos (by rw [o1.snapIdx]; exact hk0), if_pos (by rw [o2.snapIdx]; exact hk0)]
  rcases (sm_all Ha hm1).nctm v1 st1 hv1 with c | ⟨E1, hE1, _, a3, _, a5⟩
  · omega
  rcases (sm_all Ha hm2).nctm v2 st2 hv2 with c | ⟨E2, hE2, _, b3, _, b5⟩
  · omega
  rw [a5 k hk1, b5 k hk2]
  rcases Nat.le_total E1.c E2.c with hle | hle
  · exact ev_logs_agree H hE1 hE2 hle k (by omega)
  · exact (ev_logs_agree H hE2 hE1 hle k (by omega)).symm

/-- … in particular for the **applied** entries of two nodes whose applied index is within their
commit index (`AppliedOk`, which holds outside the restart window — `raft_log.rs:44-46`). -/
theorem C01_cluster_state_machine_safety_applied (cfg : JointConfig) (c0 : Nat) (h : List Sys)
    (H : Hyp3w cfg c0 h)
    (m1 : Nat) (s1 : Sys) (hm1 : h[m1]? = some s1) (v1 : Nat) (st1 : NState)
    (hv1 : s1.node v1 = some st1) (ha1 : st1.raft.raftLog.AppliedOk)
    (m2 : Nat) (s2 : Sys) (hm2 : h[m2]? = some s2) (v2 : Nat) (st2 : NState)
    (hv2 : s2.node v2 = some st2) (ha2 : st2.raft.raftLog.AppliedOk)
    (k : Nat) (hk1 : k ≤ st1.raft.raftLog.applied) (hk2 : k ≤ st2.raft.raftLog.applied) :
    st1.raft.raftLog.abs.entryAt k = st2.raft.raftLog.abs.entryAt k :=
  C01_cluster_state_machine_safety cfg c0 h H m1 s1 hm1 v1 st1 hv1 m2 s2 hm2 v2 st2 hv2 k
    (Nat.le_trans hk1 ha1) (Nat.le_trans hk2 ha2)


/-! ## Non-vacuity: a follower commits an entry by a `MsgReadIndexResp` (kernel-evaluated)

`RaftProofs/ClusterCommit4M.lean`: the history of `C01_cluster_nonvacuous` continued by a read-index
round trip (node 3 asks, node 1 confirms its leadership with node 2's heartbeat response and answers). -/

section Examples
open RaftProps.C02 RaftProps.C05

set_option maxRecDepth 100000 in
/-- **non-vacuity without `norir`**: there is a history of `ClusterSem` that satisfies `Hyp3w` (voters
`{1, 2, 3}`, `c0 = 0`) in which a `MsgReadIndexResp(index = 1, term = 1)` for node 3 **is in the
transport**, and the step that delivers it takes the commit index of the follower node 3 from 0 to 1. -/
theorem C01d_cluster_nonvacuous :
    ∃ h : List Sys, Hyp3w c02x_cfg 0 h ∧
      ∃ (n : Nat) (a b : Sys) (sta stb : NState) (x : Message),
        h[n]? = some a ∧ h[n + 1]? = some b ∧ a.node 3 = some sta ∧ b.node 3 = some stb ∧
        x ∈ a.net ∧ x.msgType = .msgReadIndexResp ∧ x.frm = 1 ∧ x.to = 3 ∧ x.index = 1 ∧
        x.term = 1 ∧ (∃ res, Node.call sta none (.step x) = .ok (res, stb)) ∧
        stb.raft.state = .follower ∧ sta.raft.raftLog.committed = 0 ∧
        stb.raft.raftLog.committed = 1 :=
  ⟨c01y_hist, c01y_hyp3w, 24, c01y_s24, c01y_s25, c01y_c4, c01y_c5, c01y_rir, rfl, rfl, rfl, rfl,
    List.mem_append_right _ (c02x_head_mem _ (by decide)), by decide, by decide, by decide,
    by decide, by decide, ⟨_, c02x_out _ (by decide)⟩, by decide, by decide, by decide⟩

/-- … and the theorems apply to it: what node 3 has marked committed after that step was committed by
a leader — the commit event of node 1 — with the same entries -/
example (st : NState) (h3 : c01y_s25.node 3 = some st) :
    st.raft.raftLog.committed ≤ 0 ∨
    ∃ (n : Nat) (a b : Sys) (l : Nat) (sta stb : NState), n < 25 ∧ c01y_hist[n]? = some a ∧
      c01y_hist[n + 1]? = some b ∧ a.node l = some sta ∧ b.node l = some stb ∧
      stb.raft.state = .leader ∧ sta.raft.raftLog.committed < stb.raft.raftLog.committed ∧
      st.raft.raftLog.committed ≤ stb.raft.raftLog.committed ∧ stb.raft.term ≤ st.raft.term ∧
      ∀ k, k ≤ st.raft.raftLog.committed →
        st.raft.raftLog.abs.entryAt k = stb.raft.raftLog.abs.entryAt k :=
  C04_cluster_follower_commit_sound c02x_cfg 0 c01y_hist c01y_hyp3w 25 c01y_s25 rfl 3 st h3

set_option maxRecDepth 100000 in
/-- **the `Snapshot` progress state is reachable under `Hyp3w`** (why `C01d_progress_within_log` has its
first alternative): there is a history satisfying `Hyp3w` whose last state has a leader with a progress
in the `Snapshot` state — and a `MsgSnapshot` in its queue, which it can never hand to the transport. -/
theorem C01d_snapshot_state_reachable :
    ∃ h : List Sys, Hyp3w c02x_cfg 0 h ∧
      ∃ (n : Nat) (s : Sys) (st : NState) (pr : Progress) (y : Message),
        h[n]? = some s ∧ s.node 1 = some st ∧ st.raft.state = .leader ∧
        st.raft.prs.get 2 = some pr ∧ pr.state = .snapshot ∧
        y ∈ st.raft.msgs ∧ y.msgType = .msgSnapshot :=
  ⟨c01z_hist, c01z_hyp3w, 28, c01z_s28, c01z_a13, (c01z_a13.raft.prs.get 2).get!,
    c01z_a13.raft.msgs.head!, rfl, rfl, by decide, by decide, by decide,
    c02x_head_mem _ (by decide), by decide⟩

end Examples

end RaftProps.C01d
