import RaftProps.C01g2
import RaftProofs.ClusterSnap4K

/-!
# C01 / C03 / C04, cluster level, with compaction **and snapshots between nodes**, without the gaps `anch` and `rirs`

Part 2 of `RaftProps/C01e.lean` / `RaftProps/C01g2.lean` under the weaker bundle **`Snap2.Hyp3w`**
(`RaftProofs/ClusterSnap4J.lean`) = `Snap2.Hyp3a` **minus `anch` minus `rirs`**: the two invariants
about the transport — every `MsgAppend` is anchored inside its sender's log, every `MsgReadIndexResp`
comes from a node that led its term with `committed ≥ index` — are *derived* along the history
(`Snap2.Hyp3w.toHyp3a`, `RaftProofs/ClusterSnap4K.lean`), as `RaftProps/C01g.lean` does for part 1.

How: the per-call relation of `ClusterCommit4A–4I` is re-proved without its escape "a `MsgSnapshot` is
queued" (`Raft.CS`, `RaftProofs/ClusterSnap4A–4I.lean`): a leader's progress may be in the `Snapshot`
state, and then its pending snapshot lies within the log or is the index of a `MsgSnapshot` in the
queue (`POk` / `FS`); `become_probe` after a `MsgSnapStatus` needs the former, which the cluster
invariant `Snap2.CI2` provides: every queued `MsgSnapshot` names an index within the commit index
(`SnapSend`: it is the commit index the storage recorded; `Sm.scm`; the commit index never decreases
over a call, `Cluster.call_src`).  A delivered `MsgSnapshot` and the installation of a pending
snapshot need no per-call relation: `SnapOut` / `PersistOut` describe them completely.  An anchor at a
restored snapshot point carries the term of a real entry (`Snap2.snap_point_term_ne_zero`).

**Still hypotheses** (`Snap2.Hyp3w`): everything of C01e part 2 except `anch` / `norir` — the
`Snap2.KStep` contract (`SnapSend`, atomic installation, `compact k → k ≤ store.hardState.commit`,
`persist_snap` only with term and vote persisted, no new pending snapshot outside a delivered
`MsgSnapshot`), `noreq`, `snapidx`, `pend0`, `NoBatch`, `nolone`, `first0`, `initc`, `snapt0`.
-/
namespace RaftProps.C01h
open RaftModel RaftModel.Cluster RaftModel.Node RaftModel.Raft RaftModel.Raft.CC

/-- **the ghost logs**: in every state of a history, the logical log and the stored log of every node
have uncompacted versions `FL` / `FS` (`Snap.Full`), which hold the same entries up to the node's
snapshot point unless a snapshot is pending (restored, not yet installed in the storage); any two
uncompacted versions of one log hold the same entries. -/
theorem C01h_ghost_log (cfg : JointConfig) (c0 : Nat) (h : List Sys) (H : Snap2.Hyp3w cfg c0 h)
    (m : Nat) (s : Sys) (hm : h[m]? = some s) (v : Nat) (st : NState) (hv : s.node v = some st) :
    Snap.Full (Snap.HistChain h) c0 st.raft.raftLog.abs (Snap.FL h c0 st) ∧
    Snap.Full (Snap.HistChain h) c0 (storeLog st.raft.raftLog.store) (Snap.FS h c0 st) ∧
    (st.raft.raftLog.unstable.snapshot = none → ∀ k, k ≤ st.raft.raftLog.abs.snapIdx →
      (Snap.FL h c0 st).entryAt k = (Snap.FS h c0 st).entryAt k) ∧
    (∀ g F F', Snap.Full (Snap.HistChain h) c0 g F → Snap.Full (Snap.HistChain h) c0 g F' →
      ∀ k, F.entryAt k = F'.entryAt k) :=
  RaftProps.C01g.Snapshots.C01g_ghost_log cfg c0 h H.toHyp3a m s hm v st hv

/-- **C04 `cluster_leader_commit_rule`** with compaction and snapshots — the commit rule with **durable
acknowledgements**: whenever a step `h[n] → h[n+1]` takes the commit index of a node `l` that is leader
of term `t` after the step from `c` to `c' > c`, the entry at `c'` in its log carries term `t`, and
there is a joint quorum `Q` of `cfg` such that every `j ∈ Q` is

* `l` itself, with `persisted ≥ c'` — and its storage holds its log up to `c'`; or
* the sender of an accepting `MsgAppendResponse` `x` for term `t` with `index ≥ c'` that is in the
  transport before the step, **and in every state of the history whose transport holds `x` the
  storage of `j` reaches `c'` and holds `l`'s log up to `c'`** — the uncompacted versions are equal up
  to `c'`, hence so are the logs at every index both still retain. -/
theorem C04_cluster_leader_commit_rule (cfg : JointConfig) (c0 : Nat) (h : List Sys)
    (H : Snap2.Hyp3w cfg c0 h)
    (n : Nat) (a b : Sys) (ha : h[n]? = some a) (hb : h[n + 1]? = some b)
    (l : Nat) (sta stb : NState) (hla : a.node l = some sta) (hlb : b.node l = some stb)
    (t : Nat) (hs : stb.raft.state = .leader) (ht : stb.raft.term = t)
    (hc : sta.raft.raftLog.committed < stb.raft.raftLog.committed) :
    stb.raft.raftLog.term stb.raft.raftLog.committed = .ok t ∧
    ∃ Q, IsJointQuorum cfg Q ∧ ∀ j ∈ Q,
      (j = l ∧ stb.raft.raftLog.committed ≤ stb.raft.raftLog.persisted ∧
        ∀ k, k ≤ stb.raft.raftLog.committed →
          (storeLog stb.raft.raftLog.store).entryAt k = stb.raft.raftLog.abs.entryAt k) ∨
      ∃ x ∈ a.net, x.msgType = .msgAppendResponse ∧ x.reject = false ∧ x.frm = j ∧ x.term = t ∧
        stb.raft.raftLog.committed ≤ x.index ∧
        ∀ (m : Nat) (s : Sys) (stj : NState), h[m]? = some s → x ∈ s.net → s.node j = some stj →
          stb.raft.raftLog.committed ≤ (storeLog stj.raft.raftLog.store).lastIndex ∧
          (∀ k, k ≤ stb.raft.raftLog.committed →
            (Snap.FS h c0 stj).entryAt k = (Snap.FL h c0 stb).entryAt k) ∧
          ∀ k, k ≤ stb.raft.raftLog.committed →
            (storeLog stj.raft.raftLog.store).snapIdx < k → stb.raft.raftLog.abs.snapIdx < k →
            (storeLog stj.raft.raftLog.store).entryAt k = stb.raft.raftLog.abs.entryAt k :=
  RaftProps.C01g.Snapshots.C04_cluster_leader_commit_rule cfg c0 h H.toHyp3a n a b ha hb l sta stb hla hlb t hs ht hc

/-- **C03 `cluster_leader_completeness`** with compaction and snapshots — every entry a leader has committed is in
the log of every leader of a later term: if a step `h[n] → h[n+1]` takes the commit index of `l`, leader
of term `t` after the step, to `c'`, then the log of any node that leads a term `t' > t` in any state
`h[m]` of the history reaches `c'` and holds, at every index up to `c'`, the entry `l` held there — in
the uncompacted versions, hence wherever both logs retain the index. -/
theorem C03_cluster_leader_completeness (cfg : JointConfig) (c0 : Nat) (h : List Sys)
    (H : Snap2.Hyp3w cfg c0 h)
    (n : Nat) (a b : Sys) (ha : h[n]? = some a) (hb : h[n + 1]? = some b)
    (l : Nat) (sta stb : NState) (hla : a.node l = some sta) (hlb : b.node l = some stb)
    (hs : stb.raft.state = .leader)
    (hc : sta.raft.raftLog.committed < stb.raft.raftLog.committed)
    (m : Nat) (s : Sys) (hm : h[m]? = some s) (l' : Nat) (st' : NState)
    (hl' : s.node l' = some st') (hs' : st'.raft.state = .leader)
    (ht : stb.raft.term < st'.raft.term) :
    stb.raft.raftLog.committed ≤ st'.raft.raftLog.abs.lastIndex ∧
    (∀ k, k ≤ stb.raft.raftLog.committed →
      (Snap.FL h c0 st').entryAt k = (Snap.FL h c0 stb).entryAt k) ∧
    ∀ k, k ≤ stb.raft.raftLog.committed →
      st'.raft.raftLog.abs.snapIdx < k → stb.raft.raftLog.abs.snapIdx < k →
      st'.raft.raftLog.abs.entryAt k = stb.raft.raftLog.abs.entryAt k :=
  RaftProps.C01g.Snapshots.C03_cluster_leader_completeness cfg c0 h H.toHyp3a n a b ha hb l sta stb hla hlb hs hc m s hm l' st' hl' hs' ht

/-- **C04 `cluster_follower_commit_sound`** with compaction and snapshots — *every* commit index is sound: in every
state `h[m]`, what a node `v` has marked committed is at most the common initial snapshot point `c0`,
or it was committed by a leader: there is an earlier step `h[n] → h[n+1]` (`n < m`) that took the commit
index of a node `l`, leader of a term `t ≤ term(v)` after the step, to some `c' ≥ committed(v)`, and the
log of `v` equals the log `l` had then up to `committed(v)` — in the uncompacted versions, hence
wherever both retain the index. -/
theorem C04_cluster_follower_commit_sound (cfg : JointConfig) (c0 : Nat) (h : List Sys)
    (H : Snap2.Hyp3w cfg c0 h) (m : Nat) (s : Sys) (hm : h[m]? = some s) (v : Nat) (st : NState)
    (hv : s.node v = some st) :
    st.raft.raftLog.committed ≤ c0 ∨
    ∃ (n : Nat) (a b : Sys) (l : Nat) (sta stb : NState), n < m ∧ h[n]? = some a ∧
      h[n + 1]? = some b ∧ a.node l = some sta ∧ b.node l = some stb ∧
      stb.raft.state = .leader ∧ sta.raft.raftLog.committed < stb.raft.raftLog.committed ∧
      st.raft.raftLog.committed ≤ stb.raft.raftLog.committed ∧ stb.raft.term ≤ st.raft.term ∧
      (∀ k, k ≤ st.raft.raftLog.committed →
        (Snap.FL h c0 st).entryAt k = (Snap.FL h c0 stb).entryAt k) ∧
      ∀ k, k ≤ st.raft.raftLog.committed →
        st.raft.raftLog.abs.snapIdx < k → stb.raft.raftLog.abs.snapIdx < k →
        st.raft.raftLog.abs.entryAt k = stb.raft.raftLog.abs.entryAt k :=
  RaftProps.C01g.Snapshots.C04_cluster_follower_commit_sound cfg c0 h H.toHyp3a m s hm v st hv

/-- … and so is every **stored** commit index (what a restarted node starts from): it is not ahead of
the commit index, and it is covered by a leader's commit of a term not above the stored term, with the
stored entries. -/
theorem C04_cluster_stored_commit_sound (cfg : JointConfig) (c0 : Nat) (h : List Sys)
    (H : Snap2.Hyp3w cfg c0 h) (m : Nat) (s : Sys) (hm : h[m]? = some s) (v : Nat) (st : NState)
    (hv : s.node v = some st) :
    st.raft.raftLog.store.hardState.commit ≤ st.raft.raftLog.committed ∧
    (st.raft.raftLog.store.hardState.commit ≤ c0 ∨
     ∃ (n : Nat) (a b : Sys) (l : Nat) (sta stb : NState), n < m ∧ h[n]? = some a ∧
      h[n + 1]? = some b ∧ a.node l = some sta ∧ b.node l = some stb ∧
      stb.raft.state = .leader ∧ sta.raft.raftLog.committed < stb.raft.raftLog.committed ∧
      st.raft.raftLog.store.hardState.commit ≤ stb.raft.raftLog.committed ∧
      stb.raft.term ≤ st.raft.raftLog.store.hardState.term ∧
      (∀ k, k ≤ st.raft.raftLog.store.hardState.commit →
        (Snap.FS h c0 st).entryAt k = (Snap.FL h c0 stb).entryAt k) ∧
      ∀ k, k ≤ st.raft.raftLog.store.hardState.commit →
        (storeLog st.raft.raftLog.store).snapIdx < k → stb.raft.raftLog.abs.snapIdx < k →
        (storeLog st.raft.raftLog.store).entryAt k = stb.raft.raftLog.abs.entryAt k) :=
  RaftProps.C01g.Snapshots.C04_cluster_stored_commit_sound cfg c0 h H.toHyp3a m s hm v st hv

/-- **C01 `cluster_state_machine_safety`, ghost form** — the uncompacted logs of any two nodes, in any
two states of the history (the same node before and after a restart or a compaction included), hold the
same entry at every index both have marked committed. -/
theorem C01_cluster_state_machine_safety_ghost (cfg : JointConfig) (c0 : Nat) (h : List Sys)
    (H : Snap2.Hyp3w cfg c0 h)
    (m1 : Nat) (s1 : Sys) (hm1 : h[m1]? = some s1) (v1 : Nat) (st1 : NState)
    (hv1 : s1.node v1 = some st1)
    (m2 : Nat) (s2 : Sys) (hm2 : h[m2]? = some s2) (v2 : Nat) (st2 : NState)
    (hv2 : s2.node v2 = some st2)
    (k : Nat) (hk1 : k ≤ st1.raft.raftLog.committed) (hk2 : k ≤ st2.raft.raftLog.committed) :
    (Snap.FL h c0 st1).entryAt k = (Snap.FL h c0 st2).entryAt k :=
  RaftProps.C01g.Snapshots.C01_cluster_state_machine_safety_ghost cfg c0 h H.toHyp3a m1 s1 hm1 v1 st1 hv1 m2 s2 hm2 v2 st2 hv2 k hk1 hk2

/-- **C01 `cluster_state_machine_safety`** with compaction and snapshots — any two nodes, in any two
states of the history (the same node before and after a restart or a compaction included), hold the same entry at
every index both have marked committed **and both still retain** (`snapIdx < k`; a compacted log
answers `none` below its snapshot point). -/
theorem C01_cluster_state_machine_safety (cfg : JointConfig) (c0 : Nat) (h : List Sys)
    (H : Snap2.Hyp3w cfg c0 h)
    (m1 : Nat) (s1 : Sys) (hm1 : h[m1]? = some s1) (v1 : Nat) (st1 : NState)
    (hv1 : s1.node v1 = some st1)
    (m2 : Nat) (s2 : Sys) (hm2 : h[m2]? = some s2) (v2 : Nat) (st2 : NState)
    (hv2 : s2.node v2 = some st2)
    (k : Nat) (hk1 : k ≤ st1.raft.raftLog.committed) (hk2 : k ≤ st2.raft.raftLog.committed)
    (hr1 : st1.raft.raftLog.abs.snapIdx < k) (hr2 : st2.raft.raftLog.abs.snapIdx < k) :
    st1.raft.raftLog.abs.entryAt k = st2.raft.raftLog.abs.entryAt k :=
  RaftProps.C01g.Snapshots.C01_cluster_state_machine_safety cfg c0 h H.toHyp3a m1 s1 hm1 v1 st1 hv1 m2 s2 hm2 v2 st2 hv2 k hk1 hk2 hr1 hr2

/-- … in particular for the **applied** entries of two nodes whose applied index is within their
commit index (`AppliedOk`, which holds outside the restart window — `raft_log.rs:44-46`). -/
theorem C01_cluster_state_machine_safety_applied (cfg : JointConfig) (c0 : Nat) (h : List Sys)
    (H : Snap2.Hyp3w cfg c0 h)
    (m1 : Nat) (s1 : Sys) (hm1 : h[m1]? = some s1) (v1 : Nat) (st1 : NState)
    (hv1 : s1.node v1 = some st1) (ha1 : st1.raft.raftLog.AppliedOk)
    (m2 : Nat) (s2 : Sys) (hm2 : h[m2]? = some s2) (v2 : Nat) (st2 : NState)
    (hv2 : s2.node v2 = some st2) (ha2 : st2.raft.raftLog.AppliedOk)
    (k : Nat) (hk1 : k ≤ st1.raft.raftLog.applied) (hk2 : k ≤ st2.raft.raftLog.applied)
    (hr1 : st1.raft.raftLog.abs.snapIdx < k) (hr2 : st2.raft.raftLog.abs.snapIdx < k) :
    st1.raft.raftLog.abs.entryAt k = st2.raft.raftLog.abs.entryAt k :=
  RaftProps.C01g.Snapshots.C01_cluster_state_machine_safety_applied cfg c0 h H.toHyp3a m1 s1 hm1 v1 st1 hv1 ha1 m2 s2 hm2 v2 st2 hv2 ha2 k hk1 hk2 hr1 hr2

/-- **a compacted prefix is a committed prefix** (`C15`-style, for compaction points): in every state,
the snapshot point of every node — of its logical log and of its storage, which coincide unless a
snapshot is pending — is not below the common initial snapshot point `c0` and not above the node's
commit index; and every other
node, in any state, whose commit index reaches an index `k` up to that snapshot point holds, in its
uncompacted log, exactly the entry the compacting node's uncompacted log holds at `k`. -/
theorem C01_cluster_compacted_prefix_committed (cfg : JointConfig) (c0 : Nat) (h : List Sys)
    (H : Snap2.Hyp3w cfg c0 h)
    (m1 : Nat) (s1 : Sys) (hm1 : h[m1]? = some s1) (v1 : Nat) (st1 : NState)
    (hv1 : s1.node v1 = some st1) :
    c0 ≤ st1.raft.raftLog.abs.snapIdx ∧
    (st1.raft.raftLog.unstable.snapshot = none →
      (storeLog st1.raft.raftLog.store).snapIdx = st1.raft.raftLog.abs.snapIdx) ∧
    st1.raft.raftLog.abs.snapIdx ≤ st1.raft.raftLog.committed ∧
    ∀ (m2 : Nat) (s2 : Sys) (v2 : Nat) (st2 : NState), h[m2]? = some s2 → s2.node v2 = some st2 →
      ∀ k, k ≤ st1.raft.raftLog.abs.snapIdx → k ≤ st2.raft.raftLog.committed →
        (Snap.FL h c0 st1).entryAt k = (Snap.FL h c0 st2).entryAt k :=
  RaftProps.C01g.Snapshots.C01_cluster_compacted_prefix_committed cfg c0 h H.toHyp3a m1 s1 hm1 v1 st1 hv1

/-- **a released snapshot is a committed prefix**: every `MsgSnapshot` `x` in the transport of a state
`h[m]` names an index `i > c0` and a term `t` such that there is an earlier step `h[n] → h[n+1]`
(`n < m`) that took the commit index of a node `l`, leader of a term `≤ x.term` after the step, to some
`c' ≥ i`, and the uncompacted log of `l` after that step holds an entry of term `t` at `i` — in its real
log, if that still retains `i`. -/
theorem C01_cluster_snapshot_committed_prefix (cfg : JointConfig) (c0 : Nat) (h : List Sys)
    (H : Snap2.Hyp3w cfg c0 h) (m : Nat) (s : Sys) (hm : h[m]? = some s) (x : Message)
    (hx : x ∈ s.net) (hty : x.msgType = .msgSnapshot) :
    c0 < x.snapshot.metadata.index ∧
    ∃ (n : Nat) (a b : Sys) (l : Nat) (sta stb : NState), n < m ∧ h[n]? = some a ∧
      h[n + 1]? = some b ∧ a.node l = some sta ∧ b.node l = some stb ∧
      stb.raft.state = .leader ∧ sta.raft.raftLog.committed < stb.raft.raftLog.committed ∧
      x.snapshot.metadata.index ≤ stb.raft.raftLog.committed ∧ stb.raft.term ≤ x.term ∧
      Has (Snap.FL h c0 stb) x.snapshot.metadata.index x.snapshot.metadata.term ∧
      (stb.raft.raftLog.abs.snapIdx < x.snapshot.metadata.index →
        Has stb.raft.raftLog.abs x.snapshot.metadata.index x.snapshot.metadata.term) :=
  RaftProps.C01g.Snapshots.C01_cluster_snapshot_committed_prefix cfg c0 h H.toHyp3a m s hm x hx hty

/-- **snapshot-point term agreement**: if the log of a node `v1` (in any state) starts at a snapshot
point `i > c0` whose term `t` it knows — after it restored a snapshot (pending or installed), or after
a restart —, then `i` is within `v1`'s commit index, and every node `v2`, in any state, whose commit
index reaches `i` holds an entry of term `t` at `i` in its uncompacted log: in its real log if that
retains `i`, and as the term of its own snapshot point if that is `i` and it knows the term.  (With
`C01_cluster_state_machine_safety_ghost`: the prefix a snapshot stands for is the committed prefix of
every node.) -/
theorem C01_cluster_snapshot_point_agreement (cfg : JointConfig) (c0 : Nat) (h : List Sys)
    (H : Snap2.Hyp3w cfg c0 h)
    (m1 : Nat) (s1 : Sys) (hm1 : h[m1]? = some s1) (v1 : Nat) (st1 : NState)
    (hv1 : s1.node v1 = some st1) (t : Nat) (ht : st1.raft.raftLog.abs.snapTerm = some t)
    (hi : c0 < st1.raft.raftLog.abs.snapIdx) :
    st1.raft.raftLog.abs.snapIdx ≤ st1.raft.raftLog.committed ∧
    ∀ (m2 : Nat) (s2 : Sys) (v2 : Nat) (st2 : NState), h[m2]? = some s2 → s2.node v2 = some st2 →
      st1.raft.raftLog.abs.snapIdx ≤ st2.raft.raftLog.committed →
      Has (Snap.FL h c0 st2) st1.raft.raftLog.abs.snapIdx t ∧
      (st2.raft.raftLog.abs.snapIdx < st1.raft.raftLog.abs.snapIdx →
        Has st2.raft.raftLog.abs st1.raft.raftLog.abs.snapIdx t) ∧
      (st2.raft.raftLog.abs.snapIdx = st1.raft.raftLog.abs.snapIdx →
        ∀ t', st2.raft.raftLog.abs.snapTerm = some t' → t' = t) :=
  RaftProps.C01g.Snapshots.C01_cluster_snapshot_point_agreement cfg c0 h H.toHyp3a m1 s1 hm1 v1 st1 hv1 t ht hi

/-- **a restored snapshot never drops a committed entry, and installs a committed prefix**: in every
state, a node with a pending snapshot `sn` (restored from a `MsgSnapshot`, not yet installed in its
storage) has commit index `sn.index > c0`, an empty unstable log, and nothing persisted beyond
`sn.index`; and its stored commit index never exceeds its commit index. -/
theorem C01_cluster_pending_snapshot (cfg : JointConfig) (c0 : Nat) (h : List Sys)
    (H : Snap2.Hyp3w cfg c0 h) (m : Nat) (s : Sys) (hm : h[m]? = some s) (v : Nat) (st : NState)
    (hv : s.node v = some st) (sn : Snapshot) (hp : st.raft.raftLog.unstable.snapshot = some sn) :
    st.raft.raftLog.unstable.entries = [] ∧ st.raft.raftLog.committed = sn.metadata.index ∧
    c0 < sn.metadata.index ∧ st.raft.raftLog.persisted ≤ sn.metadata.index ∧
    st.raft.raftLog.store.hardState.commit ≤ st.raft.raftLog.committed :=
  RaftProps.C01g.Snapshots.C01_cluster_pending_snapshot cfg c0 h H.toHyp3a m s hm v st hv sn hp

/-- **every `MsgAppend` is anchored inside its sender's log** (the former gap `anch`): in every state
of a history, every `MsgAppend` in the transport, and every one queued at a node, has `log_term ≠ 0` or
`index ≤ c0` -/
theorem C01h_appends_anchored (cfg : JointConfig) (c0 : Nat) (h : List Sys)
    (H : Snap2.Hyp3w cfg c0 h) (n : Nat) (s : Sys) (hn : h[n]? = some s) :
    (∀ x ∈ s.net, x.msgType = .msgAppend → x.logTerm ≠ 0 ∨ x.index ≤ c0) ∧
    (∀ i st, s.node i = some st → ∀ x ∈ st.raft.msgs, x.msgType = .msgAppend →
      x.logTerm ≠ 0 ∨ x.index ≤ c0) :=
  ⟨(Snap2.ci_all H n s hn).na, (Snap2.ci_all H n s hn).qa⟩

/-- **a leader's progress lies within its log, the `Snapshot` state included**: in every state of a
history, every progress of a leader has `matched ≤ last_index`, `next_idx ≤ last_index + 1`, and — in
the `Snapshot` state — `pending_snapshot ≤ last_index`; and every `MsgSnapshot` a node has queued names
an index within that node's commit index -/
theorem C01h_progress_within_log (cfg : JointConfig) (c0 : Nat) (h : List Sys)
    (H : Snap2.Hyp3w cfg c0 h) (n : Nat) (s : Sys) (hn : h[n]? = some s) (i : Nat) (st : NState)
    (hi : s.node i = some st) :
    (st.raft.state = .leader → ∀ p ∈ st.raft.prs.progress,
      p.2.matched ≤ st.raft.raftLog.lastIndex ∧ p.2.nextIdx ≤ st.raft.raftLog.lastIndex + 1 ∧
      (p.2.state = .snapshot → p.2.pendingSnapshot ≤ st.raft.raftLog.lastIndex)) ∧
    (∀ x ∈ st.raft.msgs, x.msgType = .msgSnapshot →
      x.snapshot.metadata.index ≤ st.raft.raftLog.committed) :=
  ⟨((Snap2.ci_all H n s hn).node i st hi).po, ((Snap2.ci_all H n s hn).node i st hi).qs⟩

/-- **where a `MsgReadIndexResp` comes from** (the former gap `norir` / `rirs`): in every state `h[n]`,
every `MsgReadIndexResp` in the transport or queued at a node carries the term of a node that led that
term in some state `h[n0]`, `n0 ≤ n`, with `committed ≥ index`; and every pending read index of a
leader is at most its commit index -/
theorem C01h_read_index_resp_source (cfg : JointConfig) (c0 : Nat) (h : List Sys)
    (H : Snap2.Hyp3w cfg c0 h) (n : Nat) (s : Sys) (hn : h[n]? = some s) :
    (∀ x, (x ∈ s.net ∨ ∃ i st, s.node i = some st ∧ x ∈ st.raft.msgs) →
      x.msgType = .msgReadIndexResp →
      ∃ n0 s0 w stw, n0 ≤ n ∧ h[n0]? = some s0 ∧ s0.node w = some stw ∧
        stw.raft.state = .leader ∧ stw.raft.term = x.term ∧ x.index ≤ stw.raft.raftLog.committed) ∧
    (∀ i st, s.node i = some st → st.raft.state = .leader →
      ∀ p ∈ st.raft.readOnly.pendingReadIndex, p.2.index ≤ st.raft.raftLog.committed) := by
  have c := Snap2.ci_all H n s hn
  refine ⟨fun x hx hty => ?_, fun i st hi => (c.node i st hi).rd⟩
  rcases hx with d | ⟨i, st, hi, d⟩
  · exact c.nr x d hty
  · exact c.qr i st hi x d hty

/-- the hypotheses of this file imply those of `RaftProps/C01g2.lean`: `anch` and `rirs` are theorems -/
theorem C01h_derives_anch_rirs (cfg : JointConfig) (c0 : Nat) (h : List Sys)
    (H : Snap2.Hyp3w cfg c0 h) : Snap2.Hyp3a cfg c0 h := H.toHyp3a

/-- the hypotheses of `RaftProps/C01g2.lean` imply the hypotheses of this file -/
theorem C01h_subsumes_C01g2 (cfg : JointConfig) (c0 : Nat) (h : List Sys)
    (H : Snap2.Hyp3a cfg c0 h) : Snap2.Hyp3w cfg c0 h := H.toHyp3w

/-- … and so do the hypotheses of C01e part 2 (with the gaps `norir` and `anch`) -/
theorem C01h_subsumes_C01e (cfg : JointConfig) (c0 : Nat) (h : List Sys)
    (H : Snap2.Hyp3 cfg c0 h) : Snap2.Hyp3w cfg c0 h := H.toHyp3a.toHyp3w

/-- non-vacuity: the 34-state history of `C01e_cluster_snapshot_nonvacuous` (a leader compacts, a
lagging follower is sent a `MsgSnapshot` — the leader's progress is in the `Snapshot` state —,
restores and installs it) satisfies `Snap2.Hyp3w` -/
theorem C01h_snapshots_nonvacuous : Snap2.Hyp3w RaftProps.C02.c02x_cfg 0 Snap2.sx_hist :=
  Snap2.sx_hyp3.toHyp3a.toHyp3w

/-- some node of `s` is leader and has a progress in the `Snapshot` state with a pending snapshot -/
def snapshotStateIn (s : Sys) : Bool :=
  s.nodes.any (fun p => p.2.raft.state == .leader &&
    p.2.raft.prs.progress.any (fun q => q.2.state == .snapshot && decide (0 < q.2.pendingSnapshot)))

/-- … and that history really exercises what is new here: in some of its states a leader has a
progress in the `Snapshot` state, and a `MsgSnapshot` is in the transport (kernel-evaluated) -/
theorem C01h_snapshot_state_reached :
    Snap2.sx_hist.any snapshotStateIn = true ∧
    Snap2.sx_hist.any (fun s => s.net.any (fun x => x.msgType == .msgSnapshot)) = true := by
  constructor <;> decide

end RaftProps.C01h
