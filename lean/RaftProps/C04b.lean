import RaftProofs.RaftNodeC04
import RaftProps.C11

/-!
# C04 on the node model — every way the commit index (`raft_log.committed`) can change

The cluster-level proof of C04 (`RaftProps/C04.lean`, over the abstract protocol `P`) relies on
*commit obligations* of the events `commitLeader`, `commitApp`, `commitHB`, `commitClaim`,
`commitSnap`.  This file proves them on the executable node model (`RaftModel/Raft*.lean`, the
line-by-line model of `src/raft.rs`), for ALL states and messages (no invariant is assumed unless a
hypothesis is named):

1. `C04_commit_monotone_step` / `_tick` / … : no entry point ever decreases `committed`.
2. `C04_leader_commit_rule`: `maybe_commit` commits exactly `maximal_committed_index`, only if that
   entry carries the leader's *current term*, and that index is acknowledged (`matched ≥`) by a
   majority of each non-empty voter half.  `C04_leader_commit_only_by_maybeCommit`: inside `step`
   a leader's commit index moves only through that rule (on `MsgAppendResponse`).
   `C04_self_matched_from_persisted`: the leader's own `matched` is written by
   `on_persist_entries` with the persisted index; `append_entry` does not touch the tracker.
3. `C04_follower_commit_sources`, `C04_candidate_commit_sources`, `C04_vote_request_commit_source`,
   `C04_step_commit_sources`: the complete list of what moves a non-leader's commit index, with the
   local evidence each handler checks (`CommitEvidence`); every other message type leaves it alone.
4. `C04_heartbeat_commit_bounded`: the heartbeat to `x` carries `min(matched x, committed)`.
5. Non-vacuity examples (evaluated by `decide`).

Helper lemmas (the commit-index frame of every function of the model): `RaftProofs/RaftNodeC04.lean`.
-/
namespace RaftProps.C04
open RaftModel RaftModel.Raft

/-! ## 1. The commit index never decreases -/

/-- `Raft::step` never decreases the commit index (any state, any message) -/
theorem C04_commit_monotone_step (r r' : Raft) (m : Message) (e : Option RaftError)
    (h : r.step m = .ok (r', e)) : r.raftLog.committed ≤ r'.raftLog.committed :=
  (step_cle (c := r.raftLog.committed) h ⟨Nat.le_refl _⟩).h

/-- `Raft::tick` never decreases the commit index -/
theorem C04_commit_monotone_tick (r r' : Raft) (b : Bool) (h : r.tick = .ok (r', b)) :
    r.raftLog.committed ≤ r'.raftLog.committed :=
  (tick_cle (c := r.raftLog.committed) h ⟨Nat.le_refl _⟩).h

/-- `RawNode::step` (the message filter in front of `Raft::step`) -/
theorem C04_commit_monotone_rawnode_step (r r' : Raft) (m : Message) (e : Option RaftError)
    (h : RawNode.step r m = .ok (r', e)) : r.raftLog.committed ≤ r'.raftLog.committed := by
  unfold RawNode.step at h
  split at h
  · cases h; exact Nat.le_refl _
  · split at h
    · exact C04_commit_monotone_step r r' m e h
    · cases h; exact Nat.le_refl _

/-- `Raft::on_persist_entries` (raft.rs:1060) — the other place where a leader may commit -/
theorem C04_commit_monotone_onPersistEntries (r r' : Raft) (index term : Nat)
    (h : r.onPersistEntries index term = .ok r') :
    r.raftLog.committed ≤ r'.raftLog.committed := by
  have h0 : CP (fun x => r.raftLog.committed ≤ x) r := ⟨Nat.le_refl _⟩
  unfold Raft.onPersistEntries at h
  split at h
  · cases h
  · cases h
  · rename_i log upd hp
    have hlog : log.committed = r.raftLog.committed := by
      unfold RaftLog.maybePersist at hp
      frame_dec hp <;> rfl
    have hk : ∀ r1 : Raft, r1.raftLog = log → CP (fun x => r.raftLog.committed ≤ x) r1 := by
      intro r1 e1
      exact ⟨by rw [e1, hlog]; exact Nat.le_refl _⟩
    have : CP (fun x => r.raftLog.committed ≤ x) r' := by
      c04_auto h [maybeCommit_cle, bcastAppend_cp, hk, rfl]
    exact this.h

/-- `Raft::on_persist_snap` (raft.rs:1089) does not touch the commit index -/
theorem C04_onPersistSnap_keeps_commit (r r' : Raft) (index : Nat)
    (h : r.onPersistSnap index = .ok r') : r'.raftLog.committed = r.raftLog.committed := by
  unfold Raft.onPersistSnap at h
  split at h
  · rename_i log b hp
    cases h
    unfold RaftLog.maybePersistSnap at hp
    split at hp
    · split at hp
      · cases hp
      · split at hp
        · cases hp
        · cases hp; rfl
    · cases hp; rfl
  · cases h
  · cases h

/-- `Raft::apply_conf_change` (raft.rs:2834): a leader re-evaluates `maybe_commit` under the new
configuration; the commit index does not decrease -/
theorem C04_commit_monotone_applyConfChange (r r' : Raft) (cc : ConfChangeV2)
    (res : Except ErrKind ConfState) (h : r.applyConfChange cc = .ok (r', res)) :
    r.raftLog.committed ≤ r'.raftLog.committed := by
  have h0 : CP (fun x => r.raftLog.committed ≤ x) r := ⟨Nat.le_refl _⟩
  unfold Raft.applyConfChange at h
  have : CP (fun x => r.raftLog.committed ≤ x) r' := by
    c04_auto h [postConfChange_cle]
  exact this.h

/-- `Raft::commit_apply` (raft.rs:960) moves `applied`, appends the auto-leave entry, and leaves the
commit index alone -/
theorem C04_commitApply_keeps_commit (r r' : Raft) (applied : Nat)
    (h : r.commitApply applied = .ok r') : r'.raftLog.committed = r.raftLog.committed := by
  unfold Raft.commitApply Raft.commitApplyInternal at h
  simp only [Bool.not_false, if_true] at h
  split at h
  · cases h
  · cases h
  · rename_i log hl
    have hlog : log.committed = r.raftLog.committed := by
      unfold RaftLog.appliedTo at hl
      split at hl
      · cases hl; rfl
      · split at hl
        · cases hl
        · cases hl; rfl
    have h0 : CP (fun x => x = r.raftLog.committed) ({ r with raftLog := log } : Raft) := ⟨hlog⟩
    have : CP (fun x => x = r.raftLog.committed) r' := by
      c04_auto h [appendEntry_cp]
    exact this.h

/-! ## 2. The leader's commit rule -/

/-- the voters of `vs` that acknowledged at least `i` -/
def ackers (vs : List Nat) (ack : Nat → Option Index) (i : Nat) : List Nat :=
  vs.filter (fun v => decide (i ≤ ackIdx ack v))

theorem c04_quorumAcked_isQuorum (vs : List Nat) (ack : Nat → Option Index) (i : Nat) (all : List Nat)
    (hsub : ∀ v ∈ vs, v ∈ all) (h : QuorumAcked vs ack i) : IsQuorum vs (ackers all ack i) := by
  unfold IsQuorum
  unfold QuorumAcked ackCount at h
  refine Nat.le_trans h ?_
  apply List.countP_mono_left
  intro v hv hd
  simp only [decide_eq_true_eq] at hd ⊢
  simp only [ackers, List.mem_filter, decide_eq_true_eq]
  exact ⟨hsub v hv, hd⟩

/-- whatever the group-commit flag, the index reported by `maximal_committed_index` is acknowledged
by a majority of each non-empty half (C11: `committedIndex_is_max_quorum_acked`,
`groupCommit_le_quorum`) -/
theorem c04_maximalCommittedIndex_acked (t : ProgressTracker) (mci : Nat) (gc : Bool)
    (h : t.maximalCommittedIndex = .ok (mci, gc)) : JointQuorumAcked t.voters t.acked mci := by
  unfold ProgressTracker.maximalCommittedIndex at h
  rw [RaftProps.C11.joint_committedIndex_never_panics] at h
  have hm : mci = (Joint.committedIndex t.voters t.acked t.groupCommit).1 := by
    cases h; rfl
  have hmin : mci = min (Majority.committedIndex t.voters.incoming t.acked t.groupCommit).1
      (Majority.committedIndex t.voters.outgoing t.acked t.groupCommit).1 := by
    rw [hm]; rfl
  have half : ∀ vs : List Nat, vs ≠ [] →
      mci ≤ (Majority.committedIndex vs t.acked t.groupCommit).1 → QuorumAcked vs t.acked mci := by
    intro vs hne hle
    have h1 : (Majority.committedIndex vs t.acked t.groupCommit).1 ≤
        (Majority.committedIndex vs t.acked false).1 := by
      cases hg : t.groupCommit with
      | false => exact Nat.le_refl _
      | true => exact RaftProps.C11.groupCommit_le_quorum vs t.acked
    have h2 := (Majority.quorumIndex_spec vs t.acked hne).1
    unfold QuorumAcked at h2 ⊢
    exact Nat.le_trans h2 (ackCount_anti vs t.acked (Nat.le_trans hle h1))
  exact ⟨fun hne => half _ hne (by rw [hmin]; exact Nat.min_le_left _ _),
         fun hne => half _ hne (by rw [hmin]; exact Nat.min_le_right _ _)⟩

/-- **The leader's commit rule** (`Raft::maybe_commit`, raft.rs:939; the only writer of `committed`
on a leader inside `step`, see `C04_leader_commit_only_by_maybeCommit`).  If `maybe_commit` returns
`true` then, with `mci = prs.maximal_committed_index().0`:
* the new commit index is exactly `mci`, strictly above the old one and inside the log;
* the entry at `mci` carries the node's **current term** (`raft_log.term(mci) == self.term`);
* `mci` is acknowledged by a majority of each non-empty voter half of the tracker's configuration —
  as a count (`JointQuorumAcked`) and as an explicit quorum `Q` whose members all have a progress
  entry with `matched ≥ mci`;
* nothing else of the log changes, and the term does not change. -/
theorem C04_leader_commit_rule (r r' : Raft) (h : r.maybeCommit = .ok (r', true)) :
    ∃ mci gc, r.prs.maximalCommittedIndex = .ok (mci, gc) ∧
      r'.raftLog.committed = mci ∧ r.raftLog.committed < mci ∧ mci ≤ r.raftLog.lastIndex ∧
      r.raftLog.term mci = .ok r.term ∧
      JointQuorumAcked r.prs.voters r.prs.acked mci ∧
      (∃ Q, IsJointQuorum r.prs.voters Q ∧
        ∀ v ∈ Q, ∃ pr, r.prs.get v = some pr ∧ mci ≤ pr.matched) ∧
      r'.raftLog = { r.raftLog with committed := mci } ∧ r'.term = r.term := by
  obtain ⟨mci, gc, hm, hh | hh⟩ := maybeCommit_spec h
  · obtain ⟨_, hlt, hli, hterm, rfl⟩ := hh
    have hq := c04_maximalCommittedIndex_acked r.prs mci gc hm
    refine ⟨mci, gc, hm, rfl, hlt, hli, hterm, hq, ?_, rfl, rfl⟩
    refine ⟨ackers (r.prs.voters.incoming ++ r.prs.voters.outgoing) r.prs.acked mci, ⟨?_, ?_⟩, ?_⟩
    · intro hne
      exact c04_quorumAcked_isQuorum _ _ _ _ (fun v hv => List.mem_append_left _ hv) (hq.1 hne)
    · intro hne
      exact c04_quorumAcked_isQuorum _ _ _ _ (fun v hv => List.mem_append_right _ hv) (hq.2 hne)
    · intro v hv
      simp only [ackers, List.mem_filter, decide_eq_true_eq] at hv
      have hle := hv.2
      unfold ackIdx ProgressTracker.acked at hle
      unfold ProgressTracker.get
      cases hl : r.prs.progress.lookup v with
      | none =>
        rw [hl] at hle
        simp at hle
        change mci ≤ 0 at hle
        omega
      | some pr =>
        rw [hl] at hle
        exact ⟨pr, rfl, hle⟩
  · cases hh.1

/-- without group commit (`hgc`), and when the acknowledged indexes are u64 values (`hb`; needed
only because an empty half reports `u64::MAX`), the committed index is moreover the *largest* index
acknowledged by a majority of each non-empty half (C11 `joint_committedIndex`) -/
theorem C04_leader_commit_rule_maximal (r r' : Raft) (h : r.maybeCommit = .ok (r', true))
    (hgc : r.prs.groupCommit = false)
    (hne : r.prs.voters.incoming ≠ [] ∨ r.prs.voters.outgoing ≠ [])
    (hb : ∀ v, (v ∈ r.prs.voters.incoming ∨ v ∈ r.prs.voters.outgoing) →
      ackIdx r.prs.acked v ≤ U64_MAX) :
    ∀ i, r'.raftLog.committed < i → ¬ JointQuorumAcked r.prs.voters r.prs.acked i := by
  obtain ⟨mci, gc, hm, hc, _⟩ := C04_leader_commit_rule r r' h
  unfold ProgressTracker.maximalCommittedIndex at hm
  rw [RaftProps.C11.joint_committedIndex_never_panics, hgc] at hm
  have e : mci = (Joint.committedIndex r.prs.voters r.prs.acked false).1 := by cases hm; rfl
  rw [hc, e]
  exact (RaftProps.C11.joint_committedIndex r.prs.voters r.prs.acked hne hb).2.1

/-- a configuration without voters cannot commit anything inside a u64 log -/
theorem C04_leader_commit_needs_voters (r r' : Raft) (h : r.maybeCommit = .ok (r', true))
    (hlast : r.raftLog.lastIndex < U64_MAX) :
    r.prs.voters.incoming ≠ [] ∨ r.prs.voters.outgoing ≠ [] := by
  obtain ⟨mci, gc, hm, _, _, hli, _⟩ := C04_leader_commit_rule r r' h
  apply Classical.byContradiction
  intro hc
  have h1 : r.prs.voters.incoming = [] := by
    apply Classical.byContradiction; intro h1; exact hc (Or.inl h1)
  have h2 : r.prs.voters.outgoing = [] := by
    apply Classical.byContradiction; intro h2; exact hc (Or.inr h2)
  unfold ProgressTracker.maximalCommittedIndex at hm
  rw [RaftProps.C11.joint_committedIndex_never_panics] at hm
  have hv : r.prs.voters = ⟨[], []⟩ := by
    cases hvv : r.prs.voters with
    | mk i o => rw [hvv] at h1 h2; simp only at h1 h2; rw [h1, h2]
  rw [hv, RaftProps.C11.joint_committedIndex_empty] at hm
  cases hm
  omega

/-- **inside `step`, a leader's commit index moves only through `maybe_commit`**, and only while
handling a `MsgAppendResponse` (after the sender's progress `pr1` has been written back): every other
message type handled by `step_leader` leaves `committed` alone -/
theorem C04_leader_commit_only_by_maybeCommit (r r' : Raft) (m : Message) (e : Option RaftError)
    (h : r.stepLeader m = .ok (r', e)) :
    r'.raftLog.committed = r.raftLog.committed ∨
    (m.msgType = .msgAppendResponse ∧
      ∃ pr1 r2, ({ r with prs := r.prs.set m.frm pr1 } : Raft).maybeCommit = .ok (r2, true) ∧
        r'.raftLog.committed = r2.raftLog.committed) :=
  stepLeader_commit h

/-- the leader's own acknowledged index (`prs[self.id].matched`) -/
def selfMatched (r : Raft) : Option Nat := (selfProgress r).map (·.matched)

/-- **The leader counts itself only for what it has persisted.**  `on_persist_entries(index, term)`
(raft.rs:1060) first asks the log (`RaftLog::maybe_persist`) whether `index` is newly persisted
(`upd`; then `persisted` becomes `index`); only then, and only on a leader, it runs
`maybe_update(index)` on the leader's *own* progress: its `matched` becomes `max(matched, index)`.
Nothing else in the function (the `maybe_commit` and `bcast_append` that follow) touches the
leader's own `matched`.  In particular `matched ≤ persisted` is preserved for the leader itself. -/
theorem C04_self_matched_from_persisted (r r' : Raft) (index term : Nat)
    (h : r.onPersistEntries index term = .ok r') :
    ∃ log upd, r.raftLog.maybePersist index term = .ok (log, upd) ∧ r'.id = r.id ∧
      (upd = true → log.persisted = index ∧ r.raftLog.persisted < index) ∧
      (upd = false → log = r.raftLog) ∧
      selfMatched r' =
        (if upd = true ∧ r.state = .leader then (selfMatched r).map (fun x => max x index)
         else selfMatched r) := by
  unfold Raft.onPersistEntries at h
  split at h
  · cases h
  · cases h
  · rename_i log upd hp
    have hpers : (upd = true → log.persisted = index ∧ r.raftLog.persisted < index) ∧
        (upd = false → log = r.raftLog) := by
      have hp0 := hp
      unfold RaftLog.maybePersist at hp0
      frame_dec hp0
      all_goals simp_all
    refine ⟨log, upd, hp, ?_, hpers.1, hpers.2, ?_⟩
    · -- the id
      simp only at h
      split at h
      · split at h
        · cases h; rfl
        · split at h
          · cases h
          · cases h
          · split at h
            · split at h
              · rename_i r2 hm
                split at h
                · exact (bcastAppend_self h).1.trans (maybeCommit_self hm).1
                · cases h; exact (maybeCommit_self hm).1
              · rename_i r2 hm
                cases h; exact (maybeCommit_self hm).1
              · cases h
              · cases h
            · cases h; rfl
      · cases h; rfl
    · simp only at h
      split at h
      · rename_i hc
        rw [if_pos hc]
        split at h
        · rename_i hg
          cases h
          have : selfMatched r = none := by
            unfold selfMatched selfProgress; rw [hg]; rfl
          rw [this]
          unfold selfMatched selfProgress
          show ((r.prs.get r.id).map _) = _
          rw [hg]; rfl
        · rename_i pr hg
          have hsm : selfMatched r = some pr.matched := by
            unfold selfMatched selfProgress; rw [hg]; rfl
          split at h
          · cases h
          · cases h
          · rename_i pr' updated hmu
            have hpr' : pr'.matched = max pr.matched index := by
              unfold Progress.maybeUpdate at hmu
              simp only at hmu
              split at hmu
              · cases hmu
              · cases hmu
                by_cases hlt : pr.matched < index
                · simp only [hlt, decide_true, if_true]
                  split <;> exact (Nat.max_eq_right (Nat.le_of_lt hlt)).symm
                · simp only [hlt, decide_false, Bool.false_eq_true, if_false]
                  split <;> exact (Nat.max_eq_left (Nat.le_of_not_lt hlt)).symm
            have base : selfMatched ({ ({ r with raftLog := log } : Raft) with
                prs := r.prs.set r.id pr' } : Raft) = some (max pr.matched index) := by
              unfold selfMatched selfProgress
              show ((r.prs.set r.id pr').get r.id).map _ = _
              rw [c04_get_set_self _ _ _ _ hg, ← hpr']; rfl
            rw [hsm]
            show _ = some (max pr.matched index)
            split at h
            · split at h
              · rename_i r2 hm
                obtain ⟨i2, m2⟩ := maybeCommit_self hm
                split at h
                · obtain ⟨_, s3⟩ := bcastAppend_self h
                  unfold selfMatched
                  rw [s3, m2]; exact base
                · cases h
                  unfold selfMatched
                  rw [m2]; exact base
              · rename_i r2 hm
                obtain ⟨i2, m2⟩ := maybeCommit_self hm
                cases h
                unfold selfMatched
                rw [m2]; exact base
              · cases h
              · cases h
            · cases h; exact base
      · rename_i hc
        rw [if_neg hc]
        cases h; rfl

/-- corollary: `on_persist_entries` keeps the leader's own `matched` at or below the log's
`persisted` index (`log` is the log right after `maybe_persist`; the rest of the function does not
move `persisted`) -/
theorem C04_self_matched_le_persisted (r r' : Raft) (index term x : Nat)
    (h : r.onPersistEntries index term = .ok r') (hx : selfMatched r = some x)
    (hle : x ≤ r.raftLog.persisted) :
    ∃ log upd y, r.raftLog.maybePersist index term = .ok (log, upd) ∧
      selfMatched r' = some y ∧ y ≤ log.persisted := by
  obtain ⟨log, upd, hp, _, h1, h2, hs⟩ := C04_self_matched_from_persisted r r' index term h
  cases upd with
  | true =>
    obtain ⟨e1, e2⟩ := h1 rfl
    by_cases hl : r.state = .leader
    · rw [if_pos ⟨rfl, hl⟩, hx] at hs
      exact ⟨log, true, max x index, hp, hs, by rw [e1]; omega⟩
    · rw [if_neg (fun hc => hl hc.2), hx] at hs
      exact ⟨log, true, x, hp, hs, by rw [e1]; omega⟩
  | false =>
    have e := h2 rfl
    rw [if_neg (fun hc => by cases hc.1), hx] at hs
    exact ⟨log, false, x, hp, hs, by rw [e]; exact hle⟩

/-- `append_entry` (raft.rs:1043; every proposal and the leader's own no-op entry) only appends to
the log: it does **not** raise the leader's own `matched` (nor any other progress, nor the commit
index).  The leader therefore counts towards a commit quorum only through
`on_persist_entries`.  (The two other writers of the own `matched` in the model are `reset` — on
every role change, to `raft_log.persisted` — and `restore` on a follower; a `MsgAppendResponse`
whose `from` is the leader's own id would also be taken at face value by
`handle_append_response`, which is an assumption on the transport, not checked by the code.) -/
theorem C04_appendEntry_keeps_tracker (r r' : Raft) (es : List Entry) (b : Bool)
    (h : r.appendEntry es = .ok (r', b)) :
    r'.prs = r.prs ∧ selfMatched r' = selfMatched r ∧
    r'.raftLog.committed = r.raftLog.committed := by
  obtain ⟨h1, h2, h3, _, _⟩ := appendEntry_spec h
  refine ⟨h2, ?_, h1⟩
  unfold selfMatched selfProgress
  rw [h2, h3]

/-! ## 3. What moves a non-leader's commit index -/

/-- the local evidence a non-leader has checked against its log `l` when message `m` made it move
its commit index to `c'` -/
inductive CommitEvidence (l : RaftLog) (m : Message) (c' : Nat) : Prop
  /-- `handle_append_entries`: the append matched (`maybe_append` returned `Some`: the local entry
  at `m.index` has term `m.log_term`); commit `min(m.commit, m.index + |entries|)` -/
  | append (ht : m.msgType = .msgAppend) (hm : l.matchTerm m.index m.logTerm = .ok true)
      (hc : c' = min m.commit (m.index + m.entries.length))
  /-- `handle_heartbeat`: `commit_to(m.commit)`, which panics beyond the log -/
  | heartbeat (ht : m.msgType = .msgHeartbeat) (hc : c' = m.commit) (hl : m.commit ≤ l.lastIndex)
  /-- `handle_snapshot` / `restore`: to the snapshot index (see `C04_restore_commit`) -/
  | snapshot (ht : m.msgType = .msgSnapshot) (hc : c' = m.snapshot.metadata.index)
  /-- `maybe_commit_by_vote` (a vote request we reject, or a vote response): only when the local
  entry at `m.commit` has term `m.commit_term` -/
  | byVote (ht : isVoteMsg m.msgType = true) (hz : m.commitTerm ≠ 0)
      (hterm : l.term m.commit = .ok m.commitTerm) (hc : c' = m.commit) (hl : m.commit ≤ l.lastIndex)
  /-- `MsgReadIndexResp`: `maybe_commit(m.index, m.term)` -/
  | readIndexResp (ht : m.msgType = .msgReadIndexResp) (hterm : l.term m.index = .ok m.term)
      (hc : c' = m.index) (hl : m.index ≤ l.lastIndex)

/-- the evidence does not depend on `max_apply_unpersisted_log_limit` (which `become_follower`
resets) -/
theorem CommitEvidence.of_limit {l : RaftLog} {n : Nat} {m : Message} {c' : Nat}
    (h : CommitEvidence ({ l with maxApplyUnpersistedLogLimit := n } : RaftLog) m c') :
    CommitEvidence l m c' := by
  obtain ⟨h1, h2, h3⟩ := c04_log_limit_irrelevant l n
  cases h with
  | append ht hm hc => exact .append ht (by rw [← h2]; exact hm) hc
  | heartbeat ht hc hl => exact .heartbeat ht hc (by rw [← h3]; exact hl)
  | snapshot ht hc => exact .snapshot ht hc
  | byVote ht hz hterm hc hl => exact .byVote ht hz (by rw [← h1]; exact hterm) hc (by rw [← h3]; exact hl)
  | readIndexResp ht hterm hc hl =>
    exact .readIndexResp ht (by rw [← h1]; exact hterm) hc (by rw [← h3]; exact hl)

/-- `Raft::restore` (raft.rs:2640) and the commit index: unchanged, or — on a follower, for a
snapshot not below the commit index — moved to the snapshot index, either by the fast-forward
`commit_to` (result `false`; the log already holds an entry with the snapshot's index and term) or
by the full log restore (result `true`) -/
theorem C04_restore_commit (r r' : Raft) (snap : Snapshot) (b : Bool)
    (h : r.restore snap = .ok (r', b)) :
    (b = false ∧ r'.raftLog.committed = r.raftLog.committed) ∨
    (r.state = .follower ∧ r.raftLog.committed ≤ snap.metadata.index ∧
      r'.raftLog.committed = snap.metadata.index ∧
      (b = false → r.raftLog.matchTerm snap.metadata.index snap.metadata.term = .ok true ∧
        snap.metadata.index ≤ r.raftLog.lastIndex)) :=
  restore_spec h

theorem c04_handleSnapshot_source {r r' : Raft} {m : Message} (hm : m.msgType = .msgSnapshot)
    (h : r.handleSnapshot m = .ok r') :
    r'.raftLog.committed = r.raftLog.committed ∨
    (r.raftLog.committed < r'.raftLog.committed ∧
      CommitEvidence r.raftLog m r'.raftLog.committed) := by
  obtain ⟨r1, b, hr, e⟩ := handleSnapshot_committed h
  rcases restore_spec hr with ⟨_, e1⟩ | ⟨_, hle, e1, _⟩
  · exact Or.inl (e.trans e1)
  · by_cases hlt : r.raftLog.committed < m.snapshot.metadata.index
    · exact Or.inr ⟨by rw [e, e1]; exact hlt, .snapshot hm (e.trans e1)⟩
    · left; rw [e, e1]; omega

theorem c04_handleAppendEntries_source {r r' : Raft} {m : Message} (hm : m.msgType = .msgAppend)
    (h : r.handleAppendEntries m = .ok r') :
    r'.raftLog.committed = r.raftLog.committed ∨
    (r.raftLog.committed < r'.raftLog.committed ∧
      CommitEvidence r.raftLog m r'.raftLog.committed) := by
  rcases handleAppendEntries_spec h with e | ⟨_, _, hmt, hlt, hc⟩
  · exact Or.inl e
  · exact Or.inr ⟨hlt, .append hm hmt hc⟩

theorem c04_handleHeartbeat_source {r r' : Raft} {m : Message} (hm : m.msgType = .msgHeartbeat)
    (h : r.handleHeartbeat m = .ok r') :
    r'.raftLog.committed = r.raftLog.committed ∨
    (r.raftLog.committed < r'.raftLog.committed ∧
      CommitEvidence r.raftLog m r'.raftLog.committed) := by
  obtain ⟨e, hl⟩ := handleHeartbeat_spec h
  by_cases hlt : r.raftLog.committed < m.commit
  · have e' : r'.raftLog.committed = m.commit := by rw [e]; exact Nat.max_eq_right (by omega)
    exact Or.inr ⟨by rw [e']; exact hlt, .heartbeat hm e' (hl hlt)⟩
  · left; rw [e]; exact Nat.max_eq_left (by omega)

theorem c04_maybeCommitByVote_source {r r' : Raft} {m : Message} (hm : isVoteMsg m.msgType = true)
    (h : r.maybeCommitByVote m = .ok r') :
    r'.raftLog.committed = r.raftLog.committed ∨
    (r.raftLog.committed < r'.raftLog.committed ∧ r.state ≠ .leader ∧
      CommitEvidence r.raftLog m r'.raftLog.committed) := by
  rcases maybeCommitByVote_spec h with e | ⟨hs, hz, hlt, hl, hterm, e⟩
  · exact Or.inl e
  · exact Or.inr ⟨by rw [e]; exact hlt, hs, .byVote hm hz hterm e hl⟩

/-- **`step_follower` (raft.rs:2377): the complete list of what moves a follower's commit index.**
Either `committed` is unchanged, or it strictly grew and the message is a `MsgAppend`,
`MsgHeartbeat`, `MsgSnapshot` or `MsgReadIndexResp` carrying the corresponding evidence (checked
against the follower's own log).  Every other message type (`MsgPropose`, `MsgTransferLeader`,
`MsgTimeoutNow` — which may start a whole campaign —, `MsgReadIndex`, …) leaves it alone. -/
theorem C04_follower_commit_sources (r r' : Raft) (m : Message) (e : Option RaftError)
    (h : r.stepFollower m = .ok (r', e)) :
    r'.raftLog.committed = r.raftLog.committed ∨
    (r.raftLog.committed < r'.raftLog.committed ∧
      CommitEvidence r.raftLog m r'.raftLog.committed) := by
  have h0 : CP (fun x => x = r.raftLog.committed) r := ⟨rfl⟩
  unfold Raft.stepFollower at h
  split at h
  case h_2 =>
    rename_i hm
    obtain ⟨r1, h1, h⟩ := Res.bind_eq_ok h
    cases h
    have hh := c04_handleAppendEntries_source hm h1
    exact hh
  case h_3 =>
    rename_i hm
    obtain ⟨r1, h1, h⟩ := Res.bind_eq_ok h
    cases h
    have hh := c04_handleHeartbeat_source hm h1
    exact hh
  case h_4 =>
    rename_i hm
    obtain ⟨r1, h1, h⟩ := Res.bind_eq_ok h
    cases h
    have hh := c04_handleSnapshot_source hm h1
    exact hh
  case h_8 =>
    rename_i hm
    split at h
    · simp only at h
      split at h
      · rename_i log b hmc
        cases h
        rcases RaftLog.c04_maybeCommit_spec hmc with ⟨_, h1, h2, h3, rfl⟩ | ⟨_, rfl⟩
        · exact Or.inr ⟨h1, .readIndexResp hm h3 rfl h2⟩
        · exact Or.inl rfl
      · cases h
      · cases h
    · cases h; exact Or.inl rfl
  all_goals
    left
    have : CP (fun x => x = r.raftLog.committed) r' := by
      c04_auto h [send_cp, hup_cp]
    exact this.h

/-- on a follower, a message of any other type never changes the commit index -/
theorem C04_follower_other_messages_keep_commit (r r' : Raft) (m : Message) (e : Option RaftError)
    (h : r.stepFollower m = .ok (r', e))
    (hm : m.msgType ≠ .msgAppend ∧ m.msgType ≠ .msgHeartbeat ∧ m.msgType ≠ .msgSnapshot ∧
      m.msgType ≠ .msgReadIndexResp) :
    r'.raftLog.committed = r.raftLog.committed := by
  rcases C04_follower_commit_sources r r' m e h with h1 | ⟨_, ev⟩
  · exact h1
  · cases ev with
    | append ht _ _ => exact absurd ht hm.1
    | heartbeat ht _ _ => exact absurd ht hm.2.1
    | snapshot ht _ => exact absurd ht hm.2.2.1
    | byVote ht _ _ _ _ =>
      exfalso
      obtain ⟨_, _, hv⟩ : True ∧ True ∧ isVoteMsg m.msgType = true := ⟨trivial, trivial, ht⟩
      unfold Raft.stepFollower at h
      split at h <;> simp_all [isVoteMsg]
    | readIndexResp ht _ _ _ => exact absurd ht hm.2.2.2

/-- **`step_candidate` (raft.rs:2320), candidates and pre-candidates.**  Either `committed` is
unchanged, or it strictly grew and
* the message is a `MsgAppend` / `MsgHeartbeat` / `MsgSnapshot` of the candidate's own term (it
  becomes a follower first) with the evidence checked against the candidate's log, or
* it is a vote response: after `poll` (state `r1`, same commit index) the node is not a leader and
  `maybe_commit_by_vote` found `term(m.commit) = m.commit_term` in its log.
No other message type changes the commit index. -/
theorem C04_candidate_commit_sources (r r' : Raft) (m : Message) (e : Option RaftError)
    (h : r.stepCandidate m = .ok (r', e)) :
    r'.raftLog.committed = r.raftLog.committed ∨
    (r.raftLog.committed < r'.raftLog.committed ∧
      (CommitEvidence r.raftLog m r'.raftLog.committed ∨
       ∃ r1 res, r.poll m.frm m.msgType (!m.reject) = .ok (r1, res) ∧
         r1.raftLog.committed = r.raftLog.committed ∧ r1.state ≠ .leader ∧
         CommitEvidence r1.raftLog m r'.raftLog.committed)) := by
  have hbf : ∀ t l, (r.becomeFollower t l).raftLog.committed = r.raftLog.committed :=
    becomeFollower_committed r
  have lift : ∀ (r0 : Raft) (t l : Nat), r0 = r.becomeFollower t l →
      (r'.raftLog.committed = r0.raftLog.committed ∨
        (r0.raftLog.committed < r'.raftLog.committed ∧
          CommitEvidence r0.raftLog m r'.raftLog.committed)) →
      r'.raftLog.committed = r.raftLog.committed ∨
      (r.raftLog.committed < r'.raftLog.committed ∧
        (CommitEvidence r.raftLog m r'.raftLog.committed ∨
         ∃ r1 res, r.poll m.frm m.msgType (!m.reject) = .ok (r1, res) ∧
           r1.raftLog.committed = r.raftLog.committed ∧ r1.state ≠ .leader ∧
           CommitEvidence r1.raftLog m r'.raftLog.committed)) := by
    intro r0 t l hr0 hh
    subst hr0
    rcases hh with e1 | ⟨hlt, ev⟩
    · exact Or.inl (e1.trans (hbf t l))
    · rw [hbf t l] at hlt
      rw [becomeFollower_raftLog] at ev
      exact Or.inr ⟨hlt, Or.inl ev.of_limit⟩
  unfold Raft.stepCandidate at h
  split at h
  case h_1 => cases h; exact Or.inl rfl
  case h_2 =>
    rename_i hm
    split at h
    · cases h
    · obtain ⟨r1, h1, h⟩ := Res.bind_eq_ok h
      cases h
      exact lift _ _ _ rfl (c04_handleAppendEntries_source hm h1)
  case h_3 =>
    rename_i hm
    split at h
    · cases h
    · obtain ⟨r1, h1, h⟩ := Res.bind_eq_ok h
      cases h
      exact lift _ _ _ rfl (c04_handleHeartbeat_source hm h1)
  case h_4 =>
    rename_i hm
    split at h
    · cases h
    · obtain ⟨r1, h1, h⟩ := Res.bind_eq_ok h
      cases h
      exact lift _ _ _ rfl (c04_handleSnapshot_source hm h1)
  case h_7 => cases h; exact Or.inl rfl
  all_goals
    rename_i hm
    split at h
    · cases h; exact Or.inl rfl
    · split at h
      · cases h; exact Or.inl rfl
      · obtain ⟨⟨r1, res⟩, hp, h⟩ := Res.bind_eq_ok h
        obtain ⟨r2, hc, h⟩ := Res.bind_eq_ok h
        cases h
        have e1 : r1.raftLog.committed = r.raftLog.committed :=
          (poll_cp (P := fun x => x = r.raftLog.committed) hp ⟨rfl⟩).h
        rcases c04_maybeCommitByVote_source (by rw [hm]; rfl) hc with e2 | ⟨hlt, hs, ev⟩
        · exact Or.inl (e2.trans e1)
        · exact Or.inr ⟨by rw [← e1]; exact hlt, Or.inr ⟨r1, res, hp, e1, hs, ev⟩⟩

/-- **the vote arm of `step`** (`MsgRequestVote` / `MsgRequestPreVote`, any role): granting a vote
never changes the commit index; rejecting one runs `maybe_commit_by_vote` on the request's commit
point -/
theorem C04_vote_request_commit_source (r r' : Raft) (m : Message) (h : r.stepVote m = .ok r') :
    r'.raftLog.committed = r.raftLog.committed ∨
    (r.raftLog.committed < r'.raftLog.committed ∧ r.state ≠ .leader ∧
      CommitEvidence r.raftLog m r'.raftLog.committed) := by
  have h0 : CP (fun x => x = r.raftLog.committed) r := ⟨rfl⟩
  unfold Raft.stepVote at h
  split at h
  · cases h
  · rename_i respType hrt
    have hv : isVoteMsg m.msgType = true := by
      unfold voteRespMsgType at hrt
      split at hrt
      · rename_i hm; rw [hm]; rfl
      · rename_i hm; rw [hm]; rfl
      · cases hrt
    split at h
    · left
      unfold Raft.stepVoteGrant at h
      have : CP (fun x => x = r.raftLog.committed) r' := by
        c04_auto h [send_cp]
      exact this.h
    · unfold Raft.stepVoteReject at h
      split at h
      · cases h
      · cases h
      · split at h
        · rename_i r1 hs
          have e1 := send_eq r r1 _ hs
          split at h
          · rcases c04_maybeCommitByVote_source hv h with e2 | ⟨hlt, hst, ev⟩
            · left; rw [e2, e1]
            · right
              rw [e1] at hlt hst ev
              exact ⟨hlt, hst, ev⟩
          · cases h; left; rw [e1]
        · cases h
        · cases h
    · cases h
    · cases h

/-- **`Raft::step`, all roles: why the commit index moved.**  If `step` changed `committed`, it grew,
and there is an intermediate state `r1` of the same step (after the term preamble — which may have
turned the node into a follower of the sender's term — and, for vote responses, after `poll`) with
the *same commit index as before the step* such that
* `r1` is the leader, the message is a `MsgAppendResponse`, and `maybe_commit` (the leader's commit
  rule, `C04_leader_commit_rule`) returned `true` on `r1` with the sender's progress updated; or
* `r1` is not a leader and the message carries `CommitEvidence` checked against `r1`'s log. -/
theorem C04_step_commit_sources (r r' : Raft) (m : Message) (e : Option RaftError)
    (h : r.step m = .ok (r', e)) :
    r'.raftLog.committed = r.raftLog.committed ∨
    (r.raftLog.committed < r'.raftLog.committed ∧
      ∃ r1 : Raft, r1.raftLog.committed = r.raftLog.committed ∧
        ((r1.state = .leader ∧ m.msgType = .msgAppendResponse ∧
            ∃ pr1 r2, ({ r1 with prs := r1.prs.set m.frm pr1 } : Raft).maybeCommit = .ok (r2, true) ∧
              r'.raftLog.committed = r2.raftLog.committed) ∨
         (r1.state ≠ .leader ∧ CommitEvidence r1.raftLog m r'.raftLog.committed))) := by
  have hmono := C04_commit_monotone_step r r' m e h
  by_cases hch : r'.raftLog.committed = r.raftLog.committed
  · exact Or.inl hch
  right
  refine ⟨by omega, ?_⟩
  unfold Raft.step at h
  split at h
  · cases h
  · cases h
  · rename_i r0 hst
    cases h
    exact absurd (stepTerm_cp (P := fun x => x = r.raftLog.committed) hst ⟨rfl⟩).h hch
  · rename_i r0 hst
    have e0 : r0.raftLog.committed = r.raftLog.committed :=
      (stepTerm_cp (P := fun x => x = r.raftLog.committed) hst ⟨rfl⟩).h
    have nochange : r'.raftLog.committed = r0.raftLog.committed → False :=
      fun hh => hch (hh.trans e0)
    split at h
    · obtain ⟨r2, h2, h⟩ := Res.bind_eq_ok h
      cases h
      exact absurd (hup_cp (P := fun x => x = r0.raftLog.committed) h2 ⟨rfl⟩).h nochange
    · split at h
      · rename_i r2 hv
        cases h
        rcases C04_vote_request_commit_source r0 _ m hv with e2 | ⟨_, hs, ev⟩
        · exact absurd e2 nochange
        · exact ⟨r0, e0, Or.inr ⟨hs, ev⟩⟩
      · cases h
      · cases h
    · split at h
      · rename_i r2 hv
        cases h
        rcases C04_vote_request_commit_source r0 _ m hv with e2 | ⟨_, hs, ev⟩
        · exact absurd e2 nochange
        · exact ⟨r0, e0, Or.inr ⟨hs, ev⟩⟩
      · cases h
      · cases h
    · have cand : r0.state ≠ .leader → r0.stepCandidate m = .ok (r', e) →
          ∃ r1 : Raft, r1.raftLog.committed = r.raftLog.committed ∧
            ((r1.state = .leader ∧ m.msgType = .msgAppendResponse ∧
                ∃ pr1 r2, ({ r1 with prs := r1.prs.set m.frm pr1 } : Raft).maybeCommit = .ok (r2, true) ∧
                  r'.raftLog.committed = r2.raftLog.committed) ∨
             (r1.state ≠ .leader ∧ CommitEvidence r1.raftLog m r'.raftLog.committed)) := by
        intro hs hc
        rcases C04_candidate_commit_sources r0 r' m e hc with e2 | ⟨_, ev | ⟨r1, res, _, e1, hs1, ev⟩⟩
        · exact absurd e2 nochange
        · exact ⟨r0, e0, Or.inr ⟨hs, ev⟩⟩
        · exact ⟨r1, e1.trans e0, Or.inr ⟨hs1, ev⟩⟩
      split at h
      · rename_i hs; exact cand (by rw [hs]; simp) h
      · rename_i hs; exact cand (by rw [hs]; simp) h
      · rename_i hs
        rcases C04_follower_commit_sources r0 r' m e h with e2 | ⟨_, ev⟩
        · exact absurd e2 nochange
        · exact ⟨r0, e0, Or.inr ⟨by rw [hs]; simp, ev⟩⟩
      · rename_i hs
        rcases stepLeader_commit h with e2 | ⟨hm, hh⟩
        · exact absurd e2 nochange
        · exact ⟨r0, e0, Or.inl ⟨hs, hm, hh⟩⟩

/-! ## 4. The heartbeat's commit field -/

/-- `send_heartbeat` (raft.rs:855) queues exactly one `MsgHeartbeat` to `dst`, whose `commit` is
`min(matched(dst), committed)`: the leader never tells a follower to commit beyond what that
follower has acknowledged -/
theorem C04_heartbeat_commit_bounded (r r' : Raft) (dst : Nat) (pr : Progress) (ctx : Option Bytes)
    (h : r.sendHeartbeat dst pr ctx = .ok r') :
    ∃ hb, r'.msgs = r.msgs ++ [hb] ∧ hb.msgType = .msgHeartbeat ∧ hb.to = dst ∧
      hb.commit = min pr.matched r.raftLog.committed ∧ hb.term = r.term ∧
      hb.commit ≤ pr.matched ∧ hb.commit ≤ r.raftLog.committed := by
  unfold Raft.sendHeartbeat at h
  have e := send_eq r r' _ h
  let c0 : Nat := min pr.matched r.raftLog.committed
  let hb0 : Message := { msgType := MsgType.msgHeartbeat, to := dst, commit := c0, context := ctx.getD [] }
  refine ⟨r.sendFill hb0, by rw [e], ?_⟩
  have hf : r.sendFill hb0 = { hb0 with frm := r.id, term := r.term } := by
    simp [Raft.sendFill, isVoteMsg, hb0]
  rw [hf]
  exact ⟨rfl, rfl, rfl, rfl, Nat.min_le_left _ _, Nat.min_le_right _ _⟩

/-- … and a follower that obeys such a heartbeat (`handle_heartbeat`) ends with
`committed = max(old, m.commit)`: it never commits beyond `max(old, matched)` -/
theorem C04_heartbeat_obeyed_bounded (f f' : Raft) (hb : Message) (matched lc : Nat)
    (hc : hb.commit = min matched lc) (h : f.handleHeartbeat hb = .ok f') :
    f'.raftLog.committed = max f.raftLog.committed hb.commit ∧
    f'.raftLog.committed ≤ max f.raftLog.committed matched ∧
    f'.raftLog.committed ≤ max f.raftLog.committed lc := by
  obtain ⟨e, _⟩ := handleHeartbeat_spec h
  refine ⟨e, ?_, ?_⟩ <;> rw [e, hc] <;> omega

/-! ## 5. Non-vacuity: concrete states and messages, evaluated by `decide` -/

/-- three entries of term 2, the first one committed, nothing persisted yet -/
def exLog : RaftLog :=
  { store := {}, unstable := { entries := [{ term := 2, index := 1 }, { term := 2, index := 2 },
                                           { term := 2, index := 3 }], offset := 1 },
    committed := 1, persisted := 0, applied := 0, maxApplyUnpersistedLogLimit := 0 }

def exPrs : ProgressTracker :=
  { conf := { incoming := [1, 2, 3] },
    progress := [(1, { matched := 3, nextIdx := 4, state := .replicate }),
                 (2, { matched := 2, nextIdx := 3, state := .replicate }),
                 (3, { matched := 0, nextIdx := 1 })] }

/-- leader 1 of term 2: itself at 3, peer 2 at 2, peer 3 at 0 -/
def exLeader : Raft := { raftLog := exLog, id := 1, term := 2, state := .leader, prs := exPrs }

/-- the commit index after a computation -/
def committedAfter {α : Type} (f : α → Raft) (x : Res α) : Res Nat :=
  x.bind (fun a => .ok (f a).raftLog.committed)

-- (2) `maybe_commit` fires: index 2 is acknowledged by {1, 2} and carries the current term 2
example : exLeader.prs.maximalCommittedIndex = .ok (2, false) := by decide
example : exLeader.maybeCommit.bind (fun p => .ok (p.2, p.1.raftLog.committed)) = .ok (true, 2) := by
  decide
example : exLeader.raftLog.term 2 = .ok exLeader.term ∧ exLeader.raftLog.committed < 2 := by decide
-- the same acknowledgements in term 3: the entry at 2 is from term 2, nothing is committed
example : ({ exLeader with term := 3 } : Raft).maybeCommit.bind
    (fun p => .ok (p.2, p.1.raftLog.committed)) = .ok (false, 1) := by decide
-- an append response from peer 3 acknowledging index 3 lets the leader commit 3 (through `step`)
example : committedAfter (·.1) (exLeader.step
    { msgType := .msgAppendResponse, frm := 3, term := 2, index := 3 }) = .ok 3 := by decide
-- a heartbeat response does not
example : committedAfter (·.1) (exLeader.step
    { msgType := .msgHeartbeatResponse, frm := 3, term := 2, commit := 3 }) = .ok 1 := by decide

def exFollower : Raft :=
  { raftLog := exLog, id := 3, term := 2, state := .follower, leaderId := 1, prs := exPrs }
def exCandidate : Raft :=
  { raftLog := exLog, id := 3, term := 2, state := .candidate, vote := 3,
    prs := { exPrs with votes := [(3, true)] } }

-- (3) each source, and the same message with the evidence missing
example : committedAfter (·.1) (exFollower.stepFollower
    { msgType := .msgAppend, frm := 1, term := 2, index := 3, logTerm := 2, commit := 2 }) = .ok 2 := by
  decide
example : committedAfter (·.1) (exFollower.stepFollower
    { msgType := .msgAppend, frm := 1, term := 2, index := 3, logTerm := 1, commit := 2 }) = .ok 1 := by
  decide
example : committedAfter (·.1) (exFollower.stepFollower
    { msgType := .msgHeartbeat, frm := 1, term := 2, commit := 3 }) = .ok 3 := by decide
example : committedAfter (·.1) (exFollower.stepFollower
    { msgType := .msgReadIndexResp, frm := 1, term := 2, index := 2, entries := [{}] }) = .ok 2 := by
  decide
example : committedAfter (·.1) (exFollower.stepFollower
    { msgType := .msgReadIndexResp, frm := 1, term := 1, index := 2, entries := [{}] }) = .ok 1 := by
  decide
example : committedAfter (·.1) (exFollower.stepFollower
    { msgType := .msgSnapshot, frm := 1, term := 2,
      snapshot := { metadata := { index := 3, term := 2, confState := { voters := [1, 2, 3] } } } })
    = .ok 3 := by decide
example : committedAfter (·.1) (exFollower.stepFollower
    { msgType := .msgTimeoutNow, frm := 1, term := 2 }) = .ok 1 := by decide
example : committedAfter (·.1) (exCandidate.stepCandidate
    { msgType := .msgRequestVoteResponse, frm := 1, term := 2, reject := true, commit := 2,
      commitTerm := 2 }) = .ok 2 := by decide
example : committedAfter (·.1) (exCandidate.stepCandidate
    { msgType := .msgRequestVoteResponse, frm := 1, term := 2, reject := true, commit := 2,
      commitTerm := 1 }) = .ok 1 := by decide
-- a rejected vote request carries the commit point of the requester
example : committedAfter id (exFollower.stepVote
    { msgType := .msgRequestVote, frm := 2, term := 2, index := 0, logTerm := 0, commit := 2,
      commitTerm := 2 }) = .ok 2 := by decide

-- (4) the heartbeat to peer 3 (matched 0) carries commit 0, the one to peer 2 (matched 2) carries 1
example : (exLeader.sendHeartbeat 3 { matched := 0 } none).bind (fun r => .ok (r.msgs.map (·.commit)))
    = .ok [0] := by decide
example : (exLeader.sendHeartbeat 2 { matched := 2 } none).bind (fun r => .ok (r.msgs.map (·.commit)))
    = .ok [1] := by decide

-- (2b) a leader whose three entries are in stable storage, `persisted = 1`, own `matched = 1`:
-- persisting index 3 (term 2) raises `persisted` and the own `matched` to 3, and index 2 (now
-- acknowledged by {1, 2}) is committed; the same call with the wrong term changes nothing
def exLogStable : RaftLog :=
  { store := { entries := [{ term := 2, index := 1 }, { term := 2, index := 2 },
                           { term := 2, index := 3 }] },
    unstable := { offset := 4 }, committed := 1, persisted := 1, applied := 0,
    maxApplyUnpersistedLogLimit := 0 }
def exLeaderS : Raft :=
  { exLeader with raftLog := exLogStable,
                  prs := { exPrs with progress :=
                    [(1, { matched := 1, nextIdx := 4, state := .replicate }),
                     (2, { matched := 2, nextIdx := 3, state := .replicate }),
                     (3, { matched := 0, nextIdx := 1 })] } }
example : selfMatched exLeaderS = some 1 := by decide
example : (exLeaderS.onPersistEntries 3 2).bind
    (fun r => .ok (selfMatched r, r.raftLog.persisted, r.raftLog.committed)) = .ok (some 3, 3, 2) := by
  decide
example : (exLeaderS.onPersistEntries 3 1).bind
    (fun r => .ok (selfMatched r, r.raftLog.persisted, r.raftLog.committed)) = .ok (some 1, 1, 1) := by
  decide
-- a proposal appends an entry and leaves the own `matched` (and the commit index) alone
example : (exLeaderS.appendEntry [{}]).bind
    (fun p => .ok (p.2, selfMatched p.1, p.1.raftLog.lastIndex, p.1.raftLog.committed))
    = .ok (true, some 1, 4, 1) := by decide

end RaftProps.C04
