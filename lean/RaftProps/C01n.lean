import RaftProofs.ClusterSnap8_B
import RaftProofs.ClusterSnap7J
import RaftProps.C01e
import RaftProps.C01g

/-!
# C01n — joining `batch_append` (C01f / C01k / C01l / C01m) with log compaction (C01e / C01g): the joined
bundle, what is proved for it, and what is missing

Two lines of development prove the commit layer of `ClusterSem` (leader commit rule, Leader
Completeness, commit soundness, State-Machine Safety) and Log Matching:

* with `batch_append` on, off or switched at any time, for histories **without compaction**
  (`ClusterB.Hyp3wL`, `RaftProps/C01m.lean`);
* with log compaction (`Snap.Hyp3w`, `RaftProps/C01g.lean`) and with snapshots between nodes
  (`Snap5.Hyp3r`, `RaftProps/C01j.lean`), for histories **without batching** (field `nb`).

This file introduces the **joined bundle** `Snap7.Hyp3wB` = `Snap.Hyp3w` without `nb`, plus `c0 = 0`
(`RaftProofs/ClusterSnap7A.lean`) and proves, for histories with batching AND compaction:

* `C04_cluster_leader_commit_rule_quorum` — the quorum part of the leader commit rule (statement of
  `RaftProps/C01e.lean`, there under `Snap.Hyp`), **unconditional**;
* `C01n_matched_backed` — every `matched` value of a leader is backed by the leader's own `persisted` or
  by an accepting `MsgAppendResponse` in the transport, **unconditional**;
* `C01n_call_relation`, `C01n_new_appends_above_snapshot_point` — the per-call relation of the batching
  layer (`Raft.PB.PRb`: progress within the log, pending reads below the commit index, anchors of queued
  appends, a queued `MsgSnapshot` stays) for **every** `NodeOp`, `compact` included, **extended by the
  anchoring fact `qf` of C01g** (`Raft.PB.F.PRb`: a `MsgAppend` queued in a call is not anchored below the
  snapshot point) — the per-call layer of the join is complete;
* `C05_cluster_log_matching_batch_compaction_partial` — Log Matching, **conditional** on C05d's
  `SaneAnchors`;
* `C01n_step_gateways_partial`, `C01n_dead_stays_partial` — the cluster-level gateways of the compaction
  stack (`trans_of_cstep`, `call_facts`) re-proved from the batching layer, and the first files of the
  joined stack (`Snap.J`), **conditional** on `SaneAnchors`;
* `C01n_commit_layer_partial` — the reduction to C01g, **conditional** on `NoBatch`;
* `C01n_leader_queue_overtaken_by_compaction` — a kernel-evaluated 32-state history under the joined
  bundle in which a compaction overtakes a queued `MsgAppend` of the (batching) leader: the clean-queue
  invariant `ClusterB.leader_queueB` of C01f is **false** with compaction, so the join is not a scripted
  merge of the two stacks;
* `C01n_subsumes_C01g`, `C01n_subsumes_C01m`, `C01n_prefix_closed` — the bundle contains both lines and
  is closed under prefixes;
* `C01n_cluster_batch_compaction_nonvacuous` — a kernel-evaluated 28-state history under the joined
  bundle in which the leader, with `batch_append = true`, compacts its log and **afterwards**
  `try_batching` glues two proposals onto a queued `MsgAppend`.

**Level reached: below Level 1.**  The remaining statements of C01g part 1 (Leader Completeness,
follower / stored commit soundness, State-Machine Safety, compacted prefix committed, and the
durable-acknowledgement part of the leader commit rule) are NOT proved for the joined bundle; what they
need is listed in `RaftProps/C01n.REPORT.md`.
-/
namespace RaftProps.C01n
open RaftModel RaftModel.Cluster RaftModel.Node RaftModel.Raft RaftModel.Raft.CC
open RaftProps.C02 RaftProps.C05

/-! ## The bundle -/

/-- C01g's bundle (compaction, `NoBatch`) with `c0 = 0` is a special case of the joined bundle -/
theorem C01n_subsumes_C01g (cfg : JointConfig) (h : List Sys) (H : Snap.Hyp3w cfg 0 h) :
    Snap7.Hyp3wB cfg 0 h := Snap7.Hyp3wB.of_hyp3w H

/-- C01m's bundle (batching, no compaction) is a special case of the joined bundle -/
theorem C01n_subsumes_C01m (cfg : JointConfig) (c0 : Nat) (h : List Sys)
    (H : ClusterB.Hyp3wL cfg c0 h) : Snap7.Hyp3wB cfg c0 h := Snap7.Hyp3wB.of_hyp3wL H

/-- the joined bundle is closed under non-empty prefixes (the shape the circle-breaking inductions of
C01f / C01g need) -/
theorem C01n_prefix_closed (cfg : JointConfig) (c0 : Nat) (h : List Sys)
    (H : Snap7.Hyp3wB cfg c0 h) (k : Nat) (hk : 0 < k) : Snap7.Hyp3wB cfg c0 (h.take k) :=
  H.take hk

/-! ## Unconditional results for histories with batching and compaction -/

/-- **C04 `cluster_leader_commit_rule`** (quorum part; the statement of
`RaftProps.C01e.C04_cluster_leader_commit_rule_quorum`) **with compaction and batching** — whenever a
step of a history takes the commit index of a node `l` that is leader of term `t` after the step from
`c` to `c' > c`, the entry at `c'` in its log carries term `t`, and there is a joint quorum `Q` of `cfg`
such that every `j ∈ Q` is `l` itself with `persisted ≥ c'`, or has an accepting `MsgAppendResponse`
for term `t` with `index ≥ c'` in the transport (already before the step). -/
theorem C04_cluster_leader_commit_rule_quorum (cfg : JointConfig) (c0 : Nat) (h : List Sys)
    (H : Snap7.Hyp3wB cfg c0 h)
    (n : Nat) (a b : Sys) (ha : h[n]? = some a) (hb : h[n + 1]? = some b)
    (l : Nat) (sta stb : NState) (hla : a.node l = some sta) (hlb : b.node l = some stb)
    (t : Nat) (hs : stb.raft.state = .leader) (ht : stb.raft.term = t)
    (hc : sta.raft.raftLog.committed < stb.raft.raftLog.committed) :
    stb.raft.raftLog.term stb.raft.raftLog.committed = .ok t ∧
    ∃ Q, IsJointQuorum cfg Q ∧ ∀ j ∈ Q,
      (j = l ∧ stb.raft.raftLog.committed ≤ stb.raft.raftLog.persisted) ∨
      RaftProps.C01e.AckInNet a.net j t stb.raft.raftLog.committed := by
  obtain ⟨h1, Q, hQ, hq⟩ := H.commit_step n a b ha hb l sta stb hla hlb hs hc
  subst ht
  refine ⟨h1, Q, hQ, fun j hj => (hq j hj).imp (fun g => g) (fun g => ?_)⟩
  obtain ⟨x, hx, hack, h2, h3, h4⟩ := g
  exact ⟨x, hx, hack.1, hack.2, h2, h3, h4⟩

/-- **the matched tables are backed by the transport**, with compaction and batching: in every state,
for every leader, every `matched` value is `0`, or the leader's own (`≤ persisted`), or backed by an
accepting `MsgAppendResponse` of the leader's term in the transport (`Cluster.MOKc`) -/
theorem C01n_matched_backed (cfg : JointConfig) (c0 : Nat) (h : List Sys)
    (H : Snap7.Hyp3wB cfg c0 h) (n : Nat) (s : Sys) (hn : h[n]? = some s) : MOKc s :=
  H.mokc n s hn

/-- **the per-call relation of the batching layer, `compact` included, with the anchoring fact of
C01g**: one call of a node (any `NodeOp` but `drain` / `rstep`; `compact k` under the storage contract
`CompactOk`), batching on or off, keeps "progress within the log" (`po`), "pending reads at or below the
commit index" (`rd`), anchors every queued `MsgAppend` at the anchor of an old queued one or inside the
log (`qa`), keeps a queued `MsgSnapshot` queued (`sn`), and — the fact `PR.qf` that C01g added to the
non-batching relation, here for the batching relation (`Raft.PB.F.PRb`, the scripted copy
`RaftProofs/ClusterSnap7D–7G.lean` of `ClusterCommit5P–5S`) — **anchors every `MsgAppend` it queues at or
above the snapshot point the log had when the call started**, unless the message took over the anchor of
an old queued `MsgAppend` (`try_batching`) or a `MsgSnapshot` is queued (`qf`). -/
theorem C01n_call_relation (st st' : NState) (rnd : Option Nat) (op : NodeOp) (res : OpRes)
    (hinv : st.raft.raftLog.Inv)
    (hop : op ≠ .drain ∧ ∀ m, op ≠ .rstep m)
    (hc : ∀ k, op = .compact k → CompactOk st.raft.raftLog k)
    (hsn : st.raft.raftLog.unstable.snapshot = none)
    (hms : ∀ m, op = .step m → m.msgType ≠ .msgSnapshot)
    (hpo : st.raft.state = .leader →
      CP.QSnap st.raft.msgs ∨ CP.PAll st.raft.raftLog.lastIndex st.raft.prs)
    (hrd : st.raft.state = .leader → ∀ p ∈ st.raft.readOnly.pendingReadIndex,
      p.2.index ≤ st.raft.raftLog.committed)
    (hB : ∀ m, op = .step m → st.raft.state = .leader → m.msgType = .msgAppendResponse →
      m.reject = false → (m.term = 0 ∨ m.term = st.raft.term) →
      m.index ≤ st.raft.raftLog.lastIndex)
    (h : Node.call st rnd op = .ok (res, st')) :
    PB.F.PRb st.raft st'.raft ∧ PB.PRb st.raft st'.raft :=
  have g := Snap7.call_prf' st st' rnd op res hinv hop hc hsn hms hpo hrd hB h
  ⟨g, Snap7.prb_of_prf g⟩

/-- the anchoring fact, spelled out -/
theorem C01n_new_appends_above_snapshot_point (st st' : NState) (rnd : Option Nat) (op : NodeOp)
    (res : OpRes) (hinv : st.raft.raftLog.Inv)
    (hop : op ≠ .drain ∧ ∀ m, op ≠ .rstep m)
    (hc : ∀ k, op = .compact k → CompactOk st.raft.raftLog k)
    (hsn : st.raft.raftLog.unstable.snapshot = none)
    (hms : ∀ m, op = .step m → m.msgType ≠ .msgSnapshot)
    (hpo : st.raft.state = .leader →
      CP.QSnap st.raft.msgs ∨ CP.PAll st.raft.raftLog.lastIndex st.raft.prs)
    (hrd : st.raft.state = .leader → ∀ p ∈ st.raft.readOnly.pendingReadIndex,
      p.2.index ≤ st.raft.raftLog.committed)
    (hB : ∀ m, op = .step m → st.raft.state = .leader → m.msgType = .msgAppendResponse →
      m.reject = false → (m.term = 0 ∨ m.term = st.raft.term) →
      m.index ≤ st.raft.raftLog.lastIndex)
    (h : Node.call st rnd op = .ok (res, st'))
    (x : Message) (hx : x ∈ st'.raft.msgs) (hty : x.msgType = .msgAppend) :
    (∃ y ∈ st.raft.msgs, y.msgType = .msgAppend ∧ y.index = x.index ∧ y.logTerm = x.logTerm) ∨
      (∃ y ∈ st'.raft.msgs, y.msgType = .msgSnapshot) ∨
      st.raft.raftLog.firstIndex ≤ x.index + 1 :=
  (Snap7.call_prf' st st' rnd op res hinv hop hc hsn hms hpo hrd hB h).qf x hx hty

/-! ## Conditional results -/

/-- **conditional — Log Matching with batching and compaction** (the statement of
`C05_cluster_log_matching_batch`, C05d, under the joined bundle): *provided* no `MsgAppend` is ever
queued with an anchor in the void (`hsane`: C05d's `SaneAnchors` in every state), two logs of one state
that hold entries of equal term at an index agree at every smaller index both retain.

**Missing**: the derivation of `SaneAnchors` from the joined bundle.  C01f / C01m derive it from the
commit layer for histories without compaction; C01g derives the transport form (`C01g_sane_anchors`)
with compaction but without batching. -/
theorem C05_cluster_log_matching_batch_compaction_partial (cfg : JointConfig) (c0 : Nat)
    (h : List Sys) (H : Snap7.Hyp3wB cfg c0 h) (hsane : ∀ s ∈ h, SaneAnchors s)
    (s : Sys) (hs : s ∈ h) (i j : Nat) (sti stj : NState)
    (hi : s.node i = some sti) (hj : s.node j = some stj)
    (k : Nat) (e e' : Entry) (he : sti.raft.raftLog.abs.entryAt k = some e)
    (he' : stj.raft.raftLog.abs.entryAt k = some e') (ht : e.term = e'.term)
    (k' : Nat) (hk : k' ≤ k) (a b : Entry) (ha : sti.raft.raftLog.abs.entryAt k' = some a)
    (hb' : stj.raft.raftLog.abs.entryAt k' = some b) : a = b :=
  C05_cluster_log_matching_batch cfg H.ne H.nd1 H.nd2 h H.hist H.fix H.init H.csteps
    (.inr ⟨ClusterB.multiVoter_of_nolone H.nolone, hsane⟩) s hs i j sti stj hi hj k e e' he he' ht
    k' hk a b ha hb'

/-- **conditional — the commit layer**: with `NoBatch` in every state the joined bundle is C01g's, so
every theorem of `RaftProps/C01g.lean` applies (here: State-Machine Safety, retained-index form).

**Missing** (to drop `hnb`): see `RaftProps/C01n.REPORT.md` — the Snap stack (`ClusterSnapA–V`,
`3A–3D`) uses `nb` at 21 places, through `cluster_inv`, `kstep_g`, `cstep_nodeRel`, `trans_of_cstep`,
`call_pr'`, `NodeOk.nb` (`call_sto` / `call_q`); the cluster-level batching counterparts exist only over
`Cluster.KStep` / `shape` (no compaction). -/
theorem C01n_commit_layer_partial (cfg : JointConfig) (c0 : Nat) (h : List Sys)
    (H : Snap7.Hyp3wB cfg c0 h) (hnb : ∀ s ∈ h, NoBatch s)
    (m1 : Nat) (s1 : Sys) (hm1 : h[m1]? = some s1) (v1 : Nat) (st1 : NState)
    (hv1 : s1.node v1 = some st1)
    (m2 : Nat) (s2 : Sys) (hm2 : h[m2]? = some s2) (v2 : Nat) (st2 : NState)
    (hv2 : s2.node v2 = some st2)
    (k : Nat) (hk1 : k ≤ st1.raft.raftLog.committed) (hk2 : k ≤ st2.raft.raftLog.committed)
    (hr1 : st1.raft.raftLog.abs.snapIdx < k) (hr2 : st2.raft.raftLog.abs.snapIdx < k) :
    st1.raft.raftLog.abs.entryAt k = st2.raft.raftLog.abs.entryAt k :=
  RaftProps.C01g.C01_cluster_state_machine_safety cfg c0 h (H.toHyp3w_partial hnb) m1 s1 hm1 v1 st1
    hv1 m2 s2 hm2 v2 st2 hv2 k hk1 hk2 hr1 hr2

/-- **conditional — the Log-Matching transition of every step, and what the node-level layers say about
a `call` / `deliver` step, with batching and compaction** (the gateways `Snap.trans_of_cstep`,
`Snap.call_facts` of the compaction stack, re-proved without `nb` from the batching layer of C01f:
`RaftProofs/ClusterSnap7I.lean`), *provided* `SaneAnchors` holds in every state.  **Missing**: as for
`C05_cluster_log_matching_batch_compaction_partial`. -/
theorem C01n_step_gateways_partial (cfg : JointConfig) (c0 : Nat) (h : List Sys)
    (H : Snap7.Hyp3wB cfg c0 h) (hsane : ∀ s ∈ h, SaneAnchors s)
    (n : Nat) (a b : Sys) (ha : h[n]? = some a) (hb : h[n + 1]? = some b) :
    (∃ k st st' pers crash, Trans a b k st st' pers crash) ∧
    (∀ (i : Nat) (st st' : NState) (rnd : Option Nat) (op : NodeOp) (res : OpRes),
      a.node i = some st → b.node i = some st' → b.net = a.net →
      (appOp op = true ∨ ∃ m, op = .step m ∧ m ∈ a.net ∧ m.to = i) →
      (∀ j, op = .compact j → CompactOk st.raft.raftLog j) →
      Node.call st rnd op = .ok (res, st') →
      CB.Gb (Anet a.net) st.raft (CV.opMsg op) st'.raft ∧
        Bt.LStepB st.raft st'.raft (CV.opMsg op) ∧ Snap.LogRel' st st' op ∧ st.raft.id = i) :=
  ⟨Snap7.trans_of_cstepS H hsane ha hb,
    fun _ _ _ _ _ _ hi hi' hnet hop hc hcall =>
      Snap7.call_factsS H hsane ha hb hi hi' hnet hop hc hcall⟩

/-- **conditional — the start of the joined stack** (`RaftProofs/ClusterSnap8_A/A2/B.lean`, the scripted
copy of `ClusterSnapA/B` over bundles with `mv` + `sane` in place of `nb`): under the joined bundle and
`SaneAnchors`, "a term is led in one stretch" holds with batching and compaction — once the node that
leads term `t` is no longer its leader (`Dead`), it stays so.  **Missing**: the files `C … S`, `3A–3C` of
the stack (see the report). -/
theorem C01n_dead_stays_partial (cfg : JointConfig) (c0 : Nat) (h : List Sys)
    (H : Snap7.Hyp3wB cfg c0 h) (hsane : ∀ s ∈ h, SaneAnchors s)
    (n : Nat) (a b : Sys) (ha : h[n]? = some a) (hb : h[n + 1]? = some b) (l t : Nat)
    (hd : Dead a l t) : Dead b l t :=
  Snap.J.Dead.step
    (cfg := cfg) (c0 := c0) (h := h)
    { hist := H.hist, fix := H.fix, ne := H.ne, nd1 := H.nd1, nd2 := H.nd2, init := H.init,
      steps := H.steps, mv := ClusterB.multiVoter_of_nolone H.nolone, sane := hsane,
      nosnap := H.nosnap, nolone := H.nolone, nopend := H.nopend, first0 := H.first0,
      initc := H.initc } ha hb hd

/-! ## Non-vacuity -/

section Examples
open RaftModel.ClusterB RaftModel.Cluster.Snap7

set_option maxRecDepth 100000 in
/-- **non-vacuity with batching on AND a real compaction** (kernel-evaluated,
`RaftProofs/ClusterSnap7C.lean`): there is a history of `ClusterSem` that satisfies the joined bundle
(voters `{1, 2, 3}`, `c0 = 0`) and not `NoBatch`, in which

1. the application of node 1 — leader, `batch_append = true`, commit index 3 — calls `compact 2`: its
   snapshot point moves from 0 to 1 and the term of the snapshot point is forgotten, and
2. **after the compaction** a proposal at node 1 replaces the queued `MsgAppend` `y` (anchored at
   index 3, above the new snapshot point) by `{ y with entries := y.entries ++ es, commit := c }` with
   `es ≠ []` (`try_batching`). -/
theorem C01n_cluster_batch_compaction_nonvacuous :
    ∃ h : List Sys, Snap7.Hyp3wB c02x_cfg 0 h ∧ ¬ (∀ s ∈ h, NoBatch s) ∧
      (∃ (n : Nat) (a b : Sys) (sta stb : NState),
        h[n]? = some a ∧ h[n + 1]? = some b ∧ a.node 1 = some sta ∧ b.node 1 = some stb ∧
        Node.call sta none (.compact 2) = .ok (.ok, stb) ∧
        stb.raft.state = .leader ∧ stb.raft.batchAppend = true ∧ stb.raft.raftLog.committed = 3 ∧
        sta.raft.raftLog.abs.snapIdx = 0 ∧ stb.raft.raftLog.abs.snapIdx = 1 ∧
        stb.raft.raftLog.abs.snapTerm = none) ∧
      ∃ (n : Nat) (a b : Sys) (sta stb : NState) (y x : Message) (es : List Entry) (c : Nat),
        h[n]? = some a ∧ h[n + 1]? = some b ∧ a.node 1 = some sta ∧ b.node 1 = some stb ∧
        sta.raft.raftLog.abs.snapIdx = 1 ∧
        y ∈ sta.raft.msgs ∧ x ∈ stb.raft.msgs ∧ y.msgType = .msgAppend ∧ y.index = 3 ∧ es ≠ [] ∧
        x = { y with entries := y.entries ++ es, commit := c } := by
  refine ⟨nx_hist, nx_hyp3wB, ?_, ?_, ?_⟩
  · intro hnb
    have := hnb nx_s25 (by simp [nx_hist, nx_tail]) 1 nx_a16 rfl
    revert this
    decide
  · exact ⟨24, c01w_s24, nx_s25, c01w_a15, nx_a16, rfl, rfl, rfl, rfl,
      Snap.c02x_out' _ (by decide), by decide, by decide, by decide, by decide, by decide,
      by decide⟩
  · exact ⟨26, nx_s26, nx_s27, nx_a17, nx_a18, nx_a17.raft.msgs.head!, nx_a18.raft.msgs.head!,
      nx_a18.raft.msgs.head!.entries.drop 1, 3, rfl, rfl, rfl, rfl, by decide,
      c02x_head_mem _ (by decide), c02x_head_mem _ (by decide), by decide, by decide, by decide,
      by decide⟩

set_option maxRecDepth 100000 in
/-- **the clean-queue invariant of the batching layer fails once compaction is allowed** (kernel-evaluated,
`RaftProofs/ClusterSnap7J.lean`): there is a history under the joined bundle in which the leader — with
`batch_append = true` — holds a queued `MsgAppend` (anchor 0, entry 1) that is **not** a sub-log of its
log, because a compaction (snapshot point 2) overtook the queued message.  `ClusterB.leader_queueB` /
`C01f_leader_queue_clean` conclude `SubW x log` for every queued `MsgAppend` of a leader, and C01f's
`append_prov` records exactly that for a message `try_batching` glued onto: the join needs these
invariants restated over the uncompacted ghost logs (`Snap.FL`). -/
theorem C01n_leader_queue_overtaken_by_compaction :
    ∃ h : List Sys, Snap7.Hyp3wB c02x_cfg 0 h ∧
      ∃ (n : Nat) (s : Sys) (st : NState) (x : Message),
        h[n]? = some s ∧ s.node 1 = some st ∧ st.raft.state = .leader ∧
        st.raft.batchAppend = true ∧ st.raft.raftLog.abs.snapIdx = 2 ∧
        x ∈ st.raft.msgs ∧ x.msgType = .msgAppend ∧ x.index = 0 ∧
        ¬ SubW x st.raft.raftLog.abs :=
  ⟨sx_hist, sx_hyp3wB, 31, sx_s31, sx_a19, sx_app, rfl, rfl, sx_not_sub.2.2.1, sx_not_sub.2.2.2.1,
    sx_not_sub.2.2.2.2.1, sx_not_sub.1, sx_not_sub.2.1, sx_not_sub.2.2.2.2.2.1,
    sx_not_sub.2.2.2.2.2.2⟩

/-- … and the unconditional theorem applies to it: the commit rule at any step of that history -/
example (n : Nat) (a b : Sys) (ha : nx_hist[n]? = some a) (hb : nx_hist[n + 1]? = some b)
    (l : Nat) (sta stb : NState) (hla : a.node l = some sta) (hlb : b.node l = some stb)
    (hs : stb.raft.state = .leader)
    (hc : sta.raft.raftLog.committed < stb.raft.raftLog.committed) :
    stb.raft.raftLog.term stb.raft.raftLog.committed = .ok stb.raft.term :=
  (C04_cluster_leader_commit_rule_quorum c02x_cfg 0 nx_hist nx_hyp3wB n a b ha hb l sta stb hla hlb
    stb.raft.term hs rfl hc).1

end Examples

end RaftProps.C01n
