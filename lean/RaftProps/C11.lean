import RaftProofs.Quorum

/-!
# C11 — quorum arithmetic: commit index and vote tallies are exact

Property theorems only (helper lemmas live in `RaftProofs/Quorum.lean`).  The model
`RaftModel.Majority / Joint / Tracker` mirrors `src/quorum/majority.rs`, `src/quorum/joint.rs`,
`src/util.rs:majority` and the quorum wrappers of `src/tracker.rs` function by function.

A voter set is a `List Nat` in ARBITRARY order (the Rust code iterates a `HashSet`); all theorems
hold for voter lists of any length, and the counting ones need no duplicate-freeness at all
(`ackCount`/`yesCount` count list positions; on a duplicate-free list — what a `HashSet` yields —
that is the number of voters, see `ackCount_eq_card`).  The acknowledgement map `ack` is any
function `id ↦ Option (index, group)`; a missing entry counts as index 0 / group 0, exactly like
`unwrap_or_default` in the code.

Specification vocabulary (`RaftProofs/Quorum.lean`): `ackIdx ack v`, `ackGrp ack v`,
`ackCount vs ack i = #{v ∈ vs | i ≤ ackIdx ack v}`, `QuorumAcked vs ack i ↔ majority |vs| ≤ ackCount vs ack i`,
`JointQuorumAcked` (each non-empty half), `TwoGroups vs ack i` (voters with `ackIdx ≥ i` span two
distinct non-zero groups), `yesCount`, `missingCount`, `IsQuorum vs A`, `IsJointQuorum c A`.
-/
namespace RaftProps.C11
open RaftModel List

/-! ### no panic: the index/unwrap sites of `committed_index` are unreachable, for every input -/

theorem committedIndex_never_panics (vs : List Nat) (ack : Nat → Option Index) (gc : Bool) :
    Majority.committedIndexR vs ack gc = .ok (Majority.committedIndex vs ack gc) :=
  Majority.committedIndexR_eq vs ack gc

theorem joint_committedIndex_never_panics (c : JointConfig) (ack : Nat → Option Index) (gc : Bool) :
    Joint.committedIndexR c ack gc = .ok (Joint.committedIndex c ack gc) := by
  simp only [Joint.committedIndexR, Joint.committedIndex, Majority.committedIndexR_eq]

/-- `majority n` is the least number of voters such that two such groups must overlap -/
theorem majority_exact (n : Nat) :
    n < majority n + majority n ∧ (majority n - 1) + (majority n - 1) ≤ n ∧
    (0 < n → majority n ≤ n) := by
  refine ⟨two_majorities n, ?_, majority_le n⟩
  simp only [majority]; omega

theorem ackCount_eq_card (vs : List Nat) (ack : Nat → Option Index) (i : Nat) :
    ackCount vs ack i = (vs.filter (fun v => decide (i ≤ ackIdx ack v))).length :=
  countP_eq_length_filter

/-! ### the commit index of a majority configuration -/

/-- an empty configuration reports "+∞, group-commit ok", so that a half-populated joint
configuration behaves like its other half -/
theorem committedIndex_empty (ack : Nat → Option Index) (gc : Bool) :
    Majority.committedIndex [] ack gc = (U64_MAX, true) := by
  simp [Majority.committedIndex]

/-- **The computed commit index is the largest index acknowledged by a majority**: a majority
acknowledged `r`, and no larger index is acknowledged by a majority.  (Also: `r` is the
acknowledged index of some voter, and the group-commit flag is `false`.) -/
theorem committedIndex_is_max_quorum_acked (vs : List Nat) (ack : Nat → Option Index)
    (hne : vs ≠ []) :
    let r := (Majority.committedIndex vs ack false).1
    majority vs.length ≤ ackCount vs ack r ∧
    (∀ i, r < i → ackCount vs ack i < majority vs.length) ∧
    (∃ v ∈ vs, ackIdx ack v = r) ∧
    (Majority.committedIndex vs ack false).2 = false := by
  intro r
  obtain ⟨h1, h2, h3, h4⟩ := Majority.quorumIndex_spec vs ack hne
  refine ⟨h1, ?_, h3, h4⟩
  intro i hi
  have := h2 i hi
  simp only [QuorumAcked] at this
  omega

/-- the characterisation determines the value: any `r` with these two properties is the result -/
theorem committedIndex_unique (vs : List Nat) (ack : Nat → Option Index) (hne : vs ≠ []) (r : Nat)
    (h1 : majority vs.length ≤ ackCount vs ack r)
    (h2 : ∀ i, r < i → ackCount vs ack i < majority vs.length) :
    (Majority.committedIndex vs ack false).1 = r := by
  obtain ⟨g1, g2, _, _⟩ := Majority.quorumIndex_spec vs ack hne
  apply Majority.quorumIndex_unique vs ack _ _ g1 g2 h1
  intro i hi hq
  have := h2 i hi
  simp only [QuorumAcked] at hq
  omega

/-- **What group commit computes**, in terms of the voter *set* only.  With `q` the plain quorum
index and `r` the group-commit result:
* if the voters span two distinct non-zero groups at all, `r` is the largest index `≤ q` such that
  the voters with acknowledged index `≥ r` span two groups, flag `true`;
* otherwise, if every voter has a (non-zero) group — i.e. all are in ONE group — `r = q`, flag `false`;
* otherwise (some voter has no group, the others at most one group) `r` is the smallest
  acknowledged index (what is replicated on every voter), flag `false`. -/
theorem groupCommit_spec (vs : List Nat) (ack : Nat → Option Index) (hne : vs ≠ []) :
    let q := (Majority.committedIndex vs ack false).1
    let r := Majority.committedIndex vs ack true
    (TwoGroups vs ack 0 → r.2 = true ∧ r.1 ≤ q ∧ TwoGroups vs ack r.1 ∧
      ∀ i, r.1 < i → i ≤ q → ¬ TwoGroups vs ack i) ∧
    (¬ TwoGroups vs ack 0 → (∀ v ∈ vs, ackGrp ack v ≠ 0) → r = (q, false)) ∧
    (¬ TwoGroups vs ack 0 → (∃ v ∈ vs, ackGrp ack v = 0) →
      r.2 = false ∧ (∃ v ∈ vs, ackIdx ack v = r.1) ∧ ∀ w ∈ vs, r.1 ≤ ackIdx ack w) :=
  Majority.groupCommit_spec vs ack hne

/-- with group commit the result never exceeds the plain quorum index (every configuration, every
group assignment, empty configuration included) -/
theorem groupCommit_le_quorum (vs : List Nat) (ack : Nat → Option Index) :
    (Majority.committedIndex vs ack true).1 ≤ (Majority.committedIndex vs ack false).1 := by
  by_cases hne : vs = []
  · subst hne; simp [Majority.committedIndex]
  obtain ⟨s1, s2, s3⟩ := Majority.groupCommit_spec vs ack hne
  obtain ⟨_, _, ⟨u, hu, hq⟩, _⟩ := Majority.quorumIndex_spec vs ack hne
  by_cases ht : TwoGroups vs ack 0
  · exact (s1 ht).2.1
  · by_cases hall : ∀ v ∈ vs, ackGrp ack v ≠ 0
    · rw [s2 ht hall]; exact Nat.le_refl _
    · have hex : ∃ v ∈ vs, ackGrp ack v = 0 := by
        apply Classical.byContradiction
        intro hno
        apply hall
        intro v hv hz
        exact hno ⟨v, hv, hz⟩
      have := (s3 ht hex).2.2 u hu
      omega

/-- **every voter has a group**: the result is the plain quorum index with flag `false` when all
voters are in one group; otherwise it is the largest index `≤` the quorum index such that the voters
that acknowledged at least it span two groups, with flag `true`. -/
theorem groupCommit_all_grouped (vs : List Nat) (ack : Nat → Option Index) (hne : vs ≠ [])
    (hall : ∀ v ∈ vs, ackGrp ack v ≠ 0) :
    let q := (Majority.committedIndex vs ack false).1
    let r := Majority.committedIndex vs ack true
    ((∀ v ∈ vs, ∀ w ∈ vs, ackGrp ack v = ackGrp ack w) → r = (q, false)) ∧
    ((∃ v ∈ vs, ∃ w ∈ vs, ackGrp ack v ≠ ackGrp ack w) →
      r.2 = true ∧ r.1 ≤ q ∧ TwoGroups vs ack r.1 ∧
      ∀ i, r.1 < i → i ≤ q → ¬ TwoGroups vs ack i) := by
  intro q r
  obtain ⟨s1, s2, _⟩ := Majority.groupCommit_spec vs ack hne
  refine ⟨?_, ?_⟩
  · intro hone
    apply s2 _ hall
    rintro ⟨v, hv, w, hw, _, _, _, _, hne'⟩
    exact hne' (hone v hv w hw)
  · rintro ⟨v, hv, w, hw, hvw⟩
    exact s1 ⟨v, hv, w, hw, Nat.zero_le _, Nat.zero_le _, hall v hv, hall w hw, hvw⟩

/-- group commit switched on but no voter has a group: the result is the smallest acknowledged
index, flag `false` -/
theorem groupCommit_no_groups (vs : List Nat) (ack : Nat → Option Index) (hne : vs ≠ [])
    (hnone : ∀ v ∈ vs, ackGrp ack v = 0) :
    let r := Majority.committedIndex vs ack true
    r.2 = false ∧ (∃ v ∈ vs, ackIdx ack v = r.1) ∧ ∀ w ∈ vs, r.1 ≤ ackIdx ack w := by
  intro r
  obtain ⟨_, _, s3⟩ := Majority.groupCommit_spec vs ack hne
  obtain ⟨v, hv⟩ := exists_mem_of_ne_nil vs hne
  apply s3
  · rintro ⟨a, ha, _, _, _, _, hz, _⟩
    exact hz (hnone a ha)
  · exact ⟨v, hv, hnone v hv⟩

/-- **Iteration order is irrelevant** (the Rust code iterates a hash set and then uses a stable sort
that compares indexes only, so ties keep hash order; the group-commit scan reads groups in that
order): the result — index AND flag, with and without group commit — is the same for every
permutation of the voter list. -/
theorem committedIndex_perm (vs vs' : List Nat) (h : vs ~ vs') (ack : Nat → Option Index)
    (gc : Bool) : Majority.committedIndex vs ack gc = Majority.committedIndex vs' ack gc := by
  by_cases hne : vs = []
  · subst hne
    have : vs' = [] := by simpa using h.symm.eq_nil
    subst this; rfl
  have hne' : vs' ≠ [] := fun e => hne (by subst e; exact h.eq_nil)
  obtain ⟨a1, a2, a3, a4⟩ := Majority.quorumIndex_spec vs ack hne
  obtain ⟨b1, b2, b3, b4⟩ := Majority.quorumIndex_spec vs' ack hne'
  have hq : (Majority.committedIndex vs ack false).1 = (Majority.committedIndex vs' ack false).1 :=
    Majority.quorumIndex_unique vs ack _ _ a1 a2 ((Majority.QuorumAcked.perm h).2 b1)
      (fun i hi hc => b2 i hi ((Majority.QuorumAcked.perm h).1 hc))
  cases gc with
  | false => exact Prod.ext hq (by rw [a4, b4])
  | true =>
    obtain ⟨s1, s2, s3⟩ := Majority.groupCommit_spec vs ack hne
    obtain ⟨t1, t2, t3⟩ := Majority.groupCommit_spec vs' ack hne'
    by_cases ht : TwoGroups vs ack 0
    · obtain ⟨sf, sle, stg, smax⟩ := s1 ht
      obtain ⟨tf, tle, ttg, tmax⟩ := t1 (ht.perm h)
      apply Prod.ext _ (by rw [sf, tf])
      rcases Nat.lt_trichotomy (Majority.committedIndex vs ack true).1
          (Majority.committedIndex vs' ack true).1 with hlt | heq | hgt
      · exact absurd (ttg.perm h.symm) (smax _ hlt (by omega))
      · exact heq
      · exact absurd (stg.perm h) (tmax _ hgt (by omega))
    · have ht' : ¬ TwoGroups vs' ack 0 := fun t => ht (t.perm h.symm)
      by_cases hall : ∀ v ∈ vs, ackGrp ack v ≠ 0
      · rw [s2 ht hall, t2 ht' (fun v hv => hall v (h.mem_iff.2 hv)), hq]
      · have hex : ∃ v ∈ vs, ackGrp ack v = 0 := by
          apply Classical.byContradiction
          intro hno
          exact hall (fun v hv hz => hno ⟨v, hv, hz⟩)
        obtain ⟨v, hv, hz⟩ := hex
        obtain ⟨sf, ⟨u, hu, hue⟩, smin⟩ := s3 ht ⟨v, hv, hz⟩
        obtain ⟨tf, ⟨w, hw, hwe⟩, tmin⟩ := t3 ht' ⟨v, h.mem_iff.1 hv, hz⟩
        apply Prod.ext _ (by rw [sf, tf])
        have := smin w (h.mem_iff.2 hw)
        have := tmin u (h.mem_iff.1 hu)
        omega

/-! ### the commit index of a joint configuration -/

theorem joint_committedIndex_empty (ack : Nat → Option Index) (gc : Bool) :
    Joint.committedIndex ⟨[], []⟩ ack gc = (U64_MAX, true) := by
  simp [Joint.committedIndex, Majority.committedIndex]

/-- **The joint result is the largest index acknowledged by a majority of each non-empty half**
(`hb`: acknowledged indexes are u64 values — needed only because the empty half reports
`u64::MAX` as "+∞"). -/
theorem joint_committedIndex (c : JointConfig) (ack : Nat → Option Index)
    (hne : c.incoming ≠ [] ∨ c.outgoing ≠ [])
    (hb : ∀ v, (v ∈ c.incoming ∨ v ∈ c.outgoing) → ackIdx ack v ≤ U64_MAX) :
    let r := (Joint.committedIndex c ack false).1
    JointQuorumAcked c ack r ∧ (∀ i, r < i → ¬ JointQuorumAcked c ack i) ∧
    (Joint.committedIndex c ack false).2 = false := by
  intro r
  have hr : r = min (Majority.committedIndex c.incoming ack false).1
      (Majority.committedIndex c.outgoing ack false).1 := rfl
  have hflag : (Joint.committedIndex c ack false).2 =
      ((Majority.committedIndex c.incoming ack false).2 &&
       (Majority.committedIndex c.outgoing ack false).2) := rfl
  have mono : ∀ vs : List Nat, vs ≠ [] → r ≤ (Majority.committedIndex vs ack false).1 →
      QuorumAcked vs ack r := by
    intro vs hvs hle
    have := (Majority.quorumIndex_spec vs ack hvs).1
    simp only [QuorumAcked] at this ⊢
    have := ackCount_anti vs ack hle
    omega
  by_cases hi : c.incoming = []
  · have ho : c.outgoing ≠ [] := by rcases hne with h | h; exact absurd hi h; exact h
    obtain ⟨_, o2, ⟨u, hu, hue⟩, o4⟩ := Majority.quorumIndex_spec c.outgoing ack ho
    have hle : (Majority.committedIndex c.outgoing ack false).1 ≤ U64_MAX := by
      rw [← hue]; exact hb u (Or.inr hu)
    have hr' : r = (Majority.committedIndex c.outgoing ack false).1 := by
      rw [hr, hi, committedIndex_empty]; exact Nat.min_eq_right hle
    refine ⟨⟨fun h => absurd hi h, fun _ => mono _ ho (by omega)⟩, ?_, ?_⟩
    · intro i hlt hq
      exact o2 i (by omega) (hq.2 ho)
    · rw [hflag, o4]; simp
  · obtain ⟨_, i2, ⟨u, hu, hue⟩, i4⟩ := Majority.quorumIndex_spec c.incoming ack hi
    by_cases ho : c.outgoing = []
    · have hle : (Majority.committedIndex c.incoming ack false).1 ≤ U64_MAX := by
        rw [← hue]; exact hb u (Or.inl hu)
      have hr' : r = (Majority.committedIndex c.incoming ack false).1 := by
        rw [hr, ho, committedIndex_empty]; exact Nat.min_eq_left hle
      refine ⟨⟨fun _ => mono _ hi (by omega), fun h => absurd ho h⟩, ?_, ?_⟩
      · intro i hlt hq
        exact i2 i (by omega) (hq.1 hi)
      · rw [hflag, i4]; simp
    · obtain ⟨_, o2, _, _⟩ := Majority.quorumIndex_spec c.outgoing ack ho
      refine ⟨⟨fun _ => mono _ hi (by rw [hr]; exact Nat.min_le_left _ _),
               fun _ => mono _ ho (by rw [hr]; exact Nat.min_le_right _ _)⟩, ?_, ?_⟩
      · intro i hlt hq
        rw [hr] at hlt
        rcases Nat.le_total (Majority.committedIndex c.incoming ack false).1
            (Majority.committedIndex c.outgoing ack false).1 with h | h
        · rw [Nat.min_eq_left h] at hlt; exact i2 i hlt (hq.1 hi)
        · rw [Nat.min_eq_right h] at hlt; exact o2 i hlt (hq.2 ho)
      · rw [hflag, i4]; simp

/-- the joint result does not depend on the iteration order of either half, nor on which half is
called incoming -/
theorem joint_committedIndex_perm (c c' : JointConfig) (hi : c.incoming ~ c'.incoming)
    (ho : c.outgoing ~ c'.outgoing) (ack : Nat → Option Index) (gc : Bool) :
    Joint.committedIndex c ack gc = Joint.committedIndex c' ack gc := by
  simp only [Joint.committedIndex, committedIndex_perm _ _ hi, committedIndex_perm _ _ ho]

theorem joint_committedIndex_symm (i o : List Nat) (ack : Nat → Option Index) (gc : Bool) :
    Joint.committedIndex ⟨i, o⟩ ack gc = Joint.committedIndex ⟨o, i⟩ ack gc := by
  simp only [Joint.committedIndex, Nat.min_comm, Bool.and_comm]

/-- with group commit the joint result never exceeds the plain joint quorum index -/
theorem joint_groupCommit_le_quorum (c : JointConfig) (ack : Nat → Option Index) :
    (Joint.committedIndex c ack true).1 ≤ (Joint.committedIndex c ack false).1 := by
  have h1 := groupCommit_le_quorum c.incoming ack
  have h2 := groupCommit_le_quorum c.outgoing ack
  simp only [Joint.committedIndex]
  exact Nat.le_min.2 ⟨Nat.le_trans (Nat.min_le_left _ _) h1, Nat.le_trans (Nat.min_le_right _ _) h2⟩

/-- `ProgressTracker::maximal_committed_index` is the joint computation over the progress map -/
theorem maximalCommittedIndex_eq (c : JointConfig) (progress : List (Nat × Index)) (gc : Bool) :
    Tracker.maximalCommittedIndex c progress gc =
      Joint.committedIndex c (fun id => progress.lookup id) gc := rfl

/-! ### vote tallies -/

/-- **won exactly when a majority granted** (or the configuration is empty) -/
theorem voteResult_won_iff (vs : List Nat) (check : Nat → Option Bool) :
    Majority.voteResult vs check = .won ↔ vs = [] ∨ majority vs.length ≤ yesCount vs check := by
  rw [Majority.voteResult_eq]
  by_cases h0 : vs = []
  · simp [h0]
  · by_cases h1 : majority vs.length ≤ yesCount vs check
    · simp [h0, h1]
    · by_cases h2 : majority vs.length ≤ yesCount vs check + missingCount vs check <;>
        simp [h0, h1, h2]

/-- **lost exactly when a majority can no longer be reached**: even if every voter that has not
answered yet granted, the grants would stay below a majority -/
theorem voteResult_lost_iff (vs : List Nat) (check : Nat → Option Bool) :
    Majority.voteResult vs check = .lost ↔
      vs ≠ [] ∧ yesCount vs check + missingCount vs check < majority vs.length := by
  rw [Majority.voteResult_eq]
  by_cases h0 : vs = []
  · simp [h0]
  · by_cases h1 : majority vs.length ≤ yesCount vs check
    · simp [h0, h1]; omega
    · by_cases h2 : majority vs.length ≤ yesCount vs check + missingCount vs check
      · simp [h0, h1, h2]
      · simp [h0, h1, h2]; omega

/-- **pending otherwise** -/
theorem voteResult_pending_iff (vs : List Nat) (check : Nat → Option Bool) :
    Majority.voteResult vs check = .pending ↔
      vs ≠ [] ∧ yesCount vs check < majority vs.length ∧
      majority vs.length ≤ yesCount vs check + missingCount vs check := by
  rw [Majority.voteResult_eq]
  by_cases h0 : vs = []
  · simp [h0]
  · by_cases h1 : majority vs.length ≤ yesCount vs check
    · simp [h0, h1]; omega
    · by_cases h2 : majority vs.length ≤ yesCount vs check + missingCount vs check
      · simp [h0, h1, h2]; omega
      · simp [h0, h1, h2]

/-- the vote result does not depend on iteration order -/
theorem voteResult_perm (vs vs' : List Nat) (h : vs ~ vs') (check : Nat → Option Bool) :
    Majority.voteResult vs check = Majority.voteResult vs' check := by
  have hnil : vs = [] ↔ vs' = [] :=
    ⟨fun e => by subst e; simpa using h.symm.eq_nil, fun e => by subst e; exact h.eq_nil⟩
  by_cases h0 : vs = []
  · rw [Majority.voteResult_eq, Majority.voteResult_eq, if_pos h0, if_pos (hnil.1 h0)]
  · rw [Majority.voteResult_eq, Majority.voteResult_eq, if_neg h0, if_neg (fun e => h0 (hnil.2 e))]
    have e1 : yesCount vs check = yesCount vs' check := h.countP_eq _
    have e2 : missingCount vs check = missingCount vs' check := h.countP_eq _
    rw [e1, e2, h.length_eq]

/-- the joint table: won in both halves -/
theorem joint_voteResult_won_iff (c : JointConfig) (check : Nat → Option Bool) :
    Joint.voteResult c check = .won ↔
      Majority.voteResult c.incoming check = .won ∧ Majority.voteResult c.outgoing check = .won := by
  cases h1 : Majority.voteResult c.incoming check <;>
    cases h2 : Majority.voteResult c.outgoing check <;> simp [Joint.voteResult, h1, h2]

/-- … lost in either half -/
theorem joint_voteResult_lost_iff (c : JointConfig) (check : Nat → Option Bool) :
    Joint.voteResult c check = .lost ↔
      Majority.voteResult c.incoming check = .lost ∨ Majority.voteResult c.outgoing check = .lost := by
  cases h1 : Majority.voteResult c.incoming check <;>
    cases h2 : Majority.voteResult c.outgoing check <;> simp [Joint.voteResult, h1, h2]

/-- … pending otherwise -/
theorem joint_voteResult_pending_iff (c : JointConfig) (check : Nat → Option Bool) :
    Joint.voteResult c check = .pending ↔
      ¬ (Majority.voteResult c.incoming check = .won ∧ Majority.voteResult c.outgoing check = .won) ∧
      ¬ (Majority.voteResult c.incoming check = .lost ∨ Majority.voteResult c.outgoing check = .lost) := by
  cases h1 : Majority.voteResult c.incoming check <;>
    cases h2 : Majority.voteResult c.outgoing check <;> simp [Joint.voteResult, h1, h2]

/-- the joint table spelled out in counts: won exactly when a majority of each non-empty half
granted; lost exactly when some non-empty half can no longer reach a majority -/
theorem joint_voteResult_counts (c : JointConfig) (check : Nat → Option Bool) :
    (Joint.voteResult c check = .won ↔
      (c.incoming = [] ∨ majority c.incoming.length ≤ yesCount c.incoming check) ∧
      (c.outgoing = [] ∨ majority c.outgoing.length ≤ yesCount c.outgoing check)) ∧
    (Joint.voteResult c check = .lost ↔
      (c.incoming ≠ [] ∧ yesCount c.incoming check + missingCount c.incoming check
          < majority c.incoming.length) ∨
      (c.outgoing ≠ [] ∧ yesCount c.outgoing check + missingCount c.outgoing check
          < majority c.outgoing.length)) := by
  rw [joint_voteResult_won_iff, joint_voteResult_lost_iff, voteResult_won_iff, voteResult_won_iff,
    voteResult_lost_iff, voteResult_lost_iff]
  exact ⟨Iff.rfl, Iff.rfl⟩

/-- `has_quorum(S)` is true exactly when `S` contains a majority of each non-empty half -/
theorem hasQuorum_iff (c : JointConfig) (S : List Nat) :
    Tracker.hasQuorum c S = true ↔ IsJointQuorum c S := by
  have hy : ∀ vs : List Nat,
      yesCount vs (fun id => if S.contains id then some true else none) =
        vs.countP (fun v => decide (v ∈ S)) := by
    intro vs
    apply countP_congr
    intro v _
    by_cases hv : v ∈ S <;> simp [hv]
  simp only [Tracker.hasQuorum, beq_iff_eq, joint_voteResult_won_iff, voteResult_won_iff, hy,
    IsJointQuorum, IsQuorum]
  constructor
  · rintro ⟨h1, h2⟩
    exact ⟨fun hn => h1.resolve_left hn, fun hn => h2.resolve_left hn⟩
  · rintro ⟨h1, h2⟩
    refine ⟨?_, ?_⟩
    · by_cases h : c.incoming = []
      · exact Or.inl h
      · exact Or.inr (h1 h)
    · by_cases h : c.outgoing = []
      · exact Or.inl h
      · exact Or.inr (h2 h)

/-- `tally_votes`: the result is the joint vote result over the recorded votes; the two counters
count recorded votes of configuration members only -/
theorem tallyVotes_spec (c : JointConfig) (votes : List (Nat × Bool)) :
    (Tracker.tallyVotes c votes).2.2 = Joint.voteResult c (fun id => votes.lookup id) ∧
    (Tracker.tallyVotes c votes).1 =
      votes.countP (fun p => (c.incoming.contains p.1 || c.outgoing.contains p.1) && p.2) ∧
    (Tracker.tallyVotes c votes).2.1 =
      votes.countP (fun p => (c.incoming.contains p.1 || c.outgoing.contains p.1) && !p.2) :=
  ⟨rfl, rfl, rfl⟩

/-! ### quorum intersection -/

/-- pigeonhole on duplicate-free lists: two duplicate-free sub-lists of a duplicate-free list, each
of size at least `majority`, share an element -/
theorem majorities_intersect :
    ∀ (vs A B : List Nat), vs.Nodup → A ⊆ vs → B ⊆ vs → A.Nodup → B.Nodup →
      majority vs.length ≤ A.length → majority vs.length ≤ B.length → ∃ v, v ∈ A ∧ v ∈ B :=
  RaftModel.majorities_intersect

/-- counting form (no duplicate-freeness needed; `A`, `B` may contain non-voters): two id sets that
each contain a majority of `vs` share a voter of `vs` -/
theorem quorums_intersect (vs A B : List Nat) (hA : IsQuorum vs A) (hB : IsQuorum vs B) :
    ∃ v ∈ vs, v ∈ A ∧ v ∈ B :=
  RaftModel.quorums_intersect vs A B hA hB

/-- joint version: two joint quorums of a configuration with at least one voter share a voter -/
theorem joint_majorities_intersect (c : JointConfig) (A B : List Nat)
    (hne : c.incoming ≠ [] ∨ c.outgoing ≠ [])
    (hA : IsJointQuorum c A) (hB : IsJointQuorum c B) :
    ∃ v, (v ∈ c.incoming ∨ v ∈ c.outgoing) ∧ v ∈ A ∧ v ∈ B :=
  RaftModel.joint_quorums_intersect c A B hne hA hB

/-- … in particular any two sets accepted by `has_quorum` intersect, and so do the voters behind two
commit decisions: whoever acknowledged the commit index and whoever granted a won election share a
voter -/
theorem hasQuorum_intersect (c : JointConfig) (A B : List Nat)
    (hne : c.incoming ≠ [] ∨ c.outgoing ≠ [])
    (hA : Tracker.hasQuorum c A = true) (hB : Tracker.hasQuorum c B = true) :
    ∃ v, (v ∈ c.incoming ∨ v ∈ c.outgoing) ∧ v ∈ A ∧ v ∈ B :=
  joint_majorities_intersect c A B hne ((hasQuorum_iff c A).1 hA) ((hasQuorum_iff c B).1 hB)

/-! ### Non-vacuity: concrete configurations meeting the hypotheses, with the computed values -/

/-- the repo's `joint_group_commit.txt` case `cfg=(1,2,3,4) cfgj=(3,4,5,6)
idx=(101,99,100,102,103,1) gid=(1,_,1,1,_,2)` -/
def witnessAck : Nat → Option Index
  | 1 => some ⟨101, 1⟩ | 2 => some ⟨99, 0⟩ | 3 => some ⟨100, 1⟩
  | 4 => some ⟨102, 1⟩ | 5 => some ⟨103, 0⟩ | 6 => some ⟨1, 2⟩
  | _ => none

def witnessCfg : JointConfig := ⟨[4, 2, 1, 3], [6, 3, 5, 4]⟩

example : witnessCfg.incoming ≠ [] ∨ witnessCfg.outgoing ≠ [] := by decide
example : ∀ v, (v ∈ witnessCfg.incoming ∨ v ∈ witnessCfg.outgoing) → ackIdx witnessAck v ≤ U64_MAX := by
  intro v hv
  simp only [witnessCfg, mem_cons, not_mem_nil, or_false] at hv
  rcases hv with (h | h | h | h) | (h | h | h | h) <;> subst h <;> decide
example : Joint.committedIndex witnessCfg witnessAck false = (100, false) := by decide
example : Joint.committedIndex witnessCfg witnessAck true = (1, false) := by decide
example : Majority.committedIndex [4, 2, 1, 3] witnessAck true = (99, false) := by decide
example : Majority.committedIndex [6, 3, 5, 4] witnessAck true = (1, true) := by decide
example : TwoGroups [6, 3, 5, 4] witnessAck 1 := ⟨6, by decide, 3, by decide, by decide⟩
example : [4, 2, 1, 3] ~ [1, 2, 3, 4] := by decide
/-- all voters grouped, two groups: result below the quorum index, flag true -/
example : Majority.committedIndex [1, 2, 3]
    (fun v => match v with | 1 => some ⟨100, 1⟩ | 2 => some ⟨101, 1⟩ | 3 => some ⟨99, 2⟩ | _ => none)
    true = (99, true) := by decide
example : Joint.voteResult ⟨[1, 2, 3], [3, 4, 5]⟩
    (fun v => match v with | 1 => some true | 3 => some true | 4 => some false | _ => none)
    = .pending := by decide
example : Tracker.hasQuorum ⟨[1, 2, 3], [3, 4, 5]⟩ [2, 3, 5, 9] = true := by decide
example : majority 9 ≤ [1, 2, 3, 4, 5].length ∧ [1, 2, 3, 4, 5] ⊆ [1, 2, 3, 4, 5, 6, 7, 8, 9] ∧
    [1, 2, 3, 4, 5].Nodup := by decide

end RaftProps.C11
