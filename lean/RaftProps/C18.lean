import RaftProofs.Inflights

/-!
# C18 — the in-flight window is a bounded FIFO under resizing

Property theorems only (helper lemmas live in `RaftProofs/Inflights.lean`).  The model
`RaftModel.Inflights` mirrors `src/tracker/inflights.rs` method by method; `RaftModel.Fifo` is the
specification ("a bounded FIFO of indexes with a deferred capacity reduction").

All theorems quantify over every initial capacity (0 included), every operation sequence of every
length, every argument value.  An operation sequence is *legal* when `add` is only called while the
window is not full (the documented precondition: "Calling it between `self.full()` and `self.add()`
can cause a panic"); the behaviour of `add` on a full window is settled separately
(`C18_add_on_full_panics`).
-/
namespace RaftProps.C18
open RaftModel

/-- run the ring over an operation list; stops at the first panic -/
def runRing : Inflights → List InfOp → Except String Inflights
  | s, [] => .ok s
  | s, op :: ops => match s.step op with
    | .ok s' => runRing s' ops
    | .error e => .error e

def runFifo : Fifo → List InfOp → Fifo
  | f, [] => f
  | f, op :: ops => runFifo (f.step op) ops

/-- `add` is only issued while the specification says "not full" -/
def legal : Fifo → List InfOp → Bool
  | _, [] => true
  | f, op :: ops =>
    (match op with
      | .add _ => !f.full
      | _ => true) && legal (f.step op) ops

theorem step_refines (s : Inflights) (h : s.Inv) (op : InfOp)
    (hl : ∀ x, op = .add x → s.abs.full = false) :
    ∃ s', s.step op = .ok s' ∧ s'.Inv ∧ s'.abs = s.abs.step op := by
  cases op with
  | add x =>
    have hf : s.full = false := by rw [Inflights.full_abs]; exact hl x rfl
    exact Inflights.add_refines s h x hf
  | freeTo t => exact Inflights.freeTo_refines s h t
  | freeFirstOne => exact Inflights.freeFirstOne_refines s h
  | reset => exact ⟨_, rfl, (Inflights.reset_refines s h).1, (Inflights.reset_refines s h).2⟩
  | setCap n => exact Inflights.setCap_refines s h n
  | maybeFreeBuffer =>
    exact ⟨_, rfl, (Inflights.maybeFreeBuffer_refines s h).1, (Inflights.maybeFreeBuffer_refines s h).2⟩

/-- **Main refinement theorem.**  From any state satisfying the ring invariant, every legal operation
sequence runs without panic, re-establishes the invariant and ends in a ring whose meaning is the
state the FIFO specification reaches. -/
theorem C18_refines_from (s : Inflights) (h : s.Inv) (ops : List InfOp)
    (hl : legal s.abs ops = true) :
    ∃ s', runRing s ops = .ok s' ∧ s'.Inv ∧ s'.abs = runFifo s.abs ops := by
  induction ops generalizing s with
  | nil => exact ⟨s, rfl, h, rfl⟩
  | cons op ops ih =>
    simp only [legal, Bool.and_eq_true] at hl
    obtain ⟨s1, e1, i1, a1⟩ := step_refines s h op (by
      intro x hx; subst hx; simpa using hl.1)
    obtain ⟨s2, e2, i2, a2⟩ := ih s1 i1 (by rw [a1]; exact hl.2)
    refine ⟨s2, ?_, i2, ?_⟩
    · simp only [runRing, e1]; exact e2
    · rw [a2, a1]; rfl

/-- every reachable window: from `Inflights::new(cap)` with any capacity -/
theorem C18_refines (cap : Nat) (ops : List InfOp) (hl : legal (Fifo.new cap) ops = true) :
    ∃ s', runRing (Inflights.new cap) ops = .ok s' ∧ s'.Inv ∧
      s'.abs = runFifo (Fifo.new cap) ops := by
  have := C18_refines_from (Inflights.new cap) (Inflights.inv_new cap) ops
    (by simpa [Inflights.abs, Inflights.new, Inflights.items, Fifo.new] using hl)
  simpa [Inflights.abs, Inflights.new, Inflights.items, Fifo.new] using this

/-- the observables of a ring in a state satisfying the invariant are those of its FIFO meaning:
`count()`, `full()`, and the window contents read through the ring indexes with `% cap`. -/
theorem C18_observables (s : Inflights) (h : s.Inv) :
    s.count = s.abs.items.length ∧ s.full = s.abs.full ∧ s.contents = s.abs.items := by
  refine ⟨by simp [Inflights.abs], Inflights.full_abs s, ?_⟩
  rw [← Inflights.items_eq_contents s h]; rfl

/-- `add` succeeds whenever the window is not full (and appends at the back). -/
theorem C18_add_succeeds (s : Inflights) (h : s.Inv) (x : Nat) (hf : s.full = false) :
    ∃ s', s.add x = .ok s' ∧ s'.contents = s.contents ++ [x] ∧ s'.count = s.count + 1 := by
  obtain ⟨s', e, i, a⟩ := Inflights.add_refines s h x hf
  refine ⟨s', e, ?_, ?_⟩
  · rw [← Inflights.items_eq_contents s' i, ← Inflights.items_eq_contents s h]
    have := congrArg Fifo.items a
    simpa [Inflights.abs, Fifo.add] using this
  · have := congrArg (fun f => f.items.length) a
    simpa [Inflights.abs, Fifo.add] using this

/-- `add` on a full window is the documented panic, in every state. -/
theorem C18_add_on_full_panics (s : Inflights) (x : Nat) (hf : s.full = true) :
    s.add x = .error "inflights.add.full" := Inflights.add_full s x hf

/-- freeing removes exactly the longest prefix of indexes not greater than `to` … -/
theorem C18_freeTo_prefix (s : Inflights) (h : s.Inv) (to : Nat) :
    ∃ s', s.freeTo to = .ok s' ∧
      s'.contents = s.contents.dropWhile (fun b => decide (b ≤ to)) := by
  obtain ⟨s', e, i, a⟩ := Inflights.freeTo_refines s h to
  refine ⟨s', e, ?_⟩
  rw [← Inflights.items_eq_contents s' i, ← Inflights.items_eq_contents s h]
  have := congrArg Fifo.items a
  simp only [Inflights.abs, Fifo.freeTo, Fifo.drained] at this
  rw [this]
  split <;> simp_all

/-- … which, for the strictly increasing windows the leader produces, is *every* tracked index
`≤ to` and nothing else. -/
theorem C18_freeTo_exact (l : List Nat) (hs : l.Pairwise (· < ·)) (to : Nat) :
    l.dropWhile (fun b => decide (b ≤ to)) = l.filter (fun b => decide (to < b)) := by
  induction l with
  | nil => rfl
  | cons a l ih =>
    rw [List.pairwise_cons] at hs
    by_cases ha : a ≤ to
    · have hna : ¬ to < a := by omega
      simp [List.dropWhile_cons, List.filter_cons, ha, hna, ih hs.2]
    · have ha' : to < a := by omega
      simp only [List.dropWhile_cons, ha, decide_false, Bool.false_eq_true, if_false,
        List.filter_cons, ha', decide_true, if_true]
      congr 1
      symm
      rw [List.filter_eq_self]
      intro b hb
      have := hs.1 b hb
      simp; omega

/-- invariant of the specification: the window never holds more than `cap` indexes, and a deferred
(reduced) capacity exists only while the window is non-empty and is smaller than `cap`. -/
def FifoInv (f : Fifo) : Prop :=
  f.items.length ≤ f.cap ∧ ∀ c, f.pending = some c → f.items ≠ [] ∧ c < f.cap

theorem fifoInv_of_inv (s : Inflights) (h : s.Inv) : FifoInv s.abs := by
  refine ⟨by simpa [Inflights.abs] using h.count_le, ?_⟩
  intro c hc
  have := h.pend c (by simpa [Inflights.abs] using hc)
  refine ⟨?_, this.2⟩
  intro hn
  have := (Inflights.items_eq_nil_iff s).1 (by simpa [Inflights.abs] using hn)
  omega

/-- **Bounded**: in every reachable state the window holds at most `cap` indexes. -/
theorem C18_bounded (cap : Nat) (ops : List InfOp) (hl : legal (Fifo.new cap) ops = true) :
    FifoInv (runFifo (Fifo.new cap) ops) := by
  obtain ⟨s', _, i, a⟩ := C18_refines cap ops hl
  rw [← a]; exact fifoInv_of_inv s' i

/-- **A reduced capacity takes effect no later than when the window drains**: while a reduction to
`c` is pending, `full` already honours it, and any operation (other than a further `set_cap`) that
leaves the window empty installs `c` as the capacity. -/
theorem C18_shrink_takes_effect (f : Fifo) (hi : FifoInv f) (c : Nat) (hp : f.pending = some c) :
    (c ≤ f.items.length → f.full = true) ∧
    ∀ op, (∀ n, op ≠ .setCap n) → (f.step op).items = [] →
      (f.step op).cap = c ∧ (f.step op).pending = none := by
  obtain ⟨_, hpend⟩ := hi
  have hne := (hpend c hp).1
  refine ⟨?_, ?_⟩
  · intro hc; simp [Fifo.full, hp, hc]
  · intro op hop hnil
    cases op with
    | add x => simp [Fifo.step, Fifo.add] at hnil
    | freeTo t =>
      simp only [Fifo.step, Fifo.freeTo, Fifo.drained] at hnil ⊢
      split at hnil <;> simp_all
    | freeFirstOne =>
      simp only [Fifo.step, Fifo.freeFirstOne] at hnil ⊢
      cases hit : f.items with
      | nil => exact absurd hit hne
      | cons b l =>
        simp only [hit, Fifo.freeTo, Fifo.drained] at hnil ⊢
        split at hnil <;> simp_all
    | reset => simp [Fifo.step, Fifo.reset, hp]
    | setCap n => exact absurd rfl (hop n)
    | maybeFreeBuffer => simp [Fifo.step] at hnil; exact absurd hnil hne

/-- growing, shrinking or releasing the buffer loses, duplicates and reorders nothing. -/
theorem C18_resize_keeps_contents (s : Inflights) (h : s.Inv) (n : Nat) :
    (∃ s', s.setCap n = .ok s' ∧ s'.contents = s.contents) ∧
    s.maybeFreeBuffer.contents = s.contents := by
  refine ⟨?_, ?_⟩
  · obtain ⟨s', e, i, a⟩ := Inflights.setCap_refines s h n
    refine ⟨s', e, ?_⟩
    rw [← Inflights.items_eq_contents s' i, ← Inflights.items_eq_contents s h]
    have := congrArg Fifo.items a
    simp only [Inflights.abs, Fifo.setCap] at this
    rw [this]
    by_cases h1 : s.cap ≤ n
    · simp [h1]
    · by_cases h2 : s.items = [] <;> simp [h1, h2]
  · have := Inflights.maybeFreeBuffer_refines s h
    rw [← Inflights.items_eq_contents _ this.1, ← Inflights.items_eq_contents s h]
    exact congrArg Fifo.items this.2

/-- no ring operation can hit an index-out-of-bounds / assertion site from a state satisfying the
invariant; the only reachable panic is `add` on a full window. -/
theorem C18_no_internal_panic (s : Inflights) (h : s.Inv) (op : InfOp) :
    (∃ s', s.step op = .ok s') ∨ (∃ x, op = .add x ∧ s.full = true) := by
  by_cases hf : ∃ x, op = .add x ∧ s.full = true
  · exact Or.inr hf
  · left
    obtain ⟨s', e, _, _⟩ := step_refines s h op (by
      intro x hx
      rw [← Inflights.full_abs]
      cases hfs : s.full
      · rfl
      · exact absurd ⟨x, hx, hfs⟩ hf)
    exact ⟨s', e⟩

/-! ### Non-vacuity: a wrapped ring with a pending capacity reduction satisfies the hypotheses -/

/-- capacity 3, two frees and two more adds: the window [3,4,5] lies wrapped in the buffer
`[4,5,3]`, and a reduction to 1 is pending. -/
def witness : Inflights :=
  { start := 2, count := 3, buffer := [4, 5, 3], cap := 3, incomingCap := some 1, alloc := true }

example : witness.Inv := by
  constructor <;> simp [witness]

example : witness.contents = [3, 4, 5] := by decide

example : runRing (Inflights.new 3)
    [.add 1, .add 2, .add 3, .freeTo 2, .add 4, .add 5, .setCap 1] = .ok witness := by rfl

example : legal (Fifo.new 3) [.add 1, .add 2, .add 3, .freeTo 2, .add 4, .add 5, .setCap 1] = true := by
  decide

end RaftProps.C18
