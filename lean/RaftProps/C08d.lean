import RaftProofs.ClusterRead2F
import RaftProofs.ClusterRead2G

/-!
# C08, cluster level, **with log compaction, snapshots between nodes and `request_snapshot`** —
# ReadIndex (Safe mode) is linearizable for `ClusterSem`, for reads issued at the leader

`RaftProps/C08c.lean` proves the two theorems below under `RdHyp`, which extends `Hyp3w`: the commit
layer **without** compaction and **without** snapshots.  This file proves the same conclusions for
histories in which the application compacts its logs, leaders send `MsgSnapshot`s to lagging followers,
followers restore and install them, and `request_snapshot` is used.

## Hypotheses (`Snap5.Rd.RdHypS cfg c0 h`, `RaftProofs/ClusterRead2B.lean`)

* `Snap5.Hyp3r cfg c0 h` — the strongest bundle of the snapshot layer (`RaftProps/C01j.lean`,
  `RaftProofs/ClusterSnap6D.lean`): fixed multi-voter configuration, the `Snap5.KStep` storage / Ready
  contract (compaction up to the recorded commit index, `SnapSend`, atomic installation of a pending
  snapshot), batching off, `first0`, `initc`, `pend0`, `snapt0`, `snapidx`;
* the read-specific fields of `RdHyp`, unchanged: `norir` (no `MsgReadIndexResp` in the transport — used
  exactly where C08c uses it, `occ_issued` and `rd_produce`: the per-call relation `ROut` of the read
  path does not track who queues a `MsgReadIndexResp`; the invariant `rirs` the snapshot layer derives
  bounds the *index* of such a message, not its context), `safe`, `nori` (reads are issued at the leader;
  without it the statement is false, `C08_cluster_forwarded_read_counterexample`), `uniq`, `nonempty`.

## What is new in the proof (`RaftProofs/ClusterRead2{A..F}.lean`)

* `snapStep_rd` (2A): the delivery of a `MsgSnapshot` — excluded by `call_rd` — satisfies the per-call
  relation `ROut` of the read path: `Raft::restore` replaces the progress tracker but touches neither
  `read_only` nor `read_states`; `handle_snapshot` queues one `MsgAppendResponse`;
* `step_commit_le` / `commit_mono` (2D): a node's commit index does not decrease over calls,
  compactions, delivered snapshots (kept / fast-forwarded / restored) and the installation of a pending
  snapshot;
* `idx_ok_reg` (2D): the read index recorded at registration bounds every earlier commit — Election
  Safety + `commit_mono` for the leader's own term; for earlier terms Leader Completeness **over the ghost
  (uncompacted) logs** (`Snap5.Sm.lc`), `Snap5.eq_ll`, and — when the leader's commit index is its
  snapshot point — the ghost entry of the snapshot term there (`Full.sT`), then `Snap5.term_le`;
* `good_of` (2F) uses `Snap5.Sm.nctm` (every commit index is covered by a leader's commit event);
* everything else (`pend_ok`, `occ_issued`, `hbr_floor`, `tgt_inv`, `rd_produce`, `quorum_no_higher`)
  is the proof of C08c re-run on the new bundle: the vote-layer facts (`C02_cluster_leader_has_quorum`,
  `C06_cluster_grant_durable`, `TermFloor`) only need `History` and the fixed configuration.
-/
namespace RaftProps.C08d
open RaftModel RaftModel.Cluster RaftModel.Node RaftModel.Raft RaftModel.Raft.CC RaftModel.Raft.RD
open RaftModel.Cluster.Snap5 RaftModel.Cluster.Snap5.Rd

/-- the bundle, spelt out -/
theorem C08d_bundle (cfg : JointConfig) (c0 : Nat) (h : List Sys) :
    RdHypS cfg c0 h ↔
      (Snap5.Hyp3r cfg c0 h ∧
       (∀ s ∈ h, ∀ x ∈ s.net, x.msgType ≠ .msgReadIndexResp) ∧
       (∀ s ∈ h, ∀ i st, s.node i = some st → st.raft.readOnly.option = .safe) ∧
       (∀ s ∈ h, ∀ x ∈ s.net, x.msgType ≠ .msgReadIndex) ∧
       (∀ n1 n2 i1 i2 K, RegAt h n1 i1 K → RegAt h n2 i2 K → n1 = n2) ∧
       (∀ n i K, RegAt h n i K → K ≠ [])) :=
  ⟨fun H => ⟨H.toHyp3r, H.norir, H.safe, H.nori, H.uniq, H.nonempty⟩,
   fun ⟨a, b, c, d, e, f⟩ =>
     { toHyp3r := a, norir := b, safe := c, nori := d, uniq := e, nonempty := f }⟩

/-- **C08 `cluster_read_index_safe`, with compaction and snapshots** — Safe ReadIndex is linearizable for
reads issued at the leader.

Let the step `h[n] → h[n+1]` be a `read_index(ctx)` call on node `i` that registers the request
(`RegAt`).  If in any state `h[m]` of the history a `ReadState` with `request_ctx = ctx` and index
`x.index` sits in the read states of some node `j`, then `j = i`, `n < m`, and `x.index` is at least the
commit index of **every** node in `h[n]` — also of nodes whose commit index was set by restoring a
snapshot or by fast-forwarding to one. -/
theorem C08_cluster_read_index_safe (cfg : JointConfig) (c0 : Nat) (h : List Sys)
    (H : RdHypS cfg c0 h) (n i : Nat) (ctx : Bytes) (hreg : RegAt h n i ctx)
    (sn : Sys) (hn : h[n]? = some sn)
    (m : Nat) (s : Sys) (hm : h[m]? = some s) (j : Nat) (stj : NState) (hj : s.node j = some stj)
    (x : ReadState) (hx : x ∈ stj.raft.readStates) (hctx : x.requestCtx = ctx) :
    j = i ∧ n < m ∧
    ∀ u stu, sn.node u = some stu → stu.raft.raftLog.committed ≤ x.index := by
  obtain ⟨h1, h2⟩ := Rd.read_state_ok H hreg hn m s hm j stj hj x hx hctx
  refine ⟨h1, ?_, h2⟩
  exact Rd.occ_after H hreg hm (.inl ⟨j, stj, hj, .inr (.inr (.inr ⟨x, hx, hctx⟩))⟩)

/-- **C08 `cluster_superseded_leader_does_not_answer`, with compaction and snapshots** — let the request
`ctx` be registered by the step `h[n] → h[n+1]`, and let some node lead term `t'` in a state `h[n1]`,
`n1 ≤ n`.  Then whichever node adds a read state for `ctx` to its read states, in whichever step
`h[k] → h[k+1]`, has a term at least `t'` when it does so (`st` is its state before that step). -/
theorem C08_cluster_superseded_leader_does_not_answer (cfg : JointConfig) (c0 : Nat) (h : List Sys)
    (H : RdHypS cfg c0 h) (n i : Nat) (ctx : Bytes) (hreg : RegAt h n i ctx)
    (n1 : Nat) (s1 : Sys) (hn1 : h[n1]? = some s1) (hle : n1 ≤ n) (l' t' : Nat)
    (hl' : leads s1 l' t')
    (k : Nat) (a b : Sys) (ha : h[k]? = some a) (hb : h[k + 1]? = some b) (j : Nat)
    (st st' : NState) (hja : a.node j = some st) (hjb : b.node j = some st')
    (x : ReadState) (hx : x ∈ st'.raft.readStates) (hnew : x ∉ st.raft.readStates)
    (hctx : x.requestCtx = ctx) :
    t' ≤ st.raft.term := by
  obtain ⟨sn, hn⟩ : ∃ sn, h[n]? = some sn := by
    obtain ⟨a0, _, _, _, _, _, q, _⟩ := hreg
    exact ⟨a0, q⟩
  obtain ⟨_, p2, _, Q, hQ, hQb⟩ := Rd.rd_produce H hreg ha hb hja hjb hx hnew hctx
  exact Rd.quorum_no_higher H hn ha (by omega) hja hQ hQb hn1 hle hl'

/-- uniqueness and non-emptiness of the contexts of **all** `read_index` calls give the two hypotheses
`uniq` / `nonempty` of `RdHypS` -/
theorem RdHypS.of_calls {cfg : JointConfig} {c0 : Nat} {h : List Sys} (H3 : Snap5.Hyp3r cfg c0 h)
    (norir : ∀ s ∈ h, ∀ x ∈ s.net, x.msgType ≠ .msgReadIndexResp)
    (safe : ∀ s ∈ h, ∀ i st, s.node i = some st → st.raft.readOnly.option = .safe)
    (nori : ∀ s ∈ h, ∀ x ∈ s.net, x.msgType ≠ .msgReadIndex)
    (uniqc : ∀ n1 n2 i1 i2 K, ReadCallAt h n1 i1 K → ReadCallAt h n2 i2 K → n1 = n2)
    (nec : ∀ n i K, ReadCallAt h n i K → K ≠ []) : RdHypS cfg c0 h :=
  { toHyp3r := H3, norir := norir, safe := safe, nori := nori,
    uniq := fun n1 n2 i1 i2 K h1 h2 => uniqc n1 n2 i1 i2 K h1.call h2.call,
    nonempty := fun n i K hr => nec n i K hr.call }

/-- **C08 `cluster_read_index_safe`, stated for `read_index` calls**, with compaction and snapshots -/
theorem C08_cluster_read_index_safe_calls (cfg : JointConfig) (c0 : Nat) (h : List Sys)
    (H3 : Snap5.Hyp3r cfg c0 h)
    (norir : ∀ s ∈ h, ∀ x ∈ s.net, x.msgType ≠ .msgReadIndexResp)
    (safe : ∀ s ∈ h, ∀ i st, s.node i = some st → st.raft.readOnly.option = .safe)
    (nori : ∀ s ∈ h, ∀ x ∈ s.net, x.msgType ≠ .msgReadIndex)
    (uniqc : ∀ n1 n2 i1 i2 K, ReadCallAt h n1 i1 K → ReadCallAt h n2 i2 K → n1 = n2)
    (nec : ∀ n i K, ReadCallAt h n i K → K ≠ [])
    (n i : Nat) (ctx : Bytes) (hcall : ReadCallAt h n i ctx) (sn : Sys) (hn : h[n]? = some sn)
    (m : Nat) (s : Sys) (hm : h[m]? = some s) (j : Nat) (stj : NState) (hj : s.node j = some stj)
    (x : ReadState) (hx : x ∈ stj.raft.readStates) (hctx : x.requestCtx = ctx) :
    j = i ∧ n < m ∧
    ∀ u stu, sn.node u = some stu → stu.raft.raftLog.committed ≤ x.index := by
  have H := RdHypS.of_calls H3 norir safe nori uniqc nec
  obtain ⟨n1, i1, _, hr⟩ := Rd.occ_issued H m s hm ctx (nec n i ctx hcall)
    (.inl ⟨j, stj, hj, .inr (.inr (.inr ⟨x, hx, hctx⟩))⟩)
  have e := uniqc n1 n i1 i ctx hr.call hcall
  subst e
  have ei : i1 = i := by
    obtain ⟨a, b, _, _, _, _, p1, p2, _, _, p5⟩ := hr.call
    obtain ⟨a', b', _, _, _, _, q1, q2, _, _, q5⟩ := hcall
    rw [p1] at q1; cases q1
    rw [p2] at q2; cases q2
    exact setNode_head_inj (p5.symm.trans q5)
  subst ei
  exact C08_cluster_read_index_safe cfg c0 h H n1 i1 ctx hr sn hn m s hm j stj hj x hx hctx

/-- the read index a leader records covers every earlier commit of a term not above its own — with
compaction and snapshots (the lemma behind the first theorem, `Rd.idx_ok_reg`): for every commit event
`E` (a step in which a leader's commit index moves, `Ev.ok`) before `h[n0]` whose term is at most the
leader's, `E.c ≤ committed` -/
theorem C08d_leader_commit_covers_earlier_commits (cfg : JointConfig) (c0 : Nat) (h : List Sys)
    (H : Snap5.Hyp3r cfg c0 h) (n0 : Nat) (a : Sys) (ha : h[n0]? = some a) (v : Nat) (st : NState)
    (hv : a.node v = some st) (hl : st.raft.state = .leader)
    (hc : st.raft.commitToCurrentTerm = .ok true) :
    c0 ≤ st.raft.raftLog.committed ∧
    ∀ E : Ev, E.ok h → E.nE < n0 → E.t ≤ st.raft.term → E.c ≤ st.raft.raftLog.committed :=
  Rd.idx_ok_reg (Snap5.Hyp3w.toHyp3a H.toHyp3w) ha hv hl hc

/-- a node's commit index does not decrease over a step that is not its restart — calls, compactions,
delivered snapshots and the installation of a pending snapshot included -/
theorem C08d_commit_index_monotone_step (cfg : JointConfig) (c0 : Nat) (h : List Sys)
    (H : Snap5.Hyp3r cfg c0 h) (n : Nat) (a b : Sys) (ha : h[n]? = some a) (hb : h[n + 1]? = some b)
    (v : Nat) (st st' : NState) (hv : a.node v = some st) (hv' : b.node v = some st')
    (hnr : ¬ RaftProps.C02.IsRestart v a b) :
    st.raft.raftLog.committed ≤ st'.raft.raftLog.committed :=
  Rd.step_commit_le H.toHyp3w.toHyp2w ha hb hv hv' hnr

/-- the delivery of a `MsgSnapshot` neither answers nor registers a read: the read states, the pending
requests and the heartbeats / heartbeat responses of the queue are those of before (`ROut`, the per-call
relation of the read path, holds for it) -/
theorem C08d_snapshot_delivery_read_path (st st' : NState) (rnd : Option Nat) (m : Message)
    (res : OpRes) (hsn : m.msgType = .msgSnapshot)
    (h : Node.call st rnd (.step m) = .ok (res, st')) :
    ROut st.raft.prs.voters st.raft m st'.raft :=
  snapStep_rd st st' rnd m res hsn h

/-- the bundle of C08c implies this one?  No: `RdHyp` allows no compaction under *weaker* contract
clauses; what holds is that the snapshot bundle `Snap5.Hyp3r` with the read fields gives `RdHypS`
(`C08d_bundle`), and that the read fields are literally those of `RdHyp`: -/
theorem C08d_read_fields_of_RdHyp {cfg : JointConfig} {c0 : Nat} {h : List Sys}
    (H3 : Snap5.Hyp3r cfg c0 h) (H : RdHyp cfg c0 h) : RdHypS cfg c0 h :=
  { toHyp3r := H3, norir := H.norir, safe := H.safe, nori := H.nori, uniq := H.uniq,
    nonempty := H.nonempty }

/-! ## Non-vacuity: a leader that has compacted, sent snapshots and served a `request_snapshot` answers a
`read_index` request (kernel-evaluated)

`RaftProofs/ClusterRead2G.lean`: the 42-state history `Snap5.rx_hist` of `C01j_request_snapshot_nonvacuous`
(node 1 leads term 1, commits index 2, compacts its log, sends a `MsgSnapshot` to node 3, which restores
and installs it; node 2 calls `request_snapshot`, is served a `MsgSnapshot`, restores it and installs it)
continued by `read_index([7])` on node 1, `send` at node 1, the delivery of the heartbeat that carries
the context to node 2 (whose log is the restored snapshot), `send` at node 2, and the delivery of node 2's
`MsgHeartbeatResponse` to node 1, which produces the read state `([7], 2)`. -/

section Examples
open RaftProps.C02 RaftProps.C05

set_option maxRecDepth 100000 in
/-- **non-vacuity of the read layer with compaction and snapshots**: there is a 47-state history of
`ClusterSem` that satisfies every hypothesis of the theorems above (`RdHypS`, voters `{1, 2, 3}`,
`c0 = 0`), in which a log is really compacted (node 1's first index is above 1 when the read is issued),
`MsgSnapshot`s really are in the transport, node 2's log at that moment is a restored snapshot (its
snapshot point is its commit index 2), step 41 is a `read_index([7])` call on node 1 that registers the
request while node 1 leads term 1 with commit index 2, and node 1 ends with the read state `([7], 2)`. -/
theorem C08d_cluster_nonvacuous :
    ∃ h : List Sys, RdHypS c02x_cfg 0 h ∧ RegAt h 41 1 [7] ∧
      ∃ (sn s : Sys) (st1 st2 stj : NState),
        h[41]? = some sn ∧ sn.node 1 = some st1 ∧ st1.raft.state = .leader ∧ st1.raft.term = 1 ∧
        st1.raft.raftLog.committed = 2 ∧ 1 < st1.raft.raftLog.store.firstIndex ∧
        sn.node 2 = some st2 ∧ st2.raft.raftLog.committed = 2 ∧
        st2.raft.raftLog.store.snapshotMetadata.index = 2 ∧
        (sn.net.any (fun x => x.msgType == .msgSnapshot)) = true ∧
        h[46]? = some s ∧ s.node 1 = some stj ∧
        stj.raft.readStates = [{ index := 2, requestCtx := [7] }] :=
  ⟨rdx_hist, rdx_rdhyp, rdx_regAt, rx_t8, rdx_t5, rx_a20, rx_b15, rdx_a23,
    rfl, rfl, by decide, by decide, by decide, by decide, rfl, by decide, by decide, by decide,
    rfl, rfl, by decide⟩

/-- … and the theorem applies to it: whatever read state for `[7]` any node holds in any state of that
history, it is node 1's, and its index covers the commit index of every node at step 41 -/
example (m : Nat) (s : Sys) (hm : rdx_hist[m]? = some s) (j : Nat) (stj : NState)
    (hj : s.node j = some stj) (x : ReadState) (hx : x ∈ stj.raft.readStates)
    (hctx : x.requestCtx = [7]) :
    j = 1 ∧ 41 < m ∧ ∀ u stu, rx_t8.node u = some stu → stu.raft.raftLog.committed ≤ x.index :=
  C08_cluster_read_index_safe c02x_cfg 0 rdx_hist rdx_rdhyp 41 1 [7] rdx_regAt rx_t8 rfl
    m s hm j stj hj x hx hctx

end Examples

end RaftProps.C08d
