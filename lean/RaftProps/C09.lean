import RaftProps.C12
import RaftProps.RN

/-!
# C09 — membership changes: one at a time, configuration is a function of the applied log

Proved here (on the executable model of `changer.rs` / `restore.rs` / `tracker.rs` /
`proto/confchange.rs`, tied to the code by the C12 correspondence): **a node's active configuration
is a function of the initial configuration and the sequence of membership changes it has applied**
— `configOf` below is that function (a fold of the model's `apply_conf_change` dispatch) —
it is the same function on every node, it always satisfies the configuration invariant, rejected
changes do not alter it, and restoring the `ConfState` taken at any point (snapshot, restart)
reproduces exactly the configuration the fold reached, whatever the order in which the ConfState
lists its members.  Hence two nodes that applied the same changes hold identical configurations,
also after a restart or a snapshot install.

The node-level discipline — at most one unapplied membership entry in a leader's log, proposals
replaced by empty entries, no campaign with a committed-but-unapplied change, non-voters never
campaign on their own — lives in `raft.rs` (`step_leader` proposal filter, `hup`,
`has_unapplied_conf_changes`, `promotable`); it is decided on implementation traces by the monitors
C09 (configuration equality of all nodes at every applied index; a leader's log holds at most one
membership entry beyond its applied index; no election started by timeout or transfer with an
unapplied committed change or by a non-voter) and will be proved on the executable node model.
-/
namespace RaftProps.C09
open RaftModel RaftProofs.ConfChange RaftProps.C12

/-- the active configuration after applying a sequence of membership changes from the empty
tracker restored from `cs0` -/
def configOf (t0 : Tracker) (ops : List Op) : Tracker := runOps t0 ops

/-- **Determinism**: the configuration depends only on the start configuration and the applied
changes — two nodes that applied the same changes hold the same configuration. -/
theorem C09_same_changes_same_config (t0 : Tracker) (ops1 ops2 : List Op) (h : ops1 = ops2) :
    configOf t0 ops1 = configOf t0 ops2 := by rw [h]

/-- the configuration reached by any sequence of applied changes satisfies the invariant
(voters/learners disjoint, staged learners inside outgoing voters, progress tracked for exactly the
members, non-joint ⇒ no staged learners and no auto-leave) -/
theorem C09_config_invariant (ops : List Op) : CfgInv (configOf Tracker.empty ops) :=
  C12_inv_reachable C12_inv_empty ops

/-- a rejected change (wrong mode, removing the last voter, more than one voter in a simple change)
leaves the configuration exactly as it was -/
theorem C09_rejected_change_no_effect (t : Tracker) (op : Op) (e : ErrKind) (hr : op.run t = .error e) :
    configOf t [op] = t := by
  simp [configOf, runOps, C12_error_no_change t op e hr]

/-- **After restart / snapshot**: restoring the ConfState of the configuration reached by any
sequence of changes yields that configuration again (voters, outgoing voters, learners, staged
learners, auto-leave and the tracked progress set) -/
theorem C09_restore_reproduces_config (ops : List Op) :
    restore Tracker.empty (configOf Tracker.empty ops).conf.toConfState = .ok (configOf Tracker.empty ops) :=
  C12_restore_toConfState_reachable ops

/-- … and so does any ConfState equal to it as sets (members listed in any order, with duplicates) -/
theorem C09_restore_order_insensitive (ops : List Op) (cs : ConfState)
    (hcs : confStateEq cs (configOf Tracker.empty ops).conf.toConfState = true) :
    restore Tracker.empty cs = .ok (configOf Tracker.empty ops) :=
  C12_restore_toConfState (C12_inv_reachable C12_inv_empty ops) (C12_voters_nonempty_reachable ops) cs hcs

/-- a membership entry is exactly one of: leave-joint, enter-joint (auto-leave or explicit), simple —
the classification `apply_conf_change` and the proposal filter use -/
theorem C09_classification (cc : ConfChangeV2) :
    (cc.leaveJoint = true → cc.enterJoint = none) ∧
    (cc.classify = .leave ↔ cc.transition = .auto ∧ cc.changes = []) ∧
    (cc.classify = .simple ↔ cc.transition = .auto ∧ cc.changes.length = 1) := by
  have := C12_classification_total cc
  exact ⟨this.1, this.2.1, this.2.2.2.2⟩

/-! ### node-level discipline, on the executable node model (`RaftModel.Raft*`, tied to raft.rs by the
free-running correspondence `rvh raftnode`) -/

/-- a node that is not a voter of its own configuration (`promotable = false`: learner, removed,
not yet added) never starts an election on its own: a tick only counts, whatever the elapsed time -/
theorem C09_non_voter_never_campaigns_on_tick (r : RaftModel.Raft) (hs : r.state ≠ .leader)
    (hp : r.promotable = false) :
    r.tick = .ok ({ r with electionElapsed := r.electionElapsed + 1 }, false) :=
  RaftProps.RN.non_promotable_never_campaigns_on_tick r hs hp

/-- … and ignores a leader's `MsgTimeoutNow` -/
theorem C09_non_voter_ignores_timeout_now (r : RaftModel.Raft) (m : RaftModel.Message)
    (hm : m.msgType = .msgTimeoutNow) (hp : r.promotable = false) :
    r.stepFollower m = .ok (r, none) :=
  RaftProps.RN.non_promotable_ignores_timeout_now r m hm hp

/-- no campaign (timeout, explicit `campaign()`, transfer) while a committed membership change has
not been applied: the node's configuration is current w.r.t. its commit index whenever it asks for votes -/
theorem C09_no_campaign_with_unapplied_change (r : RaftModel.Raft) (transfer : Bool)
    (h : r.hasUnappliedConfChanges r.hupScanLow (r.raftLog.committed + 1) = .ok true) :
    r.hup transfer = .ok r :=
  RaftProps.RN.hup_blocked_by_unapplied_conf r transfer h

end RaftProps.C09
