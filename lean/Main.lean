import RaftModel.Driver.Inflights
import RaftModel.Driver.Proto
import RaftModel.Driver.Quorum
import RaftModel.Driver.ConfChange
import RaftModel.Driver.RaftLog
import RaftModel.Driver.Storage
import RaftModel.Driver.RawNode
import RaftModel.Driver.RaftNode

/-
`rvm` — the model side of the correspondence check.

Reads trace lines `<component> <op> <args…> -> <observation of the real code>` on stdin,
re-executes `<op>` on the Lean model of that component, and compares the model's observation with
the implementation's.  Prints one `MISMATCH` line per disagreement (the rest of that sequence is
skipped, since the two sides are no longer in the same state) and a final `SUMMARY` line.
-/
open RaftModel RaftModel.Driver

structure DState where
  inf : Option Inflights := none
  p : Option RaftModel.P.DSys := none
  cc : Option Tracker := none
  rl : Option RaftLog := none
  ms : Option MemStorage := none
  rw : Option RwState := none
  rn : Option RN.RNState := none
  lines : Nat := 0
  tag : String := ""   -- argument of the last `p new` line (the run's seed)
  compared : Nat := 0
  mismatches : Nat := 0
  skipped : Nat := 0
  bad : Nat := 0

def splitArrow (line : String) : Option (String × String) :=
  match line.splitOn " -> " with
  | [a, b] => some (a, b)
  | _ => none

def tokens (s : String) : List String :=
  (s.trimAscii.toString.splitOn " ").filter (· ≠ "")

/-- dispatch one command to its component; returns new state and the model's observation -/
def dispatch (st : DState) (comp : String) (cmd : List String) : DState × String :=
  match comp with
  | "inf" => let (s, o) := handleInf st.inf cmd; ({ st with inf := s }, o)
  | "p" => let (s, o) := PD.handleP st.p cmd; ({ st with p := s }, o)
  | "q" => (st, handleQuorum cmd)
  | "cc" => let (s, o) := handleCc st.cc cmd; ({ st with cc := s }, o)
  | "rl" => let (s, o) := handleRL st.rl cmd; ({ st with rl := s }, o)
  | "ms" => let (s, o) := MS.handleMs st.ms cmd; ({ st with ms := s }, o)
  | "rw" => let (s, o) := handleRw st.rw cmd; ({ st with rw := s }, o)
  | "rn" => let (s, o) := RN.handleRN st.rn cmd; ({ st with rn := s }, o)
  | _ => (st, "bad-op")

/-- after a disagreement the component's sequence is abandoned until its next `new` -/
def abandon (st : DState) (comp : String) : DState :=
  match comp with
  | "inf" => { st with inf := none }
  | "p" => { st with p := none }
  | "cc" => { st with cc := none }
  | "rl" => { st with rl := none }
  | "ms" => { st with ms := none }
  | "rw" => { st with rw := none }
  | "rn" => { st with rn := none }
  | _ => st

def stepLine (st : DState) (line : String) : DState × Option String :=
  let st := { st with lines := st.lines + 1 }
  match splitArrow line with
  | none => ({ st with bad := st.bad + 1 }, some s!"BAD-LINE {st.lines} {line}")
  | some (lhs, rhs) =>
    match tokens lhs with
    | comp :: cmd =>
      let st := match comp, cmd with
        | "p", ["new", t] => { st with tag := t }
        | _, _ => st
      let (st', obs) := dispatch st comp cmd
      let impl := " ".intercalate (tokens rhs)
      if obs == "skip" then ({ st' with skipped := st'.skipped + 1 }, none)
      else if obs == "bad-op" then
        ({ st' with bad := st'.bad + 1 }, some s!"BAD-OP {st.lines} {lhs}")
      else if obs == impl then ({ st' with compared := st'.compared + 1 }, none)
      else
        let st'' := abandon st' comp
        ({ st'' with compared := st''.compared + 1, mismatches := st''.mismatches + 1 },
          some s!"MISMATCH line={st.lines} cmd=[{lhs}] model=[{obs}] impl=[{impl}] tag=[{st.tag}]")
    | [] => ({ st with bad := st.bad + 1 }, some s!"BAD-LINE {st.lines} {line}")

partial def loop (h : IO.FS.Stream) (st : DState) : IO DState := do
  let line ← h.getLine
  if line.isEmpty then return st
  let (st', msg) := stepLine st line
  match msg with
  | some m => IO.println m
  | none => pure ()
  loop h st'

def main : IO UInt32 := do
  let st ← loop (← IO.getStdin) {}
  IO.println s!"SUMMARY lines={st.lines} compared={st.compared} mismatches={st.mismatches} skipped={st.skipped} bad={st.bad}"
  return (if st.mismatches == 0 && st.bad == 0 then 0 else 1)
