import RaftProofs.ClusterCommitD

/-!
Cluster-level commit safety, helper lemmas part E: `G` under structure updates, `reset` and the role
changes.
-/
namespace RaftModel
namespace Raft
namespace CC

/-- any structure update that keeps `id`, `state`, `term`, `raftLog`, `prs` and `msgs` keeps `G` -/
theorem G.mk' {A : Nat → Nat → Nat → Prop} {a r : Raft} {m : Message} {x2 : Nat}
    {x4 : List ReadState} {x6 x7 x8 : Nat}
    {x10 : Bool} {x11 : Nat}
    {x12 : Option Nat} {x13 : Nat} {x14 : ReadOnly} {x15 x16 : Nat} {x17 x18 x19 x20 x21 : Bool}
    {x22 x23 x24 x25 x26 : Nat} {x27 : Int} {x28 : UncommittedState} {x29 : Nat}
    {x32 : Option Nat} (h0 : G A a m r) :
    G A a m { term := r.term, vote := x2, id := r.id, readStates := x4, raftLog := r.raftLog,
              maxInflight := x6, maxMsgSize := x7, pendingRequestSnapshot := x8, state := r.state,
              promotable := x10, leaderId := x11, leadTransferee := x12,
              pendingConfIndex := x13, readOnly := x14, electionElapsed := x15,
              heartbeatElapsed := x16, checkQuorum := x17, preVote := x18,
              skipBcastCommit := x19, batchAppend := x20, disableProposalForwarding := x21,
              heartbeatTimeout := x22, electionTimeout := x23, randomizedElectionTimeout := x24,
              minElectionTimeout := x25, maxElectionTimeout := x26, priority := x27,
              uncommittedState := x28, maxCommittedSizePerReady := x29, prs := r.prs,
              msgs := r.msgs, nextRand := x32 } :=
  ⟨h0.id, ⟨h0.mok.h⟩, h0.lc, fun x hx hty => (h0.qlk x hx hty).imp (fun g0 => g0) (fun g => ⟨g.lead, g.term, g.frm, g.app, g.hb⟩),
    fun x hx hty => (h0.qak x hx hty).imp (fun g0 => g0) (fun g => ⟨g.term, g.frm, g.src⟩),
    h0.qvk, fun x hx hty => (h0.qrq x hx hty).imp (fun g0 => g0) (fun g => ⟨g.term, g.last, g.lt⟩)⟩

theorem Old.mk' {a r : Raft} {x1 x2 x3 : Nat} {x4 : List ReadState} {x5 : RaftLog} {x6 x7 x8 : Nat}
    {x9 : StateRole} {x10 : Bool} {x11 : Nat}
    {x12 : Option Nat} {x13 : Nat} {x14 : ReadOnly} {x15 x16 : Nat} {x17 x18 x19 x20 x21 : Bool}
    {x22 x23 x24 x25 x26 : Nat} {x27 : Int} {x28 : UncommittedState} {x29 : Nat}
    {x30 : ProgressTracker} {x32 : Option Nat} (h0 : Old a r) :
    Old a { term := x1, vote := x2, id := x3, readStates := x4, raftLog := x5,
            maxInflight := x6, maxMsgSize := x7, pendingRequestSnapshot := x8, state := x9,
            promotable := x10, leaderId := x11, leadTransferee := x12,
            pendingConfIndex := x13, readOnly := x14, electionElapsed := x15,
            heartbeatElapsed := x16, checkQuorum := x17, preVote := x18,
            skipBcastCommit := x19, batchAppend := x20, disableProposalForwarding := x21,
            heartbeatTimeout := x22, electionTimeout := x23, randomizedElectionTimeout := x24,
            minElectionTimeout := x25, maxElectionTimeout := x26, priority := x27,
            uncommittedState := x28, maxCommittedSizePerReady := x29, prs := x30,
            msgs := r.msgs, nextRand := x32 } := h0

/-! ### `reset` -/

theorem reset_id (r : Raft) (t : Nat) : (r.reset t).id = r.id := (RaftProps.C16.reset_proj r t).2.2.1

/-- after `reset` every `matched` is `0`, except the node's own, which is `persisted` -/
theorem reset_mfun (r : Raft) (t : Nat) (j x : Nat) (h : mfun (r.reset t).prs j = some x) :
    x = 0 ∨ (j = r.id ∧ x = r.raftLog.persisted) := by
  unfold reset at h
  simp only [mapProgress, abortLeaderTransfer, resetRandomizedElectionTimeout,
    ProgressTracker.resetVotes] at h
  have key : ∀ (l : List (Nat × Progress)) (n c p i : Nat),
      ((l.map (fun q => (q.1, if q.1 = i then
          { (q.2.reset n) with matched := p, committedIndex := c } else q.2.reset n))).lookup j).map
        (·.matched) = some x → x = 0 ∨ (j = i ∧ x = p) := by
    intro l n c p i hl
    rw [get_map_progress l (fun k q => if k = i then
      { (q.reset n) with matched := p, committedIndex := c } else q.reset n) j] at hl
    cases hlk : l.lookup j with
    | none => rw [hlk] at hl; cases hl
    | some q =>
      rw [hlk] at hl
      simp only [Option.map_some] at hl
      split at hl
      · rename_i hji
        injection hl with hl
        exact .inr ⟨hji, hl.symm⟩
      · injection hl with hl
        exact .inl hl.symm
  unfold mfun ProgressTracker.get at h
  split at h <;> exact key _ _ _ _ _ h

theorem reset_mok {A : Nat → Nat → Nat → Prop} (r : Raft) (t : Nat) :
    ∀ j x, mfun (r.reset t).prs j = some x →
      x = 0 ∨ (j = (r.reset t).id ∧ x ≤ (r.reset t).raftLog.persisted) ∨ A j (r.reset t).term x := by
  intro j x h
  rcases reset_mfun r t j x h with g | ⟨g1, g2⟩
  · exact .inl g
  · right; left
    rw [reset_id, reset_raftLog]
    exact ⟨g1, Nat.le_of_eq g2⟩

theorem Old.reset {a r : Raft} (t : Nat) (h : Old a r) : Old a (r.reset t) := by
  unfold Old; rw [reset_msgs]; exact h

/-! ### role changes -/

theorem Old.becomeFollower {a r : Raft} (t l : Nat) (h : Old a r) : Old a (r.becomeFollower t l) := by
  unfold Old; rw [becomeFollower_msgs]; exact h

theorem becomeFollower_id (r : Raft) (t l : Nat) : (r.becomeFollower t l).id = r.id :=
  (RaftProps.C16.becomeFollower_proj r t l).2.2.1

theorem becomeFollower_g {A : Nat → Nat → Nat → Prop} {a r : Raft} {m : Message} (t l : Nat)
    (h0 : G A a m r) (ho : Old a r) : G A a m (r.becomeFollower t l) :=
  G.of_old_nl (ho.becomeFollower t l) ((becomeFollower_id r t l).trans h0.id)
    (by rw [(RaftProps.C16.becomeFollower_proj r t l).1]; intro hc; cases hc)

theorem becomeCandidate_g {A : Nat → Nat → Nat → Prop} {a r r' : Raft} {m : Message}
    (h : r.becomeCandidate = .ok r') (h0 : G A a m r) (ho : Old a r) :
    G A a m r' ∧ Old a r' := by
  unfold Raft.becomeCandidate at h
  split at h
  · cases h
  · split at h
    · cases h
    · cases h
      have ho' : Old a (r.reset (r.term + 1)) := ho.reset _
      exact ⟨G.of_old_nl (Old.mk' ho') ((reset_id r _).trans h0.id) (by intro hc; cases hc), Old.mk' ho'⟩

theorem becomePreCandidate_g {A : Nat → Nat → Nat → Prop} {a r r' : Raft} {m : Message}
    (h : r.becomePreCandidate = .ok r') (h0 : G A a m r) (ho : Old a r) :
    G A a m r' ∧ Old a r' := by
  unfold Raft.becomePreCandidate at h
  split at h
  · cases h
  · cases h
    exact ⟨G.of_old_nl (Old.mk' ho) h0.id (by intro hc; cases hc), Old.mk' ho⟩

end CC
end Raft
end RaftModel
