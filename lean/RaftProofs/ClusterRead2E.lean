import RaftProofs.ClusterRead2D

/-!
Cluster-level ReadIndex safety with compaction and snapshots, part 2E: `late_ctx`, `occ_after`,
`tgt_inv` for the bundle `RdHypS` [copy of `ClusterReadL.lean`; `TgtInv` is the one of
`RaftModel.Cluster`].
-/
namespace RaftModel
namespace Cluster
namespace Snap5
namespace Rd
open Node Raft Raft.CC Raft.RD RaftProps.C02 RaftProps.C05 Snap

variable {cfg : JointConfig} {c0 : Nat} {h : List Sys}

theorem late_ctx (H : RdHypS cfg c0 h) {n0 i0 : Nat} {ctx : Bytes} (hreg : RegAt h n0 i0 ctx) :
    Late h n0 ctx :=
  ⟨H.nonempty n0 i0 ctx hreg, fun _ _ hr => Nat.le_of_eq (H.uniq_node hr hreg).1.symm⟩

/-- where `ctx` occurs, the step that registered it lies behind -/
theorem occ_after (H : RdHypS cfg c0 h) {n0 i0 : Nat} {ctx : Bytes} (hreg : RegAt h n0 i0 ctx)
    {k : Nat} {s : Sys} (hk : h[k]? = some s) (ho : Occ s ctx) : n0 < k := by
  obtain ⟨n, i, h1, h2⟩ := occ_issued H k s hk ctx (H.nonempty n0 i0 ctx hreg) ho
  rw [(H.uniq_node h2 hreg).1] at h1
  exact h1

theorem tgt_inv (H : RdHypS cfg c0 h) {n0 i0 : Nat} {ctx : Bytes} (hreg : RegAt h n0 i0 ctx) :
    ∀ (k : Nat) (s : Sys), h[k]? = some s → TgtInv h c0 n0 i0 ctx s := by
  have H3 := H.toHyp3a
  have H2 := H3.toHyp2w
  refine hist_induct h _ ?_ ?_
  · intro s h0
    have hinit := hist_init H2.hist s h0
    have hf : ∀ v st, s.node v = some st → Fresh st.raft := by
      intro v st hv
      obtain ⟨c, store, rnd, _, hb⟩ := hinit.2 v st hv
      exact boot_fresh c store rnd st hb
    refine ⟨fun v st hv p p' K' hp => ?_, fun v st hv rs hm => ?_⟩
    · rw [(hf v st hv).2.1] at hp; simp at hp
    · rw [(hf v st hv).1] at hm; cases hm
  · intro n a b ha hb ih
    cases rd_step H ha hb with
    | call k st st' m hk hbe hm ho =>
      subst hbe
      refine ⟨fun v stv hv p p' K' hp hle hp' => ?_, fun v stv hv rs hmem => ?_⟩
      · rcases node_cases hv with ⟨e1, e2⟩ | ⟨_, e2⟩
        · subst e1; subst e2
          obtain ⟨d, hd⟩ := ho.queue
          rw [hd, List.getElem?_drop] at hp hp'
          exact ih.behind v st hk (d + p) (d + p') K' hp (by omega) hp'
        · exact ih.behind v stv e2 p p' K' hp hle hp'
      · rcases node_cases hv with ⟨e1, e2⟩ | ⟨_, e2⟩
        · subst e1; subst e2
          obtain ⟨g0, ⟨rs0, g1, _, g3⟩, _⟩ := ho.pend ctx rs hmem
          rw [g0, g3]
          exact ih.pend v st hk rs0 g1
        · exact ih.pend v stv e2 rs hmem
    | read k st st' K' rnd res hk hbe hcall ho =>
      subst hbe
      have key : (∀ (p p' : Nat) (K'' : Bytes),
            st'.raft.readOnly.readIndexQueue[p]? = some ctx → p ≤ p' →
            st'.raft.readOnly.readIndexQueue[p']? = some K'' → Late h n0 K'') ∧
          (∀ rs, (ctx, rs) ∈ st'.raft.readOnly.pendingReadIndex →
            k = i0 ∧ IdxOK h c0 n0 st'.raft.term rs.index) := by
        cases ho with
        | frame hf =>
          rw [hf.ro, hf.term]
          exact ⟨ih.behind k st hk, ih.pend k st hk⟩
        | now hs =>
          exfalso
          rcases hs with c | c
          · rw [not_singleton H2 (mem_of_get ha) hk] at c; cases c
          · exact c (H.safe a (mem_of_get ha) k st hk)
        | reg hl hc ro hadd hcore hmsgs =>
          have e1 : st'.raft.readOnly = ro := congrArg RCore.ro hcore
          have e2 : st'.raft.term = st.raft.term := congrArg RCore.term hcore
          rcases addRequest_spec hadd with ⟨q1, _⟩ | ⟨q1, _, q3, q4⟩
          · rw [e1, e2, q1]
            exact ⟨ih.behind k st hk, ih.pend k st hk⟩
          · -- this call registers `K'`
            have hregK : RegAt h n k K' := by
              refine ⟨a, _, st, st', rnd, res, ha, hb, hk, hcall, rfl, q1, ?_⟩
              rw [e1, q3]
              exact ⟨_, List.mem_append_right _ (List.mem_singleton.2 rfl)⟩
            constructor
            · intro p p' K'' hp hle hp'
              have hafter : n0 ≤ n := by
                have : Occ (a.setNode k st') ctx :=
                  .inl ⟨k, st', node_setNode_self a k st', .inr (.inl (List.mem_of_getElem? hp))⟩
                have := occ_after H hreg hb this
                omega
              rw [e1, q4] at hp hp'
              by_cases hlt : p' < st.raft.readOnly.readIndexQueue.length
              · rw [List.getElem?_append_left hlt] at hp'
                rw [List.getElem?_append_left (by omega)] at hp
                exact ih.behind k st hk p p' K'' hp hle hp'
              · rw [List.getElem?_append_right (by omega)] at hp'
                have : K'' = K' := by
                  cases hq : p' - st.raft.readOnly.readIndexQueue.length with
                  | zero => rw [hq] at hp'; simpa using hp'.symm
                  | succ j => rw [hq] at hp'; simp at hp'
                subst this
                exact ⟨H.nonempty n k _ hregK,
                  fun n' i' hr => by rw [(H.uniq_node hr hregK).1]; exact hafter⟩
            · intro rs hmem
              rw [e1, q3] at hmem
              rw [e2]
              rcases List.mem_append.1 hmem with g | g
              · exact ih.pend k st hk rs g
              · rw [List.mem_singleton] at g
                injection g with g1 g2
                subst g2
                rw [← g1] at hregK
                obtain ⟨u1, u2⟩ := H.uniq_node hregK hreg
                subst u1
                exact ⟨u2, idx_ok_reg H3 ha hk hl hc⟩
      refine ⟨fun v stv hv p p' K'' hp hle hp' => ?_, fun v stv hv rs hmem => ?_⟩
      · rcases node_cases hv with ⟨e1, e2⟩ | ⟨_, e2⟩
        · subst e1; subst e2; exact key.1 p p' K'' hp hle hp'
        · exact ih.behind v stv e2 p p' K'' hp hle hp'
      · rcases node_cases hv with ⟨e1, e2⟩ | ⟨_, e2⟩
        · subst e1; subst e2; exact key.2 rs hmem
        · exact ih.pend v stv e2 rs hmem
    | send k st st' hk hbe hst =>
      subst hbe
      refine ⟨fun v stv hv p p' K' hp hle hp' => ?_, fun v stv hv rs hmem => ?_⟩
      · have hv' : (a.setNode k st').node v = some stv := hv
        rcases node_cases hv' with ⟨e1, e2⟩ | ⟨_, e2⟩
        · subst e1; subst e2
          rw [hst] at hp hp'
          exact ih.behind v st hk p p' K' hp hle hp'
        · exact ih.behind v stv e2 p p' K' hp hle hp'
      · have hv' : (a.setNode k st').node v = some stv := hv
        rcases node_cases hv' with ⟨e1, e2⟩ | ⟨_, e2⟩
        · subst e1; subst e2
          rw [hst] at hmem ⊢
          exact ih.pend v st hk rs hmem
        · exact ih.pend v stv e2 rs hmem
    | restart k st st' hk hbe hf hq =>
      subst hbe
      refine ⟨fun v stv hv p p' K' hp hle hp' => ?_, fun v stv hv rs hmem => ?_⟩
      · rcases node_cases hv with ⟨e1, e2⟩ | ⟨_, e2⟩
        · subst e1; subst e2; rw [hf.2.1] at hp; simp at hp
        · exact ih.behind v stv e2 p p' K' hp hle hp'
      · rcases node_cases hv with ⟨e1, e2⟩ | ⟨_, e2⟩
        · subst e1; subst e2; rw [hf.1] at hmem; cases hmem
        · exact ih.pend v stv e2 rs hmem


end Rd
end Snap5
end Cluster
end RaftModel
