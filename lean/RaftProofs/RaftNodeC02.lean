import RaftProofs.RaftNodeC16
import RaftProofs.RaftNodeC17
import RaftProofs.Quorum

/-!
Helper lemmas for the node-level vote obligations (`RaftProps.C02b`, `RaftProps.C03b`): "the log did
not change" relations, what the role changes keep, a case analysis of `poll` / `campaign` / `hup` and
of the role arms of `step`.
-/
namespace RaftModel
namespace Raft
/- everything below lives in `RaftModel.Raft.VoteOb` so that the relation names (`Keep`, `LogSame`, …)
cannot clash with other helper files of the node model -/
namespace VoteOb

/-! ### "the same log" -/

/-- the same log: everything but the `max_apply_unpersisted_log_limit` knob (which `become_follower`
zeroes) -/
structure LogSame (l l' : RaftLog) : Prop where
  store : l'.store = l.store
  unstable : l'.unstable = l.unstable
  committed : l'.committed = l.committed
  persisted : l'.persisted = l.persisted
  applied : l'.applied = l.applied

/-- the same entries (stable and unstable part, pending snapshot, persisted and applied index); the
commit index may have advanced -/
structure LogFrozen (l l' : RaftLog) : Prop where
  store : l'.store = l.store
  unstable : l'.unstable = l.unstable
  committed : l.committed ≤ l'.committed
  persisted : l'.persisted = l.persisted
  applied : l'.applied = l.applied

theorem LogSame.rfl {l : RaftLog} : LogSame l l := ⟨Eq.refl _, Eq.refl _, Eq.refl _, Eq.refl _, Eq.refl _⟩

theorem LogSame.trans {a b c : RaftLog} (h1 : LogSame a b) (h2 : LogSame b c) : LogSame a c :=
  ⟨h2.store.trans h1.store, h2.unstable.trans h1.unstable, h2.committed.trans h1.committed,
   h2.persisted.trans h1.persisted, h2.applied.trans h1.applied⟩

theorem LogSame.symm {a b : RaftLog} (h : LogSame a b) : LogSame b a :=
  ⟨h.store.symm, h.unstable.symm, h.committed.symm, h.persisted.symm, h.applied.symm⟩

theorem LogSame.limit (l : RaftLog) (x : Nat) : LogSame l { l with maxApplyUnpersistedLogLimit := x } :=
  ⟨Eq.refl _, Eq.refl _, Eq.refl _, Eq.refl _, Eq.refl _⟩

theorem LogSame.eq {l l' : RaftLog} (h : LogSame l l') :
    l' = { l with maxApplyUnpersistedLogLimit := l'.maxApplyUnpersistedLogLimit } := by
  obtain ⟨h1, h2, h3, h4, h5⟩ := h
  cases l; cases l'
  simp only at h1 h2 h3 h4 h5
  subst h1 h2 h3 h4 h5
  rfl

theorem LogSame.frozen {l l' : RaftLog} (h : LogSame l l') : LogFrozen l l' :=
  ⟨h.store, h.unstable, Nat.le_of_eq h.committed.symm, h.persisted, h.applied⟩

theorem LogFrozen.rfl {l : RaftLog} : LogFrozen l l := LogSame.rfl.frozen

theorem LogFrozen.trans {a b c : RaftLog} (h1 : LogFrozen a b) (h2 : LogFrozen b c) : LogFrozen a c :=
  ⟨h2.store.trans h1.store, h2.unstable.trans h1.unstable, Nat.le_trans h1.committed h2.committed,
   h2.persisted.trans h1.persisted, h2.applied.trans h1.applied⟩

theorem LogSame.lastIndex {l l' : RaftLog} (h : LogSame l l') : l'.lastIndex = l.lastIndex := by
  rw [h.eq]; rfl

theorem LogSame.firstIndex {l l' : RaftLog} (h : LogSame l l') : l'.firstIndex = l.firstIndex := by
  rw [h.eq]; rfl

theorem LogSame.term {l l' : RaftLog} (h : LogSame l l') (i : Nat) : l'.term i = l.term i := by
  rw [h.eq]; rfl

theorem LogSame.lastTerm {l l' : RaftLog} (h : LogSame l l') : l'.lastTerm = l.lastTerm := by
  rw [h.eq]; rfl

theorem LogSame.commitInfo {l l' : RaftLog} (h : LogSame l l') : l'.commitInfo = l.commitInfo := by
  rw [h.eq]; rfl

theorem LogSame.isUpToDate {l l' : RaftLog} (h : LogSame l l') (i t : Nat) :
    l'.isUpToDate i t = l.isUpToDate i t := by
  rw [h.eq]; rfl

theorem LogFrozen.lastIndex {l l' : RaftLog} (h : LogFrozen l l') : l'.lastIndex = l.lastIndex := by
  unfold RaftLog.lastIndex; rw [h.unstable, h.store]

theorem LogFrozen.firstIndex {l l' : RaftLog} (h : LogFrozen l l') : l'.firstIndex = l.firstIndex := by
  unfold RaftLog.firstIndex; rw [h.unstable, h.store]

theorem LogFrozen.term {l l' : RaftLog} (h : LogFrozen l l') (i : Nat) : l'.term i = l.term i := by
  unfold RaftLog.term; rw [h.firstIndex, h.lastIndex, h.unstable, h.store]

theorem LogFrozen.lastTerm {l l' : RaftLog} (h : LogFrozen l l') : l'.lastTerm = l.lastTerm := by
  unfold RaftLog.lastTerm; rw [h.lastIndex, h.term]

theorem LogFrozen.isUpToDate {l l' : RaftLog} (h : LogFrozen l l') (i t : Nat) :
    l'.isUpToDate i t = l.isUpToDate i t := by
  unfold RaftLog.isUpToDate; rw [h.lastTerm, h.lastIndex]

/-! ### what the role changes keep -/

/-- the part of the node that the campaign bookkeeping (`reset`, `become_*`, `record_vote`) never
touches: the log, the identity, the priority, the voter configuration, the outgoing queue -/
structure Keep (r r' : Raft) : Prop where
  log : LogSame r.raftLog r'.raftLog
  id : r'.id = r.id
  priority : r'.priority = r.priority
  conf : r'.prs.conf = r.prs.conf
  msgs : r'.msgs = r.msgs

theorem Keep.rfl {r : Raft} : Keep r r := ⟨LogSame.rfl, Eq.refl _, Eq.refl _, Eq.refl _, Eq.refl _⟩

theorem Keep.trans {a b c : Raft} (h1 : Keep a b) (h2 : Keep b c) : Keep a c :=
  ⟨h1.log.trans h2.log, h2.id.trans h1.id, h2.priority.trans h1.priority, h2.conf.trans h1.conf,
   h2.msgs.trans h1.msgs⟩

theorem c02_reset_fields (r : Raft) (t : Nat) :
    (r.reset t).id = r.id ∧ (r.reset t).raftLog = r.raftLog ∧ (r.reset t).priority = r.priority ∧
    (r.reset t).state = r.state ∧ (r.reset t).prs.conf = r.prs.conf ∧ (r.reset t).prs.votes = [] ∧
    (r.reset t).msgs = r.msgs ∧ (r.reset t).leaderId = 0 ∧ (r.reset t).electionElapsed = 0 := by
  unfold reset
  simp only [mapProgress, abortLeaderTransfer, resetRandomizedElectionTimeout,
    ProgressTracker.resetVotes]
  split <;> simp

theorem c02_reset_keep (r : Raft) (t : Nat) : Keep r (r.reset t) := by
  obtain ⟨h1, h2, h3, _, h5, _, h7, _⟩ := c02_reset_fields r t
  exact ⟨by rw [h2]; exact LogSame.rfl, h1, h3, h5, h7⟩

theorem c02_becomeFollower_keep (r : Raft) (t l : Nat) : Keep r (r.becomeFollower t l) := by
  obtain ⟨h1, h2, h3, _, h5, _, h7, _⟩ := c02_reset_fields r t
  unfold becomeFollower
  refine ⟨?_, h1, h3, h5, h7⟩
  show LogSame r.raftLog { (r.reset t).raftLog with maxApplyUnpersistedLogLimit := 0 }
  rw [h2]; exact LogSame.limit _ _

theorem c02_becomeFollower_fields (r : Raft) (t l : Nat) :
    (r.becomeFollower t l).state = .follower ∧ (r.becomeFollower t l).leaderId = l ∧
    (r.becomeFollower t l).prs.votes = [] ∧ (r.becomeFollower t l).term = t ∧
    (r.becomeFollower t l).vote = (if r.term ≠ t then 0 else r.vote) := by
  obtain ⟨_, _, _, _, _, h6, _⟩ := c02_reset_fields r t
  obtain ⟨h8, h9⟩ := becomeFollower_term_vote r t l
  exact ⟨rfl, rfl, h6, h8, h9⟩

/-- `become_candidate` (raft.rs:1180): term + 1, vote for itself, an empty vote record -/
theorem c02_becomeCandidate_spec {r r' : Raft} (h : r.becomeCandidate = .ok r') :
    Keep r r' ∧ r'.term = r.term + 1 ∧ r'.vote = r.id ∧ r'.state = .candidate ∧
    r'.prs.votes = [] ∧ r.state ≠ .leader := by
  unfold becomeCandidate at h
  split at h
  · cases h
  · rename_i hl
    split at h
    · cases h
    · cases h
      obtain ⟨h1, h2, h3, _, h5, h6, h7, _⟩ := c02_reset_fields r (r.term + 1)
      exact ⟨⟨by show LogSame r.raftLog (r.reset (r.term + 1)).raftLog; rw [h2]; exact LogSame.rfl,
        h1, h3, h5, h7⟩, (reset_term_vote r (r.term + 1)).1, h1, rfl, h6, hl⟩

/-- `become_pre_candidate` (raft.rs:1203): term and vote kept, an empty vote record -/
theorem c02_becomePreCandidate_spec {r r' : Raft} (h : r.becomePreCandidate = .ok r') :
    Keep r r' ∧ r'.term = r.term ∧ r'.vote = r.vote ∧ r'.state = .preCandidate ∧
    r'.prs.votes = [] ∧ r.state ≠ .leader := by
  unfold becomePreCandidate at h
  split at h
  · cases h
  · rename_i hl
    cases h
    exact ⟨⟨LogSame.rfl, rfl, rfl, rfl, rfl⟩, rfl, rfl, rfl, rfl, hl⟩

/-! ### the vote record -/

/-- the state in which `poll` tallies: the vote of `frm` recorded (first answer wins,
`entry(id).or_insert(vote)`) -/
def voted (r : Raft) (frm : Nat) (v : Bool) : Raft := { r with prs := r.prs.recordVote frm v }

theorem c02_recordVote_conf (t : ProgressTracker) (id : Nat) (v : Bool) :
    (t.recordVote id v).conf = t.conf := by
  unfold ProgressTracker.recordVote; split <;> rfl

theorem c02_voted_keep (r : Raft) (frm : Nat) (v : Bool) : Keep r (voted r frm v) :=
  ⟨LogSame.rfl, rfl, rfl, c02_recordVote_conf _ _ _, rfl⟩

theorem c02_voted_frame (r : Raft) (frm : Nat) (v : Bool) : Frame r (voted r frm v) :=
  ⟨rfl, rfl, rfl, rfl, rfl, rfl, rfl⟩

/-- the result of tallying the node's own vote alone: a function of the voter configuration and the
node's id only -/
def selfWins (r : Raft) : Prop := Tracker.voteResult r.prs.voters [(r.id, true)] = .won

theorem c02_selfWins_keep {r r' : Raft} (h : Keep r r') : selfWins r' ↔ selfWins r := by
  unfold selfWins ProgressTracker.voters; rw [h.conf, h.id]

/-- recording the own vote on an empty record -/
theorem c02_self_vote {r : Raft} (hv : r.prs.votes = []) :
    (voted r r.id true).prs.votes = [(r.id, true)] ∧
    (voted r r.id true).prs.tallyVotes.2.2 = Tracker.voteResult r.prs.voters [(r.id, true)] := by
  have h1 : (voted r r.id true).prs.votes = [(r.id, true)] := by
    simp [voted, ProgressTracker.recordVote, hv, NatMap.insert]
  refine ⟨h1, ?_⟩
  have h2 : (voted r r.id true).prs.voters = r.prs.voters := by
    unfold ProgressTracker.voters
    rw [(c02_voted_keep r r.id true).conf]
  show Tracker.voteResult (voted r r.id true).prs.voters (voted r r.id true).prs.votes = _
  rw [h1, h2]

theorem c02_self_counts (id : Nat) (vs : List Nat) :
    yesCount vs (fun i => [(id, true)].lookup i) + missingCount vs (fun i => [(id, true)].lookup i)
      = vs.length := by
  induction vs with
  | nil => rfl
  | cons v rest ih =>
    unfold yesCount missingCount at ih ⊢
    rw [List.countP_cons, List.countP_cons, List.length_cons]
    by_cases hv : v = id
    · subst hv
      simp [List.lookup] at ih ⊢
      omega
    · have hb : (v == id) = false := by simpa using hv
      simp [List.lookup, hb] at ih ⊢
      omega

theorem c02_self_half_not_lost (id : Nat) (vs : List Nat) :
    Majority.voteResult vs (fun i => [(id, true)].lookup i) ≠ .lost := by
  rw [Majority.voteResult_eq]
  by_cases h0 : vs = []
  · simp [h0]
  · have hk := c02_self_counts id vs
    have hpos : 0 < vs.length := List.length_pos_iff.mpr h0
    have hm := majority_le vs.length hpos
    rw [if_neg h0]
    split
    · simp
    · split
      · simp
      · omega

/-- the own vote alone never *loses*: every voter other than the node itself is still missing -/
theorem c02_self_not_lost (c : JointConfig) (id : Nat) : Tracker.voteResult c [(id, true)] ≠ .lost := by
  unfold Tracker.voteResult Joint.voteResult
  have h1 := c02_self_half_not_lost id c.incoming
  have h2 := c02_self_half_not_lost id c.outgoing
  cases h3 : Majority.voteResult c.incoming (fun i => [(id, true)].lookup i) <;>
    cases h4 : Majority.voteResult c.outgoing (fun i => [(id, true)].lookup i) <;> simp_all

/-! ### `become_leader`, `poll` -/

/-- `become_leader(); bcast_append()` — the only way into the leader role -/
def wonBy (r0 r' : Raft) : Prop := (r0.becomeLeader.bind (fun r => r.bcastAppend)) = .ok r'

theorem c02_becomeLeader_spec {r r' : Raft} (h : r.becomeLeader = .ok r') :
    r'.state = .leader ∧ r'.term = r.term ∧ r'.vote = r.vote ∧ r'.id = r.id ∧ r.state ≠ .follower := by
  unfold Raft.becomeLeader at h
  split at h
  · cases h
  · rename_i hf
    simp only at h
    split at h
    · cases h
    · split at h
      · cases h
      · split at h
        · rename_i r1 ha
          cases h
          have hf' := appendEntry_frame ha Frame.rfl
          obtain ⟨h1, _⟩ := c02_reset_fields r r.term
          have h2 := reset_term_vote r r.term
          refine ⟨hf'.state, hf'.term.trans h2.1, ?_, hf'.id.trans h1, hf⟩
          rw [hf'.vote]; show (r.reset r.term).vote = r.vote
          rw [h2.2]; simp
        · cases h
        · cases h
        · cases h

theorem c02_wonBy_spec {r0 r' : Raft} (h : wonBy r0 r') :
    r'.state = .leader ∧ r'.term = r0.term ∧ r'.vote = r0.vote ∧ r'.id = r0.id ∧
    r0.state ≠ .follower := by
  unfold wonBy at h
  rw [Res.bind_eq_ok_iff] at h
  obtain ⟨r1, h1, h2⟩ := h
  obtain ⟨a, b, c, d, e⟩ := c02_becomeLeader_spec h1
  have hf := bcastAppend_frame h2 Frame.rfl
  exact ⟨hf.state.trans a, hf.term.trans b, hf.vote.trans c, hf.id.trans d, e⟩

/-- `poll` (raft.rs:2281) unfolded: record the vote, tally, and act on the result -/
theorem c02_pollWith_cases {f : Raft → Res Raft} {r r' : Raft} {frm : Nat} {t : MsgType} {v : Bool}
    {res : VoteResult} (h : pollWith f r frm t v = .ok (r', res)) :
    res = (voted r frm v).prs.tallyVotes.2.2 ∧
    ((res = .won ∧ r.state = .preCandidate ∧ f (voted r frm v) = .ok r') ∨
     (res = .won ∧ r.state ≠ .preCandidate ∧ wonBy (voted r frm v) r') ∨
     (res = .lost ∧ r' = (voted r frm v).becomeFollower r.term 0) ∨
     (res = .pending ∧ r' = voted r frm v)) := by
  unfold Raft.pollWith at h
  simp only at h
  generalize hres : (r.prs.recordVote frm v).tallyVotes.2.2 = res0 at h
  have hres' : (voted r frm v).prs.tallyVotes.2.2 = res0 := hres
  cases res0 with
  | won =>
    simp only at h
    split at h
    · rename_i hpc
      rw [Res.bind_eq_ok_iff] at h
      obtain ⟨r2, h1, h2⟩ := h
      cases h2
      exact ⟨hres'.symm, Or.inl ⟨rfl, hpc, h1⟩⟩
    · rename_i hpc
      rw [Res.bind_eq_ok_iff] at h
      obtain ⟨r2, h1, h2⟩ := h
      cases h2
      exact ⟨hres'.symm, Or.inr (Or.inl ⟨rfl, hpc, h1⟩)⟩
  | lost =>
    simp only at h
    cases h
    exact ⟨hres'.symm, Or.inr (Or.inr (Or.inl ⟨rfl, rfl⟩))⟩
  | pending =>
    simp only at h
    cases h
    exact ⟨hres'.symm, Or.inr (Or.inr (Or.inr ⟨rfl, rfl⟩))⟩

/-! ### the vote requests of `campaign` -/

/-- the (pre-)vote request `campaign` sends to `to` (raft.rs:1303-1332, after `send` filled in the
sender and the priority) -/
def voteReq (r : Raft) (vm : MsgType) (ct : CampaignType) (term c cterm lt to : Nat) : Message :=
  { msgType := vm, to := to, frm := r.id, term := term, index := r.raftLog.lastIndex, logTerm := lt,
    commit := c, commitTerm := cterm, context := if ct = .transfer then campaignTransfer else [],
    deprecatedPriority := if r.priority > 0 then r.priority.toNat else 0, priority := r.priority }

/-- everybody a campaign asks for a vote: the voters of either half except the node itself -/
def c02_voteTargets (r : Raft) : List Nat :=
  (NatSet.union r.prs.conf.incoming r.prs.conf.outgoing).filter (fun id => id ≠ r.id)

/-- one iteration of the vote-request loop of `campaign` -/
def c02_voteStep (vm : MsgType) (ct : CampaignType) (term c cterm lt : Nat) (acc : Res Raft) (id : Nat) :
    Res Raft :=
  acc.bind (fun r =>
    if id = r.id then .ok r
    else r.send { msgType := vm, to := id, term := term,
                  index := r.raftLog.lastIndex, logTerm := lt, commit := c, commitTerm := cterm,
                  context := if ct = .transfer then campaignTransfer else [] })

theorem c02_voteStep_ok (r : Raft) (vm : MsgType) (ct : CampaignType) (term c cterm lt : Nat)
    (hvm : vm = .msgRequestVote ∨ vm = .msgRequestPreVote) (hterm : term ≠ 0) (ms : List Message)
    (id : Nat) :
    c02_voteStep vm ct term c cterm lt (.ok { r with msgs := ms }) id =
      .ok { r with msgs := ms ++ ([id].filter (fun id => id ≠ r.id)).map (voteReq r vm ct term c cterm lt) } := by
  unfold c02_voteStep
  simp only [Res.bind]
  by_cases hid : id = r.id
  · simp [hid]
  · rcases hvm with hvm | hvm <;> subst hvm <;>
      simp [hid, send, sendFill, isVoteMsg, hterm, voteReq]

theorem c02_voteLoop (r : Raft) (vm : MsgType) (ct : CampaignType) (term c cterm lt : Nat)
    (hvm : vm = .msgRequestVote ∨ vm = .msgRequestPreVote) (hterm : term ≠ 0) :
    ∀ (l : List Nat) (ms : List Message),
      l.foldl (c02_voteStep vm ct term c cterm lt) (.ok { r with msgs := ms }) =
      .ok { r with msgs := ms ++ (l.filter (fun id => id ≠ r.id)).map (voteReq r vm ct term c cterm lt) } := by
  intro l
  induction l with
  | nil => intro ms; simp
  | cons id rest ih =>
    intro ms
    rw [List.foldl_cons, c02_voteStep_ok r vm ct term c cterm lt hvm hterm, ih]
    by_cases hid : id = r.id <;> simp [hid]

/-- the vote-request loop of `campaign` (raft.rs:1303-1332): exactly one request per voter of either
half except the node itself, each carrying the node's last index / last term / commit point -/
theorem c02_sendVoteRequests_spec {r r' : Raft} {ct : CampaignType} {vm : MsgType} {term : Nat}
    (hvm : vm = .msgRequestVote ∨ vm = .msgRequestPreVote) (hterm : term ≠ 0)
    (h : r.sendVoteRequests ct vm term = .ok r') :
    ∃ lt c cterm, r.raftLog.lastTerm = .ok lt ∧ r.raftLog.commitInfo = .ok (c, cterm) ∧
      r' = { r with msgs := r.msgs ++ (c02_voteTargets r).map (voteReq r vm ct term c cterm lt) } := by
  unfold sendVoteRequests at h
  split at h
  · cases h
  · cases h
  · rename_i c cterm hci
    split at h
    · cases h
    · cases h
    · rename_i lt hlt
      refine ⟨lt, c, cterm, hlt, hci, ?_⟩
      have := c02_voteLoop r vm ct term c cterm lt hvm hterm
        (NatSet.union r.prs.conf.incoming r.prs.conf.outgoing) r.msgs
      unfold c02_voteStep at this
      rw [show ({ r with msgs := r.msgs } : Raft) = r from rfl] at this
      rw [this] at h
      cases h; rfl

theorem c02_voteTargets_keep {r r' : Raft} (h : Keep r r') : c02_voteTargets r' = c02_voteTargets r := by
  unfold c02_voteTargets; rw [h.conf, h.id]

theorem c02_voteReq_keep {r r' : Raft} (h : Keep r r') (vm : MsgType) (ct : CampaignType)
    (term c cterm lt : Nat) : voteReq r' vm ct term c cterm lt = voteReq r vm ct term c cterm lt := by
  funext to
  unfold voteReq; rw [h.id, h.priority, h.log.lastIndex]

/-! ### `campaign` -/

/-- the request type of a campaign -/
def campaignMsgType (ct : CampaignType) : MsgType :=
  if ct = .preElection then .msgRequestPreVote else .msgRequestVote

/-- outcome 1 of `campaign`: the node's own vote is a quorum of its configuration — it becomes a
candidate of `term + 1` with its own vote recorded, then leader at once (`become_leader`,
`bcast_append`); no vote request is sent -/
structure CampaignWon (r r' : Raft) : Prop where
  self : selfWins r
  path : ∃ r0, Keep r r0 ∧ r0.term = r.term + 1 ∧ r0.vote = r.id ∧ r0.state = .candidate ∧
    r0.prs.votes = [(r.id, true)] ∧ wonBy r0 r'

/-- outcome 2 of `campaign`: the own vote is not a quorum (it is then pending: alone it never loses,
`c02_self_not_lost`); the node is a (pre-)candidate whose vote record holds its own vote only, one
request per other voter is queued, and nothing else of the log / identity / configuration moved -/
structure CampaignAsked (r r' : Raft) (ct : CampaignType) : Prop where
  notSelf : ¬ selfWins r
  log : LogSame r.raftLog r'.raftLog
  id : r'.id = r.id
  priority : r'.priority = r.priority
  conf : r'.prs.conf = r.prs.conf
  msgs : ∃ lt c cterm, r.raftLog.lastTerm = .ok lt ∧ r.raftLog.commitInfo = .ok (c, cterm) ∧
    r'.msgs = r.msgs ++
      (c02_voteTargets r).map (voteReq r (campaignMsgType ct) ct (r.term + 1) c cterm lt)
  term : r'.term = if ct = .preElection then r.term else r.term + 1
  vote : r'.vote = if ct = .preElection then r.vote else r.id
  state : r'.state = if ct = .preElection then .preCandidate else .candidate
  votes : r'.prs.votes = [(r.id, true)]

theorem c02_asked_of {r r2 r' : Raft} {ct : CampaignType} {vm : MsgType} (hk : Keep r r2)
    (hvm : vm = .msgRequestVote ∨ vm = .msgRequestPreVote)
    {term : Nat} (ht : term = r.term + 1) (hs : r2.sendVoteRequests ct vm term = .ok r') :
    LogSame r.raftLog r'.raftLog ∧ r'.id = r.id ∧ r'.priority = r.priority ∧
    r'.prs.conf = r.prs.conf ∧
    (∃ lt c cterm, r.raftLog.lastTerm = .ok lt ∧ r.raftLog.commitInfo = .ok (c, cterm) ∧
      r'.msgs = r.msgs ++ (c02_voteTargets r).map (voteReq r vm ct (r.term + 1) c cterm lt)) ∧
    r'.term = r2.term ∧ r'.vote = r2.vote ∧ r'.state = r2.state ∧ r'.prs.votes = r2.prs.votes := by
  subst ht
  obtain ⟨lt, c, cterm, h1, h2, h3⟩ := c02_sendVoteRequests_spec hvm (by omega) hs
  subst h3
  refine ⟨hk.log, hk.id, hk.priority, hk.conf, ⟨lt, c, cterm, ?_, ?_, ?_⟩, rfl, rfl, rfl, rfl⟩
  · rw [← hk.log.lastTerm]; exact h1
  · rw [← hk.log.commitInfo]; exact h2
  · show r2.msgs ++ _ = _
    rw [hk.msgs, c02_voteTargets_keep hk, c02_voteReq_keep hk]

/-- a real campaign (`CAMPAIGN_ELECTION` / `CAMPAIGN_TRANSFER`), whatever `poll` does when a
*pre-candidate* wins (the node is a candidate here) -/
theorem c02_campaignWith_election {f : Raft → Res Raft} {r r' : Raft} {ct : CampaignType}
    (hct : ct ≠ .preElection) (h : campaignWith (pollWith f) r ct = .ok r') :
    CampaignWon r r' ∨ CampaignAsked r r' ct := by
  unfold Raft.campaignWith at h
  simp only [hct, if_false] at h
  rw [Res.bind_eq_ok_iff] at h
  obtain ⟨⟨r1, vm, t⟩, h1, h2⟩ := h
  rw [Res.bind_eq_ok_iff] at h1
  obtain ⟨r0, h3, h4⟩ := h1
  cases h4
  obtain ⟨hk, e1, e2, e3, e4, _⟩ := c02_becomeCandidate_spec h3
  simp only at h2
  rw [Res.bind_eq_ok_iff] at h2
  obtain ⟨⟨r2, res⟩, h5, h6⟩ := h2
  simp only at h6
  obtain ⟨p1, p2⟩ := c02_pollWith_cases h5
  obtain ⟨v1, v2⟩ := c02_self_vote e4
  have hkv : Keep r (voted r1 r1.id true) := hk.trans (c02_voted_keep _ _ _)
  have hself : res = .won ↔ selfWins r := by
    rw [← c02_selfWins_keep hk, p1, v2]; exact Iff.rfl
  have hmt : campaignMsgType ct = .msgRequestVote := by simp [campaignMsgType, hct]
  rcases p2 with ⟨_, c, _⟩ | ⟨a, _, c⟩ | ⟨a, c⟩ | ⟨a, c⟩
  · rw [e3] at c; cases c
  · subst a
    simp only [if_true] at h6
    cases h6
    refine Or.inl ⟨hself.1 rfl, voted r1 r1.id true, hkv, e1, e2, e3, ?_, c⟩
    rw [v1, hk.id]
  · subst a
    exact absurd (p1.trans v2).symm (c02_self_not_lost _ _)
  · subst a
    simp only [show ¬ VoteResult.pending = VoteResult.won by decide, if_false] at h6
    subst c
    obtain ⟨q1, q2, q3, q4, q5, q6, q7, q8, q9⟩ := c02_asked_of hkv (Or.inl rfl) e1 h6
    refine Or.inr ⟨fun hw => (by cases hself.2 hw), q1, q2, q3, q4, (by rw [hmt]; exact q5), ?_, ?_,
      ?_, ?_⟩
    · rw [if_neg hct, q6]; exact e1
    · rw [if_neg hct, q7]; exact e2
    · rw [if_neg hct, q8]; exact e3
    · rw [q9, v1, hk.id]

/-- **`campaign`** (raft.rs:1287), all three kinds: either the own vote is a quorum and the node is
leader at once, or one request per other voter is queued -/
theorem c02_campaign_cases {r r' : Raft} {ct : CampaignType} (h : r.campaign ct = .ok r') :
    CampaignWon r r' ∨ CampaignAsked r r' ct := by
  by_cases hct : ct = .preElection
  · subst hct
    unfold Raft.campaign Raft.campaignWith at h
    simp only [if_true] at h
    rw [Res.bind_eq_ok_iff] at h
    obtain ⟨⟨r1, vm, t⟩, h1, h2⟩ := h
    rw [Res.bind_eq_ok_iff] at h1
    obtain ⟨r0, h3, h4⟩ := h1
    obtain ⟨hk, e1, e2, e3, e4, _⟩ := c02_becomePreCandidate_spec h3
    split at h4
    · cases h4
    · cases h4
      simp only at h2
      rw [Res.bind_eq_ok_iff] at h2
      obtain ⟨⟨r2, res⟩, h5, h6⟩ := h2
      simp only at h6
      unfold Raft.poll at h5
      obtain ⟨p1, p2⟩ := c02_pollWith_cases h5
      obtain ⟨v1, v2⟩ := c02_self_vote e4
      have hkv : Keep r (voted r1 r1.id true) := hk.trans (c02_voted_keep _ _ _)
      have hself : res = .won ↔ selfWins r := by
        rw [← c02_selfWins_keep hk, p1, v2]; exact Iff.rfl
      have hmt : campaignMsgType .preElection = .msgRequestPreVote := rfl
      have et : r1.term + 1 = r.term + 1 := by rw [e1]
      rcases p2 with ⟨a, _, c⟩ | ⟨_, c, _⟩ | ⟨a, c⟩ | ⟨a, c⟩
      · subst a
        simp only [if_true] at h6
        cases h6
        unfold Raft.campaignAfterPreVote at c
        rcases c02_campaignWith_election (by decide) c with w | w
        · obtain ⟨r0', k1, k2, k3, k4, k5, k6⟩ := w.path
          refine Or.inl ⟨hself.1 rfl, r0', hkv.trans k1, ?_, ?_, k4, ?_, k6⟩
          · rw [k2]; show r1.term + 1 = _; rw [e1]
          · rw [k3]; exact hkv.id
          · rw [k5, hkv.id]
        · exact absurd ((c02_selfWins_keep hkv).2 (hself.1 rfl)) w.notSelf
      · rw [e3] at c; exact absurd rfl c
      · subst a
        exact absurd (p1.trans v2).symm (c02_self_not_lost _ _)
      · subst a
        simp only [show ¬ VoteResult.pending = VoteResult.won by decide, if_false] at h6
        subst c
        obtain ⟨q1, q2, q3, q4, q5, q6, q7, q8, q9⟩ := c02_asked_of hkv (Or.inr rfl) et h6
        refine Or.inr ⟨fun hw => (by cases hself.2 hw), q1, q2, q3, q4, (by rw [hmt]; exact q5), ?_, ?_,
          ?_, ?_⟩
        · rw [if_pos rfl, q6]; exact e1
        · rw [if_pos rfl, q7]; exact e2
        · rw [if_pos rfl, q8]; exact e3
        · rw [q9, v1, hk.id]
  · unfold Raft.campaign Raft.poll at h
    exact c02_campaignWith_election hct h

/-- **`hup`** (raft.rs:1543): nothing, or a campaign of a promotable non-leader — a transfer when
asked for one, a pre-election with `pre_vote`, an election otherwise -/
theorem c02_hup_cases {r r' : Raft} {tr : Bool} (h : r.hup tr = .ok r') :
    r' = r ∨
    (r.state ≠ .leader ∧ r.promotable = true ∧
      ∃ ct, r.campaign ct = .ok r' ∧ (ct = .transfer ↔ tr = true) ∧
        (ct = .preElection ↔ (tr = false ∧ r.preVote = true))) := by
  unfold Raft.hup at h
  split at h
  · cases h; exact Or.inl rfl
  · rename_i hl
    split at h
    · cases h; exact Or.inl rfl
    · rename_i hp
      have hp' : r.promotable = true := by simpa using hp
      split at h
      · cases h
      · cases h
      · cases h; exact Or.inl rfl
      · split at h
        · cases h; exact Or.inl rfl
        · split at h
          · rename_i ht
            exact Or.inr ⟨hl, hp', .transfer, h, by simp [ht], by simp [ht]⟩
          · rename_i ht
            have ht' : tr = false := by simpa using ht
            split at h
            · rename_i hpv
              exact Or.inr ⟨hl, hp', .preElection, h, by simp [ht'], by simp [ht', hpv]⟩
            · rename_i hpv
              exact Or.inr ⟨hl, hp', .election, h, by simp [ht'], by simp [hpv]⟩

/-! ### the vote arm of `step` -/

/-- the condition of raft.rs:1497-1499 spelled out -/
theorem c02_voteGranted_iff (r : Raft) (m : Message) :
    r.voteGranted m = .ok true ↔
      r.canVote m = true ∧ r.raftLog.isUpToDate m.index m.logTerm = .ok true ∧
      (r.raftLog.lastIndex < m.index ∨ r.priority ≤ getPriority m) := by
  unfold Raft.voteGranted
  by_cases hc : r.canVote m = true
  · simp only [hc, if_true, true_and]
    cases hu : r.raftLog.isUpToDate m.index m.logTerm with
    | ok b => cases b <;> simp
    | err e => simp
    | panic s => simp
  · simp [hc]

theorem c02_voteGranted_false_iff (r : Raft) (m : Message) :
    r.voteGranted m = .ok false ↔
      r.canVote m = false ∨
      (r.canVote m = true ∧ r.raftLog.isUpToDate m.index m.logTerm = .ok false) ∨
      (r.canVote m = true ∧ r.raftLog.isUpToDate m.index m.logTerm = .ok true ∧
        ¬ (r.raftLog.lastIndex < m.index ∨ r.priority ≤ getPriority m)) := by
  unfold Raft.voteGranted
  by_cases hc : r.canVote m = true
  · simp only [hc, if_true, true_and]
    cases hu : r.raftLog.isUpToDate m.index m.logTerm with
    | ok b => cases b <;> simp
    | err e => simp
    | panic s => simp
  · simp [hc]

theorem c02_commitTo_frozen {l l' : RaftLog} {i : Nat} (h : l.commitTo i = .ok l') : LogFrozen l l' := by
  unfold RaftLog.commitTo at h
  split at h
  · cases h; exact LogFrozen.rfl
  · rename_i hlt
    split at h
    · cases h
    · cases h
      exact ⟨rfl, rfl, by show l.committed ≤ i; omega, rfl, rfl⟩

theorem c02_maybeCommit_frozen {l l' : RaftLog} {i t : Nat} {b : Bool}
    (h : l.maybeCommit i t = .ok (l', b)) : LogFrozen l l' := by
  unfold RaftLog.maybeCommit at h
  split at h
  · split at h
    · split at h
      · split at h
        · cases h; exact c02_commitTo_frozen ‹_›
        · cases h
        · cases h
      · cases h; exact LogFrozen.rfl
    · cases h; exact LogFrozen.rfl
    · cases h
  · cases h; exact LogFrozen.rfl

/-- `maybe_commit_by_vote` (raft.rs:2248): the commit index may advance; a (pre-)candidate that
thereby learns of an unapplied configuration change steps down at the same term; nothing else -/
theorem c02_maybeCommitByVote_spec {r r' : Raft} {m : Message} (h : r.maybeCommitByVote m = .ok r') :
    r'.msgs = r.msgs ∧ LogFrozen r.raftLog r'.raftLog ∧ r'.term = r.term ∧ r'.vote = r.vote ∧
    r'.id = r.id ∧ r'.prs.conf = r.prs.conf ∧
    ((r'.state = r.state ∧ r'.prs.votes = r.prs.votes ∧ r'.leaderId = r.leaderId ∧
        r'.electionElapsed = r.electionElapsed) ∨
     ((r.state = .candidate ∨ r.state = .preCandidate) ∧ r'.state = .follower ∧ r'.prs.votes = [])) := by
  unfold Raft.maybeCommitByVote at h
  split at h
  · cases h; exact ⟨rfl, LogFrozen.rfl, rfl, rfl, rfl, rfl, Or.inl ⟨rfl, rfl, rfl, rfl⟩⟩
  · simp only at h
    split at h
    · cases h; exact ⟨rfl, LogFrozen.rfl, rfl, rfl, rfl, rfl, Or.inl ⟨rfl, rfl, rfl, rfl⟩⟩
    · split at h
      · cases h
      · cases h
      · cases h; exact ⟨rfl, LogFrozen.rfl, rfl, rfl, rfl, rfl, Or.inl ⟨rfl, rfl, rfl, rfl⟩⟩
      · rename_i log hmc
        have hfz := c02_maybeCommit_frozen hmc
        split at h
        · cases h; exact ⟨rfl, hfz, rfl, rfl, rfl, rfl, Or.inl ⟨rfl, rfl, rfl, rfl⟩⟩
        · rename_i hst
          split at h
          · cases h
          · cases h
          · cases h
            have hk := c02_becomeFollower_keep ({ r with raftLog := log } : Raft) r.term 0
            obtain ⟨f1, _, f3, f4, f5⟩ := c02_becomeFollower_fields ({ r with raftLog := log } : Raft) r.term 0
            refine ⟨hk.msgs, hfz.trans hk.log.frozen, f4, ?_, hk.id, hk.conf, Or.inr ⟨?_, f1, f3⟩⟩
            · rw [f5]; show (if r.term ≠ r.term then 0 else r.vote) = r.vote; simp
            · show r.state = .candidate ∨ r.state = .preCandidate
              cases hr : r.state <;> simp [hr] at hst ⊢
          · cases h; exact ⟨rfl, hfz, rfl, rfl, rfl, rfl, Or.inl ⟨rfl, rfl, rfl, rfl⟩⟩

/-- the response to a granted request (raft.rs:1510-1515), as queued -/
def grantResp (r : Raft) (m : Message) (t : MsgType) : Message :=
  r.sendFill { msgType := t, to := m.frm, reject := false, term := m.term }

/-- the response to a refused request (raft.rs:1522-1528), as queued -/
def rejectResp (r : Raft) (m : Message) (t : MsgType) (c cterm : Nat) : Message :=
  r.sendFill { msgType := t, to := m.frm, reject := true, term := r.term, commit := c, commitTerm := cterm }

theorem c02_sendFill_resp (r : Raft) (x : Message)
    (ht : x.msgType = .msgRequestVoteResponse ∨ x.msgType = .msgRequestPreVoteResponse) :
    r.sendFill x = if x.frm = 0 then { x with frm := r.id } else x := by
  unfold Raft.sendFill
  rcases ht with ht | ht <;> by_cases hf : x.frm = 0 <;> simp [ht, hf, isVoteMsg]

/-- raft.rs:1510-1520: a grant queues exactly one response with `reject = false`; only a real vote is
recorded (`vote := m.from`, `election_elapsed := 0`) -/
theorem c02_stepVoteGrant_spec {r r' : Raft} {m : Message} {t : MsgType}
    (h : r.stepVoteGrant m t = .ok r') :
    r' = (if m.msgType = .msgRequestVote
          then { r with msgs := r.msgs ++ [grantResp r m t], electionElapsed := 0, vote := m.frm }
          else { r with msgs := r.msgs ++ [grantResp r m t] }) := by
  unfold Raft.stepVoteGrant at h
  split at h
  · rename_i r1 hs
    have := send_eq r r1 _ hs
    subst this
    split at h
    · rename_i hv; cases h; rw [if_pos hv]; rfl
    · rename_i hv; cases h; rw [if_neg hv]; rfl
  · cases h
  · cases h

/-- raft.rs:1522-1531: a refusal queues exactly one response with `reject = true` carrying the
commit point, then may use the commit point the request carried -/
theorem c02_stepVoteReject_spec {r r' : Raft} {m : Message} {t : MsgType}
    (h : r.stepVoteReject m t = .ok r') :
    ∃ c cterm, r.raftLog.commitInfo = .ok (c, cterm) ∧
      (r' = { r with msgs := r.msgs ++ [rejectResp r m t c cterm] } ∨
       ({ r with msgs := r.msgs ++ [rejectResp r m t c cterm] } : Raft).maybeCommitByVote m = .ok r') := by
  unfold Raft.stepVoteReject at h
  split at h
  · cases h
  · cases h
  · rename_i c cterm hci
    refine ⟨c, cterm, hci, ?_⟩
    split at h
    · rename_i r1 hs
      have := send_eq r r1 _ hs
      subst this
      split at h
      · exact Or.inr h
      · cases h; exact Or.inl rfl
    · cases h
    · cases h

/-- the outcome of the `MsgRequestVote | MsgRequestPreVote` arm of `step` (raft.rs:1489-1533) -/
structure VoteArm (r r' : Raft) (m : Message) : Prop where
  /-- exactly one message is queued: the response -/
  resp : ∃ t x, voteRespMsgType m.msgType = some t ∧ r'.msgs = r.msgs ++ [x] ∧ x.msgType = t ∧
    x.to = m.frm ∧ (x.reject = false ↔ r.voteGranted m = .ok true) ∧
    (x.reject = true ↔ r.voteGranted m = .ok false) ∧
    (x.reject = false → x.term = m.term) ∧
    (x.reject = true → x.term = r.term ∧ r.raftLog.commitInfo = .ok (x.commit, x.commitTerm))
  term : r'.term = r.term
  id : r'.id = r.id
  conf : r'.prs.conf = r.prs.conf
  log : LogFrozen r.raftLog r'.raftLog
  /-- granted: the log is untouched; a real vote is recorded, a pre-vote is not -/
  granted : r.voteGranted m = .ok true →
    r'.raftLog = r.raftLog ∧ r'.state = r.state ∧ r'.prs = r.prs ∧ r'.leaderId = r.leaderId ∧
    (m.msgType = .msgRequestVote → r'.vote = m.frm ∧ r'.electionElapsed = 0) ∧
    (m.msgType ≠ .msgRequestVote → r'.vote = r.vote ∧ r'.electionElapsed = r.electionElapsed)
  /-- refused: the vote and the election timer are untouched -/
  refused : r.voteGranted m = .ok false →
    r'.vote = r.vote ∧
    ((r'.state = r.state ∧ r'.prs.votes = r.prs.votes ∧ r'.leaderId = r.leaderId ∧
        r'.electionElapsed = r.electionElapsed) ∨
     ((r.state = .candidate ∨ r.state = .preCandidate) ∧ r'.state = .follower ∧ r'.prs.votes = []))
  decided : r.voteGranted m = .ok true ∨ r.voteGranted m = .ok false

theorem c02_stepVote_spec {r r' : Raft} {m : Message} (h : r.stepVote m = .ok r') : VoteArm r r' m := by
  unfold Raft.stepVote at h
  split at h
  · cases h
  · rename_i t ht
    have htt : t = .msgRequestVoteResponse ∨ t = .msgRequestPreVoteResponse := by
      cases hm : m.msgType <;> simp [hm, voteRespMsgType] at ht <;> simp [← ht]
    split at h
    · rename_i hg
      have hspec := c02_stepVoteGrant_spec h
      have hx : (grantResp r m t).msgType = t ∧ (grantResp r m t).to = m.frm ∧
          (grantResp r m t).reject = false ∧ (grantResp r m t).term = m.term := by
        unfold grantResp
        rw [c02_sendFill_resp _ _ htt]
        split <;> exact ⟨rfl, rfl, rfl, rfl⟩
      have hresp : ∃ t' x, voteRespMsgType m.msgType = some t' ∧
          (r.msgs ++ [grantResp r m t]) = r.msgs ++ [x] ∧ x.msgType = t' ∧
          x.to = m.frm ∧ (x.reject = false ↔ r.voteGranted m = .ok true) ∧
          (x.reject = true ↔ r.voteGranted m = .ok false) ∧
          (x.reject = false → x.term = m.term) ∧
          (x.reject = true → x.term = r.term ∧ r.raftLog.commitInfo = .ok (x.commit, x.commitTerm)) :=
        ⟨t, _, ht, rfl, hx.1, hx.2.1, by simp [hx.2.2.1, hg], by simp [hx.2.2.1, hg],
          fun _ => hx.2.2.2, by simp [hx.2.2.1]⟩
      by_cases hv : m.msgType = .msgRequestVote
      · rw [if_pos hv] at hspec
        subst hspec
        exact ⟨hresp, rfl, rfl, rfl, LogFrozen.rfl,
          fun _ => ⟨rfl, rfl, rfl, rfl, fun _ => ⟨rfl, rfl⟩, fun hn => absurd hv hn⟩,
          fun hf => (by rw [hg] at hf; cases hf), Or.inl hg⟩
      · rw [if_neg hv] at hspec
        subst hspec
        exact ⟨hresp, rfl, rfl, rfl, LogFrozen.rfl,
          fun _ => ⟨rfl, rfl, rfl, rfl, fun hn => absurd hn hv, fun _ => ⟨rfl, rfl⟩⟩,
          fun hf => (by rw [hg] at hf; cases hf), Or.inl hg⟩
    · rename_i hg
      obtain ⟨c, cterm, hci, hspec⟩ := c02_stepVoteReject_spec h
      have hx : (rejectResp r m t c cterm).msgType = t ∧ (rejectResp r m t c cterm).to = m.frm ∧
          (rejectResp r m t c cterm).reject = true ∧ (rejectResp r m t c cterm).term = r.term ∧
          (rejectResp r m t c cterm).commit = c ∧ (rejectResp r m t c cterm).commitTerm = cterm := by
        unfold rejectResp
        rw [c02_sendFill_resp _ _ htt]
        split <;> exact ⟨rfl, rfl, rfl, rfl, rfl, rfl⟩
      have hresp : ∃ t' x, voteRespMsgType m.msgType = some t' ∧
          (r.msgs ++ [rejectResp r m t c cterm]) = r.msgs ++ [x] ∧ x.msgType = t' ∧
          x.to = m.frm ∧ (x.reject = false ↔ r.voteGranted m = .ok true) ∧
          (x.reject = true ↔ r.voteGranted m = .ok false) ∧
          (x.reject = false → x.term = m.term) ∧
          (x.reject = true → x.term = r.term ∧ r.raftLog.commitInfo = .ok (x.commit, x.commitTerm)) :=
        ⟨t, _, ht, rfl, hx.1, hx.2.1, by simp [hx.2.2.1, hg], by simp [hx.2.2.1, hg],
          by simp [hx.2.2.1], fun _ => ⟨hx.2.2.2.1, by rw [hx.2.2.2.2.1, hx.2.2.2.2.2]; exact hci⟩⟩
      rcases hspec with hspec | hspec
      · subst hspec
        exact ⟨hresp, rfl, rfl, rfl, LogFrozen.rfl, fun hf => (by rw [hg] at hf; cases hf),
          fun _ => ⟨rfl, Or.inl ⟨rfl, rfl, rfl, rfl⟩⟩, Or.inr hg⟩
      · obtain ⟨q1, q2, q3, q4, q5, q6, q7⟩ := c02_maybeCommitByVote_spec hspec
        refine ⟨?_, q3, q5, q6, q2, fun hf => (by rw [hg] at hf; cases hf), fun _ => ⟨q4, q7⟩, Or.inr hg⟩
        rw [q1]; exact hresp
    · cases h
    · cases h

/-! ### the role arms of `step` -/

/-- `step_leader` (raft.rs:2072): the frame (term, vote, role, leader) is kept, except that a leader
without an active quorum steps down at the same term on `MsgCheckQuorum` -/
theorem c02_stepLeader_cases {r r' : Raft} {m : Message} {e : Option RaftError}
    (h : r.stepLeader m = .ok (r', e)) :
    Frame r r' ∨ (r'.state = .follower ∧ r'.term = r.term ∧ r'.vote = r.vote) := by
  unfold Raft.stepLeader at h
  split at h
  · left; frame_dec h; exact bcastHeartbeat_frame ‹_› Frame.rfl
  · simp only [Raft.checkQuorumActive] at h
    cases hq : (r.prs.quorumRecentlyActive r.id).2
    · simp only [hq, Bool.not_false, if_true] at h
      cases h
      right
      obtain ⟨f1, _, _, f4, f5⟩ := c02_becomeFollower_fields
        ({ r with prs := (r.prs.quorumRecentlyActive r.id).1 } : Raft) r.term 0
      refine ⟨f1, f4, ?_⟩
      rw [f5]; show (if r.term ≠ r.term then 0 else r.vote) = r.vote; simp
    · simp only [hq, Bool.not_true, Bool.false_eq_true, if_false] at h
      cases h; exact Or.inl (Frame.mk' Frame.rfl)
  · left; frame_auto h [appendEntry_frame, bcastAppend_frame, filterProposal_frame]
  · left; frame_auto h [handleReadyReadIndex_frame, send_frame, bcastHeartbeatWithCtx_frame]
  · left; frame_auto h [handleAppendResponse_frame]
  · left; frame_auto h [handleHeartbeatResponse_frame]
  · cases h; exact Or.inl (handleSnapshotStatus_frame Frame.rfl)
  · cases h; exact Or.inl (handleUnreachable_frame Frame.rfl)
  · left; frame_auto h [handleTransferLeader_frame]
  · cases h; exact Or.inl Frame.rfl

/-- term, vote, role and identity are unchanged -/
structure TVS (r r' : Raft) : Prop where
  term : r'.term = r.term
  vote : r'.vote = r.vote
  state : r'.state = r.state
  id : r'.id = r.id

theorem c02_frame_tvs {r r' : Raft} (h : Frame r r') : TVS r r' := ⟨h.term, h.vote, h.state, h.id⟩

/-- `step_follower` (raft.rs:2377): term, vote and role are kept, except for `MsgTimeoutNow` →
`hup(true)` -/
theorem c02_stepFollower_cases {r r' : Raft} {m : Message} {e : Option RaftError}
    (hs : r.state = .follower) (h : r.stepFollower m = .ok (r', e)) :
    TVS r r' ∨ (m.msgType = .msgTimeoutNow ∧ r.promotable = true ∧ r.hup true = .ok r') := by
  unfold Raft.stepFollower at h
  split at h
  · left; apply c02_frame_tvs; frame_auto h [send_frame]
  · left
    rw [Res.bind_eq_ok_iff] at h
    obtain ⟨r1, h1, h2⟩ := h
    cases h2
    have hf := handleAppendEntries_frame h1 Frame.rfl
    exact ⟨hf.term, hf.vote, hf.state, hf.id⟩
  · left
    rw [Res.bind_eq_ok_iff] at h
    obtain ⟨r1, h1, h2⟩ := h
    cases h2
    have hf := handleHeartbeat_frame h1 Frame.rfl
    exact ⟨hf.term, hf.vote, hf.state, hf.id⟩
  · left
    rw [Res.bind_eq_ok_iff] at h
    obtain ⟨r1, h1, h2⟩ := h
    cases h2
    have hf := handleSnapshot_frame (by exact hs) h1 Frame.rfl
    exact ⟨hf.term, hf.vote, hf.state, hf.id⟩
  · left; apply c02_frame_tvs; frame_auto h [send_frame]
  · rename_i hm
    split at h
    · rename_i hp
      rw [Res.bind_eq_ok_iff] at h
      obtain ⟨r1, h1, h2⟩ := h
      cases h2
      exact Or.inr ⟨hm, hp, h1⟩
    · cases h; exact Or.inl (c02_frame_tvs Frame.rfl)
  · left; apply c02_frame_tvs; frame_auto h [send_frame]
  · left; apply c02_frame_tvs; frame_auto h [send_frame]
  · cases h; exact Or.inl (c02_frame_tvs Frame.rfl)

/-- `step_candidate` (raft.rs:2320) of a candidate or pre-candidate: nothing; or a message of the
leader of this term (`become_follower(m.term, m.from)`, then the follower's handler); or a response of
the right kind — `MsgRequestVoteResponse` for a candidate, `MsgRequestPreVoteResponse` for a
pre-candidate — is polled; since fix F16 a pre-candidate polls a *granted* pre-vote response only if
it carries the term of this pre-campaign, `m.term = r.term + 1` (any other grant: nothing) -/
theorem c02_stepCandidate_cases {r r' : Raft} {m : Message} {e : Option RaftError}
    (hs : r.state = .candidate ∨ r.state = .preCandidate)
    (h : r.stepCandidate m = .ok (r', e)) :
    r' = r ∨
    ((m.msgType = .msgAppend ∨ m.msgType = .msgHeartbeat ∨ m.msgType = .msgSnapshot) ∧
      r.term = m.term ∧ Frame (r.becomeFollower m.term m.frm) r') ∨
    (((r.state = .candidate ∧ m.msgType = .msgRequestVoteResponse) ∨
      (r.state = .preCandidate ∧ m.msgType = .msgRequestPreVoteResponse ∧
        (m.reject = true ∨ m.term = r.term + 1))) ∧
     ∃ r2 res, r.poll m.frm m.msgType (!m.reject) = .ok (r2, res) ∧ r2.maybeCommitByVote m = .ok r') := by
  have hbf : ∀ l, (r.becomeFollower m.term l).state = .follower := fun l => rfl
  unfold Raft.stepCandidate at h
  split at h
  · cases h; exact Or.inl rfl
  · rename_i hm
    right; left
    split at h
    · cases h
    · rename_i ht
      rw [Res.bind_eq_ok_iff] at h
      obtain ⟨r1, h1, h2⟩ := h
      cases h2
      exact ⟨Or.inl hm, Decidable.not_not.mp ht, handleAppendEntries_frame h1 Frame.rfl⟩
  · rename_i hm
    right; left
    split at h
    · cases h
    · rename_i ht
      rw [Res.bind_eq_ok_iff] at h
      obtain ⟨r1, h1, h2⟩ := h
      cases h2
      exact ⟨Or.inr (Or.inl hm), Decidable.not_not.mp ht, handleHeartbeat_frame h1 Frame.rfl⟩
  · rename_i hm
    right; left
    split at h
    · cases h
    · rename_i ht
      rw [Res.bind_eq_ok_iff] at h
      obtain ⟨r1, h1, h2⟩ := h
      cases h2
      exact ⟨Or.inr (Or.inr hm), Decidable.not_not.mp ht, handleSnapshot_frame (hbf _) h1 Frame.rfl⟩
  · rename_i hm
    split at h
    · cases h; exact Or.inl rfl
    · rename_i hc
      split at h
      · cases h; exact Or.inl rfl
      rename_i hf
      right; right
      rw [Res.bind_eq_ok_iff] at h
      obtain ⟨⟨r1, res⟩, h1, h2⟩ := h
      simp only at h2
      rw [Res.bind_eq_ok_iff] at h2
      obtain ⟨r2, h3, h4⟩ := h2
      cases h4
      refine ⟨?_, r1, res, h1, h3⟩
      rcases hs with hs | hs
      · exact absurd (Or.inr ⟨hs, by rw [hm]; decide⟩) hc
      · refine Or.inr ⟨hs, hm, ?_⟩
        cases hrj : m.reject
        · right
          apply Decidable.byContradiction
          intro hne
          exact hf ⟨hs, hrj, fun hh => hne hh.2⟩
        · exact Or.inl rfl
  · rename_i hm
    split at h
    · cases h; exact Or.inl rfl
    · rename_i hc
      split at h
      · cases h; exact Or.inl rfl
      right; right
      rw [Res.bind_eq_ok_iff] at h
      obtain ⟨⟨r1, res⟩, h1, h2⟩ := h
      simp only at h2
      rw [Res.bind_eq_ok_iff] at h2
      obtain ⟨r2, h3, h4⟩ := h2
      cases h4
      refine ⟨?_, r1, res, h1, h3⟩
      rcases hs with hs | hs
      · exact Or.inl ⟨hs, hm⟩
      · exact absurd (Or.inl ⟨hs, by rw [hm]; decide⟩) hc
  · cases h; exact Or.inl rfl

/-- the term preamble of `step` (raft.rs:1352-1482): the state is untouched; or a lower-term message
is answered (nothing but the queue changes) and consumed; or a higher-term message — not a pre-vote
request, not a granted pre-vote response, not a vote request ignored under the lease — makes the node
a follower of `m.term` first -/
theorem c02_stepTerm_cases {r r1 : Raft} {m : Message} {b : Bool} (h : r.stepTerm m = .ok (r1, b)) :
    (r1 = r ∧ (b = true → m.term = 0 ∨ m.term = r.term ∨
        (r.term < m.term ∧ (m.msgType = .msgRequestPreVote ∨
          (m.msgType = .msgRequestPreVoteResponse ∧ m.reject = false))))) ∨
    (b = false ∧ m.term < r.term ∧ m.term ≠ 0 ∧ ∃ x, r.send x = .ok r1 ∧
      ((m.msgType = .msgRequestPreVote ∧
          x = { msgType := .msgRequestPreVoteResponse, to := m.frm, term := r.term, reject := true }) ∨
       ((m.msgType = .msgHeartbeat ∨ m.msgType = .msgAppend) ∧
          x = newMessage m.frm .msgAppendResponse none))) ∨
    (b = true ∧ r.term < m.term ∧ m.msgType ≠ .msgRequestPreVote ∧
      ¬ (m.msgType = .msgRequestPreVoteResponse ∧ m.reject = false) ∧
      ∃ l, r1 = r.becomeFollower m.term l) := by
  unfold Raft.stepTerm at h
  split at h
  · rename_i h0; cases h; exact Or.inl ⟨rfl, fun _ => Or.inl h0⟩
  · rename_i h0
    split at h
    · rename_i hgt
      simp only at h
      split at h
      · cases h; exact Or.inl ⟨rfl, fun hb => by cases hb⟩
      · split at h
        · rename_i hpv
          cases h
          refine Or.inl ⟨rfl, fun _ => Or.inr (Or.inr ⟨hgt, ?_⟩)⟩
          rcases hpv with hpv | hpv
          · exact Or.inl hpv
          · exact Or.inr ⟨hpv.1, by simpa using hpv.2⟩
        · rename_i hpv
          have hpv1 : m.msgType ≠ .msgRequestPreVote := fun e => hpv (Or.inl e)
          have hpv2 : ¬ (m.msgType = .msgRequestPreVoteResponse ∧ m.reject = false) :=
            fun e => hpv (Or.inr ⟨e.1, by simp [e.2]⟩)
          split at h
          · cases h; exact Or.inr (Or.inr ⟨rfl, hgt, hpv1, hpv2, _, rfl⟩)
          · cases h; exact Or.inr (Or.inr ⟨rfl, hgt, hpv1, hpv2, _, rfl⟩)
    · rename_i hngt
      split at h
      · rename_i hlt
        split at h
        · rename_i hc
          split at h
          · rename_i r2 hs
            cases h
            exact Or.inr (Or.inl ⟨rfl, hlt, h0, _, hs, Or.inr ⟨hc.2, rfl⟩⟩)
          · cases h
          · cases h
        · split at h
          · rename_i hc
            split at h
            · rename_i r2 hs
              cases h
              exact Or.inr (Or.inl ⟨rfl, hlt, h0, _, hs, Or.inl ⟨hc, rfl⟩⟩)
            · cases h
            · cases h
          · cases h; exact Or.inl ⟨rfl, fun hb => by cases hb⟩
      · rename_i hnlt
        cases h; exact Or.inl ⟨rfl, fun _ => Or.inr (Or.inl (by omega))⟩

/-- `Raft::step` unfolded along its dispatch -/
theorem c02_step_cases {r r' : Raft} {m : Message} {res : Option RaftError}
    (h : r.step m = .ok (r', res)) :
    ∃ r1 b, r.stepTerm m = .ok (r1, b) ∧
      ((b = false ∧ r' = r1) ∨
       (b = true ∧
        ((m.msgType = .msgHup ∧ r1.hup false = .ok r') ∨
         ((m.msgType = .msgRequestVote ∨ m.msgType = .msgRequestPreVote) ∧ r1.stepVote m = .ok r') ∨
         (m.msgType ≠ .msgHup ∧ m.msgType ≠ .msgRequestVote ∧ m.msgType ≠ .msgRequestPreVote ∧
           (((r1.state = .candidate ∨ r1.state = .preCandidate) ∧ r1.stepCandidate m = .ok (r', res)) ∨
            (r1.state = .follower ∧ r1.stepFollower m = .ok (r', res)) ∨
            (r1.state = .leader ∧ r1.stepLeader m = .ok (r', res))))))) := by
  unfold Raft.step at h
  split at h
  · cases h
  · cases h
  · rename_i r1 ht
    cases h
    exact ⟨_, false, ht, Or.inl ⟨rfl, rfl⟩⟩
  · rename_i r1 ht
    refine ⟨r1, true, ht, Or.inr ⟨rfl, ?_⟩⟩
    split at h
    · rename_i hm
      rw [Res.bind_eq_ok_iff] at h
      obtain ⟨r2, h1, h2⟩ := h
      cases h2
      exact Or.inl ⟨hm, h1⟩
    · rename_i hm
      split at h
      · cases h; exact Or.inr (Or.inl ⟨Or.inl hm, ‹_›⟩)
      · cases h
      · cases h
    · rename_i hm
      split at h
      · cases h; exact Or.inr (Or.inl ⟨Or.inr hm, ‹_›⟩)
      · cases h
      · cases h
    · rename_i h1 h2 h3
      refine Or.inr (Or.inr ⟨h1, h2, h3, ?_⟩)
      split at h
      · rename_i hs; exact Or.inl ⟨Or.inr hs, h⟩
      · rename_i hs; exact Or.inl ⟨Or.inl hs, h⟩
      · rename_i hs; exact Or.inr (Or.inl ⟨hs, h⟩)
      · rename_i hs; exact Or.inr (Or.inr ⟨hs, h⟩)

/-! ### for the non-vacuity examples -/

/-- `x` succeeded with a value satisfying `p` -/
def c02_okAnd {α : Type} (x : Res α) (p : α → Bool) : Bool :=
  match x with
  | .ok a => p a
  | _ => false

/-- a log with one persisted entry (index 1, term 2), nothing committed -/
def c02_exLog : RaftLog :=
  { (default : RaftLog) with
    store := { entries := [{ term := 2, index := 1 }] }, persisted := 1, unstable := { offset := 2 } }

def c02_pr0 : Progress := { matched := 0, nextIdx := 1, recentActive := true }

/-- follower 1 of {1,2,3} at term 2 with that log, no vote, no leader -/
def c02_exFollower : Raft :=
  { raftLog := c02_exLog, id := 1, term := 2, state := .follower, promotable := true,
    electionTimeout := 10, heartbeatTimeout := 2, maxInflight := 256,
    prs := { progress := [(1, c02_pr0), (2, c02_pr0), (3, c02_pr0)], conf := { incoming := [1, 2, 3] } } }

/-- candidate 1 of {1,2,3} at term 3 with its own vote recorded -/
def c02_exCandidate : Raft :=
  { c02_exFollower with
    prs := { c02_exFollower.prs with votes := [(1, true)] }, term := 3, vote := 1, state := .candidate }

/-- the only voter of {1} -/
def c02_exSingle : Raft :=
  { c02_exFollower with
    prs := ({ progress := [(1, c02_pr0)], conf := { incoming := [1] } } : ProgressTracker) }

end VoteOb
end Raft
end RaftModel
