import RaftProofs.ClusterCommit5P
import RaftProofs.ClusterSnap7A

/-! SCRIPTED COPY (C01n, `RaftProps/C01n.gen/copy_pw.py` + `patches_pw.py`) of `RaftProofs/ClusterCommit5P.lean`
into the nested namespace `RaftModel.Raft.PB.F`: the per-call relation of the batching layer with the
two extra facts `fi` / `qf` (anchors of new appends are not below the snapshot point). -/

namespace RaftModel
namespace Raft
namespace PB
namespace F
open CP RaftProps.C13

/-- the relation on the fields it reads -/
structure PWPb (a : Raft) (st : StateRole) (l : RaftLog) (t : ProgressTracker) (ro : ReadOnly)
    (ms : List Message) : Prop where
  inv : l.Inv
  po : st = .leader → QSnap ms ∨ PAll l.lastIndex t
  rd : st = .leader → ∀ p ∈ ro.pendingReadIndex, p.2.index ≤ l.committed
  qa : ∀ x ∈ ms, x.msgType = .msgAppend →
    (∃ y ∈ a.msgs, y.msgType = .msgAppend ∧ y.index = x.index ∧ y.logTerm = x.logTerm) ∨
      QSnap ms ∨ x.index ≤ l.lastIndex
  qr : ∀ x ∈ ms, x.msgType = .msgReadIndexResp → x ∈ a.msgs ∨ x.index ≤ l.committed
  sn : ∀ x ∈ a.msgs, x.msgType = .msgSnapshot → x ∈ ms
  /-- the first index of the log has not moved down since the start of the call … -/
  fi : a.raftLog.firstIndex ≤ l.firstIndex
  /-- … and every new `MsgAppend` is anchored at or above the snapshot point, or at the anchor of an
  old queued `MsgAppend` (batching) -/
  qf : ∀ x ∈ ms, x.msgType = .msgAppend →
    (∃ y ∈ a.msgs, y.msgType = .msgAppend ∧ y.index = x.index ∧ y.logTerm = x.logTerm) ∨
      QSnap ms ∨ a.raftLog.firstIndex ≤ x.index + 1

/-- **the per-call relation** -/
def PWb (a r : Raft) : Prop := PWPb a r.state r.raftLog r.prs r.readOnly r.msgs

theorem PWb.inv {a r : Raft} (h : PWb a r) : r.raftLog.Inv := PWPb.inv h

theorem PWb.po {a r : Raft} (h : PWb a r) :
    r.state = .leader → QSnap r.msgs ∨ PAll r.raftLog.lastIndex r.prs := PWPb.po h

theorem PWb.rd {a r : Raft} (h : PWb a r) :
    r.state = .leader → ∀ p ∈ r.readOnly.pendingReadIndex, p.2.index ≤ r.raftLog.committed :=
  PWPb.rd h

theorem PWb.qa {a r : Raft} (h : PWb a r) : ∀ x ∈ r.msgs, x.msgType = .msgAppend →
    (∃ y ∈ a.msgs, y.msgType = .msgAppend ∧ y.index = x.index ∧ y.logTerm = x.logTerm) ∨
      QSnap r.msgs ∨ x.index ≤ r.raftLog.lastIndex := PWPb.qa h

theorem PWb.qr {a r : Raft} (h : PWb a r) : ∀ x ∈ r.msgs, x.msgType = .msgReadIndexResp →
    x ∈ a.msgs ∨ x.index ≤ r.raftLog.committed := PWPb.qr h

theorem PWb.sn {a r : Raft} (h : PWb a r) : ∀ x ∈ a.msgs, x.msgType = .msgSnapshot → x ∈ r.msgs :=
  PWPb.sn h

theorem PWb.fi {a r : Raft} (h : PWb a r) : a.raftLog.firstIndex ≤ r.raftLog.firstIndex := PWPb.fi h

theorem PWb.qf {a r : Raft} (h : PWb a r) : ∀ x ∈ r.msgs, x.msgType = .msgAppend →
    (∃ y ∈ a.msgs, y.msgType = .msgAppend ∧ y.index = x.index ∧ y.logTerm = x.logTerm) ∨
      QSnap r.msgs ∨ a.raftLog.firstIndex ≤ x.index + 1 := PWPb.qf h

/-- the start of a call -/
theorem PWb.start {a : Raft} (hinv : a.raftLog.Inv)
    (hpo : a.state = .leader → QSnap a.msgs ∨ PAll a.raftLog.lastIndex a.prs)
    (hrd : a.state = .leader → ∀ p ∈ a.readOnly.pendingReadIndex, p.2.index ≤ a.raftLog.committed) :
    PWb a a :=
  ⟨hinv, hpo, hrd, fun x hx hty => .inl ⟨x, hx, hty, rfl, rfl⟩, fun _ hx _ => .inl hx, fun _ hx _ => hx,
    Nat.le_refl _, fun x hx hty => .inl ⟨x, hx, hty, rfl, rfl⟩⟩

/-- any structure update that keeps the role, the log, the tracker, the pending reads and the
queue keeps `PWb` -/
theorem PWb.mk' {a r : Raft} {x1 x2 x3 : Nat} {x4 : List ReadState} {x6 x7 x8 : Nat}
    {x10 : Bool} {x11 : Nat}
    {x12 : Option Nat} {x13 : Nat} {x15 x16 : Nat} {x17 x18 x19 x20 x21 : Bool}
    {x22 x23 x24 x25 x26 : Nat} {x27 : Int} {x28 : UncommittedState} {x29 : Nat}
    {x32 : Option Nat} (h0 : PWb a r) :
    PWb a { term := x1, vote := x2, id := x3, readStates := x4, raftLog := r.raftLog,
            maxInflight := x6, maxMsgSize := x7, pendingRequestSnapshot := x8, state := r.state,
            promotable := x10, leaderId := x11, leadTransferee := x12,
            pendingConfIndex := x13, readOnly := r.readOnly, electionElapsed := x15,
            heartbeatElapsed := x16, checkQuorum := x17, preVote := x18,
            skipBcastCommit := x19, batchAppend := x20, disableProposalForwarding := x21,
            heartbeatTimeout := x22, electionTimeout := x23, randomizedElectionTimeout := x24,
            minElectionTimeout := x25, maxElectionTimeout := x26, priority := x27,
            uncommittedState := x28, maxCommittedSizePerReady := x29, prs := r.prs, msgs := r.msgs,
            nextRand := x32 } := h0

/-- replacing the log by one that represents the same logical log -/
theorem PWb.log {a r : Raft} {l : RaftLog} (hl : LogSame r.raftLog l) (h0 : PWb a r) :
    PWb a { r with raftLog := l } := by
  have hfi : l.firstIndex = r.raftLog.firstIndex := by
    rw [(hl.inv h0.inv).firstIndex_abs, h0.inv.firstIndex_abs, hl.abs]
  refine ⟨hl.inv h0.inv, fun hs => ?_, fun hs p hp => ?_, fun x hx hty => ?_,
    fun x hx hty => ?_, h0.sn, by rw [hfi]; exact h0.fi, h0.qf⟩
  · show QSnap r.msgs ∨ PAll l.lastIndex r.prs
    rw [hl.last]; exact h0.po hs
  · exact Nat.le_trans (h0.rd hs p hp) hl.commit
  · show (∃ y ∈ a.msgs, y.msgType = .msgAppend ∧ y.index = x.index ∧ y.logTerm = x.logTerm) ∨
      QSnap r.msgs ∨ x.index ≤ l.lastIndex
    rw [hl.last]; exact h0.qa x hx hty
  · rcases h0.qr x hx hty with c | c
    · exact .inl c
    · exact .inr (Nat.le_trans c hl.commit)

/-- replacing the tracker -/
theorem PWb.prs {a r : Raft} {t : ProgressTracker} (h0 : PWb a r)
    (ht : r.state = .leader → QSnap r.msgs ∨ PAll r.raftLog.lastIndex t) :
    PWb a { r with prs := t } :=
  ⟨h0.inv, ht, h0.rd, h0.qa, h0.qr, h0.sn, h0.fi, h0.qf⟩

/-- writing back one progress -/
theorem PWb.setPr {a r : Raft} {id : Nat} {pr : Progress} (h0 : PWb a r)
    (hp : QSnap r.msgs ∨ POk r.raftLog.lastIndex pr) :
    PWb a { r with prs := r.prs.set id pr } := by
  refine h0.prs (fun hs => ?_)
  rcases hp with c | c
  · exact .inl c
  · rcases h0.po hs with d | d
    · exact .inl d
    · exact .inr (d.set id c)

/-- leaving the leader role (or staying outside it) with log and queue untouched -/
theorem PWb.nonleader {a r : Raft} (h0 : PWb a r) {st : StateRole} {t : ProgressTracker}
    {ro : ReadOnly} (hst : st ≠ .leader) :
    PWPb a st r.raftLog t ro r.msgs :=
  ⟨h0.inv, fun h => absurd h hst, fun h => absurd h hst, h0.qa, h0.qr, h0.sn, h0.fi, h0.qf⟩

/-- queueing a message of a type the relation does not speak about -/
theorem send_pw {a r r' : Raft} {m : Message} (h : r.send m = .ok r')
    (hm : wqT m.msgType = false) (h0 : PWb a r) : PWb a r' := by
  rw [send_eq r r' m h]
  have hty : wqT (r.sendFill m).msgType = false := by rw [sendFill_msgType]; exact hm
  refine ⟨h0.inv, fun hs => ?_, h0.rd, fun x hx hx' => ?_, fun x hx hx' => ?_,
    fun x hx hx' => List.mem_append_left _ (h0.sn x hx hx'), h0.fi, fun x hx hx' => ?_⟩
  · rcases h0.po hs with c | c
    · exact .inl (c.append_left _)
    · exact .inr c
  · rcases List.mem_append.1 hx with hx | hx
    · rcases h0.qa x hx hx' with c | c | c
      · exact .inl c
      · exact .inr (.inl (c.append_left _))
      · exact .inr (.inr c)
    · rw [List.mem_singleton.1 hx] at hx'
      rw [hx'] at hty; cases hty
  · rcases List.mem_append.1 hx with hx | hx
    · exact h0.qr x hx hx'
    · rw [List.mem_singleton.1 hx] at hx'
      rw [hx'] at hty; cases hty
  · rcases List.mem_append.1 hx with hx | hx
    · rcases h0.qf x hx hx' with c | c | c
      · exact .inl c
      · exact .inr (.inl (c.append_left _))
      · exact .inr (.inr c)
    · rw [List.mem_singleton.1 hx] at hx'
      rw [hx'] at hty; cases hty

/-- appending one message to the queue, in general -/
theorem PWb.push {a r : Raft} (h0 : PWb a r) (x : Message)
    (ha : x.msgType = .msgAppend → QSnap r.msgs ∨ x.index ≤ r.raftLog.lastIndex)
    (hr : x.msgType = .msgReadIndexResp → x.index ≤ r.raftLog.committed)
    (hf : x.msgType = .msgAppend → QSnap r.msgs ∨ r.raftLog.firstIndex ≤ x.index + 1) :
    PWb a { r with msgs := r.msgs ++ [x] } := by
  refine ⟨h0.inv, fun hs => ?_, h0.rd, fun y hy hy' => ?_, fun y hy hy' => ?_,
    fun y hy hy' => List.mem_append_left _ (h0.sn y hy hy'), h0.fi, fun y hy hy' => ?_⟩
  · rcases h0.po hs with c | c
    · exact .inl (c.append_left _)
    · exact .inr c
  · rcases List.mem_append.1 hy with hy | hy
    · rcases h0.qa y hy hy' with c | c | c
      · exact .inl c
      · exact .inr (.inl (c.append_left _))
      · exact .inr (.inr c)
    · rw [List.mem_singleton.1 hy] at hy' ⊢
      rcases ha hy' with c | c
      · exact .inr (.inl (c.append_left _))
      · exact .inr (.inr c)
  · rcases List.mem_append.1 hy with hy | hy
    · exact h0.qr y hy hy'
    · rw [List.mem_singleton.1 hy] at hy' ⊢
      exact .inr (hr hy')
  · rcases List.mem_append.1 hy with hy | hy
    · rcases h0.qf y hy hy' with c | c | c
      · exact .inl c
      · exact .inr (.inl (c.append_left _))
      · exact .inr (.inr c)
    · rw [List.mem_singleton.1 hy] at hy' ⊢
      rcases hf hy' with c | c
      · exact .inr (.inl (c.append_left _))
      · exact .inr (.inr (Nat.le_trans h0.fi c))

/-- queueing a `MsgSnapshot` poisons the queue: everything holds from then on -/
theorem PWb.poison {a r : Raft} (h0 : PWb a r) (x : Message) (hx : x.msgType = .msgSnapshot)
    (t : ProgressTracker) : PWb a { r with msgs := r.msgs ++ [x], prs := t } := by
  have hq : QSnap (r.msgs ++ [x]) := ⟨x, List.mem_append_right _ (List.mem_singleton.2 rfl), hx⟩
  refine ⟨h0.inv, fun _ => .inl hq, h0.rd, fun y _ _ => .inr (.inl hq), fun y hy hy' => ?_,
    fun y hy hy' => List.mem_append_left _ (h0.sn y hy hy'), h0.fi, fun y _ _ => .inr (.inl hq)⟩
  rcases List.mem_append.1 hy with hy | hy
  · exact h0.qr y hy hy'
  · rw [List.mem_singleton.1 hy, hx] at hy'; cases hy'

macro "pwf_pre" h:ident : tactic =>
  `(tactic| (frame_dec $h:ident <;> (iterate 2 (try (apply PWb.mk')))))

macro "pwf_auto" h:ident "[" ls:Lean.Parser.Tactic.SolveByElim.arg,* "]" : tactic =>
  `(tactic| (pwf_pre $h:ident <;> (solve_by_elim (maxDepth := 14) [$ls,*, PWb.mk'])))

/-- replacing the queue by one in which some `MsgAppend`s were replaced by `MsgAppend`s with the same
anchor (what `try_batching` does), every other message being kept -/
theorem PWb.batch {a r : Raft} (h0 : PWb a r) {ms : List Message}
    (hsn : ∀ x ∈ r.msgs, x.msgType = .msgSnapshot → x ∈ ms)
    (hnew : ∀ x ∈ ms, x ∈ r.msgs ∨ ∃ y ∈ r.msgs, y.msgType = .msgAppend ∧ x.msgType = .msgAppend ∧
      x.index = y.index ∧ x.logTerm = y.logTerm) :
    PWb a { r with msgs := ms } := by
  have hq : QSnap r.msgs → QSnap ms := fun ⟨x, hx, hty⟩ => ⟨x, hsn x hx hty, hty⟩
  refine ⟨h0.inv, fun hs => (h0.po hs).imp hq (fun c => c), h0.rd, fun x hx hty => ?_,
    fun x hx hty => ?_, fun x hx hty => hsn x (h0.sn x hx hty) hty, h0.fi, fun x hx hty => ?_⟩
  · rcases hnew x hx with c | ⟨y, hy, hyt, _, hi, ht⟩
    · rcases h0.qa x c hty with d | d | d
      · exact .inl d
      · exact .inr (.inl (hq d))
      · exact .inr (.inr d)
    · rcases h0.qa y hy hyt with ⟨z, hz, hzt, hzi, hzl⟩ | d | d
      · exact .inl ⟨z, hz, hzt, hzi.trans hi.symm, hzl.trans ht.symm⟩
      · exact .inr (.inl (hq d))
      · exact .inr (.inr (by rw [hi]; exact d))
  · rcases hnew x hx with c | ⟨y, _, _, hxt, _, _⟩
    · exact h0.qr x c hty
    · rw [hxt] at hty; cases hty
  · rcases hnew x hx with c | ⟨y, hy, hyt, _, hi, ht⟩
    · rcases h0.qf x c hty with d | d | d
      · exact .inl d
      · exact .inr (.inl (hq d))
      · exact .inr (.inr d)
    · rcases h0.qf y hy hyt with ⟨z, hz, hzt, hzi, hzl⟩ | d | d
      · exact .inl ⟨z, hz, hzt, hzi.trans hi.symm, hzl.trans ht.symm⟩
      · exact .inr (.inl (hq d))
      · exact .inr (.inr (by rw [hi]; exact d))

/-- what one `maybe_send_append` for a progress within the log (or with the queue poisoned) leaves -/
theorem maybeSendAppend_pw {a r r' : Raft} {to : Nat} {pr pr' : Progress} {ae b : Bool}
    (h : r.maybeSendAppend to pr ae = .ok (r', pr', b)) (h0 : PWb a r)
    (hp : QSnap r.msgs ∨ POk r.raftLog.lastIndex pr) :
    PWb a r' ∧ (QSnap r'.msgs ∨ POk r'.raftLog.lastIndex pr') := by
  have hls : LS r r' := maybeSendAppend_ls h LS.rfl
  rcases C13_send_classification r r' to pr pr' ae b h with
    ⟨_, he, hpr, _⟩ | ⟨_, _, hn, t, es, ht, hes, _, _, hsu, hcase⟩ | ⟨_, _, he, hpr, _⟩ | ⟨_, _, hv⟩
  · rw [he, hpr]; exact ⟨h0, hp⟩
  · -- the progress, given that a poisoned queue stays poisoned
    have hprog : (QSnap r.msgs → QSnap r'.msgs) →
        (QSnap r'.msgs ∨ POk r'.raftLog.lastIndex pr') := by
      intro hq
      rcases hp with c | c
      · exact .inl (hq c)
      · right
        rw [hls.last]
        unfold SentUpdate at hsu
        cases hg : es.getLast? with
        | none => rw [hg] at hsu; simp only at hsu; rw [hsu]; exact c
        | some last =>
          rw [hg] at hsu; simp only at hsu
          have hm := (C13_entries_contiguous_bounded r.raftLog h0.inv pr.nextIdx _ true es hes).2.1
            last (List.mem_of_getLast? hg)
          exact c.updateState hm.2 hsu
    rcases hcase with ⟨_, htb⟩ | ⟨_, he⟩
    · -- batched: one queued `MsgAppend` is replaced by one with the same anchor
      obtain ⟨hr', hb1, _⟩ := C13_batching r r' to pr pr' es true htb
      obtain ⟨pre, msg, post, hms, _, hto, _, hms', _⟩ := hb1 rfl
      have hold : ∀ y, y ∈ pre ∨ y ∈ post → y ∈ r.msgs := by
        intro y hy
        rw [hms]
        rcases hy with hy | hy
        · exact List.mem_append_left _ hy
        · exact List.mem_append_right _ (List.mem_cons_of_mem _ hy)
      have hmsg : msg ∈ r.msgs := by
        rw [hms]; exact List.mem_append_right _ List.mem_cons_self
      have hsn : ∀ x ∈ r.msgs, x.msgType = .msgSnapshot → x ∈ r'.msgs := by
        intro x hx hty
        rw [hms] at hx
        rw [hms']
        rcases List.mem_append.1 hx with hx | hx
        · exact List.mem_append_left _ hx
        · rcases List.mem_cons.1 hx with hx | hx
          · rw [hx, hto.1] at hty; cases hty
          · exact List.mem_append_right _ (List.mem_cons_of_mem _ hx)
      have hnew : ∀ x ∈ r'.msgs, x ∈ r.msgs ∨ ∃ y ∈ r.msgs, y.msgType = .msgAppend ∧
          x.msgType = .msgAppend ∧ x.index = y.index ∧ x.logTerm = y.logTerm := by
        intro x hx
        rw [hms'] at hx
        rcases List.mem_append.1 hx with hx | hx
        · exact .inl (hold x (.inl hx))
        · rcases List.mem_cons.1 hx with hx | hx
          · rw [hx]
            exact .inr ⟨msg, hmsg, hto.1, hto.1, rfl, rfl⟩
          · exact .inl (hold x (.inr hx))
      refine ⟨?_, hprog (fun ⟨x, hx, hty⟩ => ⟨x, hsn x hx hty, hty⟩)⟩
      rw [hr']
      exact h0.batch hsn hnew
    · have hpw : PWb a r' := by
        rw [he]
        refine h0.push _ (fun _ => ?_) (fun hc => by cases hc) (fun _ => ?_)
        · rcases hp with c | c
          · exact .inl c
          · right
            show pr.nextIdx - 1 ≤ r.raftLog.lastIndex
            have := c.2.1; omega
        · -- the entries were read from the log: `next_idx` is not below the first index
          rcases hp with c | c
          · exact .inl c
          · right
            show r.raftLog.firstIndex ≤ pr.nextIdx - 1 + 1
            have hcl := h0.inv.committed_le_last
            have hd := h0.inv.dummy_le_committed
            by_cases hlt : pr.nextIdx ≤ r.raftLog.lastIndex ∧ pr.nextIdx < r.raftLog.firstIndex
            · rw [entries_compacted _ _ _ _ hlt.1 hlt.2] at hes; cases hes
            · have := c.2.1; omega
      exact ⟨hpw, hprog (fun c => by rw [he]; exact c.append_left _)⟩
  · rw [he, hpr]; exact ⟨h0, hp⟩
  · have hs := viaSnapshot_spec r r' to pr pr' b hv
    cases b with
    | true =>
      obtain ⟨_, sn, _, _, h4, _⟩ := hs.1 rfl
      have hq : QSnap r'.msgs := by
        rw [h4]
        exact ⟨snapMsg r to sn, List.mem_append_right _ (List.mem_singleton.2 rfl), rfl⟩
      refine ⟨?_, .inl hq⟩
      rw [h4]
      have h1 : PWb a { r with raftLog := r'.raftLog } := h0.log hls
      have h2 := h1.poison (snapMsg r to sn) rfl r.prs
      exact h2
    | false =>
      obtain ⟨h1, h2, _⟩ := hs.2 rfl
      refine ⟨by rw [h2]; exact h0.log hls, ?_⟩
      rw [h1, hls.last]
      rcases hp with c | c
      · left; rw [h2]; exact c
      · exact .inr c

theorem sendAppendPr_pw {a r r' : Raft} {to : Nat} {pr pr' : Progress}
    (h : r.sendAppendPr to pr = .ok (r', pr')) (h0 : PWb a r)
    (hp : QSnap r.msgs ∨ POk r.raftLog.lastIndex pr) :
    PWb a r' ∧ (QSnap r'.msgs ∨ POk r'.raftLog.lastIndex pr') := by
  unfold Raft.sendAppendPr at h
  rw [Res.bind_eq_ok_iff] at h
  obtain ⟨⟨r1, pr1, b⟩, h1, h2⟩ := h
  cases h2
  exact maybeSendAppend_pw h1 h0 hp

theorem sendAppendAggressivelyPr_pw {a r' : Raft} {to : Nat} {pr' : Progress} :
    ∀ (fuel : Nat) (r : Raft) (pr : Progress),
      sendAppendAggressivelyPr fuel r to pr = .ok (r', pr') → PWb a r →
      (QSnap r.msgs ∨ POk r.raftLog.lastIndex pr) →
      PWb a r' ∧ (QSnap r'.msgs ∨ POk r'.raftLog.lastIndex pr') := by
  intro fuel
  induction fuel with
  | zero => intro r pr h; simp [sendAppendAggressivelyPr] at h
  | succ n ih =>
    intro r pr h h0 hp
    unfold sendAppendAggressivelyPr at h
    split at h
    · rename_i r1 pr1 hm
      obtain ⟨g1, g2⟩ := maybeSendAppend_pw hm h0 hp
      exact ih r1 pr1 h g1 g2
    · rename_i r1 pr1 hm
      cases h; exact maybeSendAppend_pw hm h0 hp
    · cases h
    · cases h

/-- `PWb` on a leader -/
def LWb (a r : Raft) : Prop := PWb a r ∧ r.state = .leader

theorem LWb.pw {a r : Raft} (h : LWb a r) : PWb a r := h.1

theorem LWb.lead {a r : Raft} (h : LWb a r) : r.state = .leader := h.2

theorem LWb.mk' {a r : Raft} {x1 x2 x3 : Nat} {x4 : List ReadState} {x6 x7 x8 : Nat}
    {x10 : Bool} {x11 : Nat}
    {x12 : Option Nat} {x13 : Nat} {x15 x16 : Nat} {x17 x18 x19 x20 x21 : Bool}
    {x22 x23 x24 x25 x26 : Nat} {x27 : Int} {x28 : UncommittedState} {x29 : Nat}
    {x32 : Option Nat} (h0 : LWb a r) :
    LWb a { term := x1, vote := x2, id := x3, readStates := x4, raftLog := r.raftLog,
            maxInflight := x6, maxMsgSize := x7, pendingRequestSnapshot := x8, state := r.state,
            promotable := x10, leaderId := x11, leadTransferee := x12,
            pendingConfIndex := x13, readOnly := r.readOnly, electionElapsed := x15,
            heartbeatElapsed := x16, checkQuorum := x17, preVote := x18,
            skipBcastCommit := x19, batchAppend := x20, disableProposalForwarding := x21,
            heartbeatTimeout := x22, electionTimeout := x23, randomizedElectionTimeout := x24,
            minElectionTimeout := x25, maxElectionTimeout := x26, priority := x27,
            uncommittedState := x28, maxCommittedSizePerReady := x29, prs := r.prs, msgs := r.msgs,
            nextRand := x32 } := h0

/-- the progress of a peer of a leader -/
theorem LWb.getPr {a r : Raft} (h : LWb a r) {id : Nat} {pr : Progress} (hg : r.prs.get id = some pr) :
    QSnap r.msgs ∨ POk r.raftLog.lastIndex pr := by
  rcases h.1.po h.2 with c | c
  · exact .inl c
  · exact .inr (c.get hg)

theorem LWb.setPr {a r : Raft} {id : Nat} {pr : Progress} (h0 : LWb a r)
    (hp : QSnap r.msgs ∨ POk r.raftLog.lastIndex pr) :
    LWb a { r with prs := r.prs.set id pr } := ⟨h0.1.setPr hp, h0.2⟩

macro "lwf_pre" h:ident : tactic =>
  `(tactic| (frame_dec $h:ident <;> (iterate 2 (try (apply LWb.mk')))))

macro "lwf_auto" h:ident "[" ls:Lean.Parser.Tactic.SolveByElim.arg,* "]" : tactic =>
  `(tactic| (lwf_pre $h:ident <;> (solve_by_elim (maxDepth := 14) [$ls,*, LWb.mk'])))

theorem send_lw {a r r' : Raft} {m : Message} (h : r.send m = .ok r')
    (hm : wqT m.msgType = false) (h0 : LWb a r) : LWb a r' :=
  ⟨send_pw h hm h0.1, (send_frame h Frame.rfl).state.trans h0.2⟩

theorem sendHeartbeat_lw {a r r' : Raft} {to : Nat} {pr : Progress} {ctx : Option Bytes}
    (h : r.sendHeartbeat to pr ctx = .ok r') (h0 : LWb a r) : LWb a r' := by
  unfold Raft.sendHeartbeat at h
  exact send_lw h rfl h0

theorem sendTimeoutNow_lw {a r r' : Raft} {to : Nat}
    (h : r.sendTimeoutNow to = .ok r') (h0 : LWb a r) : LWb a r' := by
  unfold Raft.sendTimeoutNow at h
  exact send_lw h rfl h0

theorem sendAppendPr_lw {a r r' : Raft} {to : Nat} {pr pr' : Progress}
    (h : r.sendAppendPr to pr = .ok (r', pr')) (h0 : LWb a r)
    (hp : QSnap r.msgs ∨ POk r.raftLog.lastIndex pr) :
    LWb a r' ∧ (QSnap r'.msgs ∨ POk r'.raftLog.lastIndex pr') := by
  obtain ⟨g1, g2⟩ := sendAppendPr_pw h h0.1 hp
  exact ⟨⟨g1, (sendAppendPr_frame h Frame.rfl).state.trans h0.2⟩, g2⟩

theorem sendAppend_lw {a r r' : Raft} {to : Nat}
    (h : r.sendAppend to = .ok r') (h0 : LWb a r) : LWb a r' := by
  unfold Raft.sendAppend at h
  split at h
  · cases h
  · rename_i pr hg
    rw [Res.bind_eq_ok_iff] at h
    obtain ⟨⟨r1, pr1⟩, h1, h2⟩ := h
    cases h2
    obtain ⟨g1, g2⟩ := sendAppendPr_lw h1 h0 (h0.getPr hg)
    exact g1.setPr g2

theorem sendAppendAggressively_lw {a r r' : Raft} {to : Nat}
    (h : r.sendAppendAggressively to = .ok r') (h0 : LWb a r) : LWb a r' := by
  unfold Raft.sendAppendAggressively at h
  split at h
  · cases h
  · rename_i pr hg
    rw [Res.bind_eq_ok_iff] at h
    obtain ⟨⟨r1, pr1⟩, h1, h2⟩ := h
    cases h2
    obtain ⟨g1, g2⟩ := sendAppendAggressivelyPr_pw _ _ _ h1 h0.1 (h0.getPr hg)
    exact LWb.setPr ⟨g1, (sendAppendAggressivelyPr_frame _ _ _ h1 Frame.rfl).state.trans h0.2⟩ g2

theorem forEachPeer_lw {a r r' : Raft} {f : Raft → Nat → Progress → Res (Raft × Progress)}
    (hf : ∀ r id pr r' pr', f r id pr = .ok (r', pr') → LWb a r →
      (QSnap r.msgs ∨ POk r.raftLog.lastIndex pr) →
      LWb a r' ∧ (QSnap r'.msgs ∨ POk r'.raftLog.lastIndex pr'))
    (h : r.forEachPeer f = .ok r') (h0 : LWb a r) : LWb a r' := by
  unfold Raft.forEachPeer at h
  refine foldl_pres (LWb a) _ ?_ _ _ h (by intro r1 e; cases e; exact h0)
  intro acc id r1 h1
  cases acc with
  | err e => cases h1
  | panic s => cases h1
  | ok r0 =>
    refine ⟨r0, rfl, fun h0 => ?_⟩
    change (if id = r0.id then Res.ok r0 else _) = _ at h1
    split at h1
    · cases h1; exact h0
    · split at h1
      · cases h1; exact h0
      · rename_i pr hg
        rw [Res.bind_eq_ok_iff] at h1
        obtain ⟨⟨r2, pr2⟩, h2, h3⟩ := h1
        cases h3
        obtain ⟨g1, g2⟩ := hf _ _ _ _ _ h2 h0 (h0.getPr hg)
        exact g1.setPr g2

theorem bcastAppend_lw {a r r' : Raft} (h : r.bcastAppend = .ok r') (h0 : LWb a r) : LWb a r' := by
  unfold Raft.bcastAppend at h
  exact forEachPeer_lw (fun r id pr r' pr' h => sendAppendPr_lw h) h h0

theorem bcastHeartbeatWithCtx_lw {a r r' : Raft} {ctx : Option Bytes}
    (h : r.bcastHeartbeatWithCtx ctx = .ok r') (h0 : LWb a r) : LWb a r' := by
  unfold Raft.bcastHeartbeatWithCtx at h
  refine forEachPeer_lw (fun r id pr r' pr' h h0 hp => ?_) h h0
  rw [Res.bind_eq_ok_iff] at h
  obtain ⟨r1, h1, h2⟩ := h
  cases h2
  have g := sendHeartbeat_lw h1 h0
  refine ⟨g, ?_⟩
  rw [send_eq _ _ _ h1]
  rcases hp with c | c
  · exact .inl (c.append_left _)
  · exact .inr c

theorem bcastHeartbeat_lw {a r r' : Raft} (h : r.bcastHeartbeat = .ok r') (h0 : LWb a r) :
    LWb a r' := by
  unfold Raft.bcastHeartbeat at h
  exact bcastHeartbeatWithCtx_lw h h0

end F
end PB
end Raft
end RaftModel
