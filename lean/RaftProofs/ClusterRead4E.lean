import RaftProofs.ClusterRead4D

/-!
Cluster-level ReadIndex safety, helper lemmas part E: answering released requests
(`respond_read_states`), the acknowledge-and-advance block shared by `handle_heartbeat_response` and
`post_conf_change`, and these two handlers as `RInv`.
-/
namespace RaftModel
namespace Raft
namespace RD
namespace R4

/-- what `respond_read_states` does: only the read states (and `MsgReadIndexResp`s in the queue)
change; every new read state answers one of the released requests that was issued locally -/
structure RespOut (r0 : Raft) (rss : List ReadIndexStatus) (r : Raft) : Prop where
  ro : r.readOnly = r0.readOnly
  term : r.term = r0.term
  id : r.id = r0.id
  conf : r.prs.conf = r0.prs.conf
  msgs : ∀ x ∈ r.msgs, x ∈ r0.msgs ∨ ∃ s ∈ rss, x.msgType = .msgReadIndexResp ∧
    x.entries = s.req.entries ∧ x.index = s.index ∧ x.to = s.req.frm
  rs : ∀ x ∈ r.readStates, x ∈ r0.readStates ∨ ∃ s ∈ rss, (s.req.frm = 0 ∨ s.req.frm = r0.id) ∧
    reqCtx s.req = some x.requestCtx ∧ x.index = s.index

theorem sendFill_rir (r : Raft) (to index : Nat) (es : List Entry) :
    (r.sendFill { msgType := .msgReadIndexResp, to := to, index := index, entries := es }).msgType =
      .msgReadIndexResp ∧
    (r.sendFill { msgType := .msgReadIndexResp, to := to, index := index, entries := es }).entries = es ∧
    (r.sendFill { msgType := .msgReadIndexResp, to := to, index := index, entries := es }).index = index ∧
    (r.sendFill { msgType := .msgReadIndexResp, to := to, index := index, entries := es }).to = to := by
  unfold sendFill
  simp [isVoteMsg]

theorem respondReadStates_out (r0 : Raft) (rss : List ReadIndexStatus) :
    Res.Post (fun r => RespOut r0 rss r) (r0.respondReadStates rss) := by
  unfold respondReadStates
  apply foldl_post (fun r => RespOut r0 rss r)
    (fun (r : Raft) (rs : ReadIndexStatus) =>
      (r.handleReadyReadIndex rs.req rs.index).bind (fun (r, om) =>
        match om with
        | some m => r.send m
        | none => .ok r))
  · intro r s hs h
    dsimp only
    unfold handleReadyReadIndex
    split
    · rename_i hfrm
      split
      · trivial
      · rename_i e he
        simp only [Res.bind, Res.Post]
        refine ⟨h.ro, h.term, h.id, h.conf, h.msgs, fun x hx => ?_⟩
        rcases List.mem_append.1 hx with g | g
        · exact h.rs x g
        · right
          rw [List.mem_singleton.1 g]
          refine ⟨s, hs, ?_, ?_, rfl⟩
          · rw [← h.id]; exact hfrm
          · unfold reqCtx; rw [he]; rfl
    · simp only [Res.bind]
      apply Res.post_intro
      intro r' hsend
      rw [send_eq r r' _ hsend]
      refine ⟨h.ro, h.term, h.id, h.conf, ?_, h.rs⟩
      intro x hx
      have hx' : x ∈ r.msgs ++ [r.sendFill _] := hx
      rcases List.mem_append.1 hx' with g | g
      · exact h.msgs x g
      · rw [List.mem_singleton.1 g]
        obtain ⟨q1, q2, q3, q4⟩ := sendFill_rir r s.req.frm s.index s.req.entries
        exact .inr ⟨s, hs, q1, q2, q3, q4⟩
  · exact ⟨rfl, rfl, rfl, rfl, fun x hx => .inl hx, fun x hx => .inl hx⟩

/-- **acknowledge and advance**: `recv_ack(who, K)`, and — when the acknowledgements form a quorum —
`advance(K)` and `respond_read_states` -/
theorem ackRespond_rinv {a r : Raft} {m : Message} (h : RInv a m r) (who : Nat) (K : Bytes)
    (hwho : ∀ rs, (K, rs) ∈ r.readOnly.pendingReadIndex → who = a.id ∨ AckBy m who K a.term)
    {ro : ReadOnly} {oacks : Option (List Nat)} (hp : r.readOnly.recvAck who K = (ro, oacks)) :
    RInv a m { r with readOnly := ro } ∧
    ∀ acks, oacks = some acks → Tracker.hasQuorum r.prs.voters acks = true →
      Res.Post (fun x => RInv a m x)
        ((ro.advance K).bind (fun (ro', rss) =>
          ({ r with readOnly := ro' } : Raft).respondReadStates rss)) := by
  obtain ⟨s1, s2, s3, s4⟩ := recvAck_spec r.readOnly who K
  rw [hp] at s1 s2 s3 s4
  dsimp only at s1 s2 s3 s4
  -- the pending entries after `recv_ack`
  have hpend : ∀ K' rs, (K', rs) ∈ ro.pendingReadIndex → r.term = a.term ∧
      (∃ rs0, (K', rs0) ∈ a.readOnly.pendingReadIndex ∧ rs.req = rs0.req ∧ rs.index = rs0.index) ∧
      ∀ u ∈ rs.acks, AckOk a m K' u := by
    intro K' rs hm
    obtain ⟨⟨rs1, g1, g2, g3⟩, g4⟩ := s3 K' rs hm
    obtain ⟨k1, ⟨rs0, k2, k3, k4⟩, _⟩ := h.pend K' rs1 g1
    refine ⟨k1, ⟨rs0, k2, g2.trans k3, g3.trans k4⟩, fun u hu => ?_⟩
    rcases g4 u hu with ⟨e1, e2⟩ | ⟨rsA, q1, q2⟩
    · subst e2; subst e1
      rcases hwho rs1 g1 with c | c
      · exact .inl c
      · exact .inr (.inl c)
    · exact (h.pend K' rsA q1).2.2 u q2
  have h1 : RInv a m { r with readOnly := ro } :=
    ⟨h.id, h.tle, s1.trans h.opt, hpend, by show ∃ d, ro.readIndexQueue = _; rw [s2]; exact h.queue,
      h.conf, h.rst, h.msgs⟩
  refine ⟨h1, fun acks hacks hq => ?_⟩
  obtain ⟨rsA, a1, a2⟩ := s4 acks hacks
  have hacked : ∀ u ∈ acks, AckOk a m K u := by
    intro u hu
    rcases a2 u hu with c | c
    · subst c
      rcases hwho rsA a1 with c | c
      · exact .inl c
      · exact .inr (.inl c)
    · exact (h.pend K rsA a1).2.2 u c
  apply Res.post_intro
  intro r3 hr3
  obtain ⟨⟨ro', rss⟩, hadv, hresp⟩ := Res.bind_eq_ok hr3
  dsimp only at hresp
  obtain ⟨v1, ⟨d, v2⟩, v3, v4⟩ := advance_spec hadv
  have hout := Res.Post.of_eq (respondReadStates_out _ rss) hresp
  obtain ⟨d0, hd0⟩ := h.queue
  have hq' : ro'.readIndexQueue = a.readOnly.readIndexQueue.drop (d0 + d) := by
    rw [v2, s2, hd0, List.drop_drop]
  refine ⟨hout.id.trans h.id, by rw [hout.term]; exact h.tle, ?_, ?_, ?_, hout.conf.trans h.conf, ?_, ?_⟩
  · rw [hout.ro]; exact v1.trans (s1.trans h.opt)
  · intro K' rs hm
    rw [hout.ro] at hm
    rw [hout.term]
    exact hpend K' rs (v3 _ hm)
  · rw [hout.ro]; exact ⟨_, hq'⟩
  · intro x hx
    rcases hout.rs x hx with g | ⟨s, hs, g1, g2, g3⟩
    · exact h.rst x g
    · right; right
      obtain ⟨p, i, Kp, w1, w2, w3, w4⟩ := v4 s hs
      obtain ⟨_, ⟨rs0, k2, k3, k4⟩, _⟩ := hpend Kp s w4
      refine ⟨Kp, rs0, K, acks, d0 + p, d0 + i, k2, by rw [← k3]; exact g2, g3.trans k4, ?_, ?_, ?_,
        by omega, ?_, hacked⟩
      · rw [← k3]
        rcases g1 with c | c
        · exact .inl c
        · exact .inr (c.trans h.id)
      · rw [s2, hd0, List.getElem?_drop] at w3; exact w3
      · rw [s2, hd0, List.getElem?_drop] at w2; exact w2
      · have : r.prs.voters = a.prs.voters := by unfold ProgressTracker.voters; rw [h.conf]
        rw [← this]; exact hq
  · intro x hx
    rcases hout.msgs x hx with g | ⟨s, hs, g0, g1, g2, g3⟩
    · exact h.msgs x g
    · right; right; right; right
      obtain ⟨p, i, Kp, w1, w2, w3, w4⟩ := v4 s hs
      obtain ⟨_, ⟨rs0, k2, k3, k4⟩, _⟩ := hpend Kp s w4
      refine ⟨g0, Kp, rs0, K, acks, d0 + p, d0 + i, k2, by rw [← k3]; exact g1, g2.trans k4,
        by rw [← k3]; exact g3, ?_, ?_, by omega, ?_, hacked⟩
      · rw [s2, hd0, List.getElem?_drop] at w3; exact w3
      · rw [s2, hd0, List.getElem?_drop] at w2; exact w2
      · have : r.prs.voters = a.prs.voters := by unfold ProgressTracker.voters; rw [h.conf]
        rw [← this]; exact hq

/-! ### `handle_heartbeat_response` -/

theorem handleHeartbeatResponse_rinv {a r : Raft} {m : Message} (h : RInv a m r)
    (hty : m.msgType = .msgHeartbeatResponse) (hmt : m.term = 0 ∨ m.term = r.term) :
    Res.Post (fun x => RInv a m x) (r.handleHeartbeatResponse m) := by
  unfold handleHeartbeatResponse
  split
  · exact h
  · dsimp only
    apply Res.post_bind (P := fun _ => True)
    · split
      · split <;> trivial
      · trivial
    · intro pr1 _
      apply Res.post_bind (P := fun x => RInv a m x ∧ x.term = r.term)
      · split
        · exact Res.post_bind (sendAppendPr_rf r m.frm pr1) (fun x hx => by
            simp only [Res.Post]
            exact ⟨(h.rf hx).rf (set_rf _ _ _), hx.term⟩)
        · exact ⟨h.rf (set_rf _ _ _), rfl⟩
      · rintro r1 ⟨h1, ht1⟩
        split
        · exact h1
        · generalize hp : r1.readOnly.recvAck m.frm m.context = p
          obtain ⟨ro, oacks⟩ := p
          have hwho : ∀ rs, (m.context, rs) ∈ r1.readOnly.pendingReadIndex →
              m.frm = a.id ∨ AckBy m m.frm m.context a.term := by
            intro rs hrs
            right
            refine ⟨hty, rfl, rfl, ?_⟩
            have := (h1.pend _ rs hrs).1
            rcases hmt with c | c
            · exact .inr c
            · left; rw [c, ← ht1]; exact this
          obtain ⟨k1, k2⟩ := ackRespond_rinv h1 m.frm m.context hwho hp
          dsimp only
          split
          · exact k1
          · rename_i acks
            split
            · rename_i hq
              exact k2 acks rfl hq
            · exact k1

/-! ### `post_conf_change` -/

theorem postConfChange_rinv {a r : Raft} {m : Message} (h : RInv a m r) :
    Res.Post (fun x => RInv a m x.1) r.postConfChange := by
  unfold postConfChange
  dsimp only
  have h0 : ∀ b, RInv a m { r with promotable := b } := fun b => h.rf (by simp [RF, rcore])
  split
  · exact (h0 _).rs (becomeFollower_rs _ _ 0 (Nat.le_refl _))
  · split
    · exact h0 _
    · apply Res.post_bind (P := fun x => RInv a m x)
      · split
        · rename_i r1 heq
          have h1 := Res.Post.of_eq (P := fun x => RF _ x.1) (maybeCommit_rf _) heq
          exact Res.post_mono (bcastAppend_rf r1) (fun x hx => ((h0 _).rf h1).rf hx)
        · rename_i r1 heq
          have h1 := Res.Post.of_eq (P := fun x => RF _ x.1) (maybeCommit_rf _) heq
          refine Res.post_mono (forEachPeer_rf r1 _ ?_) (fun x hx => ((h0 _).rf h1).rf hx)
          intro r3 id pr
          exact Res.post_bind (maybeSendAppend_rf r3 id pr false) (fun a ha => ha)
        · trivial
        · trivial
      · intro r1 hr1
        apply Res.post_bind (P := fun x => RInv a m x)
        · split
          · exact hr1
          · rename_i ctx _
            generalize hp : r1.readOnly.recvAck r1.id ctx = p
            obtain ⟨ro, oacks⟩ := p
            obtain ⟨k1, k2⟩ := ackRespond_rinv hr1 r1.id ctx (fun _ _ => .inl hr1.id) hp
            dsimp only
            split
            · rename_i acks
              split
              · rename_i hq
                exact k2 acks rfl hq
              · exact k1
            · exact k1
        · intro r2 hr2
          simp only [Res.Post]
          split
          · split
            · exact hr2.rf (by simp [RF, rcore, abortLeaderTransfer])
            · exact hr2
          · exact hr2

end R4
end RD
end Raft
end RaftModel
