import RaftProofs.ClusterRead4A

/-!
Cluster-level ReadIndex safety, helper lemmas part B: `RF` frame lemmas of the leader-side and
follower-side handlers and of the entry points that never touch the read path (the proofs follow
`RaftProofs/ClusterVoteB.lean`).
-/
namespace RaftModel
namespace Raft
namespace RD
namespace R4

/-! ### leader-side handlers -/

theorem checkQuorumActive_rf (r : Raft) : RF r r.checkQuorumActive.1 := by
  simp [RF, rcore, checkQuorumActive, ProgressTracker.quorumRecentlyActive]

theorem filterProposalEntry_rf (r : Raft) (i : Nat) (e : Entry) :
    ∀ x, r.filterProposalEntry i e = some x → RF r x.1 := by
  intro x h
  unfold filterProposalEntry at h
  dsimp only at h
  split at h
  · cases h
  · cases h; exact RF.refl _
  · split at h <;> (try split at h) <;> cases h <;> simp [RF, rcore]

theorem filterProposal_rf : ∀ (es : List Entry) (r : Raft) (i : Nat),
    RF r (r.filterProposal i es).1 := by
  intro es
  induction es with
  | nil => intro r i; exact RF.refl _
  | cons e rest ih =>
    intro r i
    unfold filterProposal
    split
    · exact RF.refl _
    · rename_i r1 e' heq
      have h1 : RF r r1 := filterProposalEntry_rf r i e _ heq
      have h2 := ih r1 (i + 1)
      split
      · rename_i r2 es' heq2
        rw [heq2] at h2; exact h1.trans h2
      · rename_i r2 heq2
        rw [heq2] at h2; exact h1.trans h2

theorem handleSnapshotStatus_rf (r : Raft) (m : Message) : RF r (r.handleSnapshotStatus m) := by
  unfold handleSnapshotStatus
  split
  · exact RF.refl _
  · split
    · exact RF.refl _
    · exact set_rf _ _ _

theorem handleUnreachable_rf (r : Raft) (m : Message) : RF r (r.handleUnreachable m) := by
  unfold handleUnreachable
  split
  · exact RF.refl _
  · split
    · exact set_rf _ _ _
    · exact RF.refl _

theorem handleAppendResponseAccepted_rf (r : Raft) (m : Message) (pr : Progress) (op : Bool) :
    Res.Post (fun x => RF r x) (r.handleAppendResponseAccepted m pr op) := by
  unfold handleAppendResponseAccepted
  dsimp only
  apply Res.post_bind (P := fun _ => True)
  · exact Res.post_intro (fun _ _ => trivial)
  · intro pr1 _
    apply Res.post_bind (P := fun x => RF r x)
    · split
      · rename_i r1 heq
        have h1 : RF r r1 := RF.trans (set_rf r m.frm pr1)
          (Res.Post.of_eq (P := fun x => RF _ x.1) (maybeCommit_rf _) heq)
        split
        · exact Res.post_mono (bcastAppend_rf r1) (fun x hx => h1.trans hx)
        · exact h1
      · rename_i r1 heq
        have h1 : RF r r1 := RF.trans (set_rf r m.frm pr1)
          (Res.Post.of_eq (P := fun x => RF _ x.1) (maybeCommit_rf _) heq)
        split
        · exact Res.post_mono (sendAppend_rf r1 _) (fun x hx => h1.trans hx)
        · exact h1
      · trivial
      · trivial
    · intro r1 h1
      apply Res.post_bind (P := fun x => RF r x)
      · exact Res.post_mono (sendAppendAggressively_rf r1 _) (fun x hx => h1.trans hx)
      · intro r2 h2
        split
        · split
          · trivial
          · split
            · exact Res.post_mono (sendTimeoutNow_rf r2 _) (fun x hx => h2.trans hx)
            · exact h2
        · exact h2

theorem handleAppendResponse_rf (r : Raft) (m : Message) :
    Res.Post (fun x => RF r x) (r.handleAppendResponse m) := by
  unfold handleAppendResponse
  dsimp only
  apply Res.post_bind (P := fun _ => True)
  · exact Res.post_intro (fun _ _ => trivial)
  · intro npi _
    split
    · exact RF.refl _
    · try dsimp only
      split
      · split
        · trivial
        · trivial
        · exact Res.post_mono (sendAppend_rf _ _) (fun x hx => RF.trans (set_rf _ _ _) hx)
        · exact set_rf _ _ _
      · split
        · trivial
        · trivial
        · exact set_rf _ _ _
        · exact handleAppendResponseAccepted_rf _ _ _ _

theorem handleTransferLeader_cont_rf (r : Raft) (frm : Nat) :
    Res.Post (fun x => RF r x)
      (if frm = r.id then Res.ok r
        else
          let r : Raft := { r with electionElapsed := 0, leadTransferee := some frm }
          match r.prs.get frm with
          | none => .panic "raft.handle_transfer_leader.unwrap"
          | some pr =>
            if pr.matched = r.raftLog.lastIndex then r.sendTimeoutNow frm
            else (r.sendAppendPr frm pr).bind
              (fun (r, pr) => .ok { r with prs := r.prs.set frm pr })) := by
  split
  · exact RF.refl _
  · dsimp only
    have h0 : RF r { r with electionElapsed := 0, leadTransferee := some frm } := by
      simp [RF, rcore]
    split
    · trivial
    · split
      · exact Res.post_mono (sendTimeoutNow_rf _ _) (fun x hx => h0.trans hx)
      · exact Res.post_bind (sendAppendPr_rf _ _ _) (fun a ha => by
          simp only [Res.Post]; exact (h0.trans ha).trans (set_rf _ _ _))

theorem handleTransferLeader_rf (r : Raft) (m : Message) :
    Res.Post (fun x => RF r x) (r.handleTransferLeader m) := by
  unfold handleTransferLeader
  split
  · exact RF.refl _
  · dsimp only
    split
    · exact RF.refl _
    · split
      · split
        · exact RF.refl _
        · exact Res.post_mono (handleTransferLeader_cont_rf r.abortLeaderTransfer m.frm)
            (fun x hx => RF.trans (by simp [RF, rcore, abortLeaderTransfer]) hx)
      · exact handleTransferLeader_cont_rf r m.frm

/-! ### follower-side handlers -/

theorem sendRequestSnapshot_rf (r : Raft) : Res.Post (fun x => RF r x) r.sendRequestSnapshot := by
  unfold sendRequestSnapshot
  dsimp only
  split
  · exact send_rf r _ rfl
  · trivial
  · trivial

theorem handleAppendEntries_rf (r : Raft) (m : Message) :
    Res.Post (fun x => RF r x) (r.handleAppendEntries m) := by
  unfold handleAppendEntries
  split
  · exact sendRequestSnapshot_rf r
  · split
    · exact send_rf r _ rfl
    · split
      · trivial
      · trivial
      · rename_i log c l hma
        exact Res.post_mono (send_rf _ _ rfl)
          (fun x hx => RF.trans (by simp [RF, rcore]) hx)
      · rename_i log hma
        dsimp only
        split
        · trivial
        · trivial
        · trivial
        · exact Res.post_mono (send_rf _ _ rfl)
            (fun x hx => RF.trans (by simp [RF, rcore]) hx)

theorem requestSnapshot_rf (r : Raft) : Res.Post (fun x => RF r x.1) r.requestSnapshot := by
  unfold requestSnapshot
  split
  · exact RF.refl _
  · split
    · exact RF.refl _
    · split
      · exact RF.refl _
      · split
        · exact RF.refl _
        · dsimp only
          split
          · trivial
          · trivial
          · split
            · exact Res.post_bind (sendRequestSnapshot_rf _) (fun a ha => by
                simp only [Res.Post]; exact RF.trans (by simp [RF, rcore]) ha)
            · exact RF.refl _

/-! ### entry points that never touch term / vote / role / vote record -/

theorem onPersistSnap_rf (r : Raft) (index : Nat) :
    Res.Post (fun x => RF r x) (r.onPersistSnap index) := by
  unfold onPersistSnap
  split
  · rename_i log b h
    simp [Res.Post, RF, rcore]
  · trivial
  · trivial

theorem onPersistEntries_rf (r : Raft) (index term : Nat) :
    Res.Post (fun x => RF r x) (r.onPersistEntries index term) := by
  unfold onPersistEntries
  split
  · trivial
  · trivial
  · rename_i log update h
    have h0 : RF r { r with raftLog := log } := by simp [RF, rcore]
    dsimp only
    split
    · split
      · exact h0
      · split
        · trivial
        · trivial
        · rename_i pr pr1 updated _
          have h1 : RF r { ({ r with raftLog := log } : Raft) with prs := ({ r with raftLog := log } : Raft).prs.set ({ r with raftLog := log } : Raft).id pr1 } :=
            h0.trans (set_rf _ _ _)
          try dsimp only
          split
          · split
            · rename_i r2 heq
              have h2 : RF r r2 := h1.trans
                (Res.Post.of_eq (P := fun x => RF _ x.1) (maybeCommit_rf _) heq)
              split
              · exact Res.post_mono (bcastAppend_rf r2) (fun x hx => h2.trans hx)
              · exact h2
            · rename_i r2 heq
              exact h1.trans (Res.Post.of_eq (P := fun x => RF _ x.1) (maybeCommit_rf _) heq)
            · trivial
            · trivial
          · exact h1
    · exact h0

theorem commitApplyInternal_rf (r : Raft) (applied : Nat) (skip : Bool) :
    Res.Post (fun x => RF r x) (r.commitApplyInternal applied skip) := by
  unfold commitApplyInternal
  dsimp only
  split
  · trivial
  · trivial
  · rename_i log hlog
    have h0 : RF r { r with raftLog := log } := by simp [RF, rcore]
    split
    · split
      · rename_i r1 heq
        have h1 : RF r r1 := h0.trans
          (Res.Post.of_eq (P := fun x => RF _ x.1) (appendEntry_rf _ _) heq)
        exact h1.trans (by simp [RF, rcore])
      · trivial
      · trivial
      · trivial
    · exact h0

theorem commitApply_rf (r : Raft) (applied : Nat) :
    Res.Post (fun x => RF r x) (r.commitApply applied) := by
  unfold commitApply
  exact commitApplyInternal_rf r applied false

theorem reduceUncommittedSize_rf (r : Raft) (ents : List Entry) :
    RF r (r.reduceUncommittedSize ents) := by
  unfold reduceUncommittedSize
  split
  · exact RF.refl _
  · simp [RF, rcore]

theorem adjustMaxInflightMsgs_rf (r : Raft) (t c : Nat) :
    Res.Post (fun x => RF r x) (r.adjustMaxInflightMsgs t c) := by
  unfold adjustMaxInflightMsgs
  split
  · exact RF.refl _
  · split
    · exact set_rf _ _ _
    · trivial

theorem commitThenBcast_rf (r0 r : Raft) (h0 : RF r0 r) :
    Res.Post (fun x => RF r0 x)
      (match r.maybeCommit with
        | .ok (r, true) => r.bcastAppend
        | .ok (r, false) => .ok r
        | .err e => .err e
        | .panic s => .panic s : Res Raft) := by
  split
  · rename_i r1 heq
    have h1 : RF r0 r1 := h0.trans (Res.Post.of_eq (P := fun x => RF _ x.1) (maybeCommit_rf _) heq)
    exact Res.post_mono (bcastAppend_rf r1) (fun x hx => h1.trans hx)
  · rename_i r1 heq
    exact h0.trans (Res.Post.of_eq (P := fun x => RF _ x.1) (maybeCommit_rf _) heq)
  · trivial
  · trivial

theorem enableGroupCommit_rf (r : Raft) (b : Bool) :
    Res.Post (fun x => RF r x) (r.enableGroupCommit b) := by
  unfold enableGroupCommit
  dsimp only
  have h0 : RF r { r with prs := { r.prs with groupCommit := b } } := by simp [RF, rcore]
  split
  · exact commitThenBcast_rf r _ h0
  · exact h0

theorem assignCommitGroups_rf (r : Raft) (ids : List (Nat × Nat)) :
    Res.Post (fun x => RF r x) (r.assignCommitGroups ids) := by
  unfold assignCommitGroups
  dsimp only
  apply Res.post_bind (P := fun x => RF r x)
  · apply foldl_rf (fun (r : Raft) (p : Nat × Nat) =>
        if p.2 = 0 then .panic "raft.assign_commit_groups.assert"
        else .ok (r.modifyProgress p.1 (fun pr => { pr with commitGroupId := p.2 })))
    · intro r1 p
      try dsimp only
      split
      · trivial
      · exact modifyProgress_rf _ _ _
    · exact RF.refl _
  · intro r1 h1
    split
    · exact commitThenBcast_rf r _ h1
    · exact h1

end R4
end RD
end Raft
end RaftModel
