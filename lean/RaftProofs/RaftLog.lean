import RaftModel.RaftLog

/-!
Helper lemmas for C14: well-formedness of storage / unstable, the representation invariant of
`RaftLog`, and the facts about `abs` that the property theorems in `RaftProps/C14.lean` use.
-/
namespace RaftModel

/-! ### storage -/

namespace MemStorage

/-- a conforming storage: entries are contiguous from `firstIndex`, the snapshot point is below -/
structure WF (s : MemStorage) : Prop where
  contig : ∀ k e, s.entries[k]? = some e → e.index = s.firstIndex + k
  snap_lt : s.snapshotMetadata.index < s.firstIndex

theorem firstIndex_nil {s : MemStorage} (h : s.entries = []) :
    s.firstIndex = s.snapshotMetadata.index + 1 := by
  simp [firstIndex, h]

theorem WF.last_succ {s : MemStorage} (h : s.WF) :
    s.lastIndex + 1 = s.firstIndex + s.entries.length := by
  unfold lastIndex
  rw [List.getLast?_eq_getElem?]
  cases hl : s.entries[s.entries.length - 1]? with
  | none =>
    have : s.entries.length ≤ s.entries.length - 1 := by
      rcases Nat.lt_or_ge (s.entries.length - 1) s.entries.length with h1 | h1
      · have := (List.getElem?_eq_some_iff.2 ⟨h1, rfl⟩ : s.entries[s.entries.length - 1]? = some _)
        rw [hl] at this; cases this
      · exact h1
    have hlen : s.entries.length = 0 := by omega
    have hnil : s.entries = [] := List.eq_nil_of_length_eq_zero hlen
    simp [firstIndex_nil hnil, hnil]
  | some e =>
    have hlt : s.entries.length - 1 < s.entries.length := by
      rcases Nat.lt_or_ge (s.entries.length - 1) s.entries.length with h1 | h1
      · exact h1
      · rw [List.getElem?_eq_none h1] at hl; cases hl
    have := h.contig _ _ hl
    simp only []
    omega

theorem WF.first_pos {s : MemStorage} (h : s.WF) : 1 ≤ s.firstIndex := by
  have := h.snap_lt; omega

/-- `term` inside the stored range -/
theorem WF.term_in {s : MemStorage} (h : s.WF) {i : Nat} (h1 : s.firstIndex ≤ i)
    (h2 : i ≤ s.lastIndex) :
    ∃ e, s.entries[i - s.firstIndex]? = some e ∧ s.term i = .ok e.term := by
  have hl := h.last_succ
  have hlt : i - s.firstIndex < s.entries.length := by omega
  refine ⟨s.entries[i - s.firstIndex], List.getElem?_eq_some_iff.2 ⟨hlt, rfl⟩, ?_⟩
  have hs := h.snap_lt
  unfold term
  rw [if_neg (by omega), if_neg (by omega), if_neg (by omega)]
  simp [List.getElem?_eq_some_iff.2 ⟨hlt, rfl⟩]

/-- `term` at the position just below the first entry -/
theorem WF.term_dummy {s : MemStorage} (h : s.WF) :
    s.term (s.firstIndex - 1) =
      if s.firstIndex - 1 = s.snapshotMetadata.index then .ok s.snapshotMetadata.term
      else .err .compacted := by
  have hp := h.first_pos
  unfold term
  by_cases hc : s.firstIndex - 1 = s.snapshotMetadata.index
  · simp [hc]
  · rw [if_neg hc, if_neg hc, if_pos (by omega)]

theorem head?_of_lt {s : MemStorage} {k : Nat} (hk : k < s.entries.length) :
    ∃ e0, s.entries.head? = some e0 ∧ e0.index = s.firstIndex := by
  cases hh : s.entries with
  | nil => simp [hh] at hk
  | cons a t => exact ⟨a, rfl, by simp [firstIndex, hh]⟩

/-- `entries` inside the stored range, storage available -/
theorem WF.entriesQ_in {s : MemStorage} (h : s.WF) {low high : Nat} (mx : Option Nat) (ca : Bool)
    (h1 : s.firstIndex ≤ low) (h2 : low < high) (h3 : high ≤ s.lastIndex + 1)
    (hav : (s.triggerLogUnavailable && ca) = false) :
    s.entriesQ low high mx ca =
      .ok (limitSize ((s.entries.drop (low - s.firstIndex)).take (high - low)) mx) := by
  have hl := h.last_succ
  obtain ⟨e0, he0, hi0⟩ := head?_of_lt (s := s) (k := 0) (by omega)
  unfold entriesQ
  rw [if_neg (by omega), if_neg (by omega), hav]
  simp only [Bool.false_eq_true, if_false, he0]
  rw [if_neg (by omega), if_neg (by omega), if_neg (by omega), if_neg (by omega), hi0]

end MemStorage

/-! ### unstable -/

namespace Unstable

structure WF (u : Unstable) : Prop where
  contig : ∀ k e, u.entries[k]? = some e → e.index = u.offset + k
  size : u.entriesSize = approxSize u.entries
  snap : ∀ sn, u.snapshot = some sn → u.offset = sn.metadata.index + 1

end Unstable

/-- entries of a batch are numbered consecutively from `start` -/
def ContigFrom (start : Nat) (ents : List Entry) : Prop :=
  ∀ k e, ents[k]? = some e → e.index = start + k

theorem ContigFrom.append {a b : List Entry} {s : Nat} (ha : ContigFrom s a)
    (hb : ContigFrom (s + a.length) b) : ContigFrom s (a ++ b) := by
  intro k e hk
  rcases Nat.lt_or_ge k a.length with h | h
  · rw [List.getElem?_append_left h] at hk; exact ha k e hk
  · rw [List.getElem?_append_right h] at hk
    have := hb _ _ hk; omega

theorem ContigFrom.take {a : List Entry} {s : Nat} (ha : ContigFrom s a) (n : Nat) :
    ContigFrom s (a.take n) := by
  intro k e hk
  rw [List.getElem?_take] at hk
  split at hk
  · exact ha k e hk
  · cases hk

theorem ContigFrom.drop {a : List Entry} {s : Nat} (ha : ContigFrom s a) (n : Nat) :
    ContigFrom (s + n) (a.drop n) := by
  intro k e hk
  rw [List.getElem?_drop] at hk
  have := ha _ _ hk; omega

theorem ContigFrom.head {s : Nat} {e : Entry} {t : List Entry}
    (ha : ContigFrom s (e :: t)) : e.index = s := by
  have := ha 0 e (by simp); omega

theorem ContigFrom.tail {s : Nat} {e : Entry} {t : List Entry}
    (ha : ContigFrom s (e :: t)) : ContigFrom (s + 1) t := by
  intro k x hk
  have := ha (k + 1) x (by simpa using hk); omega

theorem ContigFrom.getLast {a : List Entry} {s : Nat} (ha : ContigFrom s a) {e : Entry}
    (he : a.getLast? = some e) : e.index + 1 = s + a.length := by
  rw [List.getLast?_eq_getElem?] at he
  have hlt : a.length - 1 < a.length := by
    rcases Nat.lt_or_ge (a.length - 1) a.length with h1 | h1
    · exact h1
    · rw [List.getElem?_eq_none h1] at he; cases he
  have := ha _ _ he; omega

/-! ### the representation invariant -/

namespace RaftLog

/-- The invariant of `RaftLog` (all the facts the queries rely on).  `applied ≤ committed` is kept
separate (`AppliedOk`) because of the documented restart window. -/
structure Inv (l : RaftLog) : Prop where
  storeWF : l.store.WF
  unstWF : l.unstable.WF
  first_le_off : l.unstable.snapshot = none → l.store.firstIndex ≤ l.unstable.offset
  off_le_last : l.unstable.snapshot = none → l.unstable.offset ≤ l.store.lastIndex + 1
  ents_empty : l.unstable.snapshot = none → l.unstable.entries = [] →
    l.unstable.offset = l.store.lastIndex + 1
  dummy_le_committed : l.firstIndex ≤ l.committed + 1
  committed_le_last : l.committed ≤ l.lastIndex
  persisted_lt_off : l.persisted < l.unstable.offset
  persisted_le_store : l.persisted ≤ l.store.lastIndex

/-- `applied ≤ committed` (false only in the restart window, see raft_log.rs:44-46) -/
def AppliedOk (l : RaftLog) : Prop := l.applied ≤ l.committed

theorem firstIndex_none {l : RaftLog} (h : l.unstable.snapshot = none) :
    l.firstIndex = l.store.firstIndex := by
  simp [firstIndex, Unstable.maybeFirstIndex, h]

theorem firstIndex_some {l : RaftLog} {sn : Snapshot} (h : l.unstable.snapshot = some sn) :
    l.firstIndex = sn.metadata.index + 1 := by
  simp [firstIndex, Unstable.maybeFirstIndex, h]

theorem abs_none {l : RaftLog} (h : l.unstable.snapshot = none) :
    l.abs = { snapIdx := l.store.firstIndex - 1,
              snapTerm := if l.store.firstIndex - 1 = l.store.snapshotMetadata.index
                  then some l.store.snapshotMetadata.term else none,
              ents := l.store.entries.take (l.unstable.offset - l.store.firstIndex) ++
                l.unstable.entries } := by
  simp [abs, h]

theorem abs_some {l : RaftLog} {sn : Snapshot} (h : l.unstable.snapshot = some sn) :
    l.abs = { snapIdx := sn.metadata.index, snapTerm := some sn.metadata.term,
              ents := l.unstable.entries } := by
  simp [abs, h]

/-- number of storage entries that are part of the logical log -/
theorem Inv.take_len {l : RaftLog} (h : l.Inv) (hs : l.unstable.snapshot = none) :
    (l.store.entries.take (l.unstable.offset - l.store.firstIndex)).length =
      l.unstable.offset - l.store.firstIndex := by
  have := h.storeWF.last_succ
  have := h.off_le_last hs
  rw [List.length_take]; omega

theorem Inv.firstIndex_abs {l : RaftLog} (h : l.Inv) : l.firstIndex = l.abs.firstIndex := by
  cases hs : l.unstable.snapshot with
  | none =>
    have := h.storeWF.first_pos
    rw [firstIndex_none hs, abs_none hs]; simp only [LLog.firstIndex]; omega
  | some sn => rw [firstIndex_some hs, abs_some hs]; rfl

theorem Inv.lastIndex_abs {l : RaftLog} (h : l.Inv) : l.lastIndex = l.abs.lastIndex := by
  cases hs : l.unstable.snapshot with
  | none =>
    have hp := h.storeWF.first_pos
    have hfo := h.first_le_off hs
    have htl := h.take_len hs
    rw [abs_none hs]
    simp only [LLog.lastIndex, List.length_append, htl]
    unfold lastIndex Unstable.maybeLastIndex
    by_cases he : l.unstable.entries.length = 0
    · have hnil : l.unstable.entries = [] := List.eq_nil_of_length_eq_zero he
      have := h.ents_empty hs hnil
      simp only [he, if_true, hs]; omega
    · simp only [he, if_false]; omega
  | some sn =>
    have ho := h.unstWF.snap sn hs
    rw [abs_some hs]
    simp only [LLog.lastIndex]
    unfold lastIndex Unstable.maybeLastIndex
    by_cases he : l.unstable.entries.length = 0
    · simp only [he, if_true, hs]; omega
    · simp only [he, if_false]; omega

/-- the entry of the logical log at raft index `i` inside the unstable part -/
theorem Inv.entryAt_unstable {l : RaftLog} (h : l.Inv) {i : Nat} (hi : l.unstable.offset ≤ i) :
    l.abs.entryAt i = l.unstable.entries[i - l.unstable.offset]? := by
  cases hs : l.unstable.snapshot with
  | none =>
    have hp := h.storeWF.first_pos
    have hfo := h.first_le_off hs
    have htl := h.take_len hs
    rw [abs_none hs]
    simp only [LLog.entryAt]
    rw [if_neg (by omega), List.getElem?_append_right (by omega)]
    congr 1; omega
  | some sn =>
    have ho := h.unstWF.snap sn hs
    rw [abs_some hs]
    simp only [LLog.entryAt]
    rw [if_neg (by omega)]
    congr 1; omega

/-- … and inside the storage part (no pending snapshot) -/
theorem Inv.entryAt_store {l : RaftLog} (h : l.Inv) (hs : l.unstable.snapshot = none) {i : Nat}
    (h1 : l.store.firstIndex ≤ i) (h2 : i < l.unstable.offset) :
    l.abs.entryAt i = l.store.entries[i - l.store.firstIndex]? := by
  have hp := h.storeWF.first_pos
  have htl := h.take_len hs
  rw [abs_none hs]
  simp only [LLog.entryAt]
  rw [if_neg (by omega), List.getElem?_append_left (by omega), List.getElem?_take,
    if_pos (by omega)]
  congr 1; omega

theorem Inv.term_abs {l : RaftLog} (h : l.Inv) (i : Nat) : l.term i = l.abs.term i := by
  have hfi := h.firstIndex_abs
  have hla := h.lastIndex_abs
  have hfpos : 1 ≤ l.firstIndex := by rw [hfi]; simp [LLog.firstIndex]
  have hsnap : l.abs.snapIdx = l.firstIndex - 1 := by rw [hfi]; simp [LLog.firstIndex]
  unfold term LLog.term
  rw [if_neg (by omega), hsnap, ← hla]
  by_cases hout : i < l.firstIndex - 1 ∨ l.lastIndex < i
  · rw [if_pos hout, if_pos hout]
  · rw [if_neg hout, if_neg hout]
    have hge : l.firstIndex - 1 ≤ i := by omega
    have hle : i ≤ l.lastIndex := by omega
    cases hs : l.unstable.snapshot with
    | none =>
      have hfn := firstIndex_none hs
      have hfo := h.first_le_off hs
      have hol := h.off_le_last hs
      by_cases hlt : i < l.unstable.offset
      · -- below the unstable offset: storage answers
        have hmt : l.unstable.maybeTerm i = .ok none := by
          simp [Unstable.maybeTerm, hlt, hs]
        rw [hmt]
        simp only []
        by_cases hd : i = l.firstIndex - 1
        · rw [if_pos hd, hd, hfn, h.storeWF.term_dummy, abs_none hs]
          by_cases hc : l.store.firstIndex - 1 = l.store.snapshotMetadata.index
          · simp [hc]
          · simp [hc]
        · rw [if_neg hd]
          obtain ⟨e, he, ht⟩ := h.storeWF.term_in (i := i) (by omega) (by omega)
          rw [ht, h.entryAt_store hs (by omega) hlt, he]
      · -- inside the unstable entries
        have hne : l.unstable.entries.length ≠ 0 := by
          intro he
          have hnil : l.unstable.entries = [] := List.eq_nil_of_length_eq_zero he
          have := h.ents_empty hs hnil
          have : l.lastIndex = l.store.lastIndex := by
            simp [lastIndex, Unstable.maybeLastIndex, he, hs]
          omega
        have hli : l.lastIndex = l.unstable.offset + l.unstable.entries.length - 1 := by
          simp [lastIndex, Unstable.maybeLastIndex, hne]
        have hlt2 : i - l.unstable.offset < l.unstable.entries.length := by omega
        have hget := List.getElem?_eq_some_iff.2
          ⟨hlt2, (rfl : l.unstable.entries[i - l.unstable.offset] = _)⟩
        have hmt : l.unstable.maybeTerm i =
            .ok (some (l.unstable.entries[i - l.unstable.offset]).term) := by
          unfold Unstable.maybeTerm Unstable.maybeLastIndex
          rw [if_neg hlt, if_neg hne]
          simp only []
          rw [if_neg (by omega), hget]
        rw [hmt, if_neg (by omega), h.entryAt_unstable (by omega), hget]
    | some sn =>
      have hfs := firstIndex_some hs
      have ho := h.unstWF.snap sn hs
      by_cases hd : i = l.firstIndex - 1
      · have hmt : l.unstable.maybeTerm i = .ok (some sn.metadata.term) := by
          unfold Unstable.maybeTerm
          rw [if_pos (by omega), hs]
          simp only []
          rw [if_pos (by omega)]
        rw [hmt, if_pos hd, abs_some hs]
      · have hne : l.unstable.entries.length ≠ 0 := by
          intro he
          have : l.lastIndex = sn.metadata.index := by
            simp [lastIndex, Unstable.maybeLastIndex, he, hs]
          omega
        have hli : l.lastIndex = l.unstable.offset + l.unstable.entries.length - 1 := by
          simp [lastIndex, Unstable.maybeLastIndex, hne]
        have hlt2 : i - l.unstable.offset < l.unstable.entries.length := by omega
        have hget := List.getElem?_eq_some_iff.2
          ⟨hlt2, (rfl : l.unstable.entries[i - l.unstable.offset] = _)⟩
        have hmt : l.unstable.maybeTerm i =
            .ok (some (l.unstable.entries[i - l.unstable.offset]).term) := by
          unfold Unstable.maybeTerm Unstable.maybeLastIndex
          rw [if_neg (by omega), if_neg hne]
          simp only []
          rw [if_neg (by omega), hget]
        rw [hmt, if_neg hd, h.entryAt_unstable (by omega), hget]

/-! ### queries that are functions of `term` / `lastIndex` only -/

theorem _root_.RaftModel.LLog.term_cases (g : LLog) (i : Nat) :
    (∃ t, g.term i = .ok t) ∨ g.term i = .err .compacted := by
  unfold LLog.term
  split
  · exact .inl ⟨_, rfl⟩
  · split
    · split
      · exact .inl ⟨_, rfl⟩
      · exact .inr rfl
    · split <;> exact .inl ⟨_, rfl⟩

theorem Inv.matchTerm_abs {l : RaftLog} (h : l.Inv) (i t : Nat) :
    l.matchTerm i t = .ok (l.abs.matchTerm i t) := by
  unfold matchTerm LLog.matchTerm
  rw [h.term_abs]
  rcases l.abs.term_cases i with ⟨t', ht⟩ | ht <;> rw [ht]

theorem Inv.findConflict_abs {l : RaftLog} (h : l.Inv) (ents : List Entry) :
    l.findConflict ents = .ok (l.abs.findConflict ents) := by
  induction ents with
  | nil => rfl
  | cons e es ih =>
    simp only [findConflict, LLog.findConflict, h.matchTerm_abs]
    cases l.abs.matchTerm e.index e.term
    · simp
    · simpa using ih

theorem Inv.lastTerm_abs {l : RaftLog} (h : l.Inv) : l.lastTerm = l.abs.lastTerm := by
  unfold lastTerm LLog.lastTerm
  rw [h.term_abs, h.lastIndex_abs]
  rcases l.abs.term_cases l.abs.lastIndex with ⟨t', ht⟩ | ht <;> rw [ht]

theorem Inv.isUpToDate_abs {l : RaftLog} (h : l.Inv) (i t : Nat) :
    l.isUpToDate i t = l.abs.isUpToDate i t := by
  unfold isUpToDate LLog.isUpToDate
  rw [h.lastTerm_abs, h.lastIndex_abs]

theorem Inv.fcbtLoop_abs {l : RaftLog} (h : l.Inv) (term : Nat)
    (hz : ∀ t0, l.abs.term 0 = .ok t0 → t0 ≤ term) (ci : Nat) :
    l.findConflictByTermLoop term ci = .ok (l.abs.findConflictByTerm term ci) := by
  induction ci with
  | zero =>
    simp only [findConflictByTermLoop, LLog.findConflictByTerm, h.term_abs]
    rcases l.abs.term_cases 0 with ⟨t', ht⟩ | ht
    · have := hz _ ht
      rw [ht]; simp only []
      rw [if_neg (by omega)]
    · rw [ht]
  | succ n ih =>
    simp only [findConflictByTermLoop, LLog.findConflictByTerm, h.term_abs]
    rcases l.abs.term_cases (n + 1) with ⟨t', ht⟩ | ht
    · rw [ht]; simp only []
      by_cases hlt : term < t'
      · rw [if_pos hlt, if_pos hlt]; exact ih
      · rw [if_neg hlt, if_neg hlt]
    · rw [ht]

theorem Inv.commitInfo_abs {l : RaftLog} (h : l.Inv) :
    l.commitInfo = match l.abs.term l.committed with
      | .ok t => .ok (l.committed, t)
      | _ => .panic "raft_log.commit_info.missing" := by
  unfold commitInfo
  rw [h.term_abs]
  rcases l.abs.term_cases l.committed with ⟨t', ht⟩ | ht <;> rw [ht]

/-! ### `truncate_and_append` -/

theorem approxSize_append (a b : List Entry) : approxSize (a ++ b) = approxSize a + approxSize b := by
  simp [approxSize, List.map_append, List.sum_append]

theorem approxSize_take_drop (a : List Entry) (n : Nat) :
    approxSize (a.take n) + approxSize (a.drop n) = approxSize a := by
  rw [← approxSize_append, List.take_append_drop]

/-- the three cases of `Unstable::truncate_and_append` (and the gap panic) -/
theorem _root_.RaftModel.Unstable.WF.truncateAndAppend {u : Unstable} (h : u.WF) (e0 : Entry)
    (es : List Entry) :
    (e0.index = u.offset + u.entries.length →
      u.truncateAndAppend (e0 :: es) = .ok { u with
        entries := u.entries ++ (e0 :: es),
        entriesSize := approxSize (u.entries ++ e0 :: es) }) ∧
    (e0.index ≤ u.offset → e0.index ≠ u.offset + u.entries.length →
      u.truncateAndAppend (e0 :: es) = .ok { u with
        offset := e0.index, entries := (e0 :: es),
        entriesSize := approxSize (e0 :: es) }) ∧
    (u.offset < e0.index → e0.index < u.offset + u.entries.length →
      u.truncateAndAppend (e0 :: es) = .ok { u with
        entries := u.entries.take (e0.index - u.offset) ++ (e0 :: es),
        entriesSize := approxSize (u.entries.take (e0.index - u.offset) ++ e0 :: es) }) ∧
    (u.offset + u.entries.length < e0.index →
      ∃ s, u.truncateAndAppend (e0 :: es) = .panic s) := by
  refine ⟨?_, ?_, ?_, ?_⟩
  · intro h1
    simp only [Unstable.truncateAndAppend, h1, if_true]
    rw [h.size, approxSize_append]
  · intro h1 h2
    simp only [Unstable.truncateAndAppend, if_neg h2, if_pos h1]
  · intro h1 h2
    have hsz := approxSize_take_drop u.entries (e0.index - u.offset)
    simp only [Unstable.truncateAndAppend]
    rw [if_neg (by omega), if_neg (by omega)]
    have hm : u.mustCheckOutOfBounds u.offset e0.index = .ok () := by
      unfold Unstable.mustCheckOutOfBounds
      rw [if_neg (by omega), if_neg (by omega)]
    rw [hm]
    simp only []
    rw [if_neg (by rw [h.size]; omega), approxSize_append, h.size]
    congr 2
    omega
  · intro h1
    simp only [Unstable.truncateAndAppend]
    rw [if_neg (by omega), if_neg (by omega)]
    have hm : u.mustCheckOutOfBounds u.offset e0.index =
        .panic "unstable.must_check_outofbounds.range" := by
      unfold Unstable.mustCheckOutOfBounds
      rw [if_neg (by omega), if_pos (by omega)]
    rw [hm]
    exact ⟨_, rfl⟩

/-! ### `append` -/

theorem Inv.last_succ {l : RaftLog} (h : l.Inv) :
    l.lastIndex + 1 = l.unstable.offset + l.unstable.entries.length := by
  unfold lastIndex Unstable.maybeLastIndex
  by_cases he : l.unstable.entries.length = 0
  · have hnil : l.unstable.entries = [] := List.eq_nil_of_length_eq_zero he
    cases hs : l.unstable.snapshot with
    | none =>
      have := h.ents_empty hs hnil
      simp only [he, if_true]; omega
    | some sn =>
      have := h.unstWF.snap sn hs
      simp only [he, if_true]; omega
  · simp only [he, if_false]; omega

theorem Inv.off_ge_first {l : RaftLog} (h : l.Inv) : l.firstIndex ≤ l.unstable.offset := by
  cases hs : l.unstable.snapshot with
  | none => rw [firstIndex_none hs]; exact h.first_le_off hs
  | some sn => rw [firstIndex_some hs, h.unstWF.snap sn hs]; exact Nat.le_refl _

/-- the log with its unstable entries replaced -/
def withU (l : RaftLog) (off' : Nat) (ents' : List Entry) (sz : Nat) : RaftLog :=
  { l with unstable := { snapshot := l.unstable.snapshot, entries := ents', entriesSize := sz,
                         offset := off' } }

/-- replacing the unstable entries by a non-empty contiguous batch at a lower-or-equal offset -/
theorem Inv.replace_unstable {l : RaftLog} (h : l.Inv) (off' : Nat) (ents' : List Entry)
    (hne : ents' ≠ []) (hc : ContigFrom off' ents') (hle : off' ≤ l.unstable.offset)
    (hfirst : l.firstIndex ≤ off') (p : Nat) (hp : p < off') (hp2 : p ≤ l.persisted)
    (hcm : l.committed + 1 ≤ off' + ents'.length) :
    Inv { l.withU off' ents' (approxSize ents') with persisted := p } := by
  have hlen : ents'.length ≠ 0 := fun h0 => hne (List.eq_nil_of_length_eq_zero h0)
  unfold withU
  refine ⟨h.storeWF, ⟨hc, rfl, ?_⟩, ?_, ?_, ?_, ?_, ?_, hp,
    Nat.le_trans hp2 h.persisted_le_store⟩
  · intro sn hs
    have := h.unstWF.snap sn hs
    have hf := firstIndex_some (l := l) hs
    simp only; omega
  · intro hs
    have hf := firstIndex_none (l := l) hs
    simp only; omega
  · intro hs
    have := h.off_le_last hs
    simp only; omega
  · intro _ he; exact absurd he hne
  · exact h.dummy_le_committed
  · simp only [lastIndex, Unstable.maybeLastIndex, hlen, if_false]; omega

theorem lastIndex_replace (l : RaftLog) (off' : Nat) (ents' : List Entry) (sz : Nat)
    (hne : ents' ≠ []) :
    lastIndex (l.withU off' ents' sz) = off' + ents'.length - 1 := by
  have hlen : ents'.length ≠ 0 := fun h0 => hne (List.eq_nil_of_length_eq_zero h0)
  simp [withU, lastIndex, Unstable.maybeLastIndex, hlen]

/-- the logical log after replacing the unstable part, in terms of `truncateAppend` -/
theorem Inv.abs_replace {l : RaftLog} (h : l.Inv) (off' : Nat) (keepU : Nat) (sfx : List Entry)
    (sz : Nat) (hle : off' ≤ l.unstable.offset) (hfirst : l.firstIndex ≤ off')
    (hk : (off' = l.unstable.offset ∧ keepU ≤ l.unstable.entries.length) ∨ keepU = 0) :
    abs (l.withU off' (l.unstable.entries.take keepU ++ sfx) sz) =
      l.abs.truncateAppend (off' + keepU - 1) (sfx) := by
  cases hs : l.unstable.snapshot with
  | none =>
    have hp := h.storeWF.first_pos
    have hf := firstIndex_none (l := l) hs
    have htl := h.take_len hs
    rw [abs_none (l := l.withU _ _ _) (by simpa [withU] using hs), abs_none hs]
    simp only [withU]
    simp only [LLog.truncateAppend, LLog.mk.injEq, true_and]
    rw [← List.append_assoc]
    congr 1
    rw [List.take_append, htl, List.take_take]
    have e1 : min (off' + keepU - 1 - (l.store.firstIndex - 1))
        (l.unstable.offset - l.store.firstIndex) = off' - l.store.firstIndex := by
      rcases hk with ⟨h1, h2⟩ | h2 <;> omega
    have e2 : off' + keepU - 1 - (l.store.firstIndex - 1) -
        (l.unstable.offset - l.store.firstIndex) = keepU := by
      rcases hk with ⟨h1, h2⟩ | h2 <;> omega
    rw [e1, e2]
    exact ⟨rfl, rfl⟩
  | some sn =>
    have ho := h.unstWF.snap sn hs
    have hf := firstIndex_some (l := l) hs
    rw [abs_some (l := l.withU _ _ _) (by simpa [withU] using hs), abs_some hs]
    simp only [withU]
    simp only [LLog.truncateAppend, LLog.mk.injEq, true_and]
    congr 2
    rcases hk with ⟨h1, h2⟩ | h2
    · omega
    · omega

theorem Inv.append {l : RaftLog} (h : l.Inv) (e0 : Entry) (es : List Entry)
    (hc : ContigFrom e0.index (e0 :: es))
    (h1 : l.committed < e0.index) (h2 : e0.index ≤ l.lastIndex + 1) :
    ∃ l', l.append (e0 :: es) = .ok (l', e0.index + es.length) ∧
      l'.lastIndex = e0.index + es.length ∧
      l'.abs = l.abs.truncateAppend (e0.index - 1) (e0 :: es) ∧
      l'.store = l.store ∧ l'.committed = l.committed ∧ l'.persisted = l.persisted ∧
      l'.applied = l.applied ∧ l'.maxApplyUnpersistedLogLimit = l.maxApplyUnpersistedLogLimit ∧
      l'.unstable.snapshot = l.unstable.snapshot ∧
      (∀ p, p ≤ l.persisted → p < e0.index → Inv { l' with persisted := p }) := by
  have hls := h.last_succ
  have hof := h.off_ge_first
  have hdc := h.dummy_le_committed
  obtain ⟨hA, hB, hC, _⟩ := h.unstWF.truncateAndAppend e0 es
  have hpre : ∀ off' ents' sz, l.unstable.truncateAndAppend (e0 :: es) =
      .ok { snapshot := l.unstable.snapshot, entries := ents', entriesSize := sz, offset := off' } →
      l.append (e0 :: es) = .ok (l.withU off' ents' sz, (l.withU off' ents' sz).lastIndex) := by
    intro off' ents' sz hyp
    unfold RaftLog.append
    simp only []
    rw [if_neg (by omega), if_neg (by omega), hyp]
    rfl
  rcases Nat.lt_trichotomy e0.index (l.unstable.offset + l.unstable.entries.length) with hlt | heq | hgt
  · by_cases hlo : e0.index ≤ l.unstable.offset
    · -- case B: replace
      refine ⟨l.withU e0.index (e0 :: es) (approxSize (e0 :: es)),
        ?_, ?_, ?_, rfl, rfl, rfl, rfl, rfl, rfl, ?_⟩
      · rw [hpre _ _ _ (hB hlo (by omega))]
        rw [lastIndex_replace _ _ _ _ (by simp)]
        simp only [List.length_cons]
        simp only [Res.ok.injEq, Prod.mk.injEq, true_and]; omega
      · rw [lastIndex_replace _ _ _ _ (by simp)]; simp only [List.length_cons]; omega
      · have := h.abs_replace e0.index 0 (e0 :: es) (approxSize (e0 :: es)) hlo (by omega)
          (.inr rfl)
        simpa using this
      · intro p hp2 hp
        exact h.replace_unstable e0.index (e0 :: es) (by simp) hc hlo (by omega) p hp hp2
          (by simp only [List.length_cons]; omega)
    · -- case C: truncate inside
      have hlo' : l.unstable.offset < e0.index := by omega
      have hne : l.unstable.entries.take (e0.index - l.unstable.offset) ++ e0 :: es ≠ [] := by simp
      have hlen : (l.unstable.entries.take (e0.index - l.unstable.offset) ++ e0 :: es).length =
          e0.index - l.unstable.offset + (es.length + 1) := by
        rw [List.length_append, List.length_take]; simp only [List.length_cons]; omega
      refine ⟨l.withU l.unstable.offset
        (l.unstable.entries.take (e0.index - l.unstable.offset) ++ e0 :: es)
        (approxSize (l.unstable.entries.take (e0.index - l.unstable.offset) ++ e0 :: es)),
        ?_, ?_, ?_, rfl, rfl, rfl, rfl, rfl, rfl, ?_⟩
      · rw [hpre _ _ _ (hC hlo' hlt)]
        rw [lastIndex_replace _ _ _ _ hne, hlen]
        simp only [Res.ok.injEq, Prod.mk.injEq, true_and]; omega
      · rw [lastIndex_replace _ _ _ _ hne, hlen]; omega
      · have := h.abs_replace l.unstable.offset (e0.index - l.unstable.offset) (e0 :: es)
          (approxSize (l.unstable.entries.take (e0.index - l.unstable.offset) ++ e0 :: es))
          (Nat.le_refl _) hof (.inl ⟨rfl, by omega⟩)
        rw [show l.unstable.offset + (e0.index - l.unstable.offset) - 1 = e0.index - 1 by omega] at this
        exact this
      · intro p hp2 hp
        have hpo := h.persisted_lt_off
        have hcc : ContigFrom l.unstable.offset
            (l.unstable.entries.take (e0.index - l.unstable.offset) ++ e0 :: es) := by
          apply ContigFrom.append (ContigFrom.take h.unstWF.contig _)
          rw [List.length_take, show l.unstable.offset + min (e0.index - l.unstable.offset)
            l.unstable.entries.length = e0.index by omega]
          exact hc
        have := h.replace_unstable l.unstable.offset _ hne hcc (Nat.le_refl _) hof
          p (by omega) hp2 (by rw [hlen]; omega)
        exact this
  · -- case A: plain append
    have hne : l.unstable.entries ++ e0 :: es ≠ [] := by simp
    have hlen : (l.unstable.entries ++ e0 :: es).length =
        l.unstable.entries.length + (es.length + 1) := by
      rw [List.length_append]; simp only [List.length_cons]
    refine ⟨l.withU l.unstable.offset (l.unstable.entries ++ e0 :: es)
      (approxSize (l.unstable.entries ++ e0 :: es)),
      ?_, ?_, ?_, rfl, rfl, rfl, rfl, rfl, rfl, ?_⟩
    · rw [hpre _ _ _ (hA heq)]
      rw [lastIndex_replace _ _ _ _ hne, hlen]
      simp only [Res.ok.injEq, Prod.mk.injEq, true_and]; omega
    · rw [lastIndex_replace _ _ _ _ hne, hlen]; omega
    · have := h.abs_replace l.unstable.offset l.unstable.entries.length (e0 :: es)
        (approxSize (l.unstable.entries ++ e0 :: es))
        (Nat.le_refl _) hof (.inl ⟨rfl, Nat.le_refl _⟩)
      rw [List.take_of_length_le (Nat.le_refl _), ← heq] at this
      exact this
    · intro p hp2 hp
      have hpo := h.persisted_lt_off
      have hcc : ContigFrom l.unstable.offset (l.unstable.entries ++ e0 :: es) := by
        apply ContigFrom.append h.unstWF.contig
        rw [← heq]; exact hc
      exact h.replace_unstable l.unstable.offset _ hne hcc (Nat.le_refl _) hof
        p (by omega) hp2 (by rw [hlen]; omega)
  · omega

/-! ### cursor updates -/

theorem Inv.set_cursors {l : RaftLog} (h : l.Inv) (c p a : Nat) (hc1 : l.firstIndex ≤ c + 1)
    (hc2 : c ≤ l.lastIndex) (hp1 : p < l.unstable.offset) (hp2 : p ≤ l.store.lastIndex) :
    Inv { l with committed := c, persisted := p, applied := a } :=
  ⟨h.storeWF, h.unstWF, h.first_le_off, h.off_le_last, h.ents_empty, hc1, hc2, hp1, hp2⟩

theorem Inv.commitTo {l : RaftLog} (h : l.Inv) (to : Nat) (hle : to ≤ l.lastIndex) :
    l.commitTo to = .ok { l with committed := max l.committed to } ∧
    Inv { l with committed := max l.committed to } := by
  have hd := h.dummy_le_committed
  have hc := h.committed_le_last
  constructor
  · unfold RaftLog.commitTo
    by_cases h1 : to ≤ l.committed
    · rw [if_pos h1, Nat.max_eq_left h1]
    · rw [if_neg h1, if_neg (by omega), Nat.max_eq_right (by omega)]
  · exact h.set_cursors _ l.persisted l.applied (by show l.firstIndex ≤ _; omega)
      (by show _ ≤ l.lastIndex; omega) h.persisted_lt_off h.persisted_le_store

theorem commitTo_panics (l : RaftLog) (to : Nat) (h1 : l.committed < to) (h2 : l.lastIndex < to) :
    ∃ s, l.commitTo to = .panic s := by
  unfold RaftLog.commitTo
  rw [if_neg (by omega), if_pos h2]; exact ⟨_, rfl⟩

theorem _root_.RaftModel.MemStorage.WF.term_ok_le_last {s : MemStorage} (h : s.WF) {i t : Nat}
    (ht : s.term i = .ok t) : i ≤ s.lastIndex := by
  have hl := h.last_succ
  have hs := h.snap_lt
  unfold MemStorage.term at ht
  by_cases h1 : i = s.snapshotMetadata.index
  · omega
  · rw [if_neg h1] at ht
    by_cases h2 : i < s.firstIndex
    · rw [if_pos h2] at ht; cases ht
    · rw [if_neg h2] at ht
      by_cases h3 : s.lastIndex < i
      · rw [if_pos h3] at ht; cases ht
      · omega

theorem Inv.maybePersist {l : RaftLog} (h : l.Inv) (index term : Nat) :
    ∃ l' b, l.maybePersist index term = .ok (l', b) ∧ l'.Inv ∧ l'.abs = l.abs ∧
      l'.committed = l.committed ∧ l'.applied = l.applied ∧ l.persisted ≤ l'.persisted ∧
      (b = true → l'.persisted = index ∧ l.store.term index = .ok term) := by
  have key : ∀ fu, fu ≤ l.unstable.offset → ∃ l' b,
      (if l.persisted < index ∧ index < fu then
        match l.store.term index with
        | .ok t => if t = term then Res.ok (({ l with persisted := index } : RaftLog), true)
                   else .ok (l, false)
        | .err _ => .ok (l, false)
        | .panic s => .panic s
      else .ok (l, false)) = .ok (l', b) ∧ l'.Inv ∧ l'.abs = l.abs ∧
      l'.committed = l.committed ∧ l'.applied = l.applied ∧ l.persisted ≤ l'.persisted ∧
      (b = true → l'.persisted = index ∧ l.store.term index = .ok term) := by
    intro fu hfule
    by_cases hcond : l.persisted < index ∧ index < fu
    · rw [if_pos hcond]
      cases ht : l.store.term index with
      | ok t =>
        simp only []
        by_cases htt : t = term
        · rw [if_pos htt]
          have hle := h.storeWF.term_ok_le_last ht
          refine ⟨{ l with persisted := index }, true, rfl, ?_, rfl, rfl, rfl,
            by simp only; omega, fun _ => ⟨rfl, by rw [htt]⟩⟩
          exact h.set_cursors l.committed index l.applied h.dummy_le_committed
            h.committed_le_last (by omega) hle
        · rw [if_neg htt]
          exact ⟨l, false, rfl, h, rfl, rfl, rfl, Nat.le_refl _, fun hb => by cases hb⟩
      | err e => exact ⟨l, false, rfl, h, rfl, rfl, rfl, Nat.le_refl _, fun hb => by cases hb⟩
      | panic s =>
        -- the storage never panics on `term` when it is well formed
        exfalso
        have hl := h.storeWF.last_succ
        unfold MemStorage.term at ht
        split at ht
        · cases ht
        · split at ht
          · cases ht
          · split at ht
            · cases ht
            · rename_i h1 h2 h3
              rw [List.getElem?_eq_some_iff.2 ⟨(by omega : index - l.store.firstIndex < l.store.entries.length), rfl⟩] at ht
              cases ht
    · rw [if_neg hcond]
      exact ⟨l, false, rfl, h, rfl, rfl, rfl, Nat.le_refl _, fun hb => by cases hb⟩
  unfold RaftLog.maybePersist
  dsimp only
  cases hs : l.unstable.snapshot with
  | none => exact key _ (Nat.le_refl _)
  | some sn =>
    have := h.unstWF.snap sn hs
    exact key _ (by simp only; omega)

theorem Inv.restore {l : RaftLog} (h : l.Inv) (sn : Snapshot) (hc : l.committed ≤ sn.metadata.index) :
    ∃ l', l.restore sn = .ok l' ∧ l'.Inv ∧ l'.abs = LLog.ofSnapshot sn ∧
      l'.committed = sn.metadata.index ∧ l'.applied = l.applied ∧
      l'.persisted = min l.persisted l.committed := by
  have hpl := h.persisted_le_store
  refine ⟨{ l with
    persisted := if l.committed < l.persisted then l.committed else l.persisted,
    committed := sn.metadata.index,
    unstable := l.unstable.restore sn }, ?_, ?_, ?_, rfl, rfl, ?_⟩
  · unfold RaftLog.restore
    rw [if_neg (by omega)]
  · refine ⟨h.storeWF, ⟨?_, rfl, ?_⟩, ?_, ?_, ?_, ?_, ?_, ?_, ?_⟩
    · intro k e hk; simp [Unstable.restore] at hk
    · intro sn' hs; simp only [Unstable.restore, Option.some.injEq] at hs; subst hs; rfl
    · intro hs; simp [Unstable.restore] at hs
    · intro hs; simp [Unstable.restore] at hs
    · intro hs; simp [Unstable.restore] at hs
    · simp [RaftLog.firstIndex, Unstable.maybeFirstIndex, Unstable.restore]
    · simp [RaftLog.lastIndex, Unstable.maybeLastIndex, Unstable.restore]
    · simp only [Unstable.restore]; split <;> omega
    · simp only []; split <;> omega
  · simp [RaftLog.abs, Unstable.restore, LLog.ofSnapshot]
  · simp only []; split <;> omega

theorem restore_panics (l : RaftLog) (sn : Snapshot) (hc : sn.metadata.index < l.committed) :
    ∃ s, l.restore sn = .panic s := by
  unfold RaftLog.restore; rw [if_pos hc]; exact ⟨_, rfl⟩

theorem Inv.appliedTo {l : RaftLog} (h : l.Inv) (idx : Nat) (h1 : l.applied ≤ idx)
    (h2 : idx ≤ l.committed) :
    ∃ l', l.appliedTo idx = .ok l' ∧ l'.Inv ∧ l'.abs = l.abs ∧ l'.committed = l.committed ∧
      l'.persisted = l.persisted ∧ l'.applied = max l.applied idx := by
  unfold RaftLog.appliedTo
  by_cases h0 : idx = 0
  · rw [if_pos h0]
    exact ⟨l, rfl, h, rfl, rfl, rfl, by omega⟩
  · rw [if_neg h0, if_neg (by omega)]
    exact ⟨_, rfl, h.set_cursors l.committed l.persisted idx h.dummy_le_committed
      h.committed_le_last h.persisted_lt_off h.persisted_le_store, rfl, rfl, rfl,
      by simp only; omega⟩

/-! ### construction, and the committed prefix -/

theorem Inv.new {st : MemStorage} (h : st.WF) (limit : Nat) :
    ∃ l, RaftLog.new st limit = .ok l ∧ l.Inv ∧ l.AppliedOk ∧ l.store = st := by
  have hp := h.first_pos
  have hl := h.last_succ
  refine ⟨_, by unfold RaftLog.new; rw [if_neg (by omega)], ?_, Nat.le_refl _, rfl⟩
  refine ⟨h, ⟨?_, rfl, ?_⟩, ?_, ?_, ?_, ?_, ?_, ?_, ?_⟩
  · intro k e hk; simp [Unstable.new] at hk
  · intro sn hs; simp [Unstable.new] at hs
  · intro _; simp only [Unstable.new]; omega
  · intro _; simp only [Unstable.new]; omega
  · intro _ _; rfl
  · simp only [RaftLog.firstIndex, Unstable.maybeFirstIndex, Unstable.new]; omega
  · simp only [RaftLog.lastIndex, Unstable.maybeLastIndex, Unstable.new, List.length_nil,
      if_true]; omega
  · simp only [Unstable.new]; omega
  · exact Nat.le_refl _

/-- truncating after `keep` and appending leaves every position `≤ keep` (inside the log) alone -/
theorem _root_.RaftModel.LLog.truncateAppend_entryAt (g : LLog) (keep : Nat) (sfx : List Entry)
    (i : Nat) (h1 : i ≤ keep) (h2 : i ≤ g.lastIndex) :
    (g.truncateAppend keep sfx).entryAt i = g.entryAt i := by
  unfold LLog.truncateAppend LLog.entryAt
  simp only [LLog.lastIndex] at h2
  dsimp only
  by_cases h0 : i ≤ g.snapIdx
  · rw [if_pos h0, if_pos h0]
  · rw [if_neg h0, if_neg h0]
    rw [List.getElem?_append_left (by rw [List.length_take]; omega), List.getElem?_take,
      if_pos (by omega)]

/-! ### `maybe_append` -/

theorem _root_.RaftModel.LLog.findConflict_char (g : LLog) (ents : List Entry) :
    ∀ start, ContigFrom start ents →
    (g.findConflict ents = 0 ∧ ∀ e ∈ ents, g.matchTerm e.index e.term = true) ∨
    (∃ k, k < ents.length ∧ g.findConflict ents = start + k ∧
      ∀ e ∈ ents.take k, g.matchTerm e.index e.term = true) := by
  induction ents with
  | nil => intro _ _; exact .inl ⟨rfl, by simp⟩
  | cons e es ih =>
    intro start hc
    have he := hc.head
    by_cases hm : g.matchTerm e.index e.term = true
    · rcases ih (start + 1) hc.tail with ⟨h0, hall⟩ | ⟨k, hk, hf, hall⟩
      · left
        refine ⟨by simp [LLog.findConflict, hm, h0], ?_⟩
        intro x hx
        rcases List.mem_cons.1 hx with rfl | hx
        · exact hm
        · exact hall x hx
      · right
        refine ⟨k + 1, by simp only [List.length_cons]; omega,
          by simp only [LLog.findConflict, hm, if_true, hf]; omega, ?_⟩
        intro x hx
        rw [List.take_succ_cons] at hx
        rcases List.mem_cons.1 hx with rfl | hx
        · exact hm
        · exact hall x hx
    · right
      refine ⟨0, by simp, ?_, by simp⟩
      simp only [LLog.findConflict]
      rw [if_neg hm]; omega

theorem _root_.RaftModel.LLog.matchTerm_le_last (g : LLog) (i t : Nat)
    (hm : g.matchTerm i t = true) (ht : t ≠ 0) : i ≤ g.lastIndex := by
  unfold LLog.matchTerm LLog.term at hm
  by_cases hout : i < g.snapIdx ∨ g.lastIndex < i
  · rw [if_pos hout] at hm
    simp only [beq_iff_eq] at hm
    omega
  · omega

/-- `maybe_append` when the entries conflict above the commit index -/
theorem Inv.maybeAppend_conflict {l : RaftLog} (h : l.Inv) (idx term committed : Nat)
    (ents : List Entry) (hc : ContigFrom (idx + 1) ents) (hidx : idx ≤ l.lastIndex)
    (hterms : ∀ e ∈ ents, e.term ≠ 0)
    (hm : l.abs.matchTerm idx term = true)
    (hci : l.committed < l.abs.findConflict ents) :
    ∃ l', l.maybeAppend idx term committed ents =
        .ok (l', some (l.abs.findConflict ents, idx + ents.length)) ∧
      l'.abs = l.abs.truncateAppend (l.abs.findConflict ents - 1)
        (ents.drop (l.abs.findConflict ents - (idx + 1))) ∧
      l'.persisted = min l.persisted (l.abs.findConflict ents - 1) ∧
      l'.committed = max l.committed (min committed (idx + ents.length)) ∧
      l'.applied = l.applied ∧ l'.lastIndex = idx + ents.length ∧ l'.Inv := by
  rcases l.abs.findConflict_char ents (idx + 1) hc with ⟨h0, _⟩ | ⟨k, hk, hf, hall⟩
  · omega
  · have hla := h.lastIndex_abs
    have hdrop : ents.drop k = ents[k] :: ents.drop (k + 1) := List.drop_eq_getElem_cons hk
    have hcd : ContigFrom (idx + 1 + k) (ents.drop k) := hc.drop k
    rw [hdrop] at hcd
    have hek : (ents[k]).index = idx + 1 + k := hcd.head
    have hle : idx + 1 + k ≤ l.lastIndex + 1 := by
      rcases Nat.eq_zero_or_pos k with hk0 | hkpos
      · omega
      · have hmem : ents[k - 1] ∈ ents.take k := by
          rw [List.mem_take_iff_getElem]
          exact ⟨k - 1, by omega, rfl⟩
        have h1 := hall _ hmem
        have h2 := l.abs.matchTerm_le_last _ _ h1 (hterms _ (List.getElem_mem _))
        have h3 := hc (k - 1) ents[k - 1] (List.getElem?_eq_some_iff.2 ⟨by omega, rfl⟩)
        omega
    rw [← hek] at hcd
    obtain ⟨l1, happ, hlast1, habs1, hst1, hcm1, hp1, hap1, hlim1, hsn1, hinv1⟩ :=
      h.append ents[k] (ents.drop (k + 1)) hcd (by omega) (by omega)
    have hrest : (ents.drop (k + 1)).length = ents.length - (k + 1) := List.length_drop
    have hpinv := hinv1 (min l.persisted (l.abs.findConflict ents - 1)) (Nat.min_le_left _ _)
      (by omega)
    have hl2 : ({ l1 with persisted := min l.persisted (l.abs.findConflict ents - 1) } :
        RaftLog).lastIndex = idx + ents.length := by
      show l1.lastIndex = _
      omega
    obtain ⟨hct, hcinv⟩ := hpinv.commitTo (min committed (idx + ents.length))
      (by rw [hl2]; exact Nat.min_le_right _ _)
    refine ⟨{ ({ l1 with persisted := min l.persisted (l.abs.findConflict ents - 1) } : RaftLog)
      with committed := max l1.committed (min committed (idx + ents.length)) },
      ?_, ?_, rfl, ?_, hap1, ?_, hcinv⟩
    · unfold RaftLog.maybeAppend
      rw [h.matchTerm_abs, hm]
      simp only []
      rw [h.findConflict_abs]
      simp only []
      rw [if_neg (by omega), if_neg (by omega)]
      unfold RaftLog.appendConflict
      rw [if_neg (by omega), if_neg (by omega),
        show l.abs.findConflict ents - (idx + 1) = k by omega, hdrop, happ]
      simp only []
      have hl1eq : (if l.abs.findConflict ents - 1 < l1.persisted
          then { l1 with persisted := l.abs.findConflict ents - 1 } else l1) =
          { l1 with persisted := min l.persisted (l.abs.findConflict ents - 1) } := by
        rw [hp1]
        by_cases hlt : l.abs.findConflict ents - 1 < l.persisted
        · rw [if_pos hlt, Nat.min_eq_right (by omega)]
        · rw [if_neg hlt, Nat.min_eq_left (by omega), ← hp1]
      rw [hl1eq, hct]
    · show l1.abs = _
      rw [habs1, hek, hf, show idx + 1 + k - (idx + 1) = k by omega, hdrop]
    · show max l1.committed _ = _
      rw [hcm1]
    · exact hl2

theorem Inv.maybeAppend_nomatch {l : RaftLog} (h : l.Inv) (idx term committed : Nat)
    (ents : List Entry) (hm : l.abs.matchTerm idx term = false) :
    l.maybeAppend idx term committed ents = .ok (l, none) := by
  unfold RaftLog.maybeAppend
  rw [h.matchTerm_abs, hm]

theorem Inv.maybeAppend_panics {l : RaftLog} (h : l.Inv) (idx term committed : Nat)
    (ents : List Entry) (hm : l.abs.matchTerm idx term = true)
    (h0 : 0 < l.abs.findConflict ents) (hci : l.abs.findConflict ents ≤ l.committed) :
    ∃ s, l.maybeAppend idx term committed ents = .panic s := by
  unfold RaftLog.maybeAppend
  rw [h.matchTerm_abs, hm]
  simp only []
  rw [h.findConflict_abs]
  simp only []
  rw [if_neg (by omega), if_pos hci]
  exact ⟨_, rfl⟩

theorem Inv.maybeAppend_noconflict {l : RaftLog} (h : l.Inv) (idx term committed : Nat)
    (ents : List Entry) (hc : ContigFrom (idx + 1) ents) (hidx : idx ≤ l.lastIndex)
    (hterms : ∀ e ∈ ents, e.term ≠ 0)
    (hm : l.abs.matchTerm idx term = true) (hci : l.abs.findConflict ents = 0) :
    l.maybeAppend idx term committed ents =
        .ok ({ l with committed := max l.committed (min committed (idx + ents.length)) },
             some (0, idx + ents.length)) ∧
      Inv { l with committed := max l.committed (min committed (idx + ents.length)) } := by
  have hle : idx + ents.length ≤ l.lastIndex := by
    rcases l.abs.findConflict_char ents (idx + 1) hc with ⟨_, hall⟩ | ⟨k, hk, hf, _⟩
    · rcases Nat.eq_zero_or_pos ents.length with h0 | hpos
      · omega
      · have hmem : ents[ents.length - 1] ∈ ents := List.getElem_mem _
        have h2 := l.abs.matchTerm_le_last _ _ (hall _ hmem) (hterms _ hmem)
        have h3 := hc (ents.length - 1) ents[ents.length - 1]
          (List.getElem?_eq_some_iff.2 ⟨by omega, rfl⟩)
        rw [h.lastIndex_abs]; omega
    · omega
  obtain ⟨hct, hcinv⟩ := h.commitTo (min committed (idx + ents.length))
    (Nat.le_trans (Nat.min_le_right _ _) hle)
  refine ⟨?_, hcinv⟩
  unfold RaftLog.maybeAppend
  rw [h.matchTerm_abs, hm]
  simp only []
  rw [h.findConflict_abs]
  simp only []
  rw [if_pos hci]
  simp only []
  rw [hct, hci]

end RaftLog
end RaftModel
