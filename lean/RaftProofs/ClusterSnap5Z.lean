import RaftProofs.ClusterSnap5X

/-!
Commit safety of `ClusterSem` with compaction, snapshots **and `request_snapshot`**, part 5Z: **a
concrete history in which a follower requests a snapshot and the leader serves it** (kernel-evaluated)
that satisfies every hypothesis of this development (`Snap5.Hyp3`, hence `Snap5.Hyp3w`).

The 34-state history `sx_hist` of `ClusterSnap2V` (`Snap5.sx_hist` is its copy), continued by eight
steps: node 2 (follower of term 1, log `[1, 2]`, commit index 1) is delivered the empty `MsgAppend` of
node 1 that carries commit index 2; its application **calls `request_snapshot`**
(`pending_request_snapshot = 2`, a rejecting `MsgAppendResponse` with `request_snapshot = 2` is queued)
and sends; node 1 (leader) is delivered that response, records the request in the progress of node 2
(`Progress.pending_request_snapshot = 2`), **queues a `MsgSnapshot` (index 2, term 1)** — the progress of
node 2 goes to the `Snapshot` state — and sends it; node 2 is delivered the snapshot and, because the
request is pending and the snapshot is not older than the requested index, **restores it although its
log holds the snapshot's last entry** (the case that is new in `Snap5.SnapCase.restored`), installs it
(`persist_snap`) and sends its acknowledgement.
-/
namespace RaftModel
namespace Cluster
namespace Snap5
open Node Raft Raft.CC RaftProps.C02 RaftProps.C05 Snap

/-! ### the states -/

/-- the empty `MsgAppend` of node 1 for node 2 that carries commit index 2 -/
def rx_app := sx_t11.net[9]!
def rx_b10 := c02x_st (Node.call cx_b9 none (.step rx_app))
/-- node 2 with a pending snapshot request -/
def rx_b11 := c02x_st (Node.call rx_b10 none .requestSnapshot)
def rx_b12 := c02x_st (Node.call rx_b11 none .drain)
/-- the `MsgAppendResponse` of node 2 that carries the request (`request_snapshot = 2`) -/
def rx_req := rx_b11.raft.msgs[1]!
/-- node 1 with the request recorded and the `MsgSnapshot` queued -/
def rx_a19 := c02x_st (Node.call sx_a18 none (.step rx_req))
def rx_a20 := c02x_st (Node.call rx_a19 none .drain)
/-- the `MsgSnapshot` (index 2, term 1) of node 1 for node 2 -/
def rx_snap := rx_a19.raft.msgs.head!
/-- node 2 with the requested snapshot pending -/
def rx_b13 := c02x_st (Node.call rx_b12 none (.step rx_snap))
/-- node 2 with the snapshot installed -/
def rx_b14 := c02x_st (Node.call rx_b13 none .persistSnap)
def rx_b15 := c02x_st (Node.call rx_b14 none .drain)

def rx_t1 : Sys := sx_t11.setNode 2 rx_b10
def rx_t2 : Sys := rx_t1.setNode 2 rx_b11
def rx_t3 : Sys := { (rx_t2.setNode 2 rx_b12) with net := rx_t2.net ++ rx_b11.raft.msgs }
def rx_t4 : Sys := rx_t3.setNode 1 rx_a19
def rx_t5 : Sys := { (rx_t4.setNode 1 rx_a20) with net := rx_t4.net ++ rx_a19.raft.msgs }
def rx_t6 : Sys := rx_t5.setNode 2 rx_b13
def rx_t7 : Sys := rx_t6.setNode 2 rx_b14
def rx_t8 : Sys := { (rx_t7.setNode 2 rx_b15) with net := rx_t7.net ++ rx_b14.raft.msgs }

def rx_tail : List Sys := [rx_t1, rx_t2, rx_t3, rx_t4, rx_t5, rx_t6, rx_t7, rx_t8]
/-- the history: 34 + 8 states -/
def rx_hist : List Sys := sx_hist ++ rx_tail

set_option maxRecDepth 100000 in
theorem rx_tail_steps : Chained KStep (sx_t11 :: rx_tail) := by
  refine ⟨?_, ?_, ?_, ?_, ?_, ?_, ?_, ?_, trivial⟩
  · -- node 2 is delivered the empty append with commit index 2
    exact KStep.deliver _ 2 cx_b9 rx_b10 none rx_app _ rfl
      (getIdx_mem _ 9 (by decide)) (by decide) (by decide)
      (fun _ => by decide) (snapSend_of_none (by decide)) (c02x_out _ (by decide))
  · -- the application of node 2 requests a snapshot
    exact KStep.call _ 2 rx_b10 rx_b11 none .requestSnapshot _ rfl rfl
      (fun k hc => by cases hc) (fun k hc => by cases hc)
      (fun hc => by cases hc) (fun hc => absurd (by decide) hc) (fun _ => by decide)
      (fun k hc => by cases hc) (snapSend_of_none (by decide)) (c02x_out _ (by decide))
  · exact KStep.send _ 2 rx_b11 rx_b12 rfl ⟨by decide, by decide⟩
      (fun _ => ⟨by decide, by decide⟩) rfl
  · -- node 1 is delivered the request and queues the snapshot of its storage
    refine KStep.deliver _ 1 sx_a18 rx_a19 none rx_req _ rfl
      (List.mem_append_right _ (getIdx_mem _ 1 (by decide))) (by decide) (by decide)
      (fun _ => by decide) ?_ (c02x_out _ (by decide))
    intro x hx _ _
    have : x = rx_snap := by
      have hq : rx_a19.raft.msgs = [rx_snap] := by decide
      rw [hq] at hx
      exact List.mem_singleton.1 hx
    subst this
    decide
  · exact KStep.send _ 1 rx_a19 rx_a20 rfl ⟨by decide, by decide⟩
      (fun hc => absurd (by decide) hc) rfl
  · -- node 2 is delivered the snapshot it asked for and restores it
    exact KStep.deliver _ 2 rx_b12 rx_b13 none rx_snap _ rfl
      (List.mem_append_right _ (c02x_head_mem _ (by decide))) (by decide) (by decide)
      (fun hc => absurd (by decide) hc) (snapSend_of_none (by decide)) (c02x_out _ (by decide))
  · -- … and installs it
    exact KStep.call _ 2 rx_b13 rx_b14 none .persistSnap _ rfl rfl
      (fun k hc => by cases hc) (fun k hc => by cases hc)
      (fun _ _ => ⟨by decide, by decide⟩) (fun _ => rfl) (fun hc => absurd hc (by decide))
      (fun k hc => by cases hc) (snapSend_of_none (by decide)) (c02x_out _ (by decide))
  · exact KStep.send _ 2 rx_b14 rx_b15 rfl ⟨by decide, by decide⟩
      (fun _ => ⟨by decide, by decide⟩) rfl

theorem rx_ksteps : Chained KStep rx_hist :=
  chained_append
    (sx_pre ++ [sx_t1, sx_t2, sx_t3, sx_t4, sx_t5, sx_t6, sx_t7, sx_t8, sx_t9, sx_t10]) sx_t11
    rx_tail (by simpa [sx_hist, sx_tail] using sx_ksteps) rx_tail_steps

theorem rx_history : History rx_hist := by
  have := chained_history [] c02x_s0 (History.init _ c02x_init) _
    (Chained.mono (fun _ _ hc => hc.step) _ rx_ksteps)
  simpa [rx_hist, sx_hist, sx_pre, sx_mid, c01x_hist, c05x_hist, c02x_hist] using this

/-! ### the hypotheses -/

/-- the check of `sx_chk` with `ReqOk` in place of "no pending request" -/
def rx_chk (s : Sys) : Bool :=
  c02x_fixed s && c05x_nobatch s && s.net.all (fun x => decide (sx_msgOk x)) &&
  s.nodes.all (fun p => decide (p.2.raft.pendingRequestSnapshot ≠ 0 →
    p.2.raft.raftLog.lastIndex ≤ p.2.raft.pendingRequestSnapshot))

theorem rx_chk_ok (s : Sys) (h : rx_chk s = true) :
    FixedCfg c02x_cfg s ∧ NoBatch s ∧ (∀ x ∈ s.net, sx_msgOk x) ∧ ReqOk s := by
  unfold rx_chk at h
  simp only [Bool.and_eq_true] at h
  obtain ⟨⟨⟨h1, h2⟩, h3⟩, h4⟩ := h
  refine ⟨c02x_fixed_ok s h1, c05x_nobatch_ok s h2, fun x hx => ?_, fun i st hi => ?_⟩
  · rw [List.all_eq_true] at h3
    exact of_decide_eq_true (h3 x hx)
  · rw [List.all_eq_true] at h4
    exact of_decide_eq_true (h4 _ (c02_lookup_mem s.nodes i st hi))

set_option maxRecDepth 100000 in
theorem rx_chk_tail : ∀ s ∈ rx_tail, rx_chk s = true := by
  intro s hs
  simp only [rx_tail, List.mem_cons, List.not_mem_nil, or_false] at hs
  rcases hs with rfl | rfl | rfl | rfl | rfl | rfl | rfl | rfl <;> decide

theorem rx_all (s : Sys) (hs : s ∈ rx_hist) :
    FixedCfg c02x_cfg s ∧ NoBatch s ∧ (∀ x ∈ s.net, sx_msgOk x) ∧ ReqOk s := by
  rcases List.mem_append.1 hs with c | c
  · exact sx_chk_ok s (sx_chk_all s c)
  · exact rx_chk_ok s (rx_chk_tail s c)

/-- **the history satisfies every hypothesis of the commit layer with compaction, snapshots and
`request_snapshot`** -/
theorem rx_hyp3 : Hyp3 c02x_cfg 0 rx_hist := by
  have h0 : rx_hist[0]? = some c02x_s0 := rfl
  have H := sx_hyp3
  have h0' : sx_hist[0]? = some c02x_s0 := rfl
  refine ⟨⟨⟨rx_history, fun s hs => (rx_all s hs).1, H.ne, H.nd1, H.nd2, ?_,
    chained_at _ rx_ksteps, fun s hs => (rx_all s hs).2.1, fun s hs => (rx_all s hs).2.2.2⟩,
    H.nolone, ?_, ?_, fun s hs x hx => ((rx_all s hs).2.2.1 x hx).1, ?_⟩,
    fun s hs x hx => ((rx_all s hs).2.2.1 x hx).2.1, ?_,
    fun s hs x hx => ((rx_all s hs).2.2.1 x hx).2.2⟩
  · intro s hs
    rw [h0] at hs; cases hs
    exact H.init _ h0'
  · intro s hs
    rw [h0] at hs; cases hs
    exact H.first0 _ h0'
  · intro s hs
    rw [h0] at hs; cases hs
    exact H.initc _ h0'
  · intro s hs
    rw [h0] at hs; cases hs
    exact H.pend0 _ h0'
  · intro s hs
    rw [h0] at hs; cases hs
    exact H.snapt0 _ h0'

/-- some node of `s` has a pending snapshot request -/
def reqPendingIn (s : Sys) : Bool :=
  s.nodes.any (fun p => decide (p.2.raft.pendingRequestSnapshot ≠ 0))

/-- some node of `s` is leader and has a progress that records a follower's request and is in the
`Snapshot` state, with a `MsgSnapshot` for that follower in its queue -/
def reqServedIn (s : Sys) : Bool :=
  s.nodes.any (fun p => p.2.raft.state == .leader &&
    p.2.raft.prs.progress.any (fun q => q.2.state == .snapshot &&
      decide (q.2.pendingRequestSnapshot ≠ 0) &&
      p.2.raft.msgs.any (fun x => x.msgType == .msgSnapshot && x.to == q.1)))

/-- **the history really exercises `request_snapshot`** (kernel-evaluated): the call of node 2 succeeds
and sets `pending_request_snapshot = 2`; the transport then holds a rejecting `MsgAppendResponse`
with `request_snapshot = 2`; the leader, delivered it, records the request, puts the progress in the
`Snapshot` state and queues a `MsgSnapshot` for node 2; node 2 restores that snapshot **although its log
holds the snapshot's last entry** (`match_term = true`), which clears the request. -/
theorem rx_exercised :
    (∃ res, Node.call rx_b10 none .requestSnapshot = .ok (res, rx_b11)) ∧
    rx_b10.raft.pendingRequestSnapshot = 0 ∧ rx_b11.raft.pendingRequestSnapshot = 2 ∧
    rx_hist.any reqPendingIn = true ∧
    rx_hist.any (fun s => s.net.any (fun x => x.msgType == .msgAppendResponse && x.reject &&
      decide (x.requestSnapshot ≠ 0))) = true ∧
    rx_hist.any reqServedIn = true ∧
    rx_hist.any (fun s => s.net.any (fun x => x.msgType == .msgSnapshot && x.to == 2)) = true ∧
    rx_b12.raft.raftLog.matchTerm rx_snap.snapshot.metadata.index rx_snap.snapshot.metadata.term =
      .ok true ∧
    rx_b12.raft.raftLog.unstable.snapshot = none ∧
    rx_b13.raft.raftLog.unstable.snapshot = some rx_snap.snapshot ∧
    rx_b13.raft.pendingRequestSnapshot = 0 := by
  refine ⟨⟨_, c02x_out _ (by decide)⟩, by decide, by decide, ?_, ?_, ?_, ?_, by decide, by decide,
    by decide, by decide⟩
  · have : rx_tail.any reqPendingIn = true := by decide
    unfold rx_hist; rw [List.any_append, this, Bool.or_true]
  · have : rx_tail.any (fun s => s.net.any (fun x => x.msgType == .msgAppendResponse && x.reject &&
        decide (x.requestSnapshot ≠ 0))) = true := by decide
    unfold rx_hist; rw [List.any_append, this, Bool.or_true]
  · have : rx_tail.any reqServedIn = true := by decide
    unfold rx_hist; rw [List.any_append, this, Bool.or_true]
  · have : rx_tail.any (fun s => s.net.any (fun x => x.msgType == .msgSnapshot && x.to == 2)) =
        true := by decide
    unfold rx_hist; rw [List.any_append, this, Bool.or_true]

end Snap5
end Cluster
end RaftModel
