import RaftProofs.ClusterSnapB

/-!
Commit safety of `ClusterSem` with log compaction, part D: **ghost full logs**.

A compacted logical log `g` (snapshot point `p = g.snapIdx > c0`) has forgotten its entries up to `p`
(and, after a `MemStorage` compaction, the term at `p`).  The commit layer compares logs of different
nodes at different times, and a node that compacted further than another one cannot be compared with
it by its retained entries alone.  `Full C c0 g F` says that `F` is *the uncompacted version* of `g`:

* `F` starts at the common initial snapshot point `c0`, is gap-free, ends where `g` ends and holds `g`'s
  entries above `p`;
* when `g` knows the term of its snapshot point, `F` holds an entry of that term there;
* every link of `F` (entry plus the term of its predecessor) is a link of a chain of the class `C`
  (`DerivedFrom C F`; `C` will be "the chains of all states of the history"), whose members agree
  pairwise — so `F` agrees with every chain and with every other ghost log.

Because of the last clause `F` is unique (`Full.uniq`), as soon as `g` has a first entry or knows the
term of its snapshot point (`Full.ne`, guaranteed by the compaction contract `k ≤ persisted`).
The theory is pure (no cluster, no history): `C` is a parameter.
-/
namespace RaftModel
namespace Cluster
namespace Snap

/-- the uncompacted version of `g` -/
structure Full (C : LLog → Prop) (c0 : Nat) (g F : LLog) : Prop where
  snap : F.snapIdx = c0
  le : c0 ≤ g.snapIdx
  contig : F.Contig
  last : F.lastIndex = g.lastIndex
  ents : ∀ k, g.snapIdx < k → F.entryAt k = g.entryAt k
  sT0 : g.snapIdx = c0 → F.snapTerm = g.snapTerm
  sT : ∀ t, g.snapTerm = some t → c0 < g.snapIdx → ∃ e, F.entryAt g.snapIdx = some e ∧ e.term = t
  ne : g.snapTerm = none → c0 < g.snapIdx → g.ents ≠ []
  der : DerivedFrom C F

variable {C : LLog → Prop} {c0 : Nat}

theorem snap_le_last (g : LLog) : g.snapIdx ≤ g.lastIndex := by
  unfold LLog.lastIndex; omega

/-- an entry of `g` is an entry of `F` -/
theorem Full.entry {g F : LLog} (hF : Full C c0 g F) {k : Nat} {e : Entry}
    (he : g.entryAt k = some e) : F.entryAt k = some e := by
  rw [hF.ents k (g.entryAt_lt he).1]; exact he

/-- below the snapshot point of `g`, down to `c0`, `F` holds entries -/
theorem Full.exists_entry {g F : LLog} (hF : Full C c0 g F) {k : Nat} (h1 : c0 < k)
    (h2 : k ≤ g.lastIndex) : ∃ e, F.entryAt k = some e :=
  F.entryAt_exists (by rw [hF.snap]; exact h1) (by rw [hF.last]; exact h2)

/-- a log that starts at `c0` is its own uncompacted version -/
theorem Full.self {g : LLog} (hs : g.snapIdx = c0) (hc : g.Contig) (hC : C g) : Full C c0 g g :=
  ⟨hs, Nat.le_of_eq hs.symm, hc, rfl, fun _ _ => rfl, fun _ => rfl,
    fun _ _ h => absurd h (by omega), fun _ h => absurd h (by omega), DerivedFrom.of_mem hC⟩

/-- **uniqueness**: two uncompacted versions of one log hold the same entries -/
theorem Full.uniq (hC : ∀ g h, C g → C h → Agree g h) {g F F' : LLog} (h1 : Full C c0 g F)
    (h2 : Full C c0 g F') : ∀ k, F.entryAt k = F'.entryAt k := by
  intro k
  by_cases hk : g.snapIdx < k
  · rw [h1.ents k hk, h2.ents k hk]
  · by_cases hk0 : k ≤ c0
    · unfold LLog.entryAt
      rw [if_pos (by rw [h1.snap]; exact hk0), if_pos (by rw [h2.snap]; exact hk0)]
    · have hp : c0 < g.snapIdx := by omega
      have hag : Agree F F' := agree_of_derived hC h1.der h2.der
      have hs : F.snapIdx = F'.snapIdx := h1.snap.trans h2.snap.symm
      cases hst : g.snapTerm with
      | some t =>
        obtain ⟨e, he, het⟩ := h1.sT t hst hp
        obtain ⟨e', he', het'⟩ := h2.sT t hst hp
        exact eq_below hag hs he he' (het.trans het'.symm) k (by omega)
      | none =>
        have hne := h1.ne hst hp
        have hlen : 0 < g.ents.length := List.length_pos_iff.2 hne
        obtain ⟨f, hf⟩ := g.entryAt_exists (i := g.snapIdx + 1) (by omega)
          (by unfold LLog.lastIndex; omega)
        exact eq_below hag hs (h1.entry hf) (h2.entry hf) rfl k (by omega)

/-- the uncompacted versions of equal logs -/
theorem Full.congr {g g' F : LLog} (h : Full C c0 g F) (he : g' = g) : Full C c0 g' F := by
  rw [he]; exact h

theorem Full.mono {D : LLog → Prop} {g F : LLog} (h : Full C c0 g F) (hcd : ∀ x, C x → D x) :
    Full D c0 g F :=
  ⟨h.snap, h.le, h.contig, h.last, h.ents, h.sT0, h.sT, h.ne, h.der.mono hcd⟩

/-! ### the term queries of `g`, answered by `F` -/

/-- a term `g` answers with a real term, above `c0`, is the term of an entry of `F` -/
theorem Full.entry_of_term {g F : LLog} (hF : Full C c0 g F) {i t : Nat}
    (h : g.term i = .ok t) (ht : t ≠ 0) (hi : c0 < i) : ∃ e, F.entryAt i = some e ∧ e.term = t := by
  by_cases hs : g.snapIdx < i
  · obtain ⟨e, he, het⟩ := g.entry_of_term h ht hs
    exact ⟨e, hF.entry he, het⟩
  · unfold LLog.term at h
    split at h
    · injection h with h; exact absurd h.symm ht
    · rename_i hin
      have heq : i = g.snapIdx := by omega
      rw [if_pos heq] at h
      cases hst : g.snapTerm with
      | none => rw [hst] at h; cases h
      | some t' =>
        rw [hst] at h
        injection h with h
        subst h
        rw [heq]
        exact hF.sT t' hst (by omega)

theorem Full.has_of_match {g F : LLog} (hF : Full C c0 g F) {i t : Nat}
    (h : g.matchTerm i t = true) (ht : t ≠ 0) (hi : c0 < i) :
    ∃ e, F.entryAt i = some e ∧ e.term = t := by
  unfold LLog.matchTerm at h
  split at h
  · rename_i t' ht'
    have : t' = t := by simpa using h
    subst this
    exact hF.entry_of_term ht' ht hi
  · cases h

/-- the term query of `F` at and above the snapshot point of `g` -/
theorem Full.term_eq {g F : LLog} (hF : Full C c0 g F) {i : Nat} (hi : g.snapIdx ≤ i)
    (hk : g.snapTerm ≠ none ∨ g.snapIdx < i) : F.term i = g.term i := by
  by_cases hl : g.lastIndex < i
  · unfold LLog.term
    rw [if_pos (.inr (by rw [hF.last]; exact hl)), if_pos (.inr hl)]
  · by_cases hs : g.snapIdx < i
    · obtain ⟨e, he⟩ := g.entryAt_exists hs (by omega)
      rw [F.term_of_entry (hF.entry he), g.term_of_entry he]
    · have heq : i = g.snapIdx := by omega
      have hst : g.snapTerm ≠ none := by
        rcases hk with c | c
        · exact c
        · omega
      cases hst' : g.snapTerm with
      | none => exact absurd hst' hst
      | some t =>
        have hg : g.term i = .ok t := by
          unfold LLog.term
          rw [if_neg (by omega), if_pos heq, hst']
        rw [hg]
        by_cases hc : c0 < g.snapIdx
        · obtain ⟨e, he, het⟩ := hF.sT t hst' hc
          rw [heq, F.term_of_entry he, het]
        · have hc' : g.snapIdx = c0 := by have := hF.le; omega
          unfold LLog.term
          rw [if_neg (by rw [hF.snap, hF.last]; omega), if_pos (by rw [hF.snap]; omega),
            hF.sT0 hc', hst']

theorem Full.matchTerm_eq {g F : LLog} (hF : Full C c0 g F) {i t : Nat} (hi : g.snapIdx ≤ i)
    (h : g.matchTerm i t = true) : F.matchTerm i t = true := by
  have hk : g.snapTerm ≠ none ∨ g.snapIdx < i := by
    by_cases hs : g.snapIdx < i
    · exact .inr hs
    · left
      intro hn
      have heq : i = g.snapIdx := by omega
      unfold LLog.matchTerm LLog.term at h
      rw [if_neg (by have := snap_le_last g; omega), if_pos heq, hn] at h
      cases h
  unfold LLog.matchTerm
  rw [hF.term_eq hi hk]
  exact h

/-- the last term: the term of the last entry of `F` -/
theorem Full.lastTerm {g F : LLog} (hF : Full C c0 g F) {lt : Nat} (h : g.lastTerm = .ok lt)
    (hc : c0 < g.lastIndex) : ∃ e, F.entryAt g.lastIndex = some e ∧ e.term = lt := by
  rcases g.lastTerm_cases with ⟨_, e, he, helt⟩ | ⟨c1, c2⟩
  · rw [helt] at h
    injection h with h
    exact ⟨e, hF.entry he, h⟩
  · have hst := c2 lt h
    rw [c1]
    exact hF.sT lt hst (by omega)

/-! ### splicing: the uncompacted version after a change above the snapshot point -/

/-- the prefix of `F` up to the snapshot point of `g`, continued by `g` -/
def splice (F g : LLog) : LLog :=
  { snapIdx := F.snapIdx, snapTerm := F.snapTerm,
    ents := F.ents.take (g.snapIdx - F.snapIdx) ++ g.ents }

theorem splice_low {F g : LLog} (h1 : F.snapIdx ≤ g.snapIdx) (h2 : g.snapIdx ≤ F.lastIndex) {k : Nat}
    (hk : k ≤ g.snapIdx) : (splice F g).entryAt k = F.entryAt k := by
  unfold splice LLog.entryAt
  unfold LLog.lastIndex at h2
  dsimp only
  by_cases hk0 : k ≤ F.snapIdx
  · rw [if_pos hk0, if_pos hk0]
  · rw [if_neg hk0, if_neg hk0, List.getElem?_append_left (by rw [List.length_take]; omega),
      List.getElem?_take, if_pos (by omega)]

theorem splice_high {F g : LLog} (h1 : F.snapIdx ≤ g.snapIdx) (h2 : g.snapIdx ≤ F.lastIndex) {k : Nat}
    (hk : g.snapIdx < k) : (splice F g).entryAt k = g.entryAt k := by
  unfold splice LLog.entryAt
  unfold LLog.lastIndex at h2
  dsimp only
  rw [if_neg (by omega), if_neg (by omega),
    List.getElem?_append_right (by rw [List.length_take]; omega), List.length_take]
  congr 1
  omega

theorem splice_last {F g : LLog} (h1 : F.snapIdx ≤ g.snapIdx) (h2 : g.snapIdx ≤ F.lastIndex) :
    (splice F g).lastIndex = g.lastIndex := by
  unfold splice LLog.lastIndex
  unfold LLog.lastIndex at h2
  dsimp only
  rw [List.length_append, List.length_take]
  omega

theorem splice_contig {F g : LLog} (h1 : F.snapIdx ≤ g.snapIdx) (h2 : g.snapIdx ≤ F.lastIndex)
    (hF : F.Contig) (hg : g.Contig) : (splice F g).Contig := by
  unfold LLog.lastIndex at h2
  unfold LLog.Contig splice
  dsimp only
  refine ContigFrom.append ?_ ?_
  · intro k e hk
    rw [List.getElem?_take] at hk
    split at hk
    · exact hF k e hk
    · cases hk
  · rw [List.length_take]
    have : F.snapIdx + 1 + min (g.snapIdx - F.snapIdx) F.ents.length = g.snapIdx + 1 := by omega
    rw [this]
    exact hg

theorem splice_prev_low {F g : LLog} (h1 : F.snapIdx ≤ g.snapIdx) (h2 : g.snapIdx ≤ F.lastIndex)
    {k : Nat} (hk : k ≤ g.snapIdx + 1) : (splice F g).prevTerm k = F.prevTerm k := by
  unfold LLog.prevTerm
  have hs : (splice F g).snapIdx = F.snapIdx := rfl
  have hst : (splice F g).snapTerm = F.snapTerm := rfl
  rw [hs, hst]
  by_cases hk1 : k = F.snapIdx + 1
  · rw [if_pos hk1, if_pos hk1]
  · rw [if_neg hk1, if_neg hk1]
    by_cases hk0 : k = 0
    · subst hk0
      unfold LLog.entryAt
      rw [if_pos (Nat.zero_le _), if_pos (Nat.zero_le _)]
    · rw [splice_low h1 h2 (by omega)]

theorem splice_prev_high {F g : LLog} (h1 : F.snapIdx ≤ g.snapIdx) (h2 : g.snapIdx ≤ F.lastIndex)
    {k : Nat} (hk : g.snapIdx + 1 < k) : (splice F g).prevTerm k = g.prevTerm k := by
  unfold LLog.prevTerm
  have hs : (splice F g).snapIdx = F.snapIdx := rfl
  rw [hs, if_neg (by omega), if_neg (by omega), splice_high h1 h2 (by omega)]

/-- **the uncompacted version after a change that keeps the snapshot point**: the old prefix, then the
new log.  The first entry of a log that does not know the term of its snapshot point must be kept. -/
theorem Full.splice {g g' F : LLog} (hF : Full C c0 g F) (hs : g'.snapIdx = g.snapIdx)
    (hst : g'.snapTerm = g.snapTerm) (hc : g'.Contig) (hC : C g')
    (hkeep : g.snapTerm = none → c0 < g.snapIdx →
      g'.entryAt (g.snapIdx + 1) = g.entryAt (g.snapIdx + 1))
    (hne : g'.snapTerm = none → c0 < g'.snapIdx → g'.ents ≠ []) :
    Full C c0 g' (Snap.splice F g') := by
  have h1 : F.snapIdx ≤ g'.snapIdx := by rw [hF.snap, hs]; exact hF.le
  have h2 : g'.snapIdx ≤ F.lastIndex := by rw [hF.last, hs]; exact snap_le_last g
  refine ⟨hF.snap, by rw [hs]; exact hF.le, splice_contig h1 h2 hF.contig hc, splice_last h1 h2,
    fun k hk => splice_high h1 h2 hk, ?_, ?_, hne, ?_⟩
  · intro h0
    show F.snapTerm = g'.snapTerm
    rw [hst]; exact hF.sT0 (by rw [← hs]; exact h0)
  · intro t ht hp
    rw [splice_low h1 h2 (Nat.le_refl _), hs]
    exact hF.sT t (by rw [← hst]; exact ht) (by rw [← hs]; exact hp)
  · intro i e he
    by_cases hi : i ≤ g'.snapIdx
    · rw [splice_low h1 h2 hi] at he
      obtain ⟨x, hx, hxe, hxp⟩ := hF.der i e he
      exact ⟨x, hx, hxe, fun p hp => hxp p (by rw [← splice_prev_low h1 h2 (by omega)]; exact hp)⟩
    · have hi' : g'.snapIdx < i := by omega
      rw [splice_high h1 h2 hi'] at he
      by_cases hi2 : g'.snapIdx + 1 < i
      · exact ⟨g', hC, he, fun p hp => by rw [← splice_prev_high h1 h2 hi2]; exact hp⟩
      · have heq : i = g'.snapIdx + 1 := by omega
        subst heq
        -- the seam
        rw [splice_prev_low h1 h2 (Nat.le_refl _)]
        have hgp : g'.prevTerm (g'.snapIdx + 1) = g'.snapTerm := by
          unfold LLog.prevTerm; rw [if_pos rfl]
        by_cases hc0 : g'.snapIdx = c0
        · refine ⟨g', hC, he, fun p hp => ?_⟩
          rw [hgp, hst, ← hF.sT0 (by rw [← hs]; exact hc0)]
          unfold LLog.prevTerm at hp
          rw [if_pos (by rw [hF.snap, hc0])] at hp
          exact hp
        · have hp0 : c0 < g.snapIdx := by rw [← hs]; have := hF.le; rw [← hs] at this; omega
          have hFp : F.prevTerm (g'.snapIdx + 1) = (F.entryAt g'.snapIdx).map (·.term) := by
            unfold LLog.prevTerm
            rw [if_neg (by rw [hF.snap]; omega)]
            rfl
          cases hgt : g.snapTerm with
          | some t =>
            obtain ⟨ep, hep, hept⟩ := hF.sT t hgt hp0
            refine ⟨g', hC, he, fun p hp => ?_⟩
            rw [hFp, hs, hep] at hp
            rw [hgp, hst, hgt, ← hept]
            exact hp
          | none =>
            have hk := hkeep hgt hp0
            rw [← hs] at hk
            have heF : F.entryAt (g'.snapIdx + 1) = some e := by
              rw [hF.ents _ (by rw [← hs]; omega), ← hk]; exact he
            exact hF.der _ e heF

/-! ### compaction: the uncompacted version stays -/

theorem compactTo_snapIdx (g : LLog) (k : Nat) :
    (g.compactTo k).snapIdx = max g.snapIdx k := by
  unfold LLog.compactTo
  split
  · omega
  · dsimp only; omega

theorem compactTo_lastIndex (g : LLog) (k : Nat) (hk : k ≤ g.lastIndex) :
    (g.compactTo k).lastIndex = g.lastIndex := by
  unfold LLog.compactTo
  split
  · rfl
  · unfold LLog.lastIndex at *
    dsimp only
    rw [List.length_drop]
    omega

/-- **compaction keeps the uncompacted version** (at least one entry must stay: `k < lastIndex`) -/
theorem Full.compact {g F : LLog} (hF : Full C c0 g F) {k : Nat}
    (hk' : g.snapIdx < k → k < g.lastIndex) : Full C c0 (g.compactTo k) F := by
  by_cases hle : k ≤ g.snapIdx
  · have : g.compactTo k = g := by unfold LLog.compactTo; rw [if_pos hle]
    rw [this]; exact hF
  · have hk : k < g.lastIndex := hk' (by omega)
    have hsi : (g.compactTo k).snapIdx = k := by unfold LLog.compactTo; rw [if_neg hle]
    have hst : (g.compactTo k).snapTerm = none := by unfold LLog.compactTo; rw [if_neg hle]
    have hl := compactTo_lastIndex g k (Nat.le_of_lt hk)
    have := hF.le
    refine ⟨hF.snap, by rw [hsi]; omega, hF.contig, by rw [hl]; exact hF.last, ?_, ?_, ?_, ?_, hF.der⟩
    · intro j hj
      rw [hsi] at hj
      rw [LLog.compactTo_entryAt g k j (Nat.le_of_lt hk), if_neg (by omega)]
      exact hF.ents j (by omega)
    · intro h0; rw [hsi] at h0; omega
    · intro t ht; rw [hst] at ht; cases ht
    · intro _ _ hnil
      have : (g.compactTo k).lastIndex = k := by
        unfold LLog.lastIndex; rw [hsi, hnil]; rfl
      omega

/-! ### the prefix of an uncompacted version (for a log that was cut) -/

/-- two logs with the same snapshot point, the same knowledge of its term and the same entries have
the same uncompacted versions -/
theorem Full.of_same {g g' F : LLog} (hF : Full C c0 g F) (h1 : g'.snapIdx = g.snapIdx)
    (h2 : g'.snapTerm = g.snapTerm) (h3 : g'.ents = g.ents) : Full C c0 g' F := by
  have : g' = g := by
    cases g; cases g'; simp only [LLog.mk.injEq]; exact ⟨h1, h2, h3⟩
  rw [this]; exact hF

/-! ### the choice of an uncompacted version -/

open Classical in
/-- an uncompacted version of `g` (if there is one; `g` itself otherwise) -/
noncomputable def fl (C : LLog → Prop) (c0 : Nat) (g : LLog) : LLog :=
  if hx : ∃ F, Full C c0 g F then Classical.choose hx else g

theorem fl_spec {g F : LLog} (hF : Full C c0 g F) : Full C c0 g (fl C c0 g) := by
  have hx : ∃ F, Full C c0 g F := ⟨F, hF⟩
  unfold fl
  rw [dif_pos hx]
  exact Classical.choose_spec hx

/-- the chosen version holds the entries of any other one -/
theorem fl_eq (hC : ∀ g h, C g → C h → Agree g h) {g F : LLog} (hF : Full C c0 g F) :
    ∀ k, (fl C c0 g).entryAt k = F.entryAt k :=
  (fl_spec hF).uniq hC hF

end Snap
end Cluster
end RaftModel
