import RaftProofs.ClusterBatchB

/-!
Cluster-level Log Matching **with `batch_append`**, part C: `append_entry`, `become_leader`, the
elections, `restore` and `Raft::step` for the two relations of part B (the case analysis of
`RaftProofs/ClusterLogC.lean`).  What a call queues after it appended to the log (a proposal, the
empty entry of a new leader) is described relative to the *new* log and — like everything in leader
mode — under the proviso that the queue of the start state was clean.
-/
namespace RaftModel
namespace Raft
namespace Bt

/-- the queue / storage half of a call that queued no `MsgAppend` -/
structure QNN (a r : Raft) : Prop where
  ents : r.raftLog.store.entries = a.raftLog.store.entries
  smeta : r.raftLog.store.snapshotMetadata = a.raftLog.store.snapshotMetadata
  ba : r.batchAppend = a.batchAppend
  q : ∀ x ∈ r.msgs, x.msgType = .msgAppend → x ∈ a.msgs

theorem N0.qn {a r : Raft} (h : N0 a r) : QNN a r := ⟨h.ls.ents, h.ls.smeta, h.ba, h.q⟩

/-- the queue / storage half of a leader-mode call whose final logical log is `r`'s -/
structure QSB (a r : Raft) : Prop where
  ents : r.raftLog.store.entries = a.raftLog.store.entries
  smeta : r.raftLog.store.snapshotMetadata = a.raftLog.store.snapshotMetadata
  ba : r.batchAppend = a.batchAppend
  q : ∀ x ∈ r.msgs, x.msgType = .msgAppend → Good a.msgs r.raftLog.abs (msgLog x)
  cl : CleanQ r.msgs r.raftLog.abs

/-- `Appended`, nothing queued since -/
structure AppendedN (a r : Raft) (es : List Entry) : Prop where
  app : Appended a r es
  qs : QNN a r

/-- `Appended` with the queue facts of leader mode -/
structure AppendedB (a r : Raft) (es : List Entry) : Prop where
  app : Appended a r es
  qs : CleanQ a.msgs a.raftLog.abs → QSB a r

theorem _root_.RaftModel.Raft.Appended.prevKeep {a r : Raft} {es : List Entry} (h : Appended a r es) :
    PrevKeep a.raftLog.abs r.raftLog.abs := by
  rw [h.abs]; exact PrevKeep.append _ _

theorem _root_.RaftModel.Raft.Appended.lastLe {a r : Raft} {es : List Entry} (h : Appended a r es) :
    a.raftLog.abs.lastIndex ≤ r.raftLog.abs.lastIndex := by
  rw [h.abs, LLog.lastIndex_append]; omega

theorem AppendedN.anchor {a r r' : Raft} {es : List Entry} (h0 : N0 a r)
    (h : AppendedN r r' es) : AppendedN a r' es :=
  ⟨Appended.anchor h0.ls.same h.app,
    ⟨h.qs.ents.trans h0.ls.ents, h.qs.smeta.trans h0.ls.smeta, h.qs.ba.trans h0.ba,
      fun x hx hty => h0.q x (h.qs.q x hx hty) hty⟩⟩

theorem AppendedN.toB {a r : Raft} {es : List Entry} (h : AppendedN a r es) : AppendedB a r es := by
  refine ⟨h.app, fun hc => ⟨h.qs.ents, h.qs.smeta, h.qs.ba, fun x hx hty => ?_, fun x hx hty => ?_⟩⟩
  · exact .inl ⟨x, h.qs.q x hx hty, hty, rfl⟩
  · exact (hc x (h.qs.q x hx hty) hty).log h.app.lastLe h.app.prevKeep

/-- extend on the right by a leader-mode step that keeps the logical log, the term and the role -/
theorem AppendedB.right {a r r' : Raft} {es : List Entry} (h : AppendedB a r es)
    (hls : LS r r') (h1 : L r r') (h2 : Frame r r') : AppendedB a r' es := by
  refine ⟨h.app.right hls h2, fun hc => ?_⟩
  have Q := h.qs hc
  have h1 := h1 h.app.inv Q.cl
  refine ⟨h1.ls.ents.trans Q.ents, h1.ls.smeta.trans Q.smeta, h1.ba.trans Q.ba,
    fun x hx hty => ?_, h1.clean Q.cl⟩
  rw [h1.abs]
  exact Good.rebase Q.q (h1.q x hx hty)

/-- a leader-mode stretch after a plain one -/
theorem L.after {a r r' : Raft} (h0 : N0 a r) (hl : L r r') : L a r' := by
  intro hi hc
  have hcr : CleanQ r.msgs r.raftLog.abs := by rw [h0.abs]; exact hc.mono h0.q
  have h1 := hl (h0.inv hi) hcr
  refine ⟨h0.ls.trans h1.ls, h1.ba.trans h0.ba, h1.st, fun x hx hty => ?_⟩
  have := h1.q x hx hty
  rw [h0.abs] at this
  exact Good.rebase (fun y hy hty' => .inl ⟨y, h0.q y hy hty', hty', Eq.refl _⟩) this

/-! ### `append_entry` -/

theorem appendEntry_n {r r' : Raft} {es : List Entry} {b : Bool} (hinv : r.raftLog.Inv)
    (hs : r.state = .leader) (h : r.appendEntry es = .ok (r', b)) :
    (b = false ∧ r' = r) ∨
    (b = true ∧ es = [] ∧ N0 r r' ∧ Frame r r') ∨
    (b = true ∧ AppendedN r r' (stampFrom r.term (r.raftLog.lastIndex + 1) es) ∧ Frame r r') := by
  obtain ⟨f1, f2, f3⟩ := appendEntry_fields h
  rcases appendEntry_cases hinv hs h with c | ⟨c1, c2, c3, c4⟩ | ⟨c1, c2, c3⟩
  · exact .inl c
  · refine .inr (.inl ⟨c1, c2, ⟨⟨c3, by rw [f3], by rw [f3]⟩, f2, fun x hx _ => by rw [← f1]; exact hx⟩, c4⟩)
  · refine .inr (.inr ⟨c1, ⟨c2, ⟨by rw [f3], by rw [f3], f2, fun x hx _ => by rw [← f1]; exact hx⟩⟩, c3⟩)

/-! ### `become_leader`, elections -/

/-- `Won`, nothing queued since -/
def WonN (a r : Raft) : Prop := AppendedN a r [leaderNoop r.term (a.raftLog.lastIndex + 1)]

/-- `Won` with the queue facts of leader mode -/
def WonB (a r : Raft) : Prop := AppendedB a r [leaderNoop r.term (a.raftLog.lastIndex + 1)]

theorem WonB.won {a r : Raft} (h : WonB a r) : Won a r := h.app

theorem WonN.toB {a r : Raft} (h : WonN a r) : WonB a r := AppendedN.toB h

theorem WonB.right {a r r' : Raft} (h : WonB a r) (hls : LS r r') (h1 : L r r') (h2 : Frame r r') :
    WonB a r' := by
  unfold WonB
  rw [h2.term]
  exact AppendedB.right h hls h1 h2

theorem becomeLeader_n {a r r' : Raft} (hinv : a.raftLog.Inv) (h0 : N0 a r)
    (h : r.becomeLeader = .ok r') : WonN a r' := by
  unfold Raft.becomeLeader at h
  split at h
  · cases h
  · simp only [] at h
    split at h
    · cases h
    · split at h
      · cases h
      · rename_i pr hpr
        have hl : N0 a (r.reset r.term) := reset_n0 _ h0
        split at h
        · rename_i r2 happ
          cases h
          rcases appendEntry_n (by exact hl.inv hinv) (by rfl) happ with ⟨hb, _⟩ | ⟨_, he, _⟩ | ⟨_, hA, hfr⟩
          · cases hb
          · cases he
          · have hA' := AppendedN.anchor (a := a) (by exact hl) hA
            unfold WonN
            rw [hfr.term, ← LS.last hl.ls.same]
            exact hA'
        · cases h
        · cases h
        · cases h

theorem pollWith_b {a r r' : Raft} {onPreWin : Raft → Res Raft} {frm : Nat} {t : MsgType}
    {v : Bool} {res : VoteResult}
    (hpre : ∀ r r', N0 a r → onPreWin r = .ok r' → N0 a r' ∨ WonB a r')
    (hinv : a.raftLog.Inv) (h0 : N0 a r)
    (h : pollWith onPreWin r frm t v = .ok (r', res)) :
    N0 a r' ∨ WonB a r' := by
  unfold Raft.pollWith at h
  simp only at h
  generalize hres : (r.prs.recordVote frm v).tallyVotes.2.2 = res0 at h
  cases res0 with
  | won =>
    simp only at h
    split at h
    · rw [Res.bind_eq_ok_iff] at h
      obtain ⟨r2, h1, h2⟩ := h
      cases h2
      exact hpre _ _ (by exact h0) h1
    · rw [Res.bind_eq_ok_iff] at h
      obtain ⟨r2, h1, h2⟩ := h
      cases h2
      rw [Res.bind_eq_ok_iff] at h1
      obtain ⟨r3, h3, h4⟩ := h1
      have hw := (becomeLeader_n hinv (by exact h0) h3).toB
      exact .inr (hw.right (bcastAppend_ls h4 LS.rfl) (bcastAppend_l h4 (L.rfl hw.app.leader))
        (bcastAppend_frame h4 Frame.rfl))
  | lost =>
    simp only at h
    cases h
    exact .inl (becomeFollower_n _ _ (fun _ => by exact h0) hinv)
  | pending =>
    simp only at h
    cases h
    exact .inl h0

theorem campaignWith_b {a r r' : Raft}
    {poll : Raft → Nat → MsgType → Bool → Res (Raft × VoteResult)} {ct : CampaignType}
    (hpoll : ∀ r frm t v r' res, N0 a r → poll r frm t v = .ok (r', res) → N0 a r' ∨ WonB a r')
    (hinv : a.raftLog.Inv)
    (h0 : N0 a r) (h : campaignWith poll r ct = .ok r') : N0 a r' ∨ WonB a r' := by
  unfold Raft.campaignWith at h
  rw [Res.bind_eq_ok_iff] at h
  obtain ⟨⟨r1, vm, t⟩, h1, h2⟩ := h
  have hl1 : N0 a r1 ∧ vm ≠ .msgAppend := by
    split at h1
    · rw [Res.bind_eq_ok_iff] at h1
      obtain ⟨r0, h3, h4⟩ := h1
      split at h4
      · cases h4
      · cases h4; exact ⟨becomePreCandidate_n h3 (fun _ => h0) hinv, by decide⟩
    · rw [Res.bind_eq_ok_iff] at h1
      obtain ⟨r0, h3, h4⟩ := h1
      cases h4; exact ⟨becomeCandidate_n h3 (fun _ => h0) hinv, by decide⟩
  obtain ⟨hl1, hvm⟩ := hl1
  simp only at h2
  rw [Res.bind_eq_ok_iff] at h2
  obtain ⟨⟨r2, res⟩, h5, h6⟩ := h2
  simp only at h6
  rcases hpoll _ _ _ _ _ _ hl1 h5 with hl2 | hw
  · split at h6
    · cases h6; exact .inl hl2
    · exact .inl (sendVoteRequests_n hvm h6 (fun _ => hl2) hinv)
  · split at h6
    · cases h6; exact .inr hw
    · have hfr := RaftProps.C16.sendVoteRequests_frame h6 Frame.rfl
      exact .inr (hw.right (sendVoteRequests_ls h6 LS.rfl)
        (L.of_n (sendVoteRequests_n hvm h6 N.rfl) hfr.state (L.rfl hw.app.leader)) hfr)

theorem campaignAfterPreVote_b {a r r' : Raft} (hinv : a.raftLog.Inv)
    (h0 : N0 a r) (h : r.campaignAfterPreVote = .ok r') : N0 a r' ∨ WonB a r' := by
  unfold Raft.campaignAfterPreVote at h
  refine campaignWith_b ?_ hinv h0 h
  intro r1 frm t v r2 res hl hp
  exact pollWith_b (fun _ _ _ hc => by cases hc) hinv hl hp

theorem poll_b {a r r' : Raft} {frm : Nat} {t : MsgType} {v : Bool} {res : VoteResult}
    (hinv : a.raftLog.Inv) (h0 : N0 a r)
    (h : r.poll frm t v = .ok (r', res)) : N0 a r' ∨ WonB a r' := by
  unfold Raft.poll at h
  exact pollWith_b (fun _ _ hl hc => campaignAfterPreVote_b hinv hl hc) hinv h0 h

theorem campaign_b {a r r' : Raft} {ct : CampaignType} (hinv : a.raftLog.Inv)
    (h0 : N0 a r)
    (h : r.campaign ct = .ok r') : N0 a r' ∨ WonB a r' := by
  unfold Raft.campaign at h
  exact campaignWith_b (fun _ _ _ _ _ _ hl hp => poll_b hinv hl hp) hinv h0 h

theorem hup_b {a r r' : Raft} {tl : Bool} (hinv : a.raftLog.Inv)
    (h0 : N0 a r) (h : r.hup tl = .ok r') : N0 a r' ∨ (WonB a r' ∧ r.state ≠ .leader) := by
  unfold Raft.hup at h
  split at h
  · cases h; exact .inl h0
  · rename_i hnl
    have key : ∀ ct, r.campaign ct = .ok r' → N0 a r' ∨ (WonB a r' ∧ r.state ≠ .leader) := by
      intro ct hc
      rcases campaign_b hinv h0 hc with c | c
      · exact .inl c
      · exact .inr ⟨c, hnl⟩
    split at h
    · cases h; exact .inl h0
    · split at h
      · cases h
      · cases h
      · cases h; exact .inl h0
      · split at h
        · cases h; exact .inl h0
        · split at h
          · exact key _ h
          · split at h
            · exact key _ h
            · exact key _ h

/-! ### `step_leader` -/

theorem handleReadyReadIndex_n1 {a r r' : Raft} {req : Message} {i : Nat} {om : Option Message}
    (h : r.handleReadyReadIndex req i = .ok (r', om)) (h0 : N a r) : N a r' :=
  (handleReadyReadIndex_n h h0).1

theorem sendReadIndexResp_n {a r r1 r' : Raft} {req m' : Message} {i : Nat}
    (h : r.handleReadyReadIndex req i = .ok (r1, some m')) (hs : r1.send m' = .ok r')
    (h0 : N a r) : N a r' :=
  send_n hs (by rw [(handleReadyReadIndex_n h h0).2 m' rfl]; rfl) (handleReadyReadIndex_n h h0).1

/-- the message types on which a leader may queue `MsgAppend`s without changing its log -/
def Sending (t : MsgType) : Prop :=
  t = .msgPropose ∨ t = .msgAppendResponse ∨ t = .msgHeartbeatResponse ∨ t = .msgTransferLeader

/-- **`step_leader`**: nothing is queued but non-`MsgAppend` messages (`N0`), or the leader replicates
(`L`), or it appended the entries of a proposal and replicated -/
theorem stepLeader_b {r r' : Raft} {m : Message} {e : Option RaftError}
    (hinv : r.raftLog.Inv) (hs : r.state = .leader)
    (h : r.stepLeader m = .ok (r', e)) :
    N0 r r' ∨ (Sending m.msgType ∧ L r r') ∨
    (m.msgType = .msgPropose ∧ e = none ∧ ∃ es, es.length = m.entries.length ∧
      AppendedB r r' (stampFrom r.term (r.raftLog.lastIndex + 1) es)) := by
  have h0 : N r r := N.rfl
  have hl0 : L r r := L.rfl hs
  unfold Raft.stepLeader at h
  split at h
  · refine .inl ?_
    have : N r r' := by n_auto h [bcastHeartbeat_n]
    exact this hinv
  · refine .inl ?_
    have : N r r' := by n_auto h [checkQuorumActive_n, becomeFollower_n]
    exact this hinv
  · rename_i hm
    split at h
    · cases h
    · split at h
      · cases h; exact .inl N0.rfl
      · split at h
        · cases h; exact .inl N0.rfl
        · split at h
          · rename_i r1 hf
            cases h
            exact .inl (filterProposal_n _ _ _ _ _ hf h0 hinv)
          · rename_i r1 es hf
            have hl1 : N0 r r1 := filterProposal_n _ _ _ _ _ hf h0 hinv
            have hf1 : Frame r r1 := filterProposal_frame _ _ _ _ _ hf Frame.rfl
            have hlen := filterProposal_length _ _ _ _ _ hf
            have hi1 := hl1.inv hinv
            split at h
            · rename_i r2 happ
              cases h
              rcases appendEntry_n hi1 (hf1.state.trans hs) happ with
                ⟨_, he⟩ | ⟨hb, _⟩ | ⟨hb, _⟩
              · rw [he]; exact .inl hl1
              · cases hb
              · cases hb
            · rename_i r2 happ
              rw [Res.bind_eq_ok_iff] at h
              obtain ⟨r3, hb, h3⟩ := h
              cases h3
              rcases appendEntry_n hi1 (hf1.state.trans hs) happ with
                ⟨hb', _⟩ | ⟨_, _, hl2, hf2⟩ | ⟨_, hA, hf2⟩
              · cases hb'
              · have hl12 := hl1.trans hl2
                have hs2 : r2.state = .leader := (hf2.state.trans hf1.state).trans hs
                exact .inr (.inl ⟨.inl hm, L.after hl12 (bcastAppend_l hb (L.rfl hs2))⟩)
              · refine .inr (.inr ⟨hm, rfl, es, hlen, ?_⟩)
                have hA1 := (AppendedN.anchor hl1 hA).toB
                have hA' := hA1.right (bcastAppend_ls hb LS.rfl)
                  (bcastAppend_l hb (L.rfl hA1.app.leader)) (bcastAppend_frame hb Frame.rfl)
                rw [hf1.term, hl1.ls.same.last] at hA'
                exact hA'
            · cases h
            · cases h
  · refine .inl ?_
    have : N r r' := by
      n_auto h [handleReadyReadIndex_n1, sendReadIndexResp_n, bcastHeartbeatWithCtx_n]
    exact this hinv
  · rename_i hm
    refine .inr (.inl ⟨.inr (.inl hm), ?_⟩)
    l_auto h [handleAppendResponse_l]
  · rename_i hm
    refine .inr (.inl ⟨.inr (.inr (.inl hm)), ?_⟩)
    l_auto h [handleHeartbeatResponse_l]
  · cases h; exact .inl (handleSnapshotStatus_n h0 hinv)
  · cases h; exact .inl (handleUnreachable_n h0 hinv)
  · rename_i hm
    refine .inr (.inl ⟨.inr (.inr (.inr hm)), ?_⟩)
    l_auto h [handleTransferLeader_l]
  · cases h; exact .inl N0.rfl

/-! ### snapshots -/

/-- `Restored` with the queue facts: nothing but non-`MsgAppend` messages were queued -/
structure RestoredN (a r : Raft) (sn : Snapshot) : Prop where
  res : Restored a r sn
  qn : QNN a r

theorem QNN.send {a r r' : Raft} {m : Message} (h0 : QNN a r) (h : r.send m = .ok r')
    (hm : m.msgType ≠ .msgAppend) : QNN a r' := by
  rw [send_eq r r' m h]
  refine ⟨h0.ents, h0.smeta, h0.ba, fun x hx hty => ?_⟩
  rcases List.mem_append.1 hx with hx | hx
  · exact h0.q x hx hty
  · rw [List.mem_singleton.1 hx, sendFill_msgType] at hty
    exact absurd hty hm

theorem restore_n {a r r' : Raft} {snap : Snapshot} {b : Bool} (hinv : a.raftLog.Inv)
    (h0 : N0 a r) (h : r.restore snap = .ok (r', b)) :
    N0 a r' ∨ (b = true ∧ RestoredN a r' snap) := by
  have h0' : N a r := fun _ => h0
  unfold Raft.restore at h
  simp only [] at h
  split at h
  · cases h; exact .inl h0
  · rename_i hge
    split at h
    · split at h
      · cases h
      · cases h; exact .inl (becomeFollower_n _ _ h0' hinv)
    · rename_i hfol
      split at h
      · cases h; exact .inl h0
      · split at h
        · cases h
        · cases h
        · split at h
          · rename_i log hc
            cases h; exact .inl (N.log (logS_commitTo hc) h0' hinv)
          · cases h
          · cases h
        · split at h
          · cases h
          · cases h
          · rename_i log hr
            split at h
            · cases h
            · rename_i prs hprs
              have hst : ¬ (({ r with raftLog := log, prs := prs } : Raft).state = .leader) := by
                show ¬ (r.state = .leader)
                intro hc
                rw [hc] at hfol
                exact hfol (by decide)
              rw [RaftProps.C20.postConfChange_nonleader _ hst] at h
              simp only [Res.bind] at h
              split at h
              · cases h
              · split at h
                · cases h
                · split at h
                  · cases h
                  · split at h
                    rotate_left
                    · cases h
                    · cases h
                    cases h
                    have hri := h0.inv hinv
                    obtain ⟨l', hr', hinv', habs', hcm', _, _⟩ :=
                      (RaftProps.C14.C14_restore_spec r.raftLog hri snap).1 (by omega)
                    rw [hr] at hr'
                    cases hr'
                    have hsto := RaftModel.C06.restore_store hr
                    refine .inr ⟨rfl, ⟨⟨habs', hinv', Nat.le_trans h0.ls.same.commit (by omega),
                      by show _ ≤ log.committed; omega⟩, ?_⟩⟩
                    refine ⟨?_, ?_, h0.ba, h0.q⟩
                    · show log.store.entries = _; rw [hsto]; exact h0.ls.ents
                    · show log.store.snapshotMetadata = _; rw [hsto]; exact h0.ls.smeta

theorem handleSnapshot_n {a r r' : Raft} {m : Message} (hinv : a.raftLog.Inv)
    (h0 : N0 a r)
    (h : r.handleSnapshot m = .ok r') : N0 a r' ∨ RestoredN a r' m.snapshot := by
  unfold Raft.handleSnapshot at h
  rw [Res.bind_eq_ok_iff] at h
  obtain ⟨⟨r1, ok⟩, hr, h2⟩ := h
  simp only [] at h2
  rcases restore_n hinv h0 hr with hl | ⟨_, hR⟩
  · split at h2
    · exact .inl (send_n h2 rfl (fun _ => hl) hinv)
    · exact .inl (send_n h2 rfl (fun _ => hl) hinv)
  · split at h2
    · exact .inr ⟨hR.res.right (send_ls h2 LS.rfl), QNN.send hR.qn h2 (by intro hc; cases hc)⟩
    · exact .inr ⟨hR.res.right (send_ls h2 LS.rfl), QNN.send hR.qn h2 (by intro hc; cases hc)⟩

/-! ### `step_follower`, `step_candidate`, `step` -/

theorem stepFollower_n {a r r' : Raft} {m : Message} {e : Option RaftError}
    (hinv : a.raftLog.Inv) (h0 : N0 a r) (hs : r.state = .follower)
    (h : r.stepFollower m = .ok (r', e)) :
    N0 a r' ∨ (m.msgType = .msgTimeoutNow ∧ WonB a r') ∨
    (m.msgType = .msgAppend ∧ ∃ r0, N0 a r0 ∧ r0.state = .follower ∧
      r0.handleAppendEntries m = .ok r') ∨
    (m.msgType = .msgSnapshot ∧ RestoredN a r' m.snapshot) := by
  have h0' : N a r := fun _ => h0
  have fwd : ∀ (x : Nat), m.msgType ≠ .msgAppend →
      (r.send { m with to := x }).bind (fun r => Res.ok (r, (none : Option RaftError))) = .ok (r', e) →
      N0 a r' := by
    intro x hne hh
    rw [Res.bind_eq_ok_iff] at hh
    obtain ⟨r1, h1, h2⟩ := hh
    cases h2
    exact send_n h1 (by simp [hne]) h0' hinv
  unfold Raft.stepFollower at h
  split at h
  · rename_i hm
    refine .inl ?_
    split at h
    · cases h; exact h0
    · split at h
      · cases h; exact h0
      · exact fwd _ (by rw [hm]; decide) h
  · rename_i hm
    rw [Res.bind_eq_ok_iff] at h
    obtain ⟨r1, h1, h2⟩ := h
    cases h2
    exact .inr (.inr (.inl ⟨hm, { r with electionElapsed := 0, leaderId := m.frm }, h0, hs, h1⟩))
  · rw [Res.bind_eq_ok_iff] at h
    obtain ⟨r1, h1, h2⟩ := h
    cases h2
    exact .inl (handleHeartbeat_n h1 (by exact h0') hinv)
  · rename_i hm
    rw [Res.bind_eq_ok_iff] at h
    obtain ⟨r1, h1, h2⟩ := h
    cases h2
    rcases handleSnapshot_n hinv (by exact h0) h1 with c | c
    · exact .inl c
    · exact .inr (.inr (.inr ⟨hm, c⟩))
  · rename_i hm
    refine .inl ?_
    split at h
    · cases h; exact h0
    · exact fwd _ (by rw [hm]; decide) h
  · rename_i hm
    split at h
    · rw [Res.bind_eq_ok_iff] at h
      obtain ⟨r1, h1, h2⟩ := h
      cases h2
      rcases hup_b hinv h0 h1 with c | ⟨c, _⟩
      · exact .inl c
      · exact .inr (.inl ⟨hm, c⟩)
    · cases h; exact .inl h0
  · rename_i hm
    refine .inl ?_
    split at h
    · cases h; exact h0
    · exact fwd _ (by rw [hm]; decide) h
  · split at h
    · simp only [] at h
      split at h
      · rename_i log b hmc
        cases h
        exact .inl (N.log (r := { r with readStates := _ }) (logS_maybeCommit hmc) (by exact h0') hinv)
      · cases h
      · cases h
    · cases h; exact .inl h0
  · cases h; exact .inl h0

theorem stepCandidate_n {a r r' : Raft} {m : Message} {e : Option RaftError}
    (hinv : a.raftLog.Inv) (h0 : N0 a r)
    (h : r.stepCandidate m = .ok (r', e)) :
    N0 a r' ∨
    ((m.msgType = .msgRequestVoteResponse ∨ m.msgType = .msgRequestPreVoteResponse) ∧ WonB a r') ∨
    (m.msgType = .msgAppend ∧ ∃ r0, N0 a r0 ∧ r0.state = .follower ∧
      r0.handleAppendEntries m = .ok r') ∨
    (m.msgType = .msgSnapshot ∧ RestoredN a r' m.snapshot) := by
  have h0' : N a r := fun _ => h0
  have votes : ∀ (hm : m.msgType = .msgRequestVoteResponse ∨ m.msgType = .msgRequestPreVoteResponse),
      ((r.poll m.frm m.msgType (!m.reject)).bind (fun (p : Raft × VoteResult) =>
        (p.1.maybeCommitByVote m).bind (fun r => Res.ok (r, (none : Option RaftError))))) = .ok (r', e) →
      N0 a r' ∨
      ((m.msgType = .msgRequestVoteResponse ∨ m.msgType = .msgRequestPreVoteResponse) ∧ WonB a r') ∨
      (m.msgType = .msgAppend ∧ ∃ r0, N0 a r0 ∧ r0.state = .follower ∧
        r0.handleAppendEntries m = .ok r') ∨
      (m.msgType = .msgSnapshot ∧ RestoredN a r' m.snapshot) := by
    intro hm h
    rw [Res.bind_eq_ok_iff] at h
    obtain ⟨⟨r1, res⟩, h1, h2⟩ := h
    simp only [] at h2
    rw [Res.bind_eq_ok_iff] at h2
    obtain ⟨r2, h3, h4⟩ := h2
    cases h4
    rcases poll_b hinv h0 h1 with c | c
    · exact .inl (maybeCommitByVote_n h3 (fun _ => c) hinv)
    · have := RaftProps.C16.maybeCommitByVote_leader c.app.leader h3
      rw [this]
      exact .inr (.inl ⟨hm, c⟩)
  have hbf : ∀ t l, N0 a (r.becomeFollower t l) := fun t l => becomeFollower_n t l h0' hinv
  unfold Raft.stepCandidate at h
  split at h
  · cases h; exact .inl h0
  · rename_i hm
    split at h
    · cases h
    · rw [Res.bind_eq_ok_iff] at h
      obtain ⟨r1, h1, h2⟩ := h
      cases h2
      exact .inr (.inr (.inl ⟨hm, _, hbf _ _,
        RaftProps.C20.becomeFollower_state _ _ _, h1⟩))
  · split at h
    · cases h
    · rw [Res.bind_eq_ok_iff] at h
      obtain ⟨r1, h1, h2⟩ := h
      cases h2
      exact .inl (handleHeartbeat_n h1 (fun _ => hbf _ _) hinv)
  · rename_i hm
    split at h
    · cases h
    · rw [Res.bind_eq_ok_iff] at h
      obtain ⟨r1, h1, h2⟩ := h
      cases h2
      rcases handleSnapshot_n hinv (hbf _ _) h1 with c | c
      · exact .inl c
      · exact .inr (.inr (.inr ⟨hm, c⟩))
  · rename_i hm
    split at h
    · cases h; exact .inl h0
    · split at h
      · cases h; exact .inl h0
      · exact votes (.inr hm) h
  · rename_i hm
    split at h
    · cases h; exact .inl h0
    · split at h
      · cases h; exact .inl h0
      · exact votes (.inl hm) h
  · cases h; exact .inl h0

/-- **`Raft::step`: every way the logical log, the queue of `MsgAppend`s and the stored entries can
change** (batching off).  `step_log` with the queue facts. -/
theorem step_b {r r' : Raft} {m : Message} {e : Option RaftError} (hinv : r.raftLog.Inv)
    (h : r.step m = .ok (r', e)) :
    N0 r r' ∨
    (m.msgType = .msgPropose ∧ r.state = .leader ∧ r'.term = r.term ∧ e = none ∧
      ∃ es, es.length = m.entries.length ∧
        AppendedB r r' (stampFrom r.term (r.raftLog.lastIndex + 1) es)) ∨
    ((m.msgType = .msgHup ∨ m.msgType = .msgTimeoutNow ∨ m.msgType = .msgRequestVoteResponse ∨
        m.msgType = .msgRequestPreVoteResponse) ∧
      (r.state ≠ .leader ∨ (r.term < m.term ∧ m.term ≤ r'.term)) ∧ WonB r r') ∨
    (m.msgType = .msgAppend ∧ (r.state ≠ .leader ∨ (r.term < m.term ∧ m.term ≤ r'.term)) ∧
      ∃ r0, N0 r r0 ∧ r0.state = .follower ∧ r0.handleAppendEntries m = .ok r') ∨
    (m.msgType = .msgSnapshot ∧ (r.state ≠ .leader ∨ (r.term < m.term ∧ m.term ≤ r'.term)) ∧
      RestoredN r r' m.snapshot) ∨
    (r.state = .leader ∧ Sending m.msgType ∧ L r r') := by
  have hstep := h
  unfold Raft.step at h
  split at h
  · cases h
  · cases h
  · rename_i r1 ht
    cases h
    exact .inl (stepTerm_n ht N.rfl hinv)
  · rename_i r1 ht
    have hl1 : N0 r r1 := stepTerm_n ht N.rfl hinv
    have hc := RaftProps.C20.stepTerm_ok_cases r r1 m ht
    have hnl : r1.state ≠ .leader → (r.state ≠ .leader ∨ (r.term < m.term ∧ m.term ≤ r'.term)) := by
      intro h1
      rcases hc with c | ⟨c, l, c2⟩
      · rw [c] at h1; exact .inl h1
      · refine .inr ⟨c, ?_⟩
        have ht1 : r1.term = m.term := by rw [c2]; exact (becomeFollower_term_vote r m.term l).1
        rcases RaftProps.C16.step_after_preamble ht hstep with c3 | c3
        · omega
        · rcases c3 with ⟨_, _, c4, _⟩ | ⟨_, c4, _⟩ <;> omega
    split at h
    · rename_i hm
      rw [Res.bind_eq_ok_iff] at h
      obtain ⟨r2, h1, h2⟩ := h
      cases h2
      rcases hup_b hinv hl1 h1 with c | ⟨c, c2⟩
      · exact .inl c
      · exact .inr (.inr (.inl ⟨.inl hm, hnl c2, c⟩))
    · split at h
      · rename_i r2 hv
        cases h; exact .inl (stepVote_n hv (fun _ => hl1) hinv)
      · cases h
      · cases h
    · split at h
      · rename_i r2 hv
        cases h; exact .inl (stepVote_n hv (fun _ => hl1) hinv)
      · cases h
      · cases h
    · split at h
      · rename_i hst
        have hn : r1.state ≠ .leader := by rw [hst]; decide
        rcases stepCandidate_n hinv hl1 h with c | ⟨hm, c⟩ | ⟨hm, c⟩ | ⟨hm, c⟩
        · exact .inl c
        · refine .inr (.inr (.inl ⟨?_, hnl hn, c⟩))
          rcases hm with hm | hm
          · exact .inr (.inr (.inl hm))
          · exact .inr (.inr (.inr hm))
        · exact .inr (.inr (.inr (.inl ⟨hm, hnl hn, c⟩)))
        · exact .inr (.inr (.inr (.inr (.inl ⟨hm, hnl hn, c⟩))))
      · rename_i hst
        have hn : r1.state ≠ .leader := by rw [hst]; decide
        rcases stepCandidate_n hinv hl1 h with c | ⟨hm, c⟩ | ⟨hm, c⟩ | ⟨hm, c⟩
        · exact .inl c
        · refine .inr (.inr (.inl ⟨?_, hnl hn, c⟩))
          rcases hm with hm | hm
          · exact .inr (.inr (.inl hm))
          · exact .inr (.inr (.inr hm))
        · exact .inr (.inr (.inr (.inl ⟨hm, hnl hn, c⟩)))
        · exact .inr (.inr (.inr (.inr (.inl ⟨hm, hnl hn, c⟩))))
      · rename_i hst
        have hn : r1.state ≠ .leader := by rw [hst]; decide
        rcases stepFollower_n hinv hl1 hst h with c | ⟨hm, c⟩ | ⟨hm, c⟩ | ⟨hm, c⟩
        · exact .inl c
        · exact .inr (.inr (.inl ⟨.inr (.inl hm), hnl hn, c⟩))
        · exact .inr (.inr (.inr (.inl ⟨hm, hnl hn, c⟩)))
        · exact .inr (.inr (.inr (.inr (.inl ⟨hm, hnl hn, c⟩))))
      · rename_i hst
        have hr : r1 = r := by
          rcases hc with c | ⟨_, l, c⟩
          · exact c
          · rw [c, RaftProps.C20.becomeFollower_state] at hst; cases hst
        subst hr
        rcases stepLeader_b hinv hst h with c | c | ⟨hm, he, es, hlen, c⟩
        · exact .inl c
        · exact .inr (.inr (.inr (.inr (.inr ⟨hst, c.1, c.2⟩))))
        · exact .inr (.inl ⟨hm, hst, RaftProps.C16.stepLeader_term h, he, es, hlen, c⟩)

end Bt
end Raft
end RaftModel
