import RaftProofs.ClusterRead4O

/-!
Cluster-level ReadIndex safety for **forwarded** reads, part 4Q: necessary conditions, decidable on
concrete states, for a step to be readable as the delivery of a `MsgReadIndex` (`DeliverAt`) or as a
`read_index` call (`ReadCallAt`) — used to discharge `once` / `uniqc` / `nonempty` on a concrete history.
-/
namespace RaftModel
namespace Raft
namespace RD
namespace R4
open VoteOb CV Node

theorem bcastHeartbeatWithCtx_keeps (r : Raft) (ctx : Option Bytes) :
    Res.Post (fun r' => r'.raftLog = r.raftLog ∧ r'.state = r.state) (r.bcastHeartbeatWithCtx ctx) := by
  unfold bcastHeartbeatWithCtx
  apply forEachPeer_post (fun r' => r'.raftLog = r.raftLog ∧ r'.state = r.state)
  · intro r1 id pr h1
    unfold sendHeartbeat
    apply Res.post_bind (P := fun r' => r'.raftLog = r.raftLog ∧ r'.state = r.state)
    · apply Res.post_intro
      intro r2 hs
      rw [send_eq r1 r2 _ hs]
      exact h1
    · intro x hx; exact hx
  · intro r1 id pr h1
    exact h1
  · exact ⟨rfl, rfl⟩

/-- a `read_index` call (that is not answered at once) keeps the log and the role -/
theorem readIndex_keeps {a r : Raft} {K : Bytes} (h : RawNode.readIndex a K = .ok r) :
    (a.prs.isSingleton = true ∨ a.readOnly.option ≠ .safe) ∨
    (r.raftLog = a.raftLog ∧ r.state = a.state) := by
  unfold RawNode.readIndex Raft.stepIgnore at h
  obtain ⟨⟨r1, e⟩, hstep, hr⟩ := Res.bind_eq_ok h
  cases hr
  change a.step (riMsg K) = .ok (r, e) at hstep
  unfold Raft.step at hstep
  have hterm : a.stepTerm (riMsg K) = .ok (a, true) := by simp [stepTerm, riMsg]
  rw [hterm] at hstep
  simp only [riMsg] at hstep
  split at hstep
  · unfold stepCandidate at hstep
    simp only at hstep
    cases hstep; exact .inr ⟨rfl, rfl⟩
  · unfold stepCandidate at hstep
    simp only at hstep
    cases hstep; exact .inr ⟨rfl, rfl⟩
  · unfold stepFollower at hstep
    simp only at hstep
    split at hstep
    · cases hstep; exact .inr ⟨rfl, rfl⟩
    · obtain ⟨r2, hs, hr⟩ := Res.bind_eq_ok hstep
      cases hr
      rw [send_eq a r _ hs]
      exact .inr ⟨rfl, rfl⟩
  · unfold stepLeader at hstep
    simp only at hstep
    split at hstep
    · cases hstep
    · cases hstep
    · cases hstep; exact .inr ⟨rfl, rfl⟩
    · split at hstep
      · rename_i hsing
        refine .inl (.inl ?_)
        simp only [Bool.and_eq_true] at hsing
        exact hsing.1
      · split at hstep
        · simp only [List.head?_cons] at hstep
          obtain ⟨ro, hadd, hb⟩ := Res.bind_eq_ok hstep
          obtain ⟨r2, hbc, hr⟩ := Res.bind_eq_ok hb
          cases hr
          exact .inr (Res.Post.of_eq (P := fun r' => r'.raftLog = a.raftLog ∧ r'.state = a.state)
            (bcastHeartbeatWithCtx_keeps ({ a with readOnly := ro } : Raft) _) hbc)
        · rename_i hlease
          exact .inl (.inr (by rw [hlease]; decide))

/-- … as one call of a node -/
theorem callRead_keeps {st st' : NState} {rnd : Option Nat} {K : Bytes} {res : OpRes}
    (h4 : Node.call st rnd (.readIndex K) = .ok (res, st')) :
    (st.raft.prs.isSingleton = true ∨ st.raft.readOnly.option ≠ .safe) ∨
    (st'.raft.raftLog = st.raft.raftLog ∧ st'.raft.state = st.raft.state) := by
  unfold Node.call at h4
  simp only [applyOp] at h4
  obtain ⟨raft, hx, hr⟩ := CV.okRes_ok h4
  rw [hr]
  exact readIndex_keeps (a := ({ st.raft with nextRand := rnd } : Raft)) hx

end R4
end RD
end Raft

namespace Cluster
namespace R4
open Node Raft Raft.CC Raft.RD.R4 RaftProps.C02 RaftProps.C05

/-- the node that a step `a → a.setNode k st'` moved, read off the result -/
theorem setNode_head (a : Sys) (k : Nat) (st' : NState) :
    (a.setNode k st').nodes.head? = some (k, st') ∧ (a.setNode k st').net = a.net := ⟨rfl, rfl⟩

/-- a necessary condition for `a → b` to deliver a `MsgReadIndex`: the transport is unchanged, a
`MsgReadIndex` of the transport is addressed to the node that moved, and that node queued no new
`MsgReadIndexResp` -/
def dChk (a b : Sys) : Bool :=
  decide (b.net = a.net) &&
  match b.nodes.head? with
  | some (k, st') =>
    match a.node k with
    | some st =>
      a.net.any (fun m => m.msgType == .msgReadIndex && m.to == k) &&
      st'.raft.msgs.all (fun x => x.msgType != .msgReadIndexResp || decide (x ∈ st.raft.msgs))
    | none => false
  | none => false

theorem dChk_of_deliver {cfg : JointConfig} {c0 : Nat} {h : List Sys} (H : Hyp3w cfg c0 h)
    (safe : ∀ s ∈ h, ∀ i st, s.node i = some st → st.raft.readOnly.option = .safe)
    {n k : Nat} {m : Message} (hty : m.msgType = .msgReadIndex) (hd : DeliverAt h n k m) :
    ∃ a b, h[n]? = some a ∧ h[n + 1]? = some b ∧ dChk a b = true := by
  have H2 := H.toHyp2w
  obtain ⟨a, b, st, st', rnd, res, h1, h2, h3, h4, h5, hcall, h7⟩ := hd
  refine ⟨a, b, h1, h2, ?_⟩
  have hold : ∀ x ∈ st'.raft.msgs, x.msgType = .msgReadIndexResp → x ∈ st.raft.msgs := by
    intro x hx hxt
    have viaRS : ∀ r1 : Raft, RS st.raft r1 → x ∈ r1.msgs → x ∈ st.raft.msgs := by
      intro r1 hs hx1
      have : x ∈ rdOf r1.msgs := mem_rdOf.2 ⟨hx1, by unfold isRd; rw [hxt]; rfl⟩
      rw [hs.rd] at this
      exact (mem_rdOf.1 this).1
    cases callRi_cases hty hcall with
    | keep hs _ => exact viaRS _ hs hx
    | fwd r1 hs _ _ y hmsgs hy =>
      rw [hmsgs] at hx
      rcases List.mem_append.1 hx with c | c
      · exact viaRS r1 hs c
      · rw [List.mem_singleton.1 c, hy.1] at hxt; cases hxt
    | now hs =>
      exfalso
      rcases hs with c | c
      · rw [not_singleton H2 (mem_of_get h1) h3] at c; cases c
      · exact c (safe a (mem_of_get h1) k st h3)
    | reg _ _ _ _ _ hmsgs =>
      rcases hmsgs x hx with c | ⟨c, _⟩
      · exact c
      · rw [c] at hxt; cases hxt
  unfold dChk
  rw [h7]
  simp only [(setNode_head a k st').1, (setNode_head a k st').2, h3, decide_true, Bool.true_and,
    Bool.and_eq_true, List.any_eq_true, List.all_eq_true, Bool.or_eq_true, bne_iff_ne, ne_eq,
    beq_iff_eq, decide_eq_true_eq]
  refine ⟨⟨m, h4, hty, h5⟩, fun x hx => ?_⟩
  by_cases hxt : x.msgType = .msgReadIndexResp
  · exact .inr (hold x hx hxt)
  · exact .inl hxt

/-- a necessary condition for `a → b` to be a `read_index` call: the transport, the log, the role, the
term and the read states of the node that moved are unchanged, and the node kept the read path
(`frame`), or is a follower that queued a `MsgReadIndex` last (`fwd`), or is a leader whose pending
requests are unchanged or end with a locally filed request (`reg`) -/
def rChk (a b : Sys) : Bool :=
  decide (b.net = a.net) &&
  match b.nodes.head? with
  | some (i, st') =>
    match a.node i with
    | some st =>
      decide (st'.raft.raftLog = st.raft.raftLog) && decide (st'.raft.state = st.raft.state) &&
      decide (st'.raft.term = st.raft.term) && decide (st'.raft.readStates = st.raft.readStates) &&
      ((decide (st'.raft.readOnly = st.raft.readOnly) && decide (rdOf st'.raft.msgs = rdOf st.raft.msgs)) ||
       (decide (st.raft.state = .follower) &&
          match st'.raft.msgs.getLast? with
          | some y => y.msgType == .msgReadIndex
          | none => false) ||
       (decide (st.raft.state = .leader) &&
          (decide (st'.raft.readOnly = st.raft.readOnly) ||
            match st'.raft.readOnly.pendingReadIndex.getLast? with
            | some p => p.2.req.frm == 0
            | none => false)))
    | none => false
  | none => false

theorem rChk_of_call {cfg : JointConfig} {c0 : Nat} {h : List Sys} (H : Hyp3w cfg c0 h)
    (safe : ∀ s ∈ h, ∀ i st, s.node i = some st → st.raft.readOnly.option = .safe)
    {n i : Nat} {K : Bytes} (hc : ReadCallAt h n i K) :
    ∃ a b, h[n]? = some a ∧ h[n + 1]? = some b ∧ rChk a b = true := by
  have H2 := H.toHyp2w
  obtain ⟨a, b, st, st', rnd, res, h1, h2, h3, hcall, h5⟩ := hc
  refine ⟨a, b, h1, h2, ?_⟩
  have nonow : ¬ (st.raft.prs.isSingleton = true ∨ st.raft.readOnly.option ≠ .safe) := by
    intro hs
    rcases hs with c | c
    · rw [not_singleton H2 (mem_of_get h1) h3] at c; cases c
    · exact c (safe a (mem_of_get h1) i st h3)
  obtain ⟨k1, k2⟩ : st'.raft.raftLog = st.raft.raftLog ∧ st'.raft.state = st.raft.state := by
    rcases callRead_keeps hcall with c | c
    · exact absurd c nonow
    · exact c
  obtain ⟨k3, k4⟩ : st'.raft.term = st.raft.term ∧ st'.raft.readStates = st.raft.readStates := by
    cases call_riOut hcall with
    | frame hf => exact ⟨hf.term, hf.rs⟩
    | fwd _ _ hcore _ => exact ⟨congrArg RCore.term hcore, congrArg RCore.rs hcore⟩
    | now hs => exact absurd hs nonow
    | reg _ _ _ _ hcore _ => exact ⟨congrArg RCore.term hcore, congrArg RCore.rs hcore⟩
  unfold rChk
  rw [h5]
  simp only [(setNode_head a i st').1, (setNode_head a i st').2, h3, decide_true, Bool.true_and, k1, k2,
    k3, k4]
  cases call_riOut hcall with
  | frame hf =>
    simp [hf.ro, hf.rd]
  | fwd hfo _ hcore hmsgs =>
    have : st'.raft.msgs.getLast? = some (st.raft.sendFill
        { msgType := .msgReadIndex, to := st.raft.leaderId, entries := [{ data := K }] }) := by
      rw [hmsgs]; simp
    have q := (sendFill_ri st.raft
      { msgType := .msgReadIndex, to := st.raft.leaderId, entries := [{ data := K }] } rfl).1
    simp [hfo, this, q]
  | now hs => exact absurd hs nonow
  | reg hl _ ro hadd hcore _ =>
    have e1 : st'.raft.readOnly = ro := congrArg RCore.ro hcore
    rcases addRequest_spec hadd with ⟨q1, _⟩ | ⟨_, _, q3, _⟩
    · simp [hl, e1, q1]
    · have : st'.raft.readOnly.pendingReadIndex.getLast? =
          some (K, { req := riMsg K, index := st.raft.raftLog.committed, acks := [st.raft.id] }) := by
        rw [e1, q3]; simp; rfl
      simp [hl, this, riMsg]

end R4
end Cluster
end RaftModel
