import RaftProofs.ClusterRead4N

/-!
Cluster-level ReadIndex safety for **forwarded** reads, part 4O: **`once` + `uniqc` give unique
registration** (`uniqr`), so `RdHypF` gives `RdHypF2`.

The `MsgReadIndex` values that carry one context `K` form a chain: the forwarding call queues the first,
and each delivery of one of them drops it, registers it, or queues one more (`{m with to := leader}`).
`ChainInv`: among those present in a state (queues and transport) at most one has not been delivered
yet, and once `K` has been registered all of them have been delivered.  With `once` (no value is
delivered twice) a second registration is impossible.
-/
namespace RaftModel
namespace Cluster
namespace R4
open Node Raft Raft.CC Raft.RD.R4 RaftProps.C02 RaftProps.C05

variable {cfg : JointConfig} {c0 : Nat} {h : List Sys}

/-- `x` is a `MsgReadIndex` with context `K` in a queue or in the transport of `s` -/
def InPlay (s : Sys) (K : Bytes) (x : Message) : Prop :=
  x.msgType = .msgReadIndex ∧ reqCtx x = some K ∧
  (x ∈ s.net ∨ ∃ v st, s.node v = some st ∧ x ∈ st.raft.msgs)

/-- `x` was delivered by a step before index `k` -/
def Dlv (h : List Sys) (k : Nat) (x : Message) : Prop := ∃ n, n < k ∧ DeliverAt h n x.to x

theorem Dlv.mono {k k' : Nat} {x : Message} (hd : Dlv h k x) (hle : k ≤ k') : Dlv h k' x := by
  obtain ⟨n, h1, h2⟩ := hd
  exact ⟨n, by omega, h2⟩

structure ChainInv (h : List Sys) (k : Nat) (K : Bytes) (s : Sys) : Prop where
  one : ∀ x y, InPlay s K x → InPlay s K y → ¬ Dlv h k x → ¬ Dlv h k y → x = y
  done : Issued h k K → ∀ x, InPlay s K x → Dlv h k x

/-- a context in play was forwarded by a call before -/
theorem inPlay_src (H : RdHypF cfg c0 h) {k : Nat} {s : Sys} (hk : h[k]? = some s) {K : Bytes}
    {x : Message} (hx : InPlay s K x) : ∃ nf f, nf < k ∧ FwdAt h nf f K := by
  obtain ⟨h1, h2, h3⟩ := hx
  have P := ri_prov H k s hk
  have : RiSrc h k x := by
    rcases h3 with c | ⟨v, st, hv, c⟩
    · exact P.net x c h1
    · exact P.q v st hv x c h1
  obtain ⟨n, f, ctx, g1, g2, g3, _⟩ := this
  rw [h2] at g3
  injection g3 with g3
  subst g3
  exact ⟨n, f, g1, g2⟩

/-- a context that some call forwards is not registered by a call -/
theorem fwd_not_regAt (H : RdHypF cfg c0 h) {nf f n i : Nat} {K : Bytes} (hf : FwdAt h nf f K)
    (hr : RegAt h n i K) : False := by
  have e := H.uniqc n nf i f K hr.call hf.call
  subst e
  exact regAt_not_fwdAt H.toHyp3w H.safe hr hf

/-- a forwarded context is registered only after the forwarding call -/
theorem fwd_before_reg (H : RdHypF cfg c0 h) {nf f n i : Nat} {K : Bytes} (hf : FwdAt h nf f K)
    (hr : Reg h n i K) : nf < n := by
  rcases hr with c | ⟨m0, idx, c⟩
  · exact (fwd_not_regAt H hf c).elim
  · obtain ⟨n2, g1, g2⟩ := fwdReg_src H c
    have e := H.uniqc n2 nf _ f K g2.call hf.call
    omega

/-- in-play messages after a step that moved node `k` only -/
theorem inPlay_setNode {a : Sys} {k : Nat} {st' : NState} {K : Bytes} {x : Message}
    (hx : InPlay (a.setNode k st') K x) : InPlay a K x ∨ x ∈ st'.raft.msgs := by
  obtain ⟨h1, h2, h3⟩ := hx
  rcases h3 with c | ⟨v, stv, hv, c⟩
  · exact .inl ⟨h1, h2, .inl c⟩
  · rcases node_cases hv with ⟨e1, e2⟩ | ⟨_, e2⟩
    · subst e2; exact .inr c
    · exact .inl ⟨h1, h2, .inr ⟨v, stv, e2, c⟩⟩

/-- what one step does to the `MsgReadIndex`s with context `K` that are in play -/
theorem step_sum (H : RdHypF cfg c0 h) {n : Nat} {a b : Sys} (ha : h[n]? = some a)
    (hb : h[n + 1]? = some b) (K : Bytes) :
    (∀ x, InPlay b K x → InPlay a K x) ∨
    (∃ y0 f, FwdAt h n f K ∧ ∀ x, InPlay b K x → InPlay a K x ∨ x = y0) ∨
    (∃ y0 m k, InPlay a K m ∧ DeliverAt h n k m ∧ m.to = k ∧
      ∀ x, InPlay b K x → InPlay a K x ∨ x = y0) := by
  have H3 := H.toHyp3w
  have H2 := H3.toHyp2w
  -- a `MsgReadIndex` of the moved node that was queued before
  have old : ∀ (k : Nat) (st : NState) (r1 : Raft) (x : Message), a.node k = some st →
      RS st.raft r1 → x ∈ r1.msgs → InPlay b K x → InPlay a K x := by
    intro k st r1 x hk hs hx hp
    have : x ∈ rdOf r1.msgs := mem_rdOf.2 ⟨hx, by unfold isRd; rw [hp.1]; rfl⟩
    rw [hs.rd] at this
    exact ⟨hp.1, hp.2.1, .inr ⟨k, st, hk, (mem_rdOf.1 this).1⟩⟩
  cases rd_step H3 ha hb with
  | call k st st' m hk hbe hm ho hrir =>
    left
    intro x hx
    have hx' := hx
    rw [hbe] at hx'
    rcases inPlay_setNode hx' with c | c
    · exact c
    · have hty := hx.1
      rcases ho.msgs x c with d | d | d | d | d
      · exact ⟨hx.1, hx.2.1, .inr ⟨k, st, hk, d⟩⟩
      · rw [hty] at d; cases d
      · rw [d.1] at hty; cases hty
      · rw [d.1] at hty; cases hty
      · rw [d.1] at hty; cases hty
  | read k st st' K' rnd res hk hbe hcall ho =>
    cases ho with
    | frame hf =>
      left
      intro x hx
      have hx' := hx
      rw [hbe] at hx'
      rcases inPlay_setNode hx' with c | c
      · exact c
      · exact old k st st'.raft x hk hf.toRS c hx
    | fwd hfo hlead hcore hmsgs =>
      by_cases hK : ∃ x, InPlay b K x ∧ ¬ InPlay a K x
      · right; left
        obtain ⟨x0, hx0, hnx0⟩ := hK
        -- the new message carries `K'`, so `K' = K` and this is the forwarding call
        have hx0' := hx0
        rw [hbe] at hx0'
        have hx0q : x0 ∈ st'.raft.msgs := by
          rcases inPlay_setNode hx0' with c | c
          · exact absurd c hnx0
          · exact c
        rw [hmsgs] at hx0q
        have hx0e : x0 = st.raft.sendFill
            { msgType := .msgReadIndex, to := st.raft.leaderId, entries := [{ data := K' }] } := by
          rcases List.mem_append.1 hx0q with c | c
          · exact absurd ⟨hx0.1, hx0.2.1, .inr ⟨k, st, hk, c⟩⟩ hnx0
          · exact List.mem_singleton.1 c
        have hKK : K' = K := by
          have q2 := (sendFill_ri st.raft
            { msgType := .msgReadIndex, to := st.raft.leaderId, entries := [{ data := K' }] } rfl).2.1
          have := hx0.2.1
          unfold reqCtx at this
          rw [hx0e, q2] at this
          injection this
        subst hKK
        obtain ⟨nf, f, hlt, hf⟩ := inPlay_src H hb hx0
        have hcallAt : ReadCallAt h n k K' := ⟨a, b, st, st', rnd, res, ha, hb, hk, hcall, hbe⟩
        have e := H.uniqc nf n f k K' hf.call hcallAt
        subst e
        refine ⟨x0, f, hf, fun x hx => ?_⟩
        have hx' := hx
        rw [hbe] at hx'
        rcases inPlay_setNode hx' with c | c
        · exact .inl c
        · rw [hmsgs] at c
          rcases List.mem_append.1 c with d | d
          · exact .inl ⟨hx.1, hx.2.1, .inr ⟨k, st, hk, d⟩⟩
          · exact .inr ((List.mem_singleton.1 d).trans hx0e.symm)
      · left
        intro x hx
        apply Classical.byContradiction
        intro hc
        exact hK ⟨x, hx, hc⟩
    | now hs =>
      exfalso
      rcases hs with c | c
      · rw [not_singleton H2 (mem_of_get ha) hk] at c; cases c
      · exact c (H.safe a (mem_of_get ha) k st hk)
    | reg hl hc ro hadd hcore hmsgs =>
      left
      intro x hx
      have hx' := hx
      rw [hbe] at hx'
      rcases inPlay_setNode hx' with c | c
      · exact c
      · rcases hmsgs x c with d | ⟨d, _⟩
        · exact ⟨hx.1, hx.2.1, .inr ⟨k, st, hk, d⟩⟩
        · have := hx.1; rw [d] at this; cases this
  | ri k st st' m rnd res hk hbe hm hto hty hcall ho =>
    cases ho with
    | keep hs _ =>
      left
      intro x hx
      have hx' := hx
      rw [hbe] at hx'
      rcases inPlay_setNode hx' with c | c
      · exact c
      · exact old k st st'.raft x hk hs c hx
    | fwd r1 hs hfo hcore y hmsgs hy =>
      by_cases hK : reqCtx m = some K
      · right; right
        refine ⟨y, m, k, ⟨hty, hK, .inl hm⟩, ⟨a, b, st, st', rnd, res, ha, hb, hk, hm, hto, hcall, hbe⟩,
          hto, fun x hx => ?_⟩
        have hx' := hx
        rw [hbe] at hx'
        rcases inPlay_setNode hx' with c | c
        · exact .inl c
        · rw [hmsgs] at c
          rcases List.mem_append.1 c with d | d
          · exact .inl (old k st r1 x hk hs d hx)
          · exact .inr (List.mem_singleton.1 d)
      · left
        intro x hx
        have hx' := hx
        rw [hbe] at hx'
        rcases inPlay_setNode hx' with c | c
        · exact c
        · rw [hmsgs] at c
          rcases List.mem_append.1 c with d | d
          · exact old k st r1 x hk hs d hx
          · exfalso
            apply hK
            have := hx.2.1
            unfold reqCtx at this ⊢
            rw [List.mem_singleton.1 d, hy.2.1] at this
            exact this
    | now hs =>
      exfalso
      rcases hs with c | c
      · rw [not_singleton H2 (mem_of_get ha) hk] at c; cases c
      · exact c (H.safe a (mem_of_get ha) k st hk)
    | reg hl hc ro hadd hcore hmsgs =>
      left
      intro x hx
      have hx' := hx
      rw [hbe] at hx'
      rcases inPlay_setNode hx' with c | c
      · exact c
      · rcases hmsgs x c with d | ⟨d, _⟩
        · exact ⟨hx.1, hx.2.1, .inr ⟨k, st, hk, d⟩⟩
        · have := hx.1; rw [d] at this; cases this
  | send k st st' hk hbe hst =>
    left
    intro x hx
    obtain ⟨h1, h2, h3⟩ := hx
    rw [hbe] at h3
    rcases h3 with c | ⟨v, stv, hv, c⟩
    · have c' : x ∈ a.net ++ st.raft.msgs := c
      rcases List.mem_append.1 c' with d | d
      · exact ⟨h1, h2, .inl d⟩
      · exact ⟨h1, h2, .inr ⟨k, st, hk, d⟩⟩
    · have hv' : (a.setNode k st').node v = some stv := hv
      rcases node_cases hv' with ⟨e1, e2⟩ | ⟨_, e2⟩
      · subst e2; rw [hst] at c; cases c
      · exact ⟨h1, h2, .inr ⟨v, stv, e2, c⟩⟩
  | restart k st st' hk hbe hf hq =>
    left
    intro x hx
    have hx' := hx
    rw [hbe] at hx'
    rcases inPlay_setNode hx' with c | c
    · exact c
    · rw [hq] at c; cases c

theorem chain_inv (H : RdHypF cfg c0 h) (K : Bytes) :
    ∀ (k : Nat) (s : Sys), h[k]? = some s → ChainInv h k K s := by
  have H3 := H.toHyp3w
  have H2 := H3.toHyp2w
  refine hist_induct h _ ?_ ?_
  · intro s h0
    have hinit := hist_init H2.hist s h0
    have none : ∀ x, ¬ InPlay s K x := by
      intro x ⟨_, _, h3⟩
      rcases h3 with c | ⟨v, st, hv, c⟩
      · rw [hinit.1] at c; cases c
      · rw [init_queue hinit v st hv] at c; cases c
    exact ⟨fun x _ hx => (none x hx).elim, fun _ x hx => (none x hx).elim⟩
  · intro n a b ha hb ih
    have dm : ∀ x, ¬ Dlv h (n + 1) x → ¬ Dlv h n x :=
      fun x hnd hd => hnd (hd.mono (Nat.le_succ n))
    have dnow : ∀ k m, DeliverAt h n k m → m.to = k → Dlv h (n + 1) m :=
      fun k m hd hto => ⟨n, Nat.lt_succ_self n, by rw [hto]; exact hd⟩
    have fresh : ∀ k m, m.msgType = .msgReadIndex → DeliverAt h n k m → m.to = k →
        ¬ Dlv h n m := by
      intro k m hty hd hto ⟨n', hlt, hd'⟩
      rw [hto] at hd'
      have := H.once n' n k m hty hd' hd
      omega
    constructor
    · intro x y hx hy hnx hny
      rcases step_sum H ha hb K with hs | ⟨y0, f, hf, hs⟩ | ⟨y0, m, k, hmp, hd, hto, hs⟩
      · exact ih.one x y (hs x hx) (hs y hy) (dm x hnx) (dm y hny)
      · have empty : ∀ z, ¬ InPlay a K z := by
          intro z hz
          obtain ⟨nf, f', hlt, hf'⟩ := inPlay_src H ha hz
          have := H.uniqc nf n f' f K hf'.call hf.call
          omega
        rcases hs x hx with c | c
        · exact (empty x c).elim
        · rcases hs y hy with d | d
          · exact (empty y d).elim
          · rw [c, d]
      · have hmf := fresh k m hmp.1 hd hto
        have hmd := dnow k m hd hto
        have oldm : ∀ z, InPlay a K z → ¬ Dlv h (n + 1) z → False := by
          intro z hz hnz
          have := ih.one z m hz hmp (dm z hnz) hmf
          rw [this] at hnz
          exact hnz hmd
        rcases hs x hx with c | c
        · exact (oldm x c hnx).elim
        · rcases hs y hy with d | d
          · exact (oldm y d hny).elim
          · rw [c, d]
    · intro hiss x hx
      obtain ⟨n', i, hlt, hreg⟩ := hiss
      by_cases hn' : n' < n
      · have hI : Issued h n K := ⟨n', i, hn', hreg⟩
        rcases step_sum H ha hb K with hs | ⟨y0, f, hf, hs⟩ | ⟨y0, m, k, hmp, hd, hto, hs⟩
        · exact (ih.done hI x (hs x hx)).mono (Nat.le_succ n)
        · have := fwd_before_reg H hf hreg; omega
        · exact (fresh k m hmp.1 hd hto (ih.done hI m hmp)).elim
      · have e : n = n' := by omega
        subst e
        rcases hreg with c | ⟨m', idx, c⟩
        · obtain ⟨nf, f, _, hf⟩ := inPlay_src H hb hx
          exact (fwd_not_regAt H hf c).elim
        · -- this very step delivers `m'` and registers `K`
          have hctx : reqCtx m' = some K := (fwd_reg_covers H3 H.safe c).1
          have hdel := c.deliver
          obtain ⟨a', b', st, st', rnd, res, p1, p2, p3, p4, p5, hty, hcall, p8, hnot, rs, hrs, _⟩ := c
          rw [ha] at p1; cases p1
          rw [hb] at p2; cases p2
          have hmp : InPlay a K m' := ⟨hty, hctx, .inl p4⟩
          have hmf := fresh i m' hty hdel p5
          have hmd := dnow i m' hdel p5
          have hold : InPlay a K x := by
            have hx' := hx
            rw [p8] at hx'
            rcases inPlay_setNode hx' with d | d
            · exact d
            · have nopend : ∀ r1 : Raft, RS st.raft r1 → st'.raft.readOnly = r1.readOnly → False := by
                intro r1 hs e1
                rw [e1] at hrs
                rcases RS.ro_cases hs with ⟨g1, _⟩ | ⟨g1, _⟩
                · rw [g1] at hrs; exact hnot rs hrs
                · rw [g1] at hrs; cases hrs
              cases callRi_cases hty hcall with
              | keep hs _ => exact (nopend _ hs rfl).elim
              | fwd r1 hs _ hcore _ _ _ => exact (nopend r1 hs (congrArg RCore.ro hcore)).elim
              | now hs =>
                exfalso
                rcases hs with g | g
                · rw [not_singleton H2 (mem_of_get ha) p3] at g; cases g
                · exact g (H.safe a (mem_of_get ha) i st p3)
              | reg _ _ _ _ _ hmsgs =>
                rcases hmsgs x d with g | ⟨g, _⟩
                · exact ⟨hx.1, hx.2.1, .inr ⟨i, st, p3, g⟩⟩
                · have := hx.1; rw [g] at this; cases this
          by_cases hdx : Dlv h n x
          · exact hdx.mono (Nat.le_succ n)
          · rw [ih.one x m' hold hmp hdx hmf]; exact hmd

/-- a second registration of a context, after a first one, is impossible -/
theorem reg_once (H : RdHypF cfg c0 h) {n1 n2 i1 i2 : Nat} {K : Bytes} (h1 : Reg h n1 i1 K)
    (h2 : Reg h n2 i2 K) (hlt : n1 < n2) : False := by
  rcases h2 with c2 | ⟨m2, idx2, c2⟩
  · rcases h1 with c1 | ⟨m1, idx1, c1⟩
    · have := H.uniqc n1 n2 i1 i2 K c1.call c2.call
      omega
    · obtain ⟨nf, _, hf⟩ := fwdReg_src H c1
      exact fwd_not_regAt H hf c2
  · have hctx : reqCtx m2 = some K := (fwd_reg_covers H.toHyp3w H.safe c2).1
    have hdel := c2.deliver
    obtain ⟨a, b, st, st', rnd, res, p1, p2, p3, p4, p5, hty, _⟩ := c2
    obtain ⟨n', hlt', hd'⟩ :=
      (chain_inv H K n2 a p1).done ⟨n1, i1, hlt, h1⟩ m2 ⟨hty, hctx, .inl p4⟩
    rw [p5] at hd'
    have := H.once n' n2 i2 m2 hty hd' hdel
    omega

/-- **`once` + `uniqc` give unique registration** -/
theorem uniqr_of (H : RdHypF cfg c0 h) (n1 n2 i1 i2 : Nat) (K : Bytes) (h1 : Reg h n1 i1 K)
    (h2 : Reg h n2 i2 K) : n1 = n2 := by
  rcases Nat.lt_trichotomy n1 n2 with c | c | c
  · exact (reg_once H h1 h2 c).elim
  · exact c
  · exact (reg_once H h2 h1 c).elim

/-- the bundle for forwarded reads gives the bundle with unique registration -/
theorem RdHypF.toF2 (H : RdHypF cfg c0 h) : RdHypF2 cfg c0 h :=
  { toRdHypF := H, uniqr := uniqr_of H }

end R4
end Cluster
end RaftModel
