import RaftProofs.ClusterSnap5N

/-!
[Copy of `ClusterSnap2O.lean` for the development `Snap5` (with `request_snapshot`): `NoReq` is replaced by
`ReqOk`, `SnapCase.restored` is widened — see `ClusterSnap5A.lean`, `RaftProps/C01i.lean`.]

Commit safety of `ClusterSem` with compaction and snapshots, part 2O (as `ClusterSnapN`): the induction
steps for **retention in the logical log** (`retm_step`) and for **the promise of an acknowledgement in
the logical log** (`a2m_step`), with the cases of a delivered and of an installed snapshot.
-/
namespace RaftModel
namespace Cluster
namespace Snap5
open Node Raft Raft.CC RaftProps.C02 RaftProps.C05 Snap

variable {cfg : JointConfig} {c0 : Nat} {h : List Sys}

/-- `persist_snap` keeps the logical log -/
theorem persist_abs {st st' : NState} {rnd : Option Nat} (h : PersistOut st st' rnd) :
    st'.raft.raftLog.abs = st.raft.raftLog.abs := by
  cases h with
  | noop hr => rw [hr]
  | done _ L _ hr _ habs _ _ _ _ _ _ _ => rw [hr]; exact habs

/-- … and the commit index, the term and the role -/
theorem persist_same {st st' : NState} {rnd : Option Nat} (h : PersistOut st st' rnd) :
    st'.raft.raftLog.committed = st.raft.raftLog.committed ∧ st'.raft.term = st.raft.term ∧
    st'.raft.state = st.raft.state := by
  cases h with
  | noop hr => rw [hr]; exact ⟨rfl, rfl, rfl⟩
  | done _ L _ hr _ _ hc _ _ _ _ _ _ => rw [hr]; exact ⟨hc, rfl, rfl⟩

/-- a step that leaves the commit index of every node alone is not a commit event -/
theorem not_ev_of_same {E : Ev} (hE : E.ok h) {n : Nat} {a b : Sys} (ha : h[n]? = some a)
    (hb : h[n + 1]? = some b)
    (hsame : ∀ v sta stb, a.node v = some sta → b.node v = some stb →
      stb.raft.state = .leader → stb.raft.raftLog.committed ≤ sta.raft.raftLog.committed) :
    E.nE ≠ n := by
  intro he
  obtain ⟨a', b', sta, stb, ha', hb', hla, hlb, hsl, _, hc, _⟩ := hE
  rw [he] at ha' hb'
  rw [ha] at ha'; cases ha'
  rw [hb] at hb'; cases hb'
  have := hsame E.l sta stb hla hlb hsl
  omega

/-- a step of node `v` after which `v` is no leader, or has its old commit index, is not a commit
event -/
theorem not_ev_at {E : Ev} (hE : E.ok h) {n : Nat} {a b : Sys} (ha : h[n]? = some a)
    (hb : h[n + 1]? = some b) {v : Nat} {stk stk' : NState} (hka : a.node v = some stk)
    (hkb : b.node v = some stk') (hoth : ∀ w, w ≠ v → b.node w = a.node w)
    (hq : stk'.raft.state ≠ .leader ∨ stk'.raft.raftLog.committed ≤ stk.raft.raftLog.committed) :
    E.nE ≠ n := by
  refine not_ev_of_same hE ha hb (fun w sta stb hwa hwb hl => ?_)
  by_cases hw : w = v
  · subst hw
    rw [hkb] at hwb; cases hwb
    rw [hka] at hwa; cases hwa
    rcases hq with c | c
    · exact absurd hl c
    · exact c
  · rw [hoth w hw, hwa] at hwb; cases hwb; exact Nat.le_refl _

/-- a node that acknowledged an event has reached the event's term -/
theorem acked_term (H : Hyp2w cfg c0 h) {n : Nat} {a : Sys} (ha : h[n]? = some a) {E : Ev}
    (hE : E.ok h) {v : Nat} {st : NState} (hv : a.node v = some st) (hk : AckedMem a n E v st) :
    E.t ≤ st.raft.term := by
  obtain ⟨_, _, hc0⟩ := Ev.leaderLog H hE
  obtain ⟨hq, hn⟩ := ack_inv H n a ha
  rcases hk with ⟨x, hx, hack, hfrm, hterm, hidx⟩ | ⟨hvl, hlt, _⟩
  · have hx0 : x.index ≠ 0 := by omega
    rcases hx with c | c
    · have := ((hn x c hack hx0).1 st (by rw [hfrm]; exact hv)).1
      omega
    · have := (hq v st hv x c hack hx0).2.1
      omega
  · obtain ⟨a', b', sta, stb, ha', hb', hla, hlb, hs, ht, _⟩ := hE
    have hfl := leader_floor H (mem_of_get hb') (k := E.l) (τ := E.t) ⟨stb, hlb, hs, ht⟩
    obtain ⟨st2, h1, h2, _⟩ := hfl.later H.hist hb' ha (by omega)
    rw [← hvl, hv] at h1; cases h1
    exact h2

/-- **the sender of an accepted batch agrees with a log that holds the committed entry**: wherever the
sender's log (a leader's log of the event's term or a later one) holds an entry up to the committed
index, the node's log holds the same entry -/
theorem compat_has (H : Hyp2w cfg c0 h) {n : Nat} (S : SAll h c0 n) {a : Sys} (ha : h[n]? = some a)
    {v : Nat} {st : NState} (hv : a.node v = some st) {E : Ev} (hE : E.ok h)
    (hh : Has (FL h c0 st) E.c E.t) {τ : Nat} {L : LLog} (hL : LeaderLog h c0 n τ L)
    (hle : E.t ≤ τ) :
    ∀ j, j ≤ E.c → ∀ e, L.entryAt j = some e → (FL h c0 st).entryAt j = some e := by
  intro j hj e he
  by_cases hlt : E.t < τ
  · have hLh := ll_has H S hL hE hle (fun hc => by omega)
    rw [eq_ll H ha hv hL hh hLh j hj]; exact he
  · have heq : τ = E.t := by omega
    subst heq
    obtain ⟨hEl, hEh, _⟩ := Ev.leaderLog H hE
    obtain ⟨eE, heE, _⟩ := id hEh
    rw [eq_ll H ha hv hEl hh hEh j hj, ← ll_eq H hL hEl (L.entryAt_lt he).2
      (Nat.le_trans hj ((EvF h c0 E).entryAt_lt heE).2)]
    exact he

/-- `AckedMem` before the step, from `AckedMem` after it, for a node that did not queue the
acknowledgement in this step and is not the leader committing in this step -/
theorem acked_back {n : Nat} {a b : Sys} {E : Ev} {v : Nat} {st st' : NState}
    (hnet : ∀ x ∈ b.net, x ∈ a.net ∨ x ∈ st.raft.msgs)
    (hq : ∀ x ∈ st'.raft.msgs, x ∈ st.raft.msgs) (hne : E.nE ≠ n)
    (hk : AckedMem b (n + 1) E v st') : AckedMem a n E v st := by
  rcases hk with ⟨x, hx, h2⟩ | ⟨h1, h2, h3⟩
  · left
    refine ⟨x, ?_, h2⟩
    rcases hx with c | c
    · rcases hnet x c with d | d
      · exact .inl d
      · exact .inr d
    · exact .inr (hq x c)
  · exact .inr ⟨h1, by omega, h3⟩

/-- the snapshot of a `MsgSnapshot` of the transport carries a real term -/
theorem SnapSrc.snapt_ne {n : Nat} {m : Message} {L : LLog} (H : Hyp2w cfg c0 h)
    (src : SnapSrc h c0 n m L) : m.snapshot.metadata.term ≠ 0 := by
  obtain ⟨e, he, het⟩ := src.has
  obtain ⟨m0, s0, l0, stl, _, a2, a3, _, _, rfl⟩ := src.ll
  obtain ⟨g, ⟨m1, s1, loc, hs1, hat⟩, hg, _⟩ := ((ghost_inv H m0 s0 a2).node l0 stl a3).log.der _ e he
  obtain ⟨sx, _, hall⟩ := H.inv_at
  rw [← het]
  exact (hall s1 (mem_of_get hs1)).nz loc g hat _ e hg

/-- **the ghost log of a node that restored the snapshot of `m`** equals the sender's up to the
snapshot index, and ends there -/
theorem restored_src (H : Hyp3a cfg c0 h) {n : Nat} (S : SAll h c0 n) {a b : Sys} (ha : h[n]? = some a)
    (hb : h[n + 1]? = some b) {v : Nat} {st' : NState} (hkb : b.node v = some st') {m : Message}
    (hm : m ∈ a.net) (hty : m.msgType = .msgSnapshot)
    (hl : st'.raft.raftLog.abs = LLog.ofSnapshot m.snapshot) :
    ∃ L, SnapSrc h c0 n m L ∧ EqUpTo (FL h c0 st') L m.snapshot.metadata.index ∧
      st'.raft.raftLog.abs.lastIndex = m.snapshot.metadata.index := by
  have H2 := H.toHyp2w
  obtain ⟨L, src⟩ := snap_src H S ha hm hty
  have Ib := (ghost_inv H2 (n + 1) b hb).node v st' hkb
  obtain ⟨e, he, het⟩ := Ib.log.sT m.snapshot.metadata.term (by rw [hl]; rfl)
    (by rw [hl]; exact src.hi)
  rw [hl] at he
  have he' : (FL h c0 st').entryAt m.snapshot.metadata.index = some e := he
  obtain ⟨eL, heL, hetL⟩ := src.has
  obtain ⟨m0, s0, l0, stl, _, a2, a3, _, _, hLeq⟩ := id src.ll
  have Il := (ghost_inv H2 m0 s0 a2).node l0 stl a3
  rw [hLeq] at heL
  refine ⟨L, src, ?_, by rw [hl]; unfold LLog.ofSnapshot LLog.lastIndex; rfl⟩
  rw [hLeq]
  exact full_eq_below H2 Ib.log Il.log he' heL (het.trans hetL.symm)

/-- **a node whose ghost log holds the snapshot's last entry does not restore the snapshot**: its log
matches `(index, term)` -/
theorem restore_nodrop (H : Hyp3a cfg c0 h) {n : Nat} {a : Sys} (ha : h[n]? = some a) {v : Nat}
    {stk : NState} (hka : a.node v = some stk)
    (hpn : stk.raft.raftLog.unstable.snapshot = none) {i t : Nat} (hi0 : c0 < i)
    (hci : stk.raft.raftLog.committed ≤ i) (hh : Has (FL h c0 stk) i t) :
    stk.raft.raftLog.matchTerm i t = .ok true := by
  have H2 := H.toHyp2w
  have I := (ghost_inv H2 n a ha).node v stk hka
  have o := node_ok H2 ha hka
  obtain ⟨e, he, het⟩ := hh
  rw [o.inv.matchTerm_abs]
  congr 1
  have hp := o.snap_le
  by_cases hpi : stk.raft.raftLog.abs.snapIdx < i
  · rw [I.log.ents i hpi] at he
    rw [← het]
    exact stk.raft.raftLog.abs.matchTerm_of_entry he
  · have heq : i = stk.raft.raftLog.abs.snapIdx := by omega
    cases hst : stk.raft.raftLog.abs.snapTerm with
    | none =>
      have := (snap_lt H n a ha v stk hka).log hst (by omega)
      omega
    | some t' =>
      obtain ⟨e', he', het'⟩ := I.log.sT t' hst (by omega)
      rw [← heq, he] at he'
      cases he'
      unfold LLog.matchTerm LLog.term
      rw [if_neg (by have := snap_le_last stk.raft.raftLog.abs; omega), if_pos heq, hst]
      simp only []
      rw [← het, het']
      simp

/-- **a node that fast-forwarded its commit index to the snapshot of `m`** holds the sender's log up to
the snapshot index -/
theorem ffwd_src (H : Hyp3a cfg c0 h) {n : Nat} (S : SAll h c0 n) {a : Sys} (ha : h[n]? = some a)
    {v : Nat} {stk : NState} (hka : a.node v = some stk) {m : Message}
    (hm : m ∈ a.net) (hty : m.msgType = .msgSnapshot)
    (hmt : stk.raft.raftLog.matchTerm m.snapshot.metadata.index m.snapshot.metadata.term = .ok true) :
    ∃ L, SnapSrc h c0 n m L ∧ EqUpTo (FL h c0 stk) L m.snapshot.metadata.index := by
  have H2 := H.toHyp2w
  obtain ⟨L, src⟩ := snap_src H S ha hm hty
  have I := (ghost_inv H2 n a ha).node v stk hka
  have o := node_ok H2 ha hka
  rw [o.inv.matchTerm_abs] at hmt
  have hmt' : stk.raft.raftLog.abs.matchTerm m.snapshot.metadata.index
      m.snapshot.metadata.term = true := by injection hmt
  exact ⟨L, src, eq_ll H2 ha hka src.ll (I.log.has_of_match hmt' (src.snapt_ne H2) src.hi) src.has⟩

/-- a node whose commit index reaches `E.c`, at a moment when the event's term has been led, holds the
committed entry -/
theorem commit_has (H : Hyp2w cfg c0 h) {n : Nat} (S : SAll h c0 n) {a : Sys} (ha : h[n]? = some a)
    {v : Nat} {stk : NState} (hka : a.node v = some stk) {E : Ev} (hE : E.ok h)
    (hc : E.c ≤ stk.raft.raftLog.committed) {L : LLog} (hL : LeaderLog h c0 n E.t L) :
    Has (FL h c0 stk) E.c E.t := by
  obtain ⟨_, _, hc0⟩ := Ev.leaderLog H hE
  rcases (S n a (Nat.le_refl _) ha).nctm v stk hka with c | ⟨E0, hE0, hp0, hc1, _, hq0⟩
  · omega
  · have := ctf H S hE0 hE hp0 (by omega) (fun _ => ⟨L, hL⟩)
    exact hq0.has hc this

theorem retm_step (H : Hyp3a cfg c0 h) {n : Nat} (S : SAll h c0 n) {a b : Sys}
    (ha : h[n]? = some a) (hb : h[n + 1]? = some b) :
    ∀ E : Ev, E.ok h → ∀ v st', b.node v = some st' → AckedMem b (n + 1) E v st' →
      Has (FL h c0 st') E.c E.t := by
  intro E hE v st' hvb hk
  have H2 := H.toHyp2w
  have Sa := S n a (Nat.le_refl _) ha
  obtain ⟨hEl, hEh, hc0⟩ := Ev.leaderLog H2 hE
  obtain ⟨k, stk, stk', hka, hkb, hoth, hs⟩ := H2.stp ha hb
  by_cases hvk : v = k
  · subst hvk
    rw [hkb] at hvb; cases hvb
    cases hs with
    | restart c rnd hboot hnet _ =>
      have hbt := CV.boot_booted c _ rnd st' hboot
      have hst := (hist_all H.hist).1 a (mem_of_get ha)
      obtain ⟨_, habs, _⟩ := boot_log c _ rnd st' (node_ok H2 ha hka).inv.storeWF hboot
      -- the acknowledgement is in the transport, or the event is an earlier one
      have hne : E.nE ≠ n := by
        intro he
        obtain ⟨a', b', sta, stb, ha', hb', hla, hlb, hsl, _⟩ := hE
        rw [he] at ha' hb'
        rw [ha] at ha'; cases ha'
        rw [hb] at hb'; cases hb'
        have := ev_at_step ⟨a, b, sta, stb, by rw [he]; exact ha, by rw [he]; exact hb, hla, hlb,
          hsl, by assumption⟩ (by rw [he]; exact ha) (by rw [he]; exact hb) hoth
        rw [this, hkb] at hlb; cases hlb
        rw [hbt.state] at hsl; cases hsl
      have hdur : AckedDur a n E v := by
        rcases hk with ⟨x, hx, h2⟩ | ⟨h1, h2, h3⟩
        · left
          rcases hx with c | c
          · rw [hnet] at c; exact ⟨x, c, h2⟩
          · rw [hbt.msgs] at c; cases c
        · exact .inr ⟨h1, by omega, h3⟩
      rw [FL_restart habs]
      exact Sa.rets E hE v stk hka hdur
    | send hp hu hq hsame hnet _ =>
      have hne : E.nE ≠ n := by
        intro he
        obtain ⟨a', b', sta, stb, ha', hb', hla, hlb, _, _, hc, _⟩ := hE
        rw [he] at ha' hb'
        rw [ha] at ha'; cases ha'
        rw [hb] at hb'; cases hb'
        by_cases hl : E.l = v
        · rw [hl, hka] at hla; cases hla
          rw [hl, hkb] at hlb; cases hlb
          rw [hsame.1] at hc; omega
        · rw [hoth E.l hl, hla] at hlb; cases hlb; omega
      have := acked_back (a := a) (st := stk) (fun x hx => by
        rw [hnet] at hx; exact List.mem_append.1 hx) (fun x hx => by rw [hq] at hx; cases hx) hne hk
      rw [FL_same (st := stk) (by rw [hsame.1])]
      exact Sa.retm E hE v stk hka this
    | call rnd op res hop hnc hca hns hpn hss hcall hnet hpn' _ =>
      by_cases hold : AckedMem a n E v stk
      · have hh := Sa.retm E hE v stk hka hold
        have hreach : E.c ≤ stk.raft.raftLog.abs.lastIndex := by
          obtain ⟨e, he, _⟩ := hh
          rw [← fl_last H2 ha hka]; exact ((FL h c0 stk).entryAt_lt he).2
        cases fcall_step H2 ha hb hka hkb hop hnc hns hpn hcall with
        | same hl _ => exact Has.of_eq (hl _) hh
        | grew es hg hl _ => exact Has.of_eq (hl _ hreach) hh
        | acc m hm hty hto hacc _ _ _ _ ht =>
          obtain ⟨L, cL, src⟩ := app_src H S ha hm hty
          have hterm : E.t ≤ m.term := by
            have h1 := acked_term H2 ha hE hka hold
            have h2 := (call_facts H2 ha hka hop hnc hns hpn hcall).2.1.rt.le
            rcases ht with c | c
            · omega
            · exact absurd c src.tnz
          have hcomp := compat_has H2 S ha hka hE hh src.ll hterm
          exact Has.of_eq (hacc.keep src.contig src.ents hcomp E.c (Nat.le_refl _)) hh
      · -- the acknowledgement is new, or the event is this very step
        rcases hk with ⟨x, hx, hack, hfrm, hterm, hidx⟩ | ⟨h1, h2, h3⟩
        · have hx0 : x.index ≠ 0 := by omega
          have hxq : x ∈ st'.raft.msgs ∧ x ∉ stk.raft.msgs := by
            rcases hx with c | c
            · rw [hnet] at c
              exact absurd (.inl ⟨x, .inl c, hack, hfrm, hterm, hidx⟩) hold
            · exact ⟨c, fun d => hold (.inl ⟨x, .inr d, hack, hfrm, hterm, hidx⟩)⟩
          obtain ⟨_, f2, _, m, _, hm, hty, hmt, hcase⟩ :=
            fresh_ack2 H2 ha hb hka hkb hop hnc hns hpn hcall hxq.1 hxq.2 hack hx0
          obtain ⟨L, cL, src⟩ := app_src H S ha hm hty
          rcases hcase with ⟨hacc, hanc0, hxi⟩ | ⟨hl, hxi, _⟩
          · -- accepted: the new log is the sender's up to the end of the batch
            have hanc := anchor_eq H ha hka hm hty src hanc0
            have hag := hacc.agree src.contig src.ents hanc
            have hLh : Has L E.c E.t :=
              ll_has H2 S src.ll hE (by rw [hmt, hterm]; exact Nat.le_refl _)
                (fun _ => by have := src.last; omega)
            exact Has.of_eq (hag E.c (by omega)) hLh
          · -- the commit index was acknowledged: it is covered by a past event
            rw [hl]
            rcases Sa.nctm v stk hka with c | ⟨E0, hE0, hp0, hc1, _, hq0⟩
            · omega
            · have := ctf H2 S hE0 hE hp0 (by omega)
                (fun _ => ⟨L, by rw [← hterm, ← hmt]; exact src.ll⟩)
              exact hq0.has (by omega) this
        · have hne : E.nE = n := by
            apply Classical.byContradiction
            intro hne
            exact hold (.inr ⟨h1, by omega, h3⟩)
          obtain ⟨a', b', sta, stb, ha', hb', hla, hlb, _, _, _, _, hg, _⟩ := id hE
          rw [hne, hb] at hb'; cases hb'
          rw [← h1, hkb] at hlb; cases hlb
          have hev : EvF h c0 E = FL h c0 st' := by unfold EvF FL; rw [hg]
          rw [← hev]; exact hEh
    | psnap rnd hp hout hpend hnet =>
      have hne := not_ev_at hE ha hb hka hkb hoth (.inr (Nat.le_of_eq (persist_same hout).1))
      have hold := acked_back (a := a) (st := stk) (fun x hx => by rw [hnet] at hx; exact .inl hx)
        (fun x hx => by rw [hout.msgs] at hx; exact hx) hne hk
      rw [FL_same (persist_abs hout)]
      exact Sa.retm E hE v stk hka hold
    | snap rnd m hm hto hty hpn hout hnet =>
      cases hout with
      | skip hr =>
        have hne := not_ev_at hE ha hb hka hkb hoth (.inr (by rw [hr]; exact Nat.le_refl _))
        have hold := acked_back (a := a) (st := stk) (fun x hx => by rw [hnet] at hx; exact .inl hx)
          (fun x hx => by rw [hr] at hx; exact hx) hne hk
        rw [FL_same (st := stk) (by rw [hr])]
        exact Sa.retm E hE v stk hka hold
      | handled x hsf ht hle hid hq hack hxto hxfrm hxt hsto hcase =>
        have hne := not_ev_at hE ha hb hka hkb hoth (.inl (by rw [hsf]; intro hc; cases hc))
        have hmt := snap_term_ne_zero H2 ha hm hty
        have hmterm : m.term = st'.raft.term := by
          rcases ht with c | c
          · exact c
          · exact absurd c hmt
        by_cases hold : AckedMem a n E v stk
        · have hh := Sa.retm E hE v stk hka hold
          have hterm : E.t ≤ m.term := by
            have h1 := acked_term H2 ha hE hka hold
            omega
          cases hcase with
          | kept hu _ _ _ => rw [FL_same (abs_of_eq hsto hu)]; exact hh
          | ffwd hu _ _ _ _ _ _ => rw [FL_same (abs_of_eq hsto hu)]; exact hh
          | restored hle' hnm hu hc _ _ =>
            have hl : st'.raft.raftLog.abs = LLog.ofSnapshot m.snapshot := by
              rw [RaftLog.abs_some (sn := m.snapshot) (by rw [hu]; rfl), hu]; rfl
            obtain ⟨L, src, heq, _⟩ := restored_src H S ha hb hkb hm hty hl
            obtain ⟨ei, hei, heit⟩ := id src.has
            by_cases hci : E.c ≤ m.snapshot.metadata.index
            · have hLh := ll_has H2 S src.ll hE hterm
                (fun _ => Nat.le_trans hci (L.entryAt_lt hei).2)
              exact Has.of_eq (heq E.c hci) hLh
            · -- the node holds the sender's entry at the snapshot index: it would not have restored
              exfalso
              have hcomp := compat_has H2 S ha hka hE hh src.ll hterm
              have h1 := hcomp m.snapshot.metadata.index (by omega) ei hei
              rcases hnm with hnm | hnm
              · exact hnm (restore_nodrop H ha hka hpn src.hi hle' ⟨ei, h1, heit⟩)
              · -- a pending request: the log ends at or before the snapshot index
                obtain ⟨eh, heh, _⟩ := id hh
                have hb1 := ((FL h c0 stk).entryAt_lt heh).2
                rw [fl_last H2 ha hka, ← (node_ok H2 ha hka).inv.lastIndex_abs] at hb1
                omega
        · -- the acknowledgement is the one queued in this step
          rcases hk with ⟨y, hy, hacky, hyf, hyt, hyi⟩ | ⟨h1, h2, h3⟩
          · have hyx : y = x := by
              rcases hy with c | c
              · rw [hnet] at c
                exact absurd (.inl ⟨y, .inl c, hacky, hyf, hyt, hyi⟩) hold
              · rw [hq] at c
                rcases List.mem_append.1 c with d | d
                · exact absurd (.inl ⟨y, .inr d, hacky, hyf, hyt, hyi⟩) hold
                · exact List.mem_singleton.1 d
            subst hyx
            have hEt : E.t = m.term := by rw [← hyt, hxt, hmterm]
            cases hcase with
            | kept hu _ hc hx =>
              obtain ⟨L, src⟩ := snap_src H S ha hm hty
              rw [FL_same (abs_of_eq hsto hu)]
              exact commit_has H2 S ha hka hE (by rw [← hc, ← hx]; exact hyi)
                (by rw [hEt]; exact src.ll)
            | ffwd hu _ _ hc hmt' _ hx =>
              obtain ⟨L, src, heq⟩ := ffwd_src H S ha hka hm hty hmt'
              obtain ⟨ei, hei, _⟩ := id src.has
              rw [FL_same (abs_of_eq hsto hu)]
              have hci : E.c ≤ m.snapshot.metadata.index := by rw [← hc, ← hx]; exact hyi
              have hLh := ll_has H2 S src.ll hE (Nat.le_of_eq hEt)
                (fun _ => Nat.le_trans hci (L.entryAt_lt hei).2)
              exact Has.of_eq (heq E.c hci) hLh
            | restored _ _ hu _ _ hx =>
              have hl : st'.raft.raftLog.abs = LLog.ofSnapshot m.snapshot := by
                rw [RaftLog.abs_some (sn := m.snapshot) (by rw [hu]; rfl), hu]; rfl
              obtain ⟨L, src, heq, _⟩ := restored_src H S ha hb hkb hm hty hl
              obtain ⟨ei, hei, _⟩ := id src.has
              have hci : E.c ≤ m.snapshot.metadata.index := by rw [← hx]; exact hyi
              have hLh := ll_has H2 S src.ll hE (Nat.le_of_eq hEt)
                (fun _ => Nat.le_trans hci (L.entryAt_lt hei).2)
              exact Has.of_eq (heq E.c hci) hLh
          · exact absurd (.inr ⟨h1, by omega, h3⟩) hold
  · have hva : a.node v = some st' := by rw [← hoth v hvk]; exact hvb
    obtain ⟨o1, _, _⟩ := sm_other H2 ha hb Sa hka hs hvk hva
    have hne : E.nE ≠ n ∨ E.l ≠ v := by
      by_cases he : E.nE = n
      · right
        have := ev_at_step hE (by rw [he]; exact ha) (by rw [he]; exact hb) hoth
        rw [this]; exact fun hc => hvk hc.symm
      · exact .inl he
    refine Sa.retm E hE v st' hva ?_
    rcases hk with ⟨x, hx, hack, hfrm, hterm, hidx⟩ | ⟨h1, h2, h3⟩
    · exact .inl ⟨x, o1 x hx hack (by omega) hfrm, hack, hfrm, hterm, hidx⟩
    · rcases hne with c | c
      · exact .inr ⟨h1, by omega, h3⟩
      · exact absurd h1.symm c


/-- the snapshot point of a leader's log -/
theorem LeaderLog.snap (H : Hyp2w cfg c0 h) {N t : Nat} {L : LLog} (hL : LeaderLog h c0 N t L) :
    L.snapIdx = c0 := by
  obtain ⟨m, s, l, st, _, a2, a3, _, _, rfl⟩ := hL
  exact ((ghost_inv H m s a2).node l st a3).log.snap

/-- two leaders' logs that hold the same entry at `c` are equal up to `c` -/
theorem ll_eq_below (H : Hyp2w cfg c0 h) {N N' t t' : Nat} {L L' : LLog} (h1 : LeaderLog h c0 N t L)
    (h2 : LeaderLog h c0 N' t' L') {c τ : Nat} (hh : Has L c τ) (hh' : Has L' c τ) :
    EqUpTo L L' c := by
  obtain ⟨m, s, l, st, _, a2, a3, _, _, rfl⟩ := h1
  exact eq_ll H a2 a3 h2 hh hh'

/-- the promise of an acknowledgement of the commit index -/
theorem commit_promise (H : Hyp2w cfg c0 h) {n : Nat} (S : SAll h c0 n) {a : Sys}
    (ha : h[n]? = some a) {v : Nat} {stk : NState} (hka : a.node v = some stk) {x : Message}
    (hxi : x.index = stk.raft.raftLog.committed) (hidx : c0 < x.index)
    (hle : stk.raft.term ≤ x.term) {L : LLog} (hL : LeaderLog h c0 n x.term L) :
    Promise h c0 (n + 1) x (FL h c0 stk) := by
  have hLl : LeaderLog h c0 (n + 1) x.term L := hL.mono (Nat.le_succ _)
  rcases (S n a (Nat.le_refl _) ha).nctm v stk hka with c | ⟨E0, hE0, hp0, hc1, ht0, hq0⟩
  · omega
  · obtain ⟨hEl0, hEh0, _⟩ := Ev.leaderLog H hE0
    obtain ⟨e0, he0, _⟩ := id hEh0
    have hE0c : E0.c ≤ (EvF h c0 E0).lastIndex := ((EvF h c0 E0).entryAt_lt he0).2
    have ht0' : E0.t ≤ x.term := by omega
    by_cases hlt : E0.t < x.term
    · have hLh : Has L E0.c E0.t := ll_has H S hL hE0 (Nat.le_of_lt hlt) (fun hc => by omega)
      obtain ⟨eL, heL, _⟩ := id hLh
      have hLE := ll_eq_below H hL hEl0 hLh hEh0
      refine ⟨L, hLl, ?_, ?_⟩
      · rw [hxi]; exact Nat.le_trans hc1 (L.entryAt_lt heL).2
      · rw [hxi]
        exact hq0.trans ((hLE.mono hc1).symm)
    · have hteq : E0.t = x.term := by omega
      refine ⟨EvF h c0 E0, ?_, ?_, ?_⟩
      · rw [← hteq]; exact hEl0.mono (by omega)
      · rw [hxi]; omega
      · rw [hxi]; exact hq0

/-- an acknowledgement of a node that is around carries a term the node has reached -/
theorem ack_term_le (H : Hyp2w cfg c0 h) {n : Nat} {a : Sys} (ha : h[n]? = some a) {v : Nat}
    {st : NState} (hv : a.node v = some st) {x : Message} (hx : x ∈ a.net ∨ x ∈ st.raft.msgs)
    (hack : isAck x) (hfrm : x.frm = v) (hidx : x.index ≠ 0) : x.term ≤ st.raft.term := by
  obtain ⟨hq, hn⟩ := ack_inv H n a ha
  rcases hx with c | c
  · exact ((hn x c hack hidx).1 st (by rw [hfrm]; exact hv)).1
  · exact (hq v st hv x c hack hidx).2.1

theorem a2m_step (H : Hyp3a cfg c0 h) {n : Nat} (S : SAll h c0 n) {a b : Sys}
    (ha : h[n]? = some a) (hb : h[n + 1]? = some b) :
    ∀ v st', b.node v = some st' → ∀ x, (x ∈ b.net ∨ x ∈ st'.raft.msgs) → isAck x → x.frm = v →
      c0 < x.index → x.term = st'.raft.term → Promise h c0 (n + 1) x (FL h c0 st') := by
  intro v st' hvb x hx hack hfrm hidx hterm
  have H2 := H.toHyp2w
  have Sa := S n a (Nat.le_refl _) ha
  have hx0 : x.index ≠ 0 := by omega
  obtain ⟨k, stk, stk', hka, hkb, hoth, hs⟩ := H2.stp ha hb
  by_cases hvk : v = k
  · subst hvk
    rw [hkb] at hvb; cases hvb
    cases hs with
    | restart c rnd hboot hnet _ =>
      have hbt := CV.boot_booted c _ rnd st' hboot
      obtain ⟨_, habs, _⟩ := boot_log c _ rnd st' (node_ok H2 ha hka).inv.storeWF hboot
      have hxa : x ∈ a.net := by
        rcases hx with c | c
        · rw [hnet] at c; exact c
        · rw [hbt.msgs] at c; cases c
      rw [FL_restart habs]
      exact (Sa.a2s v stk hka x hxa hack hfrm hidx (by rw [hterm, hbt.term])).mono (Nat.le_succ _)
    | send hp hu hq hsame hnet _ =>
      have hxa : x ∈ a.net ∨ x ∈ stk.raft.msgs := by
        rcases hx with c | c
        · rw [hnet] at c; exact List.mem_append.1 c
        · rw [hq] at c; cases c
      rw [FL_same (st := stk) (by rw [hsame.1])]
      exact (Sa.a2m v stk hka x hxa hack hfrm hidx (by rw [hterm, hsame.2.1])).mono (Nat.le_succ _)
    | call rnd op res hop hnc hca hns hpn hss hcall hnet hpn' _ =>
      have hL := (call_facts H2 ha hka hop hnc hns hpn hcall).2.1
      by_cases hold : x ∈ a.net ∨ x ∈ stk.raft.msgs
      · have hle := ack_term_le H2 ha hka hold hack hfrm hx0
        have hteq : x.term = stk.raft.term := by have := hL.rt.le; omega
        obtain ⟨L1, hl1, hreach, heq⟩ := Sa.a2m v stk hka x hold hack hfrm hidx hteq
        refine ⟨L1, hl1.mono (Nat.le_succ _), hreach, ?_⟩
        cases fcall_step H2 ha hb hka hkb hop hnc hns hpn hcall with
        | same hl _ => exact fun j hj => (hl j).trans (heq j hj)
        | grew es hg hl _ =>
          intro j hj
          rw [← heq j hj]
          refine hl j ?_
          -- the old log reaches the acknowledged index
          obtain ⟨e, he⟩ := L1.entryAt_exists (i := x.index) (by rw [hl1.snap H2]; exact hidx) hreach
          rw [← heq x.index (Nat.le_refl _)] at he
          rw [← fl_last H2 ha hka]
          exact Nat.le_trans hj ((FL h c0 stk).entryAt_lt he).2
        | acc m hm hty hto hacc _ _ _ _ ht =>
          obtain ⟨L, cL, src⟩ := app_src H S ha hm hty
          have hmt : m.term = x.term := by
            rcases ht with c | c
            · rw [c, hterm]
            · exact absurd c src.tnz
          have hcomp : ∀ j, j ≤ x.index → ∀ e, L.entryAt j = some e →
              (FL h c0 stk).entryAt j = some e := by
            intro j hj e he
            rw [heq j hj, ← ll_eq H2 (by rw [← hmt]; exact src.ll) hl1 (L.entryAt_lt he).2
              (Nat.le_trans hj hreach)]
            exact he
          intro j hj
          rw [hacc.keep src.contig src.ents hcomp j hj]
          exact heq j hj
      · -- a fresh acknowledgement
        have hxq : x ∈ st'.raft.msgs ∧ x ∉ stk.raft.msgs := by
          rcases hx with c | c
          · rw [hnet] at c; exact absurd (.inl c) hold
          · exact ⟨c, fun d => hold (.inr d)⟩
        obtain ⟨_, _, _, m, _, hm, hty, hmt, hcase⟩ :=
          fresh_ack2 H2 ha hb hka hkb hop hnc hns hpn hcall hxq.1 hxq.2 hack hx0
        obtain ⟨L, cL, src⟩ := app_src H S ha hm hty
        have hLl : LeaderLog h c0 (n + 1) x.term L := by
          rw [← hmt]; exact src.ll.mono (Nat.le_succ _)
        rcases hcase with ⟨hacc, hanc0, hxi⟩ | ⟨hl, hxi, _⟩
        · have hanc := anchor_eq H ha hka hm hty src hanc0
          have hag := hacc.agree src.contig src.ents hanc
          exact ⟨L, hLl, by rw [hxi]; exact src.last, fun j hj => hag j (by omega)⟩
        · rw [hl]
          rcases Sa.nctm v stk hka with c | ⟨E0, hE0, hp0, hc1, ht0, hq0⟩
          · omega
          · obtain ⟨hEl0, hEh0, _⟩ := Ev.leaderLog H2 hE0
            obtain ⟨e0, he0, _⟩ := id hEh0
            have hE0c : E0.c ≤ (EvF h c0 E0).lastIndex := ((EvF h c0 E0).entryAt_lt he0).2
            have ht0' : E0.t ≤ x.term := by
              have := hL.rt.le; omega
            by_cases hlt : E0.t < x.term
            · -- the sender, leader of a later term, holds the event's entry
              have hLh : Has L E0.c E0.t :=
                ll_has H2 S (by rw [← hmt] at hlt ⊢; exact src.ll) hE0 (Nat.le_of_lt hlt)
                  (fun hc => by omega)
              obtain ⟨eL, heL, _⟩ := id hLh
              have hLE := ll_eq_below H2 src.ll hEl0 hLh hEh0
              refine ⟨L, hLl, ?_, ?_⟩
              · rw [hxi]; exact Nat.le_trans hc1 (L.entryAt_lt heL).2
              · rw [hxi]
                exact hq0.trans ((hLE.mono hc1).symm)
            · have hteq : E0.t = x.term := by omega
              refine ⟨EvF h c0 E0, ?_, ?_, ?_⟩
              · rw [← hteq]; exact hEl0.mono (by omega)
              · rw [hxi]; omega
              · rw [hxi]; exact hq0
    | psnap rnd hp hout hpend hnet =>
      have hxa : x ∈ a.net ∨ x ∈ stk.raft.msgs := by
        rcases hx with c | c
        · rw [hnet] at c; exact .inl c
        · rw [hout.msgs] at c; exact .inr c
      rw [FL_same (persist_abs hout)]
      exact (Sa.a2m v stk hka x hxa hack hfrm hidx (by rw [hterm, (persist_same hout).2.1])).mono
        (Nat.le_succ _)
    | snap rnd m hm hto hty hpn hout hnet =>
      cases hout with
      | skip hr =>
        have hxa : x ∈ a.net ∨ x ∈ stk.raft.msgs := by
          rcases hx with c | c
          · rw [hnet] at c; exact .inl c
          · rw [hr] at c; exact .inr c
        rw [FL_same (st := stk) (by rw [hr])]
        exact (Sa.a2m v stk hka x hxa hack hfrm hidx (by rw [hterm, hr])).mono (Nat.le_succ _)
      | handled y hsf ht hle hid hq hacky hyto hyfrm hyt hsto hcase =>
        have hmt := snap_term_ne_zero H2 ha hm hty
        have hmterm : m.term = st'.raft.term := by
          rcases ht with c | c
          · exact c
          · exact absurd c hmt
        by_cases hold : x ∈ a.net ∨ x ∈ stk.raft.msgs
        · -- an acknowledgement that was around: the node was in that term already
          have hle' := ack_term_le H2 ha hka hold hack hfrm hx0
          have hteq : x.term = stk.raft.term := by omega
          obtain ⟨L1, hl1, hreach, heq1⟩ := Sa.a2m v stk hka x hold hack hfrm hidx hteq
          cases hcase with
          | kept hu _ _ _ =>
            rw [FL_same (abs_of_eq hsto hu)]
            exact ⟨L1, hl1.mono (Nat.le_succ _), hreach, heq1⟩
          | ffwd hu _ _ _ _ _ _ =>
            rw [FL_same (abs_of_eq hsto hu)]
            exact ⟨L1, hl1.mono (Nat.le_succ _), hreach, heq1⟩
          | restored hlec hnm hu hc _ _ =>
            have hl : st'.raft.raftLog.abs = LLog.ofSnapshot m.snapshot := by
              rw [RaftLog.abs_some (sn := m.snapshot) (by rw [hu]; rfl), hu]; rfl
            obtain ⟨L, src, heq, _⟩ := restored_src H S ha hb hkb hm hty hl
            obtain ⟨ei, hei, heit⟩ := id src.has
            have hiL := (L.entryAt_lt hei).2
            have hsame : LeaderLog h c0 n x.term L := by rw [hterm, ← hmterm]; exact src.ll
            by_cases hci : x.index ≤ m.snapshot.metadata.index
            · refine ⟨L1, hl1.mono (Nat.le_succ _), hreach, fun j hj => ?_⟩
              rw [heq j (by omega)]
              exact ll_eq H2 hsame hl1 (by omega) (by omega)
            · -- the node holds the sender's entry at the snapshot index: it would not have restored
              exfalso
              have h1 : (FL h c0 stk).entryAt m.snapshot.metadata.index = some ei := by
                rw [heq1 _ (by omega), ← ll_eq H2 hsame hl1 hiL (by omega)]
                exact hei
              rcases hnm with hnm | hnm
              · exact hnm (restore_nodrop H ha hka hpn src.hi hlec ⟨ei, h1, heit⟩)
              · -- a pending request: the log ends at or before the snapshot index
                obtain ⟨m1, s1, l1, st1, _, hs1, hl1', _, _, rfl⟩ := hl1
                have hF := ((ghost_inv H2 m1 s1 hs1).node l1 st1 hl1').log
                obtain ⟨e1, he1⟩ := hF.exists_entry (k := x.index) hidx
                  (by rw [← hF.last]; exact hreach)
                have h2 : (FL h c0 stk).entryAt x.index = some e1 := by
                  rw [heq1 _ (Nat.le_refl _)]; exact he1
                have hb1 := ((FL h c0 stk).entryAt_lt h2).2
                rw [fl_last H2 ha hka, ← (node_ok H2 ha hka).inv.lastIndex_abs] at hb1
                omega
        · -- the acknowledgement queued in this step
          have hxy : x = y := by
            rcases hx with c | c
            · rw [hnet] at c; exact absurd (.inl c) hold
            · rw [hq] at c
              rcases List.mem_append.1 c with d | d
              · exact absurd (.inr d) hold
              · exact List.mem_singleton.1 d
          subst hxy
          cases hcase with
          | kept hu _ hc hxi =>
            obtain ⟨L, src⟩ := snap_src H S ha hm hty
            rw [FL_same (abs_of_eq hsto hu)]
            exact commit_promise H2 S ha hka (by rw [hxi, hc]) hidx (by rw [hterm]; exact hle)
              (by rw [hterm, ← hmterm]; exact src.ll)
          | ffwd hu _ _ hc hmt' _ hxi =>
            obtain ⟨L, src, heq⟩ := ffwd_src H S ha hka hm hty hmt'
            obtain ⟨ei, hei, _⟩ := id src.has
            rw [FL_same (abs_of_eq hsto hu)]
            refine ⟨L, by rw [hterm, ← hmterm]; exact src.ll.mono (Nat.le_succ _), ?_, ?_⟩
            · rw [hxi, hc]; exact (L.entryAt_lt hei).2
            · rw [hxi, hc]; exact heq
          | restored _ _ hu _ _ hxi =>
            have hl : st'.raft.raftLog.abs = LLog.ofSnapshot m.snapshot := by
              rw [RaftLog.abs_some (sn := m.snapshot) (by rw [hu]; rfl), hu]; rfl
            obtain ⟨L, src, heq, _⟩ := restored_src H S ha hb hkb hm hty hl
            obtain ⟨ei, hei, _⟩ := id src.has
            refine ⟨L, by rw [hterm, ← hmterm]; exact src.ll.mono (Nat.le_succ _), ?_, ?_⟩
            · rw [hxi]; exact (L.entryAt_lt hei).2
            · rw [hxi]; exact heq
  · have hva : a.node v = some st' := by rw [← hoth v hvk]; exact hvb
    obtain ⟨o1, _, _⟩ := sm_other H2 ha hb Sa hka hs hvk hva
    exact (Sa.a2m v st' hva x (o1 x hx hack hx0 hfrm) hack hfrm hidx hterm).mono (Nat.le_succ _)



end Snap5
end Cluster
end RaftModel
