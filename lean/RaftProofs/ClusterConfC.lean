import RaftProofs.ClusterConfB

/-!
C09 at the cluster level, helper lemmas part C: the tracker view `prs.toCC` through the remaining
`Raft` methods a node's calls use, through EVERY `NodeOp` (`call_conf`), and after `RawNode::new`
(`boot_conf`).
-/
namespace RaftModel
namespace Raft
open VoteOb Node

theorem ping_tc {a r r' : Raft} (h : r.ping = .ok r') (h0 : TC a r) : TC a r' := by
  unfold Raft.ping at h
  tc_auto h [bcastHeartbeat_tc]

theorem requestSnapshot_tc {a r r' : Raft} {e : Option RaftError}
    (h : r.requestSnapshot = .ok (r', e)) (h0 : TC a r) : TC a r' := by
  unfold Raft.requestSnapshot at h
  tc_auto h [sendRequestSnapshot_tc]

theorem onPersistEntries_tc {a r r' : Raft} {index term : Nat}
    (h : r.onPersistEntries index term = .ok r') (h0 : TC a r) : TC a r' := by
  unfold Raft.onPersistEntries at h
  tc_auto h [maybeCommit_tc, bcastAppend_tc]

theorem onPersistSnap_tc {a r r' : Raft} {index : Nat}
    (h : r.onPersistSnap index = .ok r') (h0 : TC a r) : TC a r' := by
  unfold Raft.onPersistSnap at h
  tc_auto h [TC.rfl]

theorem commitApplyInternal_tc {a r r' : Raft} {applied : Nat} {skip : Bool}
    (h : r.commitApplyInternal applied skip = .ok r') (h0 : TC a r) : TC a r' := by
  unfold Raft.commitApplyInternal at h
  simp only [] at h
  split at h
  · cases h
  · cases h
  · split at h
    · split at h
      · rename_i r2 happ
        cases h
        exact TC.mk' (appendEntry_tc happ (TC.mk' h0))
      · cases h
      · cases h
      · cases h
    · cases h; exact TC.mk' h0

theorem commitApply_tc {a r r' : Raft} {applied : Nat}
    (h : r.commitApply applied = .ok r') (h0 : TC a r) : TC a r' := by
  unfold Raft.commitApply at h
  exact commitApplyInternal_tc h h0

theorem reduceUncommittedSize_tc {a r : Raft} (ents : List Entry) (h0 : TC a r) :
    TC a (r.reduceUncommittedSize ents) := by
  unfold Raft.reduceUncommittedSize
  split
  · exact h0
  · exact TC.mk' h0

theorem adjustMaxInflightMsgs_tc {a r r' : Raft} {t c : Nat}
    (h : r.adjustMaxInflightMsgs t c = .ok r') (h0 : TC a r) : TC a r' := by
  unfold Raft.adjustMaxInflightMsgs at h
  tc_auto h [TC.rfl]

theorem commitThenBcast_tc {a r r' : Raft}
    (h : (match r.maybeCommit with
      | .ok (r, true) => r.bcastAppend
      | .ok (r, false) => .ok r
      | .err e => .err e
      | .panic s => .panic s) = .ok r') (h0 : TC a r) : TC a r' := by
  tc_auto h [maybeCommit_tc, bcastAppend_tc]

theorem enableGroupCommit_tc {a r r' : Raft} {b : Bool}
    (h : r.enableGroupCommit b = .ok r') (h0 : TC a r) : TC a r' := by
  unfold Raft.enableGroupCommit at h
  simp only [] at h
  have h1 : TC a ({ r with prs := { r.prs with groupCommit := b } } : Raft) := TC.prs rfl rfl h0
  split at h
  · exact commitThenBcast_tc h h1
  · cases h; exact h1

theorem assignCommitGroups_tc {a r r' : Raft} {ids : List (Nat × Nat)}
    (h : r.assignCommitGroups ids = .ok r') (h0 : TC a r) : TC a r' := by
  unfold Raft.assignCommitGroups at h
  simp only [] at h
  rw [Res.bind_eq_ok_iff] at h
  obtain ⟨r1, hf, h⟩ := h
  have h1 : TC a r1 := by
    refine foldl_tc _ ?_ _ _ hf (by intro r2 e; cases e; exact h0)
    intro acc p r2 h2
    cases acc with
    | err e => cases h2
    | panic s => cases h2
    | ok r0 =>
      refine ⟨r0, rfl, fun h0 => ?_⟩
      change (if p.2 = 0 then Res.panic _ else _) = _ at h2
      split at h2
      · cases h2
      · cases h2; exact TC.modify _ _ h0
  split at h
  · exact commitThenBcast_tc h h1
  · cases h; exact h1

/-- `RawNode::step`: the filter for local messages and unknown peers, then `Raft::step` -/
theorem rawStep_tc {a r r' : Raft} {m : Message} {e : Option RaftError}
    (h : RawNode.step r m = .ok (r', e)) (h0 : TC a r) : TCS a m r' := by
  unfold RawNode.step at h
  split at h
  · cases h; exact .inl h0
  · split at h
    · exact step_tc h h0
    · cases h; exact .inl h0

/-- what a call does to the tracker view: `apply_conf_change` runs the changer (`C12.step` = run the
changer's method for the change; on success `apply_conf`, on error nothing); a stepped `MsgSnapshot` may
restore the snapshot's `ConfState`; EVERY other call keeps it -/
def CallConf (st st' : NState) : NodeOp → Prop
  | .applyConfChange cc =>
    st'.raft.prs.toCC = RaftProps.C12.step st.raft.prs.toCC (RaftProps.C09.opOf cc)
  | .step m => TCS st.raft m st'.raft
  | .rstep m => TCS st.raft m st'.raft
  | _ => TC st.raft st'.raft

theorem call_conf (st st' : NState) (rnd : Option Nat) (op : NodeOp) (res : OpRes)
    (h : Node.call st rnd op = .ok (res, st')) : CallConf st st' op := by
  unfold Node.call at h
  have hrefl : TC st.raft ({ st.raft with nextRand := rnd } : Raft) := TC.mk' TC.rfl
  cases op with
  | tick =>
    simp only [applyOp] at h
    split at h
    · rename_i raft b heq
      cases h
      exact tick_tc heq hrefl
    · cases h
    · cases h
  | step m =>
    simp only [applyOp] at h
    obtain ⟨raft, e, hx, hr⟩ := CV.unitRes_ok h
    show TCS _ _ _
    rw [hr]
    exact rawStep_tc hx hrefl
  | rstep m =>
    simp only [applyOp] at h
    obtain ⟨raft, e, hx, hr⟩ := CV.unitRes_ok h
    show TCS _ _ _
    rw [hr]
    exact step_tc hx hrefl
  | propose c d =>
    simp only [applyOp] at h
    obtain ⟨raft, e, hx, hr⟩ := CV.unitRes_ok h
    show TC _ _
    rw [hr]
    exact step_tc_other (by simp) hx hrefl
  | proposeCc t c d =>
    simp only [applyOp] at h
    obtain ⟨raft, e, hx, hr⟩ := CV.unitRes_ok h
    show TC _ _
    rw [hr]
    exact step_tc_other (by simp) hx hrefl
  | readIndex c =>
    simp only [applyOp] at h
    obtain ⟨raft, hx, hr⟩ := CV.okRes_ok h
    show TC _ _
    rw [hr]
    exact stepIgnore_tc (by simp) hx hrefl
  | transferLeader x =>
    simp only [applyOp] at h
    obtain ⟨raft, hx, hr⟩ := CV.okRes_ok h
    show TC _ _
    rw [hr]
    exact stepIgnore_tc (by simp) hx hrefl
  | campaign =>
    simp only [applyOp] at h
    obtain ⟨raft, e, hx, hr⟩ := CV.unitRes_ok h
    show TC _ _
    rw [hr]
    exact step_tc_other (by simp) hx hrefl
  | ping =>
    simp only [applyOp] at h
    obtain ⟨raft, hx, hr⟩ := CV.okRes_ok h
    show TC _ _
    rw [hr]
    exact ping_tc hx hrefl
  | requestSnapshot =>
    simp only [applyOp] at h
    obtain ⟨raft, e, hx, hr⟩ := CV.unitRes_ok h
    show TC _ _
    rw [hr]
    exact requestSnapshot_tc hx hrefl
  | reportUnreachable x =>
    simp only [applyOp] at h
    obtain ⟨raft, hx, hr⟩ := CV.okRes_ok h
    show TC _ _
    rw [hr]
    exact stepIgnore_tc (by simp) hx hrefl
  | reportSnapshot x f =>
    simp only [applyOp] at h
    obtain ⟨raft, hx, hr⟩ := CV.okRes_ok h
    show TC _ _
    rw [hr]
    exact stepIgnore_tc (by simp) hx hrefl
  | applyConfChange cc =>
    simp only [applyOp] at h
    show _ = _
    split at h
    · rename_i raft cs heq
      cases h
      exact RaftProps.C09.C09_apply_conf_change_step
        ({ st.raft with nextRand := rnd } : Raft) raft cc _ heq
    · rename_i raft e heq
      cases h
      exact RaftProps.C09.C09_apply_conf_change_step
        ({ st.raft with nextRand := rnd } : Raft) raft cc _ heq
    · cases h
    · cases h
  | stabilize =>
    simp only [applyOp, Node.stabilize] at h
    split at h
    · cases h; exact TC.mk' hrefl
    · cases h
    · cases h
  | onPersistEntries i t =>
    simp only [applyOp] at h
    obtain ⟨raft, hx, hr⟩ := CV.okRes_ok h
    show TC _ _
    rw [hr]
    exact onPersistEntries_tc hx hrefl
  | persistSnap =>
    simp only [applyOp, Node.persistSnap] at h
    split at h
    · cases h; exact hrefl
    · split at h
      · cases h; exact hrefl
      · cases h
      · split at h
        · cases h
        · cases h
        · split at h
          · rename_i raft hop
            cases h
            exact onPersistSnap_tc hop (TC.mk' hrefl)
          · cases h
          · cases h
  | commitApply k =>
    simp only [applyOp, Node.commitApply] at h
    split at h
    · rename_i r2 hb
      rw [Res.bind_eq_ok_iff] at hb
      obtain ⟨r1, h1, h2⟩ := hb
      have hv1 : TC st.raft r1 := by
        split at h1
        · split at h1
          · cases h1; exact reduceUncommittedSize_tc _ hrefl
          · cases h1; exact hrefl
          · cases h1
        · cases h1; exact hrefl
      have hv2 : TC st.raft r2 := commitApply_tc h2 hv1
      cases h
      show TC _ _
      split
      · exact TC.mk' hv2
      · exact hv2
    · cases h
    · cases h
  | compact k =>
    simp only [applyOp] at h
    split at h
    · cases h; exact TC.mk' hrefl
    · cases h
    · cases h
  | drain =>
    simp only [applyOp] at h
    cases h
    exact TC.mk' hrefl
  | triggerSnap =>
    simp only [applyOp] at h
    cases h
    exact TC.mk' hrefl
  | triggerLog b =>
    simp only [applyOp] at h
    cases h
    exact TC.mk' hrefl
  | setPriority p =>
    simp only [applyOp] at h
    cases h
    exact TC.mk' hrefl
  | setBatchAppend b =>
    simp only [applyOp] at h
    cases h
    exact TC.mk' hrefl
  | skipBcastCommit b =>
    simp only [applyOp] at h
    cases h
    exact TC.mk' hrefl
  | setCheckQuorum b =>
    simp only [applyOp] at h
    cases h
    exact TC.mk' hrefl
  | adjustMaxInflight id cap =>
    simp only [applyOp] at h
    obtain ⟨raft, hx, hr⟩ := CV.okRes_ok h
    show TC _ _
    rw [hr]
    exact adjustMaxInflightMsgs_tc hx hrefl
  | maybeFreeInflightBuffers =>
    simp only [applyOp] at h
    cases h
    exact TC.map _ hrefl
  | enableGroupCommit b =>
    simp only [applyOp] at h
    obtain ⟨raft, hx, hr⟩ := CV.okRes_ok h
    show TC _ _
    rw [hr]
    exact enableGroupCommit_tc hx hrefl
  | assignCommitGroups v =>
    simp only [applyOp] at h
    obtain ⟨raft, hx, hr⟩ := CV.okRes_ok h
    show TC _ _
    rw [hr]
    exact assignCommitGroups_tc hx hrefl
  | clearCommitGroup =>
    simp only [applyOp] at h
    cases h
    exact TC.map _ hrefl
  | checkGroupCommitConsistent =>
    simp only [applyOp] at h
    split at h
    · cases h; exact hrefl
    · cases h; exact hrefl
    · cases h
    · cases h
  | setMaxApplyUnpersistedLogLimit x =>
    simp only [applyOp] at h
    cases h
    exact TC.mk' hrefl
  | setMaxCommittedSizePerReady x =>
    simp only [applyOp] at h
    cases h
    exact TC.mk' hrefl
  | onEntriesFetched to term aggr =>
    rcases CV.onEntriesFetched_ok h with h | ⟨-, -, -, raft, hx, h⟩
    · cases h; exact hrefl
    · cases h
      rcases hx with hx | hx
      · exact sendAppendAggressively_tc hx hrefl
      · exact sendAppend_tc hx hrefl

/-- **`RawNode::new`**: the tracker view of a freshly built node is `confchange::restore` of the
stored `ConfState` on the empty tracker -/
theorem raftNew_conf (c : Config) (store : MemStorage) (rnd : Option Nat) (r : Raft)
    (h : Raft.new c store rnd = .ok (.ok r)) : ConfRestored store.confState r := by
  unfold Raft.new at h
  split at h
  · cases h
  · dsimp only at h
    split at h
    · cases h
    · cases h
    · rename_i log hnew
      split at h
      · cases h
      · rename_i prs hprs
        rw [Res.bind_eq_ok_iff] at h
        obtain ⟨⟨r1, cs1⟩, hpc, h⟩ := h
        have h1 := (postConfChange_tc hpc TC.rfl).1
        have h2 := RaftProps.C09.C09_restore_is_restore (ProgressTracker.new c.maxInflightMsgs)
          log.lastIndex store.confState
        have hprs' : (ProgressTracker.new c.maxInflightMsgs).restore log.lastIndex store.confState
            = .ok prs := hprs
        rw [hprs'] at h2
        simp only [] at h2
        have h3 : ConfRestored store.confState r1 := by
          unfold ConfRestored
          unfold TC at h1
          rw [h1]
          exact h2.symm
        simp only [] at h
        split at h
        · cases h
        · rw [Res.bind_eq_ok_iff] at h
          obtain ⟨b, hb, h⟩ := h
          have h4 : TC r1 b := by
            split at hb
            · unfold Raft.loadState at hb
              split at hb
              · cases hb
              · cases hb; exact TC.mk' TC.rfl
            · cases hb; exact TC.rfl
          rw [Res.bind_eq_ok_iff] at h
          obtain ⟨d, hd, h⟩ := h
          have h5 : TC b d := by
            split at hd
            · exact commitApplyInternal_tc hd TC.rfl
            · cases hd; exact TC.rfl
          cases h
          exact h3.of_tc (becomeFollower_tc _ _ (h4.trans h5))

theorem boot_conf (c : Config) (store : MemStorage) (rnd : Option Nat) (st : NState)
    (h : Node.boot c store rnd = .ok (.ok st)) : ConfRestored store.confState st.raft := by
  unfold Node.boot at h
  split at h
  · rename_i raft hn
    cases h
    unfold RawNode.new at hn
    split at hn
    · cases hn
    · exact raftNew_conf c store rnd raft hn
  · cases h
  · cases h
  · cases h

end Raft
end RaftModel
