import RaftProofs.ClusterCommit5E

/-! Commit layer without `batch_append = false`, part F: `step_follower`, `step_candidate`, the term gate, `Raft::step` and `tick` (copy of `ClusterCommitK/L`). -/
namespace RaftModel
namespace Raft
namespace CB
open CC VoteOb


/-- forwarding a message to the leader -/
theorem forward_gb {A : Nat → Nat → Nat → Prop} {a r r' : Raft} {m x : Message}
    (h : r.send x = .ok r') (h0 : Gb A a m r)
    (hx : x.msgType = .msgPropose ∨ x.msgType = .msgTransferLeader ∨ x.msgType = .msgReadIndex) :
    Gb A a m r' := by
  rcases hx with g | g | g <;>
    exact send_g_plain h h0 (by rw [g]; rfl) (.inl (by rw [g]; intro hc; cases hc)) (by rw [g]; rfl)

/-- **`step_follower`**, entered with nothing queued and the commit index of the start; the input is
not a snapshot -/
theorem stepFollower_gb {A : Nat → Nat → Nat → Prop} {a r r' : Raft} {m : Message}
    {e : Option RaftError}
    (hA : ∀ j t x y, y ≤ x → A j t x → A j t y)
    (hs : r.state = .follower) (ho : Old a r) (hcm : r.raftLog.committed = a.raftLog.committed)
    (hms : m.msgType ≠ .msgSnapshot)
    (h : r.stepFollower m = .ok (r', e)) (h0 : Gb A a m r) : Gb A a m r' := by
  unfold Raft.stepFollower at h
  split at h
  · -- propose
    split at h
    · cases h; exact h0
    · split at h
      · cases h; exact h0
      · obtain ⟨r1, h1, h⟩ := Res.bind_eq_ok h
        cases h
        rename_i hty _ _
        exact forward_gb h1 h0 (.inl hty)
  · -- append
    obtain ⟨r1, h1, h⟩ := Res.bind_eq_ok h
    cases h
    rename_i hty
    exact handleAppendEntries_gb (r := { r with electionElapsed := 0, leaderId := m.frm }) hs
      (Old.mk' ho) hty h1 (Gb.mk' h0)
  · obtain ⟨r1, h1, h⟩ := Res.bind_eq_ok h
    cases h
    exact handleHeartbeat_gb (r := { r with electionElapsed := 0, leaderId := m.frm }) hs
      (Old.mk' ho) h1 (Gb.mk' h0)
  · rename_i hty; exact absurd hty hms
  · split at h
    · cases h; exact h0
    · obtain ⟨r1, h1, h⟩ := Res.bind_eq_ok h
      cases h
      rename_i hty _
      exact forward_gb h1 h0 (.inr (.inl hty))
  · split at h
    · obtain ⟨r1, h1, h⟩ := Res.bind_eq_ok h
      cases h
      exact hup_gb hA h1 h0 ho hcm
    · cases h; exact h0
  · split at h
    · cases h; exact h0
    · obtain ⟨r1, h1, h⟩ := Res.bind_eq_ok h
      cases h
      rename_i hty _
      exact forward_gb h1 h0 (.inr (.inr hty))
  · -- read index response
    split at h
    · simp only [] at h
      split at h
      · rename_i log b hmc
        cases h
        have g0 : Gb A a m ({ r with readStates := r.readStates ++
            [{ index := m.index, requestCtx := (by assumption : Entry).data }] } : Raft) := Gb.mk' h0
        rcases RaftLog.c04_maybeCommit_spec hmc with ⟨_, hlt, _, _, hl⟩ | ⟨_, hl⟩
        · exact g0.commitUp rfl rfl rfl rfl rfl hl (Nat.le_of_lt hlt)
            (fun hc => by rw [show ({ r with readStates := _, raftLog := log } : Raft).state = r.state
              from rfl, hs] at hc; cases hc)
        · rw [hl]; exact g0
      · cases h
      · cases h
    · cases h; exact h0
  · cases h; exact h0

/-- **`step_candidate`**, entered with nothing queued and the commit index of the start -/
theorem stepCandidate_gb {A : Nat → Nat → Nat → Prop} {a r r' : Raft} {m : Message}
    {e : Option RaftError}
    (hA : ∀ j t x y, y ≤ x → A j t x → A j t y)
    (ho : Old a r) (hcm : r.raftLog.committed = a.raftLog.committed)
    (hms : m.msgType ≠ .msgSnapshot)
    (h : r.stepCandidate m = .ok (r', e)) (h0 : Gb A a m r) : Gb A a m r' := by
  have hfol : ∀ t l, Gb A a m (r.becomeFollower t l) ∧ (r.becomeFollower t l).state = .follower ∧
      Old a (r.becomeFollower t l) :=
    fun t l => ⟨becomeFollower_gb t l h0 ho, (RaftProps.C16.becomeFollower_proj r t l).1,
      ho.becomeFollower t l⟩
  unfold Raft.stepCandidate at h
  split at h
  · cases h; exact h0
  · split at h
    · cases h
    · obtain ⟨r1, h1, h⟩ := Res.bind_eq_ok h
      cases h
      rename_i hty _
      obtain ⟨g1, g2, g3⟩ := hfol m.term m.frm
      exact handleAppendEntries_gb g2 g3 hty h1 g1
  · split at h
    · cases h
    · obtain ⟨r1, h1, h⟩ := Res.bind_eq_ok h
      cases h
      obtain ⟨g1, g2, g3⟩ := hfol m.term m.frm
      exact handleHeartbeat_gb g2 g3 h1 g1
  · rename_i hty; exact absurd hty hms
  · split at h
    · cases h; exact h0
    · split at h
      · cases h; exact h0
      · obtain ⟨⟨r1, res⟩, h1, h⟩ := Res.bind_eq_ok h
        obtain ⟨r2, h2, h⟩ := Res.bind_eq_ok h
        cases h
        exact maybeCommitByVote_gb h2 (poll_ok hA _ _ _ _ _ _ h1 h0 ho hcm).1
  · split at h
    · cases h; exact h0
    · split at h
      · cases h; exact h0
      · obtain ⟨⟨r1, res⟩, h1, h⟩ := Res.bind_eq_ok h
        obtain ⟨r2, h2, h⟩ := Res.bind_eq_ok h
        cases h
        exact maybeCommitByVote_gb h2 (poll_ok hA _ _ _ _ _ _ h1 h0 ho hcm).1
  · cases h; exact h0

/-- the term preamble: the dispatch runs on a state with nothing queued; a consumed message leaves at
most a reply that claims nothing -/
theorem stepTerm_gb {A : Nat → Nat → Nat → Prop} {a r r1 : Raft} {m : Message} {b : Bool}
    (h : r.stepTerm m = .ok (r1, b)) (h0 : Gb A a m r) (ho : Old a r) :
    Gb A a m r1 ∧ (b = true → Old a r1) := by
  unfold Raft.stepTerm at h
  split at h
  · cases h; exact ⟨h0, fun _ => ho⟩
  · split at h
    · simp only at h
      split at h
      · cases h; exact ⟨h0, fun hc => by cases hc⟩
      · split at h
        · cases h; exact ⟨h0, fun _ => ho⟩
        · split at h
          · cases h; exact ⟨becomeFollower_gb _ _ h0 ho, fun _ => ho.becomeFollower _ _⟩
          · cases h; exact ⟨becomeFollower_gb _ _ h0 ho, fun _ => ho.becomeFollower _ _⟩
    · split at h
      · split at h
        · split at h
          · rename_i r2 hs
            cases h
            refine ⟨send_gb hs h0 rfl (fun _ => ?_) (fun hc => by cases hc) (fun hc => by cases hc),
              fun hc => by cases hc⟩
            exact akok_of_fill r _ rfl rfl (.inl rfl)
          · cases h
          · cases h
        · split at h
          · split at h
            · rename_i r2 hs
              cases h
              refine ⟨send_gb hs h0 rfl (fun hc => ?_) (fun _ => ?_) (fun hc => by cases hc),
                fun hc => by cases hc⟩
              · have := hc.1; rw [sendFill_msgType] at this; cases this
              · left; exact (sendFill_vote r _ rfl).1
            · cases h
            · cases h
          · cases h; exact ⟨h0, fun hc => by cases hc⟩
      · cases h; exact ⟨h0, fun _ => ho⟩

theorem Gb.reanchor {A : Nat → Nat → Nat → Prop} {a r : Raft} {m m' : Message} (h : Gb A a m r)
    (hm : m.msgType ≠ .msgAppend) : Gb A a m' r :=
  ⟨h.id, h.mok, h.lc, h.qlk, fun x hx hty => (h.qak x hx hty).imp (fun g => g) (fun g =>
    ⟨g.term, g.frm, g.src.elim .inl (fun d => absurd d.2.1 hm)⟩), h.qvk, h.qrq⟩

/-- **`Raft::step`**, entered with nothing queued; the input is not a snapshot, and an accepting
append response is backed by `A` -/
theorem step_gb {A : Nat → Nat → Nat → Prop} {a r r' : Raft} {m : Message} {e : Option RaftError}
    (hA : ∀ j t x y, y ≤ x → A j t x → A j t y)
    (hms : m.msgType ≠ .msgSnapshot) (hin : ∀ t, AckIn m t → A m.frm t m.index)
    (h : r.step m = .ok (r', e)) (h0 : Gb A a m r) (ho : Old a r)
    (hcm : r.raftLog.committed = a.raftLog.committed) : Gb A a m r' := by
  unfold Raft.step at h
  split at h
  · cases h
  · cases h
  · rename_i r1 hst
    cases h
    exact (stepTerm_gb hst h0 ho).1
  · rename_i r1 hst
    obtain ⟨g1, o1⟩ := stepTerm_gb hst h0 ho
    have o1 := o1 rfl
    have c1 : r1.raftLog.committed = a.raftLog.committed :=
      (stepTerm_cp (P := fun x => x = a.raftLog.committed) hst ⟨hcm⟩).h
    split at h
    · obtain ⟨r2, h2, h⟩ := Res.bind_eq_ok h
      cases h
      exact hup_gb hA h2 g1 o1 c1
    · split at h
      · cases h; rename_i r2 hv; exact stepVote_gb hv g1
      · cases h
      · cases h
    · split at h
      · cases h; rename_i r2 hv; exact stepVote_gb hv g1
      · cases h
      · cases h
    · split at h
      · exact stepCandidate_gb hA o1 c1 hms h g1
      · exact stepCandidate_gb hA o1 c1 hms h g1
      · rename_i hs; exact stepFollower_gb hA hs o1 c1 hms h g1
      · rename_i hs
        refine stepLeader_gb hA hs o1 c1 (fun hty hrej => ?_) h g1
        exact hin _ ⟨hty, hrej, stepTerm_ack_term hst hty⟩

theorem stepIgnore_gb {A : Nat → Nat → Nat → Prop} {a r r' : Raft} {m : Message}
    (hA : ∀ j t x y, y ≤ x → A j t x → A j t y)
    (hms : m.msgType ≠ .msgSnapshot) (hin : ∀ t, AckIn m t → A m.frm t m.index)
    (h : r.stepIgnore m = .ok r') (h0 : Gb A a m r) (ho : Old a r)
    (hcm : r.raftLog.committed = a.raftLog.committed) : Gb A a m r' := by
  unfold Raft.stepIgnore at h
  obtain ⟨⟨r1, e⟩, h1, h⟩ := Res.bind_eq_ok h
  cases h
  exact step_gb hA hms hin h1 h0 ho hcm

theorem tick_gb {A : Nat → Nat → Nat → Prop} {r r' : Raft} {m : Message} {b : Bool}
    (hA : ∀ j t x y, y ≤ x → A j t x → A j t y)
    (hmok : MOK A r) (h : r.tick = .ok (r', b)) : Gb A r m r' := by
  unfold Raft.tick at h
  have elect : r.tickElection = .ok (r', b) → Gb A r m r' := by
    intro h
    unfold Raft.tickElection at h
    simp only [] at h
    split at h
    · cases h; exact Gb.mk' (Gb.start hmok)
    · obtain ⟨r1, h1, h⟩ := Res.bind_eq_ok h
      cases h
      have g := stepIgnore_gb (a := r) hA (r := { r with electionElapsed := 0 })
        (by intro hc; cases hc) (noAck_local (by intro hc; cases hc)) h1
        (Gb.mk' (Gb.start hmok)) (Old.mk' Old.rfl) rfl
      exact g.reanchor (by intro hc; cases hc)
  split at h
  · exact elect h
  · exact elect h
  · exact elect h
  · rename_i hs
    unfold Raft.tickHeartbeat at h
    simp only [] at h
    obtain ⟨⟨r1, b1⟩, h1, h⟩ := Res.bind_eq_ok h
    -- after the check-quorum part
    have key : Gb A r (newMessage 0 .msgBeat (some r.id)) r1 ∧ Old r r1 ∧
        r1.raftLog.committed = r.raftLog.committed := by
      split at h1
      · obtain ⟨⟨r2, b2⟩, h2, h1⟩ := Res.bind_eq_ok h1
        have k2 : Gb A r (newMessage 0 .msgBeat (some r.id)) r2 ∧ Old r r2 ∧
            r2.raftLog.committed = r.raftLog.committed := by
          split at h2
          · obtain ⟨r3, h3, h2⟩ := Res.bind_eq_ok h2
            cases h2
            have g := stepIgnore_gb (a := r) hA
              (r := { r with heartbeatElapsed := r.heartbeatElapsed + 1, electionElapsed := 0 })
              (by intro hc; cases hc) (noAck_local (by intro hc; cases hc)) h3
              (Gb.mk' (Gb.start hmok)) (Old.mk' Old.rfl) rfl
            obtain ⟨c1, c2, c3⟩ := cq_step
              (r := { r with heartbeatElapsed := r.heartbeatElapsed + 1, electionElapsed := 0 }) hs h3
            refine ⟨g.reanchor (by intro hc; cases hc), ?_, c2⟩
            unfold Old; rw [c1]; exact fun _ hx => hx
          · cases h2
            exact ⟨Gb.mk' (Gb.start hmok), Old.mk' Old.rfl, rfl⟩
        simp only [] at h1
        split at h1
        · cases h1
          exact ⟨Gb.mk' k2.1, Old.mk' k2.2.1, k2.2.2⟩
        · cases h1; exact k2
      · cases h1
        exact ⟨Gb.mk' (Gb.start hmok), Old.mk' Old.rfl, rfl⟩
    obtain ⟨g1, o1, c1⟩ := key
    simp only [] at h
    split at h
    · cases h; exact g1.reanchor (by intro hc; cases hc)
    · split at h
      · obtain ⟨r3, h3, h⟩ := Res.bind_eq_ok h
        cases h
        have g := stepIgnore_gb (a := r) hA (r := { r1 with heartbeatElapsed := 0 })
          (by intro hc; cases hc) (noAck_local (by intro hc; cases hc)) h3
          (Gb.mk' (g1.reanchor (by intro hc; cases hc))) (Old.mk' o1) c1
        exact g.reanchor (by intro hc; cases hc)
      · cases h; exact g1.reanchor (by intro hc; cases hc)

end CB
end Raft
end RaftModel
