import RaftProofs.ClusterSnap7G
import RaftProofs.ClusterSnap7C

/-!
Commit safety of `ClusterSem` with log compaction AND `batch_append`, part 7H (C01n): **the per-call
relation of the batching layer with the anchoring fact `qf`, for every `NodeOp`, `compact` included**.

`Raft.PB.F.PRb` (`RaftProofs/ClusterSnap7D–7G.lean`, the scripted copy of `ClusterCommit5P–5S` extended
by `fi` / `qf`) is what the compaction layer needs from one call (`Snap.call_pr'` gives it under
`batchAppend = false`): every `MsgAppend` queued in a call is anchored at or above the snapshot point
the log had when the call started — or has the anchor of an old queued `MsgAppend` (`try_batching`), or
the queue is poisoned by a `MsgSnapshot`.  `call_prf'` is the batching counterpart of `Snap.call_pr'`
with nothing lost.
-/
namespace RaftModel
namespace Cluster
namespace Snap7
open Node Raft Raft.CC Raft.CP RaftProps.C02 RaftProps.C05 Snap

/-- the extended relation implies the relation of C01f -/
theorem prb_of_prf {a r : Raft} (h : PB.F.PRb a r) : PB.PRb a r :=
  ⟨h.po, h.rd, h.qa, h.qr, h.sn⟩

/-- **one call of a node, `compact` included, batching allowed, with the anchoring fact**
(`Raft.PB.F.call_prb` with its premise "the op is not a compaction" replaced by the storage contract
`CompactOk`) -/
theorem call_prf' (st st' : NState) (rnd : Option Nat) (op : NodeOp) (res : OpRes)
    (hinv : st.raft.raftLog.Inv)
    (hop : op ≠ .drain ∧ ∀ m, op ≠ .rstep m)
    (hc : ∀ k, op = .compact k → CompactOk st.raft.raftLog k)
    (hsn : st.raft.raftLog.unstable.snapshot = none)
    (hms : ∀ m, op = .step m → m.msgType ≠ .msgSnapshot)
    (hpo : st.raft.state = .leader →
      QSnap st.raft.msgs ∨ PAll st.raft.raftLog.lastIndex st.raft.prs)
    (hrd : st.raft.state = .leader → ∀ p ∈ st.raft.readOnly.pendingReadIndex,
      p.2.index ≤ st.raft.raftLog.committed)
    (hB : ∀ m, op = .step m → st.raft.state = .leader → m.msgType = .msgAppendResponse →
      m.reject = false → (m.term = 0 ∨ m.term = st.raft.term) →
      m.index ≤ st.raft.raftLog.lastIndex)
    (h : Node.call st rnd op = .ok (res, st')) : PB.F.PRb st.raft st'.raft := by
  by_cases hco : ∃ j, op = .compact j
  · obtain ⟨j, rfl⟩ := hco
    have ho := compact_out hinv hsn (hc j rfl) h
    obtain ⟨f1, f2, f3⟩ := Snap.compact_frame hinv hsn (hc j rfl) h
    exact PB.F.PRb.of_same (PB.F.PWb.start hinv hpo hrd).pr ho.state f1 f2 ho.msgs
      (Nat.le_of_eq f3.symm) (Nat.le_of_eq ho.committed.symm)
  · exact PB.F.call_prb st st' rnd op res hinv hop (fun k hk => hco ⟨k, hk⟩) hsn hms hpo hrd hB h

end Snap7
end Cluster
end RaftModel
