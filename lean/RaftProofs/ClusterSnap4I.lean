import RaftProofs.ClusterSnap4H

/-!
(Copy of `ClusterCommit4I` for the relation `Raft.CS.PW` of `ClusterSnap4A`: no `QSnap` escape, the
`Snapshot` state allowed.)

Cluster-level commit safety, part 4I: **one call of a node** (`call_pr`): every `NodeOp` the cluster
semantics uses keeps "progress within the log or queue poisoned" and "pending reads committed", every
`MsgAppend` it queues is anchored within the log (or the queue is poisoned), every `MsgReadIndexResp`
it queues carries an index that is at most the commit index, and no queued `MsgSnapshot` is lost —
given that an accepted acknowledgement delivered to a leader of its term lies within the leader's log.
-/
namespace RaftModel
namespace Raft
namespace CS
open Node RaftProps.C13

theorem PR.of_same {a r r' : Raft} (h : PR a r) (hs : r'.state = r.state) (hp : r'.prs = r.prs)
    (hro : r'.readOnly = r.readOnly) (hm : r'.msgs = r.msgs)
    (hl : r.raftLog.lastIndex ≤ r'.raftLog.lastIndex)
    (hc : r.raftLog.committed ≤ r'.raftLog.committed) : PR a r' := by
  refine ⟨fun c => ?_, fun c p hp' => ?_, fun x hx hty => ?_, fun x hx hty => ?_, ?_,
    by rw [hm]; exact h.qf⟩
  · rw [hs] at c; rw [hm, hp]
    exact (h.po c).imp (fun x => x) (fun d => d.mono hl (fun _ hx => hx))
  · rw [hs] at c; rw [hro] at hp'
    exact Nat.le_trans (h.rd c p hp') hc
  · rw [hm] at hx ⊢
    rcases h.qa x hx hty with d | d | d
    · exact .inl d
    · exact .inr (.inl d)
    · exact .inr (.inr (Nat.le_trans d hl))
  · rw [hm] at hx
    rcases h.qr x hx hty with d | d
    · exact .inl d
    · exact .inr (Nat.le_trans d hc)
  · rw [hm]; exact h.sn

theorem PR.rebase {a a' r : Raft} (h : PR a r) (hm : a'.msgs = a.msgs)
    (hl : a'.raftLog = a.raftLog) : PR a' r :=
  ⟨h.po, h.rd, by rw [hm]; exact h.qa, by rw [hm]; exact h.qr, by rw [hm]; exact h.sn,
    by rw [hm, hl]; exact h.qf⟩

/-- `RawNode::step` -/
theorem rawStep_pr {a r r' : Raft} {m : Message} {e : Option RaftError}
    (h : RawNode.step r m = .ok (r', e)) (h0 : PW a r) (hn : NF a r)
    (hms : m.msgType ≠ .msgSnapshot)
    (hB : r.state = .leader → m.msgType = .msgAppendResponse → m.reject = false →
      (m.term = 0 ∨ m.term = r.term) → m.index ≤ r.raftLog.lastIndex)
    (hQ : r.state = .leader → ∀ x ∈ r.msgs,
      x.msgType = .msgSnapshot → x.snapshot.metadata.index ≤ r.raftLog.lastIndex) : PR a r' := by
  unfold RawNode.step at h
  split at h
  · cases h; exact h0.pr
  · split at h
    · by_cases hty : m.msgType = .msgAppend
      · exact step_app_pr h h0 hn hty
      · exact (step_pw h h0 hty hms hB (fun _ => hQ)).pr
    · cases h; exact h0.pr

theorem localStep_pr {a r r' : Raft} {m : Message} {e : Option RaftError}
    (h : r.step m = .ok (r', e)) (h0 : PW a r) (hna : m.msgType ≠ .msgAppend)
    (hms : m.msgType ≠ .msgSnapshot) (hnr : m.msgType ≠ .msgAppendResponse)
    (hss : m.msgType ≠ .msgSnapStatus) : PR a r' :=
  (step_pw h h0 hna hms (fun _ hc => absurd hc hnr) (fun hc => absurd hc hss)).pr

/-- **one call of a node** -/
theorem call_pr (st st' : NState) (rnd : Option Nat) (op : NodeOp) (res : OpRes)
    (hinv : st.raft.raftLog.Inv) (hnb : st.raft.batchAppend = false)
    (hop : op ≠ .drain ∧ ∀ m, op ≠ .rstep m) (hc : ∀ k, op ≠ .compact k)
    (hsn : st.raft.raftLog.unstable.snapshot = none)
    (hms : ∀ m, op = .step m → m.msgType ≠ .msgSnapshot)
    (hpo : st.raft.state = .leader →
      QSnap st.raft.msgs ∨ PAll st.raft.msgs st.raft.raftLog.lastIndex st.raft.prs)
    (hQ : st.raft.state = .leader → ∀ x ∈ st.raft.msgs,
      x.msgType = .msgSnapshot → x.snapshot.metadata.index ≤ st.raft.raftLog.lastIndex)
    (hrd : st.raft.state = .leader → ∀ p ∈ st.raft.readOnly.pendingReadIndex,
      p.2.index ≤ st.raft.raftLog.committed)
    (hB : ∀ m, op = .step m → st.raft.state = .leader → m.msgType = .msgAppendResponse →
      m.reject = false → (m.term = 0 ∨ m.term = st.raft.term) →
      m.index ≤ st.raft.raftLog.lastIndex)
    (h : Node.call st rnd op = .ok (res, st')) : PR st.raft st'.raft := by
  unfold Node.call at h
  have h0 : PW ({ st.raft with nextRand := rnd } : Raft) ({ st.raft with nextRand := rnd } : Raft) :=
    PW.start hinv hnb hpo hrd
  have hinv' : ({ st.raft with nextRand := rnd } : Raft).raftLog.Inv := hinv
  have hsn' : ({ st.raft with nextRand := rnd } : Raft).raftLog.unstable.snapshot = none := hsn
  refine PR.rebase (a := ({ st.raft with nextRand := rnd } : Raft)) (a' := st.raft) ?_ rfl rfl
  cases op with
  | tick =>
    simp only [applyOp] at h
    split at h
    · rename_i raft b heq
      cases h
      exact (tick_pw heq h0).pr
    · cases h
    · cases h
  | step m =>
    simp only [applyOp] at h
    obtain ⟨raft, e, hx, hr⟩ := CV.unitRes_ok h
    rw [hr]
    exact rawStep_pr hx h0 NF.rfl (hms m rfl) (hB m rfl) hQ
  | rstep m => exact absurd rfl (hop.2 m)
  | propose c d =>
    simp only [applyOp] at h
    obtain ⟨raft, e, hx, hr⟩ := CV.unitRes_ok h
    rw [hr]
    exact localStep_pr hx h0 (by intro hc; cases hc) (by intro hc; cases hc) (by intro hc; cases hc)
      (by intro hc; cases hc)
  | proposeCc t c d =>
    simp only [applyOp] at h
    obtain ⟨raft, e, hx, hr⟩ := CV.unitRes_ok h
    rw [hr]
    exact localStep_pr hx h0 (by intro hc; cases hc) (by intro hc; cases hc) (by intro hc; cases hc)
      (by intro hc; cases hc)
  | readIndex c =>
    simp only [applyOp] at h
    obtain ⟨raft, hx, hr⟩ := CV.okRes_ok h
    rw [hr]
    exact (stepIgnore_pw hx h0 (by intro hc; cases hc) (by intro hc; cases hc)
      (by intro hc; cases hc) (by intro hc; cases hc)).pr
  | transferLeader x =>
    simp only [applyOp] at h
    obtain ⟨raft, hx, hr⟩ := CV.okRes_ok h
    rw [hr]
    exact (stepIgnore_pw hx h0 (by intro hc; cases hc) (by intro hc; cases hc)
      (by intro hc; cases hc) (by intro hc; cases hc)).pr
  | campaign =>
    simp only [applyOp] at h
    obtain ⟨raft, e, hx, hr⟩ := CV.unitRes_ok h
    rw [hr]
    exact localStep_pr hx h0 (by intro hc; cases hc) (by intro hc; cases hc) (by intro hc; cases hc)
      (by intro hc; cases hc)
  | ping =>
    simp only [applyOp] at h
    obtain ⟨raft, hx, hr⟩ := CV.okRes_ok h
    rw [hr]
    exact (ping_pw hx h0).pr
  | requestSnapshot =>
    simp only [applyOp] at h
    obtain ⟨raft, e, hx, hr⟩ := CV.unitRes_ok h
    rw [hr]
    exact (requestSnapshot_pw hx h0).pr
  | reportUnreachable x =>
    simp only [applyOp] at h
    obtain ⟨raft, hx, hr⟩ := CV.okRes_ok h
    rw [hr]
    exact (stepIgnore_pw hx h0 (by intro hc; cases hc) (by intro hc; cases hc)
      (by intro hc; cases hc) (by intro hc; cases hc)).pr
  | reportSnapshot x f =>
    simp only [applyOp] at h
    obtain ⟨raft, hx, hr⟩ := CV.okRes_ok h
    rw [hr]
    exact (stepIgnore_pw hx h0 (by intro hc; cases hc) (by intro hc; cases hc)
      (by intro hc; cases hc) (fun _ => hQ)).pr
  | applyConfChange cc =>
    simp only [applyOp] at h
    split at h
    · rename_i raft cs heq
      cases h
      exact (applyConfChange_pw heq h0).pr
    · rename_i raft e heq
      cases h
      exact (applyConfChange_pw heq h0).pr
    · cases h
    · cases h
  | stabilize =>
    simp only [applyOp, Node.stabilize] at h
    split at h
    · rename_i l hl0
      have hl : ({ st.raft with nextRand := rnd } : Raft).raftLog.stabilise = .ok l := hl0
      cases h
      obtain ⟨l2, k1, k2, k3, k4, _⟩ := RaftProps.C14.stabilise_ok hinv' hsn'
      rw [hl] at k1
      cases k1
      refine PR.of_same h0.pr rfl rfl rfl rfl ?_ ?_
      · show st.raft.raftLog.lastIndex ≤ l.lastIndex
        rw [k2.lastIndex_abs, hinv.lastIndex_abs, k3]
        exact Nat.le_refl _
      · show st.raft.raftLog.committed ≤ l.committed
        rw [k4]; exact Nat.le_refl _
    · cases h
    · cases h
  | onPersistEntries i t =>
    simp only [applyOp] at h
    obtain ⟨raft, hx, hr⟩ := CV.okRes_ok h
    rw [hr]
    exact (onPersistEntries_pw hx h0).pr
  | persistSnap =>
    simp only [applyOp] at h
    unfold Node.persistSnap at h
    simp only [] at h
    rw [hsn'] at h
    simp only [] at h
    cases h
    exact h0.pr
  | commitApply k =>
    simp only [applyOp, Node.commitApply] at h
    split at h
    · rename_i r2 hb
      rw [Res.bind_eq_ok_iff] at hb
      obtain ⟨r1, h1, h2⟩ := hb
      have g1 : PW ({ st.raft with nextRand := rnd } : Raft) r1 := by
        have hred : ∀ ents, PW ({ st.raft with nextRand := rnd } : Raft)
            (({ st.raft with nextRand := rnd } : Raft).reduceUncommittedSize ents) := by
          intro ents
          unfold Raft.reduceUncommittedSize
          split
          · exact h0
          · exact PW.mk' h0
        split at h1
        · split at h1
          · cases h1; exact hred _
          · cases h1; exact h0
          · cases h1
        · cases h1; exact h0
      have g2 : PW ({ st.raft with nextRand := rnd } : Raft) r2 := commitApplyInternal_pw h2 g1
      cases h
      split
      · exact PR.of_same g2.pr rfl rfl rfl rfl (Nat.le_refl _) (Nat.le_refl _)
      · exact g2.pr
    · cases h
    · cases h
  | compact k => exact absurd rfl (hc k)
  | drain => exact absurd rfl hop.1
  | triggerSnap =>
    simp only [applyOp] at h
    cases h
    exact PR.of_same h0.pr rfl rfl rfl rfl (Nat.le_refl _) (Nat.le_refl _)
  | triggerLog b =>
    simp only [applyOp] at h
    cases h
    exact PR.of_same h0.pr rfl rfl rfl rfl (Nat.le_refl _) (Nat.le_refl _)
  | setPriority p =>
    simp only [applyOp] at h
    cases h
    exact PR.of_same h0.pr rfl rfl rfl rfl (Nat.le_refl _) (Nat.le_refl _)
  | setBatchAppend b =>
    simp only [applyOp] at h
    cases h
    exact PR.of_same h0.pr rfl rfl rfl rfl (Nat.le_refl _) (Nat.le_refl _)
  | skipBcastCommit b =>
    simp only [applyOp] at h
    cases h
    exact PR.of_same h0.pr rfl rfl rfl rfl (Nat.le_refl _) (Nat.le_refl _)
  | setCheckQuorum b =>
    simp only [applyOp] at h
    cases h
    exact PR.of_same h0.pr rfl rfl rfl rfl (Nat.le_refl _) (Nat.le_refl _)
  | adjustMaxInflight id cap =>
    simp only [applyOp] at h
    obtain ⟨raft, hx, hr⟩ := CV.okRes_ok h
    rw [hr]
    exact (adjustMaxInflightMsgs_pw hx h0).pr
  | maybeFreeInflightBuffers =>
    simp only [applyOp] at h
    cases h
    exact (maybeFreeInflightBuffers_pw h0).pr
  | enableGroupCommit b =>
    simp only [applyOp] at h
    obtain ⟨raft, hx, hr⟩ := CV.okRes_ok h
    rw [hr]
    exact (enableGroupCommit_pw hx h0).pr
  | assignCommitGroups v =>
    simp only [applyOp] at h
    obtain ⟨raft, hx, hr⟩ := CV.okRes_ok h
    rw [hr]
    exact (assignCommitGroups_pw hx h0).pr
  | clearCommitGroup =>
    simp only [applyOp] at h
    cases h
    exact (clearCommitGroup_pw h0).pr
  | checkGroupCommitConsistent =>
    simp only [applyOp] at h
    split at h
    · cases h; exact h0.pr
    · cases h; exact h0.pr
    · cases h
    · cases h
  | setMaxApplyUnpersistedLogLimit x =>
    simp only [applyOp] at h
    cases h
    exact PR.of_same h0.pr rfl rfl rfl rfl (Nat.le_refl _) (Nat.le_refl _)
  | setMaxCommittedSizePerReady x =>
    simp only [applyOp] at h
    cases h
    exact PR.of_same h0.pr rfl rfl rfl rfl (Nat.le_refl _) (Nat.le_refl _)
  | onEntriesFetched to term aggr =>
    rcases CV.onEntriesFetched_ok h with h | ⟨-, hs, -, raft, hx, h⟩
    · cases h; exact h0.pr
    · cases h
      rcases hx with hx | hx
      · exact (sendAppendAggressively_lw hx ⟨h0, hs⟩).1.pr
      · exact (sendAppend_lw hx ⟨h0, hs⟩).1.pr

end CS
end Raft
end RaftModel
