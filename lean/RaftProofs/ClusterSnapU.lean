import RaftProofs.ClusterSnapT

/-!
Commit safety of `ClusterSem` with log compaction, part U: **a concrete history with a real
compaction** (kernel-evaluated) that satisfies every hypothesis of this development (`Snap.Hyp3`).

The history of `ClusterCommit3H` (node 1 is elected leader of term 1 and commits its empty entry with
the acknowledgement of node 2) continued by nine steps: node 1 is proposed an entry (index 2), persists
it (`stabilize`, `on_persist_entries(2, 1)`) and sends its `MsgAppend`s; node 2 is delivered the one
that carries the entry, persists and sends its accepting response; node 1 is delivered the response and
moves its commit index to 2; finally **the application of node 1 compacts its log up to index 2**
(`compact 2`): entry 1 is dropped, the snapshot point of node 1 moves from 0 to 1 and its term is
forgotten.
-/
namespace RaftModel
namespace Cluster
namespace Snap
open Node Raft Raft.CC RaftProps.C02 RaftProps.C05

def cx_a9 := c02x_st (Node.call c01x_a8 none (.propose [] [1]))
def cx_a10 := c02x_st (Node.call cx_a9 none .stabilize)
def cx_a11 := c02x_st (Node.call cx_a10 none (.onPersistEntries 2 1))
def cx_a12 := c02x_st (Node.call cx_a11 none .drain)
/-- the `MsgAppend` of node 1 for node 2 that carries entry 2 -/
def cx_app := cx_a11.raft.msgs[1]!
def cx_b7 := c02x_st (Node.call c01x_b6 none (.step cx_app))
def cx_b8 := c02x_st (Node.call cx_b7 none .stabilize)
def cx_b9 := c02x_st (Node.call cx_b8 none .drain)
/-- the accepting `MsgAppendResponse` of node 2 for index 2 -/
def cx_ack := cx_b8.raft.msgs.head!
def cx_a13 := c02x_st (Node.call cx_a12 none (.step cx_ack))
/-- node 1 after the compaction -/
def cx_a14 := c02x_st (Node.call cx_a13 none (.compact 2))

def cx_s15 : Sys := c01x_s14.setNode 1 cx_a9
def cx_s16 : Sys := cx_s15.setNode 1 cx_a10
def cx_s17 : Sys := cx_s16.setNode 1 cx_a11
def cx_s18 : Sys := { (cx_s17.setNode 1 cx_a12) with net := cx_s17.net ++ cx_a11.raft.msgs }
def cx_s19 : Sys := cx_s18.setNode 2 cx_b7
def cx_s20 : Sys := cx_s19.setNode 2 cx_b8
def cx_s21 : Sys := { (cx_s20.setNode 2 cx_b9) with net := cx_s20.net ++ cx_b8.raft.msgs }
def cx_s22 : Sys := cx_s21.setNode 1 cx_a13
def cx_s23 : Sys := cx_s22.setNode 1 cx_a14

def cx_tail : List Sys := [cx_s15, cx_s16, cx_s17, cx_s18, cx_s19, cx_s20, cx_s21, cx_s22, cx_s23]
def cx_hist : List Sys := c01x_hist ++ cx_tail

/-- the outcome of an evaluated call, with the result `.ok` read off -/
theorem c02x_out' (x : Out) (h : (match x with | .ok (.ok, _) => true | _ => false) = true) :
    x = .ok (.ok, c02x_st x) := by
  cases x with
  | ok p =>
    obtain ⟨r, st⟩ := p
    cases r <;> first | rfl | cases h
  | err e => cases h
  | panic s => cases h

theorem getIdx_mem (l : List Message) (i : Nat) (h : i < l.length) : l[i]! ∈ l := by
  rw [getElem!_pos l i h]; exact List.getElem_mem h

set_option maxRecDepth 100000 in
theorem cx_ksteps_tail : Chained KStep (c01x_s14 :: cx_tail) := by
  refine ⟨?_, ?_, ?_, ?_, ?_, ?_, ?_, ?_, ?_, trivial⟩
  · exact KStep.call _ 1 c01x_a8 cx_a9 none (.propose [] [1]) _ rfl rfl
      (fun k hc => by cases hc) (fun k hc => by cases hc) (c02x_out _ (by decide))
  · exact KStep.call _ 1 cx_a9 cx_a10 none .stabilize _ rfl rfl
      (fun k hc => by cases hc) (fun k hc => by cases hc) (c02x_out _ (by decide))
  · exact KStep.call _ 1 cx_a10 cx_a11 none (.onPersistEntries 2 1) _ rfl rfl
      (fun k hc => by cases hc) (fun k hc => by cases hc) (c02x_out _ (by decide))
  · exact KStep.send _ 1 cx_a11 cx_a12 rfl ⟨by decide, by decide⟩
      (fun hc => absurd (by decide) hc) rfl
  · exact KStep.deliver _ 2 c01x_b6 cx_b7 none cx_app _ rfl
      (List.mem_append_right _ (getIdx_mem _ 1 (by decide))) (by decide) (c02x_out _ (by decide))
  · exact KStep.call _ 2 cx_b7 cx_b8 none .stabilize _ rfl rfl
      (fun k hc => by cases hc) (fun k hc => by cases hc) (c02x_out _ (by decide))
  · exact KStep.send _ 2 cx_b8 cx_b9 rfl ⟨by decide, by decide⟩
      (fun _ => ⟨by decide, rfl⟩) rfl
  · exact KStep.deliver _ 1 cx_a12 cx_a13 none cx_ack _ rfl
      (List.mem_append_right _ (c02x_head_mem _ (by decide))) (by decide) (c02x_out _ (by decide))
  · exact KStep.call _ 1 cx_a13 cx_a14 none (.compact 2) _ rfl rfl
      (fun k hc => by cases hc; exact ⟨by decide, by decide⟩) (fun k hc => by cases hc)
      (c02x_out _ (by decide))

theorem chained_append {R : Sys → Sys → Prop} : ∀ (l : List Sys) (s : Sys) (t : List Sys),
    Chained R (l ++ [s]) → Chained R (s :: t) → Chained R (l ++ s :: t) := by
  intro l
  induction l with
  | nil => intro s t _ h2; exact h2
  | cons x l ih =>
    intro s t h1 h2
    cases l with
    | nil => exact ⟨h1.1, h2⟩
    | cons y l' => exact ⟨h1.1, ih s t h1.2 h2⟩

theorem cx_ksteps : Chained KStep cx_hist := by
  have h1 : Chained KStep c01x_hist := Chained.mono (fun _ _ hc => KStep.of_old hc) _ c01x_ksteps
  exact chained_append (c05x_hist ++ [c01x_s11, c01x_s12, c01x_s13]) c01x_s14 cx_tail
    (by simpa [c01x_hist] using h1) cx_ksteps_tail

theorem cx_history : History cx_hist := by
  have := chained_history [] c02x_s0 (History.init _ c02x_init) _
    (Chained.mono (fun _ _ hc => hc.step) _ cx_ksteps)
  simpa [cx_hist, c01x_hist, c05x_hist, c02x_hist] using this

/-- what is assumed about one node: no pending snapshot -/
def cx_nodeOk (st : NState) : Bool := st.raft.raftLog.unstable.snapshot.isNone

def cx_chk (s : Sys) : Bool :=
  c02x_fixed s && c05x_nobatch s && s.net.all (fun x => decide (c01x_msgOk x)) &&
  s.nodes.all (fun p => cx_nodeOk p.2)

theorem cx_chk_ok (s : Sys) (h : cx_chk s = true) :
    FixedCfg c02x_cfg s ∧ NoBatch s ∧ (∀ x ∈ s.net, c01x_msgOk x) ∧
    ∀ i st, s.node i = some st → st.raft.raftLog.unstable.snapshot = none := by
  unfold cx_chk at h
  simp only [Bool.and_eq_true] at h
  obtain ⟨⟨⟨h1, h2⟩, h3⟩, h4⟩ := h
  refine ⟨c02x_fixed_ok s h1, c05x_nobatch_ok s h2, fun x hx => ?_, fun i st hi => ?_⟩
  · rw [List.all_eq_true] at h3
    exact of_decide_eq_true (h3 x hx)
  · rw [List.all_eq_true] at h4
    have := h4 _ (c02_lookup_mem s.nodes i st hi)
    unfold cx_nodeOk at this
    simpa [Option.isNone_iff_eq_none] using this

set_option maxRecDepth 100000 in
theorem cx_chk_all : ∀ s ∈ cx_hist, cx_chk s = true := by
  intro s hs
  simp only [cx_hist, cx_tail, c01x_hist, c05x_hist, c02x_hist, List.cons_append, List.nil_append,
    List.mem_cons, List.not_mem_nil, or_false, List.append_assoc] at hs
  rcases hs with rfl | rfl | rfl | rfl | rfl | rfl | rfl | rfl | rfl | rfl | rfl | rfl | rfl |
    rfl | rfl | rfl | rfl | rfl | rfl | rfl | rfl | rfl | rfl | rfl <;> decide

set_option maxRecDepth 100000 in
/-- **the history satisfies every hypothesis of the commit layer with compaction** -/
theorem cx_hyp3 : Hyp3 c02x_cfg 0 cx_hist := by
  have h0 : cx_hist[0]? = some c02x_s0 := rfl
  have hall := fun s hs => cx_chk_ok s (cx_chk_all s hs)
  have hboot : ∀ i st, c02x_s0.node i = some st →
      (i = 1 ∧ st = c02x_boot 1) ∨ (i = 2 ∧ st = c02x_boot 2) ∨ (i = 3 ∧ st = c02x_boot 3) := by
    intro i st hi
    have hm := c02_lookup_mem _ i st hi
    simp only [c02x_s0, List.mem_cons, Prod.mk.injEq, List.not_mem_nil, or_false] at hm
    rcases hm with ⟨rfl, rfl⟩ | ⟨rfl, rfl⟩ | ⟨rfl, rfl⟩
    · exact .inl ⟨rfl, rfl⟩
    · exact .inr (.inl ⟨rfl, rfl⟩)
    · exact .inr (.inr ⟨rfl, rfl⟩)
  refine ⟨⟨⟨cx_history, fun s hs => (hall s hs).1, by decide, by decide, by decide, ?_,
    chained_at _ cx_ksteps, fun s hs => (hall s hs).2.1, fun s hs x hx => ((hall s hs).2.2.1 x hx).1⟩,
    c01x_nolone, fun s hs i st hi => (hall s hs).2.2.2 i st hi, ?_, ?_,
    fun s hs x hx => ((hall s hs).2.2.1 x hx).2.1⟩,
    fun s hs x hx => ((hall s hs).2.2.1 x hx).2.2, ?_⟩
  · intro s hs
    rw [h0] at hs; cases hs
    exact c05x_initOk
  · intro s hs i st hi
    rw [h0] at hs; cases hs
    rcases hboot i st hi with ⟨rfl, rfl⟩ | ⟨rfl, rfl⟩ | ⟨rfl, rfl⟩ <;> decide
  · intro s hs i st hi
    rw [h0] at hs; cases hs
    rcases hboot i st hi with ⟨rfl, rfl⟩ | ⟨rfl, rfl⟩ | ⟨rfl, rfl⟩ <;> decide
  · intro s hs i st hi t0 ht0 j st0 _
    rw [h0] at hs; cases hs
    have hz : ∀ i, i = 1 ∨ i = 2 ∨ i = 3 → (c02x_boot i).raft.raftLog.abs.snapTerm = some 0 := by
      intro i hi
      rcases hi with rfl | rfl | rfl <;> decide
    have : t0 = 0 := by
      rcases hboot i st hi with ⟨rfl, rfl⟩ | ⟨rfl, rfl⟩ | ⟨rfl, rfl⟩
      · rw [hz 1 (.inl rfl)] at ht0; cases ht0; rfl
      · rw [hz 2 (.inr (.inl rfl))] at ht0; cases ht0; rfl
      · rw [hz 3 (.inr (.inr rfl))] at ht0; cases ht0; rfl
    omega

end Snap
end Cluster
end RaftModel
