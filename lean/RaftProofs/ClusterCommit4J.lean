import RaftProofs.ClusterCommit3G
import RaftProofs.ClusterCommit4I

/-!
Cluster-level commit safety, part 4J: prefixes of a history (the hypotheses `Hyp3w` are closed under
taking a non-empty prefix), the cluster invariant `CI` ("every progress of a leader is within its log
or its queue is poisoned by a `MsgSnapshot`; every pending read index is committed; every `MsgAppend`
that is queued or in the transport is anchored; every `MsgReadIndexResp` comes from a leader whose
commit index covered it"), and how `CI` on a prefix gives the hypotheses `Hyp3a` of the main induction
for that prefix.
-/
namespace RaftModel
namespace Cluster
open Node Raft Raft.CC Raft.CP RaftProps.C02 RaftProps.C05

variable {cfg : JointConfig} {c0 : Nat} {h : List Sys}

/-! ### prefixes -/

theorem History.take {l : List Sys} (hh : History l) : ∀ k, 0 < k → History (l.take k) := by
  induction hh with
  | init s hs =>
    intro k hk
    have : [s].take k = [s] := by
      cases k with
      | zero => omega
      | succ k => simp
    rw [this]; exact .init s hs
  | step l a b hh hstep ih =>
    intro k hk
    by_cases hle : k ≤ l.length + 1
    · have : (l ++ [a, b]).take k = (l ++ [a]).take k := by
        have e : l ++ [a, b] = (l ++ [a]) ++ [b] := by simp
        rw [e, List.take_append_of_le_length (by simp; omega)]
      rw [this]; exact ih k hk
    · have : (l ++ [a, b]).take k = l ++ [a, b] := List.take_of_length_le (by simp; omega)
      rw [this]; exact .step l a b hh hstep

theorem get_take {l : List Sys} {k n : Nat} {s : Sys} (h : (l.take k)[n]? = some s) :
    l[n]? = some s ∧ n < k := by
  rw [List.getElem?_take] at h
  split at h
  · rename_i hlt; exact ⟨h, hlt⟩
  · cases h

theorem take_get {l : List Sys} {k n : Nat} (hlt : n < k) : (l.take k)[n]? = l[n]? := by
  rw [List.getElem?_take, if_pos hlt]

theorem Hyp.take (H : Hyp cfg h) {k : Nat} (hk : 0 < k) : Hyp cfg (h.take k) where
  hist := History.take H.hist k hk
  fix := fun s hs => H.fix s (List.mem_of_mem_take hs)
  ne := H.ne
  nd1 := H.nd1
  nd2 := H.nd2
  init := fun s h0 => H.init s (get_take h0).1
  steps := fun n a b ha hb => H.steps n a b (get_take ha).1 (get_take hb).1
  nb := fun s hs => H.nb s (List.mem_of_mem_take hs)
  nosnap := fun s hs => H.nosnap s (List.mem_of_mem_take hs)

theorem Hyp2w.take (H : Hyp2w cfg c0 h) {k : Nat} (hk : 0 < k) : Hyp2w cfg c0 (h.take k) where
  toHyp := H.toHyp.take hk
  nolone := H.nolone
  shape := fun s hs => H.shape s (List.mem_of_mem_take hs)
  initc := fun s h0 => H.initc s (get_take h0).1

/-! ### the cluster invariant -/

/-- the two facts about one node -/
structure NodeI (st : NState) : Prop where
  po : st.raft.state = .leader →
    QSnap st.raft.msgs ∨ PAll st.raft.raftLog.lastIndex st.raft.prs
  rd : st.raft.state = .leader → ∀ p ∈ st.raft.readOnly.pendingReadIndex,
    p.2.index ≤ st.raft.raftLog.committed

/-- a `MsgAppend` is anchored inside its sender's log -/
def Anch (c0 : Nat) (x : Message) : Prop := x.logTerm ≠ 0 ∨ x.index ≤ c0

theorem RirSrc.mono {n n' : Nat} {x : Message} (hs : RirSrc h n x) (hle : n ≤ n') :
    RirSrc h n' x := by
  obtain ⟨n0, s0, w, stw, h1, h2⟩ := hs
  exact ⟨n0, s0, w, stw, Nat.le_trans h1 hle, h2⟩

/-- **the cluster invariant** for the state `s = h[n]` -/
structure CI (h : List Sys) (c0 n : Nat) (s : Sys) : Prop where
  node : ∀ i st, s.node i = some st → NodeI st
  qa : ∀ i st, s.node i = some st → ∀ x ∈ st.raft.msgs, x.msgType = .msgAppend →
    QSnap st.raft.msgs ∨ Anch c0 x
  qr : ∀ i st, s.node i = some st → ∀ x ∈ st.raft.msgs, x.msgType = .msgReadIndexResp →
    RirSrc h n x
  na : ∀ x ∈ s.net, x.msgType = .msgAppend → Anch c0 x
  nr : ∀ x ∈ s.net, x.msgType = .msgReadIndexResp → RirSrc h n x

/-- the hypotheses of the main induction for a prefix all of whose states satisfy `CI` -/
theorem hyp3a_take (H : Hyp3w cfg c0 h) {k : Nat} (hk : 0 < k)
    (hci : ∀ m s, m < k → h[m]? = some s → CI h c0 m s) : Hyp3a cfg c0 (h.take k) where
  toHyp2w := H.toHyp2w.take hk
  anch := by
    intro s hs x hx hty
    obtain ⟨m, hm⟩ := List.mem_iff_getElem?.1 hs
    obtain ⟨hm', hlt⟩ := get_take hm
    exact (hci m s hlt hm').na x hx hty
  rirs := by
    intro n s hn x hx hty
    obtain ⟨hn', hlt⟩ := get_take hn
    obtain ⟨n0, s0, w, stw, h1, h2, h3⟩ := (hci n s hlt hn').nr x hx hty
    exact ⟨n0, s0, w, stw, h1, by rw [take_get (by omega)]; exact h2, h3⟩
  snapt0 := fun s0 h0 => H.snapt0 s0 (get_take h0).1

end Cluster
end RaftModel
