import RaftProofs.ClusterCommitA

/-!
Cluster-level commit safety, helper lemmas part B: `SF` through `maybe_send_append` and its callers,
the heartbeat senders, and the broadcast loops.
-/
namespace RaftModel
namespace Raft
namespace CC

/-- `RaftLog::snapshot` only consumes the storage's test trigger -/
theorem snapshot_core (l : RaftLog) (i : Nat) :
    (l.snapshot i).1 = l ∨
    (l.snapshot i).1 = { l with store := { l.store with triggerSnapUnavailable := false } } := by
  have hst : ∀ s : MemStorage, (s.snapshot i).1 = s ∨
      (s.snapshot i).1 = { s with triggerSnapUnavailable := false } := by
    intro s
    unfold MemStorage.snapshot
    split
    · exact .inr rfl
    · split <;> exact .inl rfl
  unfold RaftLog.snapshot
  split
  · split
    · exact .inl rfl
    · rcases hst l.store with e | e
      · left; dsimp only; rw [e]
      · right; dsimp only; rw [e]
  · rcases hst l.store with e | e
    · left; dsimp only; rw [e]
    · right; dsimp only; rw [e]

theorem SF.snapLog {a r : Raft} (i : Nat) (h0 : SF a r) :
    SF a { r with raftLog := (r.raftLog.snapshot i).1 } := by
  refine ⟨?_, h0.q⟩
  rw [← h0.core]
  rcases snapshot_core r.raftLog i with e | e <;> rw [e] <;> rfl

theorem updateState_matched {pr pr' : Progress} {n : Nat} (h : pr.updateState n = .ok pr') :
    pr'.matched = pr.matched := by
  unfold Progress.updateState at h
  split at h
  · split at h
    · cases h
    · split at h
      · cases h; rfl
      · cases h
  · cases h; rfl
  · cases h

/-- a stamped message that is neither an append nor a heartbeat -/
theorem sent_other (r : Raft) (m : Message) (hf : m.frm = 0) (ht : lkT m.msgType = true)
    (h1 : m.msgType ≠ .msgAppend) (h2 : m.msgType ≠ .msgHeartbeat) :
    Sent (score r) (r.sendFill m) := by
  obtain ⟨f1, f2, f3, _, _⟩ := sendFill_lk r m hf ht
  refine ⟨f1, f2, ?_, ?_, ?_⟩
  · rw [f3]; exact ht
  · intro hc; rw [f3] at hc; exact absurd hc h1
  · intro hc; rw [f3] at hc; exact absurd hc h2

theorem prepareSendSnapshot_sf {a r r' : Raft} {m m' : Message} {pr pr' : Progress} {to : Nat}
    {b : Bool} (h : r.prepareSendSnapshot m pr to = .ok (r', m', pr', b)) (h0 : SF a r) :
    SF a r' ∧ pr'.matched = pr.matched ∧
    (b = true → m'.msgType = .msgSnapshot ∧ m'.frm = m.frm ∧ m'.to = m.to) := by
  unfold Raft.prepareSendSnapshot at h
  split at h
  · cases h; exact ⟨h0, rfl, fun hb => nomatch hb⟩
  · simp only [] at h
    have hs := h0.snapLog pr.pendingRequestSnapshot
    split at h
    · cases h; exact ⟨hs, rfl, fun hb => nomatch hb⟩
    · cases h
    · cases h
    · split at h
      · cases h
      · cases h; exact ⟨hs, rfl, fun _ => ⟨rfl, rfl, rfl⟩⟩

theorem viaSnapshot_sf {a r r' : Raft} {to : Nat} {pr pr' : Progress} {sent : Bool}
    (h : RaftProps.C13.viaSnapshot r to pr = .ok (r', pr', sent)) (h0 : SF a r) :
    SF a r' ∧ pr'.matched = pr.matched := by
  unfold RaftProps.C13.viaSnapshot at h
  split at h
  · rename_i r1 m1 pr1 heq
    obtain ⟨h1, h2, h3⟩ := prepareSendSnapshot_sf heq h0
    rw [Res.bind_eq_ok_iff] at h
    obtain ⟨r2, hs, h4⟩ := h
    cases h4
    obtain ⟨e1, e2, e3⟩ := h3 rfl
    exact ⟨send_sf hs (sent_other r1 m1 (by rw [e2]) (by rw [e1]; rfl) (by rw [e1]; decide)
      (by rw [e1]; decide)) h1, h2⟩
  · rename_i r1 m1 pr1 heq
    cases h
    obtain ⟨h1, h2, _⟩ := prepareSendSnapshot_sf heq h0
    exact ⟨h1, h2⟩
  · cases h
  · cases h

/-- **`maybe_send_append`** (batching off) -/
theorem maybeSendAppend_sf {a r r' : Raft} {to : Nat} {pr pr' : Progress} {ae b : Bool}
    (hnb : a.batchAppend = false)
    (h : r.maybeSendAppend to pr ae = .ok (r', pr', b)) (h0 : SF a r) :
    SF a r' ∧ pr'.matched = pr.matched := by
  rcases RaftProps.C13.C13_send_classification r r' to pr pr' ae b h with
    ⟨_, he, hp, _⟩ | ⟨_, _, hn, t, es, ht, hes, _, _, hsu, hcase⟩ | ⟨_, _, he, hp, _⟩ | ⟨_, _, hv⟩
  · rw [he, hp]; exact ⟨h0, rfl⟩
  · have hm : pr'.matched = pr.matched := by
      unfold RaftProps.C13.SentUpdate at hsu
      split at hsu
      · rw [hsu]
      · exact updateState_matched hsu
    rcases hcase with ⟨hb, _⟩ | ⟨_, he⟩
    · rw [h0.batch, hnb] at hb; cases hb
    · rw [he]
      refine ⟨⟨h0.core, fun x hx => ?_⟩, hm⟩
      rcases List.mem_append.1 hx with hx | hx
      · exact h0.q x hx
      · right
        rw [List.mem_singleton.1 hx, ← h0.core]
        exact ⟨rfl, rfl, rfl, fun _ => ⟨rfl, ht⟩, fun hc => by cases hc⟩
  · rw [he, hp]; exact ⟨h0, rfl⟩
  · exact viaSnapshot_sf hv h0

theorem sendAppendPr_sf {a r r' : Raft} {to : Nat} {pr pr' : Progress} (hnb : a.batchAppend = false)
    (h : r.sendAppendPr to pr = .ok (r', pr')) (h0 : SF a r) :
    SF a r' ∧ pr'.matched = pr.matched := by
  unfold Raft.sendAppendPr at h
  obtain ⟨⟨r1, pr1, b⟩, h1, h2⟩ := Res.bind_eq_ok h
  cases h2
  exact maybeSendAppend_sf hnb h1 h0

theorem sendAppendAggressivelyPr_sf {a r' : Raft} {to : Nat} {pr' : Progress}
    (hnb : a.batchAppend = false) :
    ∀ (fuel : Nat) (r : Raft) (pr : Progress),
      sendAppendAggressivelyPr fuel r to pr = .ok (r', pr') → SF a r →
      SF a r' ∧ pr'.matched = pr.matched := by
  intro fuel
  induction fuel with
  | zero => intro r pr h; simp [sendAppendAggressivelyPr] at h
  | succ n ih =>
    intro r pr h h0
    unfold sendAppendAggressivelyPr at h
    split at h
    · rename_i r1 pr1 hm
      obtain ⟨g1, g2⟩ := maybeSendAppend_sf hnb hm h0
      obtain ⟨g3, g4⟩ := ih r1 pr1 h g1
      exact ⟨g3, g4.trans g2⟩
    · rename_i r1 pr1 hm
      cases h; exact maybeSendAppend_sf hnb hm h0
    · cases h
    · cases h

/-- write-back after a sending helper that ran on the progress entry of `to` -/
theorem SF.writeBack {a r r1 : Raft} {to : Nat} {pr pr1 : Progress} (h0 : SF a r) (h1 : SF a r1)
    (hg : r.prs.get to = some pr) (hm : pr1.matched = pr.matched) :
    SF a { r1 with prs := r1.prs.set to pr1 } := by
  refine h1.setPr (fun old ho => ?_)
  have e1 : mfun r1.prs to = mfun r.prs to := by rw [h1.mtab, h0.mtab]
  rw [mfun_of_get ho, mfun_of_get hg] at e1
  injection e1 with e1
  rw [hm, e1]

theorem sendAppend_sf {a r r' : Raft} {to : Nat} (hnb : a.batchAppend = false)
    (h : r.sendAppend to = .ok r') (h0 : SF a r) : SF a r' := by
  unfold Raft.sendAppend at h
  split at h
  · cases h
  · rename_i pr hg
    obtain ⟨⟨r1, pr1⟩, h1, h2⟩ := Res.bind_eq_ok h
    cases h2
    obtain ⟨g1, g2⟩ := sendAppendPr_sf hnb h1 h0
    exact h0.writeBack g1 hg g2

theorem sendAppendAggressively_sf {a r r' : Raft} {to : Nat} (hnb : a.batchAppend = false)
    (h : r.sendAppendAggressively to = .ok r') (h0 : SF a r) : SF a r' := by
  unfold Raft.sendAppendAggressively at h
  split at h
  · cases h
  · rename_i pr hg
    obtain ⟨⟨r1, pr1⟩, h1, h2⟩ := Res.bind_eq_ok h
    cases h2
    obtain ⟨g1, g2⟩ := sendAppendAggressivelyPr_sf hnb _ _ _ h1 h0
    exact h0.writeBack g1 hg g2

theorem sendHeartbeat_sf {a r r' : Raft} {to : Nat} {pr : Progress} {ctx : Option Bytes}
    (h : r.sendHeartbeat to pr ctx = .ok r') (hg : mfun r.prs to = some pr.matched)
    (hid : to ≠ r.id) (h0 : SF a r) : SF a r' := by
  unfold Raft.sendHeartbeat at h
  refine send_sf h ?_ h0
  let m0 : Message :=
    { msgType := .msgHeartbeat, to := to, commit := min pr.matched r.raftLog.committed,
      context := ctx.getD [] }
  obtain ⟨f1, f2, f3, f4, f5⟩ := sendFill_lk r m0 rfl rfl
  refine ⟨f1, f2, (by rw [f3]; rfl), (fun hc => by rw [f3] at hc; cases hc), fun _ => ?_⟩
  rw [f4, f5]
  exact ⟨Nat.min_le_right _ _, pr.matched, hg, Nat.min_le_left _ _, hid⟩

theorem sendTimeoutNow_sf {a r r' : Raft} {to : Nat}
    (h : r.sendTimeoutNow to = .ok r') (h0 : SF a r) : SF a r' := by
  unfold Raft.sendTimeoutNow at h
  exact send_sf h (sent_other r _ rfl rfl (by show MsgType.msgTimeoutNow ≠ _; decide)
    (by show MsgType.msgTimeoutNow ≠ _; decide)) h0

end CC
end Raft
end RaftModel
