import RaftProofs.ClusterCommit5c3F

/-!
Cluster-level commit safety **with `batch_append`** (copy of `ClusterCommit3G.lean` over the bundles without `NoBatch`), part 3G: **the main induction** (`sm_all`): every state of a history under
`Hyp3aB` satisfies all components `Sm`.
-/
namespace RaftModel
namespace ClusterB
open Node Raft Raft.CC RaftProps.C02 RaftProps.C05 Raft.CB Raft.Bt Cluster

variable {cfg : JointConfig} {c0 : Nat} {h : List Sys}

theorem sm_init (H : Hyp3aB cfg c0 h) {s : Sys} (h0 : h[0]? = some s) : Sm h c0 0 s := by
  have H2 := H.toHyp2wB
  have hinit := hist_init H.hist s h0
  obtain ⟨hnet, sto, hboot, _⟩ := H.init s h0
  have hq : ∀ v st, s.node v = some st → st.raft.msgs = [] := init_queue hinit
  have noMem : ∀ E : Ev, ∀ v st, s.node v = some st → ¬ AckedMem s 0 E v st := by
    intro E v st hv hk
    rcases hk with ⟨x, hx, _⟩ | ⟨_, h2, _⟩
    · rcases hx with c | c
      · rw [hnet] at c; cases c
      · rw [hq v st hv] at c; cases c
    · omega
  have hcm : ∀ v st, s.node v = some st →
      st.raft.raftLog.store.hardState.commit ≤ c0 ∧ st.raft.raftLog.committed = c0 := by
    intro v st hv
    obtain ⟨c, rnd, hb⟩ := hboot v st hv
    have hbt := CV.boot_booted c _ rnd st hb
    have hc := H.initc s h0 v st hv
    refine ⟨?_, hc⟩
    rw [hbt.hs]
    rcases boot_committed c _ rnd st hb with e | ⟨e, _⟩
    · rw [← e, hc]; exact Nat.le_refl _
    · rw [e]; exact Nat.zero_le _
  refine ⟨?_, ?_, ?_, ?_, ?_, ?_, ?_, ?_, ?_⟩
  · intro E _ l st hl hs
    obtain ⟨c, rnd, hb⟩ := hboot l st hl
    rw [(CV.boot_booted c _ rnd st hb).state] at hs; cases hs
  · intro E _ v st hv hk
    exact absurd hk (noMem E v st hv)
  · intro E _ v st hv hk
    exact absurd hk.mem (noMem E v st hv)
  · intro v st hv x hx
    rcases hx with c | c
    · rw [hnet] at c; cases c
    · rw [hq v st hv] at c; cases c
  · intro v st hv x hx
    rw [hnet] at hx; cases hx
  · intro E _ v st g hv hg
    rcases hg with c | c
    · rw [hnet] at c; cases c
    · rw [hq v st hv] at c; cases c
  · intro v st hv
    exact .inl (Nat.le_of_eq (hcm v st hv).2)
  · intro v st hv
    exact .inl (hcm v st hv).1
  · intro v st hv
    rw [(hcm v st hv).2]; exact (hcm v st hv).1

/-- **the main induction** -/
theorem sall (H : Hyp3aB cfg c0 h) : ∀ n, SAll h c0 n := by
  intro n
  induction n with
  | zero =>
    intro m s hm hs
    have : m = 0 := by omega
    subst this
    exact sm_init H hs
  | succ n ih =>
    intro m s hm hs
    by_cases hle : m ≤ n
    · exact ih m s hle hs
    · have hmn : m = n + 1 := by omega
      subst hmn
      have hlt : n + 1 < h.length := by
        rcases Nat.lt_or_ge (n + 1) h.length with c | c
        · exact c
        · rw [List.getElem?_eq_none c] at hs; cases hs
      have ha : h[n]? = some h[n] := List.getElem?_eq_some_iff.2 ⟨by omega, rfl⟩
      exact ⟨lc_step H ih ha hs, retm_step H ih ha hs, rets_step H ih ha hs, a2m_step H ih ha hs,
        a2s_step H ih ha hs, g1_step H ih ha hs, nctm_step H ih ha hs, ncts_step H ih ha hs,
        scm_step H ih ha hs⟩

theorem sm_all (H : Hyp3aB cfg c0 h) {n : Nat} {s : Sys} (hn : h[n]? = some s) : Sm h c0 n s :=
  sall H n n s (Nat.le_refl _) hn

end ClusterB
end RaftModel
