import RaftProofs.ClusterFlowI
import RaftProofs.ClusterFlowM
import RaftProofs.ClusterSnap6D

/-!
Cluster-level flow control with **compaction, snapshots between nodes and `request_snapshot`** (C13d),
part 2A: the provenance lemmas of `ClusterFlowM.lean` / `ClusterFlowI.lean` (`flow_prov`, `flow_point`,
`hbm_prov`, `hbm_point`) copied over the step contract of the snapshot layer (`Snap5.KStep`).

The bundle is `Flow2.HypR` = `Snap5.Hyp` (`ClusterSnap5C.lean`, the weakest bundle of the snapshot
layer) **minus its invariant-shaped field `reqok`**, which is derived exactly as in `ClusterSnap6D.lean`
(`HypR.reqInv`, a copy of `Hyp3r.reqInv`: it needs `History`, the fixed configuration, `InitOk`,
`Snap5.KStep` and `NoBatch` only).  `Snap5.Hyp3r` (the bundle of `RaftProps/C01j.lean`) implies it
(`Hyp3r.toHypR`).

The per-call facts (`Raft.CC.G`, clauses `qlk` / `LkOK`, through `Snap5.kstep_g`; `Raft.FH.call_hm`)
are used as they are; the induction along the history is `Snap5.provenance` (ordinary calls establish
the recorded fact; the delivery of a `MsgSnapshot` queues only an append response; the installation of
a pending snapshot, a `send` and a restart queue nothing).
-/
namespace RaftModel
namespace Cluster
namespace Snap5
namespace Flow2
open Node Raft Raft.CC Raft.FH RaftProps.C02 RaftProps.C05 Snap Flow

/-- **the hypotheses of `RaftProps/C13d.lean` / `C17d.lean`, `Hyp` halves**: `Snap5.Hyp` without
`reqok` — a history of `ClusterSem` with a fixed non-empty duplicate-free voter configuration, `InitOk`,
the step contract `Snap5.KStep` (compaction under `CompactOk`, snapshots between nodes, free use of
`request_snapshot`), no batching -/
structure HypR (cfg : JointConfig) (h : List Sys) : Prop where
  hist : History h
  fix : ∀ s ∈ h, FixedCfg cfg s
  ne : cfg.incoming ≠ []
  nd1 : cfg.incoming.Nodup
  nd2 : cfg.outgoing.Nodup
  init : ∀ s : Sys, h[0]? = some s → InitOk s
  steps : ∀ (n : Nat) (a b : Sys), h[n]? = some a → h[n + 1]? = some b → KStep a b
  nb : ∀ s ∈ h, NoBatch s

variable {cfg : JointConfig} {c0 : Nat} {h : List Sys}

/-- `RQ.ReqInv` in every state (copy of `Hyp3r.reqInv`) -/
theorem HypR.reqInv (H : HypR cfg h) : ∀ (n : Nat) (s : Sys), h[n]? = some s → ReqInvS s := by
  obtain ⟨s0, _, hall⟩ := RaftProps.C05.cluster_inv cfg H.ne H.nd1 H.nd2 h H.hist H.fix H.init
    (fun n a b ha hb => (H.steps n a b ha hb).cstep) H.nb
  refine hist_induct h (fun _ s => ReqInvS s) (fun s h0 => ReqInvS.init (hist_init H.hist s h0)) ?_
  intro n a b ha hb ih
  exact ReqInvS.kstep (H.steps n a b ha hb) (hall a (List.mem_iff_getElem?.2 ⟨n, ha⟩)).inv ih

/-- **`reqok` derived**: the bundle implies `Snap5.Hyp` -/
theorem HypR.toHyp (H : HypR cfg h) : Hyp cfg h :=
  { hist := H.hist, fix := H.fix, ne := H.ne, nd1 := H.nd1, nd2 := H.nd2, init := H.init,
    steps := H.steps, nb := H.nb,
    reqok := fun s hs => by
      obtain ⟨n, hn⟩ := List.mem_iff_getElem?.1 hs
      exact (H.reqInv n s hn).reqOk }

theorem _root_.RaftModel.Cluster.Snap5.Hyp.toHypR (H : Hyp cfg h) : HypR cfg h :=
  { hist := H.hist, fix := H.fix, ne := H.ne, nd1 := H.nd1, nd2 := H.nd2, init := H.init,
    steps := H.steps, nb := H.nb }

/-- the bundle of `RaftProps/C01j.lean` implies it -/
theorem _root_.RaftModel.Cluster.Snap5.Hyp3r.toHypR (H : Hyp3r cfg c0 h) : HypR cfg h :=
  { hist := H.hist, fix := H.fix, ne := H.ne, nd1 := H.nd1, nd2 := H.nd2, init := H.init,
    steps := H.steps, nb := H.nb }

theorem isAH_not_resp (x : Message) (hx : isAH x) : x.msgType ≠ .msgAppendResponse := by
  rcases hx with t | t <;> rw [t] <;> intro hc <;> cases hc

/-- **provenance of `MsgAppend`s and `MsgHeartbeat`s** with compaction and snapshots (copy of
`Flow.flow_prov`) -/
theorem flow_prov (H : Hyp cfg h) : ∀ (n : Nat) (s : Sys), h[n]? = some s →
    (∀ i st, s.node i = some st → ∀ x ∈ st.raft.msgs, isAH x → Gen (FlowGen h) n i x) ∧
    (∀ x ∈ s.net, isAH x → ∃ i, Gen (FlowGen h) n i x) := by
  refine provenance H isAH isAH_not_resp (FlowGen h) ?_
  intro n a b i st st' rnd op res ha hb hi hi' hcall hop _ hns _ _ hnet x hx hty
  have hop1 : appOp op = true ∨ ∃ m, op = .step m ∧ m ∈ a.net := by
    rcases hop with g | ⟨m, g1, g2, _⟩
    · exact .inl g
    · exact .inr ⟨m, g1, g2⟩
  have g := kstep_g (H.mokc n a ha) (H.nb a (mem_of_get ha)) hi hop1 hns hcall
  have hid : st.raft.id = i := (((hist_all H.hist).1 a (mem_of_get ha)).ids i st hi).1
  have hlk : lkT x.msgType = true := by
    rcases hty with t | t <;> rw [t] <;> rfl
  rcases g.qlk x hx hlk with c | c
  · exact .inl c
  · right
    refine ⟨b, st', hb, hi', c.lead, c.term.symm, c.frm.trans (g.id.trans hid), ?_, ?_⟩
    · rcases hty with t | t
      · exact (c.app t).1
      · exact (c.hb t).1
    · intro t
      rcases (c.hb t).2 with d | d
      · exact .inl d
      · right; rw [hnet, c.term]; exact d

/-- the point of the history at which the message was queued (copy of `Flow.flow_point`) -/
theorem flow_point (H : Hyp cfg h) {n : Nat} {s : Sys} (hn : h[n]? = some s) {x : Message}
    (hx : x ∈ s.net ∨ ∃ i st, s.node i = some st ∧ x ∈ st.raft.msgs) (hty : isAH x) :
    ∃ n0 s0 st0, n0 ≤ n ∧ h[n0]? = some s0 ∧ s0.node x.frm = some st0 ∧
      st0.raft.state = .leader ∧ st0.raft.term = x.term ∧
      x.commit ≤ st0.raft.raftLog.committed ∧
      (x.msgType = .msgHeartbeat → x.commit = 0 ∨ Anet s0.net x.to x.term x.commit) := by
  have hp := flow_prov H n s hn
  have key : ∃ i, Gen (FlowGen h) n i x := by
    rcases hx with c | ⟨i, st, hi, c⟩
    · exact hp.2 x c hty
    · exact ⟨i, hp.1 i st hi x c hty⟩
  obtain ⟨i, n0, hle, s0, st0, h1, h2, h3, h4, h5, h6, h7⟩ := key
  subst h5
  exact ⟨n0, s0, st0, hle, h1, h2, h3, h4, h6, h7⟩

/-- provenance of heartbeats with the tracker entry of the addressee (copy of `Flow.hbm_prov`) -/
theorem hbm_prov (H : Hyp cfg h) : ∀ (n : Nat) (s : Sys), h[n]? = some s →
    (∀ i st, s.node i = some st → ∀ x ∈ st.raft.msgs, x.msgType = .msgHeartbeat →
      Gen (HbmGen h) n i x) ∧
    (∀ x ∈ s.net, x.msgType = .msgHeartbeat → ∃ i, Gen (HbmGen h) n i x) := by
  refine provenance H (fun x => x.msgType = .msgHeartbeat)
    (fun x hx => by rw [hx]; intro hc; cases hc) (HbmGen h) ?_
  intro n a b i st st' rnd op res ha hb hi hi' hcall hop _ hns _ _ hnet x hx hty
  have hop1 : appOp op = true ∨ ∃ m, op = .step m ∧ m ∈ a.net := by
    rcases hop with g | ⟨m, g1, g2, _⟩
    · exact .inl g
    · exact .inr ⟨m, g1, g2⟩
  have g := kstep_g (H.mokc n a ha) (H.nb a (mem_of_get ha)) hi hop1 hns hcall
  have hid : st.raft.id = i := (((hist_all H.hist).1 a (mem_of_get ha)).ids i st hi).1
  rcases call_hm hcall x hx hty with c | ⟨pr, c1, c2⟩
  · exact .inl c
  · rcases g.qlk x hx (by rw [hty]; rfl) with d | d
    · exact .inl d
    · right
      refine ⟨b, st', pr, hb, hi', d.lead, d.term.symm, d.frm.trans (g.id.trans hid), (d.hb hty).1,
        c1, c2, ?_⟩
      rcases (d.hb hty).2 with e | e
      · exact .inl e
      · right; rw [hnet, d.term]; exact e

/-- the point of the history at which a heartbeat was queued (copy of `Flow.hbm_point`) -/
theorem hbm_point (H : Hyp cfg h) {n : Nat} {s : Sys} (hn : h[n]? = some s) {x : Message}
    (hx : x ∈ s.net ∨ ∃ i st, s.node i = some st ∧ x ∈ st.raft.msgs)
    (hty : x.msgType = .msgHeartbeat) :
    ∃ n0 s0 st0 pr, n0 ≤ n ∧ h[n0]? = some s0 ∧ s0.node x.frm = some st0 ∧
      st0.raft.state = .leader ∧ st0.raft.term = x.term ∧
      x.commit ≤ st0.raft.raftLog.committed ∧
      st0.raft.prs.get x.to = some pr ∧ x.commit ≤ pr.matched ∧
      (x.commit = 0 ∨ Anet s0.net x.to x.term x.commit) := by
  have hp := hbm_prov H n s hn
  have key : ∃ i, Gen (HbmGen h) n i x := by
    rcases hx with c | ⟨i, st, hi, c⟩
    · exact hp.2 x c hty
    · exact ⟨i, hp.1 i st hi x c hty⟩
  obtain ⟨i, n0, hle, s0, st0, pr, h1, h2, h3, h4, h5, h6, h7, h8, h9⟩ := key
  subst h5
  exact ⟨n0, s0, st0, pr, hle, h1, h2, h3, h4, h6, h7, h8, h9⟩

end Flow2
end Snap5
end Cluster
end RaftModel
