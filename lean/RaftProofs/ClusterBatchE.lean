import RaftProofs.ClusterBatchC

/-!
Cluster-level Log Matching **with `batch_append`**, part E: the effect `EffB r r' m` of one call on
the log-related parts of a node — `Eff` of `RaftProofs/ClusterLogE.lean` with the queue clause for
batching (a queued `MsgAppend` keeps its chain, or it was made by a node that is leader after the call:
gap-free, links from the log and the old queue, tail-compatible) and the clause `pk` (a leader that
stays leader of its term keeps the predecessor terms of its log) — for `Raft::step` and the other
entry points of the node model.

Everything that happens in leader mode is proved under the proviso `CleanQ` on the start state; the
top-level lemmas take it in the form "if the node is leader before or after the call, the queue was
clean before".
-/
namespace RaftModel
namespace Raft
namespace Bt

/-- the effect of one call (input message `m`; only a delivered `MsgAppend` matters) -/
structure EffB (r r' : Raft) (m : Message) : Prop where
  inv : r'.raftLog.Inv
  sto : Sub (storeLog r'.raftLog.store) (storeLog r.raftLog.store) ∨
    (Sub (storeLog r'.raftLog.store) r.raftLog.abs ∧ r'.raftLog.store.hardState.term = r'.term)
  log : Sub r'.raftLog.abs r.raftLog.abs ∨ Grew r r' ∨
    (m.msgType = .msgAppend ∧ r'.state ≠ .leader ∧
      DerivedFrom (fun g => g = r.raftLog.abs ∨ g = msgLog m) r'.raftLog.abs)
  /-- a queued `MsgAppend` keeps its chain, or the node is leader now and made it in this call -/
  q : ∀ x ∈ r'.msgs, x.msgType = .msgAppend →
    Kept r.msgs (msgLog x) ∨
    (r'.state = .leader ∧ (Made r.msgs r'.raftLog.abs (msgLog x) ∨ Weird (msgLog x)))
  keep : r.state = .leader → r'.state = .leader → r'.term = r.term →
    r.raftLog.lastIndex ≤ r'.raftLog.lastIndex ∧
    ∀ i e, r.raftLog.abs.entryAt i = some e → r'.raftLog.abs.snapIdx < i →
      r'.raftLog.abs.entryAt i = some e
  pk : r.state = .leader → r'.state = .leader → r'.term = r.term →
    PrevKeep r.raftLog.abs r'.raftLog.abs

theorem N0.effb {r r' : Raft} {m : Message} (h : N0 r r') (hinv : r.raftLog.Inv) : EffB r r' m :=
  ⟨h.inv hinv, .inl (storeLog_same h.ls.ents h.ls.smeta), .inl (by rw [h.abs]; exact Sub.refl _),
    fun x hx hty => .inl ⟨x, h.q x hx hty, hty, Eq.refl _⟩,
    fun _ _ _ => ⟨by rw [h.ls.same.last]; exact Nat.le_refl _, fun i e he _ => by rw [h.abs]; exact he⟩,
    fun _ _ _ => PrevKeep.of_eq h.abs⟩

theorem good_effb {ms : List Message} {g k : LLog} (h : Good ms g k) :
    Kept ms k ∨ (Made ms g k ∨ Weird k) := h

theorem L0.effb {r r' : Raft} {m : Message} (h : L0 r r') (hinv : r.raftLog.Inv) : EffB r r' m :=
  ⟨h.inv hinv, .inl (storeLog_same h.ls.ents h.ls.smeta), .inl (by rw [h.abs]; exact Sub.refl _),
    fun x hx hty => by
      rcases h.q x hx hty with c | c
      · exact .inl c
      · exact .inr ⟨h.st, by rw [h.abs]; exact c⟩,
    fun _ _ _ => ⟨by rw [h.ls.same.last]; exact Nat.le_refl _, fun i e he _ => by rw [h.abs]; exact he⟩,
    fun _ _ _ => PrevKeep.of_eq h.abs⟩

theorem AppendedB.effb {r r' : Raft} {m : Message} {es : List Entry} (h : AppendedB r r' es)
    (hc : CleanQ r.msgs r.raftLog.abs) : EffB r r' m :=
  ⟨h.app.inv, .inl (storeLog_same (h.qs hc).ents (h.qs hc).smeta), .inr (.inl ⟨es, h.app⟩),
    fun x hx hty => by
      rcases (h.qs hc).q x hx hty with c | c
      · exact .inl c
      · exact .inr ⟨h.app.leader, c⟩,
    fun _ _ _ => ⟨by rw [h.app.last]; omega, fun i e he _ => by
      rw [h.app.abs]
      have hl := (r.raftLog.abs.entryAt_lt he).2
      rw [RaftProps.C05.c05_append_entryAt _ _ _ hl]; exact he⟩,
    fun _ _ _ => h.app.prevKeep⟩

theorem AppendedN.effb {r r' : Raft} {m : Message} {es : List Entry} (h : AppendedN r r' es) :
    EffB r r' m :=
  ⟨h.app.inv, .inl (storeLog_same h.qs.ents h.qs.smeta), .inr (.inl ⟨es, h.app⟩),
    fun x hx hty => .inl ⟨x, h.qs.q x hx hty, hty, rfl⟩,
    fun _ _ _ => ⟨by rw [h.app.last]; omega, fun i e he _ => by
      rw [h.app.abs]
      have hl := (r.raftLog.abs.entryAt_lt he).2
      rw [RaftProps.C05.c05_append_entryAt _ _ _ hl]; exact he⟩,
    fun _ _ _ => h.app.prevKeep⟩

/-- the proviso of the top-level lemmas: a node that is leader before or after the call had a clean
queue before it -/
def Prov0 (r r' : Raft) : Prop :=
  (r.state = .leader ∨ r'.state = .leader) → CleanQ r.msgs r.raftLog.abs

/-- **`Raft::step` as an effect**, batching on or off (a delivered `MsgAppend` is well-numbered with
real terms) -/
theorem step_effb {r r' : Raft} {m : Message} {e : Option RaftError} (hinv : r.raftLog.Inv)
    (hcl : Prov0 r r') (hw : m.msgType = .msgAppend → MsgOk m)
    (h : r.step m = .ok (r', e)) : EffB r r' m := by
  rcases step_b hinv h with c | ⟨_, hl, _, _, es, _, c⟩ | ⟨_, _, c⟩ | ⟨hm, hr, r0, c1, c2, c3⟩ |
    ⟨hm, hr, c⟩ | ⟨hl, _, c⟩
  · exact c.effb hinv
  · exact c.effb (hcl (.inl hl))
  · exact AppendedB.effb c (hcl (.inr c.app.leader))
  · obtain ⟨e1, e2, e3, e4, e5, e6⟩ := handleAppendEntries_eff (c1.inv hinv) (hw hm) c3
    have hst : r'.state = .follower := e6.state.trans c2
    refine ⟨e1, .inl (storeLog_same (by rw [e2]; exact c1.ls.ents) (by rw [e2]; exact c1.ls.smeta)),
      .inr (.inr ⟨hm, by rw [hst]; decide, by rw [c1.abs] at e3; exact e3⟩), ?_, ?_, ?_⟩
    · intro x hx hty
      exact .inl ⟨x, c1.q x (e4 x hx hty) hty, hty, rfl⟩
    · intro _ h2 _
      rw [hst] at h2; cases h2
    · intro _ h2 _
      rw [hst] at h2; cases h2
  · refine ⟨c.res.inv, .inl (storeLog_same c.qn.ents c.qn.smeta),
      .inl (Sub.of_no_entries (by rw [c.res.abs]; rfl)), ?_, ?_, ?_⟩
    · intro x hx hty
      exact .inl ⟨x, c.qn.q x hx hty, hty, rfl⟩
    · intro h1 _ h3
      rcases hr with hr | ⟨hr1, hr2⟩
      · exact absurd h1 hr
      · omega
    · intro h1 _ h3
      rcases hr with hr | ⟨hr1, hr2⟩
      · exact absurd h1 hr
      · omega
  · exact (c hinv (hcl (.inl hl))).effb hinv

/-- the same effect seen from a start state that differs in fields the effect does not read -/
theorem EffB.rebase {a r r' : Raft} {m : Message} (h : EffB r r' m) (hl : r.raftLog = a.raftLog)
    (hm : r.msgs = a.msgs) (hs : r.state = a.state) (ht : r.term = a.term) : EffB a r' m :=
  ⟨h.inv, by rw [← hl]; exact h.sto, by
    rcases h.log with c | ⟨es, c⟩ | c
    · exact .inl (by rw [← hl]; exact c)
    · exact .inr (.inl ⟨es, ⟨c.ne, by rw [← hl]; exact c.abs, by rw [← hl]; exact c.contig, c.terms,
        by rw [← hl]; exact c.last, c.inv, by rw [← hl]; exact c.commit, c.leader⟩⟩)
    · exact .inr (.inr (by rw [← hl]; exact c)),
    by rw [← hm]; exact h.q, by rw [← hl, ← hs, ← ht]; exact h.keep,
    by rw [← hl, ← hs, ← ht]; exact h.pk⟩

theorem Prov0.rebase {a r r' : Raft} (h : Prov0 a r') (hl : r.raftLog = a.raftLog)
    (hm : r.msgs = a.msgs) (hs : r.state = a.state) : Prov0 r r' := by
  unfold Prov0 at *
  rw [hl, hm, hs]; exact h

theorem stepIgnore_effb {r r' : Raft} {m : Message} (hinv : r.raftLog.Inv)
    (hcl : Prov0 r r') (hw : m.msgType = .msgAppend → MsgOk m)
    (h : r.stepIgnore m = .ok r') : EffB r r' m := by
  unfold Raft.stepIgnore at h
  obtain ⟨⟨r1, e⟩, hs, h⟩ := Res.bind_eq_ok h
  cases h
  exact step_effb hinv hcl hw hs

theorem EffB.retag {r r' : Raft} {m m' : Message} (h : EffB r r' m) (hm : m.msgType ≠ .msgAppend) :
    EffB r r' m' :=
  ⟨h.inv, h.sto, by
    rcases h.log with c | c | ⟨c, _⟩
    · exact .inl c
    · exact .inr (.inl c)
    · exact absurd c hm, h.q, h.keep, h.pk⟩

/-! ### the entry points that keep the logical log -/

/-- what a call that keeps the logical log leaves: nothing but non-`MsgAppend` messages queued, or a
leader that replicated -/
def SL (r r' : Raft) : Prop := N0 r r' ∨ (r.state = .leader ∧ L r r')

theorem SL.effb {r r' : Raft} {m : Message} (h : SL r r') (hinv : r.raftLog.Inv) (hcl : Prov0 r r') :
    EffB r r' m := by
  rcases h with c | ⟨hl, c⟩
  · exact c.effb hinv
  · exact (c hinv (hcl (.inl hl))).effb hinv

theorem postConfChange_b {r r' : Raft} {cs : ConfState}
    (h : r.postConfChange = .ok (r', cs)) (hinv : r.raftLog.Inv) : SL r r' := by
  unfold Raft.postConfChange at h
  simp only at h
  split at h
  · cases h; exact .inl (becomeFollower_n _ _ (N.mk' N.rfl) hinv)
  · split at h
    · cases h; exact .inl (N.mk' N.rfl hinv)
    · rename_i hnl
      have hs : r.state = .leader := by
        apply Classical.byContradiction
        intro hc
        exact hnl (.inl hc)
      refine .inr ⟨hs, ?_⟩
      have h0 : L r ({ r with promotable := Joint.contains r.prs.voters r.id } : Raft) :=
        L.mk' (L.rfl hs)
      obtain ⟨r1, hr1, h⟩ := Res.bind_eq_ok h
      have h1 : L r r1 := by
        split at hr1
        · rename_i r3 hm
          exact bcastAppend_l hr1 (maybeCommit_l hm h0)
        · rename_i r3 hm
          refine forEachPeer_l ?_ hr1 (maybeCommit_l hm h0)
          intro r id pr r' pr' hh hh0
          l_auto hh [maybeSendAppend_l]
        · cases hr1
        · cases hr1
      obtain ⟨r2, hr2, h⟩ := Res.bind_eq_ok h
      have h2 : L r r2 := by
        l_auto hr2 [respondReadStates_l]
      l_auto h [send_l]

theorem SL.after {a r r' : Raft} (h0 : N0 a r) (hs : r.state = a.state) (h : SL r r') : SL a r' := by
  rcases h with c | ⟨hl, c⟩
  · exact .inl (h0.trans c)
  · exact .inr ⟨hs ▸ hl, L.after h0 c⟩

theorem applyConfChange_b {r r' : Raft} {cc : ConfChangeV2} {res : Except ErrKind ConfState}
    (h : r.applyConfChange cc = .ok (r', res)) (hinv : r.raftLog.Inv) : SL r r' := by
  unfold Raft.applyConfChange at h
  frame_dec h
  all_goals first
    | exact .inl N0.rfl
    | (rename_i a hx
       have hp := postConfChange_b (cs := a.2) hx hinv
       refine SL.after ?_ ?_ hp
       · exact N0.of_fields (Eq.refl _) (Eq.refl _) (Eq.refl _)
       · exact Eq.refl _)

theorem ping_n {a r r' : Raft} (h : r.ping = .ok r') (h0 : N a r) : N a r' := by
  unfold Raft.ping at h
  n_auto h [bcastHeartbeat_n]

theorem requestSnapshot_n {a r r' : Raft} {e : Option RaftError}
    (h : r.requestSnapshot = .ok (r', e)) (h0 : N a r) : N a r' := by
  unfold Raft.requestSnapshot at h
  n_auto h [sendRequestSnapshot_n]

theorem enableGroupCommit_b {r r' : Raft} {b : Bool}
    (h : r.enableGroupCommit b = .ok r') (hinv : r.raftLog.Inv) : SL r r' := by
  unfold Raft.enableGroupCommit at h
  simp only at h
  split at h
  · rename_i hc
    have hs : r.state = .leader := hc.1
    refine .inr ⟨hs, ?_⟩
    have h0 : L r ({ r with prs := { r.prs with groupCommit := b } } : Raft) := L.mk' (L.rfl hs)
    l_auto h [maybeCommit_l, bcastAppend_l]
  · cases h; exact .inl (N.mk' N.rfl hinv)

theorem adjustMaxInflightMsgs_n {a r r' : Raft} {t c : Nat}
    (h : r.adjustMaxInflightMsgs t c = .ok r') (h0 : N a r) : N a r' := by
  unfold Raft.adjustMaxInflightMsgs at h
  n_auto h [N.rfl]

theorem assignCommitGroups_b {r r' : Raft} {ids : List (Nat × Nat)}
    (h : r.assignCommitGroups ids = .ok r') (_hinv : r.raftLog.Inv) : SL r r' := by
  unfold Raft.assignCommitGroups at h
  obtain ⟨r1, hr1, h⟩ := Res.bind_eq_ok h
  have key : ∀ (l : List (Nat × Nat)) (acc : Res Raft) (r1 : Raft),
      l.foldl (fun (acc : Res Raft) (p : Nat × Nat) =>
        acc.bind (fun r =>
          if p.2 = 0 then .panic "raft.assign_commit_groups.assert"
          else .ok (r.modifyProgress p.1 (fun pr => { pr with commitGroupId := p.2 })))) acc = .ok r1 →
      ∃ r0, acc = .ok r0 ∧ r1.raftLog = r0.raftLog ∧ r1.batchAppend = r0.batchAppend ∧
        r1.msgs = r0.msgs ∧ r1.state = r0.state := by
    intro l
    induction l with
    | nil => intro acc r1 h; exact ⟨r1, h, rfl, rfl, rfl, rfl⟩
    | cons p rest ih =>
      intro acc r1 h
      simp only [List.foldl_cons] at h
      obtain ⟨r0, e0, f1, f2, f3, f4⟩ := ih _ r1 h
      cases acc with
      | err e => cases e0
      | panic s => cases e0
      | ok ra =>
        change (if p.2 = 0 then Res.panic _ else Res.ok _) = _ at e0
        split at e0
        · cases e0
        · cases e0
          exact ⟨ra, rfl, f1, f2, f3, f4⟩
  obtain ⟨r0, e0, f1, f2, f3, f4⟩ := key _ _ _ hr1
  cases e0
  have hn1 : N0 r r1 := N0.of_fields f1 f2 f3
  split at h
  · rename_i hc
    have hs1 : r1.state = .leader := hc.1
    refine SL.after hn1 f4 (.inr ⟨hs1, ?_⟩)
    have h0 : L r1 r1 := L.rfl hs1
    l_auto h [maybeCommit_l, bcastAppend_l]
  · cases h; exact .inl hn1

/-- `on_persist_entries`: only `persisted` (and on a leader possibly the commit index) moves -/
theorem onPersistEntries_b {r r' : Raft} {index term : Nat} (hinv : r.raftLog.Inv)
    (h : r.onPersistEntries index term = .ok r') : SL r r' := by
  unfold Raft.onPersistEntries at h
  split at h
  · cases h
  · cases h
  · rename_i log update hmp
    obtain ⟨l', b', hmp', hinv', habs', hc', _, _, _⟩ :=
      RaftProps.C14.C14_maybePersist_spec r.raftLog hinv index term
    rw [hmp] at hmp'
    cases hmp'
    have hsto := RaftModel.C06.maybePersist_store hmp
    have hlast : log.lastIndex = r.raftLog.lastIndex := by
      rw [hinv'.lastIndex_abs, hinv.lastIndex_abs, habs']
    have hls : LogSameS r.raftLog log :=
      ⟨⟨habs', hlast, fun _ => hinv', by omega⟩, by rw [hsto], by rw [hsto]⟩
    simp only [] at h
    split at h
    · rename_i hc
      have hs : r.state = .leader := hc.2
      refine .inr ⟨hs, ?_⟩
      have h0 : L r ({ r with raftLog := log } : Raft) := L.log hls (L.rfl hs)
      l_auto h [maybeCommit_l, bcastAppend_l]
    · cases h
      exact .inl (N.log hls N.rfl hinv)

/-- the local messages of `tick_heartbeat` -/
def quietT (t : MsgType) : Bool :=
  match t with
  | .msgBeat | .msgCheckQuorum => true
  | _ => false

/-- `step` on `MsgBeat` / `MsgCheckQuorum` queues no `MsgAppend` -/
theorem stepIgnore_quiet_n {r r' : Raft} {m : Message} (hinv : r.raftLog.Inv)
    (hm : quietT m.msgType = true) (h : r.stepIgnore m = .ok r') :
    N0 r r' := by
  unfold Raft.stepIgnore at h
  obtain ⟨⟨r1, e⟩, hs, h⟩ := Res.bind_eq_ok h
  cases h
  rcases step_b hinv hs with c | ⟨c, _⟩ | ⟨c, _⟩ | ⟨c, _⟩ | ⟨c, _⟩ | ⟨_, c, _⟩
  · exact c
  · rw [c] at hm; cases hm
  · rcases c with c | c | c | c <;> rw [c] at hm <;> cases hm
  · rw [c] at hm; cases hm
  · rw [c] at hm; cases hm
  · rcases c with c | c | c | c <;> rw [c] at hm <;> cases hm

theorem stepIgnore_quiet_n' {a r r' : Raft} {m : Message} (h : r.stepIgnore m = .ok r')
    (hinv : a.raftLog.Inv)
    (hl : r.raftLog = a.raftLog) (hb : r.batchAppend = a.batchAppend)
    (hms : r.msgs = a.msgs)
    (hm : quietT m.msgType = true) :
    N0 a r' :=
  (N0.of_fields hl hb hms).trans (stepIgnore_quiet_n (by rw [hl]; exact hinv) hm h)

/-- `tick` on a leader keeps the logical log and queues no `MsgAppend` -/
theorem tick_leader_n {r r' : Raft} {b : Bool} (hinv : r.raftLog.Inv)
    (hs : r.state = .leader) (h : r.tick = .ok (r', b)) : N0 r r' := by
  unfold Raft.tick at h
  rw [hs] at h
  simp only at h
  unfold Raft.tickHeartbeat at h
  simp only at h
  obtain ⟨⟨r1, b1⟩, h1, h⟩ := Res.bind_eq_ok h
  have hl1 : N0 r r1 := by
    split at h1
    · obtain ⟨⟨r2, b2⟩, h2, h1⟩ := Res.bind_eq_ok h1
      have hl2 : N0 r r2 := by
        split at h2
        · obtain ⟨r3, h3, h2⟩ := Res.bind_eq_ok h2
          cases h2
          exact stepIgnore_quiet_n' h3 hinv rfl rfl rfl rfl
        · cases h2; exact N0.rfl
      simp only at h1
      split at h1
      · cases h1; exact hl2
      · cases h1; exact hl2
    · cases h1; exact N0.rfl
  simp only at h
  split at h
  · cases h; exact hl1
  · split at h
    · obtain ⟨r3, h3, h⟩ := Res.bind_eq_ok h
      cases h
      exact hl1.trans (stepIgnore_quiet_n' h3 (hl1.inv hinv) rfl rfl rfl rfl)
    · cases h; exact hl1

/-- **`tick` as an effect** -/
theorem tick_effb {r r' : Raft} {b : Bool} {m : Message} (hinv : r.raftLog.Inv)
    (hcl : Prov0 r r') (h : r.tick = .ok (r', b)) : EffB r r' m := by
  by_cases hs : r.state = .leader
  · exact (tick_leader_n hinv hs h).effb hinv
  · have hel : r.tickElection = .ok (r', b) := by
      unfold Raft.tick at h
      cases hst : r.state <;> rw [hst] at h <;> first | exact h | exact absurd hst hs
    unfold Raft.tickElection at hel
    simp only at hel
    split at hel
    · cases hel
      refine N0.effb ?_ hinv
      exact N0.of_fields rfl rfl rfl
    · obtain ⟨r3, h3, hel⟩ := Res.bind_eq_ok hel
      cases hel
      have := stepIgnore_effb (r := ({ r with electionElapsed := 0 } : Raft)) hinv
        (hcl.rebase rfl rfl rfl) (fun hc => by cases hc) h3
      exact (this.retag (by intro hc; cases hc)).rebase rfl rfl rfl rfl

end Bt
end Raft
end RaftModel
