import RaftProofs.ClusterVoteG

/-!
Cluster-level election safety, part H: the invariant `Inv2 cfg` under a fixed voter configuration
(a non-follower is a voter; the recorded grants of a candidate and the quorum behind a leader are
backed by granted responses in the transport), initial states, and histories.
-/
namespace RaftModel
namespace Cluster
open Node Raft Raft.CV

structure Inv2 (cfg : JointConfig) (s : Sys) : Prop where
  prom : ∀ i st, s.node i = some st → st.raft.promotable = Joint.contains cfg i
  nonfol : ∀ i st, s.node i = some st → st.raft.state ≠ .follower → Joint.contains cfg i = true
  cand : ∀ i st, s.node i = some st → st.raft.state = .candidate →
    ∀ j, (j, true) ∈ st.raft.prs.votes → j = i ∨ Grant s.net j i st.raft.term
  lead : ∀ i st, s.node i = some st → st.raft.state = .leader →
    ∃ Q, IsJointQuorum cfg Q ∧ ∀ j ∈ Q, j = i ∨ Grant s.net j i st.raft.term

/-- a call of node `i` (`call` or `deliver`) -/
theorem Inv2.step_node {cfg : JointConfig} {s : Sys} {i : Nat} {st st' : NState} {m : Message}
    (hinv1 : Inv1 s) (hinv : Inv2 cfg s) (hn : s.node i = some st)
    (hns : NStep st.raft m st'.raft)
    (hm : ∀ t j, MBack m t j → Grant s.net j i t)
    (hcfg : st'.raft.prs.voters = cfg) : Inv2 cfg (s.setNode i st') := by
  obtain ⟨hid, _⟩ := hinv1.ids i st hn
  have hnode : ∀ j, (s.setNode i st').node j = if j = i then some st' else s.node j :=
    fun j => node_setNode s i j st'
  have hprom' : st'.raft.promotable = Joint.contains cfg i := by
    rcases hns.pk with g | g
    · rw [g]; exact hinv.prom i st hn
    · rw [g, hcfg, hns.id, hid]
  refine ⟨?_, ?_, ?_, ?_⟩
  · intro j stj hj
    rw [hnode] at hj
    split at hj
    · rename_i hji; subst hji; cases hj; exact hprom'
    · exact hinv.prom j stj hj
  · intro j stj hj hne
    rw [hnode] at hj
    split at hj
    · rename_i hji; subst hji; cases hj
      rcases hns.nf hne with g | g
      · exact hinv.nonfol j st hn g
      · rw [← hprom']; exact g
    · exact hinv.nonfol j stj hj hne
  · intro j stj hj hc k hk
    rw [hnode] at hj
    show k = j ∨ Grant s.net k j stj.raft.term
    split at hj
    · rename_i hji; subst hji; cases hj
      rcases hns.cand hc k hk with g | g | ⟨g1, g2, g3⟩
      · exact Or.inl (g.trans hid)
      · exact Or.inr (hm _ k g)
      · rw [← g2]; exact hinv.cand j st hn g1 k g3
    · exact hinv.cand j stj hj hc k hk
  · intro j stj hj hl
    rw [hnode] at hj
    show ∃ Q, IsJointQuorum cfg Q ∧ ∀ k ∈ Q, k = j ∨ Grant s.net k j stj.raft.term
    split at hj
    · rename_i hji; subst hji; cases hj
      rcases hns.lead hl with ⟨g1, g2⟩ | ⟨Q, q1, q2⟩
      · rw [← g2]; exact hinv.lead j st hn g1
      · refine ⟨Q, by rw [← hcfg]; exact q1, fun k hk => ?_⟩
        rcases q2 k hk with g | g | ⟨g1, g2, g3⟩
        · exact Or.inl (g.trans hid)
        · exact Or.inr (hm _ k g)
        · rw [← g2]; exact hinv.cand j st hn g1 k g3
    · exact hinv.lead j stj hj hl

/-- **`Inv2 cfg` is preserved by every step between states of configuration `cfg`** -/
theorem Inv2.step {cfg : JointConfig} {s s' : Sys} (hinv1 : Inv1 s) (hinv : Inv2 cfg s)
    (hstep : Step s s') (hf' : FixedCfg cfg s') : Inv2 cfg s' := by
  cases hstep with
  | call i st st' rnd op res hn hop hc =>
    have hns := call_nstep st st' rnd op res hc
    have hloc : (opMsg op).msgType = .msgHup := by
      cases op <;> first | rfl | cases hop
    refine Inv2.step_node hinv1 hinv hn hns (fun t j hb => ?_)
      (hf' i st' (node_setNode_self s i st'))
    have hb1 := hb.1
    rw [hloc] at hb1; cases hb1
  | deliver i st st' rnd m res hn hm hto hc =>
    have hns := call_nstep st st' rnd (.step m) res hc
    refine Inv2.step_node hinv1 hinv hn hns (fun t j hb => ?_)
      (hf' i st' (node_setNode_self s i st'))
    obtain ⟨b1, b2, b3, b4⟩ := hb
    have b1' : m.msgType = .msgRequestVoteResponse := b1
    have b2' : m.reject = false := b2
    have hrv : isRVm m = true := by unfold isRVm; simp [b1', b2']
    obtain ⟨_, _, hok, _⟩ := hinv1.net m hm hrv
    have ht : m.term = t := by
      rcases b4 with g | g
      · exact g
      · exact absurd g hok.2.1
    exact ⟨m, hm, b1', b2', b3, hto, ht⟩
  | send i st st' hn hp hc =>
    obtain ⟨hcore, hmsgs⟩ := drain_eq st st' hc
    have e1 : st'.raft.term = st.raft.term := congrArg NCore.term hcore
    have e4 : st'.raft.state = st.raft.state := congrArg NCore.state hcore
    have e5 : st'.raft.promotable = st.raft.promotable := congrArg NCore.promotable hcore
    have e7 : st'.raft.prs.votes = st.raft.prs.votes := congrArg NCore.votes hcore
    have hsub : ∀ x ∈ s.net, x ∈ s.net ++ st.raft.msgs := fun x hx => List.mem_append_left _ hx
    have hnode : ∀ j, ({ (s.setNode i st') with net := s.net ++ st.raft.msgs } : Sys).node j =
        if j = i then some st' else s.node j := fun j => node_setNode s i j st'
    refine ⟨?_, ?_, ?_, ?_⟩
    · intro j stj hj
      rw [hnode] at hj
      split at hj
      · rename_i hji; subst hji; cases hj; rw [e5]; exact hinv.prom j st hn
      · exact hinv.prom j stj hj
    · intro j stj hj hne
      rw [hnode] at hj
      split at hj
      · rename_i hji; subst hji; cases hj; rw [e4] at hne; exact hinv.nonfol j st hn hne
      · exact hinv.nonfol j stj hj hne
    · intro j stj hj hc k hk
      rw [hnode] at hj
      show k = j ∨ Grant (s.net ++ st.raft.msgs) k j stj.raft.term
      split at hj
      · rename_i hji; subst hji; cases hj
        rw [e4] at hc; rw [e7] at hk; rw [e1]
        exact (hinv.cand j st hn hc k hk).imp id (fun g => g.mono hsub)
      · exact (hinv.cand j stj hj hc k hk).imp id (fun g => g.mono hsub)
    · intro j stj hj hl
      rw [hnode] at hj
      show ∃ Q, IsJointQuorum cfg Q ∧ ∀ k ∈ Q, k = j ∨ Grant (s.net ++ st.raft.msgs) k j stj.raft.term
      split at hj
      · rename_i hji; subst hji; cases hj
        rw [e4] at hl; rw [e1]
        obtain ⟨Q, q1, q2⟩ := hinv.lead j st hn hl
        exact ⟨Q, q1, fun k hk => (q2 k hk).imp id (fun g => g.mono hsub)⟩
      · obtain ⟨Q, q1, q2⟩ := hinv.lead j stj hj hl
        exact ⟨Q, q1, fun k hk => (q2 k hk).imp id (fun g => g.mono hsub)⟩
  | restart i st st' c rnd hn hci hb =>
    have hbt := boot_booted c _ rnd st' hb
    have hnode : ∀ j, (s.setNode i st').node j = if j = i then some st' else s.node j :=
      fun j => node_setNode s i j st'
    have hcfg := hf' i st' (node_setNode_self s i st')
    refine ⟨?_, ?_, ?_, ?_⟩
    · intro j stj hj
      rw [hnode] at hj
      split at hj
      · rename_i hji; subst hji; cases hj
        rw [hbt.prom, hcfg, hbt.id, hci]
      · exact hinv.prom j stj hj
    · intro j stj hj hne
      rw [hnode] at hj
      split at hj
      · cases hj; exact absurd hbt.state hne
      · exact hinv.nonfol j stj hj hne
    · intro j stj hj hc k hk
      rw [hnode] at hj
      split at hj
      · cases hj; rw [hbt.state] at hc; cases hc
      · exact hinv.cand j stj hj hc k hk
    · intro j stj hj hl
      rw [hnode] at hj
      split at hj
      · cases hj; rw [hbt.state] at hl; cases hl
      · exact hinv.lead j stj hj hl

/-! ### initial states -/

theorem Inv1.init {s : Sys} (h : Init s) : Inv1 s := by
  obtain ⟨hnet, hboot⟩ := h
  refine ⟨?_, ?_, ?_, ?_⟩
  · intro i st hn
    obtain ⟨c, store, rnd, hc, hb⟩ := hboot i st hn
    have hbt := boot_booted c store rnd st hb
    exact ⟨hbt.id.trans hc, by rw [← hc]; exact hbt.idnz⟩
  · intro i st hn x hx
    obtain ⟨c, store, rnd, hc, hb⟩ := hboot i st hn
    have hbt := boot_booted c store rnd st hb
    rw [hbt.msgs] at hx; cases hx
  · intro x hx
    rw [hnet] at hx; cases hx
  · intro i st hn x y hx
    obtain ⟨c, store, rnd, hc, hb⟩ := hboot i st hn
    have hbt := boot_booted c store rnd st hb
    rw [hnet, hbt.msgs] at hx
    rcases hx with g | g <;> cases g

theorem Inv2.init {cfg : JointConfig} {s : Sys} (h : Init s) (hf : FixedCfg cfg s) : Inv2 cfg s := by
  obtain ⟨hnet, hboot⟩ := h
  refine ⟨?_, ?_, ?_, ?_⟩
  · intro i st hn
    obtain ⟨c, store, rnd, hc, hb⟩ := hboot i st hn
    have hbt := boot_booted c store rnd st hb
    rw [hbt.prom, hf i st hn, hbt.id, hc]
  · intro i st hn hne
    obtain ⟨c, store, rnd, hc, hb⟩ := hboot i st hn
    exact absurd (boot_booted c store rnd st hb).state hne
  · intro i st hn hc'
    obtain ⟨c, store, rnd, hc, hb⟩ := hboot i st hn
    rw [(boot_booted c store rnd st hb).state] at hc'; cases hc'
  · intro i st hn hl
    obtain ⟨c, store, rnd, hc, hb⟩ := hboot i st hn
    rw [(boot_booted c store rnd st hb).state] at hl; cases hl

/-! ### histories -/

/-- reflexive-transitive closure of `Step` -/
inductive Steps : Sys → Sys → Prop where
  | refl (s : Sys) : Steps s s
  | tail (a b c : Sys) : Steps a b → Step b c → Steps a c

theorem step_net {s s' : Sys} (h : Step s s') : ∀ x ∈ s.net, x ∈ s'.net := by
  cases h with
  | call => intro x hx; exact hx
  | deliver => intro x hx; exact hx
  | send => intro x hx; exact List.mem_append_left _ hx
  | restart => intro x hx; exact hx

theorem steps_net {s s' : Sys} (h : Steps s s') : ∀ x ∈ s.net, x ∈ s'.net := by
  induction h with
  | refl => intro x hx; exact hx
  | tail b c _ hs ih => intro x hx; exact step_net hs x (ih x hx)

theorem step_node_some {s s' : Sys} (h : Step s s') (i : Nat) (st : NState)
    (hn : s.node i = some st) : ∃ st', s'.node i = some st' := by
  have key : ∀ (k : Nat) (stk : NState), ∃ st', (s.setNode k stk).node i = some st' := by
    intro k stk
    rw [node_setNode]
    split
    · exact ⟨_, rfl⟩
    · exact ⟨st, hn⟩
  cases h with
  | call k => exact key k _
  | deliver k => exact key k _
  | send k => exact key k _
  | restart k => exact key k _

/-- everything the proofs need about a history, by one induction -/
theorem hist_all {l : List Sys} (hh : History l) :
    (∀ s ∈ l, Inv1 s) ∧
    (∀ cfg, (∀ s ∈ l, FixedCfg cfg s) → ∀ s ∈ l, Inv2 cfg s) ∧
    (∀ (i j : Nat) (s s' : Sys), i ≤ j → l[i]? = some s → l[j]? = some s' → Steps s s') := by
  induction hh with
  | init s hs =>
    refine ⟨?_, ?_, ?_⟩
    · intro x hx
      simp only [List.mem_singleton] at hx
      subst hx; exact Inv1.init hs
    · intro cfg hf x hx
      simp only [List.mem_singleton] at hx
      subst hx; exact Inv2.init hs (hf _ (List.mem_singleton.2 rfl))
    · intro i j a b hij hi hj
      have hi0 : i = 0 := by
        cases i with
        | zero => rfl
        | succ n => simp at hi
      have hj0 : j = 0 := by
        cases j with
        | zero => rfl
        | succ n => simp at hj
      subst hi0 hj0
      simp only [List.getElem?_cons_zero, Option.some.injEq] at hi hj
      subst hi hj
      exact Steps.refl _
  | step h s s' hprev hstep ih =>
    obtain ⟨ih1, ih2, ih3⟩ := ih
    have hl : h ++ [s, s'] = (h ++ [s]) ++ [s'] := by simp
    have hs_mem : s ∈ h ++ [s] := List.mem_append_right _ (List.mem_singleton.2 rfl)
    have hmem : ∀ x, x ∈ h ++ [s, s'] → x ∈ h ++ [s] ∨ x = s' := by
      intro x hx
      rw [hl] at hx
      rcases List.mem_append.1 hx with g | g
      · exact Or.inl g
      · exact Or.inr (List.mem_singleton.1 g)
    have hsub : ∀ x, x ∈ h ++ [s] → x ∈ h ++ [s, s'] := by
      intro x hx; rw [hl]; exact List.mem_append_left _ hx
    have hs'_mem : s' ∈ h ++ [s, s'] := by
      rw [hl]; exact List.mem_append_right _ (List.mem_singleton.2 rfl)
    refine ⟨?_, ?_, ?_⟩
    · intro x hx
      rcases hmem x hx with g | g
      · exact ih1 x g
      · subst g; exact (ih1 s hs_mem).step hstep
    · intro cfg hf x hx
      have hf0 : ∀ y ∈ h ++ [s], FixedCfg cfg y := fun y hy => hf y (hsub y hy)
      rcases hmem x hx with g | g
      · exact ih2 cfg hf0 x g
      · subst g
        exact (ih2 cfg hf0 s hs_mem).step (ih1 s hs_mem) hstep (hf _ hs'_mem)
    · intro i j a b hij hi hj
      rw [hl] at hi hj
      have hlen : (h ++ [s]).length = h.length + 1 := by simp
      have hlast : (h ++ [s])[h.length]? = some s := by simp
      by_cases hjlt : j < (h ++ [s]).length
      · have hilt : i < (h ++ [s]).length := by omega
        rw [List.getElem?_append_left hjlt] at hj
        rw [List.getElem?_append_left hilt] at hi
        exact ih3 i j a b hij hi hj
      · have hjge : (h ++ [s]).length ≤ j := by omega
        rw [List.getElem?_append_right hjge] at hj
        have hj0 : j - (h ++ [s]).length = 0 := by
          cases hk : j - (h ++ [s]).length with
          | zero => rfl
          | succ n => rw [hk] at hj; simp at hj
        rw [hj0] at hj
        simp only [List.getElem?_cons_zero, Option.some.injEq] at hj
        subst hj
        by_cases hilt : i < (h ++ [s]).length
        · rw [List.getElem?_append_left hilt] at hi
          have : Steps a s := ih3 i h.length a s (by omega) hi hlast
          exact Steps.tail _ _ _ this hstep
        · have hige : (h ++ [s]).length ≤ i := by omega
          rw [List.getElem?_append_right hige] at hi
          have hi0 : i - (h ++ [s]).length = 0 := by omega
          rw [hi0] at hi
          simp only [List.getElem?_cons_zero, Option.some.injEq] at hi
          subst hi
          exact Steps.refl _

/-- consecutive states of a history are related by `Step` -/
theorem hist_step_at {l : List Sys} (hh : History l) :
    ∀ (m : Nat) (a b : Sys), l[m]? = some a → l[m + 1]? = some b → Step a b := by
  induction hh with
  | init s hs =>
    intro m a b _ hb
    simp at hb
  | step h s s' hprev hstep ih =>
    intro m a b ha hb
    have hl : h ++ [s, s'] = (h ++ [s]) ++ [s'] := by simp
    rw [hl] at ha hb
    have hlen : (h ++ [s]).length = h.length + 1 := by simp
    have hlast : (h ++ [s])[h.length]? = some s := by simp
    by_cases hlt : m + 1 < (h ++ [s]).length
    · rw [List.getElem?_append_left hlt] at hb
      rw [List.getElem?_append_left (by omega)] at ha
      exact ih m a b ha hb
    · have hge : (h ++ [s]).length ≤ m + 1 := by omega
      rw [List.getElem?_append_right hge] at hb
      have h0 : m + 1 - (h ++ [s]).length = 0 := by
        cases hk : m + 1 - (h ++ [s]).length with
        | zero => rfl
        | succ n => rw [hk] at hb; simp at hb
      rw [h0] at hb
      simp only [List.getElem?_cons_zero, Option.some.injEq] at hb
      subst hb
      have hm : m = h.length := by omega
      rw [List.getElem?_append_left (by omega), hm, hlast] at ha
      cases ha
      exact hstep

end Cluster
end RaftModel
