import RaftProofs.ClusterFlowB

/-!
Cluster-level flow control (C13), part C: the window invariant `TOk r.prs` through the leader side
(`RaftModel/RaftLeader.lean`), the follower / candidate side (`RaftModel/RaftFollower.lean`), `step`,
`tick`, `Raft::new`, `post_conf_change` / `apply_conf_change`, the group-commit switches and the
`RawNode` wrappers (`RaftModel/RaftStep.lean`).
-/
namespace RaftModel
namespace Raft
namespace FL

/-! ### leader side -/

theorem checkQuorumActive_tok (r : Raft) (h : TOk r.prs) : TOk r.checkQuorumActive.1.prs := by
  unfold checkQuorumActive
  exact h.quorumRecentlyActive r.id

theorem filterProposal_tok (es : List Entry) (r : Raft) (i : Nat) (h : TOk r.prs) :
    TOk (r.filterProposal i es).1.prs := by
  rw [RaftProps.C13.filterProposal_frame es r i]; exact h

/-- the read-index acknowledgement tail shared by `handle_heartbeat_response` and `post_conf_change` -/
theorem advance_tok (r : Raft) (ro0 : ReadOnly) (ctx : Bytes) (h : TOk r.prs) :
    Res.Post RQ ((ro0.advance ctx).bind (fun (ro, rss) =>
      ({ r with readOnly := ro } : Raft).respondReadStates rss)) := by
  cases hadv : ro0.advance ctx with
  | ok p =>
    obtain ⟨ro, rss⟩ := p
    exact respondReadStates_tok _ rss h
  | err e => trivial
  | panic s => trivial

theorem handleHeartbeatResponse_tok (r : Raft) (m : Message) (h : TOk r.prs) :
    Res.Post RQ (r.handleHeartbeatResponse m) := by
  unfold handleHeartbeatResponse
  split
  · exact h
  · rename_i pr hg
    have hp : PI pr := h.get hg
    simp only []
    have hp0 : PI ({ pr.updateCommitted m.commit with recentActive := true } : Progress).resume :=
      hp.updateCommitted _
    generalize ({ pr.updateCommitted m.commit with recentActive := true } : Progress).resume = pr0
      at hp0 ⊢
    have hpr1 : Res.Post PI
        (if pr0.state = .replicate ∧ pr0.ins.full then
          match pr0.ins.freeFirstOne with
          | .ok ins => .ok { pr0 with ins := ins }
          | .error e => .panic e
        else .ok pr0 : Res Progress) := by
      split
      · split
        · rename_i ins heq
          exact freeFirstOne_inv (s := pr0.ins) hp0 heq
        · trivial
      · exact hp0
    refine Res.post_bind hpr1 (fun pr1 hp1 => ?_)
    have hr1 : Res.Post RQ
        (if pr1.matched < r.raftLog.lastIndex ∨ pr1.pendingRequestSnapshot ≠ 0 then
          (r.sendAppendPr m.frm pr1).bind (fun (r, pr) => .ok { r with prs := r.prs.set m.frm pr })
        else .ok { r with prs := r.prs.set m.frm pr1 } : Res Raft) := by
      split
      · exact Res.post_bind (sendAppendPr_tok r _ _ h hp1) (fun a ha => ha.1.set _ ha.2)
      · exact h.set _ hp1
    refine Res.post_bind hr1 (fun r1 h1 => ?_)
    split
    · exact h1
    · split
      · exact h1
      · split
        · exact advance_tok r1 _ _ h1
        · exact h1

theorem handleSnapshotStatus_tok (r : Raft) (m : Message) (h : TOk r.prs) :
    TOk (r.handleSnapshotStatus m).prs := by
  unfold handleSnapshotStatus
  split
  · exact h
  · rename_i pr hg
    have hp : PI pr := h.get hg
    split
    · exact h
    · refine h.set _ ?_
      show PI (if m.reject then pr.snapshotFailure.becomeProbe else pr.becomeProbe)
      split
      · exact PI.becomeProbe (p := pr.snapshotFailure) hp
      · exact hp.becomeProbe

theorem handleUnreachable_tok (r : Raft) (m : Message) (h : TOk r.prs) :
    TOk (r.handleUnreachable m).prs := by
  unfold handleUnreachable
  split
  · exact h
  · rename_i pr hg
    split
    · exact h.set _ (h.get hg).becomeProbe
    · exact h

theorem handleAppendResponseAccepted_tok (r : Raft) (m : Message) (pr : Progress) (op : Bool)
    (h : TOk r.prs) (hp : PI pr) : Res.Post RQ (r.handleAppendResponseAccepted m pr op) := by
  unfold handleAppendResponseAccepted
  simp only []
  have hpr1 : Res.Post PI
      (match pr.state with
        | .probe => .ok pr.becomeReplicate
        | .snapshot => .ok (if pr.isSnapshotCaughtUp then pr.becomeProbe else pr)
        | .replicate =>
          match pr.ins.freeTo m.index with
          | .ok ins => .ok { pr with ins := ins }
          | .error e => .panic e : Res Progress) := by
    split
    · exact hp.becomeReplicate
    · show PI _
      split
      · exact hp.becomeProbe
      · exact hp
    · split
      · rename_i ins heq
        exact freeTo_inv (s := pr.ins) hp heq
      · trivial
  refine Res.post_bind hpr1 (fun pr1 hp1 => ?_)
  have h1 : TOk (r.prs.set m.frm pr1) := h.set _ hp1
  have hr1 : Res.Post RQ
      (match ({ r with prs := r.prs.set m.frm pr1 } : Raft).maybeCommit with
        | .ok (r, true) => if r.shouldBcastCommit then r.bcastAppend else .ok r
        | .ok (r, false) => if op then r.sendAppend m.frm else .ok r
        | .err e => .err e
        | .panic s => .panic s : Res Raft) := by
    split
    · rename_i r2 heq
      have h2 : TOk r2.prs := (Res.Post.of_eq (maybeCommit_tok _ (by exact h1)) heq :)
      split
      · exact bcastAppend_tok r2 h2
      · exact h2
    · rename_i r2 heq
      have h2 : TOk r2.prs := (Res.Post.of_eq (maybeCommit_tok _ (by exact h1)) heq :)
      split
      · exact sendAppend_tok r2 _ h2
      · exact h2
    · trivial
    · trivial
  refine Res.post_bind hr1 (fun r2 h2 => ?_)
  refine Res.post_bind (sendAppendAggressively_tok r2 _ h2) (fun r3 h3 => ?_)
  split
  · split
    · trivial
    · split
      · exact sendTimeoutNow_tok r3 _ h3
      · exact h3
  · exact h3

theorem handleAppendResponse_tok (r : Raft) (m : Message) (h : TOk r.prs) :
    Res.Post RQ (r.handleAppendResponse m) := by
  unfold handleAppendResponse
  simp only []
  refine Res.post_bind (P := fun _ => True) ?_ (fun npi _ => ?_)
  · split
    · split <;> trivial
    · trivial
  · split
    · exact h
    · rename_i pr hg
      have hp : PI pr := h.get hg
      have hp0 : PI (({ pr with recentActive := true } : Progress).updateCommitted m.commit) :=
        PI.updateCommitted (p := { pr with recentActive := true }) hp _
      generalize (({ pr with recentActive := true } : Progress).updateCommitted m.commit) = pr0
        at hp0 ⊢
      split
      · split
        · trivial
        · trivial
        · rename_i pr1 heq
          have hp1 : PI pr1 := (Res.Post.of_eq (hp0.maybeDecrTo _ _ _) heq :)
          refine sendAppend_tok _ _ (h.set _ ?_)
          split
          · exact hp1.becomeProbe
          · exact hp1
        · rename_i pr1 heq
          have hp1 : PI pr1 := (Res.Post.of_eq (hp0.maybeDecrTo _ _ _) heq :)
          exact h.set _ hp1
      · split
        · trivial
        · trivial
        · rename_i pr1 heq
          have hp1 : PI pr1 := (Res.Post.of_eq (hp0.maybeUpdate _) heq :)
          exact h.set _ hp1
        · rename_i pr1 heq
          have hp1 : PI pr1 := (Res.Post.of_eq (hp0.maybeUpdate _) heq :)
          exact handleAppendResponseAccepted_tok r m pr1 _ h hp1

theorem handleTransferLeader_cont_tok (r : Raft) (frm : Nat) (h : TOk r.prs) :
    Res.Post RQ
      (if frm = r.id then .ok r
        else
          match ({ r with electionElapsed := 0, leadTransferee := some frm } : Raft).prs.get frm with
          | none => .panic "raft.handle_transfer_leader.unwrap"
          | some pr =>
            if pr.matched = ({ r with electionElapsed := 0, leadTransferee := some frm } : Raft).raftLog.lastIndex
            then ({ r with electionElapsed := 0, leadTransferee := some frm } : Raft).sendTimeoutNow frm
            else (({ r with electionElapsed := 0, leadTransferee := some frm } : Raft).sendAppendPr frm pr).bind
              (fun (r, pr) => .ok { r with prs := r.prs.set frm pr }) : Res Raft) := by
  split
  · exact h
  · split
    · trivial
    · rename_i pr hg
      have hp : PI pr := TOk.get (t := r.prs) h hg
      split
      · exact sendTimeoutNow_tok _ _ h
      · exact Res.post_bind (sendAppendPr_tok _ _ _ h hp) (fun a ha => ha.1.set _ ha.2)

theorem handleTransferLeader_tok (r : Raft) (m : Message) (h : TOk r.prs) :
    Res.Post RQ (r.handleTransferLeader m) := by
  unfold handleTransferLeader
  split
  · exact h
  · simp only []
    split
    · exact h
    · split
      · split
        · exact h
        · exact handleTransferLeader_cont_tok r.abortLeaderTransfer m.frm h
      · exact handleTransferLeader_cont_tok r m.frm h

theorem stepLeader_tok (r : Raft) (m : Message) (h : TOk r.prs) :
    Res.Post (fun x => TOk x.1.prs) (r.stepLeader m) := by
  unfold stepLeader
  split
  · exact Res.post_bind (bcastHeartbeat_tok r h) (fun a ha => ha)
  · simp only []
    have h1 := checkQuorumActive_tok r h
    split
    · exact becomeFollower_tok _ _ _ h1
    · exact h1
  · split
    · trivial
    · split
      · exact h
      · split
        · exact h
        · have hf := filterProposal_tok m.entries r 0 h
          split
          · rename_i r1 heq
            rw [heq] at hf; exact hf
          · rename_i r1 es heq
            rw [heq] at hf
            split
            · rename_i r2 heq2
              exact (Res.Post.of_eq (appendEntry_tok _ _ hf) heq2 :)
            · rename_i r2 heq2
              have h2 : TOk r2.prs := (Res.Post.of_eq (appendEntry_tok _ _ hf) heq2 :)
              exact Res.post_bind (bcastAppend_tok r2 h2) (fun a ha => ha)
            · trivial
            · trivial
  · split
    · trivial
    · trivial
    · exact h
    · have hans : ∀ r : Raft, TOk r.prs → Res.Post (fun x : Raft × Option RaftError => TOk x.1.prs)
          ((r.handleReadyReadIndex m r.raftLog.committed).bind (fun (r, om) =>
            match om with
            | some m' => (r.send m').bind (fun r => .ok (r, none))
            | none => .ok (r, none))) := by
        intro r1 h1
        refine Res.post_bind (handleReadyReadIndex_tok r1 _ _ h1) (fun a ha => ?_)
        obtain ⟨r2, om⟩ := a
        dsimp only at ha ⊢
        split
        · exact Res.post_bind (send_tok r2 _ ha) (fun b hb => hb)
        · exact ha
      simp only []
      split
      · exact hans r h
      · split
        · split
          · trivial
          · refine Res.post_bind (P := fun _ => True) ?_ (fun ro _ => ?_)
            · cases r.readOnly.addRequest r.raftLog.committed m r.id <;> trivial
            · exact Res.post_bind (bcastHeartbeatWithCtx_tok _ _ h) (fun a ha => ha)
        · exact hans r h
  · exact Res.post_bind (handleAppendResponse_tok r m h) (fun a ha => ha)
  · exact Res.post_bind (handleHeartbeatResponse_tok r m h) (fun a ha => ha)
  · exact handleSnapshotStatus_tok r m h
  · exact handleUnreachable_tok r m h
  · exact Res.post_bind (handleTransferLeader_tok r m h) (fun a ha => ha)
  · exact h

/-! ### configuration changes, group commit -/

theorem postConfChange_tok (r : Raft) (h : TOk r.prs) :
    Res.Post (fun x => TOk x.1.prs) r.postConfChange := by
  unfold postConfChange
  simp only []
  split
  · exact becomeFollower_tok _ _ _ h
  · split
    · exact h
    · have hr1 : Res.Post RQ
          (match ({ r with promotable := Joint.contains r.prs.voters r.id } : Raft).maybeCommit with
            | .ok (r, true) => r.bcastAppend
            | .ok (r, false) =>
              r.forEachPeer (fun r id pr =>
                (r.maybeSendAppend id pr false).bind (fun (r, pr, _) => .ok (r, pr)))
            | .err e => .err e
            | .panic s => .panic s : Res Raft) := by
        split
        · rename_i r1 heq
          exact bcastAppend_tok r1 (Res.Post.of_eq (maybeCommit_tok _ (by exact h)) heq :)
        · rename_i r1 heq
          have h1 : TOk r1.prs := (Res.Post.of_eq (maybeCommit_tok _ (by exact h)) heq :)
          exact forEachPeer_tok r1 _ (fun r id pr h2 hp =>
            Res.post_bind (maybeSendAppend_tok r id pr false h2 hp) (fun a ha => ha)) h1
        · trivial
        · trivial
      refine Res.post_bind hr1 (fun r1 h1 => ?_)
      have hr2 : Res.Post RQ
          (match r1.readOnly.lastPendingRequestCtx with
            | none => .ok r1
            | some ctx =>
              match (r1.readOnly.recvAck r1.id ctx).2 with
              | some acks =>
                if ({ r1 with readOnly := (r1.readOnly.recvAck r1.id ctx).1 } : Raft).prs.hasQuorum acks then
                  (({ r1 with readOnly := (r1.readOnly.recvAck r1.id ctx).1 } : Raft).readOnly.advance ctx).bind
                    (fun (ro, rss) =>
                      ({ ({ r1 with readOnly := (r1.readOnly.recvAck r1.id ctx).1 } : Raft) with
                          readOnly := ro } : Raft).respondReadStates rss)
                else .ok { r1 with readOnly := (r1.readOnly.recvAck r1.id ctx).1 }
              | none => .ok { r1 with readOnly := (r1.readOnly.recvAck r1.id ctx).1 } : Res Raft) := by
        split
        · exact h1
        · split
          · split
            · exact advance_tok r1 _ _ h1
            · exact h1
          · exact h1
      refine Res.post_bind hr2 (fun r2 h2 => ?_)
      show TOk _
      split
      · split
        · exact h2
        · exact h2
      · exact h2

theorem applyConfChange_tok (r : Raft) (cc : ConfChangeV2) (h : TOk r.prs) :
    Res.Post (fun x => TOk x.1.prs) (r.applyConfChange cc) := by
  unfold applyConfChange
  simp only []
  split
  · exact h
  · exact Res.post_bind (postConfChange_tok _ (h.applyConf _ _ _)) (fun a ha => ha)

theorem loadState_tok (r : Raft) (hs : HardState) (h : TOk r.prs) : Res.Post RQ (r.loadState hs) := by
  unfold loadState
  split
  · trivial
  · exact h

theorem enableGroupCommit_tok (r : Raft) (b : Bool) (h : TOk r.prs) :
    Res.Post RQ (r.enableGroupCommit b) := by
  unfold enableGroupCommit
  simp only []
  split
  · exact commitThenBcast_tok _ h
  · exact h

theorem assignCommitGroups_tok (r : Raft) (ids : List (Nat × Nat)) (h : TOk r.prs) :
    Res.Post RQ (r.assignCommitGroups ids) := by
  unfold assignCommitGroups
  simp only []
  refine Res.post_bind (P := RQ) ?_ (fun r1 h1 => ?_)
  · refine foldl_tok _ ?_ _ _ h
    intro r1 p h1
    split
    · trivial
    · exact modifyProgress_tok _ _ _ (fun pr hp => hp) h1
  · split
    · exact commitThenBcast_tok _ h1
    · exact h1

theorem adjustMaxInflightMsgs_tok (r : Raft) (t c : Nat) (h : TOk r.prs) :
    Res.Post RQ (r.adjustMaxInflightMsgs t c) := by
  unfold adjustMaxInflightMsgs
  split
  · exact h
  · rename_i pr hg
    split
    · rename_i ins heq
      exact h.set _ (setCap_inv (s := pr.ins) (h.get hg) heq)
    · trivial

theorem maybeFreeInflightBuffers_tok (r : Raft) (h : TOk r.prs) :
    TOk r.maybeFreeInflightBuffers.prs := by
  unfold maybeFreeInflightBuffers
  exact mapProgress_tok _ _ (fun _ pr hp => maybeFreeBuffer_inv hp) h

theorem clearCommitGroup_tok (r : Raft) (h : TOk r.prs) : TOk r.clearCommitGroup.prs := by
  unfold clearCommitGroup
  exact mapProgress_tok _ _ (fun _ pr hp => hp) h

theorem reduceUncommittedSize_tok (r : Raft) (ents : List Entry) (h : TOk r.prs) :
    TOk (r.reduceUncommittedSize ents).prs := by
  unfold reduceUncommittedSize
  split <;> exact h

/-! ### follower / candidate side -/

theorem maybeCommitByVote_tok (r : Raft) (m : Message) (h : TOk r.prs) :
    Res.Post RQ (r.maybeCommitByVote m) := by
  unfold maybeCommitByVote
  split
  · exact h
  · simp only []
    split
    · exact h
    · split
      · trivial
      · trivial
      · exact h
      · split
        · exact h
        · split
          · trivial
          · trivial
          · exact becomeFollower_tok _ _ _ h
          · exact h

theorem sendRequestSnapshot_tok (r : Raft) (h : TOk r.prs) :
    Res.Post RQ r.sendRequestSnapshot := by
  unfold sendRequestSnapshot
  simp only []
  split
  · exact send_tok r _ h
  · trivial
  · trivial

theorem requestSnapshot_tok (r : Raft) (h : TOk r.prs) :
    Res.Post (fun x => TOk x.1.prs) r.requestSnapshot := by
  unfold requestSnapshot
  split
  · exact h
  · split
    · exact h
    · split
      · exact h
      · split
        · exact h
        · simp only []
          split
          · trivial
          · trivial
          · split
            · exact Res.post_bind (sendRequestSnapshot_tok _ h) (fun a ha => ha)
            · exact h

theorem handleAppendEntries_tok (r : Raft) (m : Message) (h : TOk r.prs) :
    Res.Post RQ (r.handleAppendEntries m) := by
  unfold handleAppendEntries
  split
  · exact sendRequestSnapshot_tok r h
  · split
    · exact send_tok r _ h
    · split
      · trivial
      · trivial
      · exact send_tok _ _ h
      · simp only []
        split
        · trivial
        · trivial
        · trivial
        · exact send_tok _ _ h

theorem handleHeartbeat_tok (r : Raft) (m : Message) (h : TOk r.prs) :
    Res.Post RQ (r.handleHeartbeat m) := by
  unfold handleHeartbeat
  split
  · trivial
  · trivial
  · simp only []
    split
    · exact sendRequestSnapshot_tok _ h
    · exact send_tok _ _ h

theorem restore_tok (r : Raft) (snap : Snapshot) (h : TOk r.prs) :
    Res.Post (fun x => TOk x.1.prs) (r.restore snap) := by
  unfold restore
  simp only []
  split
  · exact h
  · split
    · split
      · trivial
      · exact becomeFollower_tok _ _ _ h
    · split
      · exact h
      · split
        · trivial
        · trivial
        · split
          · exact h
          · trivial
          · trivial
        · split
          · trivial
          · trivial
          · split
            · trivial
            · rename_i prs hres
              have h1 : TOk prs := TOk.restore (TOk.clear r.prs) hres
              refine Res.post_bind (postConfChange_tok _ (by exact h1)) (fun a ha => ?_)
              obtain ⟨r2, cs2⟩ := a
              dsimp only at ha ⊢
              split
              · trivial
              · split
                · trivial
                · rename_i pr hg
                  split
                  · trivial
                  · refine Res.post_bind (PI.maybeUpdate (ha.get hg) _) (fun b hb => ?_)
                    exact ha.set _ hb

theorem handleSnapshot_tok (r : Raft) (m : Message) (h : TOk r.prs) :
    Res.Post RQ (r.handleSnapshot m) := by
  unfold handleSnapshot
  refine Res.post_bind (restore_tok r _ h) (fun a ha => ?_)
  obtain ⟨r1, ok⟩ := a
  dsimp only at ha ⊢
  split
  · exact send_tok r1 _ ha
  · exact send_tok r1 _ ha

theorem hup_tok (r : Raft) (tl : Bool) (h : TOk r.prs) : Res.Post RQ (r.hup tl) := by
  unfold hup
  split
  · exact h
  · split
    · exact h
    · split
      · trivial
      · trivial
      · exact h
      · split
        · exact h
        · split
          · exact campaign_tok r _ h
          · split
            · exact campaign_tok r _ h
            · exact campaign_tok r _ h

theorem stepCandidate_tok (r : Raft) (m : Message) (h : TOk r.prs) :
    Res.Post (fun x => TOk x.1.prs) (r.stepCandidate m) := by
  unfold stepCandidate
  split
  · exact h
  · split
    · trivial
    · exact Res.post_bind (handleAppendEntries_tok _ m (becomeFollower_tok r _ _ h)) (fun a ha => ha)
  · split
    · trivial
    · exact Res.post_bind (handleHeartbeat_tok _ m (becomeFollower_tok r _ _ h)) (fun a ha => ha)
  · split
    · trivial
    · exact Res.post_bind (handleSnapshot_tok _ m (becomeFollower_tok r _ _ h)) (fun a ha => ha)
  · split
    · exact h
    · split
      · exact h
      · refine Res.post_bind (poll_tok r _ _ _ h) (fun a ha => ?_)
        obtain ⟨r1, res⟩ := a
        dsimp only at ha ⊢
        exact Res.post_bind (maybeCommitByVote_tok r1 m ha) (fun b hb => hb)
  · split
    · exact h
    · split
      · exact h
      · refine Res.post_bind (poll_tok r _ _ _ h) (fun a ha => ?_)
        obtain ⟨r1, res⟩ := a
        dsimp only at ha ⊢
        exact Res.post_bind (maybeCommitByVote_tok r1 m ha) (fun b hb => hb)
  · exact h

theorem stepFollower_tok (r : Raft) (m : Message) (h : TOk r.prs) :
    Res.Post (fun x => TOk x.1.prs) (r.stepFollower m) := by
  unfold stepFollower
  split
  · split
    · exact h
    · split
      · exact h
      · exact Res.post_bind (send_tok r _ h) (fun a ha => ha)
  · exact Res.post_bind (handleAppendEntries_tok _ m (by exact h)) (fun a ha => ha)
  · exact Res.post_bind (handleHeartbeat_tok _ m (by exact h)) (fun a ha => ha)
  · exact Res.post_bind (handleSnapshot_tok _ m (by exact h)) (fun a ha => ha)
  · split
    · exact h
    · exact Res.post_bind (send_tok r _ h) (fun a ha => ha)
  · split
    · exact Res.post_bind (hup_tok r true h) (fun a ha => ha)
    · exact h
  · split
    · exact h
    · exact Res.post_bind (send_tok r _ h) (fun a ha => ha)
  · split
    · simp only []
      split
      · exact h
      · trivial
      · trivial
    · exact h
  · exact h

/-! ### `step`, `tick`, `Raft::new` -/

theorem stepTerm_tok (r : Raft) (m : Message) (h : TOk r.prs) :
    Res.Post (fun x => TOk x.1.prs) (r.stepTerm m) := by
  unfold stepTerm
  split
  · exact h
  · split
    · simp only []
      split
      · exact h
      · split
        · exact h
        · split
          · exact becomeFollower_tok _ _ _ h
          · exact becomeFollower_tok _ _ _ h
    · split
      · split
        · split
          · rename_i r1 heq
            exact (Res.Post.of_eq (send_tok r _ h) heq :)
          · trivial
          · trivial
        · split
          · split
            · rename_i r1 heq
              exact (Res.Post.of_eq (send_tok r _ h) heq :)
            · trivial
            · trivial
          · exact h
      · exact h

theorem stepVote_tok (r : Raft) (m : Message) (h : TOk r.prs) : Res.Post RQ (r.stepVote m) := by
  unfold stepVote
  split
  · trivial
  · split
    · unfold stepVoteGrant
      split
      · rename_i r1 heq
        have h1 : TOk r1.prs := (Res.Post.of_eq (send_tok r _ h) heq :)
        split
        · exact h1
        · exact h1
      · trivial
      · trivial
    · unfold stepVoteReject
      split
      · trivial
      · trivial
      · split
        · rename_i r1 heq
          have h1 : TOk r1.prs := (Res.Post.of_eq (send_tok r _ h) heq :)
          split
          · exact maybeCommitByVote_tok r1 m h1
          · exact h1
        · trivial
        · trivial
    · trivial
    · trivial

theorem step_tok (r : Raft) (m : Message) (h : TOk r.prs) :
    Res.Post (fun x => TOk x.1.prs) (r.step m) := by
  unfold step
  split
  · trivial
  · trivial
  · rename_i r1 heq
    exact (Res.Post.of_eq (stepTerm_tok r m h) heq :)
  · rename_i r1 heq
    have h1 : TOk r1.prs := (Res.Post.of_eq (stepTerm_tok r m h) heq :)
    split
    · exact Res.post_bind (hup_tok r1 false h1) (fun a ha => ha)
    · split
      · rename_i r2 heq2
        exact (Res.Post.of_eq (stepVote_tok r1 m h1) heq2 :)
      · trivial
      · trivial
    · split
      · rename_i r2 heq2
        exact (Res.Post.of_eq (stepVote_tok r1 m h1) heq2 :)
      · trivial
      · trivial
    · split
      · exact stepCandidate_tok r1 m h1
      · exact stepCandidate_tok r1 m h1
      · exact stepFollower_tok r1 m h1
      · exact stepLeader_tok r1 m h1

theorem stepIgnore_tok (r : Raft) (m : Message) (h : TOk r.prs) : Res.Post RQ (r.stepIgnore m) := by
  unfold stepIgnore
  exact Res.post_bind (step_tok r m h) (fun a ha => ha)

theorem tickElection_tok (r : Raft) (h : TOk r.prs) :
    Res.Post (fun x => TOk x.1.prs) r.tickElection := by
  unfold tickElection
  simp only []
  split
  · exact h
  · exact Res.post_bind (stepIgnore_tok _ _ (by exact h)) (fun a ha => ha)

theorem tickHeartbeat_tok (r : Raft) (h : TOk r.prs) :
    Res.Post (fun x => TOk x.1.prs) r.tickHeartbeat := by
  unfold tickHeartbeat
  simp only []
  refine Res.post_bind (P := fun x => TOk x.1.prs) ?_ (fun a ha => ?_)
  · split
    · refine Res.post_bind (P := fun x => TOk x.1.prs) ?_ (fun a ha => ?_)
      · split
        · exact Res.post_bind (stepIgnore_tok _ _ (by exact h)) (fun a ha => ha)
        · exact h
      · obtain ⟨r1, b⟩ := a
        dsimp only at ha ⊢
        split
        · exact ha
        · exact ha
    · exact h
  · obtain ⟨r1, b⟩ := a
    dsimp only at ha ⊢
    split
    · exact ha
    · split
      · exact Res.post_bind (stepIgnore_tok _ _ (by exact ha)) (fun a ha => ha)
      · exact ha

theorem tick_tok (r : Raft) (h : TOk r.prs) : Res.Post (fun x => TOk x.1.prs) r.tick := by
  unfold tick
  split
  · exact tickElection_tok r h
  · exact tickElection_tok r h
  · exact tickElection_tok r h
  · exact tickHeartbeat_tok r h

/-- what `Raft::new` yields -/
def NewOk : Except RaftError Raft → Prop
  | .ok r => TOk r.prs
  | .error _ => True

theorem new_tok (c : Config) (store : MemStorage) (rnd : Option Nat) :
    Res.Post NewOk (Raft.new c store rnd) := by
  unfold Raft.new
  split
  · trivial
  · simp only []
    split
    · trivial
    · trivial
    · split
      · trivial
      · rename_i prs hres
        have h1 : TOk prs := TOk.restore (TOk.new _) hres
        refine Res.post_bind (postConfChange_tok _ (by exact h1)) (fun a ha => ?_)
        obtain ⟨r1, cs⟩ := a
        dsimp only at ha ⊢
        split
        · trivial
        · refine Res.post_bind (P := RQ) ?_ (fun r2 h2 => ?_)
          · split
            · exact loadState_tok r1 _ ha
            · exact ha
          · refine Res.post_bind (P := RQ) ?_ (fun r3 h3 => ?_)
            · split
              · exact commitApplyInternal_tok r2 _ _ h2
              · exact h2
            · exact becomeFollower_tok r3 _ _ h3

end FL
end Raft
end RaftModel
