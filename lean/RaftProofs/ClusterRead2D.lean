import RaftProofs.ClusterRead2C

/-!
Cluster-level ReadIndex safety with compaction and snapshots, part 2D: the commit index of one node
over a step that is not its restart (`step_commit_le`: calls, **compaction, the delivery of a
`MsgSnapshot`, the installation of a pending snapshot** included), over a stretch without restart
(`commit_mono`), and **the read index recorded at registration covers every earlier commit of a term
not above the leader's** (`idx_ok_reg`) — from the snapshot layer: Election Safety and `commit_mono` for
the leader's own term; Leader Completeness over the ghost (uncompacted) logs (`Snap5.Sm.lc`), the
agreement of ghost logs (`Snap5.eq_ll`), the ghost entry at a compacted / restored snapshot point
(`Full.sT`) and `Snap5.term_le` for earlier terms.
-/
namespace RaftModel
namespace Cluster
namespace Snap5
namespace Rd
open Node Raft Raft.CC Raft.RD RaftProps.C02 RaftProps.C05 Snap

variable {cfg : JointConfig} {c0 : Nat} {h : List Sys}

/-- **the commit index of a node does not decrease over a step that is not a restart of the node** -/
theorem step_commit_le (H : Hyp2w cfg c0 h) {n : Nat} {a b : Sys} (ha : h[n]? = some a)
    (hb : h[n + 1]? = some b) {v : Nat} {st st' : NState} (hv : a.node v = some st)
    (hv' : b.node v = some st') (hnr : ¬ IsRestart v a b) :
    st.raft.raftLog.committed ≤ st'.raft.raftLog.committed := by
  have o := node_ok H ha hv
  cases H.steps n a b ha hb with
  | call k sk sk' rnd op res q1 q2 q3 _ _ q7 _ _ _ q4 =>
    rcases node_cases hv' with ⟨e1, e2⟩ | ⟨_, e2⟩
    · subst e1; subst e2
      rw [hv] at q1; cases q1
      have hop : op ≠ .drain ∧ ∀ m, op ≠ .rstep m :=
        ⟨fun hc => (by rw [hc] at q2; cases q2), fun m hc => (by rw [hc] at q2; cases q2)⟩
      by_cases hpend : st.raft.raftLog.unstable.snapshot = none
      · exact call_commit_le o.inv hop q3 hpend q4
      · have e := q7 hpend
        subst e
        cases persist_out o.inv q4 with
        | noop hr => rw [hr]; exact Nat.le_refl _
        | done sn L hpd hr hinv habs hc hp hus hue hents hmeta hhs =>
          rw [hr]; exact Nat.le_of_eq hc.symm
    · rw [hv] at e2; cases e2; exact Nat.le_refl _
  | deliver k sk sk' rnd m res q1 q2 q3 q5 _ _ q4 =>
    rcases node_cases hv' with ⟨e1, e2⟩ | ⟨_, e2⟩
    · subst e1; subst e2
      rw [hv] at q1; cases q1
      by_cases hsn : m.msgType = .msgSnapshot
      · cases snap_call hsn o.req q4 with
        | skip hr => rw [hr]; exact Nat.le_refl _
        | handled x hs ht hle hid hq hack hto hfrm hxt hsto hcase hprs =>
          cases hcase with
          | kept hu hp hc hx => exact Nat.le_of_eq hc.symm
          | ffwd hu hp hle hc hm hl hx => rw [hc]; exact hle
          | restored hle hm hu hc hp hx => rw [hc]; exact hle
      · exact call_commit_le o.inv ⟨(by intro hc; cases hc), (by intro m' hc; cases hc)⟩
          (fun j hc => by cases hc) q5 q4
    · rw [hv] at e2; cases e2; exact Nat.le_refl _
  | send k sk sk' q1 _ _ q3 =>
    have hv1' : (a.setNode k sk').node v = some st' := hv'
    rcases node_cases hv1' with ⟨e1, e2⟩ | ⟨_, e2⟩
    · subst e1; subst e2
      rw [hv] at q1; cases q1
      unfold Node.call at q3
      simp only [applyOp] at q3
      cases q3
      exact Nat.le_refl _
    · rw [hv] at e2; cases e2; exact Nat.le_refl _
  | restart k sk sk' c rnd q1 q2 q3 _ =>
    rcases node_cases hv' with ⟨e1, e2⟩ | ⟨_, e2⟩
    · subst e1; subst e2
      exact absurd ⟨sk, st', c, rnd, q1, q2, q3, rfl⟩ hnr
    · rw [hv] at e2; cases e2; exact Nat.le_refl _

/-! ### the commit index of one node over a stretch without restart -/

theorem commit_mono (H : Hyp2w cfg c0 h) (v : Nat) : ∀ (d n : Nat) (s s' : Sys) (st st' : NState),
    h[n]? = some s → h[n + d]? = some s' →
    (∀ m a b, n ≤ m → m < n + d → h[m]? = some a → h[m + 1]? = some b → ¬ IsRestart v a b) →
    s.node v = some st → s'.node v = some st' →
    st.raft.raftLog.committed ≤ st'.raft.raftLog.committed := by
  intro d
  induction d with
  | zero =>
    intro n s s' st st' hn hn' _ hv hv'
    rw [Nat.add_zero, hn] at hn'; cases hn'
    rw [hv] at hv'; cases hv'
    exact Nat.le_refl _
  | succ d ih =>
    intro n s s' st st' hn hn' hnr hv hv'
    have hlt : n + 1 < h.length := by
      rcases Nat.lt_or_ge (n + 1) h.length with c | c
      · exact c
      · have : h.length ≤ n + (d + 1) := by omega
        rw [List.getElem?_eq_none this] at hn'; cases hn'
    obtain ⟨b, h1⟩ : ∃ b, h[n + 1]? = some b := ⟨_, List.getElem?_eq_some_iff.2 ⟨hlt, rfl⟩⟩
    have hstep := H.steps n s b hn h1
    obtain ⟨st1, hv1, _, _⟩ := C06_cluster_step_term_vote s b hstep.step v st hv
    have hle1 : st.raft.raftLog.committed ≤ st1.raft.raftLog.committed :=
      step_commit_le H hn h1 hv hv1 (hnr n s b (Nat.le_refl _) (by omega) hn h1)
    have := ih (n + 1) b s' st1 st' h1 (by rw [← hn']; congr 1; omega)
      (fun m a b g1 g2 => hnr m a b (by omega) (by omega)) hv1 hv'
    omega


/-! ### the read index recorded at registration -/

/-- **a leader that has committed an entry of its own term has a commit index that covers every
earlier commit event of its own and of all earlier terms** — with compaction and snapshots (its own:
the commit index of a leader only grows; earlier terms: Leader Completeness over the ghost logs — the
committed entry of an earlier term cannot lie behind an entry of the leader's term, also when the
entry at the commit index is only known as the term of a snapshot point) -/
theorem idx_ok_reg (H : Hyp3a cfg c0 h) {n0 : Nat} {a : Sys} (ha : h[n0]? = some a) {v : Nat}
    {st : NState} (hv : a.node v = some st) (hl : st.raft.state = .leader)
    (hc : st.raft.commitToCurrentTerm = .ok true) :
    IdxOK h c0 n0 st.raft.term st.raft.raftLog.committed := by
  have H2 := H.toHyp2w
  have o := node_ok H2 ha hv
  have I := (ghost_inv H2 n0 a ha).node v st hv
  obtain ⟨s0, h0, hall⟩ := H2.inv_at
  have htz : st.raft.term ≠ 0 := (hall a (mem_of_get ha)).tz v st hv (.inr hl)
  have hterm : st.raft.raftLog.term st.raft.raftLog.committed = .ok st.raft.term := by
    unfold commitToCurrentTerm at hc
    split at hc
    · rename_i t ht
      injection hc with hc
      have : t = st.raft.term := by simpa using hc
      rw [ht, this]
    · cases hc
    · cases hc
  refine ⟨c0_le_committed H2 ha hv, fun E hE hlt hle => ?_⟩
  obtain ⟨a', b', sta, stb, ea, eb, hla, hlb, hs, ht, hcE, hg, hev, _⟩ := Ev.facts H2 hE
  by_cases heq : E.t = st.raft.term
  · -- the leader's own earlier commit
    have hll : E.l = v :=
      C02_cluster_election_safety cfg H2.ne H2.nd1 H2.nd2 h H2.hist H2.fix b' a (mem_of_get eb)
        (mem_of_get ha) E.l v E.t ⟨stb, hlb, hs, ht⟩ ⟨st, hv, hl, heq.symm⟩
    rw [hll] at hlb
    obtain ⟨d, hd⟩ : ∃ d, n0 = E.nE + 1 + d := ⟨n0 - (E.nE + 1), by omega⟩
    have ha' : h[E.nE + 1 + d]? = some a := by rw [← hd]; exact ha
    have hnr := no_restart_between H2 eb ha' ⟨stb, hlb, hs, ht⟩ ⟨st, hv, hl, heq.symm⟩
    have := commit_mono H2 v d (E.nE + 1) b' a stb st eb ha' hnr hlb hv
    rw [hcE]; exact this
  · have hlt2 : E.t < st.raft.term := by omega
    apply Classical.byContradiction
    intro hgt
    have hgt : st.raft.raftLog.committed < E.c := by omega
    have hhas : Has (FL h c0 st) E.c E.t := (sm_all H ha).lc E hE v st hv hl hlt2
    obtain ⟨hEl, hEh, _⟩ := Ev.leaderLog H2 hE
    have hequ := eq_ll H2 ha hv hEl hhas hEh
    -- the ghost log holds an entry of the leader's term at the commit index
    have hent : ∃ e, (FL h c0 st).entryAt st.raft.raftLog.committed = some e ∧
        e.term = st.raft.term := by
      rw [o.inv.term_abs] at hterm
      unfold LLog.term at hterm
      split at hterm
      · injection hterm with hterm; exact absurd hterm.symm htz
      · split at hterm
        · rename_i hidx
          split at hterm
          · rename_i t0 hst
            injection hterm with hterm
            rw [hterm] at hst
            by_cases hp : st.raft.raftLog.abs.snapIdx = c0
            · exfalso
              obtain ⟨st0, hv0⟩ := node_back_steps
                ((hist_all H2.hist).2.2 0 n0 s0 a (Nat.zero_le _) h0 ha) v st hv
              have h1 := H.snapt a (mem_of_get ha) v st hv hp _ hst s0 h0 v st0 hv0
              have h2 := lead_above_init H2 h0 hv0 ha ⟨st, hv, hl, rfl⟩
              omega
            · have hp' : c0 < st.raft.raftLog.abs.snapIdx := by
                have := I.log.le; omega
              obtain ⟨e, he, het⟩ := I.log.sT _ hst hp'
              exact ⟨e, by rw [hidx]; exact he, het⟩
          · cases hterm
        · split at hterm
          · rename_i e he
            injection hterm with hterm
            exact ⟨e, I.log.entry he, hterm⟩
          · injection hterm with hterm; exact absurd hterm.symm htz
    obtain ⟨e, he, het⟩ := hent
    have he' : (EvF h c0 E).entryAt st.raft.raftLog.committed = some e := by
      rw [← hequ _ (by omega)]; exact he
    have hmem := (EvF h c0 E).entryAt_mem he'
    rw [hev] at hmem
    have := (term_le H (E.nE + 1) b' eb).log E.l stb hlb e hmem
    omega

end Rd
end Snap5
end Cluster
end RaftModel
