import RaftProofs.ClusterCommitJ

/-!
Cluster-level commit safety, helper lemmas part K: `step_follower`, `step_candidate`, the term preamble
and `Raft::step`.
-/
namespace RaftModel
namespace Raft
namespace CC
open VoteOb

/-- forwarding a message to the leader -/
theorem forward_g {A : Nat → Nat → Nat → Prop} {a r r' : Raft} {m x : Message}
    (h : r.send x = .ok r') (h0 : G A a m r)
    (hx : x.msgType = .msgPropose ∨ x.msgType = .msgTransferLeader ∨ x.msgType = .msgReadIndex) :
    G A a m r' := by
  rcases hx with g | g | g <;>
    exact send_g_plain h h0 (by rw [g]; rfl) (.inl (by rw [g]; intro hc; cases hc)) (by rw [g]; rfl)

/-- **`step_follower`**, entered with nothing queued and the commit index of the start; the input is
not a snapshot -/
theorem stepFollower_g {A : Nat → Nat → Nat → Prop} {a r r' : Raft} {m : Message}
    {e : Option RaftError}
    (hA : ∀ j t x y, y ≤ x → A j t x → A j t y) (hnb : r.batchAppend = false)
    (hs : r.state = .follower) (ho : Old a r) (hcm : r.raftLog.committed = a.raftLog.committed)
    (hms : m.msgType ≠ .msgSnapshot)
    (h : r.stepFollower m = .ok (r', e)) (h0 : G A a m r) : G A a m r' := by
  unfold Raft.stepFollower at h
  split at h
  · -- propose
    split at h
    · cases h; exact h0
    · split at h
      · cases h; exact h0
      · obtain ⟨r1, h1, h⟩ := Res.bind_eq_ok h
        cases h
        rename_i hty _ _
        exact forward_g h1 h0 (.inl hty)
  · -- append
    obtain ⟨r1, h1, h⟩ := Res.bind_eq_ok h
    cases h
    rename_i hty
    exact handleAppendEntries_g (r := { r with electionElapsed := 0, leaderId := m.frm }) hs
      (Old.mk' ho) hty h1 (G.mk' h0)
  · obtain ⟨r1, h1, h⟩ := Res.bind_eq_ok h
    cases h
    exact handleHeartbeat_g (r := { r with electionElapsed := 0, leaderId := m.frm }) hs
      (Old.mk' ho) h1 (G.mk' h0)
  · rename_i hty; exact absurd hty hms
  · split at h
    · cases h; exact h0
    · obtain ⟨r1, h1, h⟩ := Res.bind_eq_ok h
      cases h
      rename_i hty _
      exact forward_g h1 h0 (.inr (.inl hty))
  · split at h
    · obtain ⟨r1, h1, h⟩ := Res.bind_eq_ok h
      cases h
      exact hup_g hA hnb h1 h0 ho hcm
    · cases h; exact h0
  · split at h
    · cases h; exact h0
    · obtain ⟨r1, h1, h⟩ := Res.bind_eq_ok h
      cases h
      rename_i hty _
      exact forward_g h1 h0 (.inr (.inr hty))
  · -- read index response
    split at h
    · simp only [] at h
      split at h
      · rename_i log b hmc
        cases h
        have g0 : G A a m ({ r with readStates := r.readStates ++
            [{ index := m.index, requestCtx := (by assumption : Entry).data }] } : Raft) := G.mk' h0
        rcases RaftLog.c04_maybeCommit_spec hmc with ⟨_, hlt, _, _, hl⟩ | ⟨_, hl⟩
        · exact g0.commitUp rfl rfl rfl rfl rfl hl (Nat.le_of_lt hlt)
            (fun hc => by rw [show ({ r with readStates := _, raftLog := log } : Raft).state = r.state
              from rfl, hs] at hc; cases hc)
        · rw [hl]; exact g0
      · cases h
      · cases h
    · cases h; exact h0
  · cases h; exact h0

/-- **`step_candidate`**, entered with nothing queued and the commit index of the start -/
theorem stepCandidate_g {A : Nat → Nat → Nat → Prop} {a r r' : Raft} {m : Message}
    {e : Option RaftError}
    (hA : ∀ j t x y, y ≤ x → A j t x → A j t y) (hnb : r.batchAppend = false)
    (ho : Old a r) (hcm : r.raftLog.committed = a.raftLog.committed)
    (hms : m.msgType ≠ .msgSnapshot)
    (h : r.stepCandidate m = .ok (r', e)) (h0 : G A a m r) : G A a m r' := by
  have hfol : ∀ t l, G A a m (r.becomeFollower t l) ∧ (r.becomeFollower t l).state = .follower ∧
      Old a (r.becomeFollower t l) :=
    fun t l => ⟨becomeFollower_g t l h0 ho, (RaftProps.C16.becomeFollower_proj r t l).1,
      ho.becomeFollower t l⟩
  unfold Raft.stepCandidate at h
  split at h
  · cases h; exact h0
  · split at h
    · cases h
    · obtain ⟨r1, h1, h⟩ := Res.bind_eq_ok h
      cases h
      rename_i hty _
      obtain ⟨g1, g2, g3⟩ := hfol m.term m.frm
      exact handleAppendEntries_g g2 g3 hty h1 g1
  · split at h
    · cases h
    · obtain ⟨r1, h1, h⟩ := Res.bind_eq_ok h
      cases h
      obtain ⟨g1, g2, g3⟩ := hfol m.term m.frm
      exact handleHeartbeat_g g2 g3 h1 g1
  · rename_i hty; exact absurd hty hms
  · split at h
    · cases h; exact h0
    · split at h
      · cases h; exact h0
      · obtain ⟨⟨r1, res⟩, h1, h⟩ := Res.bind_eq_ok h
        obtain ⟨r2, h2, h⟩ := Res.bind_eq_ok h
        cases h
        exact maybeCommitByVote_g h2 (poll_ok hA _ _ _ _ _ _ h1 h0 ho hnb hcm).1
  · split at h
    · cases h; exact h0
    · split at h
      · cases h; exact h0
      · obtain ⟨⟨r1, res⟩, h1, h⟩ := Res.bind_eq_ok h
        obtain ⟨r2, h2, h⟩ := Res.bind_eq_ok h
        cases h
        exact maybeCommitByVote_g h2 (poll_ok hA _ _ _ _ _ _ h1 h0 ho hnb hcm).1
  · cases h; exact h0

/-- the term preamble: the dispatch runs on a state with nothing queued; a consumed message leaves at
most a reply that claims nothing -/
theorem stepTerm_g {A : Nat → Nat → Nat → Prop} {a r r1 : Raft} {m : Message} {b : Bool}
    (h : r.stepTerm m = .ok (r1, b)) (h0 : G A a m r) (ho : Old a r) :
    G A a m r1 ∧ (b = true → Old a r1) := by
  unfold Raft.stepTerm at h
  split at h
  · cases h; exact ⟨h0, fun _ => ho⟩
  · split at h
    · simp only at h
      split at h
      · cases h; exact ⟨h0, fun hc => by cases hc⟩
      · split at h
        · cases h; exact ⟨h0, fun _ => ho⟩
        · split at h
          · cases h; exact ⟨becomeFollower_g _ _ h0 ho, fun _ => ho.becomeFollower _ _⟩
          · cases h; exact ⟨becomeFollower_g _ _ h0 ho, fun _ => ho.becomeFollower _ _⟩
    · split at h
      · split at h
        · split at h
          · rename_i r2 hs
            cases h
            refine ⟨send_g hs h0 rfl (fun _ => ?_) (fun hc => by cases hc) (fun hc => by cases hc),
              fun hc => by cases hc⟩
            exact akok_of_fill r _ rfl rfl (.inl rfl)
          · cases h
          · cases h
        · split at h
          · split at h
            · rename_i r2 hs
              cases h
              refine ⟨send_g hs h0 rfl (fun hc => ?_) (fun _ => ?_) (fun hc => by cases hc),
                fun hc => by cases hc⟩
              · have := hc.1; rw [sendFill_msgType] at this; cases this
              · left; exact (sendFill_vote r _ rfl).1
            · cases h
            · cases h
          · cases h; exact ⟨h0, fun hc => by cases hc⟩
      · cases h; exact ⟨h0, fun _ => ho⟩

theorem stepTerm_ack_term {r r1 : Raft} {m : Message} (h : r.stepTerm m = .ok (r1, true))
    (hty : m.msgType = .msgAppendResponse) : m.term = r1.term ∨ m.term = 0 := by
  unfold Raft.stepTerm at h
  split at h
  · rename_i h0; exact .inr h0
  · split at h
    · simp only at h
      split at h
      · cases h
      · split at h
        · rename_i hpv
          rw [hty] at hpv
          rcases hpv with c | ⟨c, _⟩ <;> cases c
        · split at h
          · cases h; exact .inl (becomeFollower_term_vote _ _ _).1.symm
          · cases h; exact .inl (becomeFollower_term_vote _ _ _).1.symm
    · split at h
      · split at h
        · split at h <;> cases h
        · split at h
          · split at h <;> cases h
          · cases h
      · cases h
        left; omega

theorem stepTerm_batch {r r1 : Raft} {m : Message} (h : r.stepTerm m = .ok (r1, true)) :
    r1.batchAppend = r.batchAppend := by
  rcases RaftProps.C16.stepTerm_true h with g | ⟨_, _, _, l, g⟩
  · rw [g]
  · rw [g]; exact becomeFollower_batchAppend _ _ _

/-- the anchor message matters only through accepted appends -/
theorem G.reanchor {A : Nat → Nat → Nat → Prop} {a r : Raft} {m m' : Message} (h : G A a m r)
    (hm : m.msgType ≠ .msgAppend) : G A a m' r :=
  ⟨h.id, h.mok, h.lc, h.qlk, fun x hx hty => (h.qak x hx hty).imp (fun g => g) (fun g =>
    ⟨g.term, g.frm, g.src.elim .inl (fun d => absurd d.2.1 hm)⟩), h.qvk, h.qrq⟩

/-- **`Raft::step`**, entered with nothing queued; the input is not a snapshot, and an accepting
append response is backed by `A` -/
theorem step_g {A : Nat → Nat → Nat → Prop} {a r r' : Raft} {m : Message} {e : Option RaftError}
    (hA : ∀ j t x y, y ≤ x → A j t x → A j t y) (hnb : r.batchAppend = false)
    (hms : m.msgType ≠ .msgSnapshot) (hin : ∀ t, AckIn m t → A m.frm t m.index)
    (h : r.step m = .ok (r', e)) (h0 : G A a m r) (ho : Old a r)
    (hcm : r.raftLog.committed = a.raftLog.committed) : G A a m r' := by
  unfold Raft.step at h
  split at h
  · cases h
  · cases h
  · rename_i r1 hst
    cases h
    exact (stepTerm_g hst h0 ho).1
  · rename_i r1 hst
    obtain ⟨g1, o1⟩ := stepTerm_g hst h0 ho
    have o1 := o1 rfl
    have b1 : r1.batchAppend = false := (stepTerm_batch hst).trans hnb
    have c1 : r1.raftLog.committed = a.raftLog.committed :=
      (stepTerm_cp (P := fun x => x = a.raftLog.committed) hst ⟨hcm⟩).h
    split at h
    · obtain ⟨r2, h2, h⟩ := Res.bind_eq_ok h
      cases h
      exact hup_g hA b1 h2 g1 o1 c1
    · split at h
      · cases h; rename_i r2 hv; exact stepVote_g hv g1
      · cases h
      · cases h
    · split at h
      · cases h; rename_i r2 hv; exact stepVote_g hv g1
      · cases h
      · cases h
    · split at h
      · exact stepCandidate_g hA b1 o1 c1 hms h g1
      · exact stepCandidate_g hA b1 o1 c1 hms h g1
      · rename_i hs; exact stepFollower_g hA b1 hs o1 c1 hms h g1
      · rename_i hs
        refine stepLeader_g hA b1 hs o1 c1 (fun hty hrej => ?_) h g1
        exact hin _ ⟨hty, hrej, stepTerm_ack_term hst hty⟩

theorem stepIgnore_g {A : Nat → Nat → Nat → Prop} {a r r' : Raft} {m : Message}
    (hA : ∀ j t x y, y ≤ x → A j t x → A j t y) (hnb : r.batchAppend = false)
    (hms : m.msgType ≠ .msgSnapshot) (hin : ∀ t, AckIn m t → A m.frm t m.index)
    (h : r.stepIgnore m = .ok r') (h0 : G A a m r) (ho : Old a r)
    (hcm : r.raftLog.committed = a.raftLog.committed) : G A a m r' := by
  unfold Raft.stepIgnore at h
  obtain ⟨⟨r1, e⟩, h1, h⟩ := Res.bind_eq_ok h
  cases h
  exact step_g hA hnb hms hin h1 h0 ho hcm

end CC
end Raft
end RaftModel
