import RaftProofs.ClusterCommit5c2R

/-!
Cluster-level commit safety **with `batch_append`** (copy of `ClusterCommit2T.lean` over the bundles without `NoBatch`), part 2T: **the components of the main induction** (`Sm`) and the facts
about leaders' logs and commit events that follow from the components at earlier points (`SAll`).

For a history `h` under `Hyp3aB`, `Sm h c0 m s` collects what is known about the state `s = h[m]`, for
**every** commit event `E` of the history (past or future — the events are a prophecy, like the owners
of the terms in the Log Matching layer):

* `lc` (Leader Completeness): a leader of a later term holds the committed entry;
* `retm` / `rets` (retention): a node that acknowledged the committed index for the event's term (or is
  the committing leader, with the index persisted) holds the committed entry — in its logical log, and
  in its storage once the acknowledgement is in the transport;
* `a2m` / `a2s` (the promise of an acknowledgement): while the node is in the term of its
  acknowledgement, its log (its storage, once the acknowledgement is in the transport and its stored
  term is that term) equals a log of that term's leader up to the acknowledged index;
* `g1`: a granted vote of a node that acknowledged an event, for a later term that has not been led
  yet, answers a request whose `(log_term, index)` is at least `(t, c)`;
* `nctm` / `ncts`: what a node has marked committed (what its storage records as committed) was
  committed by a past event of a term not above the node's (stored) term, with these entries;
* `scm`: the stored commit index is not ahead of the commit index.
-/
namespace RaftModel
namespace ClusterB
open Node Raft Raft.CC RaftProps.C02 RaftProps.C05 Raft.CB Raft.Bt Cluster

/-- `L` is the logical log of the leader of term `t` at some point `h[m]`, `m ≤ N` -/
def LeaderLog (h : List Sys) (N t : Nat) (L : LLog) : Prop :=
  ∃ m s l st, m ≤ N ∧ h[m]? = some s ∧ s.node l = some st ∧ st.raft.state = .leader ∧
    st.raft.term = t ∧ L = st.raft.raftLog.abs

theorem LeaderLog.mono {h : List Sys} {N N' t : Nat} {L : LLog} (hl : LeaderLog h N t L)
    (hle : N ≤ N') : LeaderLog h N' t L := by
  obtain ⟨m, s, l, st, h1, h2⟩ := hl
  exact ⟨m, s, l, st, Nat.le_trans h1 hle, h2⟩

/-- the two logs hold the same entries up to `i` -/
def EqUpTo (g g' : LLog) (i : Nat) : Prop := ∀ k, k ≤ i → g.entryAt k = g'.entryAt k

theorem EqUpTo.mono {g g' : LLog} {i j : Nat} (h : EqUpTo g g' i) (hle : j ≤ i) : EqUpTo g g' j :=
  fun k hk => h k (Nat.le_trans hk hle)

theorem EqUpTo.symm {g g' : LLog} {i : Nat} (h : EqUpTo g g' i) : EqUpTo g' g i :=
  fun k hk => (h k hk).symm

theorem EqUpTo.trans {g1 g2 g3 : LLog} {i : Nat} (h1 : EqUpTo g1 g2 i) (h2 : EqUpTo g2 g3 i) :
    EqUpTo g1 g3 i := fun k hk => (h1 k hk).trans (h2 k hk)

theorem EqUpTo.has {g g' : LLog} {i c t : Nat} (h : EqUpTo g g' i) (hc : c ≤ i) (hh : Has g' c t) :
    Has g c t := Has.of_eq (h c hc) hh

/-- the prefix up to `cm` of `g` is covered by a past commit event of a term at most `term` -/
def Covered (h : List Sys) (c0 m cm term : Nat) (g : LLog) : Prop :=
  cm ≤ c0 ∨ ∃ E : Ev, E.ok h ∧ E.nE < m ∧ cm ≤ E.c ∧ E.t ≤ term ∧ EqUpTo g E.gE cm

/-- what an accepting append response promises about the log `g` of its sender -/
def Promise (h : List Sys) (m : Nat) (a : Message) (g : LLog) : Prop :=
  ∃ L, LeaderLog h m a.term L ∧ a.index ≤ L.lastIndex ∧ EqUpTo g L a.index

structure Sm (h : List Sys) (c0 m : Nat) (s : Sys) : Prop where
  lc : ∀ E : Ev, E.ok h → ∀ l st, s.node l = some st → st.raft.state = .leader →
    E.t < st.raft.term → Has st.raft.raftLog.abs E.c E.t
  retm : ∀ E : Ev, E.ok h → ∀ v st, s.node v = some st → AckedMem s m E v st →
    Has st.raft.raftLog.abs E.c E.t
  rets : ∀ E : Ev, E.ok h → ∀ v st, s.node v = some st → AckedDur s m E v →
    Has (storeLog st.raft.raftLog.store) E.c E.t
  a2m : ∀ v st, s.node v = some st → ∀ a, (a ∈ s.net ∨ a ∈ st.raft.msgs) → isAck a → a.frm = v →
    c0 < a.index → a.term = st.raft.term → Promise h m a st.raft.raftLog.abs
  a2s : ∀ v st, s.node v = some st → ∀ a ∈ s.net, isAck a → a.frm = v → c0 < a.index →
    a.term = st.raft.raftLog.store.hardState.term →
    Promise h m a (storeLog st.raft.raftLog.store)
  g1 : ∀ E : Ev, E.ok h → ∀ v st g, s.node v = some st → (g ∈ s.net ∨ g ∈ st.raft.msgs) →
    isGrant g → g.frm = v → E.t < g.term → AckedMem s m E v st → ¬ LedBy h m g.term →
    ∃ q ∈ s.net, q.msgType = .msgRequestVote ∧ q.frm = g.to ∧ q.term = g.term ∧ UpTo q E.c E.t
  nctm : ∀ v st, s.node v = some st →
    Covered h c0 m st.raft.raftLog.committed st.raft.term st.raft.raftLog.abs
  ncts : ∀ v st, s.node v = some st →
    Covered h c0 m st.raft.raftLog.store.hardState.commit st.raft.raftLog.store.hardState.term
      (storeLog st.raft.raftLog.store)
  scm : ∀ v st, s.node v = some st →
    st.raft.raftLog.store.hardState.commit ≤ st.raft.raftLog.committed

/-- everything up to index `n` -/
def SAll (h : List Sys) (c0 n : Nat) : Prop := ∀ m s, m ≤ n → h[m]? = some s → Sm h c0 m s

variable {cfg : JointConfig} {c0 : Nat} {h : List Sys}

/-- the log of a commit event is a leader's log -/
theorem Ev.leaderLog (H : Hyp2wB cfg c0 h) {E : Ev} (hE : E.ok h) :
    LeaderLog h (E.nE + 1) E.t E.gE ∧ Has E.gE E.c E.t ∧ c0 < E.c := by
  obtain ⟨a, b, sta, stb, ha, hb, hla, hlb, hs, ht, hc, hg, _, _, hc0, hh, _⟩ := Ev.facts H hE
  exact ⟨⟨E.nE + 1, b, E.l, stb, Nat.le_refl _, hb, hlb, hs, ht, hg⟩, hh, hc0⟩

/-- two logs of the leader of one term hold the same entry wherever both reach -/
theorem ll_eq (H : Hyp2wB cfg c0 h) {N N' t : Nat} {L L' : LLog} (h1 : LeaderLog h N t L)
    (h2 : LeaderLog h N' t L') {k : Nat} (hk : k ≤ L.lastIndex) (hk' : k ≤ L'.lastIndex) :
    L.entryAt k = L'.entryAt k := by
  obtain ⟨m, s, l, st, _, a2, a3, a4, a5, rfl⟩ := h1
  obtain ⟨m', s', l', st', _, b2, b3, b4, b5, rfl⟩ := h2
  exact leader_logs_eq H a2 b2 a3 b3 a4 b4 a5 b5 hk hk'

/-- a node's log that holds an entry of a leader's log at `c` equals that log up to `c` -/
theorem eq_ll (H : Hyp2wB cfg c0 h) {n : Nat} {s : Sys} (hn : h[n]? = some s) {v : Nat}
    {st : NState} (hv : s.node v = some st) {N t : Nat} {L : LLog} (hL : LeaderLog h N t L)
    {c τ : Nat} (h1 : Has st.raft.raftLog.abs c τ) (h2 : Has L c τ) :
    EqUpTo st.raft.raftLog.abs L c := by
  obtain ⟨m', s', l', st', _, b2, b3, _, _, rfl⟩ := hL
  obtain ⟨e1, he1, ht1⟩ := h1
  obtain ⟨e2, he2, ht2⟩ := h2
  exact logs_eq_below H hn b2 hv b3 he1 he2 (ht1.trans ht2.symm)

/-- **a leader of the event's term or a later one holds the committed entry** (for the event's own
term: once its log reaches the index) -/
theorem ll_has (H : Hyp2wB cfg c0 h) {n : Nat} (S : SAll h c0 n) {τ : Nat} {L : LLog}
    (hL : LeaderLog h n τ L) {E : Ev} (hE : E.ok h) (hle : E.t ≤ τ)
    (hreach : τ = E.t → E.c ≤ L.lastIndex) : Has L E.c E.t := by
  by_cases hlt : E.t < τ
  · obtain ⟨m, s, l, st, a1, a2, a3, a4, a5, rfl⟩ := hL
    exact (S m s a1 a2).lc E hE l st a3 a4 (by rw [a5]; exact hlt)
  · have heq : τ = E.t := by omega
    subst heq
    obtain ⟨hEl, hEh, _⟩ := Ev.leaderLog H hE
    obtain ⟨e, he, het⟩ := hEh
    have := ll_eq H hL hEl (hreach rfl) (E.gE.entryAt_lt he).2
    exact ⟨e, this.trans he, het⟩

/-- **the logs of two commit events agree**: the log of a past event `E0` holds the entry of any event
`E` that committed no more (`E.c ≤ E0.c`) — given, when `E0`'s term is the smaller one, that `E`'s term
has been led by now -/
theorem ctf (H : Hyp2wB cfg c0 h) {n : Nat} (S : SAll h c0 n) {E0 E : Ev} (hE0 : E0.ok h)
    (hE : E.ok h) (hpast : E0.nE < n) (hc : E.c ≤ E0.c)
    (hled : E0.t < E.t → ∃ L, LeaderLog h n E.t L) : Has E0.gE E.c E.t := by
  obtain ⟨hl0, hh0, _⟩ := Ev.leaderLog H hE0
  obtain ⟨e0, he0, _⟩ := id hh0
  have hl0' : LeaderLog h n E0.t E0.gE := hl0.mono (by omega)
  by_cases h1 : E.t ≤ E0.t
  · exact ll_has H S hl0' hE h1 (fun _ => Nat.le_trans hc (E0.gE.entryAt_lt he0).2)
  · obtain ⟨L, hL⟩ := hled (by omega)
    -- the leader of `E`'s term holds `E0`'s entry, hence `E0`'s log up to there
    have hLh0 : Has L E0.c E0.t := ll_has H S hL hE0 (by omega) (fun hc' => by omega)
    obtain ⟨eL, heL, hetL⟩ := hLh0
    have hreach : E.c ≤ L.lastIndex := Nat.le_trans hc (L.entryAt_lt heL).2
    have hLh : Has L E.c E.t := ll_has H S hL hE (Nat.le_refl _) (fun _ => hreach)
    obtain ⟨m, s, l, st, a1, a2, a3, a4, a5, rfl⟩ := hL
    have hq := eq_ll H a2 a3 hl0 ⟨eL, heL, hetL⟩ hh0
    exact Has.of_eq (hq E.c hc).symm hLh

end ClusterB
end RaftModel
