import RaftProofs.ClusterLogI

/-!
Cluster-level Log Matching, part J: the cluster invariant `InvL` and its preservation by a transition
`Trans` (one node replaced, provenance of all chains known).

`own k t` is the *prophecy* "node `k` is the node that leads term `t` somewhere in the history under
consideration" (unique per term by Election Safety); the invariant is stated relative to it:

* `fresh`: while the owner of `t` can still become leader of `t` (its term is below `t`, or it is
  candidate of `t`), no entry of term `t` exists anywhere;
* `dur`: while the owner's *stored* term is below `t`, entries of term `t` exist only in its own
  volatile places (its in-memory log and queue) — so a crash then erases them all;
* `lead`: while a node leads `t`, every entry of term `t` anywhere has an index within its log;
* `agree`: all chains agree pairwise (same index and term ⇒ same entry, same predecessor term).
-/
namespace RaftModel
namespace Cluster
open Node Raft

/-- the node can still become leader of term `t` without a restart -/
def CanLead (r : Raft) (t : Nat) : Prop := r.term < t ∨ (r.term = t ∧ r.state = .candidate)

theorem CanLead.back {a r : Raft} {t : Nat} (rt : RT a r) (h : CanLead r t) : CanLead a t := by
  rcases h with h | ⟨h1, h2⟩
  · exact .inl (by have := rt.le; omega)
  · rcases rt.cand h2 with c | ⟨c1, c2⟩
    · exact .inl (by omega)
    · exact .inr ⟨by omega, c2⟩

structure InvL (own : Nat → Nat → Prop) (ini : Entry → Prop) (s : Sys) : Prop where
  inv : ∀ i st, s.node i = some st → st.raft.raftLog.Inv
  tz : ∀ i st, s.node i = some st → (st.raft.state = .candidate ∨ st.raft.state = .leader) →
    st.raft.term ≠ 0
  wfq : ∀ i st x, s.node i = some st → x ∈ st.raft.msgs → x.msgType = .msgAppend →
    ContigFrom (x.index + 1) x.entries
  wfn : ∀ x, x ∈ s.net → x.msgType = .msgAppend → ContigFrom (x.index + 1) x.entries
  nz : ∀ loc g, At s loc g → ∀ i e, g.entryAt i = some e → e.term ≠ 0
  agree : ∀ l1 g1 l2 g2, At s l1 g1 → At s l2 g2 → Agree g1 g2
  fresh : ∀ k t st, own k t → s.node k = some st → CanLead st.raft t →
    ∀ loc g, At s loc g → ∀ i e, g.entryAt i = some e → e.term ≠ t
  dur : ∀ k t st, own k t → s.node k = some st → st.raft.raftLog.store.hardState.term < t →
    ∀ loc g, At s loc g → ¬ Vol k loc → ∀ i e, g.entryAt i = some e → e.term ≠ t
  lead : ∀ k st, s.node k = some st → st.raft.state = .leader →
    ∀ loc g, At s loc g → ∀ i e, g.entryAt i = some e → e.term = st.raft.term →
      i ≤ st.raft.raftLog.lastIndex
  /-- every entry was there from the start (`ini`) or carries a term that has an owner -/
  orig : ∀ loc g, At s loc g → ∀ i e, g.entryAt i = some e → ini e ∨ ∃ k, own k e.term

/-- one transition: node `k` goes from `st` to `st'`, everything else is kept (the transport may
grow by `k`'s queue); `pers`: the step makes volatile content of `k` durable, which requires the
stored term to be the current one; `crash`: the step is a restart -/
structure Trans (s s' : Sys) (k : Nat) (st st' : NState) (pers crash : Prop) : Prop where
  hk : s.node k = some st
  hk' : s'.node k = some st'
  oth : ∀ j, j ≠ k → s'.node j = s.node j
  prov : Prov s s' k st st' pers
  pers_ge : pers → st'.raft.term ≤ st'.raft.raftLog.store.hardState.term
  rt : (RT st.raft st'.raft ∧ ¬ crash) ∨
    (st'.raft.state = .follower ∧ st'.raft.term = st.raft.raftLog.store.hardState.term ∧
      crash ∧ ¬ pers)
  novol : crash → ∀ loc' g', At s' loc' g' → ∀ i e, g'.entryAt i = some e →
    ∃ loc g, At s loc g ∧ g.entryAt i = some e ∧ ¬ Vol k loc
  hs : CV.HsRel st.raft st'.raft
  keep : st.raft.state = .leader → st'.raft.state = .leader → st'.raft.term = st.raft.term →
    st.raft.raftLog.lastIndex ≤ st'.raft.raftLog.lastIndex
  inv' : st'.raft.raftLog.Inv
  wfq' : ∀ x ∈ st'.raft.msgs, x.msgType = .msgAppend → ContigFrom (x.index + 1) x.entries
  wfn' : ∀ x ∈ s'.net, x ∈ s.net ∨ x ∈ st.raft.msgs

theorem vol_other {j k : Nat} (hjk : j ≠ k) {loc loc' : Loc}
    (hsrc : loc = loc' ∨ OfK k loc ∨ loc = .net) (hnv : ¬ Vol j loc') : ¬ Vol j loc := by
  rcases hsrc with h | h | h
  · rw [h]; exact hnv
  · intro hv
    cases loc with
    | log i => exact hjk ((show i = j from hv).symm.trans (show i = k from h))
    | queue i => exact hjk ((show i = j from hv).symm.trans (show i = k from h))
    | store i => exact hv
    | net => exact hv
  · rw [h]; intro hv; exact hv

/-- a link that was in `s` cannot sit beyond the old last index of `k` with the term `k` leads in
`s'` -/
theorem no_old {own : Nat → Nat → Prop} {ini : Entry → Prop} {s s' : Sys} {k : Nat} {st st' : NState} {pers crash : Prop}
    (I : InvL own ini s) (T : Trans s s' k st st' pers crash)
    (hown' : ∀ i t, leads s' i t → own i t)
    (hl : st'.raft.state = .leader) {loc : Loc} {g : LLog} (hA : At s loc g) {i : Nat} {e : Entry}
    (hE : g.entryAt i = some e) (ht : e.term = st'.raft.term)
    (hi : st.raft.raftLog.lastIndex < i) : False := by
  have hownk : own k st'.raft.term := hown' k _ ⟨st', T.hk', hl, rfl⟩
  rcases T.rt with ⟨rt, _⟩ | ⟨hf, _⟩
  · rcases rt.lead hl with c | ⟨c1, c2 | c2⟩
    · exact I.fresh k _ st hownk T.hk (.inl c) loc g hA i e hE ht
    · exact I.fresh k _ st hownk T.hk (.inr ⟨c1, c2⟩) loc g hA i e hE ht
    · have := I.lead k st T.hk c2 loc g hA i e hE (ht.trans c1.symm)
      omega
  · rw [hf] at hl; cases hl

theorem InvL.trans {own : Nat → Nat → Prop} {ini : Entry → Prop} {s s' : Sys} {k : Nat} {st st' : NState}
    {pers crash : Prop}
    (huniq : ∀ i j t, own i t → own j t → i = j)
    (hown' : ∀ i t, leads s' i t → own i t)
    (I : InvL own ini s) (T : Trans s s' k st st' pers crash) : InvL own ini s' := by
  have node' : ∀ j stj', s'.node j = some stj' → (j = k ∧ st' = stj') ∨ (j ≠ k ∧ s.node j = some stj') := by
    intro j stj' hj
    by_cases hjk : j = k
    · subst hjk
      rw [T.hk'] at hj
      cases hj
      exact .inl ⟨rfl, rfl⟩
    · exact .inr ⟨hjk, by rw [← T.oth j hjk]; exact hj⟩
  have freshOwner : ∀ j stj', s'.node j = some stj' → stj'.raft.state = .leader →
      st'.raft.state = .leader → stj'.raft.term = st'.raft.term → j = k := by
    intro j stj' hj hl hl' ht
    exact huniq j k _ (hown' j _ ⟨stj', hj, hl, rfl⟩) (ht ▸ hown' k _ ⟨st', T.hk', hl', rfl⟩)
  refine ⟨?_, ?_, ?_, ?_, ?_, ?_, ?_, ?_, ?_, ?_⟩
  · -- inv
    intro j stj' hj
    rcases node' j stj' hj with ⟨_, rfl⟩ | ⟨_, h⟩
    · exact T.inv'
    · exact I.inv j stj' h
  · -- tz
    intro j stj' hj hs
    rcases node' j stj' hj with ⟨_, rfl⟩ | ⟨_, h⟩
    · rcases T.rt with ⟨rt, _⟩ | ⟨hf, _⟩
      · rcases hs with hs | hs
        · rcases rt.cand hs with c | ⟨c1, c2⟩
          · omega
          · rw [← c1]; exact I.tz k st T.hk (.inl c2)
        · rcases rt.lead hs with c | ⟨c1, c2 | c2⟩
          · omega
          · rw [← c1]; exact I.tz k st T.hk (.inl c2)
          · rw [← c1]; exact I.tz k st T.hk (.inr c2)
      · rcases hs with hs | hs <;> rw [hf] at hs <;> cases hs
    · exact I.tz j stj' h hs
  · -- wfq
    intro j stj' x hj hx hty
    rcases node' j stj' hj with ⟨_, rfl⟩ | ⟨_, h⟩
    · exact T.wfq' x hx hty
    · exact I.wfq j stj' x h hx hty
  · -- wfn
    intro x hx hty
    rcases T.wfn' x hx with h | h
    · exact I.wfn x h hty
    · exact I.wfq k st x T.hk h hty
  · -- nz
    intro loc' g' hat i e he
    rcases T.prov loc' g' hat i e he with ⟨loc, g, hA, hE, _⟩ | ⟨_, hl, ht, _⟩
    · exact I.nz loc g hA i e hE
    · rw [ht]
      rcases T.rt with ⟨rt, _⟩ | ⟨hf, _⟩
      · rcases rt.lead hl with c | ⟨c1, c2 | c2⟩
        · omega
        · rw [← c1]; exact I.tz k st T.hk (.inl c2)
        · rw [← c1]; exact I.tz k st T.hk (.inr c2)
      · rw [hf] at hl; cases hl
  · -- agree
    intro l1 g1 l2 g2 h1 h2 i e1 e2 he1 he2 hterm
    rcases T.prov l1 g1 h1 i e1 he1 with ⟨loc1, x1, hA1, hE1, hP1, _⟩ | ⟨_, hl1, ht1, hi1, hL1, hQ1⟩
    · rcases T.prov l2 g2 h2 i e2 he2 with ⟨loc2, x2, hA2, hE2, hP2, _⟩ | ⟨_, hl2, ht2, hi2, hL2, hQ2⟩
      · obtain ⟨heq, hpp⟩ := I.agree loc1 x1 loc2 x2 hA1 hA2 i e1 e2 hE1 hE2 hterm
        exact ⟨heq, fun p p' hp hp' => hpp p p' (hP1 p hp) (hP2 p' hp')⟩
      · exact (no_old I T hown' hl2 hA1 hE1 (hterm.trans ht2) hi2).elim
    · rcases T.prov l2 g2 h2 i e2 he2 with ⟨loc2, x2, hA2, hE2, hP2, _⟩ | ⟨_, hl2, ht2, hi2, hL2, hQ2⟩
      · exact (no_old I T hown' hl1 hA2 hE2 (hterm.symm.trans ht1) hi1).elim
      · rw [hL1] at hL2
        cases hL2
        refine ⟨rfl, fun p p' hp hp' => ?_⟩
        have a := hQ1 p hp
        have b := hQ2 p' hp'
        rw [a] at b
        cases b; rfl
  · -- fresh
    intro j t stj' hown hj hcl loc' g' hat i e he heq
    rcases T.prov loc' g' hat i e he with ⟨loc, g, hA, hE, _, _, hvol⟩ | ⟨_, hl, ht, _⟩
    · rcases node' j stj' hj with ⟨rfl, rfl⟩ | ⟨_, h⟩
      · rcases T.rt with ⟨rt, _⟩ | ⟨hf, hte, hcr, _⟩
        · exact I.fresh j t st hown T.hk (hcl.back rt) loc g hA i e hE heq
        · have hlt : st.raft.raftLog.store.hardState.term < t := by
            rcases hcl with c | ⟨_, c⟩
            · omega
            · rw [hf] at c; cases c
          obtain ⟨loc0, g0, hA0, hE0, hnv0⟩ := T.novol hcr loc' g' hat i e he
          exact I.dur j t st hown T.hk hlt loc0 g0 hA0 hnv0 i e hE0 heq
      · exact I.fresh j t stj' hown h hcl loc g hA i e hE heq
    · have hjk : j = k := huniq j k t hown (by
        have := hown' k _ ⟨st', T.hk', hl, rfl⟩
        rw [← ht, heq] at this; exact this)
      subst hjk
      rw [T.hk'] at hj
      cases hj
      rcases hcl with c | ⟨_, c⟩
      · omega
      · rw [hl] at c; cases c
  · -- dur
    intro j t stj' hown hj hst loc' g' hat hnv i e he heq
    rcases T.prov loc' g' hat i e he with ⟨loc, g, hA, hE, _, hsrc, hvol⟩ | ⟨hv, hl, ht, _⟩
    · rcases node' j stj' hj with ⟨rfl, rfl⟩ | ⟨hjk, h⟩
      · by_cases hvl : Vol j loc
        · rcases hvol hvl with hv' | hp
          · exact hnv hv'
          · rcases T.rt with ⟨rt, _⟩ | ⟨_, _, _, hnp⟩
            · have h1 := T.pers_ge hp
              have h2 := rt.le
              exact I.fresh j t st hown T.hk (.inl (by omega)) loc g hA i e hE heq
            · exact hnp hp
        · rcases T.hs with ⟨c, _⟩ | ⟨c1, _, c3, _⟩ | ⟨c, _⟩
          · exact I.dur j t st hown T.hk (by omega) loc g hA hvl i e hE heq
          · exact I.fresh j t st hown T.hk (.inl (by omega)) loc g hA i e hE heq
          · exact I.dur j t st hown T.hk (by omega) loc g hA hvl i e hE heq
      · exact I.dur j t stj' hown h hst loc g hA (vol_other hjk hsrc hnv) i e hE heq
    · have hjk : j = k := huniq j k t hown (by
        have := hown' k _ ⟨st', T.hk', hl, rfl⟩
        rw [← ht, heq] at this; exact this)
      subst hjk
      exact hnv hv
  · -- lead
    intro j stj' hj hlead loc' g' hat i e he heq
    rcases T.prov loc' g' hat i e he with ⟨loc, g, hA, hE, _⟩ | ⟨_, hl, ht, _, hL, _⟩
    · rcases node' j stj' hj with ⟨rfl, rfl⟩ | ⟨_, h⟩
      · have hownj : own j st'.raft.term := hown' j _ ⟨st', T.hk', hlead, rfl⟩
        rcases T.rt with ⟨rt, _⟩ | ⟨hf, _⟩
        · rcases rt.lead hlead with c | ⟨c1, c2 | c2⟩
          · exact (I.fresh j _ st hownj T.hk (.inl c) loc g hA i e hE heq).elim
          · exact (I.fresh j _ st hownj T.hk (.inr ⟨c1, c2⟩) loc g hA i e hE heq).elim
          · have h1 := I.lead j st T.hk c2 loc g hA i e hE (heq.trans c1.symm)
            have h2 := T.keep c2 hlead c1.symm
            omega
        · rw [hf] at hlead; cases hlead
      · exact I.lead j stj' h hlead loc g hA i e hE heq
    · have hjk : j = k := freshOwner j stj' hj hlead hl (heq.symm.trans ht)
      subst hjk
      rw [T.hk'] at hj
      cases hj
      have := (st'.raft.raftLog.abs.entryAt_lt hL).2
      rw [T.inv'.lastIndex_abs]; exact this

  · -- orig
    intro loc' g' hat i e he
    rcases T.prov loc' g' hat i e he with ⟨loc, g, hA, hE, _⟩ | ⟨_, hl, ht, _⟩
    · exact I.orig loc g hA i e hE
    · exact .inr ⟨k, by rw [ht]; exact hown' k _ ⟨st', T.hk', hl, rfl⟩⟩

end Cluster
end RaftModel
